(** Properties_C08.v — C08: any single allocation failure makes the call fail cleanly.

    Every statement quantifies over an ARBITRARY failure schedule [oracle : nat -> bool] (request k
    fails iff [oracle k = true]) — strictly more than "exactly one request, the k-th, is refused" —
    and, for the printers, over both allocator configurations ([hr]: hooks.reallocate available or
    not), both formats, every tree whose scalar fields are C values ([fields_ok]), every contents of
    fresh memory ([junk]) and every C library meeting [LibcPrintSpec] (a hypothesis, not an axiom).

    What the statements say, in the property's words:
      * "the call either completes normally or reports failure by its NULL result; it never crashes or
        dereferences the failed allocation": the outcome of the transliterated call is [Ok r] — never
        [OOB] (every buffer access of the model is bounds-checked and a write through a NULL buffer is
        [OOB]), never [OutOfFuel];
      * "nothing allocated during the call remains allocated": [prr_block r = None -> prr_live r = 0],
        [pr_tree r = None -> pr_live r = 0] ([*_live] counts the blocks allocated by the call and not
        released when it returns);
      * on success the ledger holds exactly what the caller receives: the returned text (one block) /
        the blocks of the returned tree.
      * "no pre-existing tree is modified or freed; the library remains usable": for the parser and the
        printers this is STRUCTURAL in the model, as it is in the C code: cJSON_Parse* read only the
        caller's text, the printers only read the tree (a [const cJSON *]); the model functions take
        the text / the tree as an immutable value and do not take the heap of pre-existing trees as
        an argument, so there is nothing they could modify; the only state shared with later calls is
        the allocator, whose ledger is the subject of the statements above.  (global_error is the
        parser's only other global; its value after the call is characterised in C10.)
    The tree-API scenarios (create, references, duplicate, replace by key, set valuestring, bulk
    constructors, cJSON_AddItemToObject) are at the end of the file (section "tree API"). *)
From CJ Require Import Base Dbl Tree LibcNum LibcPrint ParseDefs ParseSafe ParseEntry PrintDefs PrintProofs
  PrintFail PrintFailExt PrintFailParse PrintFailParseExt.
Local Open Scope Z_scope.

(** ------------------------------------------------------------------ printers *)

(* cJSON_Print / cJSON_PrintUnformatted: NULL => nothing left allocated (every failure exit of ensure, of
   print_value and of the final shrink-to-fit releases the print buffer); a block => it is the only block
   left, and it holds exactly the rendered text and its terminator.  Seeded change C08_A (buffer pointer
   cleared before the result of the final realloc is checked) is a counterexample to this statement. *)
Theorem C08_print_clean :
  forall fmt_d fmt_g15 fmt_g17 sscanf_lg, LibcPrintSpec fmt_d fmt_g15 fmt_g17 ->
  forall oracle junk (t : node) (fmt hr : bool),
    fields_ok t = true ->
    exists r, print fmt_d fmt_g15 fmt_g17 sscanf_lg oracle junk t fmt hr = Ok r /\
      (prr_block r = None -> prr_live r = 0) /\
      (forall block, prr_block r = Some block ->
         prr_live r = 1 /\ exists txt, render fmt_d fmt_g15 fmt_g17 sscanf_lg fmt 0 t = Some txt /\ block = txt ++ [0]).
Proof. exact print_ledger. Qed.
Print Assumptions C08_print_clean.

(* the ledger clause alone, for any libc at all and without [fields_ok]: whenever the call returns *)
Theorem C08_print_ledger :
  forall oracle junk fmt_d fmt_g15 fmt_g17 sscanf_lg (t : node) (fmt hr : bool) r,
    print fmt_d fmt_g15 fmt_g17 sscanf_lg oracle junk t fmt hr = Ok r ->
    (prr_block r = None -> prr_live r = 0) /\ (forall b, prr_block r = Some b -> prr_live r = 1).
Proof. exact print_ledger_inv. Qed.
Print Assumptions C08_print_ledger.

(* "completes normally": a call that meets no refused request returns the text *)
Theorem C08_print_completes :
  forall fmt_d fmt_g15 fmt_g17 sscanf_lg, LibcPrintSpec fmt_d fmt_g15 fmt_g17 ->
  forall oracle junk (t : node) (fmt hr : bool) txt,
    fields_ok t = true -> (forall i, oracle i = false) ->
    render fmt_d fmt_g15 fmt_g17 sscanf_lg fmt 0 t = Some txt -> zlen txt + 2 <= c_INT_MAX ->
    exists r, print fmt_d fmt_g15 fmt_g17 sscanf_lg oracle junk t fmt hr = Ok r /\
              prr_block r = Some (txt ++ [0]) /\ prr_live r = 1.
Proof. exact print_completes. Qed.
Print Assumptions C08_print_completes.

(* cJSON_PrintBuffered, every prebuffer >= 0 (a refused first request returns NULL with nothing allocated;
   growth failures inside ensure release the buffer; a failed print_value releases it) *)
Theorem C08_print_buffered_clean :
  forall fmt_d fmt_g15 fmt_g17 sscanf_lg, LibcPrintSpec fmt_d fmt_g15 fmt_g17 ->
  forall oracle junk (t : node) (prebuffer : Z) (fmt hr : bool),
    fields_ok t = true -> 0 <= prebuffer ->
    exists r, cJSON_PrintBuffered fmt_d fmt_g15 fmt_g17 sscanf_lg oracle junk t prebuffer fmt hr = Ok r /\
      (prr_block r = None -> prr_live r = 0) /\
      (forall block, prr_block r = Some block ->
         prr_live r = 1 /\ exists txt rest, render fmt_d fmt_g15 fmt_g17 sscanf_lg fmt 0 t = Some txt /\ block = txt ++ 0 :: rest).
Proof. exact print_buffered_ledger. Qed.
Print Assumptions C08_print_buffered_clean.

Theorem C08_print_buffered_ledger :
  forall oracle junk fmt_d fmt_g15 fmt_g17 sscanf_lg (t : node) (prebuffer : Z) (fmt hr : bool) r,
    cJSON_PrintBuffered fmt_d fmt_g15 fmt_g17 sscanf_lg oracle junk t prebuffer fmt hr = Ok r ->
    (prr_block r = None -> prr_live r = 0) /\ (forall b, prr_block r = Some b -> prr_live r = 1).
Proof. exact print_buffered_ledger_inv. Qed.
Print Assumptions C08_print_buffered_ledger.

Theorem C08_print_buffered_completes :
  forall fmt_d fmt_g15 fmt_g17 sscanf_lg, LibcPrintSpec fmt_d fmt_g15 fmt_g17 ->
  forall oracle junk (t : node) (prebuffer : Z) (fmt hr : bool) txt,
    fields_ok t = true -> 0 <= prebuffer -> (forall i, oracle i = false) ->
    render fmt_d fmt_g15 fmt_g17 sscanf_lg fmt 0 t = Some txt -> zlen txt + 2 <= c_INT_MAX ->
    exists r rest, cJSON_PrintBuffered fmt_d fmt_g15 fmt_g17 sscanf_lg oracle junk t prebuffer fmt hr = Ok r /\
                   prr_block r = Some (txt ++ 0 :: rest) /\ prr_live r = 1.
Proof. exact print_buffered_completes. Qed.
Print Assumptions C08_print_buffered_completes.

(* a negative prebuffer is refused before any request is made *)
Theorem C08_print_buffered_negative :
  forall fmt_d fmt_g15 fmt_g17 sscanf_lg oracle junk (t : node) (prebuffer : Z) (fmt hr : bool),
    prebuffer < 0 ->
    cJSON_PrintBuffered fmt_d fmt_g15 fmt_g17 sscanf_lg oracle junk t prebuffer fmt hr = Ok (mkprr None 0 0).
Proof. exact print_buffered_negative. Qed.
Print Assumptions C08_print_buffered_negative.

(* the schedule is consulted only at the requests the call makes: a schedule that agrees with [o1] below the
   number of requests made under [o1] gives the same result — so "the k-th request fails" with k beyond the
   requests of the failure-free run is the failure-free run *)
Theorem C08_print_schedule_prefix :
  forall o1 o2 junk fmt_d fmt_g15 fmt_g17 sscanf_lg (t : node) (fmt hr : bool) r,
    print fmt_d fmt_g15 fmt_g17 sscanf_lg o1 junk t fmt hr = Ok r ->
    forall N, (forall k, (k < N)%nat -> o2 k = o1 k) -> (prr_requests r <= N)%nat ->
    print fmt_d fmt_g15 fmt_g17 sscanf_lg o2 junk t fmt hr = Ok r.
Proof. exact print_ext. Qed.
Print Assumptions C08_print_schedule_prefix.

Theorem C08_print_buffered_schedule_prefix :
  forall o1 o2 junk fmt_d fmt_g15 fmt_g17 sscanf_lg (t : node) (prebuffer : Z) (fmt hr : bool) r,
    cJSON_PrintBuffered fmt_d fmt_g15 fmt_g17 sscanf_lg o1 junk t prebuffer fmt hr = Ok r ->
    forall N, (forall k, (k < N)%nat -> o2 k = o1 k) -> (prr_requests r <= N)%nat ->
    cJSON_PrintBuffered fmt_d fmt_g15 fmt_g17 sscanf_lg o2 junk t prebuffer fmt hr = Ok r.
Proof. exact print_buffered_ext. Qed.
Print Assumptions C08_print_buffered_schedule_prefix.

(* "either completes normally or reports failure", exactly: when none of the requests the call made was refused
   it returns the text ... *)
Theorem C08_print_unrefused_completes :
  forall fmt_d fmt_g15 fmt_g17 sscanf_lg, LibcPrintSpec fmt_d fmt_g15 fmt_g17 ->
  forall oracle junk (t : node) (fmt hr : bool) r txt,
    fields_ok t = true -> print fmt_d fmt_g15 fmt_g17 sscanf_lg oracle junk t fmt hr = Ok r ->
    (forall k, (k < prr_requests r)%nat -> oracle k = false) ->
    render fmt_d fmt_g15 fmt_g17 sscanf_lg fmt 0 t = Some txt -> zlen txt + 2 <= c_INT_MAX ->
    prr_block r = Some (txt ++ [0]) /\ prr_live r = 1.
Proof. exact print_unrefused_completes. Qed.
Print Assumptions C08_print_unrefused_completes.

(* ... and NULL on a printable tree means one of the requests the call made was refused *)
Theorem C08_print_failure_has_cause :
  forall fmt_d fmt_g15 fmt_g17 sscanf_lg, LibcPrintSpec fmt_d fmt_g15 fmt_g17 ->
  forall oracle junk (t : node) (fmt hr : bool) r txt,
    fields_ok t = true -> print fmt_d fmt_g15 fmt_g17 sscanf_lg oracle junk t fmt hr = Ok r ->
    render fmt_d fmt_g15 fmt_g17 sscanf_lg fmt 0 t = Some txt -> zlen txt + 2 <= c_INT_MAX ->
    prr_block r = None -> exists k, (k < prr_requests r)%nat /\ oracle k = true.
Proof. exact print_failure_has_cause. Qed.
Print Assumptions C08_print_failure_has_cause.

Theorem C08_print_buffered_unrefused_completes :
  forall fmt_d fmt_g15 fmt_g17 sscanf_lg, LibcPrintSpec fmt_d fmt_g15 fmt_g17 ->
  forall oracle junk (t : node) (prebuffer : Z) (fmt hr : bool) r txt,
    fields_ok t = true -> 0 <= prebuffer ->
    cJSON_PrintBuffered fmt_d fmt_g15 fmt_g17 sscanf_lg oracle junk t prebuffer fmt hr = Ok r ->
    (forall k, (k < prr_requests r)%nat -> oracle k = false) ->
    render fmt_d fmt_g15 fmt_g17 sscanf_lg fmt 0 t = Some txt -> zlen txt + 2 <= c_INT_MAX ->
    (exists rest, prr_block r = Some (txt ++ 0 :: rest)) /\ prr_live r = 1.
Proof. exact print_buffered_unrefused_completes. Qed.
Print Assumptions C08_print_buffered_unrefused_completes.

Theorem C08_print_buffered_failure_has_cause :
  forall fmt_d fmt_g15 fmt_g17 sscanf_lg, LibcPrintSpec fmt_d fmt_g15 fmt_g17 ->
  forall oracle junk (t : node) (prebuffer : Z) (fmt hr : bool) r txt,
    fields_ok t = true -> 0 <= prebuffer ->
    cJSON_PrintBuffered fmt_d fmt_g15 fmt_g17 sscanf_lg oracle junk t prebuffer fmt hr = Ok r ->
    render fmt_d fmt_g15 fmt_g17 sscanf_lg fmt 0 t = Some txt -> zlen txt + 2 <= c_INT_MAX ->
    prr_block r = None -> exists k, (k < prr_requests r)%nat /\ oracle k = true.
Proof. exact print_buffered_failure_has_cause. Qed.
Print Assumptions C08_print_buffered_failure_has_cause.

(* cJSON_PrintPreallocated never calls the allocator, so no request of it can be refused (= C09_caller_block) *)
Theorem C08_print_preallocated_no_request :
  forall fmt_d fmt_g15 fmt_g17 sscanf_lg, LibcPrintSpec fmt_d fmt_g15 fmt_g17 ->
  forall oracle junk (t : node) (buf : bytes) (fmt hr : bool) r,
    fields_ok t = true ->
    cJSON_PrintPreallocated fmt_d fmt_g15 fmt_g17 sscanf_lg oracle junk t (Some buf) (zlen buf) fmt hr = Ok r ->
    par_live r = 0 /\ par_requests r = 0%nat /\ exists b', par_buffer r = Some b' /\ zlen b' = zlen buf.
Proof. exact C09_caller_block_proof. Qed.
Print Assumptions C08_print_preallocated_no_request.

(* the invariant behind the printer statements, for every tree and every step outcome: the print buffer is
   the only block the call owns (live = 1 with a buffer, 0 once a failed growth has released it) *)
Theorem C08_print_value_owns :
  forall oracle junk fmt_d fmt_g15 fmt_g17 sscanf_lg (n : node) p ok p',
    print_value fmt_d fmt_g15 fmt_g17 sscanf_lg oracle junk n p = Ok (ok, p') ->
    pb_live p = (match pb_buf p with Some _ => 1 | None => 0 end) ->
    pb_live p' = (match pb_buf p' with Some _ => 1 | None => 0 end).
Proof. exact print_value_owns. Qed.
Print Assumptions C08_print_value_owns.

(** ------------------------------------------------------------------ parser *)

(* cJSON_ParseWithLength / cJSON_ParseWithLengthOpts on any bytes, any length within the buffer *)
Theorem C08_parse_length_safe :
  forall strtod oracle content len rnt,
    strtod_ok strtod -> (len <= length content)%nat ->
    exists r, cJSON_ParseWithLengthOpts strtod oracle content len rnt = Ok r
           /\ (pr_tree r = None -> pr_live r = 0)
           /\ (forall t, pr_tree r = Some t -> pr_live r = blocks t).
Proof. exact parse_length_safe. Qed.
Print Assumptions C08_parse_length_safe.

(* cJSON_Parse / cJSON_ParseWithOpts on any terminated C string *)
Theorem C08_parse_string_safe :
  forall strtod oracle s rest rnt,
    strtod_ok strtod -> Forall (fun c => c <> 0) s ->
    exists r, cJSON_ParseWithOpts strtod oracle (s ++ 0 :: rest) rnt = Ok r
           /\ cJSON_ParseWithOpts strtod oracle (s ++ 0 :: rest) rnt
              = cJSON_ParseWithLengthOpts strtod oracle (s ++ 0 :: rest) (length s + 1) rnt
           /\ (pr_tree r = None -> pr_live r = 0)
           /\ (forall t, pr_tree r = Some t -> pr_live r = blocks t).
Proof. exact parse_string_safe. Qed.
Print Assumptions C08_parse_string_safe.

(* in the property's own words: NULL => nothing allocated during the call remains allocated *)
Theorem C08_parse_length_clean :
  forall strtod oracle content len rnt,
    strtod_ok strtod -> (len <= length content)%nat ->
    exists r, cJSON_ParseWithLengthOpts strtod oracle content len rnt = Ok r /\
              (pr_tree r = None -> pr_live r = 0).
Proof. exact parse_length_clean. Qed.
Print Assumptions C08_parse_length_clean.

Theorem C08_parse_string_clean :
  forall strtod oracle s rest rnt,
    strtod_ok strtod -> Forall (fun c => c <> 0) s ->
    exists r, cJSON_ParseWithOpts strtod oracle (s ++ 0 :: rest) rnt = Ok r /\
              (pr_tree r = None -> pr_live r = 0).
Proof. exact parse_string_clean. Qed.
Print Assumptions C08_parse_string_clean.

(* the schedule is consulted only at the requests the call makes (cf. C08_print_schedule_prefix) *)
Theorem C08_parse_length_schedule_prefix :
  forall strtod o1 o2 content len rnt r,
    cJSON_ParseWithLengthOpts strtod o1 content len rnt = Ok r ->
    forall N, (forall k, (k < N)%nat -> o2 k = o1 k) -> (pr_requests r <= N)%nat ->
    cJSON_ParseWithLengthOpts strtod o2 content len rnt = Ok r.
Proof. exact parse_length_ext. Qed.
Print Assumptions C08_parse_length_schedule_prefix.

Theorem C08_parse_string_schedule_prefix :
  forall strtod o1 o2 content rnt r,
    cJSON_ParseWithOpts strtod o1 content rnt = Ok r ->
    forall N, (forall k, (k < N)%nat -> o2 k = o1 k) -> (pr_requests r <= N)%nat ->
    cJSON_ParseWithOpts strtod o2 content rnt = Ok r.
Proof. exact parse_string_ext_entry. Qed.
Print Assumptions C08_parse_string_schedule_prefix.

(* "completes normally": when none of the requests the call made was refused, the whole result (tree, end
   position, error position, ledger, requests) is that of the failure-free run, which C02/C03/C10 characterise *)
Theorem C08_parse_length_unrefused :
  forall strtod oracle content len rnt r,
    cJSON_ParseWithLengthOpts strtod oracle content len rnt = Ok r ->
    (forall k, (k < pr_requests r)%nat -> oracle k = false) ->
    cJSON_ParseWithLengthOpts strtod never_fails content len rnt = Ok r.
Proof. exact parse_length_unrefused. Qed.
Print Assumptions C08_parse_length_unrefused.

Theorem C08_parse_string_unrefused :
  forall strtod oracle content rnt r,
    cJSON_ParseWithOpts strtod oracle content rnt = Ok r ->
    (forall k, (k < pr_requests r)%nat -> oracle k = false) ->
    cJSON_ParseWithOpts strtod never_fails content rnt = Ok r.
Proof. exact parse_string_unrefused. Qed.
Print Assumptions C08_parse_string_unrefused.

(* a result that differs from the failure-free run's (e.g. NULL on an acceptable text) has a refused request *)
Theorem C08_parse_length_failure_has_cause :
  forall strtod oracle content len rnt r r0,
    cJSON_ParseWithLengthOpts strtod oracle content len rnt = Ok r ->
    cJSON_ParseWithLengthOpts strtod never_fails content len rnt = Ok r0 ->
    r <> r0 -> exists k, (k < pr_requests r)%nat /\ oracle k = true.
Proof. exact parse_length_failure_has_cause. Qed.
Print Assumptions C08_parse_length_failure_has_cause.

Theorem C08_parse_string_failure_has_cause :
  forall strtod oracle content rnt r r0,
    cJSON_ParseWithOpts strtod oracle content rnt = Ok r ->
    cJSON_ParseWithOpts strtod never_fails content rnt = Ok r0 ->
    r <> r0 -> exists k, (k < pr_requests r)%nat /\ oracle k = true.
Proof. exact parse_string_failure_has_cause. Qed.
Print Assumptions C08_parse_string_failure_has_cause.

(** ------------------------------------------------------------------ non-vacuity *)

(* the libc hypothesis is satisfiable: the guarded reference conversions *)
Theorem C08_libc_satisfiable : LibcPrintSpec guarded_fmt_d guarded_fmt_g15 guarded_fmt_g17.
Proof. exact guarded_libc_spec. Qed.
Print Assumptions C08_libc_satisfiable.

(* ["aaa…a" (default buffer size + 44 bytes), 1.5, -7] printed unformatted: more text than the default buffer holds, whatever its size,
   must grow while the string is being printed.  Request 1 = initial buffer, 2 = growth, 3 = final shrink;
   refusing any one of them gives NULL with an empty ledger, in both allocator configurations *)
Theorem C08_print_nonvacuous :
  fields_ok nvf_tree = true /\
  render guarded_fmt_d guarded_fmt_g15 guarded_fmt_g17 sscanf_lg false 0 nvf_tree = Some nvf_text /\
  (forall hr, nvf_print hr 0 = Ok (mkprr (Some (nvf_text ++ [0])) 1 3)) /\
  (forall hr, nvf_print hr 1 = Ok (mkprr None 0 1)) /\
  (forall hr, nvf_print hr 2 = Ok (mkprr None 0 2)) /\
  (forall hr, nvf_print hr 3 = Ok (mkprr None 0 3)) /\
  (forall hr, nvf_print hr 4 = Ok (mkprr (Some (nvf_text ++ [0])) 1 3)).
Proof. exact C08_print_nonvacuous_proof. Qed.
Print Assumptions C08_print_nonvacuous.

(* the same tree through cJSON_PrintBuffered with prebuffer 16 and prebuffer 0 *)
Theorem C08_print_buffered_nonvacuous :
  (forall hr, exists rest, nvf_print_buffered 16 hr 0 = Ok (mkprr (Some (nvf_text ++ 0 :: rest)) 1 2)) /\
  (forall hr, nvf_print_buffered 16 hr 1 = Ok (mkprr None 0 1)) /\
  (forall hr, nvf_print_buffered 16 hr 2 = Ok (mkprr None 0 2)) /\
  (forall hr, nvf_print_buffered 0 hr 2 = Ok (mkprr None 0 2)).
Proof. exact C08_print_buffered_nonvacuous_proof. Qed.
Print Assumptions C08_print_buffered_nonvacuous.

(* [1,"a"] makes four requests; refusing any one yields NULL with an empty ledger; none refused: the tree *)
Theorem C08_parse_nonvacuous :
  strtod_ok strtod_ref /\ Forall (fun c => c <> 0) nvf_json /\
  (forall k, (1 <= k <= 4)%nat -> exists r, nvf_parse k = Ok r /\ pr_tree r = None /\ pr_live r = 0 /\ pr_requests r = k) /\
  (exists r t, nvf_parse 5 = Ok r /\ pr_tree r = Some t /\ pr_live r = 4 /\ blocks t = 4 /\ pr_requests r = 4%nat).
Proof. exact C08_parse_nonvacuous_proof. Qed.
Print Assumptions C08_parse_nonvacuous.

(* sensitivity: [print] with the final shrink as seeded change C08_A writes it (buffer pointer cleared before the
   result of the realloc is checked) returns NULL with the print buffer still allocated when that request is
   refused — C08_print_ledger is false of that code *)
Theorem C08_A_violates_ledger :
  print_C08_A guarded_fmt_d guarded_fmt_g15 guarded_fmt_g17 sscanf_lg (fail_kth 3) (fun _ => 165) nvf_tree false
  = Ok (mkprr None 1 3).
Proof. exact C08_A_violates_ledger_proof. Qed.
Print Assumptions C08_A_violates_ledger.

(** ------------------------------------------------------------------ tree API *)
(** The tree-API scenarios of the property, proved by the core agents on the heap model (Heap.v / CoreDefs.v) in
    CoreRefineCreate.v, CoreRefineSet.v, CoreRefineRef.v, CoreRefineArray.v, CoreRefineAddObject.v,
    CoreRefineReplaceKey.v and CoreRefineDup*.v, re-exported verbatim (the statements are the kernel's printing of
    the lemmas' types; one theorem per scenario family, a conjunction with the lemma's name in front of each
    conjunct, so that the assumptions of a whole family are listed by one command).  Every statement is for an
    ARBITRARY oracle and has two branches: the normal postcondition of C06/C11 ([WF] of the heap for the forest
    the list model predicts), or the failure value in a heap [h'] with [clean_failure h h'] (resp. for
    cJSON_Duplicate: equal link / data / string maps, live set and ledger) and a refused request.
    [C08_clean_failure_means] says what a clean failure implies for EVERY pre-existing forest: it is still encoded by
    the heap (so it prints the same text, by C04/C05 on the decoded tree), no block of it was released, the ledger of
    library blocks is unchanged, [NoLeak] is preserved, and the heap satisfies the preconditions of every further
    call ("the library remains usable").
    Standing hypotheses: [WF h F] (the heap encodes the forest F of all live trees), [live_below h] (every live
    block identity is below the allocator's next identity; holds in [empty_heap] and is re-established by every
    lemma), for cJSON_Duplicate [Closed h], and readability of the string arguments.
    Coverage of the property's scenario list: create* (all constructors), add reference to array / object,
    duplicate, replace by key, set valuestring, bulk array constructors, cJSON_AddItemToObject[CS] are covered below;
    the cJSON_Add<Type>ToObject helpers (cJSON_AddNullToObject ... cJSON_AddArrayToObject: constructor, then
    add_item_to_object, then cJSON_Delete of the new item when the insertion fails) have no composed theorem yet —
    their two halves are in C08_constructors / C08_string_constructors and C08_object_keys. *)
From CJ Require Import Heap Forest ForestLemmas CoreSpec CoreDefs CoreRefineBase CoreRefine
  CoreRefineDelete CoreRefineReplace CoreRefineMore CoreRefineFrame CoreRefineHistory CoreRefineObject CoreRefineByKey
  CoreRefineAddObject CoreRefineReplaceKey CoreRefineCreate CoreRefineSet CoreRefineRef CoreRefineArray CoreRefineCreateEx
  CoreRefineDupBase CoreRefineDupTree CoreRefineDupNode CoreRefineDupLoop CoreRefineDup CoreRefineDupForest CoreRefineDupLimit
  CoreRefineDupUnroll.
From stdpp Require Import gmap.

(* what a clean failure means (CoreRefineCreate.clean_failure: link and data maps equal, live set equal, strings and
   ownership tags of the old identities equal; only the allocator's counters and trace moved): every pre-existing
   forest is still encoded (it prints the same text), the ledger of library blocks is as before, nothing leaked *)
Theorem C08_clean_failure_means :
  ∀ (h h' : heap) (F : forest),
    WF h F
    → live_below h
      → clean_failure h h'
        → WF h' F
          ∧ lib_live h' = lib_live h
            ∧ h_live h' = h_live h
              ∧ h_lnk h' = h_lnk h
                ∧ h_dat h' = h_dat h
                  ∧ (∀ b : positive, b ∈ h_live h → h_str h' !! b = h_str h !! b)
                    ∧ live_below h' ∧ (NoLeak h F → NoLeak h' F).
Proof. exact clean_failure_summary. Qed.
Print Assumptions C08_clean_failure_means.

(* cJSON_strdup, and the constructors with one request:  ctor1_post oracle m h F d  :=
        oracle (h_req h) = false /\ m h = Ret (Some (h_next h), new_node h d) /\ WF (new_node h d) (spec_create F (h_next h) d)
          /\ live_below (new_node h d) /\ (NoLeak h F -> NoLeak (new_node h d) (spec_create F (h_next h) d))
     \/ oracle (h_req h) = true /\ m h = Ret (None, bump h) /\ clean_failure h (bump h) /\ refused oracle h (bump h)
   with  refused oracle h h' := exists k, h_req h <= k < h_req h' /\ oracle k = true  *)
Theorem C08_constructors :
  (* cJSON_strdup_sim *)
  ( ∀ (oracle : nat → bool) (h : heap) (F : forest) (sb : positive),
      WF h F
      → live_below h
        → Readable h sb
          → oracle (h_req h) = false
            ∧ (let h' := new_str h (str_at h sb ++ [0%Z]) in
               cJSON_strdup oracle (Some sb) h = Ret (Some (h_next h), h')
               ∧ WF h' F
                 ∧ live_below h'
                   ∧ Readable h' (h_next h)
                     ∧ str_at h' (h_next h) = str_at h sb ∧ h_own h' !! h_next h = Some Lib ∧ h_next h ∉ owned F)
            ∨ cJSON_strdup oracle (Some sb) h = Ret (None, bump h)
              ∧ clean_failure h (bump h) ∧ refused oracle h (bump h) )
  ∧
  (* create_with_type_sim *)
  ( ∀ (oracle : nat → bool) (ty : Z) (h : heap) (F : forest),
      WF h F → live_below h → ctor1_post oracle (create_with_type oracle ty) h F (rd_of_type ty) )
  ∧
  (* cJSON_CreateNull_sim *)
  ( ∀ (oracle : nat → bool) (h : heap) (F : forest),
      WF h F
      → live_below h → ctor1_post oracle (cJSON_CreateNull oracle) h F (rd_of_type Constants.c_cJSON_NULL) )
  ∧
  (* cJSON_CreateTrue_sim *)
  ( ∀ (oracle : nat → bool) (h : heap) (F : forest),
      WF h F
      → live_below h → ctor1_post oracle (cJSON_CreateTrue oracle) h F (rd_of_type Constants.c_cJSON_True) )
  ∧
  (* cJSON_CreateFalse_sim *)
  ( ∀ (oracle : nat → bool) (h : heap) (F : forest),
      WF h F
      → live_below h → ctor1_post oracle (cJSON_CreateFalse oracle) h F (rd_of_type Constants.c_cJSON_False) )
  ∧
  (* cJSON_CreateBool_sim *)
  ( ∀ (oracle : nat → bool) (b : bool) (h : heap) (F : forest),
      WF h F
      → live_below h
        → ctor1_post oracle (cJSON_CreateBool oracle b) h F
            (rd_of_type (if b then Constants.c_cJSON_True else Constants.c_cJSON_False)) )
  ∧
  (* cJSON_CreateArray_sim *)
  ( ∀ (oracle : nat → bool) (h : heap) (F : forest),
      WF h F
      → live_below h → ctor1_post oracle (cJSON_CreateArray oracle) h F (rd_of_type Constants.c_cJSON_Array) )
  ∧
  (* cJSON_CreateObject_sim *)
  ( ∀ (oracle : nat → bool) (h : heap) (F : forest),
      WF h F
      → live_below h → ctor1_post oracle (cJSON_CreateObject oracle) h F (rd_of_type Constants.c_cJSON_Object) )
  ∧
  (* cJSON_CreateNumber_sim *)
  ( ∀ (oracle : nat → bool) (num : dbl) (h : heap) (F : forest),
      WF h F → live_below h → ctor1_post oracle (cJSON_CreateNumber oracle num) h F (rd_number num) )
  ∧
  (* cJSON_CreateStringReference_sim *)
  ( ∀ (oracle : nat → bool) (string : ptr) (h : heap) (F : forest),
      WF h F
      → live_below h → ctor1_post oracle (cJSON_CreateStringReference oracle string) h F (rd_string_ref string) )
  ∧
  (* cJSON_CreateObjectReference_sim *)
  ( ∀ (oracle : nat → bool) (child : ptr) (h : heap) (F : forest),
      WF h F
      → live_below h
        → ctor1_post oracle (cJSON_CreateObjectReference oracle child) h F
            (rd_container_ref Constants.c_cJSON_Object child) )
  ∧
  (* cJSON_CreateArrayReference_sim *)
  ( ∀ (oracle : nat → bool) (child : ptr) (h : heap) (F : forest),
      WF h F
      → live_below h
        → ctor1_post oracle (cJSON_CreateArrayReference oracle child) h F
            (rd_container_ref Constants.c_cJSON_Array child) ).
Proof. exact (conj cJSON_strdup_sim (conj create_with_type_sim (conj cJSON_CreateNull_sim (conj cJSON_CreateTrue_sim (conj cJSON_CreateFalse_sim (conj cJSON_CreateBool_sim (conj cJSON_CreateArray_sim (conj cJSON_CreateObject_sim (conj cJSON_CreateNumber_sim (conj cJSON_CreateStringReference_sim (conj cJSON_CreateObjectReference_sim cJSON_CreateArrayReference_sim))))))))))). Qed.
Print Assumptions C08_constructors.

(* cJSON_CreateString / cJSON_CreateRaw: two requests (node, copy of the text); when the copy is refused the node is
   released again *)
Theorem C08_string_constructors :
  (* cJSON_CreateString_sim *)
  ( ∀ (oracle : nat → bool) (h : heap) (F : forest) (sb : positive),
      WF h F
      → live_below h
        → Readable h sb
          → (let id := h_next h in
             let d := rd_string Constants.c_cJSON_String (Pos.succ id) in
             let h' := new_string h Constants.c_cJSON_String (str_at h sb ++ [0%Z]) in
             oracle (h_req h) = false
             ∧ oracle (S (h_req h)) = false
               ∧ cJSON_CreateString oracle (Some sb) h = Ret (Some id, h')
                 ∧ WF h' (spec_create F id d)
                   ∧ live_below h'
                     ∧ (NoLeak h F → NoLeak h' (spec_create F id d))
                       ∧ Readable h' (Pos.succ id) ∧ str_at h' (Pos.succ id) = str_at h sb)
            ∨ (∃ h' : heap,
                 cJSON_CreateString oracle (Some sb) h = Ret (None, h')
                 ∧ clean_failure h h' ∧ refused oracle h h') )
  ∧
  (* cJSON_CreateRaw_sim *)
  ( ∀ (oracle : nat → bool) (h : heap) (F : forest) (sb : positive),
      WF h F
      → live_below h
        → Readable h sb
          → (let id := h_next h in
             let d := rd_string Constants.c_cJSON_Raw (Pos.succ id) in
             let h' := new_string h Constants.c_cJSON_Raw (str_at h sb ++ [0%Z]) in
             oracle (h_req h) = false
             ∧ oracle (S (h_req h)) = false
               ∧ cJSON_CreateRaw oracle (Some sb) h = Ret (Some id, h')
                 ∧ WF h' (spec_create F id d)
                   ∧ live_below h'
                     ∧ (NoLeak h F → NoLeak h' (spec_create F id d))
                       ∧ Readable h' (Pos.succ id) ∧ str_at h' (Pos.succ id) = str_at h sb)
            ∨ (∃ h' : heap,
                 cJSON_CreateRaw oracle (Some sb) h = Ret (None, h') ∧ clean_failure h h' ∧ refused oracle h h') )
  ∧
  (* cJSON_CreateString_null *)
  ( ∀ (oracle : nat → bool) (h : heap) (F : forest),
      WF h F
      → live_below h → ∃ h' : heap, cJSON_CreateString oracle None h = Ret (None, h') ∧ clean_failure h h' )
  ∧
  (* cJSON_CreateRaw_null *)
  ( ∀ (oracle : nat → bool) (h : heap) (F : forest),
      WF h F → live_below h → ∃ h' : heap, cJSON_CreateRaw oracle None h = Ret (None, h') ∧ clean_failure h h' ).
Proof. exact (conj cJSON_CreateString_sim (conj cJSON_CreateRaw_sim (conj cJSON_CreateString_null cJSON_CreateRaw_null))). Qed.
Print Assumptions C08_string_constructors.

(* cJSON_SetValuestring: the only exit that allocates (new text longer than the old one): refused => NULL and the OLD
   string stays in place (seeded change C08_B breaks exactly this); the other exits make no request *)
Theorem C08_SetValuestring :
  (* cJSON_SetValuestring_realloc *)
  ( ∀ (oracle : nat → bool) (h : heap) (F : forest) (x : positive) (d : rdata) (cs : list tree) 
      (vb sb : positive),
      WF h F
      → live_below h
        → find_tree x F = Some (T x d cs)
          → has_flag (rd_type d) Constants.c_cJSON_String = true
            → is_ref d = false
              → rd_vstr d = Some vb
                → Readable h sb
                  → Readable h vb
                    → length (str_at h vb) < length (str_at h sb)
                      → (let nb := h_next h in
                         let d' := rd_set_vstr d (Some nb) in
                         let F' := set_data x d' F in
                         let h' := svs_realloc_heap h x vb (mk_dat d' (tid <$> cs)) (str_at h sb ++ [0%Z]) in
                         oracle (h_req h) = false
                         ∧ spec_set_valuestring (h_str h) F (Some x) (Some sb) (Some nb) = (F', Some nb)
                           ∧ cJSON_SetValuestring oracle (Some x) (Some sb) h = Ret (Some nb, h')
                             ∧ WF h' F'
                               ∧ live_below h'
                                 ∧ (NoLeak h F → NoLeak h' F')
                                   ∧ Readable h' nb ∧ str_at h' nb = str_at h sb ∧ vb ∉ h_live h')
                        ∨ spec_set_valuestring (h_str h) F (Some x) (Some sb) None = (F, None)
                          ∧ cJSON_SetValuestring oracle (Some x) (Some sb) h = Ret (None, bump h)
                            ∧ clean_failure h (bump h) ∧ refused oracle h (bump h) )
  ∧
  (* cJSON_SetValuestring_null *)
  ( ∀ (oracle : nat → bool) (h : heap) (F : forest) (valuestring copy : ptr),
      spec_set_valuestring (h_str h) F None valuestring copy = (F, None)
      ∧ cJSON_SetValuestring oracle None valuestring h = Ret (None, h) )
  ∧
  (* cJSON_SetValuestring_refused *)
  ( ∀ (oracle : nat → bool) (h : heap) (F : forest) (x : positive) (d : rdata) (cs : list tree) 
      (valuestring : option positive) (copy : ptr),
      WF h F
      → find_tree x F = Some (T x d cs)
        → has_flag (rd_type d) Constants.c_cJSON_String = false
          ∨ is_ref d = true ∨ rd_vstr d = None ∨ valuestring = None
          → spec_set_valuestring (h_str h) F (Some x) valuestring copy = (F, None)
            ∧ cJSON_SetValuestring oracle (Some x) valuestring h = Ret (None, h) )
  ∧
  (* cJSON_SetValuestring_alias *)
  ( ∀ (oracle : nat → bool) (h : heap) (F : forest) (x : positive) (d : rdata) (cs : list tree) 
      (vb : positive) (copy : ptr),
      WF h F
      → find_tree x F = Some (T x d cs)
        → has_flag (rd_type d) Constants.c_cJSON_String = true
          → is_ref d = false
            → rd_vstr d = Some vb
              → Readable h vb
                → spec_set_valuestring (h_str h) F (Some x) (Some vb) copy = (F, None)
                  ∧ cJSON_SetValuestring oracle (Some x) (Some vb) h = Ret (None, h) )
  ∧
  (* cJSON_SetValuestring_inplace *)
  ( ∀ (oracle : nat → bool) (h : heap) (F : forest) (x : positive) (d : rdata) (cs : list tree) 
      (vb sb : positive) (old : bytes) (copy : ptr),
      WF h F
      → find_tree x F = Some (T x d cs)
        → has_flag (rd_type d) Constants.c_cJSON_String = true
          → is_ref d = false
            → rd_vstr d = Some vb
              → Readable h sb
                → Readable h vb
                  → sb ≠ vb
                    → h_str h !! vb = Some old
                      → length (str_at h sb) ≤ length (str_at h vb)
                        → let new := str_at h sb ++ 0%Z :: drop (S (length (str_at h sb))) old in
                          let h' := set_str h (<[vb:=new]> (h_str h)) in
                          spec_set_valuestring (h_str h) F (Some x) (Some sb) copy = (F, Some vb)
                          ∧ cJSON_SetValuestring oracle (Some x) (Some sb) h = Ret (Some vb, h')
                            ∧ WF h' F
                              ∧ (NoLeak h F → NoLeak h' F)
                                ∧ live_below h' = live_below h
                                  ∧ Readable h' vb ∧ str_at h' vb = str_at h sb ∧ length new = length old ).
Proof. exact (conj cJSON_SetValuestring_realloc (conj cJSON_SetValuestring_null (conj cJSON_SetValuestring_refused (conj cJSON_SetValuestring_alias cJSON_SetValuestring_inplace)))). Qed.
Print Assumptions C08_SetValuestring.

(* references: create_reference, cJSON_AddItemReferenceToArray (one request), cJSON_AddItemReferenceToObject (two
   requests; when the copy of the name is refused the reference node is deleted again — finding F6 on the pinned tree) *)
Theorem C08_references :
  (* create_reference_sim *)
  ( ∀ (oracle : nat → bool) (h : heap) (F : forest) (y : positive) (d : rdata) (ks : list positive),
      WF h F
      → live_below h
        → (y, d, ks) ∈ flat F → ctor1_post oracle (create_reference oracle (Some y)) h F (rd_reference d ks) )
  ∧
  (* cJSON_AddItemReferenceToArray_sim *)
  ( ∀ (oracle : nat → bool) (h : heap) (F : forest) (p : positive) (dp : rdata) (cs : list tree) 
      (y : positive) (d : rdata) (csy : list tree),
      WF h F
      → live_below h
        → find_tree p F = Some (T p dp cs)
          → is_ref dp = false
            → find_tree y F = Some (T y d csy)
              → (let r := h_next h in
                 let tr := T r (rd_reference d (tid <$> csy)) [] in
                 let F' := set_children p (cs ++ [tr]) F in
                 let h1 := new_node h (rd_reference d (tid <$> csy)) in
                 let h' := upd_maps h1 (heap_lnk_of F') (heap_dat_of F') in
                 oracle (h_req h) = false
                 ∧ spec_add_reference_to_array F (Some p) (Some y) (Some r) = (F', true)
                   ∧ cJSON_AddItemReferenceToArray oracle (Some p) (Some y) h = Ret (true, h')
                     ∧ WF h' F' ∧ live_below h' ∧ (NoLeak h F → NoLeak h' F'))
                ∨ spec_add_reference_to_array F (Some p) (Some y) None = (F, false)
                  ∧ cJSON_AddItemReferenceToArray oracle (Some p) (Some y) h = Ret (false, bump h)
                    ∧ clean_failure h (bump h) ∧ refused oracle h (bump h) )
  ∧
  (* cJSON_AddItemReferenceToObject_sim *)
  ( ∀ (oracle : nat → bool) (h : heap) (F : forest) (p : positive) (dp : rdata) (csp : list tree) 
      (y : positive) (d : rdata) (csy : list tree) (sb : positive) (s : bytes),
      WF h F
      → live_below h
        → find_tree p F = Some (T p dp csp)
          → is_ref dp = false
            → find_tree y F = Some (T y d csy)
              → Readable h sb
                → h_str h !! sb = Some s
                  → (let r := h_next h in
                     let nk := Pos.succ r in
                     let dr := rd_owned_key (rd_reference d (tid <$> csy)) nk in
                     let F' := set_children p (csp ++ [T r dr []]) F in
                     let h2 := alloc_str (new_node h (rd_reference d (tid <$> csy))) (cstr s ++ [0%Z]) in
                     let h' := upd_maps h2 (heap_lnk_of F') (heap_dat_of F') in
                     oracle (h_req h) = false
                     ∧ oracle (S (h_req h)) = false
                       ∧ spec_add_reference_to_object F (Some p) (Some sb) (Some y) (Some r) (Some nk) =
                         (F', true)
                         ∧ cJSON_AddItemReferenceToObject oracle (Some p) (Some sb) (Some y) h = Ret (true, h')
                           ∧ WF h' F' ∧ live_below h' ∧ (NoLeak h F → NoLeak h' F'))
                    ∨ (∃ (h' : heap) (fresh : ptr),
                         spec_add_reference_to_object F (Some p) (Some sb) (Some y) fresh None = (F, false)
                         ∧ cJSON_AddItemReferenceToObject oracle (Some p) (Some sb) (Some y) h = Ret (false, h')
                           ∧ clean_failure h h' ∧ refused oracle h h') ).
Proof. exact (conj create_reference_sim (conj cJSON_AddItemReferenceToArray_sim cJSON_AddItemReferenceToObject_sim)). Qed.
Print Assumptions C08_references.

(* bulk constructors:  array_result oracle m h F Q count  :=
        (exists leaves Hc, m h = Ret (Some (h_next h), Hc) /\ WF Hc (F ++ [T (h_next h) arr leaves]) /\ length leaves = Z.to_nat count /\
           (every leaf is a childless node whose data satisfies Q) /\ Ext h Hc (blocks of the array) /\ live_below Hc /\ NoLeak preserved)
     \/ (exists h', m h = Ret (None, h') /\ clean_failure h h' /\ refused oracle h h')
   — ANY refused request => the partial array is deleted *)
Theorem C08_bulk_constructors :
  (* cJSON_CreateIntArray_sim *)
  ( ∀ (oracle : nat → bool) (h : heap) (F : forest),
      WF h F
      → live_below h
        → ∀ (l : list Z) (count : Z),
            (0 ≤ count)%Z
            → Z.to_nat count ≤ length l
              → array_result oracle (cJSON_CreateIntArray oracle (Some l) count) h F
                  (number_leaf (dbl_of_int <$> l)) count )
  ∧
  (* cJSON_CreateFloatArray_sim *)
  ( ∀ (oracle : nat → bool) (h : heap) (F : forest),
      WF h F
      → live_below h
        → ∀ (l : list dbl) (count : Z),
            (0 ≤ count)%Z
            → Z.to_nat count ≤ length l
              → array_result oracle (cJSON_CreateFloatArray oracle (Some l) count) h F (number_leaf l) count )
  ∧
  (* cJSON_CreateDoubleArray_sim *)
  ( ∀ (oracle : nat → bool) (h : heap) (F : forest),
      WF h F
      → live_below h
        → ∀ (l : list dbl) (count : Z),
            (0 ≤ count)%Z
            → Z.to_nat count ≤ length l
              → array_result oracle (cJSON_CreateDoubleArray oracle (Some l) count) h F (number_leaf l) count )
  ∧
  (* cJSON_CreateStringArray_sim *)
  ( ∀ (oracle : nat → bool) (h : heap) (F : forest),
      WF h F
      → live_below h
        → ∀ (l : list ptr) (count : Z),
            (0 ≤ count)%Z
            → Z.to_nat count ≤ length l
              → (∀ (k : nat) (q : ptr),
                   k < Z.to_nat count → l !! k = Some q → ∃ sb : positive, q = Some sb ∧ Readable h sb)
                → array_result oracle (cJSON_CreateStringArray oracle (Some l) count) h F 
                    (strings_leaf h l) count ).
Proof. exact (conj cJSON_CreateIntArray_sim (conj cJSON_CreateFloatArray_sim (conj cJSON_CreateDoubleArray_sim cJSON_CreateStringArray_sim))). Qed.
Print Assumptions C08_bulk_constructors.

(* cJSON_Duplicate (recursive) of a subtree of the forest: NULL => link, data, string maps, live set, hooks and the
   ledger of library blocks are as before and some request was refused ([ofail]); otherwise a copy, next to everything
   that was there.  Deeper than CJSON_CIRCULAR_LIMIT: NULL, heap as before.  (C11 has the full set.) *)
Theorem C08_Duplicate :
  (* dup_copy *)
  ( ∀ (oracle : nat → bool) (h : heap) (F : forest) (p : positive) (t : tree),
      WF h F
      → Closed h
        → find_tree p F = Some t
          → strs_readable h t
            → no_borrowed t
              → height t ≤ Z.to_nat Constants.c_CJSON_CIRCULAR_LIMIT
                → ∃ (r : ptr) (h' : heap),
                    cJSON_Duplicate oracle (Some p) true h = Ret (r, h')
                    ∧ (r = None
                       ∧ WF h' F
                         ∧ (NoLeak h F → NoLeak h' F)
                           ∧ h_lnk h' = h_lnk h
                             ∧ h_dat h' = h_dat h
                               ∧ h_str h' = h_str h
                                 ∧ h_live h' = h_live h
                                   ∧ h_hooks h' = h_hooks h
                                     ∧ lib_live h' = lib_live h ∧ Closed h' ∧ ofail oracle h h'
                       ∨ (∃ tc : tree,
                            r = Some (tid tc)
                            ∧ WF h' (F ++ [tc])
                              ∧ (NoLeak h F → NoLeak h' (F ++ [tc]))
                                ∧ copy_of h' t tc
                                  ∧ Ext (nids (flat_t tc)) (sids (flat_t tc)) h h'
                                    ∧ h_lnk h' !! tid tc = Some (None, None)
                                      ∧ (∀ b : positive, b ∈ owned F → b ∉ owned [tc])
                                        ∧ (∀ b : positive,
                                             b ∈ owned [tc] → (h_next h ≤ b)%positive ∧ b ∉ h_live h)
                                          ∧ oclean oracle h h')) )
  ∧
  (* dup_too_deep *)
  ( ∀ (oracle : nat → bool) (h : heap) (F : forest) (p : positive) (t : tree),
      WF h F
      → Closed h
        → refs_in F
          → all_readable h F
            → find_tree p F = Some t
              → Z.to_nat Constants.c_CJSON_CIRCULAR_LIMIT < height t
                → ∃ h' : heap,
                    cJSON_Duplicate oracle (Some p) true h = Ret (None, h')
                    ∧ WF h' F
                      ∧ (NoLeak h F → NoLeak h' F)
                        ∧ h_lnk h' = h_lnk h
                          ∧ h_dat h' = h_dat h
                            ∧ h_str h' = h_str h
                              ∧ h_live h' = h_live h
                                ∧ h_hooks h' = h_hooks h ∧ lib_live h' = lib_live h ∧ Closed h' )
  ∧
  (* cJSON_Duplicate_null *)
  ( ∀ (oracle : nat → bool) (recurse : bool) (h : heap), cJSON_Duplicate oracle None recurse h = Ret (None, h) ).
Proof. exact (conj dup_copy (conj dup_too_deep cJSON_Duplicate_null)). Qed.
Print Assumptions C08_Duplicate.

(* cJSON_AddItemToObject / cJSON_AddItemToObjectCS (add_item_to_object) and cJSON_ReplaceItemInObject[CaseSensitive]
   (replace_item_in_object): one request (the copy of the name).  These are stated as one lemma per branch: granted
   ([_owned], [_sim]) and refused ([_nomem]: false, the heap is [bump h] — only the request counter moved — and still
   encodes F).  Constant keys ([_const]) make no request. *)
Theorem C08_object_keys :
  (* add_item_to_object_sim_owned *)
  ( ∀ (oracle : nat → bool) (h : heap) (F : forest) (p x sb : positive) (d dp : rdata) (cs csp : list tree),
      WF h F
      → p ≠ x
        → find_root x F = Some (T x d cs)
          → find_tree p (remove_root x F) = Some (T p dp csp)
            → is_ref dp = false
              → ∀ s : bytes,
                  CoreRefineObject.Readable h sb
                  → h_str h !! sb = Some s
                    → oracle (h_req h) = false
                      → let nk := h_next h in
                        let d' := rd_owned_key d nk in
                        let F' := set_children p (csp ++ [T x d' cs]) (remove_root x F) in
                        let hb := free_all (old_key d) (alloc_str h (cstr s ++ [0%Z])) in
                        spec_add_to_object F (Some p) (Some sb) (Some x) false (Some nk) = (F', true)
                        ∧ add_item_to_object oracle (Some p) (Some sb) (Some x) false h =
                          Ret (true, upd_maps hb (heap_lnk_of F') (heap_dat_of F'))
                          ∧ WF (upd_maps hb (heap_lnk_of F') (heap_dat_of F')) F' )
  ∧
  (* add_item_to_object_sim_nomem *)
  ( ∀ (oracle : nat → bool) (h : heap) (F : forest) (p x sb : positive) (d : rdata) (cs : list tree),
      WF h F
      → p ≠ x
        → find_root x F = Some (T x d cs)
          → ∀ s : bytes,
              CoreRefineObject.Readable h sb
              → h_str h !! sb = Some s
                → oracle (h_req h) = true
                  → spec_add_to_object F (Some p) (Some sb) (Some x) false None = (F, false)
                    ∧ add_item_to_object oracle (Some p) (Some sb) (Some x) false h = Ret (false, bump h)
                      ∧ WF (bump h) F )
  ∧
  (* add_item_to_object_sim_const *)
  ( ∀ (oracle : nat → bool) (h : heap) (F : forest) (p x sb : positive) (d dp : rdata) (cs csp : list tree),
      WF h F
      → p ≠ x
        → find_root x F = Some (T x d cs)
          → find_tree p (remove_root x F) = Some (T p dp csp)
            → is_ref dp = false
              → let d' := rd_const_key d sb in
                let F' := set_children p (csp ++ [T x d' cs]) (remove_root x F) in
                let hb := free_all (old_key d) h in
                spec_add_to_object F (Some p) (Some sb) (Some x) true None = (F', true)
                ∧ add_item_to_object oracle (Some p) (Some sb) (Some x) true h =
                  Ret (true, upd_maps hb (heap_lnk_of F') (heap_dat_of F'))
                  ∧ WF (upd_maps hb (heap_lnk_of F') (heap_dat_of F')) F' )
  ∧
  (* replace_item_in_object_sim *)
  ( ∀ (oracle : nat → bool) (h : heap) (F : forest) (p r sb : positive) (d dp : rdata) 
      (cs csp : list tree) (s : bytes),
      WF h F
      → KeysReadable h F
        → (∀ (e : fnode) (b : positive),
             e ∈ flat F → rd_key (fn_data e) = Some b → is_const (fn_data e) = true → b ∉ owned F)
          → (∀ (e : fnode) (b : positive), e ∈ flat F → rd_key (fn_data e) = Some b → (b < h_next h)%positive)
            → find_root r F = Some (T r d cs)
              → find_tree p (remove_root r F) = Some (T p dp csp)
                → is_ref dp = false
                  → CoreRefineObject.Readable h sb
                    → h_str h !! sb = Some s
                      → ∀ case_sensitive : bool,
                          oracle (h_req h) = false
                          → let it :=
                              spec_get_key
                                (h_str
                                   (set_dat (free_all (old_key d) (alloc_str h (cstr s ++ [0%Z])))
                                      (<[r:=mk_dat (rd_owned_key d (h_next h)) (tid <$> cs)]>
                                         (h_dat (free_all (old_key d) (alloc_str h (cstr s ++ [0%Z])))))))
                                (set_data r (rd_owned_key d (h_next h)) F) (Some p) 
                                (Some (h_next h)) case_sensitive in
                            spec_replace_key
                              (h_str
                                 (set_dat (free_all (old_key d) (alloc_str h (cstr s ++ [0%Z])))
                                    (<[r:=mk_dat (rd_owned_key d (h_next h)) (tid <$> cs)]>
                                       (h_dat (free_all (old_key d) (alloc_str h (cstr s ++ [0%Z]))))))) F
                              (Some p) (Some sb) (Some r) case_sensitive (Some (h_next h)) =
                            spec_replace (set_data r (rd_owned_key d (h_next h)) F) (Some p) it (Some r)
                            ∧ (∃ h' : heap,
                                 replace_item_in_object oracle (Some p) (Some sb) (Some r) case_sensitive h =
                                 Ret
                                   ((spec_replace (set_data r (rd_owned_key d (h_next h)) F) 
                                       (Some p) it (Some r)).2, h')
                                 ∧ WF h'
                                     (spec_replace (set_data r (rd_owned_key d (h_next h)) F) 
                                        (Some p) it (Some r)).1) )
  ∧
  (* replace_item_in_object_nomem *)
  ( ∀ (oracle : nat → bool) (h : heap) (F : forest) (p r sb : positive) (s : bytes),
      WF h F
      → CoreRefineObject.Readable h sb
        → h_str h !! sb = Some s
          → ∀ case_sensitive : bool,
              oracle (h_req h) = true
              → spec_replace_key (h_str h) F (Some p) (Some sb) (Some r) case_sensitive None = (F, false)
                ∧ replace_item_in_object oracle (Some p) (Some sb) (Some r) case_sensitive h =
                  Ret (false, bump h) ∧ WF (bump h) F ).
Proof. exact (conj add_item_to_object_sim_owned (conj add_item_to_object_sim_nomem (conj add_item_to_object_sim_const (conj replace_item_in_object_sim replace_item_in_object_nomem)))). Qed.
Print Assumptions C08_object_keys.

(* non-vacuity of the tree-API statements (CoreRefineCreateEx.v): the hypotheses hold on concrete heaps built from
   [empty_heap]; both branches occur *)
Theorem C08_tree_api_nonvacuous :
  (* ex_create_string_any_oracle *)
  ( ∀ oracle : nat → bool,
      oracle 0 = false
      ∧ oracle 1 = false
        ∧ cJSON_CreateString oracle (Some 1%positive) h1 =
          Ret (Some 3%positive, new_string h1 Constants.c_cJSON_String [104%Z; 105%Z; 0%Z])
          ∧ WF (new_string h1 Constants.c_cJSON_String [104%Z; 105%Z; 0%Z])
              [T 3 (rd_string Constants.c_cJSON_String 4) []]
      ∨ (∃ h' : heap,
           cJSON_CreateString oracle (Some 1%positive) h1 = Ret (None, h')
           ∧ clean_failure h1 h' ∧ refused oracle h1 h') )
  ∧
  (* ex_setvs_any_oracle *)
  ( ∀ oracle : nat → bool,
      (∃ h' : heap,
         cJSON_SetValuestring oracle (Some 3%positive) (Some 2%positive) h2 = Ret (Some 5%positive, h')
         ∧ WF h' (set_data 3 (rd_string Constants.c_cJSON_String 5) F2)
           ∧ str_at h' 5 = str_at h2 2 ∧ 4%positive ∉ h_live h')
      ∨ cJSON_SetValuestring oracle (Some 3%positive) (Some 2%positive) h2 = Ret (None, bump h2)
        ∧ clean_failure h2 (bump h2) ∧ refused oracle h2 (bump h2) )
  ∧
  (* ex_intarray_any_oracle *)
  ( ∀ oracle : nat → bool,
      array_result oracle (cJSON_CreateIntArray oracle (Some [1%Z; 2%Z; 3%Z]) 3) empty_heap []
        (number_leaf (dbl_of_int <$> [1%Z; 2%Z; 3%Z])) 3 )
  ∧
  (* ex_setvs_refused *)
  ( let m := cJSON_SetValuestring always (Some 3%positive) (Some 2%positive) in
    let h3 := heap_after m h2 in
    result_of m h2 = Some None
    ∧ result_of (cJSON_GetStringValue (Some 3%positive)) h3 = Some (Some 4%positive)
      ∧ str_at h3 4 = [104%Z; 105%Z]
        ∧ elements (h_live h3) = elements (h_live h2)
          ∧ map_to_list (h_lnk h3) = map_to_list (h_lnk h2)
            ∧ map_to_list (h_dat h3) = map_to_list (h_dat h2) ∧ map_to_list (h_str h3) = map_to_list (h_str h2) )
  ∧
  (* ex_setvs_granted *)
  ( let m := cJSON_SetValuestring never (Some 3%positive) (Some 2%positive) in
    let h3 := heap_after m h2 in
    result_of m h2 = Some (Some 5%positive)
    ∧ result_of (cJSON_GetStringValue (Some 3%positive)) h3 = Some (Some 5%positive)
      ∧ str_at h3 5 = [104%Z; 101%Z; 108%Z; 108%Z; 111%Z]
        ∧ elements (h_live h3) = [1%positive; 2%positive; 3%positive; 5%positive] )
  ∧
  (* ex_intarray_refused_clean *)
  ( ∃ h' : heap,
      cJSON_CreateIntArray third (Some [1%Z; 2%Z; 3%Z]) 3 empty_heap = Ret (None, h')
      ∧ clean_failure empty_heap h' )
  ∧
  (* ex_intarray_granted *)
  ( let m := cJSON_CreateIntArray never (Some [1%Z; 2%Z; 3%Z]) 3 in
    let h' := heap_after m empty_heap in
    result_of m empty_heap = Some (Some 1%positive)
    ∧ map_to_list (h_lnk h') =
      map_to_list
        (heap_lnk_of
           [T 1 arr
              [T 2 (rd_number (dbl_of_int 1)) []; T 3 (rd_number (dbl_of_int 2)) [];
               T 4 (rd_number (dbl_of_int 3)) []]])
      ∧ map_to_list (h_dat h') =
        map_to_list
          (heap_dat_of
             [T 1 arr
                [T 2 (rd_number (dbl_of_int 1)) []; T 3 (rd_number (dbl_of_int 2)) [];
                 T 4 (rd_number (dbl_of_int 3)) []]]) ).
Proof. exact (conj ex_create_string_any_oracle (conj ex_setvs_any_oracle (conj ex_intarray_any_oracle (conj ex_setvs_refused (conj ex_setvs_granted (conj ex_intarray_refused_clean ex_intarray_granted)))))). Qed.
Print Assumptions C08_tree_api_nonvacuous.

(** ------------------------------------------------------------------ tree API: the cJSON_Add<Type>ToObject helpers *)
(** The nine helpers cJSON_AddNullToObject, cJSON_AddTrueToObject, cJSON_AddFalseToObject, cJSON_AddBoolToObject,
    cJSON_AddNumberToObject, cJSON_AddStringToObject, cJSON_AddRawToObject, cJSON_AddObjectToObject,
    cJSON_AddArrayToObject (cJSON.c: create the item; add_item_to_object(object, name, item, hooks, false); on
    failure cJSON_Delete(item) and return NULL), proved in CoreRefineHelpers.v for an ARBITRARY oracle by composing
    the constructor lemmas (C08_constructors / C08_string_constructors), add_item_to_object (C08_object_keys) and
    cJSON_Delete (CoreRefineDelete.cJSON_Delete_sim).  This closes the gap noted above ("no composed theorem yet").
    Hypotheses: [WF h F], [live_below h], [object = Some p] a node of F that is not a reference node
    ([find_tree p F = Some (T p dp csp)], [is_ref dp = false]), [name = Some sb] a readable C string block (and, for
    the string / raw helper, the text a readable C string block [vb]).
    [add_helper_post oracle m h F p csp sb d h1] (written out in [C08_add_helper_post_means]; [d] = data of the created
    node, [h1] = heap after the constructor) is the two-branch result of the call [m]:
      - every request of the call granted ([forall k, h_req h <= k < h_req h' -> oracle k = false]): the result is
        [Some r] with [r = h_next h], and the result heap [h'] encodes
          [spec_add_to_object (spec_create F r d) (Some p) (Some sb) (Some r) false (Some nk)]
        = F with the new LAST member [T r (rd_owned_key d nk) []] of [p]: created data [d] (type word; for numbers
        valuedouble and valueint = [sat_int]; for string / raw the fresh copy [Pos.succ r] of the text), key [nk] = a
        fresh library block holding a copy of the name; [WF h' F'], [live_below h'], [NoLeak] preserved;
      - otherwise [None] in a heap [h'] with [clean_failure h h'] (see [C08_clean_failure_means]: every forest encoded
        by h is encoded by h', same live set, same ledger [lib_live], node maps and strings of live blocks
        bit-identical: nothing allocated during the call remains, no pre-existing tree is touched, the library remains
        usable) and [refused oracle h h'] (the node, its string copy, or the key copy was refused; in the last two
        cases what had been allocated was released again by cJSON_Delete). *)
From CJ Require Import CoreRefineHelpers.

(* the definition of add_helper_post, written out *)
Theorem C08_add_helper_post_means :
  (* add_helper_post_unfold *)
  ( ∀ (oracle : nat → bool) (m : M ptr) (h : heap) (F : forest) (p : positive) (csp : list tree) 
      (sb : positive) (d : rdata) (h1 : heap),
      add_helper_post oracle m h F p csp sb d h1
      ↔ (let r := h_next h in
         let nk := h_next h1 in
         let d' := rd_owned_key d nk in
         let F' := set_children p (csp ++ [T r d' []]) F in
         let h' := upd_maps (new_str h1 (str_at h sb ++ [0%Z])) (heap_lnk_of F') (heap_dat_of F') in
         (∀ k : nat, h_req h <= k < h_req h' → oracle k = false)
         ∧ spec_add_to_object (spec_create F r d) (Some p) (Some sb) (Some r) false (Some nk) = (F', true)
           ∧ m h = Ret (Some r, h')
             ∧ WF h' F'
               ∧ live_below h'
                 ∧ (NoLeak h F → NoLeak h' F')
                   ∧ Readable h' nk
                     ∧ str_at h' nk = str_at h sb
                       ∧ h_own h' !! nk = Some Lib
                         ∧ (nk ∉ owned F)
                           ∧ (∀ b : positive, Readable h1 b → Readable h' b ∧ str_at h' b = str_at h1 b))
        ∨ (∃ h' : heap, m h = Ret (None, h') ∧ clean_failure h h' ∧ refused oracle h h') ).
Proof. exact add_helper_post_unfold. Qed.
Print Assumptions C08_add_helper_post_means.

(* the nine helpers, container and name given: all requests granted => member appended; else NULL, clean failure,
   a refused request *)
Theorem C08_add_helpers :
  (* cJSON_AddNullToObject_sim *)
  ( ∀ (oracle : nat → bool) (h : heap) (F : forest),
      WF h F
      → live_below h
        → ∀ (p : positive) (dp : rdata) (csp : list tree) (sb : positive),
            find_tree p F = Some (T p dp csp)
            → is_ref dp = false
              → Readable h sb
                → add_helper_post oracle (cJSON_AddNullToObject oracle (Some p) (Some sb)) h F p csp sb
                    (rd_of_type c_cJSON_NULL) (new_node h (rd_of_type c_cJSON_NULL)) )
  ∧
  (* cJSON_AddTrueToObject_sim *)
  ( ∀ (oracle : nat → bool) (h : heap) (F : forest),
      WF h F
      → live_below h
        → ∀ (p : positive) (dp : rdata) (csp : list tree) (sb : positive),
            find_tree p F = Some (T p dp csp)
            → is_ref dp = false
              → Readable h sb
                → add_helper_post oracle (cJSON_AddTrueToObject oracle (Some p) (Some sb)) h F p csp sb
                    (rd_of_type c_cJSON_True) (new_node h (rd_of_type c_cJSON_True)) )
  ∧
  (* cJSON_AddFalseToObject_sim *)
  ( ∀ (oracle : nat → bool) (h : heap) (F : forest),
      WF h F
      → live_below h
        → ∀ (p : positive) (dp : rdata) (csp : list tree) (sb : positive),
            find_tree p F = Some (T p dp csp)
            → is_ref dp = false
              → Readable h sb
                → add_helper_post oracle (cJSON_AddFalseToObject oracle (Some p) (Some sb)) h F p csp sb
                    (rd_of_type c_cJSON_False) (new_node h (rd_of_type c_cJSON_False)) )
  ∧
  (* cJSON_AddBoolToObject_sim *)
  ( ∀ (oracle : nat → bool) (h : heap) (F : forest),
      WF h F
      → live_below h
        → ∀ (p : positive) (dp : rdata) (csp : list tree) (sb : positive),
            find_tree p F = Some (T p dp csp)
            → is_ref dp = false
              → Readable h sb
                → ∀ boolean : bool,
                    add_helper_post oracle (cJSON_AddBoolToObject oracle (Some p) (Some sb) boolean) h F p csp sb
                      (rd_of_type (if boolean then c_cJSON_True else c_cJSON_False))
                      (new_node h (rd_of_type (if boolean then c_cJSON_True else c_cJSON_False))) )
  ∧
  (* cJSON_AddNumberToObject_sim *)
  ( ∀ (oracle : nat → bool) (h : heap) (F : forest),
      WF h F
      → live_below h
        → ∀ (p : positive) (dp : rdata) (csp : list tree) (sb : positive),
            find_tree p F = Some (T p dp csp)
            → is_ref dp = false
              → Readable h sb
                → ∀ number : dbl,
                    add_helper_post oracle (cJSON_AddNumberToObject oracle (Some p) (Some sb) number) h F p csp sb
                      (rd_number number) (new_node h (rd_number number)) )
  ∧
  (* cJSON_AddStringToObject_sim *)
  ( ∀ (oracle : nat → bool) (h : heap) (F : forest),
      WF h F
      → live_below h
        → ∀ (p : positive) (dp : rdata) (csp : list tree) (sb : positive),
            find_tree p F = Some (T p dp csp)
            → is_ref dp = false
              → Readable h sb
                → ∀ vb : positive,
                    Readable h vb
                    → let h1 := new_string h c_cJSON_String (str_at h vb ++ [0%Z]) in
                      add_helper_post oracle (cJSON_AddStringToObject oracle (Some p) (Some sb) (Some vb)) h F p
                        csp sb (rd_string c_cJSON_String (Pos.succ (h_next h))) h1
                      ∧ Readable h1 (Pos.succ (h_next h))
                        ∧ str_at h1 (Pos.succ (h_next h)) = str_at h vb
                          ∧ h_own h1 !! Pos.succ (h_next h) = Some Lib )
  ∧
  (* cJSON_AddRawToObject_sim *)
  ( ∀ (oracle : nat → bool) (h : heap) (F : forest),
      WF h F
      → live_below h
        → ∀ (p : positive) (dp : rdata) (csp : list tree) (sb : positive),
            find_tree p F = Some (T p dp csp)
            → is_ref dp = false
              → Readable h sb
                → ∀ vb : positive,
                    Readable h vb
                    → let h1 := new_string h c_cJSON_Raw (str_at h vb ++ [0%Z]) in
                      add_helper_post oracle (cJSON_AddRawToObject oracle (Some p) (Some sb) (Some vb)) h F p csp
                        sb (rd_string c_cJSON_Raw (Pos.succ (h_next h))) h1
                      ∧ Readable h1 (Pos.succ (h_next h))
                        ∧ str_at h1 (Pos.succ (h_next h)) = str_at h vb
                          ∧ h_own h1 !! Pos.succ (h_next h) = Some Lib )
  ∧
  (* cJSON_AddObjectToObject_sim *)
  ( ∀ (oracle : nat → bool) (h : heap) (F : forest),
      WF h F
      → live_below h
        → ∀ (p : positive) (dp : rdata) (csp : list tree) (sb : positive),
            find_tree p F = Some (T p dp csp)
            → is_ref dp = false
              → Readable h sb
                → add_helper_post oracle (cJSON_AddObjectToObject oracle (Some p) (Some sb)) h F p csp sb
                    (rd_of_type c_cJSON_Object) (new_node h (rd_of_type c_cJSON_Object)) )
  ∧
  (* cJSON_AddArrayToObject_sim *)
  ( ∀ (oracle : nat → bool) (h : heap) (F : forest),
      WF h F
      → live_below h
        → ∀ (p : positive) (dp : rdata) (csp : list tree) (sb : positive),
            find_tree p F = Some (T p dp csp)
            → is_ref dp = false
              → Readable h sb
                → add_helper_post oracle (cJSON_AddArrayToObject oracle (Some p) (Some sb)) h F p csp sb
                    (rd_of_type c_cJSON_Array) (new_node h (rd_of_type c_cJSON_Array)) ).
Proof. exact (conj cJSON_AddNullToObject_sim (conj cJSON_AddTrueToObject_sim (conj cJSON_AddFalseToObject_sim (conj cJSON_AddBoolToObject_sim (conj cJSON_AddNumberToObject_sim (conj cJSON_AddStringToObject_sim (conj cJSON_AddRawToObject_sim (conj cJSON_AddObjectToObject_sim cJSON_AddArrayToObject_sim)))))))). Qed.
Print Assumptions C08_add_helpers.

(* NULL object or NULL name: the item is created first, add_item_to_object refuses, the item is deleted again => NULL
   and a clean failure (no request need be refused); NULL text for the string / raw helper: the constructor releases
   its node and returns NULL, nothing is inserted *)
Theorem C08_add_helpers_null :
  (* cJSON_AddNullToObject_null *)
  ( ∀ (oracle : nat → bool) (h : heap) (F : forest),
      WF h F
      → live_below h
        → ∀ object name : ptr,
            object = None ∨ name = None
            → ∃ h' : heap, cJSON_AddNullToObject oracle object name h = Ret (None, h') ∧ clean_failure h h' )
  ∧
  (* cJSON_AddTrueToObject_null *)
  ( ∀ (oracle : nat → bool) (h : heap) (F : forest),
      WF h F
      → live_below h
        → ∀ object name : ptr,
            object = None ∨ name = None
            → ∃ h' : heap, cJSON_AddTrueToObject oracle object name h = Ret (None, h') ∧ clean_failure h h' )
  ∧
  (* cJSON_AddFalseToObject_null *)
  ( ∀ (oracle : nat → bool) (h : heap) (F : forest),
      WF h F
      → live_below h
        → ∀ object name : ptr,
            object = None ∨ name = None
            → ∃ h' : heap, cJSON_AddFalseToObject oracle object name h = Ret (None, h') ∧ clean_failure h h' )
  ∧
  (* cJSON_AddBoolToObject_null *)
  ( ∀ (oracle : nat → bool) (h : heap) (F : forest),
      WF h F
      → live_below h
        → ∀ object name : ptr,
            object = None ∨ name = None
            → ∀ boolean : bool,
                ∃ h' : heap,
                  cJSON_AddBoolToObject oracle object name boolean h = Ret (None, h') ∧ clean_failure h h' )
  ∧
  (* cJSON_AddNumberToObject_null *)
  ( ∀ (oracle : nat → bool) (h : heap) (F : forest),
      WF h F
      → live_below h
        → ∀ object name : ptr,
            object = None ∨ name = None
            → ∀ number : dbl,
                ∃ h' : heap,
                  cJSON_AddNumberToObject oracle object name number h = Ret (None, h') ∧ clean_failure h h' )
  ∧
  (* cJSON_AddStringToObject_null *)
  ( ∀ (oracle : nat → bool) (h : heap) (F : forest),
      WF h F
      → live_below h
        → ∀ object name : ptr,
            object = None ∨ name = None
            → ∀ vb : positive,
                Readable h vb
                → ∃ h' : heap,
                    cJSON_AddStringToObject oracle object name (Some vb) h = Ret (None, h') ∧ clean_failure h h' )
  ∧
  (* cJSON_AddRawToObject_null *)
  ( ∀ (oracle : nat → bool) (h : heap) (F : forest),
      WF h F
      → live_below h
        → ∀ object name : ptr,
            object = None ∨ name = None
            → ∀ vb : positive,
                Readable h vb
                → ∃ h' : heap,
                    cJSON_AddRawToObject oracle object name (Some vb) h = Ret (None, h') ∧ clean_failure h h' )
  ∧
  (* cJSON_AddObjectToObject_null *)
  ( ∀ (oracle : nat → bool) (h : heap) (F : forest),
      WF h F
      → live_below h
        → ∀ object name : ptr,
            object = None ∨ name = None
            → ∃ h' : heap, cJSON_AddObjectToObject oracle object name h = Ret (None, h') ∧ clean_failure h h' )
  ∧
  (* cJSON_AddArrayToObject_null *)
  ( ∀ (oracle : nat → bool) (h : heap) (F : forest),
      WF h F
      → live_below h
        → ∀ object name : ptr,
            object = None ∨ name = None
            → ∃ h' : heap, cJSON_AddArrayToObject oracle object name h = Ret (None, h') ∧ clean_failure h h' )
  ∧
  (* cJSON_AddStringToObject_null_string *)
  ( ∀ (oracle : nat → bool) (h : heap) (F : forest),
      WF h F
      → live_below h
        → ∀ object name : ptr,
            ∃ h' : heap, cJSON_AddStringToObject oracle object name None h = Ret (None, h') ∧ clean_failure h h' )
  ∧
  (* cJSON_AddRawToObject_null_raw *)
  ( ∀ (oracle : nat → bool) (h : heap) (F : forest),
      WF h F
      → live_below h
        → ∀ object name : ptr,
            ∃ h' : heap, cJSON_AddRawToObject oracle object name None h = Ret (None, h') ∧ clean_failure h h' ).
Proof. exact (conj cJSON_AddNullToObject_null (conj cJSON_AddTrueToObject_null (conj cJSON_AddFalseToObject_null (conj cJSON_AddBoolToObject_null (conj cJSON_AddNumberToObject_null (conj cJSON_AddStringToObject_null (conj cJSON_AddRawToObject_null (conj cJSON_AddObjectToObject_null (conj cJSON_AddArrayToObject_null (conj cJSON_AddStringToObject_null_string cJSON_AddRawToObject_null_raw)))))))))). Qed.
Print Assumptions C08_add_helpers_null.

(* non-vacuity (CoreRefineHelpers.v PART 3): [hobj] = two caller strings ("hi" = block 1, "hello" = block 2) and an
   empty object (node 3), built from [empty_heap]; the hypotheses of the helper theorem hold there for every oracle;
   concrete runs of cJSON_AddStringToObject(object 3, "hi", "hello") with the 1st / 2nd / 3rd request of the call
   refused (NULL; live set, node maps, strings as before; the trace shows the releases) and with all granted (node 4
   with text block 5 is the member "hi" (key block 6) of object 3), and with a NULL name *)
Theorem C08_add_helpers_nonvacuous :
  (* ex_add_string_any_oracle *)
  ( ∀ oracle : nat → bool,
      let h1' := new_string hobj c_cJSON_String (str_at hobj 2 ++ [0%Z]) in
      add_helper_post oracle
        (cJSON_AddStringToObject oracle (Some 3%positive) (Some 1%positive) (Some 2%positive)) hobj Fobj 3 [] 1
        (rd_string c_cJSON_String (Pos.succ (h_next hobj))) h1'
      ∧ Readable h1' (Pos.succ (h_next hobj))
        ∧ str_at h1' (Pos.succ (h_next hobj)) = str_at hobj 2 ∧ h_own h1' !! Pos.succ (h_next hobj) = Some Lib )
  ∧
  (* ex_add_string_refused_clean *)
  ( ∀ n : nat,
      1 <= n <= 3
      → ∃ h' : heap,
          cJSON_AddStringToObject (refuse_nth n) (Some 3%positive) (Some 1%positive) (Some 2%positive) hobj =
          Ret (None, h') ∧ clean_failure hobj h' ∧ WF h' Fobj ∧ lib_live h' = lib_live hobj )
  ∧
  (* ex_add_string_refused_1 *)
  ( let m := cJSON_AddStringToObject (refuse_nth 1) (Some 3%positive) (Some 1%positive) (Some 2%positive) in
    let h' := heap_after m hobj in
    result_of m hobj = Some None
    ∧ elements (h_live h') = elements (h_live hobj)
      ∧ map_to_list (h_lnk h') = map_to_list (h_lnk hobj)
        ∧ map_to_list (h_dat h') = map_to_list (h_dat hobj)
          ∧ map_to_list (h_str h') = map_to_list (h_str hobj) ∧ h_req h' = 2 ∧ h_trace h' = h_trace hobj )
  ∧
  (* ex_add_string_refused_2 *)
  ( let m := cJSON_AddStringToObject (refuse_nth 2) (Some 3%positive) (Some 1%positive) (Some 2%positive) in
    let h' := heap_after m hobj in
    result_of m hobj = Some None
    ∧ elements (h_live h') = elements (h_live hobj)
      ∧ map_to_list (h_lnk h') = map_to_list (h_lnk hobj)
        ∧ map_to_list (h_dat h') = map_to_list (h_dat hobj)
          ∧ map_to_list (h_str h') = map_to_list (h_str hobj)
            ∧ h_req h' = 3 ∧ h_trace h' = [EvFree 4 LibcFn; EvAlloc 4 LibcFn] ++ h_trace hobj )
  ∧
  (* ex_add_string_refused_3 *)
  ( let m := cJSON_AddStringToObject (refuse_nth 3) (Some 3%positive) (Some 1%positive) (Some 2%positive) in
    let h' := heap_after m hobj in
    result_of m hobj = Some None
    ∧ elements (h_live h') = elements (h_live hobj)
      ∧ map_to_list (h_lnk h') = map_to_list (h_lnk hobj)
        ∧ map_to_list (h_dat h') = map_to_list (h_dat hobj)
          ∧ map_to_list (h_str h') = map_to_list (h_str hobj)
            ∧ h_req h' = 4
              ∧ h_trace h' =
                [EvFree 4 LibcFn; EvFree 5 LibcFn; EvAlloc 5 LibcFn; EvAlloc 4 LibcFn] ++ h_trace hobj )
  ∧
  (* ex_add_string_granted *)
  ( let m := cJSON_AddStringToObject never (Some 3%positive) (Some 1%positive) (Some 2%positive) in
    let h' := heap_after m hobj in
    let F' := [T 3 (rd_of_type c_cJSON_Object) [T 4 (rd_owned_key (rd_string c_cJSON_String 5) 6) []]] in
    result_of m hobj = Some (Some 4%positive)
    ∧ map_to_list (h_lnk h') = map_to_list (heap_lnk_of F')
      ∧ map_to_list (h_dat h') = map_to_list (heap_dat_of F')
        ∧ str_at h' 5 = [104%Z; 101%Z; 108%Z; 108%Z; 111%Z]
          ∧ str_at h' 6 = [104%Z; 105%Z]
            ∧ elements (h_live h') = [1%positive; 2%positive; 4%positive; 6%positive; 3%positive; 5%positive]
              ∧ result_of (cJSON_GetObjectItemCaseSensitive (Some 3%positive) (Some 1%positive)) h' =
                Some (Some 4%positive) ∧ result_of (cJSON_GetArraySize (Some 3%positive)) h' = Some 1%Z )
  ∧
  (* ex_add_string_null_name *)
  ( let m := cJSON_AddStringToObject never (Some 3%positive) None (Some 2%positive) in
    let h' := heap_after m hobj in
    result_of m hobj = Some None
    ∧ elements (h_live h') = elements (h_live hobj)
      ∧ map_to_list (h_lnk h') = map_to_list (h_lnk hobj)
        ∧ map_to_list (h_dat h') = map_to_list (h_dat hobj)
          ∧ map_to_list (h_str h') = map_to_list (h_str hobj) ∧ h_req h' = 3 ).
Proof. exact (conj ex_add_string_any_oracle (conj ex_add_string_refused_clean (conj ex_add_string_refused_1 (conj ex_add_string_refused_2 (conj ex_add_string_refused_3 (conj ex_add_string_granted ex_add_string_null_name)))))). Qed.
Print Assumptions C08_add_helpers_nonvacuous.

(** ------------------------------------------------------------------ tree API: HISTORIES under allocation failure

    The single-call statements above, lifted to histories (CoreHistoryFail*.v).  Alphabet: [CoreHistoryAll.op3], the
    whole public edit/query API of C06 (constructors with and without payload, reference constructors, bulk array
    constructors, the cJSON_Add<Type>ToObject helpers, cJSON_AddItemReferenceToArray/Object, add / insert / detach /
    replace / delete by pointer, index and key, replace by key, the setters incl. cJSON_SetValuestring, the queries,
    caller strings).  Rule checker: [CoreHistoryAll.pre_ok3b], the one of C06_history, UNCHANGED.

      [run_op3o o] / [run_ops3o o]   the proof-side interpreter with the failure schedule [o : nat -> bool] as a
                                     parameter (request number k, counted over the whole history from 0, is refused iff
                                     [o k = true]);
      [spec_step3o o]                the list model with failure, a FUNCTION of the schedule (the abstract state carries
                                     the request counter [req S]);
      [spec_step_fail o S op]        what that function is: with n := [nreq3 S op], the number of requests the call makes
                                     when nothing is refused (the advance of the request counter in the never-failing
                                     model [spec_step3]):  if [o] grants requests req S .. req S + n - 1 then the NORMAL
                                     step [spec_step3 S op], else for the FIRST refused one, j: the documented failure
                                     value [fail_res3 op] (NULL / false) and [refused_state S j] — forest, string heap
                                     and caller blocks of S, only the allocator counters advanced;
      [pre_ok_all3ob o S ops]        every call is accepted by [pre_ok3b] in the abstract state reached under [o].  *)
From CJ Require Import CoreRefineHistoryObj CoreRefineHistoryObjEx CoreLedgerGen CoreHistoryAllSteps CoreHistoryAll
  CoreLedgerAll CoreHistoryAllEx CoreLedgerDup CoreHistoryFailSteps CoreHistoryFailArr CoreHistoryFail CoreHistoryFailSpec
  CoreHistoryFailHist CoreHistoryFailDup.
From CJ Require CoreOps.

(* the generalised interpreter and model coincide with those of C06_history for the schedule that never refuses *)
Theorem C08_history_conservative :
  (forall op, run_op3o never op = run_op3 op) /\
  (forall ops, run_ops3o never ops = run_ops3 ops) /\
  (forall S op, spec_step3o never S op = spec_step3 S op) /\
  (forall ops S, spec_run3o never S ops = spec_run3 S ops) /\
  (forall ops S, spec_results3o never S ops = spec_results3 S ops) /\
  (forall ops S, pre_ok_all3ob never S ops = pre_ok_all3b S ops).
Proof. exact (conj run_op3o_never (conj run_ops3o_never (conj spec_step3o_never (conj spec_run3o_never (conj spec_results3o_never pre_ok_all3ob_never))))). Qed.
Print Assumptions C08_history_conservative.

(* the list model with failure has exactly two kinds of step, and the schedule decides which: in every represented
   state and for every accepted call it is [spec_step_fail] *)
Theorem C08_history_model :
  forall (o : nat -> bool) (h : heap) (S : astate2) (op : op3),
    Abs3 h S -> pre_ok3 S op -> spec_step3o o S op = spec_step_fail o S op.
Proof. exact spec_step3o_fail. Qed.
Print Assumptions C08_history_model.
(* … read as two implications: every request of the failure-free call granted => the normal step; request j the first
   refused one among them => the refused step; a call that never asks the allocator => the normal step *)
Theorem C08_history_model_branches :
  (forall (o : nat -> bool) h S op,
     Abs3 h S -> pre_ok3 S op ->
     (forall k, (req S <= k < req S + nreq3 S op)%nat -> o k = false) ->
     spec_step3o o S op = spec_step3 S op) /\
  (forall (o : nat -> bool) h S op j,
     Abs3 h S -> pre_ok3 S op ->
     (req S <= j < req S + nreq3 S op)%nat -> o j = true -> (forall k, (req S <= k < j)%nat -> o k = false) ->
     spec_step3o o S op = (refused_state S j, fail_res3 op)) /\
  (forall (o : nat -> bool) S op, op3_allocates op = false -> spec_step_fail o S op = spec_step3 S op) /\
  (forall S j, a_forest (refused_state S j) = a_forest S /\ a_str (refused_state S j) = a_str S /\
               a_foreign (refused_state S j) = a_foreign S /\ req (refused_state S j) = Datatypes.S j).
Proof. exact (conj step_fail_normal (conj step_fail_refused (conj step_fail_noalloc refused_state_same))). Qed.
Print Assumptions C08_history_model_branches.

(* ONE call under any schedule from any represented state: no error outcome, the model's result, the representation
   and the exact ledger again, one of the two steps; over a refused call node maps, string map and the set of live
   library blocks of the heap are what they were *)
Theorem C08_history_one_call :
  forall (o : nat -> bool) (h : heap) (S : astate2) (op : op3),
    Abs3 h S -> pre_ok3 S op ->
    let S' := (spec_step3o o S op).1 in let r := (spec_step3o o S op).2 in
    exists h',
      run_op3o o op h = Ret (r, h') /\ Abs3 h' S' /\
      (forall b, b ∈ lib_live h' <-> b ∈ owned (a_forest S')) /\
      step_branch o S op S' r /\
      (forall j, first_refusal o (req S) (nreq3 S op) = Some j ->
         h_lnk h' = h_lnk h /\ h_dat h' = h_dat h /\ h_str h' = h_str h /\ lib_live h' = lib_live h).
Proof. exact call_fail. Qed.
Print Assumptions C08_history_one_call.

(* THE HISTORY THEOREM: every schedule, every accepted history, EVERY call of it (ops1 = the calls before it) *)
Theorem C08_history :
  forall (o : nat -> bool) (ops1 : list op3) (op : op3) (ops2 : list op3),
    pre_ok_all3ob o S0 (ops1 ++ op :: ops2) = true ->
    let S := spec_run3o o S0 ops1 in
    let S' := (spec_step3o o S op).1 in let r := (spec_step3o o S op).2 in
    exists h h',
      run_ops3o o ops1 empty_heap = Ret (spec_results3o o S0 ops1, h) /\ Abs3 h S /\
      run_op3o o op h = Ret (r, h') /\ Abs3 h' S' /\
      (forall b, b ∈ lib_live h' <-> b ∈ owned (a_forest S')) /\
      step_branch o S op S' r /\
      (forall j, first_refusal o (req S) (nreq3 S op) = Some j ->
         h_lnk h' = h_lnk h /\ h_dat h' = h_dat h /\ h_str h' = h_str h /\ lib_live h' = lib_live h).
Proof. exact history_fail_every_call_checked. Qed.
Print Assumptions C08_history.

(* … the whole history and the clean-up: no error outcome, the model's results, exact ledger; cJSON_Delete of every
   remaining root never errs and ends with NO live library block; borrowed memory is untouched *)
Theorem C08_history_balanced :
  forall (o : nat -> bool) (ops : list op3),
    pre_ok_all3ob o S0 ops = true ->
    let S1 := spec_run3o o S0 ops in
    exists h1 h2,
      run_ops3o o ops empty_heap = Ret (spec_results3o o S0 ops, h1) /\
      Abs3 h1 S1 /\
      (forall b, b ∈ lib_live h1 <-> b ∈ owned (a_forest S1)) /\
      delete_roots (roots (a_forest S1)) h1 = Ret (tt, h2) /\
      lib_live h2 = ∅ /\ lib_live empty_heap = ∅ /\
      (forall b, h_own h1 !! b = Some Foreign -> b ∈ h_live h1 -> b ∈ h_live h2 /\ h_str h2 !! b = h_str h1 !! b).
Proof. exact history_fail_balanced. Qed.
Print Assumptions C08_history_balanced.
(* … from any represented state *)
Theorem C08_history_from_any_state :
  forall (o : nat -> bool) (ops : list op3) (h : heap) (S : astate2),
    Abs3 h S -> pre_ok_all3o o S ops ->
    exists h', run_ops3o o ops h = Ret (spec_results3o o S ops, h') /\ Abs3 h' (spec_run3o o S ops).
Proof. exact history_sim3o. Qed.
Print Assumptions C08_history_from_any_state.

(* a single failing request: [CoreOps.fail_kth (k+1)] refuses request number k and nothing else; the call during which
   request k would be made takes the refused step at k, every other call the normal step *)
Theorem C08_history_fail_kth :
  (forall h S op k,
     Abs3 h S -> pre_ok3 S op ->
     spec_step3o (CoreOps.fail_kth (Datatypes.S k)) S op =
     if (req S <=? k)%nat && (k <? req S + nreq3 S op)%nat then (refused_state S k, fail_res3 op) else spec_step3 S op) /\
  (forall k ops,
     pre_ok_all3ob (CoreOps.fail_kth k) S0 ops = true ->
     let o := CoreOps.fail_kth k in
     let S1 := spec_run3o o S0 ops in
     exists h1 h2,
       run_ops3o o ops empty_heap = Ret (spec_results3o o S0 ops, h1) /\ Abs3 h1 S1 /\
       (forall b, b ∈ lib_live h1 <-> b ∈ owned (a_forest S1)) /\
       delete_roots (roots (a_forest S1)) h1 = Ret (tt, h2) /\ lib_live h2 = ∅).
Proof. exact (conj step_fail_kth history_fail_kth). Qed.
Print Assumptions C08_history_fail_kth.

(* cJSON_Duplicate (not a call of the alphabet: its result is specified by C11's relation [copy_of]) after a history,
   under the same schedule: a copy as a new root, or NULL with only the allocator counters advanced; either way the
   state reached is represented (the history theorem continues from it) and the clean-up balances the ledger *)
Theorem C08_history_then_duplicate :
  (forall (o : nat -> bool) h S p t,
     Abs3 h S -> find_tree p (a_forest S) = Some t ->
     vals_readable S t -> no_borrowed t -> (height t <= Z.to_nat Constants.c_CJSON_CIRCULAR_LIMIT)%nat ->
     exists r h' S',
       cJSON_Duplicate o (Some p) true h = Ret (r, h') /\ Abs3 h' S' /\ a_foreign S' = a_foreign S /\
       ((r = None /\ S' = with_counters S (h_next h') (h_req h') /\
         h_lnk h' = h_lnk h /\ h_dat h' = h_dat h /\ h_str h' = h_str h /\ h_live h' = h_live h /\
         lib_live h' = lib_live h /\ ofail o h h')
        \/ (exists tc, r = Some (tid tc) /\ copy_of h' t tc /\ a_forest S' = a_forest S ++ [tc] /\
              (forall b, b ∈ owned [tc] -> (h_next h <= b)%positive /\ b ∉ h_live h) /\ oclean o h h'))) /\
  (forall (o : nat -> bool) ops p,
     pre_ok_all3ob o S0 ops = true -> dup_okb (spec_run3o o S0 ops) p = true ->
     exists h1 r h2 S2 h3,
       run_ops3o o ops empty_heap = Ret (spec_results3o o S0 ops, h1) /\
       cJSON_Duplicate o (Some p) true h1 = Ret (r, h2) /\ Abs3 h2 S2 /\
       (r = None -> a_forest S2 = a_forest (spec_run3o o S0 ops) /\ h_lnk h2 = h_lnk h1 /\ h_dat h2 = h_dat h1 /\
                    h_str h2 = h_str h1 /\ lib_live h2 = lib_live h1) /\
       delete_roots (roots (a_forest S2)) h2 = Ret (tt, h3) /\ lib_live h3 = ∅ /\
       (forall b, h_own h1 !! b = Some Foreign -> b ∈ h_live h1 -> b ∈ h_live h3 /\ h_str h3 !! b = h_str h1 !! b)).
Proof. exact (conj dup_two_branches history_dup_balanced). Qed.
Print Assumptions C08_history_then_duplicate.

(* NON-VACUITY: [ex8], 19 calls — an object with owned and constant keys, strings, a number added by a helper, an item
   reference, replace by key, cJSON_SetValuestring in place and growing, a bulk constructor, queries — under the
   schedule that refuses requests 4 (the node of cJSON_AddNumberToObject) and 9 (the copy of the name in
   cJSON_AddItemReferenceToObject, after its node was allocated).  The checker accepts it; the model's results are
   NULL / false at the two refused calls and the normal results elsewhere; both branches occur; the refused calls leave
   forest and strings as they were; the transliterated code RUN under the schedule returns exactly the model's results,
   and after cJSON_Delete of the two remaining roots no library block is live (the three caller strings are). *)
Theorem C08_history_nonvacuous :
  pre_ok_all3ob ex8_oracle S0 ex8 = true /\
  length ex8 = 19%nat /\
  spec_results3o ex8_oracle S0 ex8 =
    [R (RPtr (Some 1)); R (RPtr (Some 2)); R (RPtr (Some 3)); R (RPtr (Some 4)); R (RBool true);
     R (RPtr None); R (RPtr (Some 7)); R (RPtr (Some 9)); R (RBool true);
     R (RBool false); R (RBool true); R (RPtr (Some 13)); R (RBool true); R (RPtr (Some 5));
     R (RPtr (Some 16)); R (RPtr (Some 17)); R (RPtr (Some 18)); R (RPtr (Some 13)); R (RInt 4)]%positive /\
  branches ex8_oracle S0 ex8 =
    [None; None; None; None; None; Some 4%nat; None; None; None; Some 9%nat; None; None; None; None; None; None; None; None; None] /\
  (let S5 := spec_run3o ex8_oracle S0 (take 5 ex8) in let S6 := spec_run3o ex8_oracle S0 (take 6 ex8) in
   let S9 := spec_run3o ex8_oracle S0 (take 9 ex8) in let S10 := spec_run3o ex8_oracle S0 (take 10 ex8) in
   a_forest S6 = a_forest S5 /\ map_to_list (a_str S6) = map_to_list (a_str S5) /\
   a_forest S10 = a_forest S9 /\ map_to_list (a_str S10) = map_to_list (a_str S9) /\
   (nxt S5, req S5, nxt S6, req S6) = (7%positive, 4%nat, 7%positive, 5%nat) /\
   (nxt S9, req S9, nxt S10, req S10) = (10%positive, 8%nat, 11%positive, 10%nat)) /\
  results_of (run_ops3o ex8_oracle ex8) empty_heap = Some (spec_results3o ex8_oracle S0 ex8) /\
  roots (a_forest (spec_run3o ex8_oracle S0 ex8)) = [3; 18]%positive /\
  ledger_after (run_ops3o ex8_oracle ex8 ;;; delete_roots [3; 18]%positive) empty_heap = Some ([], [1; 2; 16]%positive) /\
  (exists h1 h2,
     run_ops3o ex8_oracle ex8 empty_heap = Ret (spec_results3o ex8_oracle S0 ex8, h1) /\
     Abs3 h1 (spec_run3o ex8_oracle S0 ex8) /\
     (forall b, b ∈ lib_live h1 <-> b ∈ owned (a_forest (spec_run3o ex8_oracle S0 ex8))) /\
     delete_roots (roots (a_forest (spec_run3o ex8_oracle S0 ex8))) h1 = Ret (tt, h2) /\
     lib_live h2 = ∅ /\ lib_live empty_heap = ∅ /\
     (forall b, h_own h1 !! b = Some Foreign -> b ∈ h_live h1 -> b ∈ h_live h2 /\ h_str h2 !! b = h_str h1 !! b)).
Proof. exact (conj ex8_accepted (conj eq_refl (conj ex8_results (conj ex8_branches (conj ex8_refused_unchanged (conj ex8_run_results (conj ex8_roots (conj ex8_run_balanced ex8_history)))))))). Qed.
Print Assumptions C08_history_nonvacuous.
