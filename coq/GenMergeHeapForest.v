(** GenMergeHeapForest.v — forest-level vocabulary for functions that REORDER members in place
    (compare_json, generate_merge_patch: both call sort_object on nodes they walk through).

    [treord t t']   t' is t with the children lists reordered at any level (same identities, same data)
    [gdoc t]        every member of an object node of t has a name, every string node has a valuestring
    [Frame G G' S]  G' is G changed at most at the nodes with identities in S: same roots, same (identity,
                    data) pairs, and every flat entry (identity, data, children identities) of G outside S is a
                    flat entry of G'
    [find_tree_of_flat]  a tree whose flat entries all occur in a forest IS a subtree of that forest
    [frame_parent]  after a change confined to the subtree of one child, the parent is found with that child
                    exchanged
    and the step lemmas under [MInv] for the two calls MergeHeapInv.v does not have: [step_sort]
    (heap-level sort_object on a node of the forest, C19) and [step_create_typed] (cJSON_CreateNull). *)
From CJ Require Import Base Dbl Heap Forest ForestLemmas CoreSpec CoreDefs CoreRefineBase CoreRefine CoreRefineMore
  CoreRefineFrame CoreRefineHistory CoreRefineDupValue CoreRefineDupForest CoreLedgerGen.
From CJ Require Import TierBridgeDefs TierBridgeForest TierBridgeLemmas TierBridgeSortHeap.
From CJ Require Import MergeHeapDefs MergeHeapInv MergeHeapProofs.
From CJ Require Tree CompareDefs MergeDefs MergePerm SortDefs SortSpec TierBridgeSort.
From CJ.gen Require Import Constants.
From stdpp Require Import gmap.
From Coq Require Import Lia.
Local Open Scope Z_scope.

(** * reordering of children at every level *)
Inductive treord : tree -> tree -> Prop :=
| treord_intro i d cs mid cs' : Forall2 treord cs mid -> mid ≡ₚ cs' -> treord (T i d cs) (T i d cs').

Lemma Forall2_impl_in {A B} (R Q : A -> B -> Prop) l m :
  Forall (fun x => forall y, R x y -> Q x y) l -> Forall2 R l m -> Forall2 Q l m.
Proof.
  intros H F. induction F as [|x y l m Hxy _ IH]; [constructor|].
  apply Forall_cons in H as [H1 H2]. constructor; [by apply H1|by apply IH].
Qed.

Lemma treord_refl t : treord t t.
Proof.
  induction t as [i d cs IH] using tree_ind'. apply treord_intro with (mid := cs); [|done].
  induction cs as [|c r IHr]; [constructor|]. apply Forall_cons in IH as [H1 H2]. constructor; [done|by apply IHr].
Qed.
Lemma Forall2_treord_refl l : Forall2 treord l l.
Proof. induction l; constructor; [apply treord_refl|done]. Qed.

Lemma treord_inv t t' : treord t t' ->
  tid t' = tid t /\ tdata t' = tdata t /\ exists mid, Forall2 treord (tchildren t) mid /\ mid ≡ₚ tchildren t'.
Proof. intros H. inversion H; subst. cbn. split; [done|]. split; [done|]. by exists mid. Qed.
Lemma treord_tid t t' : treord t t' -> tid t' = tid t.
Proof. intros H. by apply treord_inv in H as (? & _). Qed.
Lemma treord_tdata t t' : treord t t' -> tdata t' = tdata t.
Proof. intros H. by apply treord_inv in H as (_ & ? & _). Qed.

Lemma treord_trans : forall a b c, treord a b -> treord b c -> treord a c.
Proof.
  induction a as [i d cs IH] using tree_ind'. intros b c H1 H2.
  inversion H1 as [? ? ? mid1 csb F1 P1]; subst. inversion H2 as [? ? ? mid2 csc F2 P2]; subst.
  destruct (MergePerm.Forall2_perm_swap treord mid1 csb P1 mid2 F2) as (m' & F3 & P3).
  apply treord_intro with (mid := m'); [|by etrans].
  clear H1 H2 P1 P2 F2 P3. revert m' F3. induction F1 as [|x y l m Hxy _ IHl]; intros m' F3.
  - inversion F3; subst. constructor.
  - inversion F3 as [|? z ? m'' Hyz Hrest]; subst. apply Forall_cons in IH as [IHx IHr].
    constructor; [by eapply IHx|by apply IHl].
Qed.

(** the children of the images, from the sorted children to their images *)
Lemma treord_children i d cs sorted final :
  cs ≡ₚ sorted -> Forall2 treord sorted final -> treord (T i d cs) (T i d final).
Proof.
  intros P F. destruct (MergePerm.Forall2_perm_swap treord cs sorted P final F) as (m & F' & P').
  by apply treord_intro with (mid := m).
Qed.

(** ** what a reordering preserves *)
Lemma Forall2_perm_fmap {A B} (f : A -> list B) (R : A -> A -> Prop) l m :
  Forall2 R l m -> Forall (fun x => forall y, R x y -> f y ≡ₚ f x) l -> m ≫= f ≡ₚ l ≫= f.
Proof.
  intros F H. induction F as [|x y l m Hxy _ IH]; [done|].
  apply Forall_cons in H as [H1 H2]. rewrite !bind_cons. by rewrite (H1 y Hxy), (IH H2).
Qed.

Lemma fmap_bind_list {A B C} (f : B -> C) (g : A -> list B) (l : list A) : f <$> (l ≫= g) = l ≫= (fun x => f <$> g x).
Proof. induction l as [|a l IH]; [done|]. by rewrite !bind_cons, fmap_app, IH. Qed.

Lemma treord_nodes_data : forall t t', treord t t' -> (fdata ∘ flat_of) <$> nodes_t t' ≡ₚ (fdata ∘ flat_of) <$> nodes_t t.
Proof.
  induction t as [i d cs IH] using tree_ind'. intros t' H. inversion H as [? ? ? mid cs' F P]; subst.
  rewrite !nodes_t_unfold, !fmap_cons. apply Permutation_skip.
  unfold nodes. rewrite <- P. rewrite !fmap_bind_list.
  apply (Forall2_perm_fmap (fun c => (fdata ∘ flat_of) <$> nodes_t c) treord cs mid F). exact IH.
Qed.
Lemma treord_datas t t' : treord t t' -> datas [t'] ≡ₚ datas [t].
Proof.
  intros H. unfold datas. rewrite !flat_singleton. unfold flat_t. rewrite <- !list_fmap_compose.
  by apply treord_nodes_data.
Qed.
Lemma treord_ids t t' : treord t t' -> ids_t t' ≡ₚ ids_t t.
Proof.
  intros H. pose proof (treord_nodes_data _ _ H) as P.
  apply (fmap_Permutation fst) in P. rewrite <- !list_fmap_compose in P. exact P.
Qed.
Lemma treord_tsize t t' : treord t t' -> tsize t' = tsize t.
Proof. intros H. apply treord_ids in H. apply Permutation_length in H. unfold ids_t in H. rewrite !fmap_length in H. exact H. Qed.

Lemma height_list_perm l m : l ≡ₚ m -> height_list l = height_list m.
Proof. induction 1; cbn [height_list]; lia. Qed.
Lemma treord_height : forall t t', treord t t' -> height t' = height t.
Proof.
  induction t as [i d cs IH] using tree_ind'. intros t' H. inversion H as [? ? ? mid cs' F P]; subst.
  rewrite !height_unfold, <- (height_list_perm _ _ P). clear H P.
  induction F as [|x y l m Hxy _ IHl]; [done|]. apply Forall_cons in IH as [IHx IHr].
  cbn [height_list]. rewrite (IHx y Hxy), (IHl IHr). done.
Qed.

(** * trees the two utilities can walk without dereferencing NULL *)
Definition node_ok (t : tree) : Prop :=
  (Tree.tymask (rd_type (tdata t)) = c_cJSON_Object -> forall c, c ∈ tchildren t -> rd_key (tdata c) <> None) /\
  (Tree.tymask (rd_type (tdata t)) = c_cJSON_String -> rd_vstr (tdata t) <> None).
Definition gdoc (t : tree) : Prop := forall n, n ∈ nodes_t t -> node_ok n.

Lemma gdoc_self t : gdoc t -> node_ok t.
Proof. intros H. apply H. apply nodes_t_self. Qed.
Lemma gdoc_child i d cs c : gdoc (T i d cs) -> c ∈ cs -> gdoc c.
Proof.
  intros H Hc n Hn. apply H. rewrite nodes_t_unfold. right. apply elem_of_nodes. exists c. by split.
Qed.
Lemma gdoc_intro i d cs : node_ok (T i d cs) -> (forall c, c ∈ cs -> gdoc c) -> gdoc (T i d cs).
Proof.
  intros H1 H2 n Hn. rewrite nodes_t_unfold in Hn. apply elem_of_cons in Hn as [->|Hn]; [done|].
  apply elem_of_nodes in Hn as (c & Hc & Hn). by apply (H2 c Hc).
Qed.
Lemma gdoc_members_keyed t : gdoc t -> members_keyed t.
Proof. intros H i d cs Hn Hobj c Hc. exact (proj1 (H _ Hn) Hobj c Hc). Qed.

Lemma Forall2_elem_r {A B} (R : A -> B -> Prop) l m y : Forall2 R l m -> y ∈ m -> exists x, x ∈ l /\ R x y.
Proof.
  intros F. induction F as [|a b l m Hab _ IH]; intros Hy; [by apply elem_of_nil in Hy|].
  apply elem_of_cons in Hy as [->|Hy]; [exists a; split; [by left|done]|].
  destruct (IH Hy) as (x & Hx & Hr). exists x. split; [by right|done].
Qed.

Lemma treord_gdoc : forall t t', treord t t' -> gdoc t -> gdoc t'.
Proof.
  induction t as [i d cs IH] using tree_ind'. intros t' H G. inversion H as [? ? ? mid cs' F P]; subst.
  pose proof (gdoc_self _ G) as [K1 K2]. cbn [tdata tchildren] in K1, K2.
  apply gdoc_intro.
  - split; cbn [tdata tchildren]; [|done]. intros Ho c Hc. rewrite <- P in Hc.
    destruct (Forall2_elem_r _ _ _ _ F Hc) as (x & Hx & Hr). rewrite (treord_tdata _ _ Hr). by apply K1.
  - intros c Hc. rewrite <- P in Hc. destruct (Forall2_elem_r _ _ _ _ F Hc) as (x & Hx & Hr).
    rewrite Forall_forall in IH. apply (IH x Hx c Hr). by eapply gdoc_child.
Qed.

(** * a tree whose flat entries all occur in a forest is a subtree of the forest *)
Lemma flat_of_node_inv F (e : fnode) : e ∈ flat F -> exists n, n ∈ nodes F /\ flat_of n = e.
Proof. intros H. apply elem_of_list_fmap in H as (n & -> & Hn). by exists n. Qed.

Lemma same_ids_eq (cs1 cs2 : list tree) :
  tid <$> cs1 = tid <$> cs2 -> (forall k a b, cs1 !! k = Some a -> cs2 !! k = Some b -> a = b) -> cs1 = cs2.
Proof.
  revert cs2. induction cs1 as [|a r IH]; intros [|b r2] E H; try done.
  rewrite !fmap_cons in E. injection E as _ Er. f_equal.
  - by apply (H O).
  - apply IH; [done|]. intros k x y Hx Hy. by apply (H (S k)).
Qed.

Lemma find_tree_of_flat F : NoDup (ids F) -> forall t, (forall e, e ∈ flat_t t -> e ∈ flat F) -> find_tree (tid t) F = Some t.
Proof.
  intros ND. induction t as [i d cs IH] using tree_ind'. intros H.
  assert (He : (i, d, tid <$> cs) ∈ flat F) by (apply H; rewrite flat_t_unfold; by left).
  destruct (flat_of_node_inv F _ He) as ([i' d' cs''] & Hn & E). unfold flat_of in E. cbn in E. injection E as -> -> E.
  assert (cs'' = cs) as ->; [|by apply find_tree_unique].
  apply same_ids_eq; [done|]. intros k a b Ha Hb.
  assert (Hb' : b ∈ cs) by (by eapply elem_of_list_lookup_2).
  rewrite Forall_forall in IH.
  assert (Hfb : find_tree (tid b) F = Some b).
  { apply (IH b Hb'). intros e He'. apply H. rewrite flat_t_unfold. right. apply elem_of_list_fmap in He' as (n & -> & Hn').
    apply elem_of_list_fmap. exists n. split; [done|]. apply elem_of_nodes. exists b. by split. }
  apply find_tree_Some in Hfb as [Hbn _].
  assert (Han : a ∈ nodes F) by (eapply child_in_nodes; [exact Hn|by eapply elem_of_list_lookup_2]).
  apply (nodes_unique F a b ND Han Hbn).
  assert (E1 : (tid <$> cs'') !! k = Some (tid a)) by (by rewrite list_lookup_fmap, Ha).
  assert (E2 : (tid <$> cs) !! k = Some (tid b)) by (by rewrite list_lookup_fmap, Hb).
  rewrite E in E1. rewrite E1 in E2. by injection E2.
Qed.

Lemma flat_t_in_flat F t : t ∈ nodes F -> forall e, e ∈ flat_t t -> e ∈ flat F.
Proof. intros Ht e He. by eapply flat_t_sub. Qed.

(** * frames *)
Record Frame (G G' : forest) (S : list positive) : Prop := mkFrame {
  fr_roots : roots G' = roots G;
  fr_datas : datas G' ≡ₚ datas G;
  fr_flat : forall e : fnode, e ∈ flat G -> fn_id e ∉ S -> e ∈ flat G'
}.

Lemma Frame_refl G S : Frame G G S.
Proof. by constructor. Qed.
Lemma Frame_trans G1 G2 G3 S : Frame G1 G2 S -> Frame G2 G3 S -> Frame G1 G3 S.
Proof.
  intros [A1 A2 A3] [B1 B2 B3]. constructor; [by rewrite B1|by rewrite B2|].
  intros e He Hn. apply B3; [|done]. by apply A3.
Qed.
Lemma Frame_mono G G' S S' : Frame G G' S -> (forall x, x ∈ S -> x ∈ S') -> Frame G G' S'.
Proof. intros [A1 A2 A3] H. constructor; [done|done|]. intros e He Hn. apply A3; [done|]. intros Hin. by apply Hn, H. Qed.

Lemma ids_datas F : ids F = fst <$> datas F.
Proof. unfold datas. rewrite ids_flat, <- list_fmap_compose. done. Qed.
Lemma Frame_ids G G' S : Frame G G' S -> ids G' ≡ₚ ids G.
Proof. intros H. rewrite !ids_datas. by rewrite (fr_datas _ _ _ H). Qed.
Lemma Frame_owned G G' S : Frame G G' S -> owned G' ≡ₚ owned G.
Proof. intros H. rewrite !owned_datas. unfold owned_of. by rewrite (fr_datas _ _ _ H). Qed.

(** a subtree outside [S] is still there *)
Lemma frame_find G G' S t :
  Frame G G' S -> NoDup (ids G') -> find_tree (tid t) G = Some t -> (forall x, x ∈ ids_t t -> x ∉ S) ->
  find_tree (tid t) G' = Some t.
Proof.
  intros Fr ND Ht Hn. apply find_tree_of_flat; [done|]. intros e He. apply (fr_flat _ _ _ Fr).
  - apply find_tree_Some in Ht as [Ht _]. by eapply flat_t_in_flat.
  - apply Hn. rewrite ids_t_flat. apply elem_of_list_fmap. by exists e.
Qed.

(** the parent of a changed child *)
Lemma frame_parent G G' S p d cs (k : nat) c c' :
  Frame G G' S -> NoDup (ids G) -> NoDup (ids G') ->
  find_tree p G = Some (T p d cs) -> cs !! k = Some c ->
  find_tree (tid c) G' = Some c' -> tid c' = tid c ->
  p ∉ S -> (forall j cj, cs !! j = Some cj -> j <> k -> forall x, x ∈ ids_t cj -> x ∉ S) ->
  find_tree p G' = Some (T p d (<[k := c']> cs)).
Proof.
  intros Fr ND ND' Hp Hk Hc' Etid HpS Hsib.
  apply (find_tree_of_flat G' ND' (T p d (<[k := c']> cs))). intros e He.
  rewrite flat_t_unfold in He. apply elem_of_cons in He as [->|He].
  - assert (E : tid <$> <[k := c']> cs = tid <$> cs).
    { rewrite list_fmap_insert, Etid. apply list_insert_id. by rewrite list_lookup_fmap, Hk. }
    rewrite E. apply (fr_flat _ _ _ Fr); [by apply find_tree_flat|done].
  - unfold flat in He. apply elem_of_list_fmap in He as (n & -> & Hn). apply elem_of_nodes in Hn as (cj & Hcj & Hn).
    apply elem_of_list_lookup in Hcj as [j Hj].
    destruct (decide (j = k)) as [->|Hne].
    + rewrite list_lookup_insert in Hj by (by eapply lookup_lt_Some). injection Hj as <-.
      apply find_tree_Some in Hc' as [Hc'n _]. apply (flat_t_in_flat G' c' Hc'n). apply elem_of_list_fmap. by exists n.
    + rewrite list_lookup_insert_ne in Hj by done.
      assert (Hcjn : cj ∈ nodes G).
      { apply find_tree_Some in Hp as [Hpn _]. eapply child_in_nodes; [exact Hpn|by eapply elem_of_list_lookup_2]. }
      apply (fr_flat _ _ _ Fr).
      * apply (flat_t_in_flat G cj Hcjn). apply elem_of_list_fmap. by exists n.
      * apply (Hsib j cj Hj Hne). apply elem_of_list_fmap. by exists n.
Qed.

(** * disjoint subtrees *)
Definition tdisj (a b : tree) : Prop := forall x, x ∈ ids_t a -> x ∉ ids_t b.
Lemma tdisj_sym a b : tdisj a b -> tdisj b a.
Proof. intros H x Hx Hx'. by apply (H x Hx'). Qed.
Lemma ids_t_child i d cs c x : c ∈ cs -> x ∈ ids_t c -> x ∈ ids_t (T i d cs).
Proof.
  intros Hc Hx. rewrite ids_t_unfold. right. unfold ids. apply elem_of_list_fmap in Hx as (n & -> & Hn).
  apply elem_of_list_fmap. exists n. split; [done|]. apply elem_of_nodes. exists c. by split.
Qed.
Lemma tdisj_children i d cs j e ds c c2 : tdisj (T i d cs) (T j e ds) -> c ∈ cs -> c2 ∈ ds -> tdisj c c2.
Proof. intros H Hc Hc2 x Hx Hx2. apply (H x); by eapply ids_t_child. Qed.
Lemma tdisj_treord a b a' b' : tdisj a b -> treord a a' -> treord b b' -> tdisj a' b'.
Proof. intros H Ra Rb x Hx Hx'. rewrite (treord_ids _ _ Ra) in Hx. rewrite (treord_ids _ _ Rb) in Hx'. by apply (H x). Qed.

(** siblings are disjoint *)
Lemma sublist_NoDup' {A} (l1 l2 : list A) : l1 `sublist_of` l2 -> NoDup l2 -> NoDup l1.
Proof.
  induction 1 as [|x l1 l2 Hs IH|x l1 l2 Hs IH]; intros ND; [done| |].
  - apply NoDup_cons in ND as [Hx ND]. apply NoDup_cons. split; [|by apply IH].
    intros Hin. apply Hx. eapply elem_of_submseteq; [exact Hin|by apply sublist_submseteq].
  - apply NoDup_cons in ND as [_ ND]. by apply IH.
Qed.
Lemma NoDup_ids_t_node F n : NoDup (ids F) -> n ∈ nodes F -> NoDup (ids_t n).
Proof.
  intros ND Hn. apply elem_of_nodes in Hn as (r & Hr & Hn).
  apply elem_of_list_split in Hr as (l1 & l2 & ->). rewrite ids_app, ids_cons in ND.
  apply NoDup_app in ND as (_ & _ & ND). apply NoDup_app in ND as (ND & _ & _).
  pose proof (nodes_t_sublist r n Hn) as Hs. pose proof (fmap_sublist tid _ _ Hs) as Hs'.
  exact (sublist_NoDup' _ _ Hs' ND).
Qed.
Lemma siblings_disjoint F p d cs (j k : nat) cj ck :
  NoDup (ids F) -> find_tree p F = Some (T p d cs) -> cs !! j = Some cj -> cs !! k = Some ck -> j <> k -> tdisj cj ck.
Proof.
  intros ND Hp Hj Hk Hne x Hx Hx'.
  assert (NDc : NoDup (ids cs)).
  { apply find_tree_Some in Hp as [Hpn _]. pose proof (NoDup_ids_t_node F _ ND Hpn) as ND2.
    rewrite ids_t_unfold in ND2. by apply NoDup_cons in ND2 as [_ ?]. }
  clear Hp ND. revert j k Hj Hk Hne. induction cs as [|c r IH]; intros j k Hj Hk Hne; [done|].
  rewrite ids_cons in NDc. apply NoDup_app in NDc as (N1 & N12 & N2).
  destruct j as [|j], k as [|k]; cbn in Hj, Hk; try done.
  - injection Hj as ->. apply (N12 x Hx). unfold ids. apply elem_of_list_fmap in Hx' as (n & -> & Hn).
    apply elem_of_list_fmap. exists n. split; [done|]. apply elem_of_nodes. exists ck. split; [by eapply elem_of_list_lookup_2|done].
  - injection Hk as ->. apply (N12 x Hx'). unfold ids. apply elem_of_list_fmap in Hx as (n & -> & Hn).
    apply elem_of_list_fmap. exists n. split; [done|]. apply elem_of_nodes. exists cj. split; [by eapply elem_of_list_lookup_2|done].
  - apply (IH N2 j k Hj Hk). lia.
Qed.
Lemma parent_not_in_child F p d cs c : NoDup (ids F) -> find_tree p F = Some (T p d cs) -> c ∈ cs -> p ∉ ids_t c.
Proof.
  intros ND Hp Hc Hin.
  apply find_tree_Some in Hp as [Hpn _]. pose proof (NoDup_ids_t_node F _ ND Hpn) as ND2.
  rewrite ids_t_unfold in ND2.
  apply NoDup_cons in ND2 as [Hn _]. apply Hn. unfold ids. apply elem_of_list_fmap in Hin as (n & -> & Hn').
  apply elem_of_list_fmap. exists n. split; [done|]. apply elem_of_nodes. exists c. by split.
Qed.

(** * [set_children] on the left part of a forest *)
Lemma set_children_app_l p cs' G X : p ∉ ids X -> set_children p cs' (G ++ X) = set_children p cs' G ++ X.
Proof. intros Hn. unfold set_children. rewrite fmap_app. f_equal. by apply set_children_notin. Qed.

Lemma find_tree_in_ids p F n : find_tree p F = Some n -> p ∈ ids F.
Proof. intros H. apply find_tree_Some in H as [Hn <-]. apply elem_of_list_fmap. by exists n. Qed.

Lemma ids_disjoint_app h G X x : WF h (G ++ X) -> x ∈ ids G -> x ∉ ids X.
Proof.
  intros W Hx Hx'. pose proof (wf_nodup _ _ W) as ND. rewrite ids_app in ND.
  apply NoDup_app in ND as (_ & Hd & _). by apply (Hd x).
Qed.

(** sanity of a heap that differs from a sane one in the link and data maps only, with the same node identities *)
Lemma HeapOK_same_dom h h' :
  HeapOK h -> h_str h' = h_str h -> h_live h' = h_live h -> h_next h' = h_next h ->
  dom (h_dat h') = dom (h_dat h) -> HeapOK h'.
Proof.
  intros [K1 K2 K3] Es El En Ed. constructor.
  - intros b Hb. rewrite El in Hb. rewrite En. by apply K1.
  - intros b Hb. rewrite Es in Hb. destruct (K2 b Hb) as [A B]. split; [by rewrite El|].
    apply not_elem_of_dom. rewrite Ed. by apply not_elem_of_dom.
  - intros b Hb. rewrite En. apply K3. apply elem_of_dom. rewrite <- Ed. by apply elem_of_dom.
Qed.

Lemma str_ok_same h h' b : h_str h' = h_str h -> h_live h' = h_live h -> str_ok h b -> str_ok h' b.
Proof. intros Es El (Hl & s & Hs & Hz). split; [by rewrite El|]. exists s. by rewrite Es. Qed.

(** the invariant after a step that only relinks *)
Lemma MInv_relink h h' F F' :
  MInv h F -> WF h' F' -> datas F' ≡ₚ datas F ->
  h_str h' = h_str h -> h_live h' = h_live h -> h_next h' = h_next h -> MInv h' F'.
Proof.
  intros I W' HD Es El En. pose proof (mi_wf _ _ I) as W.
  constructor; [done| | |].
  - apply (HeapOK_same_dom h h' (mi_ok _ _ I) Es El En).
    rewrite (wf_dat _ _ W'), (wf_dat _ _ W), !dom_heap_dat_of. apply set_eq. intros x.
    rewrite !elem_of_list_to_set, !ids_datas. by rewrite HD.
  - intros e He. apply (mi_own _ _ I). by rewrite <- HD.
  - intros e He. rewrite HD in He. destruct (mi_read _ _ I e He) as [R1 R2].
    split; intros b Hb; eapply str_ok_same; eauto.
Qed.

Lemma NoLeak_relink h h' F F' :
  NoLeak h F -> datas F' ≡ₚ datas F -> h_own h' = h_own h -> h_live h' = h_live h -> NoLeak h' F'.
Proof.
  intros NL HD Eo El b Hb. rewrite owned_datas, HD, <- owned_datas. apply NL.
  unfold lib_live in *. rewrite Eo, El in Hb. exact Hb.
Qed.

(** * sort_object(node of the forest, case_sensitive): the heap-level sort of C19 under the invariant *)
Lemma has_key_of_MInv h F c : MInv h F -> c ∈ nodes F -> rd_key (tdata c) <> None -> has_key (h_str h) c.
Proof.
  intros I Hc Hk. destruct (rd_key (tdata c)) as [b|] eqn:E; [|done].
  destruct (MInv_node_data h F I c Hc) as [_ [_ R2]]. destruct (R2 b E) as (_ & s & Hs & _).
  exists (cstr s). unfold key_string. rewrite E. cbn. unfold bytes in *. by rewrite Hs.
Qed.

Lemma step_sort h G X o d cs (flag : bool) (fuel : nat) :
  MInv h (G ++ X) -> find_tree o G = Some (T o d cs) ->
  (forall c, c ∈ cs -> rd_key (tdata c) <> None) ->
  (SortDefs.sort_fuel (length cs) <= fuel)%nat ->
  let cs' := sort_children (h_str h) flag cs in
  let G' := set_children o cs' G in
  exists h', SortDefs.sort_object fuel (Some o) flag h = Ret (tt, h') /\
    MInv h' (G' ++ X) /\ (NoLeak h (G ++ X) -> NoLeak h' (G' ++ X)) /\
    h_str h' = h_str h /\ h_next h' = h_next h /\
    find_tree o G' = Some (T o d cs') /\ Frame G G' [o] /\ cs' ≡ₚ cs /\
    MergeDefs.mp_sort_members flag (map (reify (h_str h)) cs) = Ok (map (reify (h_str h)) cs').
Proof.
  intros I Ho Hkeyed Hfuel cs' G'. pose proof (mi_wf _ _ I) as W. pose proof (wf_nodup _ _ W) as ND.
  pose proof (find_tree_app_l o G X _ Ho) as HoF.
  assert (Hon : T o d cs ∈ nodes (G ++ X)) by (by apply find_tree_Some in HoF as [? _]).
  assert (Href : is_ref d = false) by (exact (proj1 (mi_own _ _ I _ (datas_of_node _ _ Hon)))).
  assert (Hkeys : Forall (has_key (h_str h)) cs).
  { apply Forall_forall. intros c Hc. apply (has_key_of_MInv h _ c I); [|by apply Hkeyed].
    by eapply child_in_nodes. }
  destruct (sort_object_forest h (G ++ X) o d cs W (MInv_KeysReadable _ _ I) HoF Href Hkeys flag fuel Hfuel)
    as (h' & Hrun & W' & Es & El & Eo & En & _ & _ & Hv & _).
  fold cs' in Hrun, W', Hv.
  assert (HoX : o ∉ ids X) by (apply (ids_disjoint_app h G X o W); by eapply find_tree_in_ids).
  rewrite (set_children_app_l o cs' G X HoX) in W'. fold G' in W'.
  assert (NDG : NoDup (ids G)) by (by eapply nodup_ids_l).
  assert (HonG : T o d cs ∈ nodes G) by (by apply find_tree_Some in Ho as [? _]).
  assert (HP : cs' ≡ₚ cs) by apply SortSpec.isort_perm.
  destruct (flat_set_children G o d cs NDG HonG) as (FL & E1 & E2). specialize (E2 cs'). fold G' in E2.
  assert (HD : datas G' ≡ₚ datas G).
  { unfold datas. rewrite E1, E2. rewrite !fmap_cons. cbn [fdata]. apply Permutation_skip.
    rewrite !fmap_app. apply Permutation_app_tail. apply fmap_Permutation. by apply flat_proper. }
  assert (HDF : datas (G' ++ X) ≡ₚ datas (G ++ X)) by (by rewrite !datas_app, HD).
  exists h'. split; [exact Hrun|]. split; [by apply (MInv_relink h h' (G ++ X))|].
  split; [intros NL; by apply (NoLeak_relink h h' (G ++ X))|]. split; [done|]. split; [done|].
  split; [exact (find_tree_set_children o d cs cs' G Ho)|]. split; [|split; [done|]].
  - constructor; [apply roots_set_children|done|].
    intros e He Hn. rewrite E2. rewrite E1 in He. apply elem_of_cons in He as [->|He].
    + exfalso. apply Hn. cbn. by left.
    + right. rewrite (flat_proper _ _ HP). exact He.
  - unfold MergeDefs.mp_sort_object in Hv. rewrite reify_children in Hv. cbn [tchildren] in Hv.
    destruct (MergeDefs.mp_sort_members flag (map (reify (h_str h)) cs)) as [l| |]; cbn [bind] in Hv; try discriminate.
    injection Hv as _ _ ->. by rewrite Es.
Qed.

(** * cJSON_CreateNull (any constructor without payload): a new last root *)
Lemma step_create_typed h F ty :
  MInv h F -> is_ref (rd_typed ty) = false -> is_const (rd_typed ty) = false ->
  let t := T (h_next h) (rd_typed ty) [] in
  exists h', create_with_type nofail ty h = Ret (Some (h_next h), h') /\
    MInv h' (F ++ [t]) /\ (NoLeak h F -> NoLeak h' (F ++ [t])) /\ h_str h' = h_str h /\
    (forall St, reify St t = MergeDefs.mp_new_item ty).
Proof.
  intros I Hr Hc t. pose proof (mi_wf _ _ I) as W.
  assert (Hrun : create_with_type nofail ty h = Ret (Some (h_next h), alloc_typed h ty)) by (by apply create_with_type_ok).
  exists (alloc_typed h ty). split; [exact Hrun|]. split; [|split; [|split; [reflexivity|intros St; reflexivity]]].
  - apply (MInv_build h _ F (F ++ [t]) I).
    + exact (WF_alloc_typed h F ty W).
    + exact (Cons_ok _ _ _ _ (Cons_create_with_type nofail _) Hrun (mi_ok _ _ I)).
    + intros e He. apply datas_elem_app in He as [He|He]; [by left|]. right.
      apply datas_singleton_root in He as [->|He]; [|by apply elem_of_nil in He]. cbn [snd]. split; [by split|]. split; intros b Hb; discriminate Hb.
    + by intros b _ _.
  - exact (NoLeak_alloc_typed h F ty).
Qed.
