(** MergeApply.v — the value-level model of merge_patch against RFC 7396's MergePatch (C18_apply).
    Main result [apply_sim]: for a patch that is a JSON document below the duplication depth limit and a
    target that is a JSON document (or absent), the case-sensitive model returns a document that is EQUAL UP TO
    OWNERSHIP FLAGS — same members in the same order — to [merge target patch], which is again a JSON
    document.  [doc_eq] follows by MergeLemmas.doc_eq_of_sfeq. *)
From Coq Require Import Permutation.
From CJ Require Import Base Dbl Tree CompareDefs CompareProofs MergeDefs Rfc7396 MergeLemmas.
Local Open Scope Z_scope.

(** * the two member loops as standalone functions *)
Fixpoint mp_patch_loop (rec : option node -> node -> option node) (cs : bool) (pcs : list node) (tgt : node) : option node :=
  match pcs with
  | [] => Some tgt
  | pc :: r =>
      if is_null pc then mp_patch_loop rec cs r (mp_DeleteItemFromObject tgt (n_key pc) cs)
      else
        let '(replace_me, tgt') := mp_DetachItemFromObject tgt (n_key pc) cs in
        match rec replace_me pc with
        | None => None
        | Some replacement => mp_patch_loop rec cs r (mp_AddItemToObject tgt' (n_key pc) (Some replacement))
        end
  end.
Definition mp_target0 (target : option node) : node :=
  match target with Some t => if is_object t then t else mp_CreateObject | None => mp_CreateObject end.

Lemma mp_merge_patch_unfold cs target patch :
  mp_merge_patch cs target patch =
  if negb (is_object patch) then mp_dup_rec 0 patch
  else mp_patch_loop (mp_merge_patch cs) cs (n_children patch) (mp_target0 target).
Proof.
  destruct patch as [pty pvs pvi pvd pk pch]. cbn [mp_merge_patch].
  change (is_object (Node pty pvs pvi pvd pk pch)) with (tymask pty =? c_cJSON_Object). cbn [n_children].
  destruct (negb (tymask pty =? c_cJSON_Object)); [reflexivity|].
  change (match target with Some t => if is_object t then t else mp_CreateObject | None => mp_CreateObject end)
    with (mp_target0 target).
  generalize (mp_target0 target). induction pch as [|pc r IH]; intro tgt; [reflexivity|].
  cbn [mp_patch_loop]. destruct (is_null pc); [apply IH|].
  destruct (mp_DetachItemFromObject tgt (n_key pc) cs) as [rm tgt'].
  destruct (mp_merge_patch cs rm pc); [apply IH|reflexivity].
Qed.

Fixpoint m7396_each (rec : option node -> node -> node) (pm tm : list node) : list node :=
  match pm with
  | [] => tm
  | v :: r =>
      if is_null v then m7396_each rec r (m7396_remove (n_key v) tm)
      else m7396_each rec r (m7396_set (n_key v) (rec (m7396_lookup (n_key v) tm) v) tm)
  end.
Definition m7396_target0 (target : option node) : node :=
  match target with Some t => if is_object t then t else m7396_empty_object | None => m7396_empty_object end.

Lemma merge_unfold target patch :
  merge target patch =
  if is_object patch then
    m7396_set_members (m7396_target0 target) (m7396_each merge (n_children patch) (n_children (m7396_target0 target)))
  else patch.
Proof.
  destruct patch as [pty pvs pvi pvd pk pch]. cbn [merge].
  change (is_object (Node pty pvs pvi pvd pk pch)) with (tymask pty =? c_cJSON_Object). cbn [n_children].
  destruct (tymask pty =? c_cJSON_Object); [|reflexivity].
  change (match target with Some t => if is_object t then t else m7396_empty_object | None => m7396_empty_object end)
    with (m7396_target0 target).
  f_equal. generalize (n_children (m7396_target0 target)). induction pch as [|v r IH]; intro tm; [reflexivity|].
  cbn [m7396_each]. destruct (is_null v); apply IH.
Qed.

(** * cJSON_Duplicate below the depth limit *)
Fixpoint clear_refs (n : node) : node :=
  match n with Node ty vs vi vd k ch => Node (mp_clear_ref ty) vs vi vd k (map clear_refs ch) end.

Lemma dup_rec_ok : forall n d, 0 <= d -> d + Z.of_nat (node_depth n) <= c_CJSON_CIRCULAR_LIMIT + 1 ->
  mp_dup_rec d n = Some (clear_refs n).
Proof.
  induction n as [ty vs vi vd k ch IH] using node_ind'. intros d Hd Hdepth. cbn [mp_dup_rec clear_refs].
  match goal with |- match ?g ch with _ => _ end = _ => assert (G : g ch = Some (map clear_refs ch)) end.
  { rewrite node_depth_eq in Hdepth. cbn [n_children] in Hdepth. revert Hdepth.
    induction IH as [|c r Hc _ IHr]; intro Hdepth; [reflexivity|].
    cbn [max_depth] in Hdepth. pose proof (depth_pos c).
    destruct (Z.leb_spec c_CJSON_CIRCULAR_LIMIT d); [lia|].
    rewrite Hc by lia. rewrite IHr by lia. reflexivity. }
  rewrite G. reflexivity.
Qed.

Lemma sfeq_clear_refs : forall n, sfeq (clear_refs n) n.
Proof.
  induction n as [ty vs vi vd k ch IH] using node_ind'. apply sfeq_intro; cbn [clear_refs n_ty n_vstr n_vint n_vdbl n_key n_children]; try reflexivity.
  - apply tymask_clear_ref.
  - induction IH as [|c r Hc _ IHr]; cbn [map]; constructor; assumption.
Qed.

(** * get_object_item / detach on related member lists *)
Lemma goi_sim k : nonzero_bytes k -> forall l tm, Forall2 sfeq l tm -> keys_ok tm -> forall i,
  match get_object_item_cs l k i with
  | None => m7396_lookup (Some k) tm = None /\ m7396_remove (Some k) tm = tm
  | Some (j, c) => exists pos c', j = (i + pos)%nat /\ m7396_lookup (Some k) tm = Some c' /\ sfeq c c' /\
                                 Forall2 sfeq (mp_remove_nth pos l) (m7396_remove (Some k) tm)
  end.
Proof.
  intros Hk. induction 1 as [|x y l tm Hxy Hl IH]; intros Hok i.
  - cbn [get_object_item_cs]. split; reflexivity.
  - destruct Hok as [Hkeyed Hnd]. inversion Hkeyed as [|? ? Hy Hkeyed']; subst. inversion Hnd as [|? ? Hyn Hnd']; subst.
    destruct Hy as [ky [Hyk Hyz]]. cbn [get_object_item_cs]. rewrite (sfeq_key _ _ Hxy), Hyk.
    destruct (strcmp k ky =? 0) eqn:E.
    + apply Z.eqb_eq in E. apply strcmp_zero_iff in E; [|assumption|assumption]. subst ky.
      exists 0%nat, y. split; [lia|]. split.
      * unfold m7396_lookup. cbn [find]. apply named_true in Hyk. rewrite Hyk. reflexivity.
      * split; [exact Hxy|]. unfold mp_remove_nth. cbn [firstn skipn app m7396_remove filter].
        apply named_true in Hyk. rewrite Hyk. cbn [negb].
        change (filter (fun c => negb (m7396_named (Some k) c)) tm) with (m7396_remove (Some k) tm).
        rewrite remove_notin; [exact Hl|]. apply named_true in Hyk. rewrite <- Hyk. exact Hyn.
    + assert (Hne : n_key y <> Some k).
      { rewrite Hyk. intro H. injection H as ->. assert (strcmp k k = 0) by (apply strcmp_zero_iff; auto). rewrite H in E. discriminate. }
      apply named_false in Hne.
      specialize (IH (conj Hkeyed' Hnd') (S i)). destruct (get_object_item_cs l k (S i)) as [[j c]|].
      * destruct IH as [pos [c' [Hj [Hlk [Hcc Hrm]]]]]. exists (S pos), c'. split; [lia|]. split.
        -- unfold m7396_lookup. cbn [find]. rewrite Hne. exact Hlk.
        -- split; [exact Hcc|]. unfold mp_remove_nth. cbn [firstn skipn app m7396_remove filter]. rewrite Hne. cbn [negb].
           constructor; [exact Hxy|exact Hrm].
      * destruct IH as [Hlk Hrm]. split.
        -- unfold m7396_lookup. cbn [find]. rewrite Hne. exact Hlk.
        -- cbn [m7396_remove filter]. rewrite Hne. cbn [negb]. f_equal. exact Hrm.
Qed.

Definition orel (t1 t2 : option node) : Prop :=
  match t1, t2 with Some a, Some b => sfeq a b | None, None => True | _, _ => False end.
Definition ogd (t : option node) : Prop := match t with Some a => gd a | None => True end.

Lemma set_children_twice n l l' : mp_set_children (mp_set_children n l) l' = mp_set_children n l'.
Proof. destruct n; reflexivity. Qed.
Lemma set_children_children n l : n_children (mp_set_children n l) = l.
Proof. destruct n; reflexivity. Qed.
Lemma set_children_self n : mp_set_children n (n_children n) = n.
Proof. destruct n; reflexivity. Qed.

Lemma detach_sim tgt tm k : nonzero_bytes k -> Forall2 sfeq (n_children tgt) tm -> keys_ok tm ->
  exists l', snd (mp_DetachItemFromObject tgt (Some k) true) = mp_set_children tgt l' /\
             Forall2 sfeq l' (m7396_remove (Some k) tm) /\
             orel (fst (mp_DetachItemFromObject tgt (Some k) true)) (m7396_lookup (Some k) tm).
Proof.
  intros Hk Hl Hok. unfold mp_DetachItemFromObject, get_object_item.
  pose proof (goi_sim k Hk _ _ Hl Hok 0%nat) as G.
  destruct (get_object_item_cs (n_children tgt) k 0) as [[j c]|].
  - destruct G as [pos [c' [Hj [Hlk [Hcc Hrm]]]]]. cbn [Nat.add] in Hj. subst j.
    exists (mp_remove_nth pos (n_children tgt)). cbn [fst snd]. rewrite Hlk. split; [reflexivity|]. split; [exact Hrm|exact Hcc].
  - destruct G as [Hlk Hrm]. exists (n_children tgt). cbn [fst snd]. rewrite Hlk, Hrm, set_children_self. split; [reflexivity|]. split; [exact Hl|exact I].
Qed.

Lemma has_key_with_key k v : nonzero_bytes k -> has_key (m7396_with_key (Some k) v).
Proof. intro H. destruct v. exists k. split; [reflexivity|exact H]. Qed.
Lemma key_with_key k v : n_key (m7396_with_key k v) = k.
Proof. destruct v; reflexivity. Qed.
Lemma gd_with_key k v : gd v -> gd (m7396_with_key k v).
Proof. intro H. destruct v. apply gd_eq in H. apply gd_eq. exact H. Qed.

Lemma Forall_remove (P : node -> Prop) k l : Forall P l -> Forall P (m7396_remove k l).
Proof.
  intro H. unfold m7396_remove. apply Forall_forall. intros c Hc. apply filter_In in Hc. rewrite Forall_forall in H. apply H. tauto.
Qed.

(** * the member loop *)
Lemma loop_sim (recm : option node -> node -> option node) (recs : option node -> node -> node) : forall pcs,
  Forall has_key pcs ->
  Forall (fun pc => forall t1 t2, orel t1 t2 -> ogd t2 ->
            exists r, recm t1 pc = Some r /\ sfeq r (recs t2 pc) /\ gd (recs t2 pc)) pcs ->
  forall tgt tm, Forall2 sfeq (n_children tgt) tm -> keys_ok tm -> Forall gd tm ->
  exists l', mp_patch_loop recm true pcs tgt = Some (mp_set_children tgt l') /\
             Forall2 sfeq l' (m7396_each recs pcs tm) /\
             keys_ok (m7396_each recs pcs tm) /\ Forall gd (m7396_each recs pcs tm).
Proof.
  induction pcs as [|pc r IH]; intros Hkeys Hrec tgt tm Hl Hok Hgd.
  - exists (n_children tgt). cbn [mp_patch_loop m7396_each]. rewrite set_children_self. split; [reflexivity|]. split; [exact Hl|]. split; assumption.
  - inversion Hkeys as [|? ? [k [Hpk Hkz]] Hkeys']; subst. inversion Hrec as [|? ? Hrec1 Hrec']; subst.
    cbn [mp_patch_loop m7396_each]. rewrite Hpk.
    destruct (detach_sim tgt tm k Hkz Hl Hok) as [l1 [Hsnd [Hl1 Hfst]]].
    destruct (is_null pc).
    + unfold mp_DeleteItemFromObject. rewrite Hsnd.
      destruct (IH Hkeys' Hrec' (mp_set_children tgt l1) (m7396_remove (Some k) tm)) as [l' [H1 [H2 [H3 H4]]]].
      * rewrite set_children_children. exact Hl1.
      * apply keys_ok_remove. exact Hok.
      * apply Forall_remove. exact Hgd.
      * exists l'. rewrite H1, set_children_twice. split; [reflexivity|]. split; [exact H2|]. split; assumption.
    + destruct (mp_DetachItemFromObject tgt (Some k) true) as [rm tgt'] eqn:ED. cbn [fst snd] in Hsnd, Hfst. subst tgt'.
      assert (Hog : ogd (m7396_lookup (Some k) tm)).
      { destruct (m7396_lookup (Some k) tm) as [c'|] eqn:El; cbn [ogd]; [|trivial].
        apply lookup_some in El. destruct El as [Hin _]. rewrite Forall_forall in Hgd. auto. }
      destruct (Hrec1 rm (m7396_lookup (Some k) tm) Hfst Hog) as [rp [Hrp [Hsf Hgs]]]. rewrite Hrp.
      set (s := recs (m7396_lookup (Some k) tm) pc) in *.
      destruct (IH Hkeys' Hrec' (mp_AddItemToObject (mp_set_children tgt l1) (Some k) (Some rp)) (m7396_set (Some k) s tm))
        as [l' [H1 [H2 [H3 H4]]]].
      * unfold mp_AddItemToObject, mp_add_member, m7396_set. rewrite !set_children_children.
        apply Forall2_app; [exact Hl1|]. constructor; [|constructor]. apply sfeq_keyed. exact Hsf.
      * unfold m7396_set. apply keys_ok_app_one.
        -- apply keys_ok_remove. exact Hok.
        -- apply has_key_with_key. exact Hkz.
        -- rewrite key_with_key. apply remove_keys_notin.
      * unfold m7396_set. apply Forall_app. split; [apply Forall_remove; exact Hgd|]. constructor; [|constructor].
        apply gd_with_key. exact Hgs.
      * exists l'. rewrite H1. unfold mp_AddItemToObject. rewrite !set_children_twice. split; [reflexivity|]. split; [exact H2|]. split; assumption.
Qed.

(** * the theorem on nodes *)
Definition depth_ok (n : node) : Prop := Z.of_nat (node_depth n) <= c_CJSON_CIRCULAR_LIMIT + 1.

Lemma depth_ok_child n c : depth_ok n -> In c (n_children n) -> depth_ok c.
Proof. unfold depth_ok. intros H Hc. apply depth_child in Hc. lia. Qed.

Lemma gd_object_result t0 l : is_object t0 = true -> keys_ok l -> Forall gd l -> gd (m7396_set_members t0 l).
Proof.
  intros Ho Hk Hg. destruct t0 as [ty vs vi vd k ch]. apply Z.eqb_eq in Ho. cbn [n_ty] in Ho.
  apply gd_eq. cbn [m7396_set_members n_children]. split; [|exact Hg].
  unfold gd_local. cbn [n_ty n_vdbl n_vstr n_children]. rewrite Ho. split; [|split; [|split]].
  - unfold json_kind. tauto.
  - intro E. discriminate E.
  - intro E. discriminate E.
  - intros _. exact Hk.
Qed.

Lemma target0_sim t1 t2 : orel t1 t2 -> ogd t2 ->
  sfeq (mp_target0 t1) (m7396_target0 t2) /\ is_object (m7396_target0 t2) = true /\
  (is_object (m7396_target0 t2) = true -> keys_ok (n_children (m7396_target0 t2)) /\ Forall gd (n_children (m7396_target0 t2))).
Proof.
  intros Hr Hg. destruct t1 as [a|], t2 as [b|]; cbn [orel ogd] in *; try contradiction; unfold mp_target0, m7396_target0.
  - unfold is_object. rewrite (sfeq_is_type _ _ _ Hr). destruct (is_type c_cJSON_Object b) eqn:E.
    + split; [exact Hr|]. split; [exact E|]. intros _. split; [apply gd_keys; assumption|]. apply gd_eq in Hg. tauto.
    + split; [apply sfeq_refl|]. split; [reflexivity|]. intros _. split; [split; constructor|constructor].
  - split; [apply sfeq_refl|]. split; [reflexivity|]. intros _. split; [split; constructor|constructor].
Qed.

Theorem apply_sim : forall patch, gd patch -> depth_ok patch ->
  forall t1 t2, orel t1 t2 -> ogd t2 ->
  exists r, mp_merge_patch true t1 patch = Some r /\ sfeq r (merge t2 patch) /\ gd (merge t2 patch).
Proof.
  induction patch as [pty pvs pvi pvd pk pch IH] using node_ind'. intros Hg Hd t1 t2 Hr Hgt.
  rewrite mp_merge_patch_unfold, merge_unfold.
  destruct (is_object (Node pty pvs pvi pvd pk pch)) eqn:Eo; cbn [negb].
  - cbn [n_children].
    destruct (target0_sim t1 t2 Hr Hgt) as [Hs0 [Ho0 Hk0]]. destruct (Hk0 Ho0) as [Hok0 Hgd0].
    destruct (loop_sim (mp_merge_patch true) merge pch) with (tgt := mp_target0 t1) (tm := n_children (m7396_target0 t2))
      as [l' [H1 [H2 [H3 H4]]]].
    + destruct (gd_keys _ Hg Eo) as [Hk _]. exact Hk.
    + rewrite Forall_forall in IH. apply Forall_forall. intros pc Hpc. apply IH; [exact Hpc| |].
      * apply (gd_children _ _ Hg). exact Hpc.
      * apply (depth_ok_child _ _ Hd). exact Hpc.
    + apply sfeq_children. exact Hs0.
    + exact Hok0.
    + exact Hgd0.
    + exists (mp_set_children (mp_target0 t1) l'). split; [exact H1|]. split.
      * apply sfeq_set_children; assumption.
      * apply gd_object_result; assumption.
  - exists (clear_refs (Node pty pvs pvi pvd pk pch)). split; [|split].
    + apply dup_rec_ok; [lia|]. unfold depth_ok in Hd. lia.
    + apply sfeq_clear_refs.
    + exact Hg.
Qed.

(** * C18_apply *)
Theorem apply_conforms target patch :
  m7396_doc target = true -> m7396_doc patch = true -> m7396_depth_ok patch = true ->
  exists r, cJSONUtils_MergePatchCaseSensitive (Some target) (Some patch) = Some r /\
            doc_eq r (merge (Some target) patch) = true /\
            strip_flags r = strip_flags (merge (Some target) patch).
Proof.
  intros Ht Hp Hd. apply m7396_doc_gd in Ht. apply m7396_doc_gd in Hp. apply Z.leb_le in Hd.
  destruct (apply_sim patch Hp Hd (Some target) (Some target) (sfeq_refl _) Ht) as [r [H1 [H2 H3]]].
  exists r. split; [exact H1|]. split; [|exact H2]. apply doc_eq_of_sfeq; assumption.
Qed.

Theorem apply_conforms_absent patch :
  m7396_doc patch = true -> m7396_depth_ok patch = true ->
  exists r, cJSONUtils_MergePatchCaseSensitive None (Some patch) = Some r /\
            doc_eq r (merge None patch) = true /\
            strip_flags r = strip_flags (merge None patch).
Proof.
  intros Hp Hd. apply m7396_doc_gd in Hp. apply Z.leb_le in Hd.
  destruct (apply_sim patch Hp Hd None None I I) as [r [H1 [H2 H3]]].
  exists r. split; [exact H1|]. split; [|exact H2]. apply doc_eq_of_sfeq; assumption.
Qed.

