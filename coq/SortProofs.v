(** SortProofs.v — property C19 at heap level: [sort_object] turns the canonical encoding of the
    children list [l] of an object into the canonical encoding of the sorted list, for every heap,
    every object size, every key multiset, both variants, with fuel [sort_fuel (length l)].
    ([sort_list] itself: SortLoops.sort_list_spec.)  Proved once for an abstract comparison
    (SortLoops.v), instantiated for members with string keys (result = stable insertion sort) and
    for members whose key may be NULL (result = some permutation, still a healthy container). *)
From CJ Require Import Base Dbl Tree Heap SortDefs SortSpec SortChain SortLoops.
From stdpp Require Import gmap sorting.
Local Open Scope Z_scope.

(** * [sort_object] *)

(** [l] are the children of object [o], canonically linked *)
Record children_shape (h : heap) (o : positive) (l : list positive) : Prop := mkCS {
  cs_live : o ∈ h_live h;
  cs_child : exists d, h_dat h !! o = Some d /\ nd_child d = head l;
  cs_nodup : NoDup l;
  cs_links : forall x, x ∈ l -> h_lnk h !! x = slinks l !! x    (* h_lnk agrees with [slinks l] on [l] *)
}.
(** ... and they are live nodes whose keys are readable C strings: the hypotheses of the theorems *)
Record children_of (h : heap) (o : positive) (l : list positive) : Prop := mkCO {
  co_shape : children_shape h o l;
  co_ok : forall x, x ∈ l -> node_ok h x
}.
(** the same with keys that may be NULL *)
Record children_of0 (h : heap) (o : positive) (l : list positive) : Prop := mkCO0 {
  co0_shape : children_shape h o l;
  co0_ok : forall x, x ∈ l -> node_ok0 h x
}.

Lemma node_ok_with_dat h o d c x :
  h_dat h !! o = Some d -> node_ok (with_dat h (<[o := nd_set_child d c]> (h_dat h))) x <-> node_ok h x.
Proof.
  intros Hd. unfold node_ok, key_ptr. cbn [with_dat h_live h_dat h_str].
  destruct (decide (x = o)) as [->|Hne].
  - rewrite lookup_insert, Hd. cbn [nd_set_child nd_key]. split; intros (H1 & _ & H3); (split; [exact H1|split; [eauto|exact H3]]).
  - rewrite lookup_insert_ne by congruence. reflexivity.
Qed.

Lemma node_ok0_with_dat h o d c x :
  h_dat h !! o = Some d -> node_ok0 (with_dat h (<[o := nd_set_child d c]> (h_dat h))) x <-> node_ok0 h x.
Proof.
  intros Hd. unfold node_ok0, key_ptr, str_ok. cbn [with_dat h_live h_dat h_str].
  destruct (decide (x = o)) as [->|Hne].
  - rewrite lookup_insert, Hd. cbn [nd_set_child nd_key]. split; intros (H1 & _ & H3); (split; [exact H1|split; [eauto|exact H3]]).
  - rewrite lookup_insert_ne by congruence. reflexivity.
Qed.

Lemma keyof_with_dat h o d c x :
  h_dat h !! o = Some d -> keyof (with_dat h (<[o := nd_set_child d c]> (h_dat h))) x = keyof h x.
Proof.
  intros Hd. unfold keyof, key_ptr. cbn [with_dat h_dat h_str].
  destruct (decide (x = o)) as [->|Hne].
  - rewrite lookup_insert, Hd. reflexivity.
  - rewrite lookup_insert_ne by congruence. reflexivity.
Qed.

Section SortObjectGen.
  Variable h : heap.
  Variable cs : bool.
  Variable okn : positive -> Prop.
  Variable cmpf : positive -> positive -> Z.
  Hypothesis okn_live : forall x, okn x -> x ∈ h_live h.
  Hypothesis okn_key : forall m x, okn x -> get_key (Some x) (with_lnk h m) = Ret (key_ptr h x, with_lnk h m).
  Hypothesis okn_cmp : forall m x y, okn x -> okn y ->
    compare_strings (key_ptr h x) (key_ptr h y) cs (with_lnk h m) = Ret (cmpf x y, with_lnk h m).

  Theorem sort_object_gen o l fuel :
    children_shape h o l -> (forall x, x ∈ l -> okn x) -> (sort_fuel (length l) <= fuel)%nat ->
    let l' := msort cmpf fuel l in
    exists h' d,
      sort_object fuel (Some o) cs h = Ret (tt, h') /\
      h_dat h !! o = Some d /\
      h' = mkHeap (h_lnk h') (<[o := nd_set_child d (head l')]> (h_dat h)) (h_str h) (h_own h) (h_live h)
                  (h_next h) (h_req h) (h_hooks h) (h_trace h) /\
      (forall z, z ∉ l -> h_lnk h' !! z = h_lnk h !! z) /\
      children_shape h' o l'.
  Proof.
    intros [Hlo (d & Hd & Hch) Hnd Hlk] Hok Hf l'.
    assert (chain (h_lnk h) l) as Hc.
    { apply chain_of_canonical. intros k x Hk. rewrite Hlk by (eapply elem_of_list_lookup_2; exact Hk).
      apply slinks_lookup; assumption. }
    unfold sort_fuel in Hf.
    destruct (sort_list_spec h cs okn cmpf okn_live okn_key okn_cmp fuel l (h_lnk h) ltac:(lia) Hc Hnd Hok)
      as (m1 & Hrun1 & Hc1 & Hfr1).
    fold l' in Hrun1, Hc1. rewrite with_lnk_id in Hrun1.
    assert (Permutation l' l) as Hperm by apply msort_perm.
    assert (forall z, z ∈ l' <-> z ∈ l) as Inl by (intros z; rewrite Hperm; reflexivity).
    assert (NoDup l') as Hnd' by (rewrite Hperm; exact Hnd).
    assert (length l' = length l) as Hlen by (apply Permutation_length, Hperm).
    set (d' := nd_set_child d (head l')).
    set (hb := with_dat h (<[o := d']> (h_dat h))).
    assert (h_dat hb !! o = Some d') as Hd' by (apply lookup_insert).
    assert (forall m, with_dat (with_lnk h m) (<[o := d']> (h_dat h)) = with_lnk hb m) as Ehb by reflexivity.
    exists (match l' with
            | [] => with_lnk hb m1
            | x0 :: _ => with_lnk hb (<[x0 := (match m1 !! x0 with Some np => fst np | None => None end, last l')]> m1)
            end), d.
    clearbody l'.
    destruct l' as [|x0 r0] eqn:El'.
    - (* no children *)
      split; [|split; [exact Hd|split; [reflexivity|split; [exact Hfr1|]]]].
      + unfold sort_object.
        mstep (get_child_eq h o d Hlo Hd). rewrite Hch.
        mstep Hrun1.
        mstep (set_child_eq (with_lnk h m1) o d None Hlo Hd). rewrite Ehb.
        mstep (get_child_eq (with_lnk hb m1) o d' Hlo Hd'). reflexivity.
      + split; [exact Hlo|exists d'; split; [exact Hd'|reflexivity]|constructor|intros x Hx; inversion Hx].
    - (* walk to the last child, restore head.prev *)
      destruct (last_is_Some (x0 :: r0)) as [_ HL]. destruct (HL ltac:(discriminate)) as [t Ht]. clear HL.
      apply last_Some in Ht as Ht'. destruct Ht' as [l0 El0].
      assert (forall z, z ∈ x0 :: r0 -> z ∈ h_live hb) as Hlive.
      { intros z Hz. apply okn_live, Hok, Inl, Hz. }
      destruct (chain_head _ _ _ _ Hc1) as [p0 Hm0].
      rewrite Hm0. cbn [fst]. rewrite Ht.
      set (m2 := <[x0 := (head r0, Some t)]> m1).
      assert (chain m2 (x0 :: r0)) as Hc2.
      { apply (chain_set_head_prev m1 x0 r0 (Some None) (head r0) p0 (Some t) Hc1 Hm0).
        apply NoDup_cons in Hnd' as [H _]. exact H. }
      split; [|split; [exact Hd|split; [reflexivity|split]]].
      + unfold sort_object.
        mstep (get_child_eq h o d Hlo Hd). rewrite Hch.
        mstep Hrun1.
        mstep (set_child_eq (with_lnk h m1) o d (Some x0) Hlo Hd). rewrite Ehb.
        mstep (get_child_eq (with_lnk hb m1) o d' Hlo Hd'). cbn [d' nd_set_child nd_child head].
        mstep (get_child_eq (with_lnk hb m1) o d' Hlo Hd'). cbn [d' nd_set_child nd_child head].
        assert (find_last fuel (Some x0) (with_lnk hb m1) = Ret (Some t, with_lnk hb m1)) as Hfl.
        { change (Some x0) with (head (x0 :: r0)). rewrite El0.
          apply find_last_spec.
          - rewrite <- El0. exact Hc1.
          - rewrite <- El0. exact Hlive.
          - assert (length (x0 :: r0) = S (length l0)) as HH by (rewrite El0, app_length; cbn; lia). lia. }
        mstep Hfl.
        mstep (get_child_eq (with_lnk hb m1) o d' Hlo Hd'). cbn [d' nd_set_child nd_child head].
        apply (set_prev_with hb m1 x0 _ _ (Some t) (Hlive x0 (elem_of_list_here _ _)) Hm0).
      + cbn [h_lnk with_lnk]. intros z Hz. unfold m2. rewrite lookup_insert_ne; [apply Hfr1; exact Hz|].
        intros ->. apply Hz, Inl. left.
      + split.
        * exact Hlo.
        * exists d'. split; [exact Hd'|reflexivity].
        * exact Hnd'.
        * cbn [h_lnk with_lnk]. intros x Hx.
          apply elem_of_list_lookup_1 in Hx as [k Hk].
          rewrite (slinks_lookup _ _ _ Hnd' Hk).
          apply (canonical_of_chain m2 (x0 :: r0) x0 Hc2 eq_refl); [|exact Hk].
          exists (head r0). unfold m2. rewrite lookup_insert, Ht. reflexivity.
  Qed.
End SortObjectGen.

(** ** members with string keys: the result is the stable insertion sort *)

Lemma hle_is_le_of h cs : hle h cs = le_of (kcmp h cs).
Proof. reflexivity. Qed.

Lemma msort_kcmp h cs fuel l : (length l <= fuel)%nat -> msort (kcmp h cs) fuel l = isort (hle h cs) l.
Proof.
  intros Hf. rewrite hle_is_le_of. apply msort_isort; [| |exact Hf].
  - intros a b. rewrite <- hle_is_le_of. apply hle_total.
  - intros a b c. rewrite <- hle_is_le_of. apply hle_trans.
Qed.

Theorem sort_object_correct h o l cs fuel :
  children_of h o l -> (sort_fuel (length l) <= fuel)%nat ->
  let l' := isort (hle h cs) l in
  exists h' d,
    sort_object fuel (Some o) cs h = Ret (tt, h') /\
    h_dat h !! o = Some d /\
    h' = mkHeap (h_lnk h') (<[o := nd_set_child d (head l')]> (h_dat h)) (h_str h) (h_own h) (h_live h)
                (h_next h) (h_req h) (h_hooks h) (h_trace h) /\
    (forall z, z ∉ l -> h_lnk h' !! z = h_lnk h !! z) /\
    children_of h' o l'.
Proof.
  intros [Hsh Hok] Hf l'.
  destruct (sort_object_gen h cs (node_ok h) (kcmp h cs) (node_ok_live h)
              (fun m x Hx => get_key_with h m x Hx) (fun m x y Hx Hy => compare_strings_with h m cs x y Hx Hy)
              o l fuel Hsh Hok Hf) as (h' & d & Hrun & Hd & Eh & Hfr & Hsh').
  unfold sort_fuel in Hf. cbn zeta in Eh, Hsh'. rewrite msort_kcmp in Eh, Hsh' by lia. fold l' in Eh, Hsh'.
  exists h', d. split; [exact Hrun|]. split; [exact Hd|]. split; [exact Eh|]. split; [exact Hfr|].
  split; [exact Hsh'|].
  intros x Hx. rewrite Eh.
  apply (node_ok_with_dat (with_lnk h (h_lnk h')) o d (head l') x Hd).
  apply Hok. apply (isort_elem (hle h cs)). exact Hx.
Qed.

(** ** members whose key may be NULL: still no error outcome, a permutation, a healthy container *)

Theorem sort_object_any_keys h o l cs fuel :
  children_of0 h o l -> (sort_fuel (length l) <= fuel)%nat ->
  exists h' l' d,
    sort_object fuel (Some o) cs h = Ret (tt, h') /\
    Permutation l' l /\
    children_of0 h' o l' /\
    (forall z, z ∉ l -> h_lnk h' !! z = h_lnk h !! z) /\
    h_dat h !! o = Some d /\
    h' = mkHeap (h_lnk h') (<[o := nd_set_child d (head l')]> (h_dat h)) (h_str h) (h_own h) (h_live h)
                (h_next h) (h_req h) (h_hooks h) (h_trace h).
Proof.
  intros [Hsh Hok] Hf.
  destruct (sort_object_gen h cs (node_ok0 h) (cmpz h cs) (node_ok0_live h)
              (fun m x Hx => get_key_with0 h m x Hx) (fun m x y Hx Hy => compare_strings_with0 h m cs x y Hx Hy)
              o l fuel Hsh Hok Hf) as (h' & d & Hrun & Hd & Eh & Hfr & Hsh').
  exists h', (msort (cmpz h cs) fuel l), d.
  split; [exact Hrun|]. split; [apply msort_perm|]. split; [|split; [exact Hfr|split; [exact Hd|exact Eh]]].
  split; [exact Hsh'|].
  intros x Hx. rewrite Eh.
  apply (node_ok0_with_dat (with_lnk h (h_lnk h')) o d (head (msort (cmpz h cs) fuel l)) x Hd).
  apply Hok. rewrite <- (msort_perm (cmpz h cs) fuel l). exact Hx.
Qed.

(** * Consequences *)

(** the order of the children after the sort is [sort_spec] applied to the (id, key) pairs *)
Lemma isort_hle_sort_spec h cs l :
  isort (hle h cs) l = map fst (sort_spec cs (map (fun x => (x, keyof h x)) l)).
Proof.
  unfold sort_spec. rewrite (isort_map (fun x => (x, keyof h x)) (member_le cs)).
  rewrite map_map. cbn [fst]. rewrite map_id. reflexivity.
Qed.

Lemma sorted_children_perm h cs l : Permutation (isort (hle h cs) l) l.
Proof. apply isort_perm. Qed.

Lemma sorted_children_sorted h cs l :
  StronglySorted (fun x y => key_le cs (keyof h x) (keyof h y) = true) (isort (hle h cs) l).
Proof. apply (isort_StronglySorted (hle h cs) (hle_total h cs) (hle_trans h cs)). Qed.

(** idempotence: sorting the result again yields the very same heap *)
Theorem sort_object_idempotent h o l cs fuel h1 :
  children_of h o l -> (sort_fuel (length l) <= fuel)%nat ->
  sort_object fuel (Some o) cs h = Ret (tt, h1) ->
  sort_object fuel (Some o) cs h1 = Ret (tt, h1).
Proof.
  intros Hco Hf Hrun.
  destruct (sort_object_correct h o l cs fuel Hco Hf) as (h1' & d & Hrun' & Hd & Eh1 & Hfr & Hco1).
  rewrite Hrun in Hrun'. injection Hrun' as <-.
  set (l1 := isort (hle h cs) l) in *.
  assert (length l1 = length l) as Hlen by apply isort_length.
  destruct (sort_object_correct h1 o l1 cs fuel Hco1 ltac:(rewrite Hlen; exact Hf)) as (h2 & d1 & Hrun2 & Hd1 & Eh2 & Hfr2 & Hco2).
  rewrite Hrun2. f_equal. f_equal.
  (* the keys did not move, so the second sort orders as the first; a sorted list is left alone *)
  assert (forall a b, hle h1 cs a b = hle h cs a b) as Hle.
  { assert (forall a, keyof h1 a = keyof h a) as Hk.
    { intros a. rewrite Eh1. exact (keyof_with_dat (with_lnk h (h_lnk h1)) o d (head l1) a Hd). }
    intros a b. unfold hle. rewrite !Hk. reflexivity. }
  assert (isort (hle h1 cs) l1 = l1) as Hl2.
  { rewrite (isort_ext _ _ _ Hle). apply (isort_idem _ (hle_total h cs)). }
  rewrite Hl2 in *.
  assert (h_lnk h2 = h_lnk h1) as Elnk.
  { apply map_eq. intros z. destruct (decide (z ∈ l1)) as [Hz|Hz].
    - rewrite (cs_links _ _ _ (co_shape _ _ _ Hco2) z Hz), (cs_links _ _ _ (co_shape _ _ _ Hco1) z Hz). reflexivity.
    - apply Hfr2. exact Hz. }
  pose proof (f_equal h_dat Eh1) as Hdat. pose proof (f_equal h_str Eh1) as Hstr.
  pose proof (f_equal h_own Eh1) as Hown. pose proof (f_equal h_live Eh1) as Hliv.
  pose proof (f_equal h_next Eh1) as Hnxt. pose proof (f_equal h_req Eh1) as Hreq.
  pose proof (f_equal h_hooks Eh1) as Hhk. pose proof (f_equal h_trace Eh1) as Htr.
  cbn [h_dat h_str h_own h_live h_next h_req h_hooks h_trace] in Hdat, Hstr, Hown, Hliv, Hnxt, Hreq, Hhk, Htr.
  rewrite Hdat, lookup_insert in Hd1. injection Hd1 as <-.
  rewrite Eh2, Elnk, Hdat, Hstr, Hown, Hliv, Hnxt, Hreq, Hhk, Htr.
  etransitivity; [|symmetry; exact Eh1].
  rewrite insert_insert. reflexivity.
Qed.

(** members whose keys are equal for the variant keep their relative order *)
Lemma sorted_children_stable h cs l k :
  let same := fun x => bytes_eqb (key_fold cs (keyof h x)) (key_fold cs k) in
  List.filter same (isort (hle h cs) l) = List.filter same l.
Proof.
  intros same. apply isort_stable. intros a b Ha Hb. unfold same in *.
  apply bytes_eqb_eq in Ha. apply bytes_eqb_eq in Hb.
  unfold hle, key_le. rewrite key_cmp_fold, Ha, Hb, strcmp_refl. reflexivity.
Qed.

(** the main statement in one piece: no error outcome; the children afterwards are the stable
    sort of the children before (a sorted permutation of the same nodes); the result is again the
    canonical encoding; no link outside the chain, no other field of any node, no string, no
    liveness / ownership / allocator state changes *)
Theorem sort_object_sorted_perm h o l cs fuel :
  children_of h o l -> (sort_fuel (length l) <= fuel)%nat ->
  exists h' l' d,
    sort_object fuel (Some o) cs h = Ret (tt, h') /\
    l' = map fst (sort_spec cs (map (fun x => (x, keyof h x)) l)) /\
    Permutation l' l /\
    StronglySorted (fun x y => key_le cs (keyof h x) (keyof h y) = true) l' /\
    (forall k, let same := fun x => bytes_eqb (key_fold cs (keyof h x)) (key_fold cs k) in
               List.filter same l' = List.filter same l) /\
    children_of h' o l' /\
    (forall z, z ∉ l -> h_lnk h' !! z = h_lnk h !! z) /\
    h_dat h !! o = Some d /\
    h' = mkHeap (h_lnk h') (<[o := nd_set_child d (head l')]> (h_dat h)) (h_str h) (h_own h) (h_live h)
                (h_next h) (h_req h) (h_hooks h) (h_trace h).
Proof.
  intros Hco Hf.
  destruct (sort_object_correct h o l cs fuel Hco Hf) as (h' & d & Hrun & Hd & Eh & Hfr & Hco').
  exists h', (isort (hle h cs) l), d.
  split; [exact Hrun|]. split; [apply isort_hle_sort_spec|]. split; [apply sorted_children_perm|].
  split; [apply sorted_children_sorted|]. split; [intros k; apply sorted_children_stable|].
  split; [exact Hco'|]. split; [exact Hfr|]. split; [exact Hd|exact Eh].
Qed.

(** health: whatever heap the call returns encodes the sorted children list canonically again
    (next/prev mirror, head.prev = tail, tail.next = NULL, child = head), so every statement about
    well-formed containers applies to the sorted object *)
Theorem sort_object_healthy h o l cs fuel h' :
  children_of h o l -> (sort_fuel (length l) <= fuel)%nat ->
  sort_object fuel (Some o) cs h = Ret (tt, h') ->
  children_of h' o (isort (hle h cs) l) /\
  (forall z, z ∉ l -> h_lnk h' !! z = h_lnk h !! z) /\
  (forall z, z <> o -> h_dat h' !! z = h_dat h !! z) /\
  h_str h' = h_str h /\ h_live h' = h_live h /\ h_own h' = h_own h /\ h_trace h' = h_trace h.
Proof.
  intros Hco Hf Hrun.
  destruct (sort_object_correct h o l cs fuel Hco Hf) as (h1 & d & Hrun' & Hd & Eh & Hfr & Hco').
  rewrite Hrun in Hrun'. injection Hrun' as <-.
  split; [exact Hco'|]. split; [exact Hfr|].
  pose proof (f_equal h_dat Eh) as Hdat. pose proof (f_equal h_str Eh) as Hstr.
  pose proof (f_equal h_own Eh) as Hown. pose proof (f_equal h_live Eh) as Hliv.
  pose proof (f_equal h_trace Eh) as Htr.
  cbn [h_dat h_str h_own h_live h_trace] in Hdat, Hstr, Hown, Hliv, Htr.
  split; [intros z Hz; rewrite Hdat; apply lookup_insert_ne; congruence|].
  repeat split; assumption.
Qed.

(** a NULL object is left alone (the first guard of sort_object) *)
Lemma sort_object_null fuel cs h : sort_object fuel None cs h = Ret (tt, h).
Proof. reflexivity. Qed.

(** * Non-vacuity: a concrete object {"c":0,"a":1,"b":2,"A":3} in a concrete heap *)
Definition ex_mem (k : bytes) (i : Z) : node := Node 8 None i dzero (Some k) [].
Definition ex_obj : node := Node 64 None 0 dzero None [ex_mem [99] 0; ex_mem [97] 1; ex_mem [98] 2; ex_mem [65] 3].
Definition ex_heap : heap :=
  match materialize ex_obj empty_heap with Ret (_, h) => h | Err _ => empty_heap end.
Definition ex_l : list positive := [2; 4; 6; 8]%positive.   (* the member nodes "c" "a" "b" "A" *)

Ltac by_compute := match goal with |- ?P => apply (bool_decide_unpack P); vm_compute; exact I end.

Lemma ex_children : children_of ex_heap 1%positive ex_l.
Proof.
  split; [split|].
  - by_compute.
  - eexists. split; vm_compute; reflexivity.
  - by_compute.
  - intros x Hx. unfold ex_l in Hx.
    repeat (apply elem_of_cons in Hx as [->|Hx]); try (inversion Hx; fail); vm_compute; reflexivity.
  - intros x Hx. unfold ex_l in Hx.
    repeat (apply elem_of_cons in Hx as [->|Hx]); try (inversion Hx; fail).
    all: (split; [by_compute|]; split; [vm_compute; eexists; reflexivity|];
          eexists _, _; split; [vm_compute; reflexivity|]; split; [by_compute|]; split; vm_compute; reflexivity).
Qed.

Lemma ex_sorted :
  children_of ex_heap 1%positive ex_l /\
  (exists h', sort_object (sort_fuel 4) (Some 1%positive) false ex_heap = Ret (tt, h') /\
              children_of h' 1%positive [4; 8; 6; 2]%positive) /\
  (exists h', sort_object (sort_fuel 4) (Some 1%positive) true ex_heap = Ret (tt, h') /\
              children_of h' 1%positive [8; 4; 6; 2]%positive).
Proof.
  split; [exact ex_children|]. split.
  - destruct (sort_object_correct ex_heap 1%positive ex_l false (sort_fuel 4) ex_children (le_n _))
      as (h' & d & Hrun & _ & _ & _ & Hco).
    exists h'. split; [exact Hrun|].
    replace (isort (hle ex_heap false) ex_l) with [4; 8; 6; 2]%positive in Hco by (vm_compute; reflexivity).
    exact Hco.
  - destruct (sort_object_correct ex_heap 1%positive ex_l true (sort_fuel 4) ex_children (le_n _))
      as (h' & d & Hrun & _ & _ & _ & Hco).
    exists h'. split; [exact Hrun|].
    replace (isort (hle ex_heap true) ex_l) with [8; 4; 6; 2]%positive in Hco by (vm_compute; reflexivity).
    exact Hco.
Qed.

(** [sort_list] for members with string keys, in terms of the specification *)
Theorem sort_list_correct h cs fuel l m :
  (length l + 2 <= fuel)%nat -> chain m l -> NoDup l -> (forall x, x ∈ l -> node_ok h x) ->
  exists m', sort_list fuel (head l) cs (with_lnk h m) = Ret (head (isort (hle h cs) l), with_lnk h m') /\
             chain m' (isort (hle h cs) l) /\
             (forall z, z ∉ l -> m' !! z = m !! z).
Proof.
  intros Hf Hc Hnd Hok.
  destruct (sort_list_spec h cs (node_ok h) (kcmp h cs) (node_ok_live h)
              (fun m x Hx => get_key_with h m x Hx) (fun m x y Hx Hy => compare_strings_with h m cs x y Hx Hy)
              fuel l m Hf Hc Hnd Hok) as (m' & Hrun & Hc' & Hfr).
  rewrite msort_kcmp in Hrun, Hc' by lia. exists m'. split; [exact Hrun|]. split; [exact Hc'|exact Hfr].
Qed.

(** * Why the keys must be strings: with a NULL key the comparison is no order
      ([compare_strings] answers 1 both ways), and sorting {NULL:0, "a":1} swaps the two members on
      every call — safe and healthy (previous theorem), but neither sorted nor idempotent *)
Definition ex_null_obj : node := Node 64 None 0 dzero None [Node 8 None 0 dzero None []; ex_mem [97] 1].
Lemma ex_null_key_alternates :
  exists r, run_sort_case true ex_null_obj = Ret r /\
            sr_before r = [2; 3]%positive /\ sr_after r = [3; 2]%positive /\ sr_after2 r = [2; 3]%positive /\
            sr_healthy r = true /\ sr_healthy2 r = true.
Proof. vm_compute. eexists. split; [reflexivity|]. repeat split. Qed.
