(** CoreHistoryFail.v — THE HISTORY THEOREM UNDER ALLOCATION FAILURE (property C08 lifted from single
    calls to histories).

    * [run_op3o o], [run_ops3o o]: the proof-side interpreter of the alphabet [CoreHistoryAll.op3]
      with the allocator's failure schedule [o : nat -> bool] as a parameter; for the never-failing
      schedule it IS [run_op3] ([run_op3o_never], by computation);
    * [spec_step3o o]: the list model with failure, a FUNCTION of the schedule: the abstract state
      carries the request counter, so the model decides which branch the code takes
      ([spec_step3o_never]: for the never-failing schedule it is [spec_step3]);
    * [pre_ok3] / [pre_ok3b]: the rule checker is the one of the never-failing theorem, UNCHANGED;
      it is evaluated on the abstract state actually reached under [o] ([pre_ok_all3o]);
    * [step_sim3o]: one call — no error outcome, the model's result, [Abs3] again;
      [history_sim3o], [history3o_from_empty], [history3o_checked]: every accepted history. *)
From CJ Require Import Base Dbl Heap Forest ForestLemmas CoreSpec CoreDefs CoreRefineBase CoreRefine
  CoreRefineDelete CoreRefineReplace CoreRefineMore CoreRefineFrame CoreRefineHistory CoreRefineObject
  CoreRefineByKey CoreRefineAddObject CoreRefineHistoryObj CoreRefineHistoryObjEx CoreRefineReplaceKey
  CoreRefineReplaceKeyAbs CoreRefineCreate CoreRefineSet CoreRefineRef CoreRefineArray CoreLedgerGen CoreHistoryAllSteps
  CoreHistoryAllArr CoreHistoryAllArrStep CoreHistoryAllNull CoreHistoryAll CoreHistoryFailSteps CoreHistoryFailArr.
From CJ.gen Require Import Constants.
From Coq Require Import Floats.SpecFloat.
From stdpp Require Import gmap.
Implicit Types (h : heap) (F : forest) (d : rdata).
Local Open Scope Z_scope.

Section Fail.
  Variable o : nat -> bool.

  (** * the code of one call, the schedule as a parameter *)
  Definition run_add_to_object_o (k : created) (object name : ptr) : M ptr :=
    match k with
    | KNull => cJSON_AddNullToObject o object name
    | KTrue => cJSON_AddTrueToObject o object name
    | KFalse => cJSON_AddFalseToObject o object name
    | KBool b => cJSON_AddBoolToObject o object name b
    | KNumber n => cJSON_AddNumberToObject o object name n
    | KString s => cJSON_AddStringToObject o object name s
    | KRaw s => cJSON_AddRawToObject o object name s
    | KObject => cJSON_AddObjectToObject o object name
    | KArray => cJSON_AddArrayToObject o object name
    end.

  Definition run_op3o (op : op3) : M res3 :=
    match op with
    | O2 op => r <~ run_op2 o op ;; ret (R r)
    | OCreateNumber n => q <~ cJSON_CreateNumber o n ;; ret (R (RPtr q))
    | OCreateString s => q <~ cJSON_CreateString o s ;; ret (R (RPtr q))
    | OCreateRaw s => q <~ cJSON_CreateRaw o s ;; ret (R (RPtr q))
    | OCreateStringReference s => q <~ cJSON_CreateStringReference o s ;; ret (R (RPtr q))
    | OCreateObjectReference c => q <~ cJSON_CreateObjectReference o c ;; ret (R (RPtr q))
    | OCreateArrayReference c => q <~ cJSON_CreateArrayReference o c ;; ret (R (RPtr q))
    | OAddItemReferenceToArray a i => b <~ cJSON_AddItemReferenceToArray o a i ;; ret (R (RBool b))
    | OAddItemReferenceToObject ob n i => b <~ cJSON_AddItemReferenceToObject o ob n i ;; ret (R (RBool b))
    | OReplaceItemInObject ob n r cs => b <~ replace_item_in_object o ob n r cs ;; ret (R (RBool b))
    | OSetNumberValue x n => v <~ cJSON_SetNumberValue x n ;; ret (RDbl v)
    | OSetIntValue x z => v <~ cJSON_SetIntValue x z ;; ret (R (RInt v))
    | OSetBoolValue x b => v <~ cJSON_SetBoolValue x b ;; ret (R (RInt v))
    | OSetValuestring x v => q <~ cJSON_SetValuestring o x v ;; ret (R (RPtr q))
    | OAddToObject k ob n => q <~ run_add_to_object_o k ob n ;; ret (R (RPtr q))
    | OHasObjectItem ob n => b <~ cJSON_HasObjectItem ob n ;; ret (R (RBool b))
    | OGetStringValue x => q <~ cJSON_GetStringValue x ;; ret (R (RPtr q))
    | OGetNumberValue x => v <~ cJSON_GetNumberValue x ;; ret (RDbl v)
    | OCreateIntArray l c => q <~ cJSON_CreateIntArray o l c ;; ret (R (RPtr q))
    | OCreateFloatArray l c => q <~ cJSON_CreateFloatArray o l c ;; ret (R (RPtr q))
    | OCreateDoubleArray l c => q <~ cJSON_CreateDoubleArray o l c ;; ret (R (RPtr q))
    | OCreateStringArray l c => q <~ cJSON_CreateStringArray o l c ;; ret (R (RPtr q))
    end.

  (** * the list model with failure *)
  Definition spec_step3o (S : astate2) (op : op3) : astate2 * res3 :=
    match op with
    | O2 op => ((s2o o S op).1, R (s2o o S op).2)
    | OCreateNumber n => let r := spec_new_node_o o S (rd_number n) in (r.1, R (RPtr r.2))
    | OCreateString s => let r := spec_new_string_o o S c_cJSON_String s in (r.1, R (RPtr r.2))
    | OCreateRaw s => let r := spec_new_string_o o S c_cJSON_Raw s in (r.1, R (RPtr r.2))
    | OCreateStringReference s => let r := spec_new_node_o o S (rd_string_ref s) in (r.1, R (RPtr r.2))
    | OCreateObjectReference c => let r := spec_new_node_o o S (rd_container_ref c_cJSON_Object c) in (r.1, R (RPtr r.2))
    | OCreateArrayReference c => let r := spec_new_node_o o S (rd_container_ref c_cJSON_Array c) in (r.1, R (RPtr r.2))
    | OAddItemReferenceToArray a i =>
        match a with
        | None => (S, R (RBool false))
        | Some _ => let c := spec_create_ref_o o S i in
                    let r := s2 c.1 (OArr (OAdd a c.2)) in (r.1, R (RBool (res_bool r.2)))
        end
    | OAddItemReferenceToObject ob n i =>
        match ob, n with
        | Some _, Some _ => let c := spec_create_ref_o o S i in
                            let r := spec_add_or_delete_o o c.1 c.2 ob n true false in (r.1, R (RBool r.2))
        | _, _ => (S, R (RBool false))
        end
    | OReplaceItemInObject ob n r cs => let q := spec_replace_key3_o o S ob n r cs in (q.1, R (RBool q.2))
    | OSetValuestring x v => let q := spec_set_valuestring3_o o S x v in (q.1, R (RPtr q.2))
    | OAddToObject k ob n =>
        let c := spec_created_o o S k in
        let r := spec_add_or_delete_o o c.1 c.2 ob n c.2 None in (r.1, R (RPtr r.2))
    | OCreateIntArray l c => spec_bulk S l c (fun ints => spec_number_array_o o S (dbl_of_int <$> ints) c)
    | OCreateFloatArray l c | OCreateDoubleArray l c => spec_bulk S l c (fun vals => spec_number_array_o o S vals c)
    | OCreateStringArray l c => spec_bulk S l c (fun strs => spec_string_array_o o S strs c)
    | OSetNumberValue _ _ | OSetIntValue _ _ | OSetBoolValue _ _ | OHasObjectItem _ _ | OGetStringValue _
    | OGetNumberValue _ => spec_step3 S op                     (* calls that never ask the allocator *)
    end.

  Lemma run_add_to_object_o_eq k ob n :
    run_add_to_object_o k ob n = (item <~ run_created_o o k ;; add_created_to_object o ob n item).
  Proof. by destruct k. Qed.

  (** * one call *)
  Theorem step_sim3o h S op :
    Abs3 h S -> pre_ok3 S op ->
    exists h', run_op3o op h = Ret ((spec_step3o S op).2, h') /\ Abs3 h' (spec_step3o S op).1.
  Proof.
    intros HA Hpre. revert h HA. change (Step (run_op3o op) S (spec_step3o S op).1 (spec_step3o S op).2).
    (* calls that never ask the allocator: the step of the never-failing theorem *)
    assert (Hnv : run_op3o op = run_op3 op -> spec_step3o S op = spec_step3 S op ->
                  Step (run_op3o op) S (spec_step3o S op).1 (spec_step3o S op).2).
    { intros -> ->. intros h HA. by apply step_sim3. }
    destruct op as [op|n|s|s|s|c|c|a i|ob n i|ob n r cs|x n|x z|x b|x v|k ob n|ob n|x|x|l c|l c|l c|l c];
      try (by apply Hnv); cbn [run_op3o spec_step3o pre_ok3] in *; cbn zeta.
    - apply (Step_wrap R). destruct Hpre as [Hpre|Hpre]; [by apply Step_op2o|by apply Step_refused2o].
    - apply (Step_wrap (fun q => R (RPtr q))). apply Step_CreateNumber_o.
    - apply (Step_wrap (fun q => R (RPtr q))). by apply Step_create_string_like_o.
    - apply (Step_wrap (fun q => R (RPtr q))). by apply Step_create_string_like_o.
    - apply (Step_wrap (fun q => R (RPtr q))). apply Step_CreateStringReference_o.
    - apply (Step_wrap (fun q => R (RPtr q))). apply Step_CreateObjectReference_o.
    - apply (Step_wrap (fun q => R (RPtr q))). apply Step_CreateArrayReference_o.
    - (* cJSON_AddItemReferenceToArray *)
      destruct a as [pa|].
      + destruct Hpre as [?|[Hi Hadd]]; [done|]. cbn [fst snd].
        apply (Step_wrap (fun b => R (RBool b))). unfold cJSON_AddItemReferenceToArray. cbn [is_null].
        eapply Step_bind; [by apply Step_create_reference_o|]. apply Step_add_item_to_array.
        (* a refused reference node: the item is NULL, which cJSON_AddItemToArray refuses *)
        unfold spec_create_ref_o, spec_new_node_o. unfold spec_create_ref in Hadd.
        destruct i as [y|]; [|exact Hadd]. destruct (find_tree y (a_forest S)); [|exact Hadd].
        destruct (o (req S)); [|exact Hadd]. cbn [fst snd]. left. auto.
      + apply (Step_wrap (fun b => R (RBool b))). apply Step_ret.
    - (* cJSON_AddItemReferenceToObject *)
      destruct ob as [po|]; [|apply (Step_wrap (fun b => R (RBool b))); apply Step_ret].
      destruct n as [nb|]; [|apply (Step_wrap (fun b => R (RBool b))); apply Step_ret].
      destruct Hpre as [?|[?|[Hi Hadd]]]; [done|done|]. cbn [fst snd].
      apply (Step_wrap (fun b => R (RBool b))). unfold cJSON_AddItemReferenceToObject. cbn [is_null orb].
      eapply Step_bind; [by apply Step_create_reference_o|]. apply Step_add_or_delete_o.
      unfold spec_create_ref_o, spec_new_node_o. unfold spec_create_ref in Hadd.
      destruct i as [y|]; [|by apply pre_add_or_delete_o_of]. destruct (find_tree y (a_forest S)); [|by apply pre_add_or_delete_o_of].
      destruct (o (req S)); [|by apply pre_add_or_delete_o_of]. cbn [fst snd]. apply pre_add_or_delete_o_none.
    - apply (Step_wrap (fun b => R (RBool b))). by apply Step_replace_key_o.
    - apply (Step_wrap (fun q => R (RPtr q))). by apply Step_SetValuestring_o.
    - (* the cJSON_Add…ToObject helpers *)
      destruct Hpre as [Hk Hadd]. apply (Step_wrap (fun q => R (RPtr q))). rewrite run_add_to_object_o_eq.
      eapply Step_bind; [by apply Step_created_o|]. unfold add_created_to_object. apply Step_add_or_delete_o.
      (* either the item is the one the never-failing model makes, or it is NULL *)
      assert (Hcase : spec_created_o o S k = spec_created S k \/ (spec_created_o o S k).2 = None).
      { unfold spec_created_o, spec_created, s2o, s2, spec_new_node_o, spec_new_string_o, spec_new_string.
        destruct k as [| | |b|nn|s|s| |]; cbn [spec_step2 spec_step fst snd res_ptr];
          try (destruct (o (as_req (a_st S))); [by right|by left]);
          try (destruct (o (req S)); [by right|by left]).
        - destruct s as [sb|]; [|destruct (o (req S)); [by right|by left]].
          destruct (a_str S !! sb); [|by left]. destruct (o (req S)); [by right|]. destruct (o (Datatypes.S (req S))); [by right|by left].
        - destruct s as [sb|]; [|destruct (o (req S)); [by right|by left]].
          destruct (a_str S !! sb); [|by left]. destruct (o (req S)); [by right|]. destruct (o (Datatypes.S (req S))); [by right|by left]. }
      destruct Hcase as [->|Hnone]; [by apply pre_add_or_delete_o_of|].
      rewrite Hnone. apply pre_add_or_delete_o_none.
    - (* cJSON_CreateIntArray *)
      unfold spec_bulk. destruct l as [l|]; cbn [pre_bulk] in *.
      2:{ apply (Step_wrap (fun q => R (RPtr q))). apply Step_same. intros h _. by apply create_array_of_refused; right. }
      destruct (Z.ltb_spec c 0) as [Hlt|Hge]; cbn [fst snd].
      { apply (Step_wrap (fun q => R (RPtr q))). apply Step_same. intros h _. by apply create_array_of_refused; left. }
      destruct Hpre as [?|[Hlen _]]; [lia|]. apply (Step_wrap (fun q => R (RPtr q))).
      apply (Step_number_array_o o dbl_of_int S l c Hge Hlen).
    - (* cJSON_CreateFloatArray *)
      unfold spec_bulk. destruct l as [l|]; cbn [pre_bulk] in *.
      2:{ apply (Step_wrap (fun q => R (RPtr q))). apply Step_same. intros h _. by apply create_array_of_refused; right. }
      destruct (Z.ltb_spec c 0) as [Hlt|Hge]; cbn [fst snd].
      { apply (Step_wrap (fun q => R (RPtr q))). apply Step_same. intros h _. by apply create_array_of_refused; left. }
      destruct Hpre as [?|[Hlen _]]; [lia|]. apply (Step_wrap (fun q => R (RPtr q))).
      pose proof (Step_number_array_o o (fun v : dbl => v) S l c Hge Hlen) as H. by rewrite list_fmap_id in H.
    - (* cJSON_CreateDoubleArray *)
      unfold spec_bulk. destruct l as [l|]; cbn [pre_bulk] in *.
      2:{ apply (Step_wrap (fun q => R (RPtr q))). apply Step_same. intros h _. by apply create_array_of_refused; right. }
      destruct (Z.ltb_spec c 0) as [Hlt|Hge]; cbn [fst snd].
      { apply (Step_wrap (fun q => R (RPtr q))). apply Step_same. intros h _. by apply create_array_of_refused; left. }
      destruct Hpre as [?|[Hlen _]]; [lia|]. apply (Step_wrap (fun q => R (RPtr q))).
      pose proof (Step_number_array_o o (fun v : dbl => v) S l c Hge Hlen) as H. by rewrite list_fmap_id in H.
    - (* cJSON_CreateStringArray *)
      unfold spec_bulk. destruct l as [l|]; cbn [pre_bulk] in *.
      2:{ apply (Step_wrap (fun q => R (RPtr q))). apply Step_same. intros h _. by apply create_array_of_refused; right. }
      destruct (Z.ltb_spec c 0) as [Hlt|Hge]; cbn [fst snd].
      { apply (Step_wrap (fun q => R (RPtr q))). apply Step_same. intros h _. by apply create_array_of_refused; left. }
      destruct Hpre as [?|[Hlen Hok]]; [lia|]. apply (Step_wrap (fun q => R (RPtr q))).
      by apply Step_string_array_o.
  Qed.

  (** * histories *)
  Fixpoint run_ops3o (ops : list op3) : M (list res3) :=
    match ops with
    | [] => ret []
    | op :: r => x <~ run_op3o op ;; xs <~ run_ops3o r ;; ret (x :: xs)
    end.
  Definition spec_run3o (S : astate2) (ops : list op3) : astate2 := fold_left (fun S op => (spec_step3o S op).1) ops S.
  Fixpoint spec_results3o (S : astate2) (ops : list op3) : list res3 :=
    match ops with [] => [] | op :: r => (spec_step3o S op).2 :: spec_results3o (spec_step3o S op).1 r end.
  (** the rules, checked against the abstract state actually reached under [o] *)
  Fixpoint pre_ok_all3o (S : astate2) (ops : list op3) : Prop :=
    match ops with [] => True | op :: r => pre_ok3 S op /\ pre_ok_all3o (spec_step3o S op).1 r end.
  Fixpoint pre_ok_all3ob (S : astate2) (ops : list op3) : bool :=
    match ops with [] => true | op :: r => pre_ok3b S op && pre_ok_all3ob (spec_step3o S op).1 r end.
  Lemma pre_ok_all3ob_sound ops : forall S, pre_ok_all3ob S ops = true -> pre_ok_all3o S ops.
  Proof.
    induction ops as [|op r IH]; intros S H; [done|]. cbn in H. apply andb_true_iff in H as [H1 H2].
    split; [by apply pre_ok3b_sound|by apply IH].
  Qed.

  Theorem history_sim3o ops : forall h S,
    Abs3 h S -> pre_ok_all3o S ops ->
    exists h', run_ops3o ops h = Ret (spec_results3o S ops, h') /\ Abs3 h' (spec_run3o S ops).
  Proof.
    induction ops as [|op r IH]; intros h S HA Hpre.
    - exists h. by split.
    - destruct Hpre as [Hp Hr]. destruct (step_sim3o h S op HA Hp) as (h1 & Hrun & HA1).
      destruct (IH h1 _ HA1 Hr) as (h2 & Hrun2 & HA2). exists h2. split; [|exact HA2].
      cbn [run_ops3o spec_results3o]. rewrite (bindM_Ret _ _ _ _ _ Hrun). by rewrite (bindM_Ret _ _ _ _ _ Hrun2).
  Qed.

  Corollary history3o_from_empty ops :
    pre_ok_all3o S0 ops ->
    exists h', run_ops3o ops empty_heap = Ret (spec_results3o S0 ops, h') /\ Abs3 h' (spec_run3o S0 ops).
  Proof. apply history_sim3o, Abs3_empty. Qed.
  Theorem history3o_checked ops :
    pre_ok_all3ob S0 ops = true ->
    exists h', run_ops3o ops empty_heap = Ret (spec_results3o S0 ops, h') /\ Abs3 h' (spec_run3o S0 ops).
  Proof. intros H. by apply history3o_from_empty, pre_ok_all3ob_sound. Qed.

  (** the rules are prefix-closed: the theorem speaks about EVERY moment of a history *)
  Lemma pre_ok_all3o_app ops1 : forall S ops2,
    pre_ok_all3o S (ops1 ++ ops2) -> pre_ok_all3o S ops1 /\ pre_ok_all3o (spec_run3o S ops1) ops2.
  Proof.
    induction ops1 as [|op r IH]; intros S ops2 H; [done|]. destruct H as [H1 H2].
    destruct (IH _ _ H2) as [H3 H4]. done.
  Qed.
  Lemma spec_run3o_app S ops1 ops2 : spec_run3o S (ops1 ++ ops2) = spec_run3o (spec_run3o S ops1) ops2.
  Proof. apply fold_left_app. Qed.
End Fail.

(** * for the schedule that never refuses this is the history theorem of C06 *)
Lemma run_op3o_never op : run_op3o nv op = run_op3 op.
Proof. destruct op; reflexivity. Qed.
Lemma run_ops3o_never ops : run_ops3o nv ops = run_ops3 ops.
Proof. induction ops as [|op r IH]; [done|]. cbn [run_ops3o run_ops3]. by rewrite run_op3o_never, IH. Qed.

Lemma spec_created_o_never S k : spec_created_o nv S k = spec_created S k.
Proof.
  destruct k as [| | | | |s|s| |]; try reflexivity.
  all: destruct s as [sb|]; [|reflexivity]; cbn; by destruct (a_str S !! sb).
Qed.
Lemma spec_new_string_o_never S ty s : spec_new_string_o nv S ty s = spec_new_string S ty s.
Proof. destruct s as [sb|]; [|reflexivity]. cbn. by destruct (a_str S !! sb). Qed.
Lemma spec_step3o_never S op : spec_step3o nv S op = spec_step3 S op.
Proof.
  destruct op as [op|n|s|s|s|c|c|a i|ob n i|ob n r cs|x n|x z|x b|x v|k ob n|ob n|x|x|l c|l c|l c|l c]; try reflexivity.
  all: cbn [spec_step3o spec_step3].
  - by rewrite spec_new_string_o_never.
  - by rewrite spec_new_string_o_never.
  - unfold spec_replace_key3_o. by destruct n, r.
  - by rewrite spec_created_o_never.
  - unfold spec_bulk. destruct l; [|done]. destruct (c <? 0); [done|].
    unfold spec_number_array_o. by rewrite first_refusal_never.
  - unfold spec_bulk. destruct l; [|done]. destruct (c <? 0); [done|].
    unfold spec_number_array_o. by rewrite first_refusal_never.
  - unfold spec_bulk. destruct l; [|done]. destruct (c <? 0); [done|].
    unfold spec_number_array_o. by rewrite first_refusal_never.
  - unfold spec_bulk. destruct l; [|done]. destruct (c <? 0); [done|].
    unfold spec_string_array_o. by rewrite first_refusal_never.
Qed.
Lemma spec_run3o_never ops : forall S, spec_run3o nv S ops = spec_run3 S ops.
Proof. induction ops as [|op r IH]; intros S; [done|]. cbn. rewrite spec_step3o_never. apply IH. Qed.
Lemma spec_results3o_never ops : forall S, spec_results3o nv S ops = spec_results3 S ops.
Proof. induction ops as [|op r IH]; intros S; [done|]. cbn. rewrite spec_step3o_never. by rewrite IH. Qed.
Lemma pre_ok_all3ob_never ops : forall S, pre_ok_all3ob nv S ops = pre_ok_all3b S ops.
Proof. induction ops as [|op r IH]; intros S; [done|]. cbn. rewrite spec_step3o_never. by rewrite IH. Qed.
