(** CoreRefineDupIndep.v — independence of the copy made by [cJSON_Duplicate] (property C11,
    second part).

    * [tree_entries_lookup]: the entries of a root tree in the canonical maps of a forest depend
      on that tree alone; hence ([copy_encoding_independent], [forest_encoding_independent])
      whatever later calls do to the OTHER trees — every simulation lemma re-establishes
      [WF h2 (F2 ++ [tc])] — the entries of the untouched tree are the same;
    * [dup_then_delete_copy]: deleting the copy gives the original heap back (up to the
      allocator's counters): the ledger is balanced;
    * [dup_then_delete_source]: deleting the source tree leaves every block of the copy as it is. *)
From CJ Require Import Base Dbl Heap Forest ForestLemmas CoreSpec CoreDefs CoreRefineBase CoreRefine CoreRefineDelete
  CoreRefineDupBase CoreRefineDupTree CoreRefineDupNode CoreRefineDupLoop CoreRefineDup CoreRefineDupForest.
From CJ.gen Require Import Constants.
From stdpp Require Import gmap.
From Coq Require Import Lia.

Implicit Types (g h : heap) (i n b : positive) (d : rdata) (ts cs : list tree) (F : forest).

(** * the encoding of one root tree inside a forest *)
Lemma ids_singleton t : ids [t] = ids_t t.
Proof. unfold ids, nodes. cbn. by rewrite app_nil_r. Qed.

Lemma NoDup_ids_root F t : NoDup (ids F) -> t ∈ F -> NoDup (ids [t]).
Proof.
  intros ND Ht. apply elem_of_Permutation in Ht as [F' HF]. rewrite HF, ids_cons in ND.
  apply NoDup_app in ND as [ND _]. by rewrite ids_singleton.
Qed.

Lemma tree_entries_lookup F t k :
  NoDup (ids F) -> t ∈ F -> k ∈ ids_t t ->
  heap_lnk_of F !! k = heap_lnk_of [t] !! k /\ heap_dat_of F !! k = heap_dat_of [t] !! k.
Proof.
  intros ND Ht Hk. pose proof (NoDup_ids_root _ _ ND Ht) as ND1.
  assert (Hfl : forall e : fnode, e ∈ flat_t t -> e ∈ flat F).
  { intros e He. apply elem_of_Permutation in Ht as [F' HF]. rewrite HF, flat_cons. apply elem_of_app. by left. }
  assert (Hfl1 : forall e : fnode, e ∈ flat_t t -> e ∈ flat [t]) by (intros e He; by rewrite flat_singleton).
  split.
  - rewrite <- lnk_keys_ids_t in Hk. apply elem_of_cons in Hk as [->|Hk].
    + rewrite !heap_lnk_of_lookup_root; try done.
      * unfold roots. cbn. by left.
      * apply elem_of_list_fmap. by exists t.
    + apply elem_of_list_bind in Hk as ([[i d] ks] & Hk & He). cbn in Hk.
      apply elem_of_list_lookup in Hk as [j Hj].
      rewrite (heap_lnk_of_lookup_child _ i d ks j k ND (Hfl _ He) Hj).
      by rewrite (heap_lnk_of_lookup_child _ i d ks j k ND1 (Hfl1 _ He) Hj).
  - rewrite ids_t_flat in Hk. apply elem_of_list_fmap in Hk as ([[i d] ks] & -> & He).
    change (fn_id (i, d, ks)) with i.
    rewrite (heap_dat_of_lookup _ i d ks ND (Hfl _ He)).
    by rewrite (heap_dat_of_lookup _ i d ks ND1 (Hfl1 _ He)).
Qed.

(** the copy's entries do not depend on the rest of the forest *)
Theorem copy_encoding_independent F F2 tc k :
  NoDup (ids (F ++ [tc])) -> NoDup (ids (F2 ++ [tc])) -> k ∈ ids_t tc ->
  heap_lnk_of (F2 ++ [tc]) !! k = heap_lnk_of (F ++ [tc]) !! k /\
  heap_dat_of (F2 ++ [tc]) !! k = heap_dat_of (F ++ [tc]) !! k.
Proof.
  intros ND ND2 Hk.
  assert (Hin : forall G, tc ∈ G ++ [tc]) by (intros G; apply elem_of_app; right; by left).
  destruct (tree_entries_lookup _ _ _ ND (Hin F) Hk) as [-> ->].
  destruct (tree_entries_lookup _ _ _ ND2 (Hin F2) Hk) as [-> ->]. done.
Qed.

(** the old forest's entries do not depend on what becomes of the copy *)
Theorem forest_encoding_independent F tc2 k :
  NoDup (ids (F ++ [tc2])) -> k ∈ ids F ->
  heap_lnk_of (F ++ [tc2]) !! k = heap_lnk_of F !! k /\ heap_dat_of (F ++ [tc2]) !! k = heap_dat_of F !! k.
Proof.
  intros ND Hk.
  assert (HP : F ++ [tc2] ≡ₚ tc2 :: F) by (symmetry; apply Permutation_cons_append).
  assert (Hnin : k ∉ ids_t tc2).
  { rewrite ids_snoc in ND. apply NoDup_app in ND as (_ & ND & _). by apply ND. }
  split.
  - by apply (heap_lnk_of_remove_root_lookup _ _ _ _ ND HP).
  - by apply (heap_dat_of_remove_root_lookup _ _ _ _ ND HP).
Qed.

(** in terms of heaps: any heap that encodes [F2 ++ [tc]] agrees with [h'] on the copy's nodes *)
Corollary copy_nodes_independent h' h2 F F2 tc k :
  WF h' (F ++ [tc]) -> WF h2 (F2 ++ [tc]) -> k ∈ ids_t tc ->
  h_lnk h2 !! k = h_lnk h' !! k /\ h_dat h2 !! k = h_dat h' !! k.
Proof.
  intros W W2 Hk. rewrite (wf_lnk _ _ W), (wf_dat _ _ W), (wf_lnk _ _ W2), (wf_dat _ _ W2).
  apply copy_encoding_independent; [apply W|apply W2|done].
Qed.
Corollary forest_nodes_independent h h2 F tc2 k :
  WF h F -> WF h2 (F ++ [tc2]) -> k ∈ ids F ->
  h_lnk h2 !! k = h_lnk h !! k /\ h_dat h2 !! k = h_dat h !! k.
Proof.
  intros W W2 Hk. rewrite (wf_lnk _ _ W), (wf_dat _ _ W), (wf_lnk _ _ W2), (wf_dat _ _ W2).
  apply forest_encoding_independent; [apply W2|done].
Qed.

(** * deleting one of the two trees *)
Lemma find_root_snoc F t : tid t ∉ roots F -> find_root (tid t) (F ++ [t]) = Some t.
Proof.
  induction F as [|a F IH]; intros Hn.
  - unfold find_root. cbn. by rewrite bool_decide_eq_true_2.
  - unfold roots in Hn. cbn in Hn. apply not_elem_of_cons in Hn as [H1 H2].
    unfold find_root. cbn. rewrite bool_decide_eq_false_2 by done. by apply IH.
Qed.
Lemma find_root_app_l F G x t : find_root x F = Some t -> find_root x (F ++ G) = Some t.
Proof.
  unfold find_root. induction F as [|a F IH]; intros H; [done|]. cbn in *.
  destruct (bool_decide (tid a = x)); [done|by apply IH].
Qed.
Lemma remove_root_snoc F t : tid t ∉ roots F -> remove_root (tid t) (F ++ [t]) = F.
Proof.
  intros Hn. unfold remove_root. rewrite List.filter_app. fold (remove_root (tid t) F). rewrite remove_root_notin by done.
  cbn. rewrite bool_decide_eq_true_2 by done. cbn. apply app_nil_r.
Qed.
Lemma remove_root_app_ne F t x : tid t <> x -> remove_root x (F ++ [t]) = remove_root x F ++ [t].
Proof.
  intros Hn. unfold remove_root. rewrite List.filter_app. cbn. by rewrite bool_decide_eq_false_2.
Qed.

Section Delete.
  Context (h h' : heap) (F : forest) (tc : tree).
  Hypothesis W : WF h F.
  Hypothesis Fr : Ext (nids (flat_t tc)) (sids (flat_t tc)) h h'.
  Hypothesis ND : NoDup (nids (flat_t tc) ++ sids (flat_t tc)).
  Hypothesis C : Chain_ok h' [tc] None.
  Hypothesis R : Forall ref_ok (flat_t tc).

  Local Lemma tc_not_root : tid tc ∉ roots F.
  Proof.
    intros Hr. apply roots_subseteq_ids, ids_subseteq_owned in Hr.
    eapply (Done_disjoint h h' F tc); [done..| |]; [exact Hr|].
    apply ids_subseteq_owned. rewrite ids_singleton. apply elem_of_ids_t_self.
  Qed.

  (** the ledger: duplicate, then delete the copy = nothing happened *)
  Theorem dup_then_delete_copy :
    exists h'', cJSON_Delete (Some (tid tc)) h' = Ret (tt, h'') /\ Ext [] [] h h'' /\ WF h'' F /\
      lib_live h'' = lib_live h.
  Proof.
    pose proof (Done_WF h h' F tc W Fr ND C R) as W'.
    destruct (cJSON_Delete_sim h' (F ++ [tc]) (tid tc) tc W' (find_root_snoc _ _ tc_not_root))
      as (_ & Hrun & W'' & _).
    rewrite remove_root_snoc in W'' by apply tc_not_root.
    exists (free_all (free_order [tc]) h'). split; [done|].
    assert (Hfr : Ext [] [] h (free_all (free_order [tc]) h')).
    { eapply Ext_free_all; [exact Fr|]. by rewrite free_order_owned, flat_singleton, owned_fl_split. }
    split; [done|]. split; [done|]. by destruct (Ext_nil_eq _ _ Hfr) as (_ & _ & _ & _ & _ & ?).
  Qed.

  (** deleting the source tree (a root [p] of the forest) leaves every block of the copy untouched *)
  Theorem dup_then_delete_source p t :
    find_root p F = Some t ->
    exists h'', cJSON_Delete (Some p) h' = Ret (tt, h'') /\ WF h'' (remove_root p F ++ [tc]) /\
      forall b, b ∈ owned [tc] ->
        b ∈ h_live h'' /\ h_lnk h'' !! b = h_lnk h' !! b /\ h_dat h'' !! b = h_dat h' !! b /\
        h_str h'' !! b = h_str h' !! b.
  Proof.
    intros Hp. pose proof (Done_WF h h' F tc W Fr ND C R) as W'.
    destruct (cJSON_Delete_sim h' (F ++ [tc]) p t W' (find_root_app_l _ _ _ _ Hp)) as (_ & Hrun & W'' & _).
    apply find_root_Some in Hp as [Ht Hp].
    assert (Hne : tid tc <> p).
    { intros E. apply tc_not_root. rewrite E, <- Hp. apply elem_of_list_fmap. by exists t. }
    rewrite remove_root_app_ne in W'' by done.
    exists (free_all (free_order [t]) h'). split; [done|]. split; [done|].
    intros b Hb.
    assert (Hnin : b ∉ free_order [t]).
    { rewrite free_order_owned. intros Hin. eapply (Done_disjoint h h' F tc); [done..| |exact Hb].
      apply elem_of_Permutation in Ht as [F' HF]. unfold owned. rewrite HF, flat_cons, owned_fl_app.
      apply elem_of_app. left. by rewrite <- flat_singleton. }
    split_and!.
    - apply free_all_live. split; [|done].
      unfold owned in Hb. rewrite flat_singleton, owned_fl_split in Hb.
      by destruct (xt_new _ _ _ _ Fr b Hb) as (_ & _ & ? & _).
    - by apply free_all_lnk_lookup.
    - by apply free_all_dat_lookup.
    - by apply fa_str_lookup.
  Qed.
End Delete.
