(** CoreOpsBridgeRefEx.v — NON-VACUITY of the history theorem with READ-ONLY QUERIES THROUGH REFERENCE
    NODES (CoreOpsBridgeRefHist.v).

    [exR]: a 46-call history in the syntax of the EXTRACTED interpreter.  It builds the array
    [a = [1, 2]] and the object [o = {"k": true, "Key": false}], an ARRAY REFERENCE whose child pointer
    designates the first element of [a] and an OBJECT REFERENCE whose child pointer designates the
    first member of [o]; queries both references — size, by index (inside, past the end), by key in
    both case modes (exact, folded, missing; by key on the array reference, whose elements have no
    key), has-item, for-each —; APPENDS an item to [a] and a member to [o]; queries the references
    again (the appended items ARE visible: sizes 3, the new element / member found); makes a
    reference with cJSON_AddItemReferenceToArray, fetches the reference NODE out of its array and
    queries it; deletes everything.  It is accepted by [accepted_rulesR] (the checker without the
    new step rejects it); the list model and the extracted interpreter, both RUN by [vm_compute]
    from the empty state, give the same 46 results and final pools; no live library block is left.

    [exX]: the referenced container's FIRST CHILD is detached — the reference then denotes the
    detached item alone (it is a root: no sibling links), accepted, the interpreter agrees (size 1)
    — and then RELEASED: the borrowed pointer dangles.  The checker REJECTS every query through the
    reference from then on; RUNNING the extracted interpreter there shows why: cJSON_GetArraySize
    and cJSON_ArrayForEach end in the error outcome [UAF] (they read the released node's [next] /
    [type]); cJSON_GetArrayItem(ref, 0) returns the dangling pointer itself. *)
From CJ Require Import Base Dbl Heap Forest CoreSpec CoreDefs CoreRefineHistory CoreRefineHistoryObj
  CoreRefineCreate CoreHistoryAllSteps CoreHistoryAll CoreLedgerAll CoreOpsBridge CoreOpsBridgeHist CoreOpsBridgeOwned
  CoreOpsBridgeEx CoreOpsBridgeDupDefs CoreOpsBridgeDupHist CoreOpsBridgeRefDefs CoreOpsBridgeRefHist.
From CJ Require CoreOps CoreOpsBridgeDupEx.
From Coq Require Import Floats.SpecFloat.
From stdpp Require Import gmap.
Local Open Scope Z_scope.
Import CoreOps.

Definition exR : list CoreOps.op :=
  [OCreateArray;                                               (* h0: the array a *)
   CoreOps.OCreateNumber (dbl_of_int 1);                       (* h1 *)
   CoreOps.OCreateNumber (dbl_of_int 2);                       (* h2 *)
   OAddItemToArray (IH 0) (IH 1);
   OAddItemToArray (IH 0) (IH 2);                              (* a = [1, 2] *)
   OCreateObject;                                              (* h3: the object o *)
   OCreateTrue;                                                (* h4 *)
   OCreateFalse;                                               (* h5 *)
   OAddItemToObject (IH 3) (SLit [107]) (IH 4);                (* "k": true;    s0 = "k" *)
   OAddItemToObject (IH 3) (SLit [75; 101; 121]) (IH 5);       (* "Key": false; s1 = "Key" *)
   CoreOps.OCreateArrayReference (IH 1);                       (* h6: array reference, child = first element of a *)
   CoreOps.OCreateObjectReference (IH 4);                      (* h7: object reference, child = first member of o *)
   (* queries through the references *)
   OGetArraySize (IH 6);                                       (* 2 *)
   OGetArrayItem (IH 6) 1;                                     (* h8 = the element 2 *)
   OGetArrayItem (IH 6) 2;                                     (* h9: past the end: NULL *)
   OArrayForEach (IH 6);                                       (* number, number *)
   OGetArraySize (IH 7);                                       (* 2 *)
   OGetObjectItem (IH 7) (SLit [75; 69; 89]);                  (* h10: "KEY" folded = "Key"; s2 *)
   OGetObjectItemCaseSensitive (IH 7) (SPool 2);               (* h11: "KEY" exact: NULL *)
   OGetObjectItemCaseSensitive (IH 7) (SPool 1);               (* h12: "Key" exact *)
   CoreOps.OHasObjectItem (IH 7) (SPool 0);                    (* "k": true *)
   CoreOps.OHasObjectItem (IH 7) (SLit [122; 122]);            (* "zz": false; s3 *)
   OArrayForEach (IH 7);                                       (* true, false *)
   OGetObjectItem (IH 6) (SPool 0);                            (* h13: the elements of a have no key: NULL *)
   (* the referenced containers grow *)
   OCreateNull;                                                (* h14 *)
   OAddItemToArray (IH 0) (IH 14);                             (* a = [1, 2, null] *)
   CoreOps.OCreateString (SLit [118]);                         (* h15 = "v"; s4 *)
   OAddItemToObject (IH 3) (SLit [110; 101; 119]) (IH 15);     (* "new": "v"; s5 *)
   (* the appended items are visible through the references *)
   OGetArraySize (IH 6);                                       (* 3 *)
   OGetArrayItem (IH 6) 2;                                     (* h16 = the null *)
   OArrayForEach (IH 6);                                       (* number, number, null *)
   OGetArraySize (IH 7);                                       (* 3 *)
   OGetObjectItemCaseSensitive (IH 7) (SPool 5);               (* h17 = "new" *)
   OGetObjectItem (IH 7) (SLit [78; 69; 87]);                  (* h18: "NEW" folded; s6 *)
   CoreOps.OHasObjectItem (IH 7) (SPool 5);                    (* true *)
   OArrayForEach (IH 7);                                       (* true, false, string *)
   (* a reference node made by cJSON_AddItemReferenceToArray, inside another array *)
   OCreateArray;                                               (* h19 *)
   CoreOps.OAddItemReferenceToArray (IH 19) (IH 0);            (* h19 = [ref to a] *)
   OGetArrayItem (IH 19) 0;                                    (* h20: the reference node *)
   OGetArraySize (IH 20);                                      (* 3 *)
   OArrayForEach (IH 20);
   CoreOps.ODelete (IH 6); CoreOps.ODelete (IH 7); CoreOps.ODelete (IH 19); CoreOps.ODelete (IH 0); CoreOps.ODelete (IH 3)].

Lemma exR_accepted : accepted_rulesR exR = true.
Proof. vm_compute. reflexivity. Qed.
(** the checker without the new step rejects it — at the first query through a reference (call 12) *)
Lemma exR_not_accepted_before :
  accepted_rulesD exR = false /\ accepted_rulesD (take 12 exR) = true /\ accepted_rulesD (take 13 exR) = false.
Proof. vm_compute. by split_and!. Qed.

Definition exR_results : list CoreOps.result :=
  [RPtr (P 1); RPtr (P 2); RPtr (P 3); RFlag true; RFlag true; RPtr (P 4); RPtr (P 5); RPtr (P 6); RFlag true; RFlag true;
   RPtr (P 11); RPtr (P 12);
   RInt 2; RPtr (P 3); RPtr None; RInts [8; 8];
   RInt 2; RPtr (P 6); RPtr None; RPtr (P 6); RFlag true; RFlag false; RInts [2; 1]; RPtr None;
   RPtr (P 15); RFlag true; RPtr (P 17); RFlag true;
   RInt 3; RPtr (P 15); RInts [8; 8; 4];
   RInt 3; RPtr (P 17); RPtr (P 17); RFlag true; RInts [2; 1; 16];
   RPtr (P 22); RFlag true; RPtr (P 23); RInt 3; RInts [8; 8; 4];
   RUnit; RUnit; RUnit; RUnit; RUnit].
Definition exR_pools : CoreOps.state :=
  mkState [None; None; None; None; None; None; None; None; None; None; None; None; None; None; None; None; None; None; None;
           None; None]
          [P 7; P 9; P 13; P 14; P 16; P 19; P 21].

(** the list model: results, final pools, empty forest *)
Lemma exR_model :
  match runRR empty_state S0 exR with
  | Some (xs, st, S') => Some (xs, st, a_forest S') | None => None end = Some (exR_results, exR_pools, []).
Proof. vm_compute. reflexivity. Qed.

(** the extracted interpreter, RUN: the same results and pools; no live library block left *)
Lemma exR_run :
  match run_ops nv empty_state exR empty_heap with
  | Ret ((xs, st), h) => Some (xs, st, live_count h)
  | Err _ => None
  end = Some (exR_results, exR_pools, 0%nat).
Proof. vm_compute. reflexivity. Qed.

(** in the middle (after the second round of queries, before the deletions): the heap the interpreter
    reached is the canonical encoding of the model's forest; string heaps and counters agree *)
Lemma exR_same_state :
  match runRR empty_state S0 (take 41 exR) with
  | Some (_, _, S') => Some (CoreOpsBridgeDupEx.model_obs S') | None => None end =
  match run_ops nv empty_state (take 41 exR) empty_heap with
  | Ret (_, h) => Some (CoreOpsBridgeDupEx.heap_obsD h) | Err _ => None end.
Proof. vm_compute. reflexivity. Qed.

(** what the two references denote in the model after the appends: the CURRENT children of [a] and [o] *)
Lemma exR_chains :
  match runRR empty_state S0 (take 28 exR) with
  | Some (_, st, S') =>
      Some (option_map (fmap tid) (ref_chain (a_forest S') (item_of st (IH 6))),
            option_map (fmap tid) (ref_chain (a_forest S') (item_of st (IH 7))),
            option_map (fmap tid) (children_of (a_forest S') 1), option_map (fmap tid) (children_of (a_forest S') 4))
  | None => None
  end = Some (Some [2; 3; 15], Some [5; 6; 17], Some [2; 3; 15], Some [5; 6; 17])%positive.
Proof. vm_compute. reflexivity. Qed.

(** the theorem applies *)
Corollary exR_history :
  exists h', run_ops nv empty_state exR empty_heap = Ret ((exR_results, exR_pools), h') /\ lib_live h' = ∅.
Proof.
  pose proof exR_model as E. destruct (runRR empty_state S0 exR) as [[[xs st] S']|] eqn:Er; [|done].
  injection E as -> -> HF. destruct (ledger_extractedR _ _ _ _ Er) as (h1 & h2 & H1 & HA & _).
  exists h1. split; [done|]. by apply (Abs3_no_roots _ _ HA).
Qed.

(** * the dangling reference *)
Definition exX : list CoreOps.op :=
  [OCreateArray;                                               (* h0 *)
   CoreOps.OCreateNumber (dbl_of_int 1);                       (* h1 *)
   CoreOps.OCreateNumber (dbl_of_int 2);                       (* h2 *)
   OAddItemToArray (IH 0) (IH 1);
   OAddItemToArray (IH 0) (IH 2);                              (* h0 = [1, 2] *)
   CoreOps.OCreateArrayReference (IH 1);                       (* h3: child = the first element *)
   OGetArraySize (IH 3);                                       (* 2 *)
   ODetachItemFromArray (IH 0) 0;                              (* h4 = h1: THE FIRST CHILD IS DETACHED *)
   OGetArraySize (IH 3);                                       (* 1: the detached item alone *)
   OArrayForEach (IH 3);                                       (* number *)
   OGetArraySize (IH 0);                                       (* 1: the container lost it *)
   CoreOps.ODelete (IH 1)].                                    (* … AND RELEASED: the reference dangles *)

(** up to here accepted; model and interpreter agree (the reference reads the detached item alone) *)
Definition exX_results : list CoreOps.result :=
  [RPtr (P 1); RPtr (P 2); RPtr (P 3); RFlag true; RFlag true; RPtr (P 4); RInt 2; RPtr (P 2); RInt 1; RInts [8]; RInt 1; RUnit].
Lemma exX_prefix_accepted :
  accepted_rulesR exX = true /\
  match runRR empty_state S0 exX with Some (xs, st, _) => Some (xs, st_items st) | None => None end =
    Some (exX_results, [P 1; None; P 3; P 4; None]) /\
  match run_ops nv empty_state exX empty_heap with Ret ((xs, st), _) => Some (xs, st_items st) | Err _ => None end =
    Some (exX_results, [P 1; None; P 3; P 4; None]).
Proof. vm_compute. by split_and!. Qed.

(** the seven queries, each tried after [exX] *)
Definition exX_queries : list CoreOps.op :=
  [OGetArraySize (IH 3); OGetArrayItem (IH 3) 0; OGetArrayItem (IH 3) 1; OGetObjectItem (IH 3) (SLit [107]);
   OGetObjectItemCaseSensitive (IH 3) (SLit [107]); CoreOps.OHasObjectItem (IH 3) (SLit [107]); OArrayForEach (IH 3)].

(** every query through the dangling reference is REJECTED by the checker … *)
Lemma exX_rejected :
  (fun q => accepted_rulesR (exX ++ [q])) <$> exX_queries = [false; false; false; false; false; false; false].
Proof. vm_compute. reflexivity. Qed.
(** … because the model no longer defines what the reference denotes *)
Lemma exX_no_chain :
  match runRR empty_state S0 exX with
  | Some (_, st, S') => Some (ref_chain (a_forest S') (item_of st (IH 3))) | None => None end = Some None.
Proof. vm_compute. reflexivity. Qed.

(** … and what the extracted interpreter does there, RUN: reading the released node's [next] /
    [type] / [string] is the error outcome use-after-free; cJSON_GetArrayItem(ref, 0) returns the
    dangling pointer (block 2) without reading it *)
Definition outcome (ops : list CoreOps.op) : option CoreOps.result + err :=
  match run_ops nv empty_state ops empty_heap with
  | Ret ((xs, _), _) => inl (last xs)
  | Err e => inr e
  end.
Lemma exX_interpreter :
  (fun q => outcome (exX ++ [q])) <$> exX_queries =
  [inr UAF; inl (Some (RPtr (P 2))); inr UAF; inr UAF; inr UAF; inr UAF; inr UAF].
Proof. vm_compute. reflexivity. Qed.

(** the same when the first child is detached and released by ONE call (cJSON_DeleteItemFromArray), or
    replaced (cJSON_ReplaceItemInArray releases the old first child) *)
Definition exX2 (kill : CoreOps.op) : list CoreOps.op :=
  [OCreateArray; CoreOps.OCreateNumber (dbl_of_int 1); CoreOps.OCreateNumber (dbl_of_int 2);
   OAddItemToArray (IH 0) (IH 1); OAddItemToArray (IH 0) (IH 2); CoreOps.OCreateArrayReference (IH 1);
   OCreateNull;                                                (* h4 *)
   kill;
   OGetArraySize (IH 3)].
(** delete the first child / replace the first child / delete the SECOND child (which leaves the
    reference intact: it then denotes [1] alone): accepted up to the call, the query accepted?, what
    the interpreter does *)
Definition exX_kills : list CoreOps.op :=
  [ODeleteItemFromArray (IH 0) 0; OReplaceItemInArray (IH 0) 0 (IH 4); ODeleteItemFromArray (IH 0) 1].
Lemma exX2_rejected :
  (fun k => (accepted_rulesR (take 8 (exX2 k)), accepted_rulesR (exX2 k), outcome (exX2 k))) <$> exX_kills =
  [(true, false, inr UAF); (true, false, inr UAF); (true, true, inl (Some (RInt 1)))].
Proof. vm_compute. reflexivity. Qed.

(** * cost of the acceptance function: a 90-call history, 66 of them queries through reference nodes *)
Definition exQ : list CoreOps.op := take 12 (drop 12 exR) ++ take 8 (drop 28 exR) ++ take 2 (drop 39 exR).
Definition exR90 : list CoreOps.op := take 41 exR ++ exQ ++ exQ ++ drop 41 exR.
Lemma exR90_accepted : accepted_rulesR exR90 = true /\ length exR90 = 90%nat.
Proof. vm_compute. by split. Qed.
