(** Properties_C14.v — property C14: all library memory goes through the installed allocator
    hooks.  Only statements closed by [exact].

    Reading guide.  The heap monad of Heap.v records every call of [hooks->allocate] /
    [hooks->deallocate] as an event, newest first: [EvAlloc id v], [EvFree id v], [EvFreeNull v]
    where [v : via] is the function pointer that was used — [UserHook] when the corresponding
    member of [global_hooks] ([h_hooks]) is the user's, [LibcFn] when it is the default.  The
    model of cJSON.c (CoreDefs.v) contains no other way to create or release a library block
    than [alloc_node], [alloc_bytes], [free_block] (and no reallocation at all).

    [allocated tr] / [freed tr] are the identities with an [EvAlloc] / [EvFree] event in [tr].
    [tr_wf tr] is the ledger discipline: an [EvAlloc id] is the first allocation of [id]; an
    [EvFree id] has an earlier [EvAlloc id] and no earlier [EvFree id].  [trace_wf h] ties the trace
    to the allocator state: [tr_wf (h_trace h)]; identities in the trace are below [h_next h] and
    are library blocks; a library block is live iff it is allocated and not freed in the trace.
    [ev_via hk e]: the event [e] carries the [via] that the configuration [hk] prescribes.
    [tr_step h h']: [h_hooks] unchanged, [h_next] monotone, [h_trace h' = new ++ h_trace h] with
    [Forall (ev_via (h_hooks h)) new] and every identity allocated in [new] in
    [[h_next h, h_next h')], and [trace_wf h -> trace_wf h'].  [tr_ok m]: every run of [m] that
    returns is a [tr_step].

    C14 is [..._partial] where noted: which machine function a C identifier resolves to is decided
    by the linker, outside any Gallina model; that part is observed by the check with link-time
    interposition ([--wrap=malloc,free,realloc,calloc]) and a tagging allocator. *)
From stdpp Require Import gmap.
From Coq Require Import Floats.SpecFloat.
From CJ Require Import Base Dbl Tree Heap CoreDefs CoreOps SourceChecks PrintDefs.
From CJ Require Import CoreTrace CoreTraceFns CoreTraceOps CoreTracePrint.
Local Open Scope positive_scope.
Local Open Scope list_scope.

(** ** 1. cJSON_InitHooks *)

(** The call always returns; a NULL argument installs the defaults; a struct installs each member
    separately (NULL member = default); [reallocate] is available iff both members are the
    defaults; no other component of the heap changes (in particular no event is recorded). *)
Theorem init_hooks_spec : forall (a : hooks_arg) (h : heap),
  exists h', cJSON_InitHooks a h = Ret (tt, h') /\
    (a = None -> h_hooks h' = default_hooks) /\
    (forall m f, a = Some (m, f) -> hk_malloc_custom (h_hooks h') = m /\ hk_free_custom (h_hooks h') = f) /\
    (hooks_realloc_available (h_hooks h') = true <->
       hk_malloc_custom (h_hooks h') = false /\ hk_free_custom (h_hooks h') = false) /\
    h_lnk h' = h_lnk h /\ h_dat h' = h_dat h /\ h_str h' = h_str h /\ h_own h' = h_own h /\
    h_live h' = h_live h /\ h_next h' = h_next h /\ h_req h' = h_req h /\ h_trace h' = h_trace h.
Proof. exact init_hooks_spec_lemma. Qed.
Print Assumptions init_hooks_spec.

(** ** 2. the compositional invariant *)

Theorem C14_tr_ok_ret : forall A (a : A), tr_ok (ret a).
Proof. exact @tr_ok_ret. Qed.
Print Assumptions C14_tr_ok_ret.
Theorem C14_tr_ok_fail : forall A e, tr_ok (@fail A e).
Proof. exact @tr_ok_fail. Qed.
Print Assumptions C14_tr_ok_fail.
Theorem C14_tr_ok_bind : forall A B (m : M A) (f : A -> M B),
  tr_ok m -> (forall a, tr_ok (f a)) -> tr_ok (bindM m f).
Proof. exact @tr_ok_bind. Qed.
Print Assumptions C14_tr_ok_bind.
Theorem C14_tr_ok_when : forall b m, tr_ok m -> tr_ok (when b m).
Proof. exact tr_ok_when. Qed.
Print Assumptions C14_tr_ok_when.
Theorem C14_tr_ok_if : forall A (b : bool) (m1 m2 : M A), tr_ok m1 -> tr_ok m2 -> tr_ok (if b then m1 else m2).
Proof. exact @tr_ok_if. Qed.
Print Assumptions C14_tr_ok_if.

(** the allocator primitives: one event through the prescribed function ([alloc_*]: none when
    the request fails), fresh identity, ledger kept; caller memory adds no event *)
Theorem C14_tr_ok_allocator : forall oracle,
  tr_ok (alloc_node oracle) /\ (forall init, tr_ok (alloc_bytes oracle init)) /\
  (forall p, tr_ok (free_block p)) /\ (forall c, tr_ok (foreign_bytes c)).
Proof.
  exact (fun oracle => conj (tr_ok_alloc_node oracle) (conj (tr_ok_alloc_bytes oracle)
           (conj tr_ok_free_block tr_ok_foreign_bytes))).
Qed.
Print Assumptions C14_tr_ok_allocator.

(** field accesses *)
Theorem C14_tr_ok_accesses :
  (forall p, tr_ok (chk p)) /\ (forall p, tr_ok (ld_lnk p)) /\ (forall p, tr_ok (ld_dat p)) /\
  (forall p, tr_ok (ld_str p)) /\ (forall p, tr_ok (ld_cstr p)) /\
  (forall p l, tr_ok (st_lnk p l)) /\ (forall p d, tr_ok (st_dat p d)) /\ (forall p s, tr_ok (st_str p s)) /\
  (forall p, tr_ok (get_next p)) /\ (forall p, tr_ok (get_prev p)) /\ (forall p, tr_ok (get_child p)) /\
  (forall p, tr_ok (get_type p)) /\ (forall p, tr_ok (get_vstr p)) /\ (forall p, tr_ok (get_key p)) /\
  (forall p, tr_ok (get_vint p)) /\ (forall p, tr_ok (get_vdbl p)) /\
  (forall p v, tr_ok (set_next p v)) /\ (forall p v, tr_ok (set_prev p v)) /\ (forall p v, tr_ok (set_child p v)) /\
  (forall p v, tr_ok (set_type p v)) /\ (forall p v, tr_ok (set_vstr p v)) /\ (forall p v, tr_ok (set_key p v)) /\
  (forall p v, tr_ok (set_vint p v)) /\ (forall p v, tr_ok (set_vdbl p v)) /\
  tr_ok heap_fuel /\ tr_ok get_heap.
Proof. exact accesses_tr_ok. Qed.
Print Assumptions C14_tr_ok_accesses.

(** what the ledger discipline [tr_wf] says about one identity: no identity is allocated twice or
    released twice and only allocated identities are released; at a release event, the past (the
    tail of the newest-first trace) holds the allocation of that identity and no release of it,
    and the future holds neither; at an allocation event the identity occurs nowhere in the past *)
Theorem C14_ledger_meaning :
  (forall tr, tr_wf tr -> base.NoDup (allocated tr) /\ base.NoDup (freed tr) /\
                          (forall id, id ∈ freed tr -> id ∈ allocated tr)) /\
  (forall a id v b, tr_wf (a ++ EvFree id v :: b) ->
     id ∈ allocated b /\ id ∉ freed b /\ id ∉ allocated a /\ id ∉ freed a) /\
  (forall a id v b, tr_wf (a ++ EvAlloc id v :: b) -> id ∉ allocated b /\ id ∉ freed b /\ id ∉ allocated a).
Proof. exact (conj tr_wf_NoDup (conj tr_wf_free_after_alloc tr_wf_alloc_first)). Qed.
Print Assumptions C14_ledger_meaning.

(** what a step says about single events: an identity allocated by the step is at or above the
    allocator's counter before the step and was never allocated before; a block released by the
    step was allocated, is a library block, is not live afterwards, and had not been released
    before the step *)
Theorem C14_step_alloc_fresh : forall h h' new id,
  trace_wf h -> tr_step h h' -> h_trace h' = new ++ h_trace h -> id ∈ allocated new ->
  h_next h <= id /\ id ∉ allocated (h_trace h).
Proof.
  exact (fun h h' new id W S E Hid =>
           conj (tr_step_alloc_fresh h h' new id S E Hid) (tr_step_alloc_new h h' new id W S E Hid)).
Qed.
Print Assumptions C14_step_alloc_fresh.
Theorem C14_step_free_once : forall h h' new id,
  trace_wf h -> tr_step h h' -> h_trace h' = new ++ h_trace h -> id ∈ freed new ->
  id ∈ allocated (h_trace h') /\ h_own h' !! id = Some Lib /\ id ∉ h_live h' /\ id ∉ freed (h_trace h).
Proof. exact tr_step_free_once. Qed.
Print Assumptions C14_step_free_once.

(** every monadic function of CoreDefs.v other than cJSON_InitHooks (82 functions: the public
    API, the static helpers, the fuelled loops for every fuel) *)
Theorem C14_coredefs_tr_ok_all :
  (∀ (oracle : nat → bool) (init : bytes), tr_ok (cJSON_malloc oracle init)) ∧
  (∀ p : ptr, tr_ok (cJSON_free p)) ∧
  (∀ (oracle : nat → bool) (s : ptr), tr_ok (cJSON_strdup oracle s)) ∧
  (∀ oracle : nat → bool, tr_ok (cJSON_New_Item oracle)) ∧
  (∀ (fuel : nat) (item : ptr), tr_ok (cJSON_Delete_fuel fuel item)) ∧
  (∀ item : ptr, tr_ok (cJSON_Delete item)) ∧
  (∀ item : ptr, tr_ok (cJSON_IsString item)) ∧
  (∀ item : ptr, tr_ok (cJSON_IsNumber item)) ∧
  (∀ item : ptr, tr_ok (cJSON_GetStringValue item)) ∧
  (∀ item : ptr, tr_ok (cJSON_GetNumberValue item)) ∧
  (∀ (o : ptr) (n : dbl), tr_ok (cJSON_SetNumberHelper o n)) ∧
  (∀ (o : ptr) (n : dbl), tr_ok (cJSON_SetNumberValue o n)) ∧
  (∀ (o : ptr) (n : Z), tr_ok (cJSON_SetIntValue o n)) ∧
  (∀ (o : ptr) (b : bool), tr_ok (cJSON_SetBoolValue o b)) ∧
  (∀ (oracle : nat → bool) (o v : ptr), tr_ok (cJSON_SetValuestring oracle o v)) ∧
  (∀ (fuel : nat) (c : ptr) (s : Z), tr_ok (cJSON_GetArraySize_loop fuel c s)) ∧
  (∀ a : ptr, tr_ok (cJSON_GetArraySize a)) ∧
  (∀ (fuel : nat) (c : ptr) (i : Z), tr_ok (get_array_item_loop fuel c i)) ∧
  (∀ (a : ptr) (i : Z), tr_ok (get_array_item a i)) ∧
  (∀ (a : ptr) (i : Z), tr_ok (cJSON_GetArrayItem a i)) ∧
  (∀ a b : ptr, tr_ok (case_insensitive_strcmp a b)) ∧
  (∀ (fuel : nat) (c n : ptr), tr_ok (get_object_item_loop_cs fuel c n)) ∧
  (∀ (fuel : nat) (c n : ptr), tr_ok (get_object_item_loop_ci fuel c n)) ∧
  (∀ (o n : ptr) (cs : bool), tr_ok (get_object_item o n cs)) ∧
  (∀ o s : ptr, tr_ok (cJSON_GetObjectItem o s)) ∧
  (∀ o s : ptr, tr_ok (cJSON_GetObjectItemCaseSensitive o s)) ∧
  (∀ o s : ptr, tr_ok (cJSON_HasObjectItem o s)) ∧
  (∀ p i : ptr, tr_ok (suffix_object p i)) ∧
  (∀ (oracle : nat → bool) (i : ptr), tr_ok (create_reference oracle i)) ∧
  (∀ a i : ptr, tr_ok (add_item_to_array a i)) ∧
  (∀ a i : ptr, tr_ok (cJSON_AddItemToArray a i)) ∧
  (∀ (oracle : nat → bool) (o s i : ptr) (ck : bool), tr_ok (add_item_to_object oracle o s i ck)) ∧
  (∀ (oracle : nat → bool) (o s i : ptr), tr_ok (cJSON_AddItemToObject oracle o s i)) ∧
  (∀ (oracle : nat → bool) (o s i : ptr), tr_ok (cJSON_AddItemToObjectCS oracle o s i)) ∧
  (∀ (oracle : nat → bool) (a i : ptr), tr_ok (cJSON_AddItemReferenceToArray oracle a i)) ∧
  (∀ (oracle : nat → bool) (o s i : ptr), tr_ok (cJSON_AddItemReferenceToObject oracle o s i)) ∧
  (∀ (oracle : nat → bool) (ty : Z), tr_ok (create_with_type oracle ty)) ∧
  (∀ oracle : nat → bool, tr_ok (cJSON_CreateNull oracle)) ∧
  (∀ oracle : nat → bool, tr_ok (cJSON_CreateTrue oracle)) ∧
  (∀ oracle : nat → bool, tr_ok (cJSON_CreateFalse oracle)) ∧
  (∀ (oracle : nat → bool) (b : bool), tr_ok (cJSON_CreateBool oracle b)) ∧
  (∀ oracle : nat → bool, tr_ok (cJSON_CreateArray oracle)) ∧
  (∀ oracle : nat → bool, tr_ok (cJSON_CreateObject oracle)) ∧
  (∀ (oracle : nat → bool) (n : dbl), tr_ok (cJSON_CreateNumber oracle n)) ∧
  (∀ (oracle : nat → bool) (ty : Z) (s : ptr), tr_ok (create_string_like oracle ty s)) ∧
  (∀ (oracle : nat → bool) (s : ptr), tr_ok (cJSON_CreateString oracle s)) ∧
  (∀ (oracle : nat → bool) (s : ptr), tr_ok (cJSON_CreateRaw oracle s)) ∧
  (∀ (oracle : nat → bool) (s : ptr), tr_ok (cJSON_CreateStringReference oracle s)) ∧
  (∀ (oracle : nat → bool) (c : ptr), tr_ok (cJSON_CreateObjectReference oracle c)) ∧
  (∀ (oracle : nat → bool) (c : ptr), tr_ok (cJSON_CreateArrayReference oracle c)) ∧
  (∀ mk : Z → M ptr, (∀ i : Z, tr_ok (mk i)) → ∀ (rem : nat) (i : Z) (a n p : ptr), tr_ok (create_array_loop mk rem i a n p)) ∧
  (∀ (oracle : nat → bool) (mk : Z → M ptr) (nl : bool) (count : Z), (∀ i : Z, tr_ok (mk i)) → tr_ok (create_array_of oracle mk nl count)) ∧
  (∀ (A : Type) (l : list A) (i : Z), tr_ok (rd_arr l i)) ∧
  (∀ (oracle : nat → bool) (ns : option (list Z)) (c : Z), tr_ok (cJSON_CreateIntArray oracle ns c)) ∧
  (∀ (oracle : nat → bool) (ns : option (list dbl)) (c : Z), tr_ok (cJSON_CreateFloatArray oracle ns c)) ∧
  (∀ (oracle : nat → bool) (ns : option (list dbl)) (c : Z), tr_ok (cJSON_CreateDoubleArray oracle ns c)) ∧
  (∀ (oracle : nat → bool) (ss : option (list ptr)) (c : Z), tr_ok (cJSON_CreateStringArray oracle ss c)) ∧
  (∀ (oracle : nat → bool) (o n i : ptr), tr_ok (add_created_to_object oracle o n i)) ∧
  (∀ (oracle : nat → bool) (o n : ptr), tr_ok (cJSON_AddNullToObject oracle o n)) ∧
  (∀ (oracle : nat → bool) (o n : ptr), tr_ok (cJSON_AddTrueToObject oracle o n)) ∧
  (∀ (oracle : nat → bool) (o n : ptr), tr_ok (cJSON_AddFalseToObject oracle o n)) ∧
  (∀ (oracle : nat → bool) (o n : ptr) (b : bool), tr_ok (cJSON_AddBoolToObject oracle o n b)) ∧
  (∀ (oracle : nat → bool) (o n : ptr) (d : dbl), tr_ok (cJSON_AddNumberToObject oracle o n d)) ∧
  (∀ (oracle : nat → bool) (o n s : ptr), tr_ok (cJSON_AddStringToObject oracle o n s)) ∧
  (∀ (oracle : nat → bool) (o n s : ptr), tr_ok (cJSON_AddRawToObject oracle o n s)) ∧
  (∀ (oracle : nat → bool) (o n : ptr), tr_ok (cJSON_AddObjectToObject oracle o n)) ∧
  (∀ (oracle : nat → bool) (o n : ptr), tr_ok (cJSON_AddArrayToObject oracle o n)) ∧
  (∀ p i : ptr, tr_ok (cJSON_DetachItemViaPointer p i)) ∧
  (∀ (a : ptr) (w : Z), tr_ok (cJSON_DetachItemFromArray a w)) ∧
  (∀ (a : ptr) (w : Z), tr_ok (cJSON_DeleteItemFromArray a w)) ∧
  (∀ o s : ptr, tr_ok (cJSON_DetachItemFromObject o s)) ∧
  (∀ o s : ptr, tr_ok (cJSON_DetachItemFromObjectCaseSensitive o s)) ∧
  (∀ o s : ptr, tr_ok (cJSON_DeleteItemFromObject o s)) ∧
  (∀ o s : ptr, tr_ok (cJSON_DeleteItemFromObjectCaseSensitive o s)) ∧
  (∀ (a : ptr) (w : Z) (n : ptr), tr_ok (cJSON_InsertItemInArray a w n)) ∧
  (∀ p i r : ptr, tr_ok (cJSON_ReplaceItemViaPointer p i r)) ∧
  (∀ (a : ptr) (w : Z) (n : ptr), tr_ok (cJSON_ReplaceItemInArray a w n)) ∧
  (∀ (oracle : nat → bool) (o s r : ptr) (cs : bool), tr_ok (replace_item_in_object oracle o s r cs)) ∧
  (∀ (oracle : nat → bool) (o s n : ptr), tr_ok (cJSON_ReplaceItemInObject oracle o s n)) ∧
  (∀ (oracle : nat → bool) (o s n : ptr), tr_ok (cJSON_ReplaceItemInObjectCaseSensitive oracle o s n)) ∧
  (∀ (oracle : nat → bool) (dfuel lfuel : nat) (item : ptr) (depth : Z) (recurse : bool), tr_ok (cJSON_Duplicate_rec oracle dfuel lfuel item depth recurse)) ∧
  (∀ (oracle : nat → bool) (item : ptr) (recurse : bool), tr_ok (cJSON_Duplicate oracle item recurse)).
Proof. exact coredefs_tr_ok. Qed.
Print Assumptions C14_coredefs_tr_ok_all.

(** every operation of the history alphabet other than [OInitHooks], including the caller's own
    actions (declaring strings, raw field stores) and the handle sweep; hence every history
    without [OInitHooks] *)
Theorem C14_run_op_tr_ok : forall oracle st o, is_init_hooks o = false -> tr_ok (run_op oracle st o).
Proof. exact tr_ok_run_op. Qed.
Print Assumptions C14_run_op_tr_ok.
Theorem C14_run_ops_tr_ok : forall oracle ops st, no_init_hooks ops -> tr_ok (run_ops oracle st ops).
Proof. exact tr_ok_run_ops. Qed.
Print Assumptions C14_run_ops_tr_ok.

(** ** 3. histories *)

(** Both hooks custom, any allocation-failure schedule, any history of API calls that does not
    call cJSON_InitHooks, started in any heap that satisfies the ledger invariant: if the run
    returns, the configuration is unchanged; every event added is a call of the USER's
    function (no [LibcFn] event); every identity allocated is fresh; every block released
    was allocated exactly once before (by [tr_wf]: through the counterpart), had not been released,
    and is not live afterwards; the ledger invariant holds again.
    Partial: see the header (the resolution of the identifiers [malloc]/[free] is the linker's). *)
Theorem C14_trace_partial : forall oracle h ops,
  trace_wf h -> h_hooks h = mkHooks true true -> no_init_hooks ops ->
  forall st x h', run_ops oracle st ops h = Ret (x, h') ->
    h_hooks h' = h_hooks h /\
    (exists new, h_trace h' = new ++ h_trace h /\ Forall ev_user new /\
       (forall id, id ∈ allocated new -> h_next h <= id /\ id ∉ allocated (h_trace h)) /\
       (forall id, id ∈ freed new -> id ∈ allocated (h_trace h') /\ id ∉ freed (h_trace h) /\ id ∉ h_live h')) /\
    trace_wf h'.
Proof. exact history_custom. Qed.
Print Assumptions C14_trace_partial.

(** the other configurations: the events follow [h_hooks] at the time of the call.  With only
    malloc_fn set, allocations go through the user's function and releases through the C
    library's [free] (this is what cJSON_InitHooks installs, and what the check's "only one
    custom" configuration observes); symmetrically for only free_fn; defaults: C library only. *)
Theorem C14_trace_only_malloc_partial : forall oracle h ops,
  trace_wf h -> h_hooks h = mkHooks true false -> no_init_hooks ops ->
  history_events oracle ev_user_alloc_libc_free h ops.
Proof. exact history_only_malloc. Qed.
Print Assumptions C14_trace_only_malloc_partial.
Theorem C14_trace_only_free_partial : forall oracle h ops,
  trace_wf h -> h_hooks h = mkHooks false true -> no_init_hooks ops ->
  history_events oracle ev_libc_alloc_user_free h ops.
Proof. exact history_only_free. Qed.
Print Assumptions C14_trace_only_free_partial.
Theorem C14_trace_default_partial : forall oracle h ops,
  trace_wf h -> h_hooks h = default_hooks -> no_init_hooks ops ->
  history_events oracle ev_libc h ops.
Proof. exact history_default. Qed.
Print Assumptions C14_trace_default_partial.
Theorem C14_trace_any_config_partial : forall oracle h ops,
  trace_wf h -> no_init_hooks ops -> history_events oracle (ev_via (h_hooks h)) h ops.
Proof. exact history_any. Qed.
Print Assumptions C14_trace_any_config_partial.

(** Histories WITH cJSON_InitHooks calls (any operations): the added trace is the concatenation
    of one segment per operation; the events of a segment carry the [via] prescribed by the
    configuration in force when that operation starts, i.e. the one installed by the latest
    cJSON_InitHooks before it ([segs_ok] threads [hooks_after] through the history); the final
    configuration is the fold of [hooks_after]; allocated identities are fresh; the ledger
    invariant is kept. *)
Theorem C14_trace_init_hooks_partial : forall oracle ops st h x h',
  run_ops oracle st ops h = Ret (x, h') ->
  exists segs, segs_ok (h_hooks h) ops segs /\
    h_trace h' = trace_of_segs segs ++ h_trace h /\
    h_hooks h' = fold_left (fun hk o => hooks_after o hk) ops (h_hooks h) /\
    h_next h <= h_next h' /\
    (forall id, id ∈ allocated (trace_of_segs segs) -> h_next h <= id /\ id < h_next h') /\
    (trace_wf h -> trace_wf h').
Proof. exact run_ops_segments. Qed.
Print Assumptions C14_trace_init_hooks_partial.

(** the hypothesis [trace_wf h] is not a restriction: every heap reached from the empty heap by
    any history (hook changes included, any failure schedule) satisfies it *)
Theorem C14_reachable_trace_wf : forall oracle ops st x h,
  run_ops oracle st ops empty_heap = Ret (x, h) -> trace_wf h.
Proof. exact reachable_trace_wf. Qed.
Print Assumptions C14_reachable_trace_wf.

(** ** 4. realloc *)

(** CoreDefs.v has no reallocation.  The only reallocating code of the library is in the printer
    (PrintDefs.v): the buffer growth in [ensure] and the final trim in [print], both guarded by
    [hooks.reallocate != NULL] — the flag [pb_realloc] of the print buffer / the argument
    [have_realloc], which is [hooks_realloc_available] of the configuration.
    (a) with the flag off, [ensure] is [ensure_manual] (allocate, copy, deallocate; its text does
        not mention [reallocate]);
    (b) [ensure] never changes the flag, and neither does a whole [print_value] call (all node
        types, any tree), so with the flag off every [ensure] inside it is [ensure_manual];
    (c) [print] with [have_realloc = false] is [print_manual] (starts with the flag off, trims
        by allocate + memcpy + deallocate; no [reallocate] in its text);
    (d) the flag is off as soon as one hook is custom. *)
Theorem C14_no_realloc : forall fmt_d fmt_g15 fmt_g17 sscanf_lg oracle junk,
  (forall p needed, pb_realloc p = false -> ensure oracle junk p needed = ensure_manual oracle junk p needed) /\
  (forall p needed b p', ensure oracle junk p needed = Ok (b, p') -> pb_realloc p' = pb_realloc p) /\
  (forall n p b p', print_value fmt_d fmt_g15 fmt_g17 sscanf_lg oracle junk n p = Ok (b, p') ->
     pb_realloc p' = pb_realloc p) /\
  (forall item format, print fmt_d fmt_g15 fmt_g17 sscanf_lg oracle junk item format false =
                       print_manual fmt_d fmt_g15 fmt_g17 sscanf_lg oracle junk item format) /\
  (forall hk, hk_malloc_custom hk = true \/ hk_free_custom hk = true -> hooks_realloc_available hk = false).
Proof.
  exact (fun fmt_d fmt_g15 fmt_g17 sscanf_lg oracle junk =>
           conj (ensure_no_realloc oracle junk)
          (conj (ensure_keeps_flag oracle junk)
          (conj (print_value_keeps_flag fmt_d fmt_g15 fmt_g17 sscanf_lg oracle junk)
          (conj (print_no_realloc fmt_d fmt_g15 fmt_g17 sscanf_lg oracle junk) realloc_unavailable)))).
Qed.
Print Assumptions C14_no_realloc.

(** ** 5. the sources (facts regenerated from /repo on every run) *)

(** the C allocator is named only in the initialiser of [global_hooks] and in cJSON_InitHooks
    (and the MSVC wrappers); cJSON_Utils.c names no allocator function at all *)
Theorem C14_source_sites : alloc_sites_ok = true /\ utils_allocates_through_core = true.
Proof. split; reflexivity. Qed.
Print Assumptions C14_source_sites.

(** ** 6. non-vacuity *)

(** The hypotheses of [C14_trace_partial] hold for the empty heap with both hooks installed and
    the history [demo_ops] (create an object, add a string under a copied key, duplicate
    recursively, detach the member, delete the member, the original, the copy, free(NULL));
    the run returns; its trace is the 17 events below — 8 allocations and 9 releases, all
    through the user's functions, every allocated block released, ledger discipline checked by
    the (sound) boolean checker — and the final heap satisfies [trace_wf] by the theorem. *)
Theorem C14_nonvacuous :
  (trace_wf custom_heap /\ h_hooks custom_heap = mkHooks true true /\ no_init_hooks demo_ops) /\
  (exists r st h, run_ops no_failure empty_state demo_ops custom_heap = Ret (r, st, h) /\
     h_trace h =
       [ EvFreeNull UserHook;
         EvFree 7 UserHook; EvFree 8 UserHook; EvFree 10 UserHook; EvFree 9 UserHook;
         EvFree 1 UserHook;
         EvFree 4 UserHook; EvFree 6 UserHook; EvFree 5 UserHook;
         EvAlloc 10 UserHook; EvAlloc 9 UserHook; EvAlloc 8 UserHook; EvAlloc 7 UserHook;
         EvAlloc 6 UserHook; EvAlloc 5 UserHook; EvAlloc 4 UserHook; EvAlloc 1 UserHook ] /\
     trace_wf h /\ Forall ev_user (h_trace h) /\
     balanced_b (h_trace h) = true /\ tr_wf_b (h_trace h) = true).
Proof. exact demo_nonvacuous. Qed.
Print Assumptions C14_nonvacuous.

Theorem C14_tr_wf_b_sound : forall tr, tr_wf_b tr = true -> tr_wf tr.
Proof. exact tr_wf_b_sound. Qed.
Print Assumptions C14_tr_wf_b_sound.

(** a history that changes the hooks between allocation and release, from the empty heap: each
    event follows the configuration in force at its call *)
Theorem C14_switch_example :
  exists r st h, run_ops no_failure empty_state switch_ops empty_heap = Ret (r, st, h) /\
    h_trace h = [EvFree 2 LibcFn; EvAlloc 2 UserHook; EvFree 1 LibcFn; EvAlloc 1 UserHook] /\
    h_hooks h = mkHooks true false.
Proof. exact switch_trace. Qed.
Print Assumptions C14_switch_example.
