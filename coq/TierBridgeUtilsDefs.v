(** TierBridgeUtilsDefs.v — transliteration, on the heap of Heap.v and in the style of CoreDefs.v, of the two
    functions of cJSON_Utils.c that do their OWN pointer surgery on an array's children chain instead of
    calling the core API (deviation D1 of TierBridgeLemmas.v): [detach_item_from_array] ("non-broken
    cJSON_DetachItemFromArray") and [insert_item_in_array] ("non broken version of cJSON_InsertItemInArray").
    Statement by statement, same guards, same loads and stores; loops on fuel.  No proofs here.

    Two places where C leaves the order of evaluation open are resolved as CoreDefs.v resolves the same
    expressions in cJSON_DetachItemViaPointer / cJSON_InsertItemInArray:
    * [c->prev->next = c->next;]  reads [c->prev], then [c->next], then stores;
    * [c->prev = c->next = NULL;] the two stores are unsequenced with respect to each other; the model
      stores [prev] first (TierBridgeUtils.stores_commute proves that the other order gives the same heap). *)
From stdpp Require Import gmap.
From CJ Require Import Base Dbl Heap CoreDefs.
Local Open Scope Z_scope.

(** [while (c && (which > 0)) { c = c->next; which--; }]: returns [c] and [which] at loop exit *)
Fixpoint u_walk (fuel : nat) (c : ptr) (which : Z) : M (ptr * Z) :=
  match fuel with
  | O => fail NoFuel
  | S f =>
      if negb (is_null c) && (0 <? which) then
        nx <~ get_next c ;;
        u_walk f nx (which - 1)
      else ret (c, which)
  end.

(** [static cJSON *detach_item_from_array(cJSON *array, size_t which)]  ([which] is a size_t: non-negative) *)
Definition detach_item_from_array (array : ptr) (which : Z) : M ptr :=
  c0 <~ get_child array ;;                                            (* cJSON *c = array->child; *)
  fuel <~ heap_fuel ;;
  cw <~ u_walk fuel c0 which ;;
  let c := fst cw in
  if is_null c then ret None else                                      (* item doesn't exist *)
  ac <~ get_child array ;;
  when (negb (ptr_eqb c ac))                                           (* not the first element *)
       (cp <~ get_prev c ;; cn <~ get_next c ;; set_next cp cn) ;;;
  cn1 <~ get_next c ;;
  when (negb (is_null cn1))
       (cn <~ get_next c ;; cp <~ get_prev c ;; set_prev cn cp) ;;;
  ac2 <~ get_child array ;;
  (if ptr_eqb c ac2 then
     cn <~ get_next c ;; set_child array cn
   else
     cn <~ get_next c ;;
     when (is_null cn)
          (ac3 <~ get_child array ;; cp <~ get_prev c ;; set_prev ac3 cp)) ;;;
  set_prev c None ;;;                                                  (* c->prev = c->next = NULL; *)
  set_next c None ;;;
  ret c.

(** [static cJSON_bool insert_item_in_array(cJSON *array, size_t which, cJSON *newitem)] *)
Definition insert_item_in_array (array : ptr) (which : Z) (newitem : ptr) : M bool :=
  c0 <~ get_child array ;;                                            (* cJSON *child = array->child; *)
  fuel <~ heap_fuel ;;
  cw <~ u_walk fuel c0 which ;;
  let child := fst cw in
  if 0 <? snd cw then ret false else                                   (* item is after the end of the array *)
  if is_null child then
    (_ <~ cJSON_AddItemToArray array newitem ;; ret true)              (* result ignored; return 1 *)
  else
  set_next newitem child ;;;                                           (* newitem->next = child; *)
  cp <~ get_prev child ;;
  set_prev newitem cp ;;;                                              (* newitem->prev = child->prev; *)
  set_prev child newitem ;;;                                           (* child->prev = newitem; *)
  ac <~ get_child array ;;
  (if ptr_eqb child ac then set_child array newitem                    (* was it at the beginning *)
   else np <~ get_prev newitem ;; set_next np newitem) ;;;             (* newitem->prev->next = newitem; *)
  ret true.
