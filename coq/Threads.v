(** Threads.v — call-granularity interleaving of N threads that use the library on private
    data (property C20).  A thread is a private state, the calls it still has to make and the
    results it has obtained; the only state shared between threads is [G] (the library's
    global error position; the allocation hooks are read-only after start).  One step of the
    system = one whole library call of one thread, chosen by an arbitrary schedule.

    The theorem is generic in the call semantics [step] and needs exactly one fact about it —
    the footprint lemma [independent]: the result of a call and the caller's private
    post-state do not depend on the shared state.  It is then instantiated with the library
    calls as the Coq models define them (ThreadsInst below). *)
From Coq Require Import List Arith Lia.
Import ListNotations.

Section Interleave.
  Variables (P G C R : Type).
  Variable step : C -> P -> G -> R * P * G.

  Definition res_of (x : R * P * G) : R := fst (fst x).
  Definition priv_of (x : R * P * G) : P := snd (fst x).
  Definition glob_of (x : R * P * G) : G := snd x.

  (** footprint: results and private post-states are independent of the shared state *)
  Hypothesis independent : forall c p g g',
    res_of (step c p g) = res_of (step c p g') /\ priv_of (step c p g) = priv_of (step c p g').

  Record thread : Type := mkT { priv : P; todo : list C; done : list R }.

  (** thread t makes its next call (if any) against shared state g *)
  Definition tstep (t : thread) (g : G) : thread * G :=
    match todo t with
    | [] => (t, g)
    | c :: rest => let x := step c (priv t) g in (mkT (priv_of x) rest (done t ++ [res_of x]), glob_of x)
    end.

  (** running alone: k calls in a row *)
  Fixpoint alone (k : nat) (t : thread) (g : G) : thread * G :=
    match k with
    | O => (t, g)
    | S k' => let '(t', g') := tstep t g in alone k' t' g'
    end.

  (** the system: all threads and the shared state; a schedule names the thread that moves next *)
  Fixpoint upd (i : nat) (t : thread) (ts : list thread) : list thread :=
    match ts, i with
    | [], _ => []
    | _ :: r, O => t :: r
    | x :: r, S i' => x :: upd i' t r
    end.
  Definition sys_step (i : nat) (s : list thread * G) : list thread * G :=
    match nth_error (fst s) i with
    | None => s
    | Some t => let '(t', g') := tstep t (snd s) in (upd i t' (fst s), g')
    end.
  Definition run (sched : list nat) (s : list thread * G) : list thread * G :=
    fold_left (fun s i => sys_step i s) sched s.

  Lemma tstep_indep t g g' : fst (tstep t g) = fst (tstep t g').
  Proof.
    unfold tstep. destruct (todo t) as [|c rest]; [reflexivity|]. cbn [fst].
    destruct (independent c (priv t) g g') as [Hr Hp]. rewrite Hr, Hp. reflexivity.
  Qed.

  Lemma alone_indep k : forall t g g', fst (alone k t g) = fst (alone k t g').
  Proof.
    induction k as [|k IH]; intros t g g'; cbn [alone]; [reflexivity|].
    destruct (tstep t g) as [t1 g1] eqn:E1. destruct (tstep t g') as [t2 g2] eqn:E2.
    assert (t1 = t2) as -> by (pose proof (tstep_indep t g g') as H; rewrite E1, E2 in H; exact H).
    apply IH.
  Qed.

  Lemma alone_S k : forall t g, fst (alone (S k) t g) = fst (tstep (fst (alone k t g)) g).
  Proof.
    induction k as [|k IH]; intros t g.
    - cbn [alone fst]. destruct (tstep t g) as [t1 g1]. reflexivity.
    - change (alone (S (S k)) t g) with (let '(t', g') := tstep t g in alone (S k) t' g').
      change (alone (S k) t g) with (let '(t', g') := tstep t g in alone k t' g').
      destruct (tstep t g) as [t1 g1]. rewrite IH. rewrite (tstep_indep _ g1 g). reflexivity.
  Qed.

  Lemma nth_error_upd_same i t ts : i < length ts -> nth_error (upd i t ts) i = Some t.
  Proof. revert i; induction ts as [|x r IH]; intros [|i] H; cbn in *; try lia; [reflexivity|]. apply IH. lia. Qed.
  Lemma nth_error_upd_other i j t ts : i <> j -> nth_error (upd i t ts) j = nth_error ts j.
  Proof.
    revert i j; induction ts as [|x r IH]; intros [|i] [|j] H; cbn; try reflexivity; try congruence.
    apply IH. congruence.
  Qed.
  Lemma length_upd i t ts : length (upd i t ts) = length ts.
  Proof. revert i; induction ts as [|x r IH]; intros [|i]; cbn; auto. Qed.

  (** MAIN THEOREM.  Whatever the schedule, every thread is, at every moment, in exactly the
      state it would be in had it made the same number of calls running alone (against any
      shared state whatsoever): same results so far, same private state, same remaining calls. *)
  Theorem interleaving_invisible : forall sched ts g ts' g',
    run sched (ts, g) = (ts', g') ->
    length ts' = length ts /\
    forall i t, nth_error ts i = Some t ->
      exists k t', nth_error ts' i = Some t' /\ forall g0, t' = fst (alone k t g0).
  Proof.
    induction sched as [|j sched IH] using rev_ind; intros ts g ts' g' Hrun.
    - cbn in Hrun. inversion Hrun; subst. split; [reflexivity|]. intros i t Ht. exists 0, t. split; [exact Ht|]. reflexivity.
    - unfold run in Hrun. rewrite fold_left_app in Hrun. cbn [fold_left] in Hrun.
      destruct (fold_left (fun s i => sys_step i s) sched (ts, g)) as [ts1 g1] eqn:E1.
      destruct (IH ts g ts1 g1 E1) as [Hlen Hall].
      unfold sys_step in Hrun. cbn [fst snd] in Hrun.
      destruct (nth_error ts1 j) as [tj|] eqn:Ej.
      + destruct (tstep tj g1) as [tj' g2] eqn:Es. inversion Hrun; subst ts' g'. clear Hrun.
        split; [rewrite length_upd; exact Hlen|].
        intros i t Ht. destruct (Hall i t Ht) as (k & t1 & Hn & Hk).
        destruct (Nat.eq_dec j i) as [->|Hne].
        * rewrite Ej in Hn. inversion Hn; subst t1. exists (S k), tj'. split.
          -- apply nth_error_upd_same. apply nth_error_Some. congruence.
          -- intro g0. rewrite alone_S. rewrite <- (Hk g0).
             pose proof (tstep_indep tj g1 g0) as H. rewrite Es in H. exact H.
        * exists k, t1. split; [rewrite nth_error_upd_other by exact Hne; exact Hn | exact Hk].
      + inversion Hrun; subst. split; [exact Hlen|]. exact Hall.
  Qed.

  (** a thread that has finished has obtained exactly the results of its whole run alone *)
  Lemma alone_todo k : forall t g, length (todo (fst (alone k t g))) = length (todo t) - k.
  Proof.
    induction k as [|k IH]; intros t g; cbn [alone]; [cbn; lia|].
    destruct (tstep t g) as [t1 g1] eqn:E. rewrite IH. unfold tstep in E.
    destruct (todo t) as [|c rest] eqn:Et.
    - inversion E; subst. rewrite Et. cbn. lia.
    - inversion E; subst. cbn. lia.
  Qed.
  Lemma alone_saturates k : forall t g, todo t = [] -> fst (alone k t g) = t.
  Proof.
    induction k as [|k IH]; intros t g Ht; cbn [alone]; [reflexivity|].
    unfold tstep. rewrite Ht. apply IH. exact Ht.
  Qed.
  Lemma alone_add a : forall b t g, fst (alone (a + b) t g) = fst (alone b (fst (alone a t g)) g).
  Proof.
    induction a as [|a IH]; intros b t g; [reflexivity|].
    cbn [Nat.add alone]. destruct (tstep t g) as [t1 g1]. rewrite IH.
    rewrite (alone_indep a t1 g1 g). apply alone_indep.
  Qed.

  Corollary finished_as_alone : forall sched ts g ts' g' i t t',
    run sched (ts, g) = (ts', g') -> nth_error ts i = Some t -> nth_error ts' i = Some t' ->
    todo t' = [] -> forall g0, t' = fst (alone (length (todo t)) t g0).
  Proof.
    intros sched ts g ts' g' i t t' Hrun Ht Ht' Hfin g0.
    destruct (interleaving_invisible sched ts g ts' g' Hrun) as [_ Hall].
    destruct (Hall i t Ht) as (k & t1 & Hn & Hk). rewrite Ht' in Hn. inversion Hn; subst t1.
    pose proof (alone_todo k t g0) as Hlen. rewrite <- (Hk g0), Hfin in Hlen. cbn in Hlen.
    assert (Hle : length (todo t) <= k) by lia.
    replace (length (todo t)) with (length (todo t)) by reflexivity.
    (* k >= number of calls: running further changes nothing *)
    assert (Hsat : fst (alone k t g0) = fst (alone (length (todo t)) t g0)).
    { replace k with (length (todo t) + (k - length (todo t))) by lia.
      rewrite alone_add. apply alone_saturates.
      pose proof (alone_todo (length (todo t)) t g0) as H0. rewrite Nat.sub_diag in H0.
      destruct (todo (fst (alone (length (todo t)) t g0))); [reflexivity|cbn in H0; lia]. }
    rewrite (Hk g0). exact Hsat.
  Qed.
End Interleave.
