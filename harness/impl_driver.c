/* impl_driver.c — runs case files against /repo's cJSON.c + cJSON_Utils.c.
 *
 * Protocol: one case per input line, "kind arg arg ...".  For every case exactly one output
 * line "<index> <result>" is printed.  Cases are executed in a forked worker so that a
 * crash (SIGSEGV on a guard page, an ASan/UBSan abort, a timeout) of case i is reported as
 * "<i> CRASH ..." and the remaining cases still run.
 *
 * Only the public API of the library is used (no #include "cJSON.c"), so a refactoring of
 * static functions cannot break the harness.
 */
#define _GNU_SOURCE
#include <stdio.h>
#include <stdlib.h>
#include <string.h>
#include <stdint.h>
#include <unistd.h>
#include <signal.h>
#include <math.h>
#include <limits.h>
#include <float.h>
#include <sys/mman.h>
#include <sys/wait.h>
#include <sys/resource.h>
#include <pthread.h>
#include "cJSON.h"
#include "cJSON_Utils.h"

/* ------------------------------------------------------------------ output buffer */
typedef struct { char *p; size_t n, cap; } sbuf;
static void sb_init(sbuf *s) { s->cap = 256; s->n = 0; s->p = (char*)malloc(s->cap); s->p[0] = 0; }
static void sb_putn(sbuf *s, const char *t, size_t k)
{
    if (s->n + k + 1 > s->cap) { while (s->n + k + 1 > s->cap) s->cap *= 2; s->p = (char*)realloc(s->p, s->cap); }
    memcpy(s->p + s->n, t, k); s->n += k; s->p[s->n] = 0;
}
static void sb_puts(sbuf *s, const char *t) { sb_putn(s, t, strlen(t)); }
static void sb_printf(sbuf *s, const char *fmt, ...) __attribute__((format(printf, 2, 3)));
#include <stdarg.h>
static void sb_printf(sbuf *s, const char *fmt, ...)
{
    char tmp[512]; va_list ap; int k;
    va_start(ap, fmt); k = vsnprintf(tmp, sizeof tmp, fmt, ap); va_end(ap);
    if (k < 0) return;
    if ((size_t)k >= sizeof tmp) { char *big = (char*)malloc((size_t)k + 1); va_start(ap, fmt); vsnprintf(big, (size_t)k + 1, fmt, ap); va_end(ap); sb_putn(s, big, (size_t)k); free(big); }
    else sb_putn(s, tmp, (size_t)k);
}
static void sb_hex(sbuf *s, const unsigned char *b, size_t n)
{
    static const char d[] = "0123456789abcdef"; size_t i;
    if (n == 0) { sb_puts(s, "="); return; }
    for (i = 0; i < n; i++) { char t[2]; t[0] = d[b[i] >> 4]; t[1] = d[b[i] & 15]; sb_putn(s, t, 2); }
}
static void sb_hexstr(sbuf *s, const char *str) { if (!str) sb_puts(s, "-"); else sb_hex(s, (const unsigned char*)str, strlen(str)); }

/* hex token -> bytes ("=" is the empty string, "-" is NULL -> returns NULL, *n = 0) */
static unsigned char *unhex(const char *h, size_t *n)
{
    size_t len, i; unsigned char *b;
    if (strcmp(h, "-") == 0) { *n = 0; return NULL; }
    if (strcmp(h, "=") == 0) { *n = 0; b = (unsigned char*)malloc(1); b[0] = 0; return b; }
    len = strlen(h) / 2; b = (unsigned char*)malloc(len + 1);
    for (i = 0; i < len; i++) { unsigned v; sscanf(h + 2 * i, "%2x", &v); b[i] = (unsigned char)v; }
    b[len] = 0; *n = len; return b;
}

/* ------------------------------------------------------------------ guarded memory */
/* returns p with p[0..n-1] accessible and p[n] on a PROT_NONE page; *base/*maplen for unmap */
typedef struct { unsigned char *p; void *base; size_t maplen; size_t n; } gmem;
static gmem galloc(size_t n)
{
    gmem g; size_t pg = (size_t)sysconf(_SC_PAGESIZE); size_t pages = (n + pg - 1) / pg; if (pages == 0) pages = 1;
    g.maplen = (pages + 1) * pg; g.n = n;
    g.base = mmap(NULL, g.maplen, PROT_READ | PROT_WRITE, MAP_PRIVATE | MAP_ANONYMOUS, -1, 0);
    if (g.base == MAP_FAILED) { perror("mmap"); exit(3); }
    mprotect((char*)g.base + pages * pg, pg, PROT_NONE);
    g.p = (unsigned char*)g.base + pages * pg - n;
    return g;
}
static void gro(gmem *g) { size_t pg = (size_t)sysconf(_SC_PAGESIZE); mprotect(g->base, g->maplen - pg, PROT_READ); }
static void gfree(gmem *g) { munmap(g->base, g->maplen); }

/* ------------------------------------------------------------------ tracking allocator */
#define TA_MAGIC 0x5ca1ab1e0ddba11ULL
#define TA_DEAD  0xdeadbeefdeadbeefULL
typedef struct ta_hdr { uint64_t magic; size_t size; uint64_t serial; uint64_t pad; } ta_hdr;
static long ta_live, ta_allocs, ta_frees, ta_fail_at, ta_requests; /* ta_fail_at: k-th request fails (1-based), 0 = never */
static int ta_starve;   /* every request is refused while set (calls that must not need memory) */
static unsigned long ta_fail_mask; static int ta_use_mask;   /* bit k-1 set = k-th request fails (k<=64) */
static int ta_err_double, ta_err_foreign; static uint64_t ta_serial;
static long ta_live_bytes;
/* arena mode (histories that check that a call does not WRITE to memory it is only given to read): blocks come from one anonymous
   mapping and are never reused; ta_seal() makes every page handed out so far read-only and moves the bump pointer to the next page
   (blocks requested while sealed are writable), ta_unseal() makes everything writable again.  A store into a sealed block is a SIGSEGV,
   reported as the CRASH of that case. */
static unsigned char *ta_arena; static size_t ta_arena_len, ta_arena_off, ta_sealed_upto; static int ta_arena_on;
static void ta_arena_enable(void)
{
    if (!ta_arena) {
        ta_arena_len = (size_t)256 << 20;
        ta_arena = (unsigned char*)mmap(NULL, ta_arena_len, PROT_READ | PROT_WRITE, MAP_PRIVATE | MAP_ANONYMOUS | MAP_NORESERVE, -1, 0);
        if (ta_arena == MAP_FAILED) { fprintf(stderr, "arena mmap failed\n"); exit(4); }
    }
    ta_arena_off = 0; ta_sealed_upto = 0; ta_arena_on = 1;
}
static void ta_seal(void)
{
    size_t pg = (size_t)sysconf(_SC_PAGESIZE);
    if (!ta_arena_on) return;
    ta_arena_off = (ta_arena_off + pg - 1) / pg * pg;
    if (ta_arena_off) mprotect(ta_arena, ta_arena_off, PROT_READ);
    ta_sealed_upto = ta_arena_off;
}
static void ta_unseal(void)
{
    if (ta_arena_on && ta_sealed_upto) mprotect(ta_arena, ta_sealed_upto, PROT_READ | PROT_WRITE);
    ta_sealed_upto = 0;
}
static int ta_in_arena(const void *p) { return ta_arena && (const unsigned char*)p >= ta_arena && (const unsigned char*)p < ta_arena + ta_arena_len; }
static void *ta_malloc(size_t n)
{
    ta_hdr *h;
    ta_requests++;
    if (ta_starve) return NULL;
    if (ta_fail_at && ta_requests == ta_fail_at) return NULL;
    if (ta_use_mask && ta_requests <= 64 && ((ta_fail_mask >> (ta_requests - 1)) & 1UL)) return NULL;
    if (ta_arena_on) {
        size_t need = (sizeof(ta_hdr) + n + 15) & ~(size_t)15;
        if (ta_arena_off + need > ta_arena_len) return NULL;
        h = (ta_hdr*)(ta_arena + ta_arena_off); ta_arena_off += need;
    } else
    h = (ta_hdr*)malloc(sizeof(ta_hdr) + n);   /* exact size: ASan red zone right after the n bytes */
    if (!h) return NULL;
    h->magic = TA_MAGIC; h->size = n; h->serial = ++ta_serial; h->pad = 0;
    memset(h + 1, 0xA5, n);
    ta_live++; ta_allocs++; ta_live_bytes += (long)n;
    return h + 1;
}
static void ta_free(void *p)
{
    ta_hdr *h;
    if (!p) return;
    h = (ta_hdr*)p - 1;
    if (h->magic == TA_DEAD) { ta_err_double++; return; }
    if (h->magic != TA_MAGIC) { ta_err_foreign++; return; }
    h->magic = TA_DEAD; ta_live--; ta_frees++; ta_live_bytes -= (long)h->size;
    memset(h + 1, 0xDD, h->size);
    if (!ta_in_arena(h)) free(h);
}
static void ta_reset(void) { ta_live = ta_allocs = ta_frees = ta_fail_at = ta_requests = 0; ta_err_double = ta_err_foreign = 0; ta_live_bytes = 0; ta_use_mask = 0; ta_fail_mask = 0; }
static void ta_install(void) { cJSON_Hooks h; h.malloc_fn = ta_malloc; h.free_fn = ta_free; cJSON_InitHooks(&h); }
static void ta_report(sbuf *o) { sb_printf(o, " live=%ld", ta_live); if (ta_err_double) sb_printf(o, " DOUBLEFREE=%d", ta_err_double); if (ta_err_foreign) sb_printf(o, " FOREIGNFREE=%d", ta_err_foreign); }

/* ------------------------------------------------------------------ tree dump / build */
static void dump_double(sbuf *o, double d)
{
    uint64_t u; if (d != d) { sb_puts(o, "nan"); return; }
    memcpy(&u, &d, 8); sb_printf(o, "%016llx", (unsigned long long)u);
}
static double parse_double(const char *t)
{
    uint64_t u; double d; if (strcmp(t, "nan") == 0) return (double)NAN;
    u = strtoull(t, NULL, 16); memcpy(&d, &u, 8); return d;
}
/* structural walk: returns 0 if the children chain of every node satisfies the invariants */
static int links_bad(const cJSON *n, int depth)
{
    const cJSON *c, *last = NULL; int bad = 0;
    if (!n || depth > 3000) return 0;
    if ((n->type & cJSON_IsReference)) return 0; /* children are borrowed; they are walked from their owner */
    for (c = n->child; c; c = c->next) {
        if (c == n->child) { /* head: prev must designate the last child; checked below */ }
        else if (c->prev != last) bad = 1;
        last = c;
        if (links_bad(c, depth + 1)) bad = 1;
    }
    if (n->child && n->child->prev != last) bad = 1;
    return bad;
}
static void dump_node(sbuf *o, const cJSON *n, int depth)
{
    const cJSON *c; int k = 0;
    if (!n) { sb_puts(o, "NULL"); return; }
    for (c = n->child; c && depth < 3000; c = c->next) k++;
    sb_printf(o, "N %d ", n->type); sb_hexstr(o, n->valuestring); sb_printf(o, " %d ", n->valueint);
    dump_double(o, n->valuedouble); sb_puts(o, " "); sb_hexstr(o, n->string); sb_printf(o, " %d", k);
    if (depth < 3000) for (c = n->child; c; c = c->next) { sb_puts(o, " "); dump_node(o, c, depth + 1); }
}
static void dump_tree(sbuf *o, const cJSON *n)
{
    dump_node(o, n, 0);
    if (n) { if (n->next || n->prev) sb_puts(o, " ROOTLINKS"); if (links_bad(n, 0)) sb_puts(o, " LINKS=BAD"); }
}

/* foreign (caller-owned) strings for constant keys / referenced strings: plain malloc with canaries */
typedef struct fstr { struct fstr *next; unsigned char *base; unsigned char *orig; size_t len; } fstr;
static fstr *foreign_list;
static char *foreign_string(const unsigned char *b, size_t n)
{
    fstr *f = (fstr*)malloc(sizeof(fstr)); f->base = (unsigned char*)malloc(n + 1 + 16); f->len = n;
    memset(f->base, 0xC7, 8); memcpy(f->base + 8, b, n); f->base[8 + n] = 0; memset(f->base + 8 + n + 1, 0xC7, 7);
    f->orig = (unsigned char*)malloc(n + 1); memcpy(f->orig, b, n); f->orig[n] = 0;   /* the library only borrows these bytes: they must still be there at the end */
    f->next = foreign_list; foreign_list = f; return (char*)f->base + 8;
}
/* returns number of damaged foreign strings (canaries, terminator, content) and frees them */
static int foreign_release(void)
{
    int bad = 0; fstr *f = foreign_list, *nx; size_t i;
    for (; f; f = nx) { nx = f->next;
        for (i = 0; i < 8; i++) if (f->base[i] != 0xC7) bad++;
        for (i = 0; i < 7; i++) if (f->base[8 + f->len + 1 + i] != 0xC7) bad++;
        if (f->base[8 + f->len] != 0) bad++;
        if (memcmp(f->base + 8, f->orig, f->len) != 0) bad++;
        free(f->base); free(f->orig); free(f); }
    foreign_list = NULL; return bad;
}
static char *lib_string(const unsigned char *b, size_t n)
{
    char *s = (char*)cJSON_malloc(n + 1); if (!s) return NULL; memcpy(s, b, n); s[n] = 0; return s;
}
/* build a tree from tokens "N ty vs vi vd key k child..." ; *pos advances */
static cJSON *build_node(char **tok, int ntok, int *pos)
{
    cJSON *n; int ty, k, i; size_t len; unsigned char *b; cJSON *last = NULL;
    if (*pos >= ntok || strcmp(tok[*pos], "N") != 0) { fprintf(stderr, "bad tree token at %d\n", *pos); exit(4); }
    n = cJSON_CreateNull(); if (!n) { fprintf(stderr, "alloc failed in build\n"); exit(4); }
    ty = atoi(tok[*pos + 1]); n->type = ty;
    b = unhex(tok[*pos + 2], &len);
    if (b) { n->valuestring = (ty & cJSON_IsReference) ? foreign_string(b, len) : lib_string(b, len); free(b); }
    n->valueint = atoi(tok[*pos + 3]);
    n->valuedouble = parse_double(tok[*pos + 4]);
    b = unhex(tok[*pos + 5], &len);
    if (b) { n->string = (ty & cJSON_StringIsConst) ? foreign_string(b, len) : lib_string(b, len); free(b); }
    k = atoi(tok[*pos + 6]); *pos += 7;
    for (i = 0; i < k; i++) {
        cJSON *c = build_node(tok, ntok, pos);
        if (!last) { n->child = c; } else { last->next = c; c->prev = last; }
        last = c;
    }
    if (n->child) n->child->prev = last;
    return n;
}

/* ------------------------------------------------------------------ handlers */
#include "handlers.inc"

/* ------------------------------------------------------------------ main loop */
static char **split(char *line, int *n)
{
    int cap = 16, k = 0; char **v = (char**)malloc(sizeof(char*) * (size_t)cap); char *p = line;
    while (*p) {
        while (*p == ' ') p++;
        if (!*p) break;
        if (k == cap) { cap *= 2; v = (char**)realloc(v, sizeof(char*) * (size_t)cap); }
        v[k++] = p;
        while (*p && *p != ' ') p++;
        if (*p) *p++ = 0;
    }
    *n = k; return v;
}

typedef struct { volatile long cur; volatile long done; } shared_t;

int main(int argc, char **argv)
{
    char **lines = NULL; size_t nlines = 0, cap = 0; char *line = NULL; size_t lcap = 0; ssize_t r;
    shared_t *sh; long start = 0; int per_case_timeout = 20;
    (void)argc; (void)argv;
    if (getenv("VERIF_CASE_TIMEOUT")) per_case_timeout = atoi(getenv("VERIF_CASE_TIMEOUT"));
    while ((r = getline(&line, &lcap, stdin)) > 0) {
        if (line[r - 1] == '\n') line[r - 1] = 0;
        if (nlines == cap) { cap = cap ? cap * 2 : 1024; lines = (char**)realloc(lines, cap * sizeof(char*)); }
        lines[nlines++] = strdup(line);
    }
    sh = (shared_t*)mmap(NULL, sizeof(shared_t), PROT_READ | PROT_WRITE, MAP_SHARED | MAP_ANONYMOUS, -1, 0);
    while ((size_t)start < nlines) {
        pid_t pid; int status;
        sh->cur = start; sh->done = start;
        fflush(stdout);
        pid = fork();
        if (pid == 0) {
            long i;
            for (i = start; (size_t)i < nlines; i++) {
                sbuf o; int nt; char **t; char *copy = strdup(lines[i]);
                sh->cur = i;
                alarm((unsigned)per_case_timeout);
                sb_init(&o); t = split(copy, &nt);
                if (nt > 0) dispatch(t, nt, &o); else sb_puts(&o, "EMPTY");
                alarm(0);
                printf("%ld %s\n", i, o.p); fflush(stdout);
                sh->done = i + 1;
                free(o.p); free(t); free(copy);
            }
            _exit(0);
        }
        waitpid(pid, &status, 0);
        if (WIFEXITED(status) && WEXITSTATUS(status) == 0 && (size_t)sh->done >= nlines) break;
        /* the worker died while running case sh->cur (or right after it) */
        if ((size_t)sh->done >= nlines) break;
        {
            long bad = sh->done; /* first case without output */
            if (WIFSIGNALED(status)) printf("%ld CRASH signal=%d%s\n", bad, WTERMSIG(status), WTERMSIG(status) == SIGALRM ? " TIMEOUT" : "");
            else printf("%ld CRASH exit=%d\n", bad, WEXITSTATUS(status));
            fflush(stdout);
            start = bad + 1;
        }
    }
    return 0;
}
