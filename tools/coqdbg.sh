#!/bin/sh
# usage: coqdbg.sh File.v LINE  -- replaces line LINE by "Show. Abort." hmm: prints goal before that line
f=$1; n=$2
sed "${n}s/.*/  Show. admit./" $f > /tmp/D_$$.v
cd $(dirname $f) && coqc -Q . CJ /tmp/D_$$.v 2>&1 | head -${3:-60}
rm -f /tmp/D_$$.v /tmp/D_$$.vo /tmp/D_$$.glob /tmp/.D_$$.aux
