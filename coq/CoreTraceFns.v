(** CoreTraceFns.v — [tr_ok] for every function of CoreDefs.v except [cJSON_InitHooks]
    (whose exact effect is [init_hooks_spec] in CoreTraceOps.v).  One opaque lemma per function;
    fuelled functions by induction on their fuel. *)
From stdpp Require Import gmap.
From Coq Require Import Floats.SpecFloat.
From CJ Require Import Base Dbl Heap CoreDefs CoreTrace.
From CJ.gen Require Import Constants.

Section Fns.
  Variable oracle : nat → bool.

  Lemma tr_ok_cJSON_malloc init : tr_ok (cJSON_malloc oracle init).
  Proof. unfold cJSON_malloc. tr_auto. Qed.
  Lemma tr_ok_cJSON_free p : tr_ok (cJSON_free p).
  Proof. unfold cJSON_free. tr_auto. Qed.
  Hint Resolve tr_ok_cJSON_malloc tr_ok_cJSON_free : tr.

  Lemma tr_ok_cJSON_strdup s : tr_ok (cJSON_strdup oracle s).
  Proof. unfold cJSON_strdup. tr_auto. Qed.
  Lemma tr_ok_cJSON_New_Item : tr_ok (cJSON_New_Item oracle).
  Proof. unfold cJSON_New_Item. tr_auto. Qed.
  Hint Resolve tr_ok_cJSON_strdup tr_ok_cJSON_New_Item : tr.

  Lemma tr_ok_cJSON_Delete_fuel fuel : ∀ item, tr_ok (cJSON_Delete_fuel fuel item).
  Proof.
    induction fuel as [|f IH]; intros item; cbn [cJSON_Delete_fuel]; tr_auto; apply IH.
  Qed.
  Hint Resolve tr_ok_cJSON_Delete_fuel : tr.
  Lemma tr_ok_cJSON_Delete item : tr_ok (cJSON_Delete item).
  Proof. unfold cJSON_Delete. tr_auto. Qed.
  Hint Resolve tr_ok_cJSON_Delete : tr.

  (** value accessors and setters *)
  Lemma tr_ok_cJSON_IsString item : tr_ok (cJSON_IsString item).
  Proof. unfold cJSON_IsString. tr_auto. Qed.
  Lemma tr_ok_cJSON_IsNumber item : tr_ok (cJSON_IsNumber item).
  Proof. unfold cJSON_IsNumber. tr_auto. Qed.
  Hint Resolve tr_ok_cJSON_IsString tr_ok_cJSON_IsNumber : tr.
  Lemma tr_ok_cJSON_GetStringValue item : tr_ok (cJSON_GetStringValue item).
  Proof. unfold cJSON_GetStringValue. tr_auto. Qed.
  Lemma tr_ok_cJSON_GetNumberValue item : tr_ok (cJSON_GetNumberValue item).
  Proof. unfold cJSON_GetNumberValue. tr_auto. Qed.
  Lemma tr_ok_cJSON_SetNumberHelper o n : tr_ok (cJSON_SetNumberHelper o n).
  Proof. unfold cJSON_SetNumberHelper. tr_auto. Qed.
  Hint Resolve tr_ok_cJSON_SetNumberHelper : tr.
  Lemma tr_ok_cJSON_SetNumberValue o n : tr_ok (cJSON_SetNumberValue o n).
  Proof. unfold cJSON_SetNumberValue. tr_auto. Qed.
  Lemma tr_ok_cJSON_SetIntValue o n : tr_ok (cJSON_SetIntValue o n).
  Proof. unfold cJSON_SetIntValue. tr_auto. Qed.
  Lemma tr_ok_cJSON_SetBoolValue o b : tr_ok (cJSON_SetBoolValue o b).
  Proof. unfold cJSON_SetBoolValue. tr_auto. Qed.
  Lemma tr_ok_cJSON_SetValuestring o v : tr_ok (cJSON_SetValuestring oracle o v).
  Proof. unfold cJSON_SetValuestring. tr_auto. Qed.

  (** queries *)
  Lemma tr_ok_cJSON_GetArraySize_loop fuel : ∀ c s, tr_ok (cJSON_GetArraySize_loop fuel c s).
  Proof. induction fuel as [|f IH]; intros c s; cbn [cJSON_GetArraySize_loop]; tr_auto; apply IH. Qed.
  Hint Resolve tr_ok_cJSON_GetArraySize_loop : tr.
  Lemma tr_ok_cJSON_GetArraySize a : tr_ok (cJSON_GetArraySize a).
  Proof. unfold cJSON_GetArraySize. tr_auto. Qed.
  Lemma tr_ok_get_array_item_loop fuel : ∀ c i, tr_ok (get_array_item_loop fuel c i).
  Proof. induction fuel as [|f IH]; intros c i; cbn [get_array_item_loop]; tr_auto; apply IH. Qed.
  Hint Resolve tr_ok_get_array_item_loop : tr.
  Lemma tr_ok_get_array_item a i : tr_ok (get_array_item a i).
  Proof. unfold get_array_item. tr_auto. Qed.
  Hint Resolve tr_ok_get_array_item : tr.
  Lemma tr_ok_cJSON_GetArrayItem a i : tr_ok (cJSON_GetArrayItem a i).
  Proof. unfold cJSON_GetArrayItem. tr_auto. Qed.
  Lemma tr_ok_case_insensitive_strcmp a b : tr_ok (case_insensitive_strcmp a b).
  Proof. unfold case_insensitive_strcmp. tr_auto. Qed.
  Hint Resolve tr_ok_case_insensitive_strcmp : tr.
  Lemma tr_ok_get_object_item_loop_cs fuel : ∀ c n, tr_ok (get_object_item_loop_cs fuel c n).
  Proof. induction fuel as [|f IH]; intros c n; cbn [get_object_item_loop_cs]; tr_auto; apply IH. Qed.
  Lemma tr_ok_get_object_item_loop_ci fuel : ∀ c n, tr_ok (get_object_item_loop_ci fuel c n).
  Proof. induction fuel as [|f IH]; intros c n; cbn [get_object_item_loop_ci]; tr_auto; apply IH. Qed.
  Hint Resolve tr_ok_get_object_item_loop_cs tr_ok_get_object_item_loop_ci : tr.
  Lemma tr_ok_get_object_item o n cs : tr_ok (get_object_item o n cs).
  Proof. unfold get_object_item. tr_auto. Qed.
  Hint Resolve tr_ok_get_object_item : tr.
  Lemma tr_ok_cJSON_GetObjectItem o s : tr_ok (cJSON_GetObjectItem o s).
  Proof. unfold cJSON_GetObjectItem. tr_auto. Qed.
  Lemma tr_ok_cJSON_GetObjectItemCaseSensitive o s : tr_ok (cJSON_GetObjectItemCaseSensitive o s).
  Proof. unfold cJSON_GetObjectItemCaseSensitive. tr_auto. Qed.
  Hint Resolve tr_ok_cJSON_GetObjectItem tr_ok_cJSON_GetObjectItemCaseSensitive : tr.
  Lemma tr_ok_cJSON_HasObjectItem o s : tr_ok (cJSON_HasObjectItem o s).
  Proof. unfold cJSON_HasObjectItem. tr_auto. Qed.

  (** list handling *)
  Lemma tr_ok_suffix_object p i : tr_ok (suffix_object p i).
  Proof. unfold suffix_object. tr_auto. Qed.
  Hint Resolve tr_ok_suffix_object : tr.
  Lemma tr_ok_create_reference i : tr_ok (create_reference oracle i).
  Proof. unfold create_reference. tr_auto. Qed.
  Hint Resolve tr_ok_create_reference : tr.
  Lemma tr_ok_add_item_to_array a i : tr_ok (add_item_to_array a i).
  Proof. unfold add_item_to_array. tr_auto. Qed.
  Hint Resolve tr_ok_add_item_to_array : tr.
  Lemma tr_ok_cJSON_AddItemToArray a i : tr_ok (cJSON_AddItemToArray a i).
  Proof. unfold cJSON_AddItemToArray. tr_auto. Qed.
  Hint Resolve tr_ok_cJSON_AddItemToArray : tr.
  Lemma tr_ok_add_item_to_object o s i ck : tr_ok (add_item_to_object oracle o s i ck).
  Proof. unfold add_item_to_object. tr_auto. Qed.
  Hint Resolve tr_ok_add_item_to_object : tr.
  Lemma tr_ok_cJSON_AddItemToObject o s i : tr_ok (cJSON_AddItemToObject oracle o s i).
  Proof. unfold cJSON_AddItemToObject. tr_auto. Qed.
  Lemma tr_ok_cJSON_AddItemToObjectCS o s i : tr_ok (cJSON_AddItemToObjectCS oracle o s i).
  Proof. unfold cJSON_AddItemToObjectCS. tr_auto. Qed.
  Lemma tr_ok_cJSON_AddItemReferenceToArray a i : tr_ok (cJSON_AddItemReferenceToArray oracle a i).
  Proof. unfold cJSON_AddItemReferenceToArray. tr_auto. Qed.
  Lemma tr_ok_cJSON_AddItemReferenceToObject o s i : tr_ok (cJSON_AddItemReferenceToObject oracle o s i).
  Proof. unfold cJSON_AddItemReferenceToObject. tr_auto. Qed.

  (** constructors *)
  Lemma tr_ok_create_with_type ty : tr_ok (create_with_type oracle ty).
  Proof. unfold create_with_type. tr_auto. Qed.
  Hint Resolve tr_ok_create_with_type : tr.
  Lemma tr_ok_cJSON_CreateNull : tr_ok (cJSON_CreateNull oracle).
  Proof. unfold cJSON_CreateNull. tr_auto. Qed.
  Lemma tr_ok_cJSON_CreateTrue : tr_ok (cJSON_CreateTrue oracle).
  Proof. unfold cJSON_CreateTrue. tr_auto. Qed.
  Lemma tr_ok_cJSON_CreateFalse : tr_ok (cJSON_CreateFalse oracle).
  Proof. unfold cJSON_CreateFalse. tr_auto. Qed.
  Lemma tr_ok_cJSON_CreateBool b : tr_ok (cJSON_CreateBool oracle b).
  Proof. unfold cJSON_CreateBool. tr_auto. Qed.
  Lemma tr_ok_cJSON_CreateArray : tr_ok (cJSON_CreateArray oracle).
  Proof. unfold cJSON_CreateArray. tr_auto. Qed.
  Lemma tr_ok_cJSON_CreateObject : tr_ok (cJSON_CreateObject oracle).
  Proof. unfold cJSON_CreateObject. tr_auto. Qed.
  Lemma tr_ok_cJSON_CreateNumber n : tr_ok (cJSON_CreateNumber oracle n).
  Proof. unfold cJSON_CreateNumber. tr_auto. Qed.
  Hint Resolve tr_ok_cJSON_CreateNull tr_ok_cJSON_CreateTrue tr_ok_cJSON_CreateFalse tr_ok_cJSON_CreateBool
    tr_ok_cJSON_CreateArray tr_ok_cJSON_CreateObject tr_ok_cJSON_CreateNumber : tr.
  Lemma tr_ok_create_string_like ty s : tr_ok (create_string_like oracle ty s).
  Proof. unfold create_string_like. tr_auto. Qed.
  Hint Resolve tr_ok_create_string_like : tr.
  Lemma tr_ok_cJSON_CreateString s : tr_ok (cJSON_CreateString oracle s).
  Proof. unfold cJSON_CreateString. tr_auto. Qed.
  Lemma tr_ok_cJSON_CreateRaw s : tr_ok (cJSON_CreateRaw oracle s).
  Proof. unfold cJSON_CreateRaw. tr_auto. Qed.
  Hint Resolve tr_ok_cJSON_CreateString tr_ok_cJSON_CreateRaw : tr.
  Lemma tr_ok_cJSON_CreateStringReference s : tr_ok (cJSON_CreateStringReference oracle s).
  Proof. unfold cJSON_CreateStringReference. tr_auto. Qed.
  Lemma tr_ok_cJSON_CreateObjectReference c : tr_ok (cJSON_CreateObjectReference oracle c).
  Proof. unfold cJSON_CreateObjectReference. tr_auto. Qed.
  Lemma tr_ok_cJSON_CreateArrayReference c : tr_ok (cJSON_CreateArrayReference oracle c).
  Proof. unfold cJSON_CreateArrayReference. tr_auto. Qed.

  Lemma tr_ok_create_array_loop mk : (∀ i, tr_ok (mk i)) →
    ∀ rem i a n p, tr_ok (create_array_loop mk rem i a n p).
  Proof.
    intros Hmk rem. induction rem as [|r IH]; intros i a n p; cbn [create_array_loop]; tr_auto;
      first [apply Hmk | apply IH].
  Qed.
  Lemma tr_ok_create_array_of mk nl count : (∀ i, tr_ok (mk i)) → tr_ok (create_array_of oracle mk nl count).
  Proof.
    intros Hmk. pose proof (tr_ok_create_array_loop mk Hmk) as Hloop.
    unfold create_array_of. tr_auto; apply Hloop.
  Qed.
  Lemma tr_ok_rd_arr {A} (l : list A) i : tr_ok (rd_arr l i).
  Proof. unfold rd_arr. tr_auto. Qed.
  Hint Resolve tr_ok_rd_arr : tr.
  Lemma tr_ok_cJSON_CreateIntArray ns c : tr_ok (cJSON_CreateIntArray oracle ns c).
  Proof. unfold cJSON_CreateIntArray. apply tr_ok_create_array_of. intros i. tr_auto. Qed.
  Lemma tr_ok_cJSON_CreateFloatArray ns c : tr_ok (cJSON_CreateFloatArray oracle ns c).
  Proof. unfold cJSON_CreateFloatArray. apply tr_ok_create_array_of. intros i. tr_auto. Qed.
  Lemma tr_ok_cJSON_CreateDoubleArray ns c : tr_ok (cJSON_CreateDoubleArray oracle ns c).
  Proof. unfold cJSON_CreateDoubleArray. apply tr_ok_create_array_of. intros i. tr_auto. Qed.
  Lemma tr_ok_cJSON_CreateStringArray ss c : tr_ok (cJSON_CreateStringArray oracle ss c).
  Proof. unfold cJSON_CreateStringArray. apply tr_ok_create_array_of. intros i. tr_auto. Qed.

  (** cJSON_Add...ToObject helpers *)
  Lemma tr_ok_add_created_to_object o n i : tr_ok (add_created_to_object oracle o n i).
  Proof. unfold add_created_to_object. tr_auto. Qed.
  Hint Resolve tr_ok_add_created_to_object : tr.
  Lemma tr_ok_cJSON_AddNullToObject o n : tr_ok (cJSON_AddNullToObject oracle o n).
  Proof. unfold cJSON_AddNullToObject. tr_auto. Qed.
  Lemma tr_ok_cJSON_AddTrueToObject o n : tr_ok (cJSON_AddTrueToObject oracle o n).
  Proof. unfold cJSON_AddTrueToObject. tr_auto. Qed.
  Lemma tr_ok_cJSON_AddFalseToObject o n : tr_ok (cJSON_AddFalseToObject oracle o n).
  Proof. unfold cJSON_AddFalseToObject. tr_auto. Qed.
  Lemma tr_ok_cJSON_AddBoolToObject o n b : tr_ok (cJSON_AddBoolToObject oracle o n b).
  Proof. unfold cJSON_AddBoolToObject. tr_auto. Qed.
  Lemma tr_ok_cJSON_AddNumberToObject o n d : tr_ok (cJSON_AddNumberToObject oracle o n d).
  Proof. unfold cJSON_AddNumberToObject. tr_auto. Qed.
  Lemma tr_ok_cJSON_AddStringToObject o n s : tr_ok (cJSON_AddStringToObject oracle o n s).
  Proof. unfold cJSON_AddStringToObject. tr_auto. Qed.
  Lemma tr_ok_cJSON_AddRawToObject o n s : tr_ok (cJSON_AddRawToObject oracle o n s).
  Proof. unfold cJSON_AddRawToObject. tr_auto. Qed.
  Lemma tr_ok_cJSON_AddObjectToObject o n : tr_ok (cJSON_AddObjectToObject oracle o n).
  Proof. unfold cJSON_AddObjectToObject. tr_auto. Qed.
  Lemma tr_ok_cJSON_AddArrayToObject o n : tr_ok (cJSON_AddArrayToObject oracle o n).
  Proof. unfold cJSON_AddArrayToObject. tr_auto. Qed.

  (** detach / delete *)
  Lemma tr_ok_cJSON_DetachItemViaPointer p i : tr_ok (cJSON_DetachItemViaPointer p i).
  Proof. unfold cJSON_DetachItemViaPointer. tr_auto. Qed.
  Hint Resolve tr_ok_cJSON_DetachItemViaPointer : tr.
  Lemma tr_ok_cJSON_DetachItemFromArray a w : tr_ok (cJSON_DetachItemFromArray a w).
  Proof. unfold cJSON_DetachItemFromArray. tr_auto. Qed.
  Hint Resolve tr_ok_cJSON_DetachItemFromArray : tr.
  Lemma tr_ok_cJSON_DeleteItemFromArray a w : tr_ok (cJSON_DeleteItemFromArray a w).
  Proof. unfold cJSON_DeleteItemFromArray. tr_auto. Qed.
  Lemma tr_ok_cJSON_DetachItemFromObject o s : tr_ok (cJSON_DetachItemFromObject o s).
  Proof. unfold cJSON_DetachItemFromObject. tr_auto. Qed.
  Lemma tr_ok_cJSON_DetachItemFromObjectCaseSensitive o s : tr_ok (cJSON_DetachItemFromObjectCaseSensitive o s).
  Proof. unfold cJSON_DetachItemFromObjectCaseSensitive. tr_auto. Qed.
  Hint Resolve tr_ok_cJSON_DetachItemFromObject tr_ok_cJSON_DetachItemFromObjectCaseSensitive : tr.
  Lemma tr_ok_cJSON_DeleteItemFromObject o s : tr_ok (cJSON_DeleteItemFromObject o s).
  Proof. unfold cJSON_DeleteItemFromObject. tr_auto. Qed.
  Lemma tr_ok_cJSON_DeleteItemFromObjectCaseSensitive o s : tr_ok (cJSON_DeleteItemFromObjectCaseSensitive o s).
  Proof. unfold cJSON_DeleteItemFromObjectCaseSensitive. tr_auto. Qed.

  (** insert / replace *)
  Lemma tr_ok_cJSON_InsertItemInArray a w n : tr_ok (cJSON_InsertItemInArray a w n).
  Proof. unfold cJSON_InsertItemInArray. tr_auto. Qed.
  Lemma tr_ok_cJSON_ReplaceItemViaPointer p i r : tr_ok (cJSON_ReplaceItemViaPointer p i r).
  Proof. unfold cJSON_ReplaceItemViaPointer. tr_auto. Qed.
  Hint Resolve tr_ok_cJSON_ReplaceItemViaPointer : tr.
  Lemma tr_ok_cJSON_ReplaceItemInArray a w n : tr_ok (cJSON_ReplaceItemInArray a w n).
  Proof. unfold cJSON_ReplaceItemInArray. tr_auto. Qed.
  Lemma tr_ok_replace_item_in_object o s r cs : tr_ok (replace_item_in_object oracle o s r cs).
  Proof. unfold replace_item_in_object. tr_auto. Qed.
  Hint Resolve tr_ok_replace_item_in_object : tr.
  Lemma tr_ok_cJSON_ReplaceItemInObject o s n : tr_ok (cJSON_ReplaceItemInObject oracle o s n).
  Proof. unfold cJSON_ReplaceItemInObject. tr_auto. Qed.
  Lemma tr_ok_cJSON_ReplaceItemInObjectCaseSensitive o s n : tr_ok (cJSON_ReplaceItemInObjectCaseSensitive oracle o s n).
  Proof. unfold cJSON_ReplaceItemInObjectCaseSensitive. tr_auto. Qed.

  (** duplication: induction on the depth fuel, inner induction on the sibling-loop fuel *)
  Lemma tr_ok_cJSON_Duplicate_rec dfuel : ∀ lfuel item depth recurse,
    tr_ok (cJSON_Duplicate_rec oracle dfuel lfuel item depth recurse).
  Proof.
    induction dfuel as [|df IH]; intros lfuel item depth recurse; cbn [cJSON_Duplicate_rec].
    - tr_auto.
    - tr_auto.
      (* the remaining goal is the sibling loop *)
      lazymatch goal with
      | |- tr_ok (?F lfuel ?c ?n ?nc) =>
          cut (∀ lf c' n' nc', tr_ok (F lf c' n' nc')); [intros Hloop; apply Hloop|];
          let lf := fresh "lf" in let IHlf := fresh "IHlf" in
          intros lf; induction lf as [|lf IHlf]; intros c' n' nc';
          cbv beta iota fix; tr_auto; first [apply IH | apply IHlf]
      end.
  Qed.
  Hint Resolve tr_ok_cJSON_Duplicate_rec : tr.
  Lemma tr_ok_cJSON_Duplicate item recurse : tr_ok (cJSON_Duplicate oracle item recurse).
  Proof. unfold cJSON_Duplicate. tr_auto. Qed.
End Fns.

Global Hint Resolve
  tr_ok_cJSON_malloc tr_ok_cJSON_free tr_ok_cJSON_strdup tr_ok_cJSON_New_Item tr_ok_cJSON_Delete_fuel
  tr_ok_cJSON_Delete tr_ok_cJSON_IsString tr_ok_cJSON_IsNumber tr_ok_cJSON_GetStringValue
  tr_ok_cJSON_GetNumberValue tr_ok_cJSON_SetNumberHelper tr_ok_cJSON_SetNumberValue tr_ok_cJSON_SetIntValue
  tr_ok_cJSON_SetBoolValue tr_ok_cJSON_SetValuestring tr_ok_cJSON_GetArraySize_loop tr_ok_cJSON_GetArraySize
  tr_ok_get_array_item_loop tr_ok_get_array_item tr_ok_cJSON_GetArrayItem tr_ok_case_insensitive_strcmp
  tr_ok_get_object_item_loop_cs tr_ok_get_object_item_loop_ci tr_ok_get_object_item
  tr_ok_cJSON_GetObjectItem tr_ok_cJSON_GetObjectItemCaseSensitive tr_ok_cJSON_HasObjectItem
  tr_ok_suffix_object tr_ok_create_reference tr_ok_add_item_to_array tr_ok_cJSON_AddItemToArray
  tr_ok_add_item_to_object tr_ok_cJSON_AddItemToObject tr_ok_cJSON_AddItemToObjectCS
  tr_ok_cJSON_AddItemReferenceToArray tr_ok_cJSON_AddItemReferenceToObject tr_ok_create_with_type
  tr_ok_cJSON_CreateNull tr_ok_cJSON_CreateTrue tr_ok_cJSON_CreateFalse tr_ok_cJSON_CreateBool
  tr_ok_cJSON_CreateArray tr_ok_cJSON_CreateObject tr_ok_cJSON_CreateNumber tr_ok_create_string_like
  tr_ok_cJSON_CreateString tr_ok_cJSON_CreateRaw tr_ok_cJSON_CreateStringReference
  tr_ok_cJSON_CreateObjectReference tr_ok_cJSON_CreateArrayReference
  tr_ok_cJSON_CreateIntArray tr_ok_cJSON_CreateFloatArray tr_ok_cJSON_CreateDoubleArray
  tr_ok_cJSON_CreateStringArray tr_ok_add_created_to_object tr_ok_cJSON_AddNullToObject
  tr_ok_cJSON_AddTrueToObject tr_ok_cJSON_AddFalseToObject tr_ok_cJSON_AddBoolToObject
  tr_ok_cJSON_AddNumberToObject tr_ok_cJSON_AddStringToObject tr_ok_cJSON_AddRawToObject
  tr_ok_cJSON_AddObjectToObject tr_ok_cJSON_AddArrayToObject tr_ok_cJSON_DetachItemViaPointer
  tr_ok_cJSON_DetachItemFromArray tr_ok_cJSON_DeleteItemFromArray tr_ok_cJSON_DetachItemFromObject
  tr_ok_cJSON_DetachItemFromObjectCaseSensitive tr_ok_cJSON_DeleteItemFromObject
  tr_ok_cJSON_DeleteItemFromObjectCaseSensitive tr_ok_cJSON_InsertItemInArray
  tr_ok_cJSON_ReplaceItemViaPointer tr_ok_cJSON_ReplaceItemInArray tr_ok_replace_item_in_object
  tr_ok_cJSON_ReplaceItemInObject tr_ok_cJSON_ReplaceItemInObjectCaseSensitive
  tr_ok_cJSON_Duplicate_rec tr_ok_cJSON_Duplicate tr_ok_rd_arr : tr.
