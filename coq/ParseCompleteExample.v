(** ParseCompleteExample.v — non-vacuity of C02: a concrete RFC 8259 text (BOM, whitespace,
    nested containers, duplicate keys, every escape kind, a \uXXXX escape, a surrogate pair,
    several number spellings), its derivation in the grammar, and the result of the parser
    specification on it. *)
From CJ Require Import Base Dbl Tree LibcNum ParseDefs ParseSpec Grammar ParseComplete.
Local Open Scope Z_scope.

(** the string literal body: the escapes quote, backslash, slash, b, f, n, r, t, then u00e9,
    the surrogate pair ud83d uDE00 (U+1F600) and a raw x; and the bytes it denotes *)
Definition ex_str_body : bytes :=
  92 :: 34 :: 92 :: 92 :: 92 :: 47 :: 92 :: 98 :: 92 :: 102 :: 92 :: 110 :: 92 :: 114 :: 92 :: 116 ::
  92 :: 117 :: 48 :: 48 :: 101 :: 57 ::
  92 :: 117 :: 100 :: 56 :: 51 :: 100 :: 92 :: 117 :: 68 :: 69 :: 48 :: 48 ::
  120 :: [].
Definition ex_str_val : bytes :=
  34 :: 92 :: 47 :: 8 :: 12 :: 10 :: 13 :: 9 ::
  (utf8_of_codepoint 233 ++ (utf8_of_codepoint (pair_codepoint 55357 56832) ++ (120 :: []))).

Lemma ex_str_val_bytes : ex_str_val = [34; 92; 47; 8; 12; 10; 13; 9; 195; 169; 240; 159; 152; 128; 120].
Proof. reflexivity. Qed.

Lemma ex_str_chars : chars rfc_raw ex_str_body ex_str_val.
Proof.
  unfold ex_str_body, ex_str_val.
  do 8 (apply ch_esc; [reflexivity|]).
  apply (ch_u rfc_raw 48 48 101 57 233); [reflexivity|reflexivity|reflexivity|].
  apply (ch_pair rfc_raw 100 56 51 100 68 69 48 48 55357 56832); [reflexivity|reflexivity|reflexivity|reflexivity|].
  apply ch_raw; [discriminate|discriminate|reflexivity|].
  apply ch_nil.
Qed.

(** [1,-0.5e+2 , true,false,null] *)
Definition ex_num1 : bytes := [49].
Definition ex_num2 : bytes := [45; 48; 46; 53; 101; 43; 50].
Definition ex_arr_body : bytes :=
  [] ++ ex_num1 ++ [] ++ 44 ::
  ([] ++ ex_num2 ++ [32] ++ 44 ::
  ([32] ++ [116; 114; 117; 101] ++ [] ++ 44 ::
  ([] ++ [102; 97; 108; 115; 101] ++ [] ++ 44 ::
  ([] ++ [110; 117; 108; 108] ++ [])))).
Definition ex_arr : bytes := 91 :: ex_arr_body ++ [93].
Definition ex_arr_v : jv := JArr [JNum ex_num1; JNum ex_num2; JBool true; JBool false; JNull].

(** an object with the members a (the array), a again (the string), b (empty object),
    c (empty array with a blank inside), with whitespace in various places *)
Definition ex_obj_body : bytes :=
  [] ++ 34 :: [97] ++ 34 :: [] ++ 58 :: [] ++ ex_arr ++ [] ++ 44 ::
  ([] ++ 34 :: [97] ++ 34 :: [32] ++ 58 :: [32] ++ (34 :: ex_str_body ++ [34]) ++ [] ++ 44 ::
  ([10] ++ 34 :: [98] ++ 34 :: [] ++ 58 :: [] ++ (123 :: [] ++ [125]) ++ [] ++ 44 ::
  ([32] ++ 34 :: [99] ++ 34 :: [] ++ 58 :: [] ++ (91 :: [32] ++ [93]) ++ [32]))).
Definition ex_obj : bytes := 123 :: ex_obj_body ++ [125].
Definition ex_v : jv :=
  JObj [([97], ex_arr_v); ([97], JStr ex_str_val); ([98], JObj []); ([99], JArr [])].

(** BOM, space, LF, the object, space, LF *)
Definition ex_txt : bytes := [239; 187; 191] ++ [32; 10] ++ ex_obj ++ [32; 10].

Lemma ex_txt_bytes : ex_txt =
  [239; 187; 191; 32; 10;
   123; 34; 97; 34; 58; 91; 49; 44; 45; 48; 46; 53; 101; 43; 50; 32; 44; 32; 116; 114; 117; 101; 44;
   102; 97; 108; 115; 101; 44; 110; 117; 108; 108; 93; 44;
   34; 97; 34; 32; 58; 32; 34; 92; 34; 92; 92; 92; 47; 92; 98; 92; 102; 92; 110; 92; 114; 92; 116;
   92; 117; 48; 48; 101; 57; 92; 117; 100; 56; 51; 100; 92; 117; 68; 69; 48; 48; 120; 34; 44;
   10; 34; 98; 34; 58; 123; 125; 44; 32; 34; 99; 34; 58; 91; 32; 93; 32; 125; 32; 10].
Proof. reflexivity. Qed.

Lemma ex_arr_value d : RFC_value (S d) ex_arr ex_arr_v.
Proof.
  unfold ex_arr, ex_arr_v, ex_arr_body. apply v_arr.
  apply e_cons; [reflexivity|apply v_num; reflexivity|reflexivity|].
  apply e_cons; [reflexivity|apply v_num; reflexivity|reflexivity|].
  apply e_cons; [reflexivity|apply v_true|reflexivity|].
  apply e_cons; [reflexivity|apply v_false|reflexivity|].
  apply e_one; [reflexivity|apply v_null|reflexivity].
Qed.

Lemma ex_obj_value d : RFC_value (S (S d)) ex_obj ex_v.
Proof.
  unfold ex_obj, ex_v, ex_obj_body. apply v_obj.
  apply m_cons; [reflexivity|apply ch_raw; [discriminate|discriminate|reflexivity|apply ch_nil]
                |reflexivity|reflexivity|apply ex_arr_value|reflexivity|].
  apply m_cons; [reflexivity|apply ch_raw; [discriminate|discriminate|reflexivity|apply ch_nil]
                |reflexivity|reflexivity|apply v_str; exact ex_str_chars|reflexivity|].
  apply m_cons; [reflexivity|apply ch_raw; [discriminate|discriminate|reflexivity|apply ch_nil]
                |reflexivity|reflexivity|apply v_obj0; reflexivity|reflexivity|].
  apply m_one; [reflexivity|apply ch_raw; [discriminate|discriminate|reflexivity|apply ch_nil]
               |reflexivity|reflexivity|apply v_arr0; reflexivity|reflexivity].
Qed.

Lemma ex_text : RFC_text ex_txt ex_v.
Proof.
  exists [239; 187; 191], [32; 10], ex_obj, [32; 10].
  split; [reflexivity|]. split; [right; reflexivity|]. split; [reflexivity|]. split; [reflexivity|].
  (* nesting_limit = S (S _) whatever CJSON_NESTING_LIMIT >= 2 the source under test defines *)
  replace nesting_limit with (S (S (Nat.pred (Nat.pred nesting_limit)))) by (vm_compute; reflexivity).
  apply ex_obj_value.
Qed.

Lemma ex_ok : jv_ok ex_v.
Proof.
  unfold ex_v, ex_arr_v. rewrite ex_str_val_bytes. cbn [jv_ok ex_num1 ex_num2 length].
  repeat split; try lia; repeat constructor; discriminate.
Qed.

Lemma ex_parse :
  text_l strtod_ref ex_txt false = Some (tree_of strtod_ref ex_v, [32; 10]) /\
  text_l strtod_ref (ex_txt ++ [0]) true = Some (tree_of strtod_ref ex_v, [0]).
Proof. split; vm_compute; reflexivity. Qed.

(** the tree, spelled out: numbers 1 and -50 with their int views, the decoded string *)
Lemma ex_tree : tree_of strtod_ref ex_v =
  Node c_cJSON_Object None 0 dzero None
    [Node c_cJSON_Array None 0 dzero (Some [97])
       [Node c_cJSON_Number None 1 (S754_finite false 4503599627370496 (-52)) None [];
        Node c_cJSON_Number None (-50) (S754_finite true 7036874417766400 (-47)) None [];
        Node c_cJSON_True None 1 dzero None [];
        Node c_cJSON_False None 0 dzero None [];
        Node c_cJSON_NULL None 0 dzero None []];
     Node c_cJSON_String (Some [34; 92; 47; 8; 12; 10; 13; 9; 195; 169; 240; 159; 152; 128; 120]) 0 dzero (Some [97]) [];
     Node c_cJSON_Object None 0 dzero (Some [98]) [];
     Node c_cJSON_Array None 0 dzero (Some [99]) []].
Proof. vm_compute. reflexivity. Qed.

Theorem complete_nonvacuous :
  strtod_rfc strtod_ref /\ RFC_text ex_txt ex_v /\ jv_ok ex_v /\
  text_l strtod_ref ex_txt false = Some (tree_of strtod_ref ex_v, [32; 10]) /\
  text_l strtod_ref (ex_txt ++ [0]) true = Some (tree_of strtod_ref ex_v, [0]).
Proof.
  split; [exact strtod_ref_rfc|]. split; [exact ex_text|]. split; [exact ex_ok|]. exact ex_parse.
Qed.
