(** CoreRefineDupForest.v — [cJSON_Duplicate] on a heap that encodes a forest ([WF h F]):

    * [Done_WF], [Done_NoLeak]: after a successful call the heap encodes [F ++ [tc]];
    * [Failed_WF] …: after a failed call it still encodes [F], the ledger is unchanged;
    * [src_t_of_WF]: a subtree of the forest whose nodes carry no borrowed child pointer
      is read by the duplication as itself;
    * [dup_copy] (property C11, first part; C08 for duplication), [dup_copy_no_failure];
    * [dup_independent]: ownership of copy and forest are disjoint, the old encoding is
      untouched, deleting the copy gives the ledger of the original heap back. *)
From CJ Require Import Base Dbl Heap Forest ForestLemmas CoreSpec CoreDefs CoreRefineBase CoreRefine CoreRefineDelete
  CoreRefineDupBase CoreRefineDupTree CoreRefineDupNode CoreRefineDupLoop CoreRefineDup.
From CJ.gen Require Import Constants.
From stdpp Require Import gmap.
From Coq Require Import Lia.

Implicit Types (g h : heap) (i n b : positive) (d : rdata) (ts cs : list tree) (F : forest).

(** * what a frame preserves *)
Lemma Ext_preserves ns ss h h' k :
  Ext ns ss h h' -> k ∈ h_live h ->
  h_lnk h' !! k = h_lnk h !! k /\ h_dat h' !! k = h_dat h !! k /\ h_str h' !! k = h_str h !! k /\
  h_own h' !! k = h_own h !! k /\ k ∈ h_live h'.
Proof.
  intros Fr Hk. destruct (Ext_old _ _ _ _ _ Fr Hk) as [Hn Hs].
  split_and!; [by apply Fr|by apply Fr|by apply Fr| |by apply (xt_live _ _ _ _ Fr)].
  apply (xt_own _ _ _ _ Fr). apply Closed_live; [apply Fr|done].
Qed.

Lemma Ext_nil_eq h h' :
  Ext [] [] h h' ->
  h_lnk h' = h_lnk h /\ h_dat h' = h_dat h /\ h_str h' = h_str h /\ h_live h' = h_live h /\
  h_hooks h' = h_hooks h /\ lib_live h' = lib_live h.
Proof.
  intros Fr.
  assert (Hlive : h_live h' = h_live h).
  { apply set_eq. intros k. apply (xt_live _ _ _ _ Fr); apply not_elem_of_nil. }
  split_and!; try (apply map_eq; intros k; apply Fr; apply not_elem_of_nil); try done; [apply Fr|].
  unfold lib_live. rewrite Hlive. apply set_eq. intros k. rewrite !elem_of_filter.
  split; intros [H1 H2]; (split; [|done]).
  - rewrite <- (xt_own _ _ _ _ Fr); [done|]. apply Closed_live; [apply Fr|done].
  - rewrite (xt_own _ _ _ _ Fr); [done|]. apply Closed_live; [apply Fr|done].
Qed.

(** * after a failed call *)
Lemma Failed_WF h h' F : WF h F -> Ext [] [] h h' -> WF h' F.
Proof.
  intros W Fr. destruct (Ext_nil_eq _ _ Fr) as (E1 & E2 & E3 & E4 & E5 & E6). constructor.
  - apply W.
  - rewrite E1. apply W.
  - rewrite E2. apply W.
  - apply W.
  - intros b Hb. rewrite E4. by apply (wf_owned_live _ _ W).
  - intros b Hb. rewrite (xt_own _ _ _ _ Fr); [by apply (wf_owned_lib _ _ W)|by apply (wf_fresh _ _ W)].
  - intros b Hb. pose proof (wf_fresh _ _ W b Hb). pose proof (xt_next _ _ _ _ Fr). lia.
  - apply W.
Qed.
Lemma Failed_NoLeak h h' F : NoLeak h F -> Ext [] [] h h' -> NoLeak h' F.
Proof. intros NL Fr b Hb. destruct (Ext_nil_eq _ _ Fr) as (_ & _ & _ & _ & _ & E6). apply NL. by rewrite <- E6. Qed.
Lemma Failed_KeysReadable h h' F : KeysReadable h F -> Ext [] [] h h' -> KeysReadable h' F.
Proof.
  intros KR Fr e b He Hb. destruct (Ext_nil_eq _ _ Fr) as (_ & _ & E3 & E4 & _). rewrite E3, E4. by eapply KR.
Qed.

(** * after a successful call *)
Lemma ids_snoc F t : ids (F ++ [t]) = ids F ++ ids_t t.
Proof. rewrite ids_app. f_equal. unfold ids, nodes. cbn. by rewrite app_nil_r. Qed.
Lemma owned_snoc F t : owned (F ++ [t]) = owned F ++ owned_fl (flat_t t).
Proof. unfold owned. by rewrite flat_snoc, owned_fl_app. Qed.

Section Success.
  Context (h h' : heap) (F : forest) (tc : tree).
  Hypothesis W : WF h F.
  Hypothesis Fr : Ext (nids (flat_t tc)) (sids (flat_t tc)) h h'.
  Hypothesis ND : NoDup (nids (flat_t tc) ++ sids (flat_t tc)).
  Hypothesis C : Chain_ok h' [tc] None.
  Hypothesis R : Forall ref_ok (flat_t tc).

  Local Lemma old_lt b : b ∈ owned F -> (b < h_next h)%positive.
  Proof. apply W. Qed.
  Local Lemma old_notin b : b ∈ owned F -> b ∉ nids (flat_t tc) /\ b ∉ sids (flat_t tc).
  Proof. intros Hb. eapply Ext_old_lt; [exact Fr|by apply old_lt]. Qed.
  Local Lemma new_ge b : b ∈ owned_fl (flat_t tc) -> (h_next h <= b)%positive.
  Proof. intros Hb. rewrite owned_fl_split in Hb. by destruct (xt_new _ _ _ _ Fr b Hb) as [? _]. Qed.

  Lemma Done_ids_nodup : NoDup (ids (F ++ [tc])).
  Proof.
    rewrite ids_snoc. apply NoDup_app. split; [apply W|]. split.
    - intros x Hx Hx'. apply ids_subseteq_owned in Hx. destruct (old_notin x Hx) as [H _]. apply H.
      by rewrite nids_flat_t.
    - apply NoDup_app in ND as [H _]. by rewrite nids_flat_t in H.
  Qed.

  Lemma Done_WF : WF h' (F ++ [tc]).
  Proof.
    pose proof Done_ids_nodup as NDi.
    assert (HP : F ++ [tc] ≡ₚ tc :: F) by (symmetry; apply Permutation_cons_append).
    assert (Hfl : forall e : fnode, e ∈ flat_t tc -> e ∈ flat (F ++ [tc])).
    { intros e He. rewrite flat_snoc. apply elem_of_app. by right. }
    assert (Hfl1 : forall e : fnode, e ∈ flat_t tc -> e ∈ flat [tc]) by (intros e He; by rewrite flat_singleton).
    constructor.
    - done.
    - apply map_eq. intros k. destruct (decide (k ∈ ids_t tc)) as [Hin|Hnin].
      + rewrite <- lnk_keys_ids_t in Hin. apply elem_of_cons in Hin as [->|Hin].
        * rewrite heap_lnk_of_lookup_root; [|done|].
          -- destruct (ck_top _ _ _ C) as [[_ H] _]. exact H.
          -- rewrite roots_app. apply elem_of_app. right. by left.
        * apply elem_of_list_bind in Hin as ([[i d] ks] & Hk & He). cbn in Hk.
          apply elem_of_list_lookup in Hk as [j Hj].
          rewrite (heap_lnk_of_lookup_child _ i d ks j k NDi (Hfl _ He) Hj).
          by destruct (ck_in _ _ _ C i d ks j k (Hfl1 _ He) Hj) as [_ H].
      + rewrite (xt_lnk _ _ _ _ Fr) by (by rewrite nids_flat_t). rewrite (wf_lnk _ _ W).
        symmetry. by apply (heap_lnk_of_remove_root_lookup _ _ _ _ NDi HP).
    - apply map_eq. intros k. destruct (decide (k ∈ ids_t tc)) as [Hin|Hnin].
      + rewrite ids_t_flat in Hin. apply elem_of_list_fmap in Hin as ([[i d] ks] & -> & He). cbn.
        rewrite (heap_dat_of_lookup _ i d ks NDi (Hfl _ He)).
        by destruct (ck_dat _ _ _ C i d ks (Hfl1 _ He)) as [_ H].
      + rewrite (xt_dat _ _ _ _ Fr) by (by rewrite nids_flat_t). rewrite (wf_dat _ _ W).
        symmetry. by apply (heap_dat_of_remove_root_lookup _ _ _ _ NDi HP).
    - rewrite owned_snoc. apply NoDup_app. split; [apply W|]. split.
      + intros x Hx Hx'. pose proof (old_lt x Hx). pose proof (new_ge x Hx'). lia.
      + by rewrite owned_fl_split.
    - intros b Hb. rewrite owned_snoc in Hb. apply elem_of_app in Hb as [Hb|Hb].
      + destruct (old_notin b Hb). apply (xt_live _ _ _ _ Fr); [done..|]. by apply (wf_owned_live _ _ W).
      + rewrite owned_fl_split in Hb. by destruct (xt_new _ _ _ _ Fr b Hb) as (_ & _ & ? & _).
    - intros b Hb. rewrite owned_snoc in Hb. apply elem_of_app in Hb as [Hb|Hb].
      + rewrite (xt_own _ _ _ _ Fr) by (by apply old_lt). by apply (wf_owned_lib _ _ W).
      + rewrite owned_fl_split in Hb. by destruct (xt_new _ _ _ _ Fr b Hb) as (_ & _ & _ & ?).
    - intros b Hb. rewrite owned_snoc in Hb. apply elem_of_app in Hb as [Hb|Hb].
      + pose proof (old_lt b Hb). pose proof (xt_next _ _ _ _ Fr). lia.
      + rewrite owned_fl_split in Hb. by destruct (xt_new _ _ _ _ Fr b Hb) as (_ & ? & _).
    - rewrite flat_snoc. apply Forall_app. split; [apply W|done].
  Qed.

  Lemma Done_NoLeak : NoLeak h F -> NoLeak h' (F ++ [tc]).
  Proof.
    intros NL b Hb. rewrite owned_snoc. apply elem_of_app.
    apply elem_of_filter in Hb as [Hb1 Hb2].
    destruct (decide (b ∈ nids (flat_t tc) ++ sids (flat_t tc))) as [Hin|Hnin].
    - right. by rewrite owned_fl_split.
    - left. apply not_elem_of_app in Hnin as [H1 H2]. apply NL. apply elem_of_filter.
      assert (Hl : b ∈ h_live h) by (by apply (xt_live _ _ _ _ Fr)).
      split; [|done]. rewrite <- (xt_own _ _ _ _ Fr); [done|]. apply Closed_live; [apply Fr|done].
  Qed.

  (** ownership of the copy and of the forest are disjoint; the copy's blocks are all new *)
  Lemma Done_disjoint : forall b, b ∈ owned F -> b ∉ owned [tc].
  Proof.
    intros b Hb Hb'. unfold owned in Hb'. rewrite flat_singleton in Hb'.
    pose proof (old_lt b Hb). pose proof (new_ge b Hb'). lia.
  Qed.
  Lemma Done_fresh : forall b, b ∈ owned [tc] -> (h_next h <= b)%positive /\ b ∉ h_live h.
  Proof.
    intros b Hb. unfold owned in Hb. rewrite flat_singleton in Hb. pose proof (new_ge b Hb) as Hge.
    split; [done|]. by destruct (xt_closed0 _ _ _ _ Fr b Hge) as [? _].
  Qed.

  (** the root of the copy has no sibling links *)
  Lemma Done_root_links : h_lnk h' !! tid tc = Some (None, None).
  Proof. destruct (ck_top _ _ _ C) as [[_ H] _]. exact H. Qed.

End Success.

(** * a subtree of the forest as source *)
Fixpoint height (t : tree) : nat :=
  match t with
  | T _ _ cs => (fix go (l : list tree) : nat := match l with [] => 0 | c :: r => Nat.max (S (height c)) (go r) end) cs
  end.
Definition height_list : list tree -> nat :=
  fix go (l : list tree) : nat := match l with [] => 0 | c :: r => Nat.max (S (height c)) (go r) end.
Lemma height_unfold i d cs : height (T i d cs) = height_list cs.
Proof. reflexivity. Qed.
Lemma height_list_elem c cs : c ∈ cs -> S (height c) <= height_list cs.
Proof.
  induction cs as [|a r IH]; intros H; [by apply elem_of_nil in H|]. cbn.
  apply elem_of_cons in H as [->|H]; [lia|]. specialize (IH H). lia.
Qed.

Lemma nodes_t_child t0 i d cs c : T i d cs ∈ nodes_t t0 -> c ∈ cs -> c ∈ nodes_t t0.
Proof.
  induction t0 as [i0 d0 cs0 IH] using tree_ind'. rewrite nodes_t_unfold. intros H Hc.
  apply elem_of_cons in H as [H|H].
  - injection H as -> -> ->. right. apply elem_of_nodes. exists c. split; [done|apply nodes_t_self].
  - right. apply elem_of_nodes in H as (c0 & Hc0 & H). apply elem_of_nodes. exists c0. split; [done|].
    rewrite Forall_forall in IH. by apply (IH c0 Hc0).
Qed.
Lemma nodes_child F i d cs c : T i d cs ∈ nodes F -> c ∈ cs -> c ∈ nodes F.
Proof.
  intros H Hc. apply elem_of_nodes in H as (t0 & Ht0 & H). apply elem_of_nodes. exists t0. split; [done|].
  by eapply nodes_t_child.
Qed.

(** the strings the duplication reads are readable C strings *)
Definition strs_readable h (t : tree) : Prop :=
  forall i d (ks : list positive), (i, d, ks) ∈ flat_t t ->
    (forall b, rd_vstr d = Some b -> readable h b) /\
    (forall b, rd_key d = Some b -> is_const d = false -> readable h b).
(** no node of the tree borrows its children from another chain *)
Definition no_borrowed (t : tree) : Prop :=
  forall i d (ks : list positive), (i, d, ks) ∈ flat_t t -> rd_ref d = None.

Lemma flat_t_child i d cs c (e : fnode) : c ∈ cs -> e ∈ flat_t c -> e ∈ flat_t (T i d cs).
Proof. intros Hc He. rewrite flat_t_unfold. right. apply elem_of_flat_list. eauto. Qed.

Lemma src_list_of_suffix h lf k F i d cs :
  WF h F -> T i d cs ∈ nodes F ->
  forall pre r, cs = pre ++ r -> Forall (src_t h lf k) r -> src_list h lf k r.
Proof.
  intros W Hn pre r. revert pre. induction r as [|c r IH]; intros pre E HF; [done|].
  apply Forall_cons in HF as [Hc HF]. rewrite src_list_cons. split; [|split; [done|]].
  - set (ks := tid <$> cs).
    assert (Hj : ks !! length pre = Some (tid c)).
    { unfold ks. rewrite E, fmap_app. rewrite lookup_app_r by (by rewrite fmap_length).
      by rewrite fmap_length, Nat.sub_diag. }
    assert (He : (i, d, ks) ∈ flat F) by (apply (elem_of_flat F (T i d cs)); done).
    exists (link_at ks (length pre)).2. split.
    + apply (WF_ids_live _ _ _ W). eapply cids_in_ids; [exact He|]. by eapply elem_of_list_lookup_2.
    + rewrite (WF_lookup_lnk_child _ _ _ _ _ _ _ W He Hj). unfold link_at. cbn [fst snd]. f_equal. f_equal.
      unfold ks. rewrite E, fmap_app. rewrite lookup_app_r by (rewrite fmap_length; lia).
      rewrite fmap_length. replace (S (length pre) - length pre) with 1 by lia. cbn.
      by rewrite head_lookup.
  - apply (IH (pre ++ [c])); [by rewrite <- app_assoc|done].
Qed.

Lemma src_t_of_WF h F : WF h F ->
  forall t k, t ∈ nodes F -> strs_readable h t -> no_borrowed t -> height t <= k ->
    src_t h (Pos.to_nat (h_next h)) k t.
Proof.
  intros W t. induction t as [i d cs IH] using tree_ind'. intros k Hn Hs Hb Hh.
  set (lf := Pos.to_nat (h_next h)).
  assert (He : (i, d, tid <$> cs) ∈ flat F) by (apply (elem_of_flat F (T i d cs)); done).
  assert (He' : (i, d, tid <$> cs) ∈ flat_t (T i d cs)) by (rewrite flat_t_unfold; by left).
  assert (Hnode : src_node h lf i d (tid <$> cs)).
  { split_and!.
    - split; [|by apply (WF_lookup_dat _ _ _ _ _ W He)].
      apply (WF_ids_live _ _ _ W). rewrite ids_flat. apply elem_of_list_fmap. by exists (i, d, tid <$> cs).
    - by apply (chain_fuel _ _ _ _ _ W He).
    - apply (Hs _ _ _ He').
    - apply (Hs _ _ _ He'). }
  rewrite height_unfold in Hh.
  destruct k as [|k].
  - rewrite src_t_O. split; [done|]. destruct cs as [|c r]; [done|]. cbn in Hh. lia.
  - rewrite src_t_S. split; [done|]. split; [intros _; by apply (Hb _ _ _ He')|].
    apply (src_list_of_suffix h lf k F i d cs W Hn []); [done|].
    rewrite Forall_forall in IH. apply Forall_forall. intros c Hc. apply IH; [done| | | |].
    + by eapply nodes_child.
    + intros i' d' ks' He2. apply (Hs i' d' ks'). by eapply flat_t_child.
    + intros i' d' ks' He2. apply (Hb i' d' ks'). by eapply flat_t_child.
    + pose proof (height_list_elem c cs Hc). lia.
Qed.

Lemma no_borrowed_complete t : no_borrowed t -> complete t.
Proof. intros H i d He. by eapply H. Qed.

(** * property C11, part 1 (and C08 for [cJSON_Duplicate]) *)
Section Copy.
  Variable oracle : nat -> bool.

  (** the general form: the source is whatever the heap READS as from the item ([src_t]: the
      children of a reference node are the chain its [child] pointer designates) *)
  Theorem dup_copy_src h F t :
    WF h F -> Closed h -> src_t h (Pos.to_nat (h_next h)) (Z.to_nat c_CJSON_CIRCULAR_LIMIT) t ->
    exists r h',
      cJSON_Duplicate oracle (Some (tid t)) true h = Ret (r, h') /\
      ((r = None /\ WF h' F /\ (NoLeak h F -> NoLeak h' F) /\
        h_lnk h' = h_lnk h /\ h_dat h' = h_dat h /\ h_str h' = h_str h /\ h_live h' = h_live h /\
        h_hooks h' = h_hooks h /\ lib_live h' = lib_live h /\ Closed h' /\ (complete t -> ofail oracle h h')) \/
       (exists tc, r = Some (tid tc) /\ WF h' (F ++ [tc]) /\ (NoLeak h F -> NoLeak h' (F ++ [tc])) /\
          copy_of h' t tc /\ complete t /\
          Ext (nids (flat_t tc)) (sids (flat_t tc)) h h' /\
          h_lnk h' !! tid tc = Some (None, None) /\
          (forall b, b ∈ owned F -> b ∉ owned [tc]) /\
          (forall b, b ∈ owned [tc] -> (h_next h <= b)%positive /\ b ∉ h_live h) /\
          oclean oracle h h')).
  Proof.
    intros W C Hsrc.
    destruct (cJSON_Duplicate_sim oracle h t C Hsrc) as (r & h' & Hrun & [(-> & Fr & Hof)|(tc & -> & HD)]).
    - exists None, h'. split; [done|]. left.
      destruct (Ext_nil_eq _ _ Fr) as (E1 & E2 & E3 & E4 & E5 & E6).
      split_and!; try done.
      + exact (Failed_WF _ _ _ W Fr).
      + intros NL. exact (Failed_NoLeak _ _ _ NL Fr).
      + apply Fr.
    - destruct HD as (Fr & ND & Ch & R & Hcp & Hcomp & Hcl).
      exists (Some (tid tc)), h'. split; [done|]. right. exists tc. split_and!; try done.
      + eapply Done_WF; eassumption.
      + eapply Done_NoLeak; eassumption.
      + eapply Done_root_links; eassumption.
      + eapply Done_disjoint; eassumption.
      + eapply Done_fresh; eassumption.
  Qed.

  (** a subtree of the forest without borrowed children *)
  Theorem dup_copy h F p t :
    WF h F -> Closed h -> find_tree p F = Some t ->
    strs_readable h t -> no_borrowed t -> height t <= Z.to_nat c_CJSON_CIRCULAR_LIMIT ->
    exists r h',
      cJSON_Duplicate oracle (Some p) true h = Ret (r, h') /\
      ((r = None /\ WF h' F /\ (NoLeak h F -> NoLeak h' F) /\
        h_lnk h' = h_lnk h /\ h_dat h' = h_dat h /\ h_str h' = h_str h /\ h_live h' = h_live h /\
        h_hooks h' = h_hooks h /\ lib_live h' = lib_live h /\ Closed h' /\ ofail oracle h h') \/
       (exists tc, r = Some (tid tc) /\ WF h' (F ++ [tc]) /\ (NoLeak h F -> NoLeak h' (F ++ [tc])) /\
          copy_of h' t tc /\
          Ext (nids (flat_t tc)) (sids (flat_t tc)) h h' /\
          h_lnk h' !! tid tc = Some (None, None) /\
          (forall b, b ∈ owned F -> b ∉ owned [tc]) /\
          (forall b, b ∈ owned [tc] -> (h_next h <= b)%positive /\ b ∉ h_live h) /\
          oclean oracle h h')).
  Proof.
    intros W C Hp Hs Hb Hh. apply find_tree_Some in Hp as [Hn <-].
    pose proof (src_t_of_WF h F W t _ Hn Hs Hb Hh) as Hsrc.
    destruct (dup_copy_src h F t W C Hsrc) as (r & h' & Hrun & [H|H]).
    - exists r, h'. split; [done|]. left.
      destruct H as (H1 & H2 & H3 & H4 & H5 & H6 & H7 & H8 & H9 & H10 & H11).
      split_and!; try done. apply H11. by apply no_borrowed_complete.
    - exists r, h'. split; [done|]. right.
      destruct H as (tc & H1 & H2 & H3 & H4 & _ & H5 & H6 & H7 & H8 & H9). exists tc. by split_and!.
  Qed.
End Copy.

(** without allocation failures the copy is made *)
Theorem dup_copy_no_failure h F p t :
  WF h F -> Closed h -> find_tree p F = Some t ->
  strs_readable h t -> no_borrowed t -> height t <= Z.to_nat c_CJSON_CIRCULAR_LIMIT ->
  exists tc h',
    cJSON_Duplicate (fun _ => false) (Some p) true h = Ret (Some (tid tc), h') /\
    WF h' (F ++ [tc]) /\ (NoLeak h F -> NoLeak h' (F ++ [tc])) /\ copy_of h' t tc.
Proof.
  intros W C Hp Hs Hb Hh.
  destruct (dup_copy (fun _ => false) h F p t W C Hp Hs Hb Hh) as (r & h' & Hrun & [H|H]).
  - destruct H as (_ & _ & _ & _ & _ & _ & _ & _ & _ & _ & (j & _ & Hj)). discriminate.
  - destruct H as (tc & -> & W' & NL & Hcp & _). by exists tc, h'.
Qed.

(** * [Closed] next to [WF]: how the other simulation lemmas keep it
    (their result heaps are [upd_maps h L D], [free_all bs h] or allocations) *)
Lemma Closed_of_WF h F :
  WF h F -> (forall k, (h_next h <= k)%positive -> k ∉ h_live h /\ h_str h !! k = None) -> Closed h.
Proof.
  intros W H k Hk. destruct (H k Hk) as [H1 H2].
  assert (Hn : k ∉ ids F).
  { intros Hin. pose proof (WF_ids_fresh _ _ _ W Hin). lia. }
  split_and!; [done| | |done].
  - rewrite (wf_lnk _ _ W). by apply heap_lnk_of_lookup_None.
  - rewrite (wf_dat _ _ W). by apply heap_dat_of_lookup_None.
Qed.
Lemma Closed_upd_maps_WF h L D F' : Closed h -> WF (upd_maps h L D) F' -> Closed (upd_maps h L D).
Proof.
  intros C W. apply (Closed_of_WF _ F' W). intros k Hk. cbn in *. destruct (C k Hk) as (H1 & _ & _ & H4). done.
Qed.
Lemma Closed_free_all bs h : Closed h -> Closed (free_all bs h).
Proof.
  intros C k Hk. rewrite free_all_next in Hk. destruct (C k Hk) as (C1 & C2 & C3 & C4). split_and!.
  - rewrite free_all_live. tauto.
  - destruct (decide (k ∈ bs)); [by rewrite free_all_lnk_lookup_in|by rewrite free_all_lnk_lookup].
  - destruct (decide (k ∈ bs)); [by rewrite free_all_dat_lookup_in|by rewrite free_all_dat_lookup].
  - destruct (decide (k ∈ bs)); [by rewrite fa_str_lookup_in|by rewrite fa_str_lookup].
Qed.
Lemma Closed_bump h : Closed h -> Closed (bump h).
Proof. intros C. apply (Ext_bump h C). Qed.
Lemma Closed_alloc_node h : Closed h -> Closed (alloc_node_h h).
Proof. intros C. apply (Ext_alloc_node h C). Qed.
Lemma Closed_alloc_str h s : Closed h -> Closed (alloc_str_h h s).
Proof. intros C. apply (Ext_alloc_str h s C). Qed.
Lemma Closed_foreign_bytes h s p h' : Closed h -> foreign_bytes s h = Ret (p, h') -> Closed h'.
Proof.
  intros C [= <- <-] k Hk. cbn in *. destruct (C k) as (C1 & C2 & C3 & C4); [lia|].
  split_and!; [|done|done|rewrite lookup_insert_ne; [done|lia]].
  intros Hin. apply elem_of_union in Hin as [Hin|Hin]; [|done]. apply elem_of_singleton in Hin. lia.
Qed.

(** * readable keys of the extended forest (needed by the by-key queries on the copy) *)
Lemma copy_list_elem h cs cs' c' : copy_list h cs cs' -> c' ∈ cs' -> exists c, c ∈ cs /\ copy_of h c c'.
Proof.
  revert cs'. induction cs as [|a r IH]; intros [|a' r'] H Hc; try done; [by apply elem_of_nil in Hc|].
  rewrite copy_list_cons in H. destruct H as [Ha Hr]. apply elem_of_cons in Hc as [->|Hc].
  - exists a. split; [by left|done].
  - destruct (IH r' Hr Hc) as (c & H1 & H2). exists c. split; [by right|done].
Qed.
Lemma copy_of_flat h t : forall tc, copy_of h t tc ->
  forall i' d' (ks' : list positive), (i', d', ks') ∈ flat_t tc ->
    exists i d (ks : list positive), (i, d, ks) ∈ flat_t t /\ data_copy h d d'.
Proof.
  induction t as [i d cs IH] using tree_ind'. intros [j dj cs']. rewrite copy_of_unfold. intros [Hd Hl] i' d' ks' He.
  rewrite flat_t_unfold in He. apply elem_of_cons in He as [He|He].
  - injection He as -> -> ->. exists i, d, (tid <$> cs). split; [rewrite flat_t_unfold; by left|done].
  - apply elem_of_flat_list in He as (c' & Hc' & He). destruct (copy_list_elem _ _ _ _ Hl Hc') as (c & Hc & Hcp).
    rewrite Forall_forall in IH. destruct (IH c Hc c' Hcp i' d' ks' He) as (i0 & d0 & ks0 & H1 & H2).
    exists i0, d0, ks0. split; [by eapply flat_t_child|done].
Qed.

Lemma Done_KeysReadable h h' F t tc :
  KeysReadable h F -> Ext (nids (flat_t tc)) (sids (flat_t tc)) h h' -> copy_of h' t tc ->
  (forall i d (ks : list positive) b, (i, d, ks) ∈ flat_t t -> rd_key d = Some b -> is_const d = true -> readable h' b) ->
  KeysReadable h' (F ++ [tc]).
Proof.
  intros KR Fr Hcp Hconst e b He Hb. rewrite flat_snoc in He. apply elem_of_app in He as [He|He].
  - destruct (KR e b He Hb) as (Hl & s & Hs & Hz).
    destruct (Ext_preserves _ _ _ _ _ Fr Hl) as (_ & _ & E3 & _ & Hl'). split; [exact Hl'|]. exists s.
    split; [|exact Hz]. exact (eq_trans E3 Hs).
  - destruct e as [[i' d'] ks']. cbn in Hb.
    destruct (copy_of_flat _ _ _ Hcp i' d' ks' He) as (i & d & ks & Het & (_ & _ & _ & _ & _ & Hk)).
    destruct (rd_key d) as [b0|] eqn:Ek; [|congruence].
    destruct (is_const d) eqn:Ec.
    + rewrite Hk in Hb. injection Hb as <-. destruct (Hconst i d ks b0 Het Ek Ec) as (s & [Hl Hs] & Hz).
      split; [done|]. by exists s.
    + destruct Hk as (b' & Hk & (s & _ & [Hl Hs])). rewrite Hk in Hb. injection Hb as <-. split; [done|].
      exists (cstr s ++ [0%Z]). split; [done|]. rewrite existsb_app. cbn. by rewrite orb_true_r.
Qed.
