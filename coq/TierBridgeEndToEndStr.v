(** TierBridgeEndToEndStr.v — the Tier-B presupposition END TO END for the two object primitives that change
    the string heap: cJSON_AddItemToObject (allocates the copy of the key, releases the item's old owned
    key) and cJSON_DeleteItemFromObject[CaseSensitive] (releases everything the deleted member owns).

    A value-level tree has no notion of two nodes sharing one string block; the heap has (constant keys,
    string references).  So these two compositions need what TierBridgeEndToEnd.v did not: a NO-ALIASING
    hypothesis saying that the strings which the nodes that stay refer to are not among the blocks the
    call releases (and, for the allocation, that nobody refers to the block identity about to be handed
    out).  [owned_strings_not_released] shows that the hypothesis of the delete theorem holds whenever the
    remaining object has no borrowed strings (no StringIsConst key, no IsReference valuestring) — which is
    the case for every tree built by the parser and by the utilities themselves. *)
From CJ Require Import Base Dbl Heap Forest ForestLemmas CoreSpec CoreDefs CoreRefineBase CoreRefine CoreRefineMore
  CoreRefineObject CoreRefineByKey CoreRefineFrame CoreRefineAddObject CoreRefineDupValue.
From CJ Require Import TierBridgeDefs TierBridgeSort TierBridgeForest TierBridgeLemmas.
From CJ Require Tree CompareDefs PointerDefs PatchDefs MergeDefs.
From stdpp Require Import gmap.
From Coq Require Import Lia.
Local Open Scope Z_scope.

(** * cJSON_AddItemToObject *)
Section AddToObject.
  Context (oracle : nat -> bool) (h : heap) (F : forest) (p x sb : positive) (d dx : rdata) (cs csx : list tree) (s : bytes).
  Hypothesis W : WF h F.
  Hypothesis Hpx : p <> x.
  Hypothesis Hx : find_root x F = Some (T x dx csx).
  Hypothesis Hp : find_tree p (remove_root x F) = Some (T p d cs).
  Hypothesis Href : is_ref d = false.
  Hypothesis Hrd : Readable h sb.
  Hypothesis Hs : h_str h !! sb = Some s.
  Hypothesis Ho : oracle (h_req h) = false.
  (** no aliasing: no node of the object, and no node of the item other than through its own key field,
      refers to the identity about to be allocated or to the item's old owned key (which is released) *)
  Hypothesis Hfr : forall b, b ∈ str_blocks (T p d cs) ++ opt_list (rd_vstr dx) ++ (csx ≫= str_blocks) ->
                             b <> h_next h /\ b ∉ old_key dx.
  Notation St := (h_str h).
  Let ND : NoDup (ids F) := wf_nodup _ _ W.

  Theorem e2e_add_to_object :
    exists h' F',
      add_item_to_object oracle (Some p) (Some sb) (Some x) false h = Ret (true, h') /\ WF h' F' /\
      reify (h_str h') <$> find_tree p F' =
        Some (v_add_to_object (reify St (T p d cs)) (cstr s) (reify St (T x dx csx))) /\
      v_add_to_object (reify St (T p d cs)) (cstr s) (reify St (T x dx csx)) =
        MergeDefs.mp_AddItemToObject (reify St (T p d cs)) (Some (cstr s)) (Some (reify St (T x dx csx))).
  Proof.
    destruct (add_item_to_object_sim_owned oracle h F p x sb dx d csx cs W Hpx Hx Hp Href s Hrd Hs Ho) as (S1 & S2 & S3).
    set (nk := h_next h) in *. set (hb := free_all (old_key dx) (alloc_str h (cstr s ++ [0]))) in *.
    assert (Hold : forall b, b ∈ old_key dx -> b ∈ owned F).
    { intros b Hb. apply elem_of_owned_fl. exists (x, dx, tid <$> csx). split.
      - apply find_root_Some in Hx as [Hin _]. exact (elem_of_flat F _ (roots_in_nodes _ _ Hin)).
      - right. rewrite owned_strs_split. apply elem_of_app. by right. }
    assert (Hnk : nk ∉ old_key dx).
    { intros Hin. exact (Pos.lt_irrefl _ (wf_fresh _ _ W _ (Hold _ Hin))). }
    assert (Ha : h_str hb !! nk = Some (cstr s ++ [0])).
    { unfold hb. rewrite free_all_str_lookup by done. cbn. by rewrite lookup_insert. }
    assert (Hsame : forall b, b <> nk -> b ∉ old_key dx -> h_str hb !! b = St !! b).
    { intros b H1 H2. unfold hb. rewrite free_all_str_lookup by done. cbn. by rewrite lookup_insert_ne. }
    destruct (bridge_add_to_object (h_str hb) F p x d dx cs csx ND Hpx Hx Hp sb nk (cstr s ++ [0]) Ha) as (_ & B & _).
    rewrite S1 in B. cbn [fst] in B. rewrite cstr_cstr_app in B.
    do 2 eexists. split; [exact S2|]. split; [exact S3|]. split.
    - change (h_str (upd_maps hb _ _)) with (h_str hb). rewrite B. f_equal. unfold v_add_to_object.
      rewrite (reify_frame St (h_str hb) (T p d cs)).
      + do 3 f_equal. apply keyed_frame. intros b Hb. destruct (Hfr b) as [H1 H2]; [|by apply Hsame].
        apply elem_of_app. by right.
      + intros b Hb. destruct (Hfr b) as [H1 H2]; [|by apply Hsame]. apply elem_of_app. by left.
    - unfold v_add_to_object, MergeDefs.mp_AddItemToObject, MergeDefs.mp_add_member.
      rewrite !reify_unfold. unfold PatchDefs.keyed, MergeDefs.mp_keyed, MergeDefs.mp_clear_const.
      cbn [PatchDefs.set_key PatchDefs.set_ty Tree.n_ty Tree.n_children MergeDefs.mp_set_children PatchDefs.set_children].
      by rewrite Z.ldiff_land.
  Qed.
End AddToObject.

(** * cJSON_DeleteItemFromObject[CaseSensitive] *)
Section DeleteFromObject.
  Context (h : heap) (F : forest) (p : positive) (d : rdata) (cs : list tree) (nb : positive) (sn : bytes).
  Hypothesis W : WF h F.
  Hypothesis KR : KeysReadable h F.
  Hypothesis Hp : find_tree p F = Some (T p d cs).
  Hypothesis Href : is_ref d = false.
  Hypothesis Hnl : nb ∈ h_live h.
  Hypothesis Hns : h_str h !! nb = Some sn.
  Hypothesis Hnz : existsb (Z.eqb 0) sn = true.
  Notation St := (h_str h).
  Let ND : NoDup (ids F) := wf_nodup _ _ W.

  Theorem e2e_delete_from_object (flag : bool) :
    let F' := spec_delete_key St F (Some p) (Some nb) flag in
    (* no aliasing: the object that remains refers to no string the call releases *)
    (forall o', find_tree p F' = Some o' -> forall b, b ∈ str_blocks o' -> ~ released F F' b) ->
    exists h',
      (it <~ (to_detach <~ get_object_item (Some p) (Some nb) flag ;; cJSON_DetachItemViaPointer (Some p) to_detach) ;;
       cJSON_Delete it) h = Ret (tt, h') /\
      WF h' F' /\
      reify (h_str h') <$> find_tree p F' =
        Some (MergeDefs.mp_DeleteItemFromObject (reify St (T p d cs)) (Some (cstr sn)) flag) /\
      MergeDefs.mp_DeleteItemFromObject (reify St (T p d cs)) (Some (cstr sn)) flag =
        v_delete_from_object (reify St (T p d cs)) (cstr sn) flag.
  Proof.
    intros F' Hfr.
    destruct (delete_by_key_sim h F p d cs nb sn W KR Hp Href Hnl Hns Hnz flag) as (h' & S1 & S2 & _ & Fr & _).
    fold F' in S2, Fr.
    destruct (bridge_delete_key St F p d cs ND Hp nb sn flag Hns) as [B1 B2]. fold F' in B1.
    exists h'. split; [exact S1|]. split; [exact S2|]. split; [|exact B2].
    destruct (find_tree p F') as [o'|] eqn:Eo; [|done]. cbn [fmap option_fmap option_map] in *.
    rewrite <- B1. f_equal. apply reify_frame. intros b Hb.
    rewrite (fr_str _ _ _ _ Fr b). destruct (decide (released F F' b)) as [Hr|]; [|done].
    exfalso. by apply (Hfr o' eq_refl b Hb).
  Qed.
End DeleteFromObject.

(** the named entry points are the composition used above *)
Lemma cJSON_DeleteItemFromObject_is object name :
  cJSON_DeleteItemFromObject object name =
  (it <~ (to_detach <~ get_object_item object name false ;; cJSON_DetachItemViaPointer object to_detach) ;; cJSON_Delete it) /\
  cJSON_DeleteItemFromObjectCaseSensitive object name =
  (it <~ (to_detach <~ get_object_item object name true ;; cJSON_DetachItemViaPointer object to_detach) ;; cJSON_Delete it).
Proof. split; reflexivity. Qed.

(** * the no-aliasing hypothesis of the delete theorem holds for trees that own their strings *)
(** every node owns its strings: no constant key, no string reference *)
Definition owns_strings (t : tree) : Prop :=
  Forall (fun n : fnode => is_ref (fn_data n) = false /\ is_const (fn_data n) = false) (flat_t t).

Lemma str_blocks_owned t : owns_strings t -> forall b, b ∈ str_blocks t -> b ∈ owned_fl (flat_t t).
Proof.
  induction t as [i d cs IH] using tree_ind'. unfold owns_strings. rewrite flat_t_unfold.
  intros Ho b Hb. apply Forall_cons in Ho as [[H1 H2] Hcs]. cbn [fn_data fst snd] in H1, H2.
  rewrite owned_fl_cons. cbn [str_blocks] in Hb.
  apply elem_of_app in Hb as [Hb|Hb]; [|apply elem_of_app in Hb as [Hb|Hb]].
  - apply elem_of_app. left. right. unfold owned_strs. cbn [fn_data fst snd]. rewrite H1. apply elem_of_app. by left.
  - apply elem_of_app. left. right. unfold owned_strs. cbn [fn_data fst snd]. rewrite H2. apply elem_of_app. by right.
  - apply elem_of_app. right. apply elem_of_list_bind in Hb as (c & Hbc & Hc).
    rewrite Forall_forall in IH.
    assert (Hoc : owns_strings c).
    { unfold owns_strings. rewrite Forall_forall in *. intros n Hn. apply Hcs.
      unfold flat, nodes. apply elem_of_list_fmap in Hn as (m & -> & Hm). apply elem_of_list_fmap. exists m. split; [done|].
      apply elem_of_list_bind. by exists c. }
    pose proof (IH c Hc Hoc b Hbc) as Hin. apply elem_of_owned_fl in Hin as (e & He & Hbe).
    apply elem_of_owned_fl. exists e. split; [|done].
    unfold flat, nodes. apply elem_of_list_fmap in He as (m & -> & Hm). apply elem_of_list_fmap. exists m. split; [done|].
    apply elem_of_list_bind. by exists c.
Qed.

Lemma owned_of_node F n : n ∈ nodes F -> forall b, b ∈ owned_fl (flat_t n) -> b ∈ owned F.
Proof.
  intros Hn b Hb. apply elem_of_owned_fl in Hb as (e & He & Hbe). apply elem_of_owned_fl. exists e. split; [|done].
  apply elem_of_list_fmap in He as (m & -> & Hm). apply elem_of_flat.
  apply elem_of_nodes in Hn as (t & Ht & Hnt). apply elem_of_nodes. exists t. split; [done|].
  by apply (nodes_t_trans t n m).
Qed.

Theorem owned_strings_not_released F F' p o' :
  find_tree p F' = Some o' -> owns_strings o' -> forall b, b ∈ str_blocks o' -> ~ released F F' b.
Proof.
  intros Hf Ho b Hb [_ Hnot]. apply Hnot. apply find_tree_Some in Hf as [Hn _].
  apply (owned_of_node F' o' Hn). by apply str_blocks_owned.
Qed.

(** … and so does the no-aliasing hypothesis of the add theorem: every referenced block is owned, hence
    below [h_next] and, ownership being duplicate-free, different from the item's old key *)
Theorem add_hypothesis_of_owned h F p x d dx cs csx :
  WF h F -> find_root x F = Some (T x dx csx) -> find_tree p (remove_root x F) = Some (T p d cs) ->
  owns_strings (T p d cs) -> is_ref dx = false -> Forall owns_strings csx ->
  forall b, b ∈ str_blocks (T p d cs) ++ opt_list (rd_vstr dx) ++ (csx ≫= str_blocks) ->
            b <> h_next h /\ b ∉ old_key dx.
Proof.
  intros W Hx Hp Hop Hrx Hoc b Hb.
  pose proof (wf_owned_nodup _ _ W) as NDo.
  destruct (find_root_split x F _ (NoDup_roots _ (wf_nodup _ _ W)) Hx) as (F1 & F2 & HF & HF0).
  set (V := opt_list (rd_vstr dx)). set (K := old_key dx). set (C := owned_fl (flat csx)).
  set (A := owned F1). set (B := owned F2).
  assert (Eo : owned F = A ++ ((x :: V ++ K) ++ C) ++ B).
  { rewrite HF. unfold owned, A, B. rewrite !flat_app, flat_cons, flat_t_unfold, !owned_fl_app, owned_fl_cons.
    unfold owned_fn. cbn [fn_id fn_data fst snd]. by rewrite owned_strs_split, Hrx. }
  assert (E12 : owned (F1 ++ F2) = A ++ B) by (unfold owned; by rewrite flat_app, owned_fl_app).
  rewrite Eo in NDo. apply NoDup_app in NDo as (_ & DA & Nrest).
  apply NoDup_app in Nrest as (Nmid & DB & _). apply NoDup_app in Nmid as (NxVK & DC & _).
  apply NoDup_cons in NxVK as [_ NVK]. apply NoDup_app in NVK as (_ & NV_K & _).
  assert (Hin_owned : forall b', b' ∈ A ++ ((x :: V ++ K) ++ C) ++ B -> b' <> h_next h).
  { intros b' Hb' ->. rewrite <- Eo in Hb'. exact (Pos.lt_irrefl _ (wf_fresh _ _ W _ Hb')). }
  assert (HKmid : forall b', b' ∈ K -> b' ∈ (x :: V ++ K) ++ C).
  { intros b' Hb'. apply elem_of_app. left. right. apply elem_of_app. by right. }
  assert (HC : forall b', b' ∈ csx ≫= str_blocks -> b' ∈ C).
  { intros b' Hb'. apply elem_of_list_bind in Hb' as (c & Hbc & Hc). rewrite Forall_forall in Hoc.
    pose proof (str_blocks_owned c (Hoc c Hc) b' Hbc) as Hin. apply elem_of_owned_fl in Hin as (e & He & Hbe).
    apply elem_of_owned_fl. exists e. split; [|done].
    unfold flat, nodes. apply elem_of_list_fmap in He as (m & -> & Hm). apply elem_of_list_fmap. exists m. split; [done|].
    apply elem_of_list_bind. by exists c. }
  assert (HP : forall b', b' ∈ str_blocks (T p d cs) -> b' ∈ owned (F1 ++ F2)).
  { intros b' Hb'. rewrite <- HF0. apply find_tree_Some in Hp as [Hn _].
    apply (owned_of_node _ _ Hn). by apply str_blocks_owned. }
  apply elem_of_app in Hb as [Hb|Hb]; [|apply elem_of_app in Hb as [Hb|Hb]].
  - apply HP in Hb. rewrite E12 in Hb. split.
    + apply Hin_owned. apply elem_of_app in Hb as [Hb|Hb]; apply elem_of_app; [by left|right]. apply elem_of_app. by right.
    + intros HK. apply elem_of_app in Hb as [Hb|Hb].
      * apply (DA b Hb). apply elem_of_app. left. by apply HKmid.
      * by apply (DB b (HKmid b HK)).
  - split.
    + apply Hin_owned. apply elem_of_app. right. apply elem_of_app. left. apply elem_of_app. left. right. apply elem_of_app. by left.
    + by apply NV_K.
  - apply HC in Hb. split.
    + apply Hin_owned. apply elem_of_app. right. apply elem_of_app. left. apply elem_of_app. by right.
    + intros HK. apply (DC b); [|done]. right. apply elem_of_app. by right.
Qed.
