(** CoreOpsBridgeHist.v — PART 2 of the bridge: histories of the EXTRACTED interpreter.

    * [sview S]: the caller's view computed from the ABSTRACT state (the next identity is the model's
      allocator counter, [item->string] / [item->valuestring] are the model's node data): right about
      every heap that represents [S] ([view_ok_sview]);
    * [stepS st S o]: one correspondence-level operation on (handle pools, abstract state) — the
      translation [tr (sview S) st o], the checker [pre_ok_all3b] of the documented ownership rules on the
      translated operations, the list model's result shown in the correspondence-level result type,
      and the pools after the call: the returned identity pushed, then the handles whose block the
      model no longer owns cleared ([sweepS]).  No heap is involved;
    * [runS] / [accepted]: a correspondence-level history is ACCEPTED when every step is defined, i.e. its
      translation, threaded through the evolving pools, satisfies the rule checker at every step
      (+ [post_okb]: a pushed result is NULL or a block the model owns; a returned [char *] that the
      caller reads is NULL or a readable string of the model);
    * [stepS_sim]: from a heap that represents [S] with sane pools, [CoreOps.run_op nv st o] returns
      ([Ret]) exactly the result and the pools [stepS] computes, in the heap the proof-level
      interpreter reaches on the translated operations, which represents the model's next state;
    * [runS_sim], [history_extracted]: the same for histories — the statement of [C06_history]
      transported to [CoreOps.run_ops]; [ledger_extracted]: the C07 corollary.
    CoreOpsBridgeOwned.v shows that the [KPush] clause of [post_okb] is implied by the rules and states
    the theorems with the rule checker alone; non-vacuity is in CoreOpsBridgeEx.v. *)
From CJ Require Import Base Dbl Heap Forest ForestLemmas CoreSpec CoreDefs CoreRefineBase CoreRefine CoreRefineHistory
  CoreRefineHistoryObj CoreRefineHistoryObjEx CoreRefineCreate CoreLedgerGen CoreHistoryAllSteps CoreHistoryAll
  CoreLedgerAll CoreHistoryAllIter CoreOpsBridge.
From CJ Require CoreOps.
From CJ.gen Require Import Constants.
From Coq Require Import Floats.SpecFloat.
From stdpp Require Import gmap.
Local Open Scope Z_scope.

(** * the view from the abstract state *)
Definition node_field (S : astate2) (f : rdata -> ptr) (p : ptr) : option ptr :=
  match p with
  | Some x => match find_tree x (a_forest S) with Some n => Some (f (tdata n)) | None => None end
  | None => None
  end.
Definition sview (S : astate2) : view := mkView (nxt S) (node_field S rd_key) (node_field S rd_vstr).

Lemma node_field_heap h S f p q :
  Abs3 h S -> node_field S f p = Some q ->
  exists x nd d, p = Some x /\ x ∈ h_live h /\ h_dat h !! x = Some nd /\ nd_key nd = rd_key d /\ nd_vstr nd = rd_vstr d /\ q = f d.
Proof.
  intros [((W & _) & _) _] H. unfold node_field in H. destruct p as [x|]; [|done].
  destruct (find_tree x (a_forest S)) as [n|] eqn:En; [|done]. injection H as <-.
  destruct n as [x' d cs]. pose proof (find_tree_Some _ _ _ En) as [Hn Hx]. cbn in Hx. subst x'.
  pose proof (find_tree_flat _ _ _ _ En) as Hfl.
  exists x, (mk_dat d (tid <$> cs)), d. split; [done|]. split.
  - apply (WF_ids_live _ _ _ W). rewrite ids_flat. apply elem_of_list_fmap. by exists (x, d, tid <$> cs).
  - split; [by apply (WF_lookup_dat _ _ _ _ _ W Hfl)|done].
Qed.

Lemma view_ok_sview h S : Abs3 h S -> view_ok (sview S) h.
Proof.
  intros HA. split; [|split].
  - destruct HA as [((_ & _ & Hn & _) & _) _]. cbn. by rewrite Hn.
  - intros p q H. destruct (node_field_heap _ _ _ _ _ HA H) as (x & nd & d & -> & Hl & Hd & Hk & _ & ->).
    rewrite <- Hk. by apply run_get_key_plain.
  - intros p q H. destruct (node_field_heap _ _ _ _ _ HA H) as (x & nd & d & -> & Hl & Hd & _ & Hv & ->).
    rewrite <- Hv. by apply run_get_vstr_plain.
Qed.

(** * one step on (pools, abstract state) *)

(** the sweep: an item handle survives when the model still owns its block; caller strings stay *)
Definition live_itemS (S : astate2) (p : ptr) : ptr :=
  match p with
  | Some x => if bool_decide (x ∈ owned (a_forest S)) then p else None
  | None => None
  end.
Definition sweepS (S : astate2) (st : CoreOps.state) : CoreOps.state :=
  CoreOps.mkState (map (live_itemS S) (CoreOps.st_items st)) (CoreOps.st_strs st).

(** what the caller reads at a returned [char *]: NULL, or the C string of a readable block *)
Definition cstrS (S : astate2) (q : ptr) : option (option bytes) :=
  match q with
  | None => Some None
  | Some b => match a_str S !! b with Some s => if has0 s then Some (Some (cstr s)) else None | None => None end
  end.

(** what the caller's loop over [a] reports: the type words of the children, in order *)
Definition each_types (S : astate2) (a : ptr) : list Z :=
  match a with
  | Some p => match find_tree p (a_forest S) with
              | Some n => (fun c => rd_type (tdata c)) <$> tchildren n
              | None => []
              end
  | None => []
  end.

Definition encS (k : kind) (S' : astate2) (r : res3) : CoreOps.result :=
  match k with
  | KStr => CoreOps.RStr (match cstrS S' (res_ptr3 r) with Some s => s | None => None end)
  | KEach a => CoreOps.RInts (each_types S' a)
  | _ => enc k r
  end.

Definition post_okb (k : kind) (S' : astate2) (r : res3) : bool :=
  match k with
  | KPush => match res_ptr3 r with Some x => bool_decide (x ∈ owned (a_forest S')) | None => true end
  | KStr => match cstrS S' (res_ptr3 r) with Some _ => true | None => false end
  | KEach a =>
      match a with
      | Some p => match find_tree p (a_forest S') with Some n => negb (is_ref (tdata n)) | None => false end
      | None => true
      end
  | _ => true
  end.

Definition stepS (st : CoreOps.state) (S : astate2) (o : CoreOps.op) : option (CoreOps.result * CoreOps.state * astate2) :=
  match tr (sview S) st o with
  | None => None
  | Some t =>
      let l := tr_ops t in
      let S' := spec_run3 S l in
      let r := main_res t (spec_results3 S l) in
      if pre_ok_all3b S l && post_okb (t_kind t) S' r
      then Some (encS (t_kind t) S' r, sweepS S' (new_pools (t_kind t) (t_st t) r), S')
      else None
  end.

(** the proof-level operations of a step *)
Definition step_ops (st : CoreOps.state) (S : astate2) (o : CoreOps.op) : list op3 :=
  match tr (sview S) st o with Some t => tr_ops t | None => [] end.

Fixpoint runS (st : CoreOps.state) (S : astate2) (ops : list CoreOps.op) : option (list CoreOps.result * CoreOps.state * astate2) :=
  match ops with
  | [] => Some ([], st, S)
  | o :: r =>
      match stepS st S o with
      | Some (x, st1, S1) =>
          match runS st1 S1 r with
          | Some (xs, st2, S2) => Some (x :: xs, st2, S2)
          | None => None
          end
      | None => None
      end
  end.

(** the translated history *)
Fixpoint tr_hist (st : CoreOps.state) (S : astate2) (ops : list CoreOps.op) : list op3 :=
  match ops with
  | [] => []
  | o :: r =>
      step_ops st S o ++
      match stepS st S o with Some (_, st1, S1) => tr_hist st1 S1 r | None => [] end
  end.

(** ACCEPTED: every step is defined *)
Definition accepted (ops : list CoreOps.op) : bool :=
  match runS CoreOps.empty_state S0 ops with Some _ => true | None => false end.

(** * sane pools *)
Definition FL (h : heap) (x : positive) : Prop := h_own h !! x = Some Foreign /\ x ∈ h_live h.
Definition PoolsOK (h : heap) (st : CoreOps.state) (S : astate2) : Prop :=
  (forall x, Some x ∈ CoreOps.st_items st -> x ∈ owned (a_forest S)) /\
  (forall x, Some x ∈ CoreOps.st_strs st -> FL h x).

Lemma FL_mono h h' x : HeapOK h -> Cons_post h h' -> FL h x -> FL h' x.
Proof.
  intros K CP [Ho Hl]. split; [|by apply (cp_foreign _ _ CP)].
  rewrite (cp_own _ _ CP); [done|]. by apply (hk_live _ K).
Qed.

(** the pools after the string declarations of a translated call *)
Definition pools_after (h : heap) (st st1 : CoreOps.state) (pre : list bytes) : Prop :=
  CoreOps.st_items st1 = CoreOps.st_items st /\
  exists h1, run_pre pre h = Ret (tt, h1) /\ Cons_post h h1 /\
    forall x, Some x ∈ CoreOps.st_strs st1 -> Some x ∈ CoreOps.st_strs st \/ FL h1 x.

Lemma pools_after_refl h st : HeapOK h -> pools_after h st st [].
Proof. intros K. split; [done|]. exists h. split; [done|]. split; [by apply Cons_post_refl|]. intros x Hx. by left. Qed.

Lemma pools_after_decl h st c :
  HeapOK h -> pools_after h st (CoreOps.push_str st (Some (h_next h))) [c].
Proof.
  intros K. split; [done|]. exists (foreign_heap h c). split; [done|].
  split; [by apply (Cons_foreign_bytes c h (Some (h_next h)))|].
  intros x Hx. cbn in Hx. apply elem_of_app in Hx as [Hx|Hx]; [by left|]. right.
  apply elem_of_list_singleton in Hx as [= ->]. split; cbn.
  - by rewrite lookup_insert.
  - set_solver.
Qed.

Lemma pools_after_trans h st st1 st2 pre1 pre2 h1 :
  HeapOK h -> pools_after h st st1 pre1 -> run_pre pre1 h = Ret (tt, h1) -> pools_after h1 st1 st2 pre2 ->
  pools_after h st st2 (pre1 ++ pre2).
Proof.
  intros K (Hi1 & h1' & E1 & CP1 & Hs1) E1' (Hi2 & h2 & E2 & CP2 & Hs2).
  rewrite E1 in E1'. injection E1' as ->. split; [congruence|]. exists h2.
  split; [by rewrite (run_pre_app _ _ _ _ E1)|]. split; [by eapply Cons_post_trans|].
  intros x Hx. destruct (Hs2 x Hx) as [Hx1|Hx1]; [|by right].
  destruct (Hs1 x Hx1) as [Hx0|Hx0]; [by left|right]. eapply FL_mono; [apply CP1|done|done].
Qed.

Lemma tr_str_pools V st s h p pre st1 V1 :
  view_ok V h -> HeapOK h -> tr_str V st s = Some (p, pre, st1, V1) -> pools_after h st st1 pre.
Proof.
  intros (Hn & _) K E. destruct s as [|k|b|k|k]; cbn [tr_str] in E.
  - injection E as <- <- <- <-. by apply pools_after_refl.
  - injection E as <- <- <- <-. by apply pools_after_refl.
  - injection E as <- <- <- <-. rewrite Hn. by apply pools_after_decl.
  - destruct (v_key V _); [|done]. injection E as <- <- <- <-. by apply pools_after_refl.
  - destruct (v_val V _); [|done]. injection E as <- <- <- <-. by apply pools_after_refl.
Qed.

Lemma tr_strs_pools l : forall V st h ps pre st1 V1,
  view_ok V h -> HeapOK h -> tr_strs V st l = Some (ps, pre, st1, V1) -> pools_after h st st1 pre.
Proof.
  induction l as [|a l IH]; intros V st h ps pre st1 V1 HV K E; cbn [tr_strs] in E.
  - injection E as <- <- <- <-. by apply pools_after_refl.
  - destruct (tr_str V st a) as [[[[p pre1] sta] Va]|] eqn:Ea; [|done].
    destruct (tr_strs Va sta l) as [[[[ps2 pre2] st2] V2]|] eqn:El; [|done]. injection E as <- <- <- <-.
    destruct (str_of_tr _ _ _ _ _ _ _ _ HV Ea) as (h1 & _ & E2 & HV1).
    pose proof (tr_str_pools _ _ _ _ _ _ _ _ HV K Ea) as P1.
    assert (K1 : HeapOK h1).
    { destruct P1 as (_ & h1' & E1' & CP & _). rewrite E2 in E1'. injection E1' as <-. apply CP. }
    eapply pools_after_trans; [done|exact P1|exact E2|]. by eapply IH.
Qed.

Lemma tr_pools V st o t h :
  view_ok V h -> HeapOK h -> tr V st o = Some t -> pools_after h st (t_st t) (t_pre t).
Proof.
  intros HV K E.
  destruct o; cbn [tr] in E; try discriminate E; unfold T0, T1, T2 in E;
    try (injection E as <-; by apply pools_after_refl).
  all: try (destruct (tr_str V st s) as [[[[p1 pre1] st1] V1]|] eqn:Es; [|discriminate E]).
  all: try (destruct (tr_str V1 st1 v) as [[[[p2 pre2] st2] V2]|] eqn:Ev; [|discriminate E]).
  all: try (injection E as <-; cbn [t_st t_pre]; by eapply tr_str_pools).
  - (* string array *)
    destruct strs as [l|]; [|injection E as <-; by apply pools_after_refl].
    destruct (tr_strs V st l) as [[[[ps pre] st1] V1]|] eqn:El; [|done]. injection E as <-. by eapply tr_strs_pools.
  - (* two string arguments *)
    injection E as <-. cbn [t_st t_pre].
    destruct (str_of_tr _ _ _ _ _ _ _ _ HV Es) as (h1 & _ & E2 & HV1).
    pose proof (tr_str_pools _ _ _ _ _ _ _ _ HV K Es) as P1.
    assert (K1 : HeapOK h1).
    { destruct P1 as (_ & h1' & E1' & CP & _). rewrite E2 in E1'. injection E1' as <-. apply CP. }
    eapply pools_after_trans; [done|exact P1|exact E2|]. by eapply tr_str_pools.
  - injection E as <-. cbn [t_st t_pre].
    destruct (str_of_tr _ _ _ _ _ _ _ _ HV Es) as (h1 & _ & E2 & HV1).
    pose proof (tr_str_pools _ _ _ _ _ _ _ _ HV K Es) as P1.
    assert (K1 : HeapOK h1).
    { destruct P1 as (_ & h1' & E1' & CP & _). rewrite E2 in E1'. injection E1' as <-. apply CP. }
    eapply pools_after_trans; [done|exact P1|exact E2|]. by eapply tr_str_pools.
  - (* a declared string *)
    injection E as <-. cbn [t_st t_pre]. destruct HV as (-> & _). by apply pools_after_decl.
Qed.

(** * one step of the extracted interpreter *)
Lemma run_tr_split t h rs h' h1 :
  run_ops3 (tr_ops t) h = Ret (rs, h') -> run_pre (t_pre t) h = Ret (tt, h1) ->
  run_main (t_main t) h1 = Ret (main_res t rs, h').
Proof.
  intros Hr Hp.
  assert (H : (run_pre (t_pre t) ;;; r <~ run_main (t_main t) ;; ret r) h =
              (rs <~ run_ops3 (tr_ops t) ;; ret (main_res t rs)) h) by apply run_tr_ops_gen.
  rewrite (bindM_Ret _ _ _ _ _ Hp), (bindM_Ret _ _ _ _ _ Hr) in H.
  unfold bindM, ret in H. destruct (run_main (t_main t) h1) as [[r h2]|e]; [|done]. by injection H as -> ->.
Qed.

Lemma Cons_run_main m : Cons (run_main m).
Proof. destruct m; [apply Cons_run_op3|apply Cons_ret]. Qed.

Lemma Abs3_WF' h S : Abs3 h S -> WF h (a_forest S).
Proof. by intros [((W & _) & _) _]. Qed.

Lemma live_item_agree h S x :
  Abs3 h S -> h_own h !! x = Some Lib -> CoreOps.live_ptr h (Some x) = live_itemS S (Some x).
Proof.
  intros HA Ho. unfold CoreOps.live_ptr, live_itemS. destruct (decide (x ∈ h_live h)) as [Hl|Hl].
  - rewrite bool_decide_eq_true_2; [done|]. apply (Abs3_ledger _ _ HA). unfold lib_live. by apply elem_of_filter.
  - rewrite bool_decide_eq_false_2; [done|]. intros Hx. apply Hl. apply (Abs3_ledger _ _ HA) in Hx.
    unfold lib_live in Hx. by apply elem_of_filter in Hx as [_ ?].
Qed.

Lemma sweep_agree h S st :
  Abs3 h S -> (forall y, Some y ∈ CoreOps.st_items st -> h_own h !! y = Some Lib) ->
  (forall y, Some y ∈ CoreOps.st_strs st -> FL h y) -> sweep_st h st = sweepS S st.
Proof.
  intros HA HI HS. unfold sweep_st, sweepS. f_equal.
  - apply map_ext_in. intros [y|] Hy; [|done]. apply live_item_agree; [done|]. apply HI. by apply elem_of_list_In.
  - rewrite <- (map_id (CoreOps.st_strs st)) at 2. apply map_ext_in. intros [y|] Hy; [|done].
    unfold CoreOps.live_ptr. rewrite decide_True; [done|]. apply HS. by apply elem_of_list_In.
Qed.

Lemma sweepS_items S st y : Some y ∈ CoreOps.st_items (sweepS S st) -> y ∈ owned (a_forest S).
Proof.
  cbn. intros H. apply elem_of_list_In, in_map_iff in H as ([z|] & Hz & _); [|done].
  unfold live_itemS in Hz. destruct (bool_decide (z ∈ owned (a_forest S))) eqn:Eb; [|done].
  injection Hz as ->. by apply bool_decide_eq_true in Eb.
Qed.

Lemma opt_cstr_abs h S q s : Abs3 h S -> cstrS S q = Some s -> CoreOps.opt_cstr q h = Ret (s, h).
Proof.
  intros [(_ & Hstr & [SI1 _] & _) _] H. destruct q as [b|]; cbn [cstrS] in H; [|by injection H as <-].
  destruct (a_str S !! b) as [s0|] eqn:Eb; [|done]. destruct (has0 s0) eqn:Ez; [|done]. injection H as <-.
  unfold CoreOps.opt_cstr. cbn [is_null]. destruct (SI1 _ _ Eb) as [Hl _].
  assert (Hs : h_str h !! b = Some s0) by (by rewrite Hstr).
  by rewrite (bindM_Ret _ _ _ _ _ (run_ld_cstr_plain _ _ _ Hl Hs Ez)).
Qed.

Lemma each_abs h S a :
  Abs3 h S -> post_okb (KEach a) S (R RUnit) = true -> CoreOps.array_for_each a h = Ret (each_types S a, h).
Proof.
  intros HA H. destruct a as [p|]; cbn [post_okb each_types] in *.
  - destruct (find_tree p (a_forest S)) as [[p' d cs]|] eqn:Ep; [|done].
    pose proof (find_tree_Some _ _ _ Ep) as [_ Hx]. cbn in Hx. subst p'.
    apply negb_true_iff in H. by apply (array_for_each_sim _ _ _ _ _ (Abs3_WF' _ _ HA) Ep H).
  - unfold CoreOps.array_for_each, heap_fuel, bindM. cbn [is_null negb ret].
    destruct (Pos.to_nat (h_next h)) eqn:E; [|done]. pose proof (Pos2Nat.is_pos (h_next h)). lia.
Qed.

(** ONE STEP.  From a heap that represents [S], with sane pools: the extracted interpreter returns
    (no error outcome) exactly what [stepS] computes from the list model, in the heap [h'] that the
    proof-level interpreter reaches on the translated operations; [h'] represents the model's next state. *)
Theorem stepS_sim h st S o x st1 S1 :
  Abs3 h S -> PoolsOK h st S -> stepS st S o = Some (x, st1, S1) ->
  exists h', CoreOps.run_op nv st o h = Ret ((x, st1), h') /\
             run_ops3 (step_ops st S o) h = Ret (spec_results3 S (step_ops st S o), h') /\
             S1 = spec_run3 S (step_ops st S o) /\ Abs3 h' S1 /\ PoolsOK h' st1 S1.
Proof.
  intros HA [PI PS] E. unfold stepS in E. unfold step_ops.
  destruct (tr (sview S) st o) as [t|] eqn:Et; [|done]. cbn zeta in E.
  destruct (pre_ok_all3b S (tr_ops t) && post_okb (t_kind t) (spec_run3 S (tr_ops t))
              (main_res t (spec_results3 S (tr_ops t)))) eqn:Eb; [|done].
  injection E as <- <- <-. apply andb_true_iff in Eb as [Hpre Hpost].
  pose proof (view_ok_sview _ _ HA) as HV.
  destruct (history_sim3 (tr_ops t) h S HA (pre_ok_all3b_sound _ _ Hpre)) as (h' & Hrun & HA').
  exists h'.
  pose proof (proj2 HA) as K.
  pose proof (Cons_run_ops3 (tr_ops t) _ _ _ Hrun K) as CP.
  destruct (tr_pools _ _ _ _ _ HV K Et) as (Hitems & h1 & Hp1 & CP1 & Hstrs).
  pose proof (run_tr_split _ _ _ _ _ Hrun Hp1) as Hmain.
  assert (CP2 : Cons_post h1 h') by (eapply Cons_run_main; [exact Hmain|apply CP1]).
  assert (HS' : forall y, Some y ∈ CoreOps.st_strs (t_st t) -> FL h' y).
  { intros y Hy. destruct (Hstrs y Hy) as [Hy0|Hy1].
    - eapply FL_mono; [exact K|exact CP|by apply PS].
    - eapply FL_mono; [apply CP1|exact CP2|done]. }
  assert (HI' : forall y, Some y ∈ CoreOps.st_items (t_st t) -> h_own h' !! y = Some Lib).
  { intros y Hy. rewrite Hitems in Hy. pose proof (PI y Hy) as Ho. pose proof (Abs3_WF' _ _ HA) as W.
    rewrite (cp_own _ _ CP); [by apply (wf_owned_lib _ _ W)|by apply (wf_fresh _ _ W)]. }
  set (S' := spec_run3 S (tr_ops t)) in *. set (r := main_res t (spec_results3 S (tr_ops t))) in *.
  assert (Hsw : sweep_st h' (new_pools (t_kind t) (t_st t) r) = sweepS S' (new_pools (t_kind t) (t_st t) r)).
  { apply sweep_agree; [done| |].
    - intros y Hy. destruct (t_kind t) eqn:Ek; cbn [new_pools] in Hy; try (by apply HI').
      cbn in Hy. apply elem_of_app in Hy as [Hy|Hy]; [by apply HI'|].
      apply elem_of_list_singleton in Hy. cbn [post_okb] in Hpost. rewrite <- Hy in Hpost.
      apply bool_decide_eq_true in Hpost. by apply (wf_owned_lib _ _ (Abs3_WF' _ _ HA')).
    - intros y Hy. apply HS'. by destruct (t_kind t). }
  split; [|split; [done|split; [done|split; [done|]]]].
  - destruct (t_kind t) as [| | | | | |a] eqn:Hk.
    6:{ (* a returned string is read *)
      cbn [post_okb encS new_pools] in *. destruct (cstrS S' (res_ptr3 r)) as [s|] eqn:Es; [|done].
      rewrite (run_op_commutes_Ret_str _ _ _ _ _ _ _ s HV Et Hk Hrun (opt_cstr_abs _ _ _ _ HA' Es)).
      by rewrite <- Hsw. }
    6:{ (* the caller's loop *)
      cbn [encS new_pools] in *.
      rewrite (run_op_commutes_Ret_each _ _ _ _ _ _ _ a _ HV Et Hk Hrun (each_abs _ _ _ HA' Hpost)).
      by rewrite <- Hsw. }
    all: assert (Hpk : pure_kind (t_kind t)) by (by rewrite Hk).
    all: rewrite (run_op_commutes_Ret _ _ _ _ _ _ _ HV Et Hpk Hrun); fold r; rewrite Hk; by rewrite Hsw.
  - split; [apply sweepS_items|]. intros y Hy. apply HS'. cbn in Hy. by destruct (t_kind t).
Qed.

(** * histories *)
Lemma run_ops3_app l1 l2 h rs1 h1 rs2 h2 :
  run_ops3 l1 h = Ret (rs1, h1) -> run_ops3 l2 h1 = Ret (rs2, h2) -> run_ops3 (l1 ++ l2) h = Ret (rs1 ++ rs2, h2).
Proof.
  revert h rs1. induction l1 as [|o l1 IH]; intros h rs1 E1 E2; cbn [app run_ops3] in *.
  - by injection E1 as <- <-.
  - unfold bindM in *. destruct (run_op3 o h) as [[x hx]|e]; [|done].
    destruct (run_ops3 l1 hx) as [[xs hy]|e] eqn:Ex; [|done]. injection E1 as <- <-.
    by rewrite (IH _ _ Ex E2).
Qed.
Lemma spec_results3_app l1 : forall S l2, spec_results3 S (l1 ++ l2) = spec_results3 S l1 ++ spec_results3 (spec_run3 S l1) l2.
Proof. induction l1 as [|o l1 IH]; intros S l2; [done|]. cbn [app spec_results3]. by rewrite IH. Qed.

(** EVERY ACCEPTED HISTORY, from any represented state with sane pools *)
Theorem runS_sim ops : forall h st S xs st2 S2,
  Abs3 h S -> PoolsOK h st S -> runS st S ops = Some (xs, st2, S2) ->
  exists h', CoreOps.run_ops nv st ops h = Ret ((xs, st2), h') /\
             run_ops3 (tr_hist st S ops) h = Ret (spec_results3 S (tr_hist st S ops), h') /\
             S2 = spec_run3 S (tr_hist st S ops) /\ Abs3 h' S2 /\ PoolsOK h' st2 S2.
Proof.
  induction ops as [|o r IH]; intros h st S xs st2 S2 HA HP E; cbn [runS tr_hist] in *.
  - injection E as <- <- <-. exists h. by split_and!.
  - destruct (stepS st S o) as [[[x st1] S1]|] eqn:Es; [|done].
    destruct (runS st1 S1 r) as [[[xr st3] S3]|] eqn:Er; [|done]. injection E as <- <- <-.
    destruct (stepS_sim _ _ _ _ _ _ _ HA HP Es) as (h1 & E1 & R1 & -> & HA1 & HP1).
    destruct (IH _ _ _ _ _ _ HA1 HP1 Er) as (h2 & E2 & R2 & -> & HA2 & HP2).
    exists h2. split_and!.
    + cbn [CoreOps.run_ops]. rewrite (bindM_Ret _ _ _ _ _ E1). cbn [fst snd]. by rewrite (bindM_Ret _ _ _ _ _ E2).
    + rewrite spec_results3_app. by apply (run_ops3_app _ _ _ _ _ _ _ R1 R2).
    + by rewrite spec_run3_app.
    + done.
    + done.
Qed.

Lemma PoolsOK_empty : PoolsOK empty_heap CoreOps.empty_state S0.
Proof. split; intros x Hx; cbn in Hx; by apply elem_of_nil in Hx. Qed.

(** the statement of [C06_history] for the interpreter that is extracted and executed *)
Theorem history_extracted ops xs st' S' :
  runS CoreOps.empty_state S0 ops = Some (xs, st', S') ->
  exists h', CoreOps.run_ops nv CoreOps.empty_state ops empty_heap = Ret ((xs, st'), h') /\
             run_ops3 (tr_hist CoreOps.empty_state S0 ops) empty_heap =
               Ret (spec_results3 S0 (tr_hist CoreOps.empty_state S0 ops), h') /\
             S' = spec_run3 S0 (tr_hist CoreOps.empty_state S0 ops) /\ Abs3 h' S'.
Proof.
  intros E. destruct (runS_sim ops _ _ _ _ _ _ Abs3_empty PoolsOK_empty E) as (h' & H1 & H2 & H3 & H4 & _).
  by exists h'.
Qed.

Corollary history_extracted_accepted ops :
  accepted ops = true ->
  exists xs st' S' h', runS CoreOps.empty_state S0 ops = Some (xs, st', S') /\
    CoreOps.run_ops nv CoreOps.empty_state ops empty_heap = Ret ((xs, st'), h') /\ Abs3 h' S'.
Proof.
  unfold accepted. destruct (runS CoreOps.empty_state S0 ops) as [[[xs st'] S']|] eqn:E; [|done]. intros _.
  destruct (history_extracted _ _ _ _ E) as (h' & H1 & _ & _ & H4). by exists xs, st', S', h'.
Qed.

(** every moment: acceptance is prefix-closed *)
Lemma runS_app ops1 : forall st S ops2 xs st2 S2,
  runS st S (ops1 ++ ops2) = Some (xs, st2, S2) ->
  exists xs1 st1 S1 xs2, runS st S ops1 = Some (xs1, st1, S1) /\ runS st1 S1 ops2 = Some (xs2, st2, S2) /\ xs = xs1 ++ xs2.
Proof.
  induction ops1 as [|o r IH]; intros st S ops2 xs st2 S2 E; cbn [app runS] in *.
  - by exists [], st, S, xs.
  - destruct (stepS st S o) as [[[x sta] Sa]|]; [|done].
    destruct (runS sta Sa (r ++ ops2)) as [[[xr st3] S3]|] eqn:Er; [|done]. injection E as <- <- <-.
    destruct (IH _ _ _ _ _ _ Er) as (xs1 & st1 & S1 & xs2 & -> & E2 & ->). by exists (x :: xs1), st1, S1, xs2.
Qed.

(** * the ledger (C07) for the extracted interpreter *)
Theorem ledger_extracted ops xs st' S' :
  runS CoreOps.empty_state S0 ops = Some (xs, st', S') ->
  exists h1 h2,
    CoreOps.run_ops nv CoreOps.empty_state ops empty_heap = Ret ((xs, st'), h1) /\ Abs3 h1 S' /\
    (forall b, b ∈ lib_live h1 <-> b ∈ owned (a_forest S')) /\
    CoreOps.live_count h1 = length (owned (a_forest S')) /\
    delete_roots (roots (a_forest S')) h1 = Ret (tt, h2) /\ lib_live h2 = ∅ /\ CoreOps.live_count h2 = 0%nat /\
    (forall b, h_own h1 !! b = Some Foreign -> b ∈ h_live h1 -> b ∈ h_live h2 /\ h_str h2 !! b = h_str h1 !! b).
Proof.
  intros E. destruct (history_extracted _ _ _ _ E) as (h1 & H1 & _ & _ & HA).
  destruct (delete_roots_sim (a_forest S') S' h1 eq_refl HA) as (h2 & S2 & E2 & HA2 & _ & HL2).
  exists h1, h2. split_and!; try done.
  - by apply Abs3_ledger.
  - unfold CoreOps.live_count. pose proof (wf_owned_nodup _ _ (Abs3_WF' _ _ HA)) as ND.
    rewrite <- (size_list_to_set (C := gset positive) _ ND). f_equal. apply set_eq. intros b.
    rewrite elem_of_list_to_set. by apply Abs3_ledger.
  - unfold CoreOps.live_count. rewrite HL2. apply size_empty.
  - intros b Ho Hl. apply (cp_foreign _ _ (Cons_delete_roots _ _ _ _ E2 (proj2 HA)) b Ho Hl).
Qed.

(** * what acceptance means, spelled out *)
Lemma stepS_spec st S o x st1 S1 :
  stepS st S o = Some (x, st1, S1) <->
  exists t, tr (sview S) st o = Some t /\
    pre_ok_all3b S (tr_ops t) = true /\                                  (* the rule checker, on the translation *)
    S1 = spec_run3 S (tr_ops t) /\                                       (* the list model's next state *)
    post_okb (t_kind t) S1 (main_res t (spec_results3 S (tr_ops t))) = true /\
    x = encS (t_kind t) S1 (main_res t (spec_results3 S (tr_ops t))) /\  (* the list model's result *)
    st1 = sweepS S1 (new_pools (t_kind t) (t_st t) (main_res t (spec_results3 S (tr_ops t)))).
Proof.
  unfold stepS. split.
  - destruct (tr (sview S) st o) as [t|]; [|done]. cbn zeta.
    destruct (pre_ok_all3b S (tr_ops t) && _) eqn:Eb; [|done]. intros [= <- <- <-].
    apply andb_true_iff in Eb as [H1 H2]. by exists t.
  - intros (t & -> & H1 & -> & H2 & -> & ->). cbn zeta. by rewrite H1, H2.
Qed.

(** the oracle of the extracted driver for "no allocation failure" is [nv] *)
Lemma fail_kth_0_never : CoreOps.fail_kth 0 = nv.
Proof. reflexivity. Qed.
