(** Extract_sort.v — extraction of the executable model of the `sort` area (property C19) to OCaml.
    Only ExtrOcamlBasic is used. *)
Require Import ExtrOcamlBasic.
From CJ Require Import Base Dbl Tree Heap SortDefs.
Extraction Language OCaml.
Extraction "model_sort.ml"
  Base.cstr Base.rd Dbl.sf_of_bits Dbl.bits_of_sf Tree.node_size
  SortDefs.run_sort_case SortDefs.sort_spec SortDefs.cJSONUtils_SortObject SortDefs.cJSONUtils_SortObjectCaseSensitive.
