(** ParseSoundExamples.v — C03, the instance for the reference strtod (LibcNum.v) and labelled
    tests: the hypotheses of the soundness theorem hold for it; a "-" that no digit follows is
    not converted (numbers without digits are rejected); a concrete text using every leniency
    is accepted, derives in the lenient grammar and violates RFC 8259 in each leaf; concrete
    texts of every malformed class are rejected ([vm_compute] on the list-level specification). *)
From CJ Require Import Base Dbl Tree LibcNum ParseDefs ParseSpec Grammar ParseListStrtod
  ParseSoundGrammar ParseSound ParseSoundReject ParseSoundCtx.
Local Open Scope Z_scope.

(** * numbers without digits, for the reference strtod *)

(** "-" followed by something that is neither a digit nor a point followed by a digit *)
Lemma strtod_ref_minus_no_digits s1 :
  nondigit_head s1 -> (forall r, s1 = 46 :: r -> nondigit_head r) -> strtod_ref (45 :: s1) = None.
Proof.
  intros Hnd Hdot. rewrite strtod_ref_alt. unfold strtod_alt.
  change (sign_split (45 :: s1)) with (true, s1, 1%nat). cbv beta iota.
  rewrite (take_digits_nd s1 0 0 Hnd). cbv beta iota.
  rewrite frac_split_spec. destruct s1 as [|x r]; [reflexivity|].
  destruct (Z.eqb_spec x 46) as [->|N]; [|reflexivity].
  rewrite (take_digits_nd r 0 0 (Hdot r eq_refl)). reflexivity.
Qed.

Lemma nondigit_head_run n l : nondigit_head l -> nondigit_head (number_run n l).
Proof.
  destruct n as [|n]; [intros _; exact I|]. destruct l as [|c l]; [intros _; exact I|].
  cbn [number_run nondigit_head]. intro H. destruct (number_byte c); [exact H|exact I].
Qed.

Theorem reject_minus_no_digits f d s1 :
  nondigit_head s1 -> (forall r, s1 = 46 :: r -> nondigit_head r) ->
  value_l strtod_ref f d (45 :: s1) = None.
Proof.
  intros Hnd Hdot. apply reject_unconverted_number; [reflexivity|].
  change (number_run (Z.to_nat (c_NUMBER_C_STRING_SIZE - 1)) (45 :: s1)) with (45 :: number_run 62 s1).
  apply strtod_ref_minus_no_digits.
  - apply nondigit_head_run. exact Hnd.
  - intros r Hr. destruct s1 as [|x s1']; [discriminate|].
    change (number_run 62 (x :: s1')) with (if number_byte x then x :: number_run 61 s1' else []) in Hr.
    destruct (number_byte x); [|discriminate].
    pose proof (f_equal (hd 0) Hr) as Hx. cbn [hd] in Hx. subst x.
    apply (f_equal (@tl Z)) in Hr. cbn [tl] in Hr. subst r.
    apply nondigit_head_run. apply (Hdot s1' eq_refl).
Qed.

(** * non-vacuity: the contract holds for the reference strtod *)
Lemma strtod_ref_hyps : strtod_ok strtod_ref /\ strtod_stable strtod_ref.
Proof. exact strtod_ref_contract. Qed.

(** * an accepted text that uses every leniency:  \x01 [ \t " a \x01 " , 0 1 , 1 . ]  then "x" *)
Definition len_ex_text : bytes := [1; 91; 9; 34; 97; 1; 34; 44; 48; 49; 44; 49; 46; 93].
Definition len_ex_value : jv := JArr [JStr [97; 1]; JNum [48; 49]; JNum [49; 46]].

Example len_ex_accepted :
  text_l strtod_ref (len_ex_text ++ [120]) false = Some (tree_of strtod_ref len_ex_value, [120]).
Proof. vm_compute. reflexivity. Qed.

Example len_ex_accepted_terminated :
  text_l strtod_ref (len_ex_text ++ [32; 0; 120]) true = Some (tree_of strtod_ref len_ex_value, [0; 120]).
Proof. vm_compute. reflexivity. Qed.

(* garbage instead of the terminator: rejected when termination is required *)
Example len_ex_garbage_rejected : text_l strtod_ref (len_ex_text ++ [120; 0]) true = None.
Proof. vm_compute. reflexivity. Qed.

Lemma len_num_01 : len_num_tok strtod_ref [48; 49].
Proof.
  split; [exists 48, [49]; split; reflexivity|]. split; [reflexivity|]. split; [cbn; lia|].
  eexists. vm_compute. reflexivity.
Qed.
Lemma len_num_1dot : len_num_tok strtod_ref [49; 46].
Proof.
  split; [exists 49, [46]; split; reflexivity|]. split; [reflexivity|]. split; [cbn; lia|].
  eexists. vm_compute. reflexivity.
Qed.

Example len_ex_derives : LEN_text strtod_ref len_ex_text len_ex_value.
Proof.
  exists [], [1], [91; 9; 34; 97; 1; 34; 44; 48; 49; 44; 49; 46; 93], [].
  split; [reflexivity|]. split; [left; reflexivity|]. split; [reflexivity|]. split; [reflexivity|].
  (* nesting_limit = S _ whatever CJSON_NESTING_LIMIT >= 1 the source under test defines *)
  set (dl := Nat.pred nesting_limit). replace nesting_limit with (S dl) by (vm_compute; reflexivity).
  apply (v_arr len_ws len_raw (len_num_tok strtod_ref) dl
           [9; 34; 97; 1; 34; 44; 48; 49; 44; 49; 46] [JStr [97; 1]; JNum [48; 49]; JNum [49; 46]]).
  apply (e_cons _ _ _ dl [9] [34; 97; 1; 34] (JStr [97; 1]) [] [48; 49; 44; 49; 46]); try reflexivity.
  - apply (v_str _ _ _ dl [97; 1] [97; 1]).
    apply ch_raw; [discriminate|discriminate|reflexivity|].
    apply ch_raw; [discriminate|discriminate|reflexivity|]. apply ch_nil.
  - apply (e_cons _ _ _ dl [] [48; 49] (JNum [48; 49]) [] [49; 46]); try reflexivity.
    + apply v_num. exact len_num_01.
    + apply (e_one _ _ _ dl [] [49; 46] (JNum [49; 46]) []); try reflexivity.
      apply v_num. exact len_num_1dot.
Qed.

(* ... and each of its three lenient leaves is outside RFC 8259 *)
Example len_ex_not_rfc_leaves :
  rfc_ws 1 = false /\ rfc_raw 1 = false /\ rfc_number [48; 49] = false /\ rfc_number [49; 46] = false.
Proof. repeat split; reflexivity. Qed.

(** * rejected texts, one or more per class *)
(* extra comma before the closing bracket:  [1,]  *)
Example rej_trailing_comma : text_l strtod_ref [91; 49; 44; 93] false = None.
Proof. vm_compute. reflexivity. Qed.

(* extra comma after the opening bracket:  [,1]  *)
Example rej_leading_comma : text_l strtod_ref [91; 44; 49; 93] false = None.
Proof. vm_compute. reflexivity. Qed.

(* missing comma:  [1 2]  *)
Example rej_missing_comma : text_l strtod_ref [91; 49; 32; 50; 93] false = None.
Proof. vm_compute. reflexivity. Qed.

(* mismatched bracket:  [1}  *)
Example rej_mismatched : text_l strtod_ref [91; 49; 125] false = None.
Proof. vm_compute. reflexivity. Qed.

(* unbalanced bracket (truncated):  [[1]  *)
Example rej_unbalanced : text_l strtod_ref [91; 91; 49; 93] false = None.
Proof. vm_compute. reflexivity. Qed.

(* non-string key:  {1:2}  *)
Example rej_nonstring_key : text_l strtod_ref [123; 49; 58; 50; 125] false = None.
Proof. vm_compute. reflexivity. Qed.

(* unquoted key:  {a:1}  *)
Example rej_unquoted_key : text_l strtod_ref [123; 97; 58; 49; 125] false = None.
Proof. vm_compute. reflexivity. Qed.

(* missing colon:  {''a'' 1}  *)
Example rej_missing_colon : text_l strtod_ref [123; 34; 97; 34; 32; 49; 125] false = None.
Proof. vm_compute. reflexivity. Qed.

(* extra colon:  {''a''::1}  *)
Example rej_extra_colon : text_l strtod_ref [123; 34; 97; 34; 58; 58; 49; 125] false = None.
Proof. vm_compute. reflexivity. Qed.

(* trailing comma in an object:  {''a'':1,}  *)
Example rej_obj_trailing_comma : text_l strtod_ref [123; 34; 97; 34; 58; 49; 44; 125] false = None.
Proof. vm_compute. reflexivity. Qed.

(* truncated literal:  nul  *)
Example rej_truncated_lit : text_l strtod_ref [110; 117; 108] false = None.
Proof. vm_compute. reflexivity. Qed.

(* wrongly cased literal:  NULL  *)
Example rej_case_lit : text_l strtod_ref [78; 85; 76; 76] false = None.
Proof. vm_compute. reflexivity. Qed.

(* wrongly cased literal:  True  *)
Example rej_case_lit2 : text_l strtod_ref [84; 114; 117; 101] false = None.
Proof. vm_compute. reflexivity. Qed.

(* misspelt literal:  [fasle]  *)
Example rej_misspelt : text_l strtod_ref [91; 102; 97; 115; 108; 101; 93] false = None.
Proof. vm_compute. reflexivity. Qed.

(* number without digits:  -  *)
Example rej_minus : text_l strtod_ref [45] false = None.
Proof. vm_compute. reflexivity. Qed.

(* number without digits:  [-]  *)
Example rej_minus_in_array : text_l strtod_ref [91; 45; 93] false = None.
Proof. vm_compute. reflexivity. Qed.

(* number without digits:  -e5  *)
Example rej_minus_e : text_l strtod_ref [45; 101; 53] false = None.
Proof. vm_compute. reflexivity. Qed.

(* leading plus:  +1  *)
Example rej_plus : text_l strtod_ref [43; 49] false = None.
Proof. vm_compute. reflexivity. Qed.

(* leading point:  .5  *)
Example rej_dot : text_l strtod_ref [46; 53] false = None.
Proof. vm_compute. reflexivity. Qed.

(* unterminated string:  ''abc  *)
Example rej_unterminated : text_l strtod_ref [34; 97; 98; 99] false = None.
Proof. vm_compute. reflexivity. Qed.

(* unterminated string (escaped quote):  ''abc\''  *)
Example rej_unterminated_esc : text_l strtod_ref [34; 97; 98; 99; 92; 34] false = None.
Proof. vm_compute. reflexivity. Qed.

(* unknown escape:  ''\x41''  *)
Example rej_unknown_escape : text_l strtod_ref [34; 92; 120; 52; 49; 34] false = None.
Proof. vm_compute. reflexivity. Qed.

(* \u without four hex digits:  ''\u12G4''  *)
Example rej_bad_hex : text_l strtod_ref [34; 92; 117; 49; 50; 71; 52; 34] false = None.
Proof. vm_compute. reflexivity. Qed.

(* \u without four hex digits:  ''\u12''  *)
Example rej_short_hex : text_l strtod_ref [34; 92; 117; 49; 50; 34] false = None.
Proof. vm_compute. reflexivity. Qed.

(* lone low surrogate:  ''\uDC00''  *)
Example rej_lone_low : text_l strtod_ref [34; 92; 117; 68; 67; 48; 48; 34] false = None.
Proof. vm_compute. reflexivity. Qed.

(* lone high surrogate:  ''\uD800''  *)
Example rej_lone_high : text_l strtod_ref [34; 92; 117; 68; 56; 48; 48; 34] false = None.
Proof. vm_compute. reflexivity. Qed.

(* high surrogate followed by a high surrogate:  ''\uD800\uD800''  *)
Example rej_high_high : text_l strtod_ref [34; 92; 117; 68; 56; 48; 48; 92; 117; 68; 56; 48; 48; 34] false = None.
Proof. vm_compute. reflexivity. Qed.

(* surrogates in the wrong order:  ''\uDC00\uD800''  *)
Example rej_reversed : text_l strtod_ref [34; 92; 117; 68; 67; 48; 48; 92; 117; 68; 56; 48; 48; 34] false = None.
Proof. vm_compute. reflexivity. Qed.

(* single quotes:  'a'  *)
Example rej_single_quote : text_l strtod_ref [39; 97; 39] false = None.
Proof. vm_compute. reflexivity. Qed.

(* empty input:    *)
Example rej_empty : text_l strtod_ref [] false = None.
Proof. vm_compute. reflexivity. Qed.

(* whitespace only:   \x09\x0a  *)
Example rej_ws_only : text_l strtod_ref [32; 9; 10] false = None.
Proof. vm_compute. reflexivity. Qed.

(* one more nested array than CJSON_NESTING_LIMIT is refused; exactly CJSON_NESTING_LIMIT are accepted (whatever the limit is) *)
Example rej_too_deep : text_l strtod_ref (repeat 91 (S nesting_limit) ++ repeat 93 (S nesting_limit)) false = None.
Proof. vm_compute. reflexivity. Qed.
Example acc_at_limit : exists t, text_l strtod_ref (repeat 91 nesting_limit ++ repeat 93 nesting_limit) false = Some (t, []).
Proof. eexists. vm_compute. reflexivity. Qed.

(** * a defect deep inside a text, through the general context theorem:
      [1,{''k'':''a\x''}]   (unknown escape in a member value of an object that is the second element) *)
Definition ctx_ex_text : bytes := [91; 49; 44; 123; 34; 107; 34; 58; 34; 97; 92; 120; 34; 125; 93].

Example ctx_ex_context :
  vctx strtod_ref 0 ctx_ex_text (FS [92; 120; 34; 125; 93]) /\ dead strtod_ref (FS [92; 120; 34; 125; 93]).
Proof.
  split.
  - unfold ctx_ex_text. apply vc_arr; [intros r1 H; vm_compute in H; discriminate|].
    apply (ec_next strtod_ref (0 + 1) _ 1%nat (tree_of strtod_ref (JNum [49])) [44; 123; 34; 107; 34; 58; 34; 97; 92; 120; 34; 125; 93]
             [123; 34; 107; 34; 58; 34; 97; 92; 120; 34; 125; 93]); [vm_compute; reflexivity|reflexivity|].
    apply ec_elem. change (drop_ws [123; 34; 107; 34; 58; 34; 97; 92; 120; 34; 125; 93]) with (123 :: [34; 107; 34; 58; 34; 97; 92; 120; 34; 125; 93]).
    apply vc_obj; [intros r1 H; vm_compute in H; discriminate|].
    apply (mc_val strtod_ref (0 + 1 + 1) _ [107; 34; 58; 34; 97; 92; 120; 34; 125; 93] [107] [58; 34; 97; 92; 120; 34; 125; 93]
             [34; 97; 92; 120; 34; 125; 93]); [reflexivity|vm_compute; reflexivity|reflexivity|].
    change (drop_ws [34; 97; 92; 120; 34; 125; 93]) with (34 :: [97] ++ [92; 120; 34; 125; 93]).
    apply (vc_str strtod_ref _ [97] [97]).
    apply ch_raw; [discriminate|discriminate|reflexivity|apply ch_nil].
  - cbn [dead]. apply dead_unknown_escape; [reflexivity|discriminate].
Qed.

Example ctx_ex_rejected : text_l strtod_ref ctx_ex_text false = None.
Proof.
  destruct ctx_ex_context as [Hc Hd]. eapply reject_in_context; [|exact Hd]. exact Hc.
Qed.
