(** CoreHistoryAllSteps.v — the STEP lemmas behind [CoreHistoryAll.history_sim3]: every piece of the
    public tree API keeps the representation invariant [Abs3] when no allocation fails.

    * [Abs3 h S] = [CoreRefineHistoryObj.Abs2 h S] ([WF] + [NoLeak] + allocator counters + string
      heap agreement + [StrInv] + [KeysOK]) + [CoreLedgerGen.HeapOK h] (contains [live_below]).
    * [Step m S S' r]: from every heap that represents [S] the computation [m] returns [r]
      (never an error outcome) in a heap that represents [S'].  Steps compose ([Step_bind]).
    * [Abs2_build]: the representation after a call from [WF], [NoLeak], the string-heap equation
      and the key clause; everything else comes from the generic [Cons] facts.
    * pieces: every call of the alphabet [op2] ([Step_op2], from [step_sim2]); constructors with
      payload, reference constructors, [create_reference]; the value setters; every exit of
      [cJSON_SetValuestring]; [replace_item_in_object]; the value queries. *)
From CJ Require Import Base Dbl Heap Forest ForestLemmas CoreSpec CoreDefs CoreRefineBase CoreRefine
  CoreRefineDelete CoreRefineReplace CoreRefineMore CoreRefineFrame CoreRefineHistory CoreRefineObject
  CoreRefineByKey CoreRefineAddObject CoreRefineHistoryObj CoreRefineReplaceKey CoreRefineReplaceKeyAbs
  CoreRefineCreate CoreRefineSet CoreRefineRef CoreLedgerGen.
From CJ.gen Require Import Constants.
From Coq Require Import Floats.SpecFloat.
From stdpp Require Import gmap.
Implicit Types (h : heap) (F : forest) (d : rdata).
Local Open Scope Z_scope.

(** the allocator never refuses *)
Notation nv := CoreRefineCreate.never.

Definition Abs3 h (S : astate2) : Prop := Abs2 h S /\ HeapOK h.

Definition Step {A} (m : M A) (S S' : astate2) (r : A) : Prop :=
  forall h, Abs3 h S -> exists h', m h = Ret (r, h') /\ Abs3 h' S'.

Lemma Step_ret {A} (a : A) S : Step (ret a) S S a.
Proof. intros h HA. by exists h. Qed.
Lemma Step_bind {A B} (m : M A) (f : A -> M B) S S1 S2 a b :
  Step m S S1 a -> Step (f a) S1 S2 b -> Step (bindM m f) S S2 b.
Proof.
  intros H1 H2 h HA. destruct (H1 h HA) as (h1 & E1 & HA1). destruct (H2 h1 HA1) as (h2 & E2 & HA2).
  exists h2. by rewrite (bindM_Ret _ _ _ _ _ E1).
Qed.
Lemma Step_ext {A} (m m' : M A) S S' r : (forall h, m h = m' h) -> Step m' S S' r -> Step m S S' r.
Proof. intros E H h HA. rewrite E. by apply H. Qed.
(** forget the result wrapper *)
Lemma Step_unwrap {A B} (f : A -> B) (g : B -> A) (m : M A) S S' r :
  (forall a, g (f a) = a) -> Step (a <~ m ;; ret (f a)) S S' r -> Step m S S' (g r).
Proof.
  intros Hg H h HA. destruct (H h HA) as (h' & E & HA'). unfold bindM in E.
  destruct (m h) as [[a h1]|e]; [|done]. injection E as <- <-. exists h1. by rewrite Hg.
Qed.
Lemma Step_wrap {A B} (f : A -> B) (m : M A) S S' r : Step m S S' r -> Step (a <~ m ;; ret (f a)) S S' (f r).
Proof. intros H. eapply Step_bind; [exact H|apply Step_ret]. Qed.

(** a step that establishes [Abs2]; [HeapOK] is generic *)
Lemma Step_intro {A} (m : M A) S S' r :
  Cons m -> (forall h, Abs3 h S -> exists h', m h = Ret (r, h') /\ Abs2 h' S') -> Step m S S' r.
Proof.
  intros C H h HA. destruct (H h HA) as (h' & E & HA'). exists h'. split; [done|]. split; [done|].
  apply (C _ _ _ E (proj2 HA)).
Qed.

(** * the representation after a call *)
Definition mk3 (F : forest) (nx : positive) (rq : nat) (str : gmap positive bytes) (fg : gset positive) : astate2 :=
  mkAS2 (mkAS F nx rq) str fg.
Definition nxt (S : astate2) : positive := as_next (a_st S).
Definition req (S : astate2) : nat := as_req (a_st S).

Lemma Abs2_build h h' S F' (str' : gmap positive bytes) :
  Abs3 h S -> Cons_post h h' -> WF h' F' -> NoLeak h' F' -> h_str h' = str' ->
  (forall e b, e ∈ datas F' -> rd_key e.2 = Some b ->
     (exists s : bytes, str' !! b = Some s /\ has0 s = true) /\ (is_const e.2 = true -> b ∈ a_foreign S)) ->
  Abs2 h' (mk3 F' (h_next h') (h_req h') str' (a_foreign S)).
Proof.
  intros [HA2 K] CP W' NL' Hstr HK. destruct HA2 as ((W & NL & Hnext & Hreq) & Hs & [SI1 SI2] & KO).
  destruct CP as [K' Cn Co Cf]. split_and!.
  - by split_and!.
  - done.
  - split; cbn [a_str a_foreign mk3].
    + intros b s Hb. rewrite <- Hstr in Hb. destruct (hk_str _ K' b ltac:(eauto)) as [Hl _].
      split; [done|by apply (hk_live _ K')].
    + intros b Hb. destruct (SI2 b Hb) as [Ho [s Hbs]]. destruct (SI1 b s Hbs) as [Hl Hlt].
      split; [by rewrite Co|]. destruct (Cf b Ho Hl) as [_ E]. rewrite <- Hstr, E, Hs. eauto.
  - exact HK.
Qed.

(** foreign blocks keep their contents over a call *)
Lemma foreign_kept h h' S b (s : bytes) :
  Abs3 h S -> Cons_post h h' -> b ∈ a_foreign S -> a_str S !! b = Some s -> h_str h' !! b = Some s.
Proof.
  intros [HA2 K] CP Hb Hs. destruct HA2 as (_ & Hstr & [SI1 SI2] & _).
  destruct (SI2 b Hb) as [Ho _]. destruct (SI1 b s Hs) as [Hl _].
  destruct (cp_foreign _ _ CP b Ho Hl) as [_ E]. by rewrite E, Hstr.
Qed.

(** * every call of the alphabet [op2] *)
Lemma Cons_run_op oracle o : Cons (run_op oracle o).
Proof.
  destruct o; cbn [run_op]; cons; auto with cons.
  all: try (unfold cJSON_AddItemToArray; auto with cons).
Qed.
Lemma Cons_run_op2 oracle o : Cons (run_op2 oracle o).
Proof.
  destruct o; cbn [run_op2]; cons; auto using Cons_run_op with cons.
Qed.

Lemma Step_op2 S o : pre_ok2 S o -> Step (run_op2 nv o) S (spec_step2 nv S o).1 (spec_step2 nv S o).2.
Proof.
  intros Hpre. apply Step_intro; [apply Cons_run_op2|]. intros h [HA _]. by apply step_sim2.
Qed.

Definition res_bool (r : res) : bool := match r with RBool b => b | _ => false end.
Definition res_ptr (r : res) : ptr := match r with RPtr q => q | _ => None end.
Lemma res_bool_RBool b : res_bool (RBool b) = b. Proof. done. Qed.
Lemma res_ptr_RPtr q : res_ptr (RPtr q) = q. Proof. done. Qed.

(** * constructors that allocate one node: [new_node h d], [d] without key *)
Definition spec_new_node (S : astate2) (d : rdata) : astate2 * ptr :=
  (mk3 (spec_create (a_forest S) (nxt S) d) (Pos.succ (nxt S)) (Datatypes.S (req S)) (a_str S) (a_foreign S),
   Some (nxt S)).

Lemma datas_spec_create F id d : datas (spec_create F id d) = datas F ++ [(id, d)].
Proof. unfold spec_create. by rewrite datas_app. Qed.

Lemma Step_ctor1 (m : M ptr) S d :
  Cons m -> rd_key d = None ->
  (forall h, WF h (a_forest S) -> live_below h -> ctor1_post nv m h (a_forest S) d) ->
  Step m S (spec_new_node S d).1 (spec_new_node S d).2.
Proof.
  intros C Hk Hm. apply Step_intro; [done|]. intros h HA. pose proof HA as [HA2 K].
  pose proof HA2 as ((W & NL & Hnext & Hreq) & Hs & [SI1 SI2] & KO).
  destruct (ctor1_total _ _ _ _ (Hm h W (hk_live _ K))) as (E & W' & _ & NL').
  exists (new_node h d). unfold spec_new_node, nxt, req. cbn [fst snd]. rewrite <- Hnext, <- Hreq.
  split; [exact E|].
  change (Pos.succ (h_next h)) with (h_next (new_node h d)).
  change (Datatypes.S (h_req h)) with (h_req (new_node h d)).
  apply (Abs2_build h); try done.
  - apply (C _ _ _ E K).
  - by apply NL'.
  - intros e b He Hb. rewrite datas_spec_create in He. apply elem_of_app in He as [He|He].
    + by apply KO.
    + apply elem_of_list_singleton in He as ->. cbn in Hb. congruence.
Qed.

Lemma Step_CreateNumber S n :
  Step (cJSON_CreateNumber nv n) S (spec_new_node S (rd_number n)).1 (spec_new_node S (rd_number n)).2.
Proof. apply Step_ctor1; [auto with cons|done|]. intros h W LB. by apply cJSON_CreateNumber_sim. Qed.
Lemma Step_CreateStringReference S s :
  Step (cJSON_CreateStringReference nv s) S (spec_new_node S (rd_string_ref s)).1 (spec_new_node S (rd_string_ref s)).2.
Proof. apply Step_ctor1; [auto with cons|done|]. intros h W LB. by apply cJSON_CreateStringReference_sim. Qed.
Lemma Step_CreateObjectReference S c :
  Step (cJSON_CreateObjectReference nv c) S (spec_new_node S (rd_container_ref c_cJSON_Object c)).1
       (spec_new_node S (rd_container_ref c_cJSON_Object c)).2.
Proof. apply Step_ctor1; [auto with cons|done|]. intros h W LB. by apply cJSON_CreateObjectReference_sim. Qed.
Lemma Step_CreateArrayReference S c :
  Step (cJSON_CreateArrayReference nv c) S (spec_new_node S (rd_container_ref c_cJSON_Array c)).1
       (spec_new_node S (rd_container_ref c_cJSON_Array c)).2.
Proof. apply Step_ctor1; [auto with cons|done|]. intros h W LB. by apply cJSON_CreateArrayReference_sim. Qed.

(** [create_reference] (static in cJSON.c; a piece of the two cJSON_AddItemReference* calls) *)
Definition spec_create_ref (S : astate2) (item : ptr) : astate2 * ptr :=
  match item with
  | Some y => match find_tree y (a_forest S) with
              | Some n => spec_new_node S (rd_reference (tdata n) (cids n))
              | None => (S, None)
              end
  | None => (S, None)
  end.
Definition ref_target (S : astate2) (item : ptr) : Prop :=
  item = None \/ exists y, item = Some y /\ is_Some (find_tree y (a_forest S)).

Lemma Step_create_reference S item :
  ref_target S item -> Step (create_reference nv item) S (spec_create_ref S item).1 (spec_create_ref S item).2.
Proof.
  intros [->|(y & -> & [n Hn])]; [apply Step_ret|]. unfold spec_create_ref. rewrite Hn.
  apply Step_ctor1; [auto with cons|done|]. intros h W LB. apply create_reference_sim; [done..|].
  apply find_tree_Some in Hn as [Hn <-]. apply (elem_of_flat _ _ Hn).
Qed.

(** * cJSON_CreateString / cJSON_CreateRaw: the node, then the copy of the caller's string *)
Definition spec_new_string (S : astate2) (ty : Z) (sb : ptr) : astate2 * ptr :=
  match sb with
  | Some b =>
      match a_str S !! b with
      | Some s =>
          let id := nxt S in
          (mk3 (spec_create (a_forest S) id (rd_string ty (Pos.succ id))) (Pos.succ (Pos.succ id))
               (Datatypes.S (Datatypes.S (req S))) (<[Pos.succ id := cstr s ++ [0]]> (a_str S)) (a_foreign S),
           Some id)
      | None => (S, None)
      end
  | None =>   (* a NULL string: the node is allocated and released again, NULL is returned *)
      (mk3 (a_forest S) (Pos.succ (nxt S)) (Datatypes.S (req S)) (a_str S) (a_foreign S), None)
  end.

Lemma run_create_string_like_null ty h F :
  WF h F -> live_below h ->
  create_string_like nv ty None h = Ret (None, free1 (h_next h) (new_node h (rd_of_type ty))) /\
  clean_failure h (free1 (h_next h) (new_node h (rd_of_type ty))).
Proof.
  intros W LB. unfold create_string_like, cJSON_New_Item.
  rewrite (bindM_Ret _ _ _ _ _ (run_alloc_node_ok nv _ eq_refl)). cbn [is_null].
  rewrite (bindM_Ret _ _ _ _ _ (run_set_type_plain _ _ _ ty (new_node_live _ _) (new_node_dat _ _))).
  rewrite (new_node_set h _ _ (rd_of_type ty)) by reflexivity.
  set (h1 := new_node h (rd_of_type ty)).
  rewrite (bindM_Ret _ _ _ _ _ (CoreRefineCreate.cJSON_strdup_null nv h1)). unfold h1.
  rewrite (bindM_Ret _ _ _ _ _ (run_set_vstr_plain _ _ _ None (new_node_live _ _) (new_node_dat _ _))).
  rewrite (new_node_set h _ _ (rd_of_type ty)) by reflexivity.
  rewrite (bindM_Ret _ _ _ _ _ (run_get_vstr_plain _ _ _ (new_node_live _ _) (new_node_dat _ _))).
  cbn [nd_vstr mk_dat rd_vstr rd_of_type is_null].
  destruct (cJSON_Delete_new_node h F (rd_of_type ty) _ W LB (owned_strs_of_type ty) ltac:(done) (or_introl eq_refl)) as [Hdel Hcf].
  rewrite (bindM_Ret _ _ _ _ _ Hdel). done.
Qed.

Lemma name_ok_Readable h S n :
  Abs3 h S -> name_ok S n -> exists nb (s : bytes), n = Some nb /\ CoreRefineCreate.Readable h nb /\
    a_str S !! nb = Some s /\ h_str h !! nb = Some s /\ has0 s = true /\ str_at h nb = cstr s /\ (nb < h_next h)%positive.
Proof.
  intros [HA2 K] Hn. destruct (name_ok_readable h S n HA2 Hn) as (nb & s & -> & Hl & Hs & Hz & Hs').
  exists nb, s. split_and!; try done.
  - split; [done|]. by exists s.
  - unfold str_at. unfold bytes in *. by rewrite Hs.
  - by apply (hk_live _ K).
Qed.

Lemma Step_create_string_like S ty sb :
  Z.land ty c_cJSON_IsReference = 0 -> Z.land ty c_cJSON_StringIsConst = 0 -> sb = None \/ name_ok S sb ->
  Step (create_string_like nv ty sb) S (spec_new_string S ty sb).1 (spec_new_string S ty sb).2.
Proof.
  intros Hr Hc Hn. apply Step_intro; [auto with cons|]. intros h HA. pose proof HA as [HA2 K].
  pose proof HA2 as ((W & NL & Hnext & Hreq) & Hs & [SI1 SI2] & KO).
  destruct Hn as [->|Hn].
  { destruct (run_create_string_like_null ty h _ W (hk_live _ K)) as [E Hcf].
    eexists. split; [exact E|]. cbn [spec_new_string fst]. unfold nxt, req. rewrite <- Hnext, <- Hreq.
    set (h' := free1 (h_next h) (new_node h (rd_of_type ty))).
    change (Pos.succ (h_next h)) with (h_next h'). change (Datatypes.S (h_req h)) with (h_req h').
    refine (Abs2_build h h' S _ _ HA (Cons_create_string_like nv ty None _ _ _ E K)
              (clean_failure_WF _ _ _ W Hcf) (clean_failure_NoLeak _ _ _ (hk_live _ K) Hcf NL) _ KO).
    cbn. rewrite <- Hs. apply delete_notin. destruct (h_str h !! h_next h) eqn:Eh; [|done].
    destruct (hk_str _ K (h_next h) ltac:(eauto)) as [Hl _]. pose proof (hk_live _ K _ Hl). lia. }
  destruct (name_ok_Readable h S sb HA Hn) as (nb & s & -> & HR & Hs1 & Hs2 & Hz & Hat & Hlt).
  destruct (create_string_like_sim nv ty h _ nb W (hk_live _ K) HR Hr Hc)
    as [(_ & _ & E & W' & _ & NL' & _)|(h' & _ & _ & Hf)]; [|by apply refused_false in Hf].
  cbn zeta in E, W', NL'. rewrite Hat in E.
  eexists. split; [|].
  { unfold spec_new_string. rewrite Hs1. cbn [snd]. unfold nxt. rewrite <- Hnext. exact E. }
  unfold spec_new_string. rewrite Hs1. cbn [fst]. unfold nxt, req. rewrite <- Hnext, <- Hreq.
  set (h' := new_string h ty (cstr s ++ [0])).
  change (Pos.succ (Pos.succ (h_next h))) with (h_next h').
  change (Datatypes.S (Datatypes.S (h_req h))) with (h_req h').
  apply (Abs2_build h); try done.
  - apply (Cons_create_string_like nv ty (Some nb) _ _ _ E K).
  - rewrite Hat in W'. exact W'.
  - rewrite Hat in NL'. by apply NL'.
  - cbn. by rewrite Hs.
  - intros e b He Hb. rewrite datas_spec_create in He. apply elem_of_app in He as [He|He].
    + destruct (KO e b He Hb) as [(s' & Hs' & Hz') Hcc]. split; [|done]. exists s'. split; [|done].
      destruct (SI1 _ _ Hs') as [_ Hb']. rewrite lookup_insert_ne by lia. done.
    + apply elem_of_list_singleton in He as ->. cbn in Hb. congruence.
Qed.

(** * setters that change the data of one node and nothing else *)
Lemma datas_set_data F x d cs d' e :
  NoDup (ids F) -> find_tree x F = Some (T x d cs) -> e ∈ datas (set_data x d' F) ->
  (x, d) ∈ datas F /\ (e = (x, d') \/ e ∈ datas F).
Proof.
  intros ND Hx He. apply find_tree_Some in Hx as [Hx _].
  destruct (flat_set_data F x d cs ND Hx) as (FL & E1 & E2). unfold datas in *. rewrite (E2 d') in He. rewrite E1.
  cbn. split; [by left|]. apply elem_of_cons in He as [->|He]; [by left|]. right. by right.
Qed.

Lemma Step_set_data {A} (m : M A) S x d cs d' (r : A) :
  Cons m -> find_tree x (a_forest S) = Some (T x d cs) -> rd_key d' = rd_key d -> is_const d' = is_const d ->
  (forall h, WF h (a_forest S) ->
     let F' := set_data x d' (a_forest S) in let h' := upd_maps h (heap_lnk_of F') (heap_dat_of F') in
     m h = Ret (r, h') /\ WF h' F' /\ (NoLeak h (a_forest S) -> NoLeak h' F')) ->
  Step m S (mk3 (set_data x d' (a_forest S)) (nxt S) (req S) (a_str S) (a_foreign S)) r.
Proof.
  intros C Hx Hk Hc Hm. apply Step_intro; [done|]. intros h HA. pose proof HA as [HA2 K].
  pose proof HA2 as ((W & NL & Hnext & Hreq) & Hs & [SI1 SI2] & KO).
  destruct (Hm h W) as (E & W' & NL'). cbn zeta in *. eexists. split; [exact E|].
  unfold nxt, req. rewrite <- Hnext, <- Hreq.
  match goal with |- Abs2 ?hh _ => change (h_next h) with (h_next hh); change (h_req h) with (h_req hh) end.
  apply (Abs2_build h); try done.
  - apply (C _ _ _ E K).
  - by apply NL'.
  - intros e b He Hb. destruct (datas_set_data _ _ _ _ _ _ (wf_nodup _ _ W) Hx He) as [Hxd [->|He']].
    + cbn [snd] in *. rewrite Hk in Hb. rewrite Hc. by apply (KO (x, d) b).
    + by apply KO.
Qed.

(** the list-model side of the three setters on a node that exists *)
Definition spec_set_number3 (S : astate2) (object : ptr) (n : dbl) : astate2 :=
  mk3 (spec_set_number (a_forest S) object n).1 (nxt S) (req S) (a_str S) (a_foreign S).
Definition spec_set_int3 (S : astate2) (object : ptr) (z : Z) : astate2 :=
  mk3 (spec_set_int (a_forest S) object z).1 (nxt S) (req S) (a_str S) (a_foreign S).
Definition spec_set_bool3 (S : astate2) (object : ptr) (bv : bool) : astate2 * Z :=
  (mk3 (spec_set_bool (a_forest S) object bv).1 (nxt S) (req S) (a_str S) (a_foreign S),
   (spec_set_bool (a_forest S) object bv).2).

Definition node_or_null (S : astate2) (object : ptr) : Prop :=
  object = None \/ exists x, object = Some x /\ is_Some (find_tree x (a_forest S)).

Lemma mk3_same S : mk3 (a_forest S) (nxt S) (req S) (a_str S) (a_foreign S) = S.
Proof. by destruct S as [[F nx rq] st fg]. Qed.

Lemma Step_same {A} (m : M A) S (r : A) : (forall h, Abs3 h S -> m h = Ret (r, h)) -> Step m S S r.
Proof. intros H h HA. exists h. split; [by apply H|done]. Qed.

Lemma Step_SetNumberValue S object n :
  node_or_null S object -> Step (cJSON_SetNumberValue object n) S (spec_set_number3 S object n) n.
Proof.
  intros [->|(x & -> & [nd Hx])].
  - unfold spec_set_number3. cbn. rewrite mk3_same. by apply Step_same.
  - pose proof (find_tree_shape _ _ _ Hx) as Hsh. rewrite Hsh in Hx.
    unfold spec_set_number3, spec_set_number, spec_update. rewrite Hx. cbn [fst tdata].
    eapply Step_set_data; [auto with cons|exact Hx|done|done|].
    intros h W. cbn zeta. by destruct (cJSON_SetNumberValue_sim h _ x _ _ n W Hx) as (_ & H2 & H3 & H4).
Qed.
Lemma Step_SetIntValue S object z :
  node_or_null S object -> Step (cJSON_SetIntValue object z) S (spec_set_int3 S object z) z.
Proof.
  intros [->|(x & -> & [nd Hx])].
  - unfold spec_set_int3. cbn. rewrite mk3_same. by apply Step_same.
  - pose proof (find_tree_shape _ _ _ Hx) as Hsh. rewrite Hsh in Hx.
    unfold spec_set_int3, spec_set_int, spec_update. rewrite Hx. cbn [fst tdata].
    eapply Step_set_data; [auto with cons|exact Hx|done|done|].
    intros h W. cbn zeta. by destruct (cJSON_SetIntValue_sim h _ x _ _ z W Hx) as (_ & H2 & H3 & H4).
Qed.
Lemma Step_SetBoolValue S object bv :
  node_or_null S object -> Step (cJSON_SetBoolValue object bv) S (spec_set_bool3 S object bv).1 (spec_set_bool3 S object bv).2.
Proof.
  intros [->|(x & -> & [nd Hx])].
  - unfold spec_set_bool3. cbn. rewrite mk3_same. by apply Step_same.
  - pose proof (find_tree_shape _ _ _ Hx) as Hsh. rewrite Hsh in Hx.
    unfold spec_set_bool3, spec_set_bool. rewrite Hx. cbn [tdata].
    destruct (has_flag (rd_type (tdata nd)) (Z.lor c_cJSON_False c_cJSON_True)) eqn:Hb; cbn [fst snd].
    + eapply Step_set_data; [auto with cons|exact Hx|done|apply bool_type_is_const|].
      intros h W. cbn zeta. by destruct (cJSON_SetBoolValue_sim h _ x _ _ bv W Hx Hb) as (_ & H2 & H3 & H4).
    + rewrite mk3_same. apply Step_same. intros h [((W & _) & _) _].
      by destruct (cJSON_SetBoolValue_not_bool h _ x _ _ bv W Hx Hb) as [_ H2].
Qed.

(** * cJSON_SetValuestring, every exit *)

(** the valuestring block of an ordinary node is nobody's key *)
Lemma vstr_not_key h S x d vb e b :
  Abs2 h S -> (x, d) ∈ datas (a_forest S) -> is_ref d = false -> rd_vstr d = Some vb ->
  e ∈ datas (a_forest S) -> rd_key e.2 = Some b -> b <> vb.
Proof.
  intros ((W & _) & _ & [SI1 SI2] & KO) Hxd Hr Hv He Hb ->.
  pose proof (wf_owned_nodup _ _ W) as NDo. rewrite owned_datas in NDo.
  assert (Hvo : vb ∈ owned_strs d) by (unfold owned_strs; rewrite Hr, Hv; apply elem_of_app; left; by left).
  destruct (is_const e.2) eqn:Hce.
  - destruct (KO e vb He Hb) as [_ Hf]. destruct (SI2 vb (Hf Hce)) as [Hfo _].
    assert (Hin : vb ∈ owned (a_forest S)).
    { rewrite owned_datas. apply elem_of_list_bind. exists (x, d). split; [|done]. by right. }
    rewrite (wf_owned_lib _ _ W _ Hin) in Hfo. done.
  - assert (Hko : vb ∈ owned_strs e.2) by (unfold owned_strs; rewrite Hce, Hb; apply elem_of_app; right; by left).
    apply elem_of_Permutation in Hxd as [DR HDR]. rewrite HDR in NDo, He. rewrite owned_of_cons in NDo. cbn [fst snd] in NDo.
    apply NoDup_app in NDo as (N1 & N12 & N2). apply elem_of_cons in He as [->|He].
    + cbn [snd] in *. apply NoDup_cons in N1 as [_ N1]. unfold owned_strs in N1. rewrite Hr, Hv, Hce, Hb in N1.
      cbn in N1. apply NoDup_cons in N1 as [N1 _]. apply N1. by left.
    + apply (N12 vb); [by right|]. apply elem_of_list_bind. exists e. split; [by right|done].
Qed.

Definition spec_set_valuestring3 (S : astate2) (object valuestring : ptr) : astate2 * ptr :=
  match object, valuestring with
  | Some x, Some sb =>
      match find_tree x (a_forest S) with
      | Some n =>
          let d := tdata n in
          if negb (has_flag (rd_type d) c_cJSON_String) || is_ref d then (S, None) else
          match rd_vstr d with
          | None => (S, None)
          | Some vb =>
              match a_str S !! sb, a_str S !! vb with
              | Some s, Some old =>
                  if (length (cstr s) <=? length (cstr old))%nat then
                    if decide (sb = vb) then (S, None)
                    else (mk3 (a_forest S) (nxt S) (req S)
                              (<[vb := cstr s ++ 0 :: skipn (Datatypes.S (length (cstr s))) old]> (a_str S)) (a_foreign S),
                          Some vb)
                  else
                    let nb := nxt S in
                    (mk3 (set_data x (rd_set_vstr d (Some nb)) (a_forest S)) (Pos.succ nb) (Datatypes.S (req S))
                         (delete vb (<[nb := cstr s ++ [0]]> (a_str S))) (a_foreign S),
                     Some nb)
              | _, _ => (S, None)
              end
          end
      | None => (S, None)
      end
  | _, _ => (S, None)
  end.

Definition pre_set_valuestring (S : astate2) (object valuestring : ptr) : Prop :=
  object = None \/
  exists x n, object = Some x /\ find_tree x (a_forest S) = Some n /\
    ((has_flag (rd_type (tdata n)) c_cJSON_String = false \/ is_ref (tdata n) = true \/ rd_vstr (tdata n) = None \/
      valuestring = None) \/
     (name_ok S valuestring /\ name_ok S (rd_vstr (tdata n)))).

Lemma Step_SetValuestring S object v :
  pre_set_valuestring S object v ->
  Step (cJSON_SetValuestring nv object v) S (spec_set_valuestring3 S object v).1 (spec_set_valuestring3 S object v).2.
Proof.
  intros [->|(x & n & -> & Hx & Hcase)]; [by apply Step_same|].
  pose proof (find_tree_shape _ _ _ Hx) as Hsh. set (d := tdata n) in *. set (cs := tchildren n) in *. rewrite Hsh in Hx.
  destruct Hcase as [Href|[Hnv Hnvs]].
  - (* refused *)
    assert (Hspec : spec_set_valuestring3 S (Some x) v = (S, None)).
    { unfold spec_set_valuestring3. destruct v as [sb|]; [|done]. rewrite Hx. cbn [tdata].
      destruct (has_flag (rd_type d) c_cJSON_String); [|done]. destruct (is_ref d); [done|]. cbn [negb orb].
      destruct (rd_vstr d); [|done]. destruct Href as [H|[H|[H|H]]]; done. }
    rewrite Hspec. apply Step_same. intros h [((W & _) & _) _].
    by destruct (cJSON_SetValuestring_refused nv h _ x d cs v None W Hx Href) as [_ H2].
  - destruct (has_flag (rd_type d) c_cJSON_String) eqn:Hs.
    2:{ assert (Hspec : spec_set_valuestring3 S (Some x) v = (S, None)).
        { unfold spec_set_valuestring3. destruct v as [sb|]; [|done]. rewrite Hx. cbn [tdata]. fold d. by rewrite Hs. }
        rewrite Hspec. apply Step_same. intros h [((W & _) & _) _].
        by destruct (cJSON_SetValuestring_refused nv h _ x d cs v None W Hx (or_introl Hs)) as [_ H2]. }
    destruct (is_ref d) eqn:Hr.
    { assert (Hspec : spec_set_valuestring3 S (Some x) v = (S, None)).
      { unfold spec_set_valuestring3. destruct v as [sb|]; [|done]. rewrite Hx. cbn [tdata]. fold d. rewrite Hs, Hr. done. }
      rewrite Hspec. apply Step_same. intros h [((W & _) & _) _].
      by destruct (cJSON_SetValuestring_refused nv h _ x d cs v None W Hx (or_intror (or_introl Hr))) as [_ H2]. }
    apply Step_intro; [auto with cons|]. intros h HA. pose proof HA as [HA2 K].
    pose proof HA2 as ((W & NL & Hnext & Hreq) & Hstr & [SI1 SI2] & KO).
    destruct (name_ok_Readable h S v HA Hnv) as (sb & s & -> & HRs & Hs1 & Hs2 & Hz & Hat & Hlt).
    destruct (name_ok_Readable h S _ HA Hnvs) as (vb & old & Hv & HRv & Hv1 & Hv2 & Hzv & Hatv & Hltv).
    assert (Hxd : (x, d) ∈ datas (a_forest S)).
    { pose proof (find_tree_flat _ _ _ _ Hx) as Hfl. unfold datas. apply elem_of_list_fmap. by exists (x, d, tid <$> cs). }
    unfold spec_set_valuestring3. rewrite Hx. cbn [tdata]. fold d. rewrite Hs, Hr, Hv, Hs1, Hv1. cbn [negb orb].
    destruct (length (cstr s) <=? length (cstr old))%nat eqn:Hlen.
    + apply Nat.leb_le in Hlen. destruct (decide (sb = vb)) as [->|Hne].
      * (* the argument is the node's own valuestring *)
        exists h. split; [|done].
        by destruct (cJSON_SetValuestring_alias nv h _ x d cs vb None W Hx Hs Hr Hv HRv) as [_ H2].
      * (* in place *)
        destruct (cJSON_SetValuestring_inplace nv h _ x d cs vb sb old None W Hx Hs Hr Hv HRs HRv Hne Hv2)
          as (_ & E & W' & NL' & _); [by rewrite Hat, Hatv|].
        cbn zeta in E, W', NL'. rewrite Hat in E, W', NL'. eexists. split; [exact E|]. cbn [fst].
        unfold nxt, req. rewrite <- Hnext, <- Hreq.
        match goal with |- Abs2 ?hh _ => change (h_next h) with (h_next hh); change (h_req h) with (h_req hh) end.
        refine (Abs2_build h _ S _ _ HA (Cons_cJSON_SetValuestring nv _ _ _ _ _ E K) W' (NL' NL) _ _).
        -- cbn. by rewrite Hstr.
        -- intros e b He Hb. destruct (KO e b He Hb) as [(s' & Hs' & Hz') Hcc]. split; [|done].
           exists s'. split; [|done]. rewrite lookup_insert_ne; [done|]. intros <-.
           by apply (vstr_not_key h S x d vb e vb HA2 Hxd Hr Hv He Hb).
    + (* a larger block is needed *)
      apply Nat.leb_gt in Hlen.
      destruct (cJSON_SetValuestring_realloc nv h _ x d cs vb sb W (hk_live _ K) Hx Hs Hr Hv HRs HRv)
        as [(_ & _ & E & W' & _ & NL' & _)|(_ & _ & _ & Hf)]; [by rewrite Hat, Hatv| |by apply refused_false in Hf].
      cbn zeta in E, W', NL'. rewrite Hat in E, W', NL'. eexists. split; [unfold nxt; rewrite <- Hnext; exact E|]. cbn [fst].
      unfold nxt, req. rewrite <- Hnext, <- Hreq.
      match goal with |- Abs2 ?hh _ => change (Pos.succ (h_next h)) with (h_next hh); change (Datatypes.S (h_req h)) with (h_req hh) end.
      refine (Abs2_build h _ S _ _ HA (Cons_cJSON_SetValuestring nv _ _ _ _ _ E K) W' (NL' NL) _ _).
      * cbn. by rewrite Hstr.
      * intros e b He Hb. destruct (datas_set_data _ _ _ _ _ _ (wf_nodup _ _ W) Hx He) as [_ [->|He']].
        -- cbn [snd] in *. destruct (KO (x, d) b Hxd Hb) as [(s' & Hs' & Hz') Hcc]. split; [|done].
           exists s'. split; [|done]. destruct (SI1 _ _ Hs') as [_ Hb'].
           rewrite lookup_delete_ne, lookup_insert_ne; [done|lia|].
           intros <-. by apply (vstr_not_key h S x d vb (x, d) vb HA2 Hxd Hr Hv Hxd Hb).
        -- destruct (KO e b He' Hb) as [(s' & Hs' & Hz') Hcc]. split; [|done].
           exists s'. split; [|done]. destruct (SI1 _ _ Hs') as [_ Hb'].
           rewrite lookup_delete_ne, lookup_insert_ne; [done|lia|].
           intros <-. by apply (vstr_not_key h S x d vb e vb HA2 Hxd Hr Hv He' Hb).
Qed.

(** * replace_item_in_object with a NULL object: the C code gives the replacement its new key
      (copy of the name, old owned key released) BEFORE it notices that there is nothing to replace;
      the result is false, every container is unchanged, the replacement is re-keyed *)
Definition del_keys (bs : list positive) (m : gmap positive bytes) : gmap positive bytes :=
  match bs with [] => m | k :: _ => delete k m end.
Definition spec_rekey_only (S : astate2) (nb r : positive) : astate2 :=
  match find_tree r (a_forest S), a_str S !! nb with
  | Some n0, Some s =>
      let nk := nxt S in
      let d' := rd_owned_key (tdata n0) nk in
      mk3 (set_data r d' (a_forest S)) (Pos.succ nk) (Datatypes.S (req S))
          (del_keys (old_key (tdata n0)) (<[nk := cstr s ++ [0]]> (a_str S))) (a_foreign S)
  | _, _ => S
  end.

Lemma old_key_cases d : old_key d = [] \/ exists k, old_key d = [k] /\ rd_key d = Some k /\ is_const d = false.
Proof.
  unfold old_key. destruct (is_const d); [by left|]. destruct (rd_key d) as [k|]; [|by left]. right. by exists k.
Qed.

Lemma Step_replace_null_object S nb r cs :
  is_Some (find_tree r (a_forest S)) -> name_ok S (Some nb) ->
  Step (replace_item_in_object nv None (Some nb) (Some r) cs) S (spec_rekey_only S nb r) false.
Proof.
  intros [n0 Hr] (nb' & s & [= <-] & Hs & Hz). apply Step_intro; [auto with cons|]. intros h HA. pose proof HA as [HA2 K].
  pose proof HA2 as ((W & NL & Hnext & Hreq) & Hstr & [SI1 SI2] & KO).
  pose proof (wf_nodup _ _ W) as ND.
  pose proof (find_tree_shape _ _ _ Hr) as Hsh. set (d := tdata n0) in *. set (crs := tchildren n0) in *. rewrite Hsh in Hr.
  unfold spec_rekey_only. rewrite Hr, Hs. cbn [tdata]. unfold nxt, req. rewrite <- Hnext, <- Hreq.
  set (nk := h_next h). set (d' := rd_owned_key d nk). set (c := cstr s ++ [0]). set (F := a_forest S) in *.
  change (as_forest (a_st S)) with F in *.
  assert (Hin : T r d crs ∈ nodes F) by (by apply find_tree_Some in Hr as [? _]).
  destruct (flat_set_data F r d crs ND Hin) as (FL & E1 & E2).
  set (ha := alloc_str h c). pose proof (WF_alloc_str h F c W) as Wa. fold ha in Wa.
  set (hb := free_all (old_key d) ha).
  set (h2 := set_dat hb (<[r := mk_dat d' (tid <$> crs)]> (h_dat hb))).
  assert (Hrd : CoreRefineObject.Readable h nb).
  { split; [by apply (SI1 _ _ Hs)|]. exists s. by rewrite Hstr. }
  assert (Hsh2 : h_str h !! nb = Some s) by (by rewrite Hstr).
  (* the run *)
  assert (E : replace_item_in_object nv None (Some nb) (Some r) cs h = Ret (false, h2)).
  { unfold replace_item_in_object. cbn [is_null orb].
    rewrite (bindM_Ret _ _ _ _ _ (CoreRefineAddObject.cJSON_strdup_ok nv h nb s Hrd Hsh2 eq_refl)). cbn [is_null].
    fold c ha nk. rewrite (rekey_run2 _ ha F r d (tid <$> crs) (Some nk) Wa (elem_of_flat _ _ Hin)).
    reflexivity. }
  exists h2. split; [exact E|].
  (* the state after re-keying *)
  assert (Hnewk : old_key d' = [nk]) by (unfold old_key, d'; by rewrite is_const_set_key_clear).
  assert (W2 : WF h2 (set_data r d' F)).
  { eapply (rekey_WF ha F _ r d d' _ FL Wa E1 (E2 d')); try done.
    - by rewrite roots_set_data.
    - apply is_ref_set_key_clear.
    - intros b Hb. rewrite Hnewk in Hb. apply elem_of_list_singleton in Hb as ->. split_and!.
      + intros Hin'. exact (Pos.lt_irrefl _ (wf_fresh _ _ W _ Hin')).
      + unfold ha. cbn. set_solver.
      + unfold ha. cbn. by rewrite lookup_insert.
      + unfold ha. cbn. apply Pos.lt_succ_diag_r.
    - rewrite Hnewk. apply NoDup_singleton. }
  assert (HoF : owned F ≡ₚ (r :: owned_strs d) ++ owned_fl FL).
  { unfold owned. by rewrite E1, owned_fl_cons. }
  assert (HoF' : owned (set_data r d' F) ≡ₚ (r :: owned_strs d') ++ owned_fl FL).
  { unfold owned. by rewrite (E2 d'), owned_fl_cons. }
  assert (Hsd' : forall b, b ∈ owned_strs d' <-> b = nk \/ (b ∈ owned_strs d /\ b ∉ old_key d)).
  { intros b. rewrite !owned_strs_split, Hnewk. unfold d'. rewrite is_ref_set_key_clear. cbn [rd_vstr rd_owned_key rd_set_key_type].
    pose proof (wf_owned_nodup _ _ W) as NDo. rewrite HoF in NDo. apply NoDup_app in NDo as (N1 & _ & _).
    apply NoDup_cons in N1 as [_ N1]. rewrite owned_strs_split in N1. apply NoDup_app in N1 as (_ & N12 & _).
    rewrite !elem_of_app, elem_of_list_singleton. split.
    - intros [Hb|Hb]; [right|by left]. split; [by left|]. by apply N12.
    - intros [->|[[Hb|Hb] Hn]]; [by right|by left|done]. }
  assert (NL2 : NoLeak h2 (set_data r d' F)).
  { intros b Hb. unfold lib_live in Hb. apply elem_of_filter in Hb as [Hb1 Hb2]. cbn in Hb1, Hb2.
    unfold hb in Hb1, Hb2. rewrite free_all_own in Hb1. apply free_all_live in Hb2 as [Hb2 Hb3]. unfold ha in Hb1, Hb2. cbn in Hb1, Hb2.
    rewrite HoF'. destruct (decide (b = nk)) as [->|Hne].
    - apply elem_of_app. left. right. apply Hsd'. by left.
    - rewrite lookup_insert_ne in Hb1 by done.
      assert (Hbo : b ∈ owned F) by (apply NL; apply elem_of_filter; split; [done|set_solver]).
      rewrite HoF in Hbo. apply elem_of_app in Hbo as [Hbo|Hbo]; [|apply elem_of_app; by right].
      apply elem_of_app. left. apply elem_of_cons in Hbo as [->|Hbo]; [by left|]. right. apply Hsd'. right. done. }
  replace (Pos.succ nk) with (h_next h2) by (unfold h2, hb; cbn; by rewrite free_all_next).
  replace (Datatypes.S (h_req h)) with (h_req h2) by (unfold h2, hb; cbn; by rewrite CoreRefineHistory.free_all_req).
  refine (Abs2_build h h2 S _ _ HA (Cons_replace_item_in_object nv None (Some nb) (Some r) cs _ _ _ E K) W2 NL2 _ _).
  - (* strings *)
    rewrite <- Hstr. unfold h2, hb, ha. destruct (old_key_cases d) as [->|(k & -> & _)]; reflexivity.
  - (* keys *)
    assert (Hdel : forall b (s' : bytes), a_str S !! b = Some s' -> b ∉ old_key d ->
              del_keys (old_key d) (<[nk := c]> (a_str S)) !! b = Some s').
    { intros b s' Hb Hno. destruct (SI1 _ _ Hb) as [_ Hlt].
      destruct (old_key_cases d) as [->|(k & Hk & _)]; cbn [del_keys].
      - rewrite lookup_insert_ne; [done|unfold nk; lia].
      - rewrite Hk in *. cbn [del_keys]. rewrite lookup_delete_ne by set_solver. rewrite lookup_insert_ne; [done|unfold nk; lia]. }
    intros e b He Hb. unfold datas in He. rewrite (E2 d') in He. rewrite fmap_cons in He. apply elem_of_cons in He as [->|He].
    + cbn in Hb. injection Hb as <-. split; [|unfold d'; cbn; by rewrite is_const_set_key_clear].
      exists c. split; [|unfold has0, c; rewrite existsb_app; cbn; by rewrite orb_true_r].
      assert (Hnk : nk ∉ old_key d).
      { intros Hi. assert (nk ∈ owned F) by (rewrite HoF, owned_strs_split; set_solver).
        exact (Pos.lt_irrefl _ (wf_fresh _ _ W _ H)). }
      destruct (old_key_cases d) as [->|(k & Hk & _)]; cbn [del_keys]; [by rewrite lookup_insert|].
      rewrite Hk in *. cbn [del_keys]. rewrite lookup_delete_ne by set_solver. by rewrite lookup_insert.
    + apply elem_of_list_fmap in He as (e0 & -> & He0).
      assert (He' : fdata e0 ∈ datas F) by (unfold datas; rewrite E1; apply elem_of_list_fmap; exists e0; split; [done|by right]).
      destruct (KO _ b He' Hb) as [(s' & Hs' & Hz') Hc]. split; [|done]. exists s'. split; [|done].
      apply Hdel; [done|]. intros Hko.
      assert (Hkown : b ∈ owned F) by (rewrite HoF, owned_strs_split; set_solver).
      destruct (is_const (fn_data e0)) eqn:Hce.
      * destruct (SI2 b (Hc Hce)) as [Hf _]. rewrite (wf_owned_lib _ _ W _ Hkown) in Hf. done.
      * pose proof (wf_owned_nodup _ _ W) as NDo. rewrite HoF in NDo. apply NoDup_app in NDo as (_ & N12 & _).
        apply (N12 b); [rewrite owned_strs_split; set_solver|].
        apply elem_of_owned_fl. exists e0. split; [done|]. right. unfold owned_strs. cbn in Hce, Hb. rewrite Hce, Hb.
        apply elem_of_app. right. by left.
Qed.

(** * replace_item_in_object (cJSON_ReplaceItemInObject[CaseSensitive]): re-key, then replace via pointer *)
Definition spec_replace_key3 (S : astate2) (object name replacement : ptr) (case_sensitive : bool) : astate2 * bool :=
  match object, name, replacement with
  | Some p, Some nb, Some r =>
      match find_root r (a_forest S), a_str S !! nb with
      | Some tr, Some s =>
          let S1 := rk_S1 S r s (tdata tr) in
          let '(S2, res) := spec_step2 nv S1 (OArr (OReplace (Some p) (rk_it S p r s (tdata tr) case_sensitive) (Some r))) in
          (S2, res_bool res)
      | _, _ => (S, false)
      end
  | None, Some nb, Some r => (spec_rekey_only S nb r, false)
  | _, _, _ => (S, false)
  end.

Definition pre_replace_key (S : astate2) (object name replacement : ptr) : Prop :=
  (replacement = None \/ name = None) \/
  (exists p r, object = Some p /\ replacement = Some r /\ movable_into (a_forest S) p r /\ name_ok S name) \/
  (object = None /\ exists nb r, name = Some nb /\ replacement = Some r /\
     is_Some (find_tree r (a_forest S)) /\ name_ok S (Some nb)).

Lemma Step_replace_key S object name replacement cs :
  pre_replace_key S object name replacement ->
  Step (replace_item_in_object nv object name replacement cs) S
       (spec_replace_key3 S object name replacement cs).1 (spec_replace_key3 S object name replacement cs).2.
Proof.
  intros [Href|[(p & r & -> & -> & (Hpr & tr & dp & csp & Hr & Hp & Hrf) & (nb & s & -> & Hs & Hz))|
                (-> & nb & r & -> & -> & Hr & Hn)]].
  3:{ cbn [spec_replace_key3 fst snd]. by apply Step_replace_null_object. }
  - assert (Hspec : spec_replace_key3 S object name replacement cs = (S, false)).
    { unfold spec_replace_key3. destruct object, name, replacement; try done; by destruct Href. }
    rewrite Hspec. apply Step_same. intros h _.
    by destruct (replace_item_in_object_refused nv ∅ [] object name replacement cs None h Href) as [_ H2].
  - apply Step_intro; [auto with cons|]. intros h [HA2 K].
    destruct tr as [r' d crs]. pose proof (find_root_Some _ _ _ Hr) as [_ Hid]. cbn in Hid. subst r'.
    destruct (step_replace_key nv h S p r nb s d dp crs csp cs HA2 Hpr Hr Hp Hrf Hs Hz eq_refl) as (h' & b & E & Hres & HA').
    exists h'. unfold spec_replace_key3. rewrite Hr, Hs. cbn [tdata].
    destruct (spec_step2 nv (rk_S1 S r s d) (OArr (OReplace (Some p) (rk_it S p r s d cs) (Some r)))) as [S2 res].
    cbn [fst snd] in *. subst res. done.
Qed.

(** * value queries *)
Definition spec_get_string_value (S : astate2) (item : ptr) : ptr :=
  match item with
  | Some x => match find_tree x (a_forest S) with
              | Some n => if Z.land (rd_type (tdata n)) 255 =? c_cJSON_String then rd_vstr (tdata n) else None
              | None => None
              end
  | None => None
  end.
Definition spec_get_number_value (S : astate2) (item : ptr) : dbl :=
  match item with
  | Some x => match find_tree x (a_forest S) with
              | Some n => if Z.land (rd_type (tdata n)) 255 =? c_cJSON_Number then rd_vdbl (tdata n) else S754_nan
              | None => S754_nan
              end
  | None => S754_nan
  end.

Lemma Step_GetStringValue S item :
  node_or_null S item -> Step (cJSON_GetStringValue item) S S (spec_get_string_value S item).
Proof.
  intros [->|(x & -> & [n Hx])]; apply Step_same; intros h HA; [done|].
  destruct HA as [((W & _) & _) _]. cbn. rewrite Hx. rewrite (find_tree_shape _ _ _ Hx) in Hx.
  by rewrite (cJSON_GetStringValue_sim h _ x _ _ W (find_tree_flat _ _ _ _ Hx)).
Qed.
Lemma Step_GetNumberValue S item :
  node_or_null S item -> Step (cJSON_GetNumberValue item) S S (spec_get_number_value S item).
Proof.
  intros [->|(x & -> & [n Hx])]; apply Step_same; intros h HA; [done|].
  destruct HA as [((W & _) & _) _]. cbn. rewrite Hx. rewrite (find_tree_shape _ _ _ Hx) in Hx.
  by rewrite (cJSON_GetNumberValue_sim h _ x _ _ W (find_tree_flat _ _ _ _ Hx)).
Qed.

(** * typed views of the [op2] steps used as pieces *)
Definition s2 (S : astate2) (o : op2) : astate2 * res := spec_step2 nv S o.

Lemma Step_add_item_to_array S a i :
  pre_ok2 S (OArr (OAdd a i)) ->
  Step (add_item_to_array a i) S (s2 S (OArr (OAdd a i))).1 (res_bool (s2 S (OArr (OAdd a i))).2).
Proof. intros Hpre. apply (Step_unwrap RBool res_bool); [done|]. by apply (Step_op2 S (OArr (OAdd a i))). Qed.
Lemma Step_add_item_to_object S o n i ck :
  pre_ok2 S (OAddObj o n i ck) ->
  Step (add_item_to_object nv o n i ck) S (s2 S (OAddObj o n i ck)).1 (res_bool (s2 S (OAddObj o n i ck)).2).
Proof. intros Hpre. apply (Step_unwrap RBool res_bool); [done|]. by apply (Step_op2 S (OAddObj o n i ck)). Qed.
Lemma Step_get_object_item S o n cs :
  pre_ok2 S (OGetKey o n cs) ->
  Step (get_object_item o n cs) S (s2 S (OGetKey o n cs)).1 (res_ptr (s2 S (OGetKey o n cs)).2).
Proof. intros Hpre. apply (Step_unwrap RPtr res_ptr); [done|]. by apply (Step_op2 S (OGetKey o n cs)). Qed.
Lemma Step_cJSON_Delete S i :
  pre_ok2 S (OArr (ODelete i)) -> Step (cJSON_Delete i) S (s2 S (OArr (ODelete i))).1 tt.
Proof.
  intros Hpre h HA. destruct (Step_op2 S (OArr (ODelete i)) Hpre h HA) as (h' & E & HA').
  cbn [run_op2 run_op] in E. unfold bindM in E. destruct (cJSON_Delete i h) as [[[] h1]|e]; [|done].
  unfold ret in E. assert (Heq : h1 = h') by congruence. subst h'. by exists h1.
Qed.
