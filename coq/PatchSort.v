(** PatchSort.v — value-level facts about sort_list (PatchDefs.v): the result is sorted by key
    (strcmp order), and two sorted lists with pairwise distinct keys and the same key set have the
    same key sequence.  Used by the conformance of [test] and by create_patches. *)
From Coq Require Import Lia ZArith List Bool Permutation Sorted.
From CJ Require Import Base Dbl Tree PointerDefs PointerProofs CompareDefs PatchDefs PatchProofs PatchRobust Rfc6902 PatchConform.
Import ListNotations.
Local Open Scope Z_scope.

(** ---------- strcmp as an order on C strings ---------- *)
Lemma strcmp_opp a : forall b, strcmp b a = - strcmp a b.
Proof.
  induction a as [|x a IH]; intros [|y b]; cbn [strcmp]; try lia.
  zeq x y.
  - subst. rewrite Z.eqb_refl. apply IH.
  - zeq y x; [congruence | lia].
Qed.

Lemma strcmp_trans a : forall b c, key_bytes_ok a -> key_bytes_ok b -> key_bytes_ok c ->
  strcmp a b <= 0 -> strcmp b c <= 0 -> strcmp a c <= 0.
Proof.
  unfold key_bytes_ok.
  induction a as [|x a IH]; intros b c Ha Hb Hc.
  - intros _ _. destruct c as [|z c]; cbn [strcmp]; [lia|]. inversion Hc; subst. lia.
  - inversion Ha as [|? ? Hx Ha']; subst. destruct b as [|y b]; cbn [strcmp]; [lia|].
    inversion Hb as [|? ? Hy Hb']; subst. destruct c as [|z c]; cbn [strcmp]; [lia|]. inversion Hc as [|? ? Hz Hc']; subst.
    zeq x y.
    + subst y. zeq x z.
      * apply IH; assumption.
      * lia.
    + zeq y z.
      * subst z. zeq x y; [contradiction | lia].
      * zeq x z; lia.
Qed.

Lemma strcmp_zero_eq a b : key_bytes_ok a -> key_bytes_ok b -> strcmp a b = 0 -> a = b.
Proof.
  intros Ha Hb H. apply bytes_eqb_eq. rewrite <- strcmp_eqb by (apply key_bytes_nz; assumption).
  apply Z.eqb_eq. exact H.
Qed.

Lemma strcmp_refl a : strcmp a a = 0.
Proof. induction a as [|x a IH]; cbn [strcmp]; [reflexivity|]. rewrite Z.eqb_refl. exact IH. Qed.

(** ---------- the order on members ---------- *)
Definition keyed1 (x : node) : Prop := exists k, n_key x = Some k /\ key_bytes_ok k.
Definition kle (x y : node) : Prop := compare_strings (n_key x) (n_key y) true <= 0.
Definition klt (x y : node) : Prop := compare_strings (n_key x) (n_key y) true < 0.

Lemma kle_trans x y z : keyed1 x -> keyed1 y -> keyed1 z -> kle x y -> kle y z -> kle x z.
Proof.
  intros (kx & Ex & Hx) (ky & Ey & Hy) (kz & Ez & Hz). unfold kle. rewrite Ex, Ey, Ez. cbn [compare_strings].
  apply strcmp_trans; assumption.
Qed.
Lemma kle_total x y : keyed1 x -> keyed1 y -> ~ kle x y -> kle y x.
Proof.
  intros (kx & Ex & Hx) (ky & Ey & Hy). unfold kle. rewrite Ex, Ey. cbn [compare_strings].
  rewrite (strcmp_opp kx ky). lia.
Qed.

Lemma keyed_in cs x : keyed_children cs -> In x cs -> keyed1 x.
Proof. unfold keyed_children. rewrite Forall_forall. intros H Hx. apply H. exact Hx. Qed.
Lemma keyed_perm l l' : Permutation l l' -> keyed_children l -> keyed_children l'.
Proof. apply Forall_perm. Qed.
Lemma keyed_firstn n l : keyed_children l -> keyed_children (firstn n l).
Proof. unfold keyed_children. rewrite !Forall_forall. intros H x Hx. apply H. eapply In_firstn; exact Hx. Qed.
Lemma keyed_skipn n l : keyed_children l -> keyed_children (skipn n l).
Proof. unfold keyed_children. rewrite !Forall_forall. intros H x Hx. apply H. eapply In_skipn; exact Hx. Qed.

(** ---------- merge keeps sortedness; sort_list sorts ---------- *)
Lemma merge_sorted : forall a b, keyed_children a -> keyed_children b ->
  StronglySorted kle a -> StronglySorted kle b -> StronglySorted kle (merge true a b).
Proof.
  induction a as [|x a IHa]; intros b Ka Kb Sa Sb.
  - rewrite merge_nil_l. exact Sb.
  - induction b as [|y b IHb].
    + rewrite merge_nil_r. exact Sa.
    + rewrite merge_cons.
      inversion Sa as [|? ? Sa' Fa]; subst. inversion Sb as [|? ? Sb' Fb]; subst.
      inversion Ka as [|? ? Kx Ka']; subst. inversion Kb as [|? ? Ky Kb']; subst.
      destruct (Z.leb_spec (compare_strings (n_key x) (n_key y) true) 0) as [Hle|Hgt].
      * constructor; [apply IHa; assumption|].
        eapply Forall_perm; [apply merge_perm|]. apply Forall_app. split; [exact Fa|].
        constructor; [exact Hle|]. rewrite Forall_forall in Fb |- *. intros z Hz.
        eapply (kle_trans x y z); try assumption; [apply (keyed_in b); assumption | apply Fb; exact Hz].
      * assert (Hyx : kle y x) by (apply kle_total; try assumption; unfold kle; lia).
        constructor; [apply IHb; assumption|].
        eapply Forall_perm; [apply merge_perm|]. apply Forall_app. split; [|exact Fb].
        constructor; [exact Hyx|]. rewrite Forall_forall in Fa |- *. intros z Hz.
        eapply (kle_trans y x z); try assumption; [apply (keyed_in a); assumption | apply Fa; exact Hz].
Qed.

Lemma strictly_sorted_sorted : forall l, keyed_children l -> strictly_sorted l true = true -> StronglySorted kle l.
Proof.
  induction l as [|x l IH]; intros K H; [constructor|].
  inversion K as [|? ? Kx K']; subst.
  destruct l as [|y l']; [constructor; constructor|].
  cbn [strictly_sorted] in H. apply andb_true_iff in H. destruct H as [H1 H2].
  specialize (IH K' H2). constructor; [exact IH|].
  inversion IH as [|? ? _ Fy]; subst. inversion K' as [|? ? Ky K'']; subst.
  assert (Hxy : kle x y) by (unfold kle; lia).
  constructor; [exact Hxy|]. rewrite Forall_forall in Fy |- *. intros z Hz.
  eapply (kle_trans x y z); try assumption; [apply (keyed_in l'); assumption | apply Fy; exact Hz].
Qed.

Lemma sort_list_sorted : forall fuel l, (length l < fuel)%nat -> keyed_children l ->
  exists r, sort_list fuel l true = Ok r /\ Permutation l r /\ StronglySorted kle r.
Proof.
  induction fuel as [|f IH]; intros l Hf K; [lia|].
  destruct l as [|x [|y l']].
  - exists []. repeat split; [apply Permutation_refl | constructor].
  - exists [x]. repeat split; [apply Permutation_refl | constructor; constructor].
  - remember (x :: y :: l') as l eqn:El.
    assert (Hs : sort_list (S f) l true =
                 if strictly_sorted l true then Ok l
                 else a <- sort_list f (firstn (Nat.div2 (S (length l))) l) true ;;
                      b <- sort_list f (skipn (Nat.div2 (S (length l))) l) true ;; Ok (merge true a b)).
    { subst l. reflexivity. }
    rewrite Hs. destruct (strictly_sorted l true) eqn:Ess.
    + exists l. repeat split; [apply Permutation_refl | apply strictly_sorted_sorted; assumption].
    + set (k := Nat.div2 (S (length l))).
      assert (Hk : (1 <= k < length l)%nat).
      { unfold k. subst l. cbn [length].
        change (Nat.div2 (S (S (S (length l'))))) with (S (Nat.div2 (S (length l')))).
        pose proof (Nat.lt_div2 (S (length l'))) as H. lia. }
      destruct (IH (firstn k l)) as (a & Ha & Pa & Sa). { rewrite firstn_length. lia. } { apply keyed_firstn; exact K. }
      destruct (IH (skipn k l)) as (b & Hb & Pb & Sb). { rewrite skipn_length. lia. } { apply keyed_skipn; exact K. }
      rewrite Ha. cbn [bind]. rewrite Hb. cbn [bind].
      exists (merge true a b). repeat split.
      * eapply Permutation_trans; [|apply merge_perm].
        rewrite <- (firstn_skipn k l) at 1. apply Permutation_app; assumption.
      * apply merge_sorted; try assumption.
        -- eapply keyed_perm; [exact Pa | apply keyed_firstn; exact K].
        -- eapply keyed_perm; [exact Pb | apply keyed_skipn; exact K].
Qed.

Lemma sort_object_sorted n : keyed_children (n_children n) ->
  exists r, sort_object n true = Ok (set_children n r) /\ Permutation (n_children n) r /\ StronglySorted kle r.
Proof.
  intro K. unfold sort_object.
  destruct (sort_list_sorted (S (length (n_children n))) (n_children n)) as (r & Hr & P & S); [lia | exact K|].
  rewrite Hr. exists r. repeat split; assumption.
Qed.

(** ---------- distinct keys: sorted means strictly sorted; canonical order ---------- *)
Lemma sorted_strict : forall l, keyed_children l -> NoDup (map n_key l) -> StronglySorted kle l -> StronglySorted klt l.
Proof.
  induction l as [|x l IH]; intros K N S; [constructor|].
  inversion K as [|? ? Kx K']; subst. inversion S as [|? ? S' F]; subst. cbn [map] in N. inversion N as [|? ? Nin N']; subst.
  constructor; [apply IH; assumption|].
  rewrite Forall_forall in F |- *. intros z Hz. specialize (F z Hz).
  destruct Kx as (kx & Ex & Hx). destruct (keyed_in _ _ K' Hz) as (kz & Ez & Hkz).
  unfold kle, klt in *. rewrite Ex, Ez in *. cbn [compare_strings] in *.
  assert (strcmp kx kz <> 0); [|lia].
  intro E0. apply strcmp_zero_eq in E0; try assumption. subst kz.
  apply Nin. rewrite <- Ez. apply in_map. exact Hz.
Qed.

Lemma klt_irrefl_key x y : keyed1 x -> n_key x = n_key y -> ~ klt x y.
Proof.
  intros (kx & Ex & _) E. unfold klt. rewrite <- E, Ex. cbn [compare_strings]. rewrite strcmp_refl. lia.
Qed.
Lemma klt_asym x y : keyed1 x -> keyed1 y -> klt x y -> ~ klt y x.
Proof.
  intros (kx & Ex & _) (ky & Ey & _). unfold klt. rewrite Ex, Ey. cbn [compare_strings]. rewrite (strcmp_opp kx ky). lia.
Qed.
Lemma klt_key_l x x' y : n_key x = n_key x' -> klt x y -> klt x' y.
Proof. unfold klt. intros ->. tauto. Qed.
Lemma klt_key_r x y y' : n_key y = n_key y' -> klt x y -> klt x y'.
Proof. unfold klt. intros ->. tauto. Qed.

(* two strictly sorted member lists with the same set of names list the names in the same order *)
Lemma sorted_same_keys : forall la lb, keyed_children la -> keyed_children lb ->
  StronglySorted klt la -> StronglySorted klt lb ->
  (forall k, In k (map n_key la) <-> In k (map n_key lb)) -> map n_key la = map n_key lb.
Proof.
  induction la as [|x la IH]; intros lb Ka Kb Sa Sb Hset.
  - destruct lb as [|y lb]; [reflexivity|]. exfalso. apply (Hset (n_key y)). left. reflexivity.
  - destruct lb as [|y lb]; [exfalso; apply (Hset (n_key x)); left; reflexivity|].
    inversion Ka as [|? ? Kx Ka']; subst. inversion Kb as [|? ? Ky Kb']; subst.
    inversion Sa as [|? ? Sa' Fa]; subst. inversion Sb as [|? ? Sb' Fb]; subst.
    rewrite Forall_forall in Fa, Fb.
    assert (Exy : n_key x = n_key y).
    { assert (Hx : In (n_key x) (map n_key (y :: lb))) by (apply Hset; left; reflexivity).
      assert (Hy : In (n_key y) (map n_key (x :: la))) by (apply Hset; left; reflexivity).
      cbn [map] in Hx, Hy. destruct Hx as [Hx|Hx]; [symmetry; exact Hx|]. destruct Hy as [Hy|Hy]; [exact Hy|].
      apply in_map_iff in Hx. destruct Hx as (y' & Ey' & Hy'). apply in_map_iff in Hy. destruct Hy as (x' & Ex' & Hx').
      exfalso. (* y < y' (= x by name) and x < x' (= y by name) *)
      pose proof (Fb y' Hy') as L1. pose proof (Fa x' Hx') as L2.
      apply (klt_asym x y Kx Ky).
      - apply (klt_key_r x x' y Ex'). exact L2.
      - apply (klt_key_r y y' x Ey'). exact L1. }
    cbn [map]. f_equal; [exact Exy|].
    apply IH; try assumption. intro k. split; intro Hk.
    + assert (H : In k (map n_key (y :: lb))) by (apply Hset; right; exact Hk). cbn [map] in H. destruct H as [H|H]; [|exact H].
      exfalso. apply in_map_iff in Hk. destruct Hk as (z & Ez & Hz). apply (klt_irrefl_key x z Kx); [congruence | apply Fa; exact Hz].
    + assert (H : In k (map n_key (x :: la))) by (apply Hset; right; exact Hk). cbn [map] in H. destruct H as [H|H]; [|exact H].
      exfalso. apply in_map_iff in Hk. destruct Hk as (z & Ez & Hz). apply (klt_irrefl_key y z Ky); [congruence | apply Fb; exact Hz].
Qed.
