(** PatchGen.v — create_patches / cJSONUtils_GeneratePatchesCaseSensitive (PatchDefs.v):
    for well-formed documents the call terminates, the patch is empty exactly when the documents
    are equal, both inputs come back as equal documents (only member order may change);
    round trip for the cases where the patch is at most one "replace" of the whole document. *)
From Coq Require Import Lia ZArith List Bool Permutation Sorted.
From CJ Require Import Base Dbl Tree PointerDefs PointerProofs CompareDefs PatchDefs PatchProofs PatchRobust Rfc6902
  PatchConform PatchOps PatchApply PatchSort PatchTest PatchMove PatchSeq.
Import ListNotations.
Local Open Scope Z_scope.

Lemma compose_patch_app ps operation path suffix value :
  exists patch, compose_patch ps operation path suffix value = ps ++ [patch].
Proof. unfold compose_patch. eexists. reflexivity. Qed.

Lemma fold_compose_app {A} (f : A -> list node -> list node) :
  (forall a acc, exists patch, f a acc = acc ++ [patch]) ->
  forall l ps, exists new, fold_left (fun acc a => f a acc) l ps = ps ++ new /\ length new = length l.
Proof.
  intros Hf. induction l as [|a l IH]; intro ps; cbn [fold_left].
  - exists []. rewrite app_nil_r. split; reflexivity.
  - destruct (Hf a ps) as (patch & E). rewrite E. destruct (IH (ps ++ [patch])) as (new & En & Ln).
    exists (patch :: new). rewrite En. rewrite <- app_assoc. split; [reflexivity | cbn; lia].
Qed.

(** what one call of create_patches delivers *)
Definition cp_spec (ps : list node) (from to : node) (r : res (list node * node * node)) : Prop :=
  exists new f' t', r = Ok (ps ++ new, f', t') /\ (new = [] <-> doc_eqb from to = true) /\ same f' from /\ same t' to.

Lemma app_nil_iff {A} (a b : list A) : a ++ b = [] <-> a = [] /\ b = [].
Proof. split; [apply app_eq_nil | intros [-> ->]; reflexivity]. Qed.

Lemma cp_arr_spec rec path : forall lf lt ps index, Forall dwf lf -> Forall dwf lt ->
  (forall ps p x y, In x lf -> dwf x -> dwf y -> cp_spec ps x y (rec ps p x y)) ->
  exists new lf' lt', cp_arr rec path ps index lf lt = Ok (ps ++ new, lf', lt') /\
    (new = [] <-> arr_eqb lf lt = true) /\ Forall2 same lf' lf /\ Forall2 same lt' lt.
Proof.
  induction lf as [|x lf IH]; intros lt ps index Hf Ht H.
  - cbn [cp_arr fold_left].
    destruct (fold_compose_app (fun y acc => compose_patch acc s_add path (Some s_dash) (Some y))
                (fun a acc => compose_patch_app acc _ _ _ _) lt ps) as (new & En & Ln).
    rewrite En. exists new, [], lt. split; [reflexivity|]. split; [|split; [constructor | apply same_refl_list; exact Ht]].
    destruct lt as [|y lt]; cbn [arr_eqb].
    + destruct new; [tauto | discriminate].
    + destruct new; [discriminate|]. split; discriminate.
  - destruct lt as [|y lt].
    + cbn [cp_arr fold_left].
      destruct (fold_compose_app (fun (_ : node) acc => compose_patch acc s_remove path (Some (print_lu index)) None)
                  (fun a acc => compose_patch_app acc _ _ _ _) (x :: lf) ps) as (new & En & Ln).
      cbn [fold_left] in En. rewrite En. exists new, (x :: lf), []. split; [reflexivity|].
      split; [|split; [apply same_refl_list; exact Hf | constructor]].
      cbn [arr_eqb]. destruct new; [discriminate|]. split; discriminate.
    + cbn [cp_arr arr_eqb]. inversion Hf as [|? ? Hx Hf']; subst. inversion Ht as [|? ? Hy Ht']; subst.
      destruct (H ps (path ++ [47] ++ print_lu index) x y (or_introl eq_refl) Hx Hy) as (n1 & x' & y' & E1 & I1 & Sx & Sy).
      rewrite E1. cbn [bind].
      destruct (IH lt (ps ++ n1) (index + 1) Hf' Ht') as (n2 & lf2 & lt2 & E2 & I2 & F2 & T2).
      { intros; apply H; try assumption; right; assumption. }
      rewrite E2. cbn [bind]. exists (n1 ++ n2), (x' :: lf2), (y' :: lt2). rewrite app_assoc.
      split; [reflexivity|]. split; [|split; constructor; assumption].
      rewrite app_nil_iff, andb_true_iff. tauto.
Qed.

Lemma cp_walk_spec rec path : forall g lf lt ps, (length lf + length lt < g)%nat ->
  keyed_children lf -> Forall dwf lf -> Forall dwf lt ->
  (forall ps p x y, In x lf -> dwf x -> dwf y -> cp_spec ps x y (rec ps p x y)) ->
  exists new lf' lt', cp_walk rec path true g ps lf lt = Ok (ps ++ new, lf', lt') /\
    (new = [] <-> walkb lf lt = true) /\ Forall2 same lf' lf /\ Forall2 same lt' lt.
Proof.
  induction g as [|g IH]; intros lf lt ps Hg Kf Hf Ht H; [lia|].
  destruct lf as [|x lf]; destruct lt as [|y lt].
  - cbn [cp_walk walkb]. exists [], [], []. rewrite app_nil_r. repeat split; constructor.
  - (* from exhausted: add *)
    cbn [cp_walk]. cbn [Z.eqb Z.ltb Z.compare]. cbn [walkb].
    destruct (compose_patch_app ps s_add path (n_key y) (Some y)) as (patch & Ec). rewrite Ec.
    inversion Ht as [|? ? Hy Ht']; subst.
    destruct (IH [] lt (ps ++ [patch]) ltac:(cbn [length] in *; lia) Kf Hf Ht' H) as (n2 & lf2 & lt2 & E2 & _ & F2 & T2).
    rewrite E2. cbn [bind]. exists (patch :: n2), lf2, (y :: lt2). rewrite <- app_assoc.
    split; [reflexivity|]. split; [split; discriminate|]. split; [exact F2|].
    constructor; [split; [apply doc_eq_refl; exact Hy | reflexivity] | exact T2].
  - (* to exhausted: remove *)
    cbn [cp_walk]. cbn [Z.eqb Z.ltb Z.compare]. cbn [walkb].
    destruct (compose_patch_app ps s_remove path (n_key x) None) as (patch & Ec). rewrite Ec.
    inversion Hf as [|? ? Hx Hf']; subst. inversion Kf as [|? ? Kx Kf']; subst.
    destruct (IH lf [] (ps ++ [patch]) ltac:(cbn [length] in *; lia) Kf' Hf' Ht) as (n2 & lf2 & lt2 & E2 & _ & F2 & T2).
    { intros; apply H; try assumption; right; assumption. }
    rewrite E2. cbn [bind]. exists (patch :: n2), (x :: lf2), lt2. rewrite <- app_assoc.
    split; [reflexivity|]. split; [split; discriminate|]. split; [|exact T2].
    constructor; [split; [apply doc_eq_refl; exact Hx | reflexivity] | exact F2].
  - cbn [cp_walk walkb].
    inversion Hf as [|? ? Hx Hf']; subst. inversion Ht as [|? ? Hy Ht']; subst. inversion Kf as [|? ? Kx Kf']; subst.
    destruct (Z.eqb_spec (compare_strings (n_key x) (n_key y) true) 0) as [Hz|Hnz]; cbn [andb].
    + destruct Kx as (kx & Ekx & _). rewrite Ekx.
      destruct (H ps (path ++ [47] ++ encode_string_as_pointer kx) x y (or_introl eq_refl) Hx Hy) as (n1 & x' & y' & E1 & I1 & Sx & Sy).
      rewrite E1. cbn [bind].
      destruct (IH lf lt (ps ++ n1) ltac:(cbn [length] in *; lia) Kf' Hf' Ht') as (n2 & lf2 & lt2 & E2 & I2 & F2 & T2).
      { intros; apply H; try assumption; right; assumption. }
      rewrite E2. cbn [bind]. exists (n1 ++ n2), (x' :: lf2), (y' :: lt2). rewrite app_assoc.
      split; [reflexivity|]. split; [|split; constructor; assumption].
      rewrite app_nil_iff, andb_true_iff. tauto.
    + destruct (Z.ltb_spec (compare_strings (n_key x) (n_key y) true) 0) as [Hlt|Hge].
      * destruct (compose_patch_app ps s_remove path (n_key x) None) as (patch & Ec). rewrite Ec.
        destruct (IH lf (y :: lt) (ps ++ [patch]) ltac:(cbn [length] in *; lia) Kf' Hf' Ht) as (n2 & lf2 & lt2 & E2 & _ & F2 & T2).
        { intros; apply H; try assumption; right; assumption. }
        rewrite E2. cbn [bind]. exists (patch :: n2), (x :: lf2), lt2. rewrite <- app_assoc.
        split; [reflexivity|]. split; [split; discriminate|]. split; [|exact T2].
        constructor; [split; [apply doc_eq_refl; exact Hx | reflexivity] | exact F2].
      * destruct (compose_patch_app ps s_add path (n_key y) (Some y)) as (patch & Ec). rewrite Ec.
        destruct (IH (x :: lf) lt (ps ++ [patch]) ltac:(cbn [length] in *; lia) Kf Hf Ht' H) as (n2 & lf2 & lt2 & E2 & _ & F2 & T2).
        rewrite E2. cbn [bind]. exists (patch :: n2), lf2, (y :: lt2). rewrite <- app_assoc.
        split; [reflexivity|]. split; [split; discriminate|]. split; [exact F2|].
        constructor; [split; [apply doc_eq_refl; exact Hy | reflexivity] | exact T2].
Qed.

(* an object whose members were sorted and then replaced by equal documents is an equal document *)
Lemma doc_eq_sorted ty vs vi vd k ca ra ra' : dwf (Node ty vs vi vd k ca) -> tymask ty = c_cJSON_Object ->
  Permutation ca ra -> Forall2 same ra' ra -> doc_eq (Node ty vs vi vd k ra') (Node ty vs vi vd k ca).
Proof.
  intros Ha Eo Pa F2. pose proof (dwf_local _ Ha) as (L & J & Sv & Nv & Ov). cbn [n_ty n_vstr n_vdbl n_children] in *.
  destruct (Ov Eo) as [Na Ka].
  apply doc_eq_head; try assumption; [intro Ha'; rewrite Eo in Ha'; discriminate Ha'|]. intros _.
  assert (F3 : Forall2 mrel ra' ra).
  { eapply Forall2_strengthen; [exact F2|]. intros x' x _ Hx [D Kk]. split; [|split; assumption].
    rewrite Kk. eapply keyed_key_some; [eapply keyed_perm; [exact Pa | exact Ka] | exact Hx]. }
  destruct (Forall2_both mrel _ _ F3) as [B1 B2]. split.
  - eapply Forall_impl; [|exact B1]. intros x' Hx'. eapply Exists_perm; [apply Permutation_sym; exact Pa | exact Hx'].
  - eapply Forall_perm; [apply Permutation_sym; exact Pa | exact B2].
Qed.

Lemma same_refl n : dwf n -> same n n.
Proof. intro H. split; [apply doc_eq_refl; exact H | reflexivity]. Qed.

Lemma create_patches_spec : forall fuel ps path from to, (node_depth from <= fuel)%nat -> dwf from -> dwf to ->
  cp_spec ps from to (create_patches fuel ps path from to true).
Proof.
  induction fuel as [|f IH]; intros ps path from to Hdep Hf Ht.
  - destruct from. rewrite node_depth_eq in Hdep. lia.
  - unfold cp_spec. cbn [create_patches].
    destruct from as [ty vs vi vd k ca]. rewrite doc_eqb_unfold. cbn [n_ty n_vint n_vdbl n_vstr n_children].
    pose proof (dwf_local _ Hf) as (L & J & Sv & Nv & Ov). cbn [n_ty n_vstr n_vdbl n_children] in *.
    pose proof (same_refl _ Hf) as Rf. pose proof (same_refl _ Ht) as Rt.
    rewrite J. cbn [andb].
    assert (REP : exists new, compose_patch ps s_replace path None (Some to) = ps ++ new /\ (new = [] <-> false = true)).
    { destruct (compose_patch_app ps s_replace path None (Some to)) as (patch & E). rewrite E. exists [patch]. split; [reflexivity | split; discriminate]. }
    assert (NOP : exists new : list node, ps = ps ++ new /\ (new = [] <-> true = true)).
    { exists []. rewrite app_nil_r. split; [reflexivity | tauto]. }
    destruct (Z.eqb_spec (tymask ty) (tymask (n_ty to))) as [Et|Et]; cbn [negb andb].
    2:{ destruct REP as (new & E & I). rewrite E. exists new. do 2 eexists. split; [reflexivity | split; [exact I | split; assumption]]. }
    destruct (Z.eqb_spec (tymask ty) c_cJSON_Number) as [En|En].
    { destruct (vi =? n_vint to), (compare_double vd (n_vdbl to)); cbn [negb orb andb].
      - destruct NOP as (new & E & I). exists new. do 2 eexists. split; [rewrite <- E; reflexivity | split; [exact I | split; assumption]].
      - destruct REP as (new & E & I). rewrite E. exists new. do 2 eexists. split; [reflexivity | split; [exact I | split; assumption]].
      - destruct REP as (new & E & I). rewrite E. exists new. do 2 eexists. split; [reflexivity | split; [exact I | split; assumption]].
      - destruct REP as (new & E & I). rewrite E. exists new. do 2 eexists. split; [reflexivity | split; [exact I | split; assumption]]. }
    destruct (Z.eqb_spec (tymask ty) c_cJSON_String) as [Es|Es].
    { destruct (Sv Es) as (x & Ex & Nx). subst vs.
      destruct (dwf_local _ Ht) as (_ & _ & Sb & _). destruct (Sb ltac:(congruence)) as (y & Ey & Ny). rewrite Ey.
      rewrite strcmp_eqb by assumption. destruct (bytes_eqb x y); cbn [negb].
      - destruct NOP as (new & E & I). exists new. do 2 eexists. split; [rewrite <- E; reflexivity | split; [exact I | split; assumption]].
      - destruct REP as (new & E & I). rewrite E. exists new. do 2 eexists. split; [reflexivity | split; [exact I | split; assumption]]. }
    destruct (Z.eqb_spec (tymask ty) c_cJSON_Array) as [Ea|Ea].
    { destruct (cp_arr_spec (fun ps p x y => create_patches f ps p x y true) path ca (n_children to) ps 0) as (new & lf' & lt' & E & I & F2 & T2).
      - apply (dwf_children _ Hf).
      - apply (dwf_children _ Ht).
      - intros ps0 p0 x y Hx Hdx Hdy. apply IH; try assumption. pose proof (depth_child (Node ty vs vi vd k ca) x Hx). lia.
      - rewrite E. cbn [bind]. exists new. do 2 eexists. split; [reflexivity|]. split; [exact I|]. split.
        + split; [|reflexivity]. cbn [set_children]. apply doc_eq_head; try assumption.
          * intros _. eapply Forall2_impl'; [|exact F2]. intros ? ? [H _]. exact H.
          * intro Ho. rewrite Ea in Ho. discriminate Ho.
        + split; [|destruct to; reflexivity]. destruct to as [ty2 vs2 vi2 vd2 k2 cb]. cbn [set_children n_children n_ty] in *.
          pose proof (dwf_local _ Ht) as (L2 & J2 & Sv2 & Nv2 & Ov2). cbn [n_ty n_vstr n_vdbl n_children] in *.
          apply doc_eq_head; try assumption.
          * intros _. eapply Forall2_impl'; [|exact T2]. intros ? ? [H _]. exact H.
          * intro Ho. rewrite <- Et, Ea in Ho. discriminate Ho. }
    destruct (Z.eqb_spec (tymask ty) c_cJSON_Object) as [Eo|Eo].
    2:{ destruct NOP as (new & E & I). exists new. do 2 eexists. split; [rewrite <- E; reflexivity | split; [exact I | split; assumption]]. }
    destruct (Ov Eo) as [Na Ka].
    destruct (dwf_obj_local to Ht ltac:(congruence)) as [Nb Kb].
    destruct (sort_object_sorted (Node ty vs vi vd k ca) Ka) as (ra & Hra & Pa & Sa).
    destruct (sort_object_sorted to Kb) as (rb & Hrb & Pb & Sb).
    rewrite Hra. cbn [bind]. rewrite Hrb. cbn [bind]. rewrite !n_children_set. cbn [n_children] in Pa.
    assert (Dra : Forall dwf ra) by (eapply Forall_perm; [exact Pa | apply (dwf_children _ Hf)]).
    assert (Drb : Forall dwf rb) by (eapply Forall_perm; [exact Pb | apply (dwf_children _ Ht)]).
    destruct (cp_walk_spec (fun ps p x y => create_patches f ps p x y true) path (S (length ra + length rb)) ra rb ps) as (new & lf' & lt' & E & I & F2 & T2);
      [lia | eapply keyed_perm; [exact Pa | exact Ka] | exact Dra | exact Drb | |].
    { intros ps0 p0 x y Hx Hdx Hdy. apply IH; try assumption.
      assert (In x ca) by (eapply Permutation_in; [apply Permutation_sym; exact Pa | exact Hx]).
      pose proof (depth_child (Node ty vs vi vd k ca) x H). lia. }
    rewrite E. cbn [bind]. exists new. do 2 eexists. split; [reflexivity|]. split; [|split].
    + rewrite I. rewrite (walk_decides ca (n_children to) ra rb Ka Kb Na Nb Pa Pb Sa Sb). tauto.
    + split; [|reflexivity]. cbn [set_children]. eapply doc_eq_sorted; eassumption.
    + split; [|destruct to; reflexivity]. destruct to as [ty2 vs2 vi2 vd2 k2 cb]. cbn [set_children n_children n_ty] in *.
      eapply doc_eq_sorted; try eassumption. congruence.
Qed.

(** ---------- the entry point ---------- *)
Theorem generate_patches_ok from to : dwf from -> dwf to ->
  exists ps f' t', cJSONUtils_GeneratePatchesCaseSensitive from to = Ok (set_children create_array ps, f', t') /\
    (ps = [] <-> doc_eqb from to = true) /\
    doc_eq f' from /\ n_key f' = n_key from /\ doc_eq t' to /\ n_key t' = n_key to.
Proof.
  intros Hf Ht. unfold cJSONUtils_GeneratePatchesCaseSensitive, generate_patches.
  destruct (create_patches_spec (node_depth from) [] [] from to ltac:(lia) Hf Ht) as (new & f' & t' & E & I & [D1 K1] & [D2 K2]).
  rewrite E. cbn [bind app]. exists new, f', t'. repeat split; try assumption; apply I.
Qed.

(** ---------- doc_eqb is sound for scalars (what the restricted round trip needs) ---------- *)
Lemma doc_eqb_scalar a b : dwf a -> dwf b -> tymask (n_ty a) <> c_cJSON_Array -> tymask (n_ty a) <> c_cJSON_Object ->
  doc_eqb a b = true -> doc_eq a b.
Proof.
  intros Ha Hb NA NO. destruct a as [ty vs vi vd k ca]. rewrite doc_eqb_unfold. cbn [n_ty] in *.
  intro H. apply andb_true_iff in H. destruct H as [H H3]. apply andb_true_iff in H. destruct H as [J Et]. apply Z.eqb_eq in Et.
  destruct (Z.eqb_spec (tymask ty) c_cJSON_Number) as [En|En].
  { apply andb_true_iff in H3. destruct H3 as [H3 H4]. apply Z.eqb_eq in H3. apply de_num; cbn [n_ty n_vint n_vdbl]; congruence. }
  destruct (Z.eqb_spec (tymask ty) c_cJSON_String) as [Es|Es].
  { destruct vs as [x|]; [|discriminate]. destruct (n_vstr b) as [y|] eqn:Ey; [|discriminate]. apply bytes_eqb_eq in H3. subst y.
    eapply de_str; cbn [n_ty n_vstr]; try eassumption; congruence. }
  destruct (json_type_cases _ J) as [T|[T|[T|[T|[T|[T|T]]]]]]; try contradiction; apply de_lit; cbn [n_ty]; tauto.
Qed.

(** ---------- round trip when the patch is at most one "replace" of the whole document ---------- *)
Theorem roundtrip_root from to : dwf from -> dwf to -> shallow to ->
  (tymask (n_ty from) <> tymask (n_ty to) \/
   (tymask (n_ty from) <> c_cJSON_Array /\ tymask (n_ty from) <> c_cJSON_Object)) ->
  exists patches ops d,
    cJSONUtils_GeneratePatchesCaseSensitive from to = Ok (patches, from, to) /\
    ops_of patches = Some ops /\ eval from ops = Some d /\ doc_eq d to /\
    (ops = [] <-> doc_eqb from to = true).
Proof.
  intros Hf Ht Hs Hc.
  unfold cJSONUtils_GeneratePatchesCaseSensitive, generate_patches.
  destruct (dup_value to Ht Hs) as (dv & Ed & Eq).
  (* the single operation object and its RFC reading *)
  set (patch := set_children create_object [keyed (create_string s_replace) s_op; keyed (create_string []) s_path; keyed dv s_value]).
  assert (CP : compose_patch [] s_replace [] None (Some to) = [patch]).
  { unfold compose_patch. rewrite Ed. reflexivity. }
  assert (OPS : ops_of (set_children create_array [patch]) = Some [Replace [] (keyed dv s_value)]).
  { unfold ops_of. cbn. destruct dv as [t0 s0 i0 d0 k0 c0]. reflexivity. }
  assert (EV : eval from [Replace [] (keyed dv s_value)] = Some (keyed dv s_value)) by reflexivity.
  assert (DE : doc_eq (keyed dv s_value) to).
  { apply (doc_eq_fields_l dv); try (destruct dv; reflexivity); [|exact Eq].
    destruct dv as [t0 s0 i0 d0 k0 c0]. unfold keyed. cbn [set_ty set_key n_ty]. apply tymask_ldiff. reflexivity. }
  assert (REP : exists patches ops d,
            Ok (set_children create_array (compose_patch [] s_replace [] None (Some to)), from, to) = Ok (patches, from, to) /\
            ops_of patches = Some ops /\ eval from ops = Some d /\ doc_eq d to /\ (ops = [] <-> false = true)).
  { rewrite CP. do 3 eexists. split; [reflexivity|]. split; [exact OPS|]. split; [exact EV|]. split; [exact DE|]. split; discriminate. }
  pose proof (node_depth_eq) as _.
  destruct (node_depth from) as [|f] eqn:Edep; [destruct from; rewrite node_depth_eq in Edep; discriminate|].
  cbn [create_patches]. destruct from as [ty vs vi vd k ca]. rewrite doc_eqb_unfold. cbn [n_ty n_vint n_vdbl n_vstr n_children] in *.
  pose proof (dwf_local _ Hf) as (L & J & Sv & Nv & Ov). cbn [n_ty n_vstr n_vdbl n_children] in *. rewrite J. cbn [andb].
  assert (NOP : forall (E : doc_eqb (Node ty vs vi vd k ca) to = true), exists patches ops d,
            Ok (set_children create_array [], Node ty vs vi vd k ca, to) = Ok (patches, Node ty vs vi vd k ca, to) /\
            ops_of patches = Some ops /\ eval (Node ty vs vi vd k ca) ops = Some d /\ doc_eq d to /\ (ops = [] <-> true = true)).
  { intro E. do 3 eexists. split; [reflexivity|]. split; [reflexivity|]. split; [reflexivity|]. split; [|tauto].
    destruct (Z.eqb_spec (tymask ty) (tymask (n_ty to))) as [Et|Et].
    - destruct Hc as [Hc|[Hc1 Hc2]]; [contradiction|]. apply doc_eqb_scalar; assumption.
    - rewrite doc_eqb_unfold in E. cbn [n_ty] in E. destruct (Z.eqb_spec (tymask ty) (tymask (n_ty to))); [contradiction|]. rewrite andb_false_r in E. discriminate. }
  destruct (Z.eqb_spec (tymask ty) (tymask (n_ty to))) as [Et|Et]; cbn [negb andb bind]; [|exact REP].
  destruct Hc as [Hc|[Hc1 Hc2]]; [contradiction|].
  destruct (Z.eqb_spec (tymask ty) c_cJSON_Number) as [En|En].
  { destruct (vi =? n_vint to) eqn:E1, (compare_double vd (n_vdbl to)) eqn:E2; cbn [negb orb andb bind]; try exact REP.
    apply NOP. rewrite doc_eqb_unfold. cbn [n_ty n_vint n_vdbl]. rewrite J. destruct (Z.eqb_spec (tymask ty) (tymask (n_ty to))); [|contradiction].
    destruct (Z.eqb_spec (tymask ty) c_cJSON_Number); [|contradiction]. rewrite E1, E2. reflexivity. }
  destruct (Z.eqb_spec (tymask ty) c_cJSON_String) as [Es|Es].
  { destruct (Sv Es) as (x & Ex & Nx). subst vs.
    destruct (dwf_local _ Ht) as (_ & _ & Sb & _). destruct (Sb ltac:(congruence)) as (y & Ey & Ny). rewrite Ey.
    rewrite strcmp_eqb by assumption. destruct (bytes_eqb x y) eqn:Eb; cbn [negb bind]; [|exact REP].
    apply NOP. rewrite doc_eqb_unfold. cbn [n_ty n_vstr]. rewrite J. destruct (Z.eqb_spec (tymask ty) (tymask (n_ty to))); [|contradiction].
    destruct (Z.eqb_spec (tymask ty) c_cJSON_Number); [contradiction|]. destruct (Z.eqb_spec (tymask ty) c_cJSON_String); [|contradiction].
    rewrite Ey, Eb. reflexivity. }
  destruct (Z.eqb_spec (tymask ty) c_cJSON_Array) as [Ea|Ea]; [contradiction|].
  destruct (Z.eqb_spec (tymask ty) c_cJSON_Object) as [Eo|Eo]; [contradiction|].
  cbn [bind]. apply NOP. rewrite doc_eqb_unfold. cbn [n_ty]. rewrite J. destruct (Z.eqb_spec (tymask ty) (tymask (n_ty to))); [|contradiction].
  destruct (Z.eqb_spec (tymask ty) c_cJSON_Number); [contradiction|]. destruct (Z.eqb_spec (tymask ty) c_cJSON_String); [contradiction|].
  destruct (Z.eqb_spec (tymask ty) c_cJSON_Array); [contradiction|]. destruct (Z.eqb_spec (tymask ty) c_cJSON_Object); [contradiction|]. reflexivity.
Qed.

(** ---------- termination for EVERY pair of trees, both case modes ---------- *)
Lemma cp_arr_term rec path : forall lf lt ps index,
  (forall ps p x y, In x lf -> terminates (rec ps p x y)) -> terminates (cp_arr rec path ps index lf lt).
Proof.
  induction lf as [|x lf IH]; intros lt ps index H; [cbn [cp_arr]; apply term_ok|].
  destruct lt as [|y lt]; [cbn [cp_arr]; apply term_ok|]. cbn [cp_arr].
  apply bind_term; [apply H; left; reflexivity|]. intros [[ps1 x'] y'] _.
  apply bind_term; [apply IH; intros; apply H; right; assumption|]. intros [[ps2 lf2] lt2] _. apply term_ok.
Qed.

Lemma cp_walk_term rec path cs : forall g lf lt ps, (length lf + length lt < g)%nat ->
  (forall ps p x y, In x lf -> terminates (rec ps p x y)) -> terminates (cp_walk rec path cs g ps lf lt).
Proof.
  induction g as [|g IH]; intros lf lt ps Hg H; [lia|].
  assert (ADD : forall y lt', lt = y :: lt' ->
            terminates (x <- cp_walk rec path cs g (compose_patch ps s_add path (n_key y) (Some y)) lf lt' ;;
                        (let '(ps2, lf2, lt2) := x in Ok (ps2, lf2, y :: lt2)))).
  { intros y lt' ->. apply bind_term; [apply IH; [cbn [length] in Hg; lia | exact H]|]. intros [[a b] c] _. apply term_ok. }
  assert (REM : forall x lf', lf = x :: lf' ->
            terminates (r <- cp_walk rec path cs g (compose_patch ps s_remove path (n_key x) None) lf' lt ;;
                        (let '(ps2, lf2, lt2) := r in Ok (ps2, x :: lf2, lt2)))).
  { intros x lf' ->. apply bind_term; [apply IH; [cbn [length] in Hg; lia | intros; apply H; right; assumption]|]. intros [[a b] c] _. apply term_ok. }
  destruct lf as [|x lf]; destruct lt as [|y lt]; cbn [cp_walk].
  - apply term_ok.
  - cbn [Z.eqb Z.ltb Z.compare]. apply (ADD y lt eq_refl).
  - cbn [Z.eqb Z.ltb Z.compare]. apply (REM x lf eq_refl).
  - destruct (compare_strings (n_key x) (n_key y) cs =? 0).
    + destruct (n_key x) as [kx|]; [|apply term_oob].
      apply bind_term; [apply H; left; reflexivity|]. intros [[ps1 x'] y'] _.
      apply bind_term; [apply IH; [cbn [length] in Hg; lia | intros; apply H; right; assumption]|]. intros [[a b] c] _. apply term_ok.
    + destruct (compare_strings (n_key x) (n_key y) cs <? 0); [apply (REM x lf eq_refl) | apply (ADD y lt eq_refl)].
Qed.

Lemma create_patches_total : forall fuel ps path from to cs, (node_depth from <= fuel)%nat ->
  terminates (create_patches fuel ps path from to cs).
Proof.
  induction fuel as [|f IH]; intros ps path from to cs Hd.
  - destruct from. rewrite node_depth_eq in Hd. lia.
  - cbn [create_patches].
    destruct (negb (tymask (n_ty from) =? tymask (n_ty to))); [apply term_ok|].
    destruct (tymask (n_ty from) =? c_cJSON_Number).
    { destruct (negb (n_vint from =? n_vint to) || negb (compare_double (n_vdbl from) (n_vdbl to))); apply term_ok. }
    destruct (tymask (n_ty from) =? c_cJSON_String).
    { destruct (n_vstr from); [destruct (n_vstr to); [destruct (negb (strcmp b b0 =? 0)); apply term_ok | apply term_oob] | apply term_oob]. }
    destruct (tymask (n_ty from) =? c_cJSON_Array).
    { apply bind_term.
      - apply cp_arr_term. intros ps0 p0 x y Hx. apply IH. pose proof (depth_child from x Hx). lia.
      - intros [[a b] c] _. apply term_ok. }
    destruct (tymask (n_ty from) =? c_cJSON_Object); [|apply term_ok].
    destruct (sort_object_ok from cs) as (ra & Ha & Pa). destruct (sort_object_ok to cs) as (rb & Hb & Pb).
    rewrite Ha. cbn [bind]. rewrite Hb. cbn [bind]. rewrite !n_children_set.
    apply bind_term.
    + apply cp_walk_term; [lia|]. intros ps0 p0 x y Hx. apply IH.
      assert (In x (n_children from)) by (eapply Permutation_in; [apply Permutation_sym; exact Pa | exact Hx]).
      pose proof (depth_child from x H). lia.
    + intros [[a b] c] _. apply term_ok.
Qed.

Theorem generate_patches_total from to cs : generate_patches from to cs <> OutOfFuel.
Proof.
  unfold generate_patches. apply (bind_term (create_patches (node_depth from) [] [] from to cs)); [apply create_patches_total; lia|].
  intros [[a b] c] _. apply term_ok.
Qed.

(** ---------- a concrete pair: {"b":1,"a":2} -> {"b":1,"a":2,"c":[3]} (the witness of finding F14) ---------- *)
Definition g_num (k : bytes) (v : Z) : node := Node 8 None v (dbl_of_int v) (Some k) [].
Definition g_from : node := Node 64 None 0 (S754_zero false) None [g_num [98] 1; g_num [97] 2].
Definition g_to : node := Node 64 None 0 (S754_zero false) None
  [g_num [98] 1; g_num [97] 2; Node 32 None 0 (S754_zero false) (Some [99]) [Node 8 None 3 (dbl_of_int 3) None []]].

Lemma gen_example :
  dwf g_from /\ dwf g_to /\ shallow g_to /\ doc_eqb g_from g_to = false /\
  exists patches f' t' ops d,
    cJSONUtils_GeneratePatchesCaseSensitive g_from g_to = Ok (patches, f', t') /\
    f' <> g_from /\ doc_eqb f' g_from = true /\
    ops_of patches = Some ops /\ length ops = 1%nat /\ eval g_from ops = Some d /\ doc_eqb d g_to = true /\ doc_eqb g_to d = true.
Proof.
  split; [apply PatchSeq.dwfb_sound; vm_compute; reflexivity|].
  split; [apply PatchSeq.dwfb_sound; vm_compute; reflexivity|].
  split; [apply PatchSeq.shallowb_sound; vm_compute; reflexivity|].
  split; [vm_compute; reflexivity|].
  do 5 eexists. split; [vm_compute; reflexivity|].
  split; [intro X; vm_compute in X; discriminate X|].
  split; [vm_compute; reflexivity|]. split; [vm_compute; reflexivity|]. split; [reflexivity|].
  split; [vm_compute; reflexivity|]. split; vm_compute; reflexivity.
Qed.
