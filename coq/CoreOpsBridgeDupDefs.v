(** CoreOpsBridgeDupDefs.v — cJSON_Duplicate in the list model and in the acceptance checker of the
    EXTRACTED interpreter (definitions only; proofs in CoreOpsBridgeDupSim.v / CoreOpsBridgeDupStep.v /
    CoreOpsBridgeDupHist.v).

    The allocator of Heap.v is deterministic: the block a request obtains is [h_next], which then
    advances by one.  With the allocator that never refuses, the identities of the blocks of a
    copy are therefore a FUNCTION of the source tree and of the allocator counter:

    * [dupm t a]: the copy of the source [t] (what the heap reads as below the item:
      [CoreRefineDupUnroll.unroll]) whose blocks are numbered from [a] in the order in which the C
      code requests them — node, its valuestring, its key (unless cJSON_StringIsConst: the key
      block is shared), then the children, left to right, each completely before the next — and
      the allocator counter after the call.  [None]: the walk met a node that was cut off at the
      depth limit CJSON_CIRCULAR_LIMIT ([is_cut]); the call then releases what it has built and
      returns NULL; the counter has advanced by the requests made up to that point;
    * [dupw F k t a] = [dupm (unroll F k t) a] computed in one pass with the early exit of the C
      code (what the extracted checker runs: the unrolling of a cyclic structure is not built);
    * [news strs u tc]: the string blocks of the copy with their contents (the C string of the
      source block and the terminator);
    * [spec_dup S item recurse]: the list model of the call on the abstract state;
    * [dup_okb S p]: the rule checker — the item is a node of the model's forest, every reference
      node of the forest designates a node of the forest, every valuestring is a readable string;
    * [stepRD] / [runRD] / [accepted_rulesD]: [CoreOpsBridgeOwned.stepR] extended by [ODuplicate]. *)
From CJ Require Import Base Dbl Heap Forest CoreSpec CoreDefs CoreRefineHistory CoreRefineHistoryObj CoreRefineHistoryObjEx
  CoreRefineDupNode CoreRefineDupUnroll CoreHistoryAllSteps CoreHistoryAll CoreOpsBridge CoreOpsBridgeHist CoreOpsBridgeOwned.
From CJ Require CoreOps.
From CJ.gen Require Import Constants.
From stdpp Require Import gmap.

(** * the blocks of the copy of one node, numbered from [a] *)
Definition dup_vstr (d : rdata) (a : positive) : ptr :=
  match rd_vstr d with Some _ => Some (Pos.succ a) | None => None end.
Definition after_vstr (d : rdata) (a : positive) : positive :=
  match rd_vstr d with Some _ => Pos.succ (Pos.succ a) | None => Pos.succ a end.
Definition dup_key (d : rdata) (a : positive) : ptr :=
  match rd_key d with
  | None => None
  | Some b => if is_const d then Some b else Some (after_vstr d a)
  end.
Definition after_key (d : rdata) (a : positive) : positive :=
  match rd_key d with
  | None => after_vstr d a
  | Some _ => if is_const d then after_vstr d a else Pos.succ (after_vstr d a)
  end.
Definition dup_data (d : rdata) (a : positive) : rdata := cp_data d (dup_vstr d a) (dup_key d a).

(** a node that was cut off at the depth limit: no children in the source, but a child pointer *)
Definition is_cut (d : rdata) (cs : list tree) : bool :=
  match cs, rd_ref d with [], Some _ => true | _, _ => false end.

(** * the copy, as a function *)
Fixpoint dupm (t : tree) (a : positive) {struct t} : option tree * positive :=
  match t with
  | T i d cs =>
      let r := (fix go (l : list tree) (a : positive) {struct l} : option (list tree) * positive :=
                  match l with
                  | [] => (Some [], a)
                  | c :: l' =>
                      match dupm c a with
                      | (Some tc, a1) =>
                          match go l' a1 with
                          | (Some tcs, a2) => (Some (tc :: tcs), a2)
                          | (None, a2) => (None, a2)
                          end
                      | (None, a1) => (None, a1)
                      end
                  end) cs (after_key d a) in
      match r.1 with
      | Some tcs => if is_cut d cs then (None, r.2) else (Some (T a (dup_data d a) tcs), r.2)
      | None => (None, r.2)
      end
  end.
Definition dupl : list tree -> positive -> option (list tree) * positive :=
  fix go (l : list tree) (a : positive) {struct l} : option (list tree) * positive :=
    match l with
    | [] => (Some [], a)
    | c :: l' =>
        match dupm c a with
        | (Some tc, a1) =>
            match go l' a1 with
            | (Some tcs, a2) => (Some (tc :: tcs), a2)
            | (None, a2) => (None, a2)
            end
        | (None, a1) => (None, a1)
        end
    end.

(** the same in one pass over the forest, with the early exit of the C code *)
Fixpoint dupw (F : forest) (k : nat) (t : tree) (a : positive) {struct k} : option tree * positive :=
  match t with
  | T i d cs =>
      match k with
      | O =>
          match child_of d (tid <$> cs) with
          | Some _ => (None, after_key d a)
          | None => (Some (T a (dup_data d a) []), after_key d a)
          end
      | S k' =>
          let r := (fix go (l : list tree) (a : positive) {struct l} : option (list tree) * positive :=
                      match l with
                      | [] => (Some [], a)
                      | c :: l' =>
                          match dupw F k' c a with
                          | (Some tc, a1) =>
                              match go l' a1 with
                              | (Some tcs, a2) => (Some (tc :: tcs), a2)
                              | (None, a2) => (None, a2)
                              end
                          | (None, a1) => (None, a1)
                          end
                      end) (kids F t) (after_key d a) in
          match r.1 with
          | Some tcs => if is_cut d (kids F t) then (None, r.2) else (Some (T a (dup_data d a) tcs), r.2)
          | None => (None, r.2)
          end
      end
  end.

(** * the new string blocks with their contents *)
Definition new_str (strs : gmap positive bytes) (b b' : ptr) : list (positive * bytes) :=
  match b, b' with
  | Some x, Some y => [(y, cstr (default [] (strs !! x)) ++ [0%Z])]
  | _, _ => []
  end.
Definition node_news (strs : gmap positive bytes) (d d' : rdata) : list (positive * bytes) :=
  new_str strs (rd_vstr d) (rd_vstr d') ++ (if is_const d then [] else new_str strs (rd_key d) (rd_key d')).
Fixpoint news (strs : gmap positive bytes) (t tc : tree) {struct t} : list (positive * bytes) :=
  match t, tc with
  | T _ d cs, T _ d' cs' =>
      node_news strs d d' ++
      (fix go (l l' : list tree) {struct l} : list (positive * bytes) :=
         match l, l' with
         | c :: r, c' :: r' => news strs c c' ++ go r r'
         | _, _ => []
         end) cs cs'
  end.
Definition news_list (strs : gmap positive bytes) : list tree -> list tree -> list (positive * bytes) :=
  fix go (l l' : list tree) {struct l} : list (positive * bytes) :=
    match l, l' with
    | c :: r, c' :: r' => news strs c c' ++ go r r'
    | _, _ => []
    end.

(** * the list model of the call *)
Definition dup_limit_nat : nat := Z.to_nat c_CJSON_CIRCULAR_LIMIT.

(** the node alone, as the non-recursive call reads it *)
Definition flat_source (t : tree) : tree :=
  match t with T i d cs => T i (mkRD (rd_type d) (rd_vstr d) (rd_vint d) (rd_vdbl d) (rd_key d) None) [] end.

(** what the call reads below the item *)
Definition dup_source (F : forest) (t : tree) (recurse : bool) : tree :=
  if recurse then unroll F dup_limit_nat t else flat_source t.
(** the copy and the allocator counter after the call (computed with the early exit) *)
Definition dup_result (F : forest) (t : tree) (recurse : bool) (a : positive) : option tree * positive :=
  if recurse then dupw F dup_limit_nat t a else dupm (flat_source t) a.

Definition spec_dup (S : astate2) (item : ptr) (recurse : bool) : astate2 * ptr :=
  match item with
  | None => (S, None)
  | Some p =>
      match find_tree p (a_forest S) with
      | None => (S, None)
      | Some t =>
          let r := dup_result (a_forest S) t recurse (nxt S) in
          let rq := (req S + (Pos.to_nat r.2 - Pos.to_nat (nxt S)))%nat in
          match r.1 with
          | Some tc =>
              (mk3 (a_forest S ++ [tc]) r.2 rq
                   (list_to_map (news (a_str S) (dup_source (a_forest S) t recurse) tc) ∪ a_str S) (a_foreign S),
               Some (tid tc))
          | None => (mk3 (a_forest S) r.2 rq (a_str S) (a_foreign S), None)
          end
      end
  end.

(** * the rules *)
Definition refs_inb (F : forest) : bool :=
  forallb (fun e : fnode => match rd_ref (fn_data e) with Some c => bool_decide (c ∈ ids F) | None => true end) (flat F).
Definition vals_readableb (S : astate2) : bool :=
  forallb (fun e : fnode => match rd_vstr (fn_data e) with Some b => name_okb S (Some b) | None => true end)
          (flat (a_forest S)).
Definition dup_okb (S : astate2) (item : ptr) : bool :=
  match item with
  | None => true
  | Some p =>
      match find_tree p (a_forest S) with
      | Some _ => refs_inb (a_forest S) && vals_readableb S
      | None => false
      end
  end.

(** * acceptance, extended by [ODuplicate] *)
Definition stepRD (st : CoreOps.state) (S : astate2) (o : CoreOps.op) : option (CoreOps.result * CoreOps.state * astate2) :=
  match o with
  | CoreOps.ODuplicate i recurse =>
      let item := CoreOps.item_of st i in
      if dup_okb S item then
        let r := spec_dup S item recurse in
        Some (CoreOps.RPtr r.2, sweepS r.1 (CoreOps.push_item st r.2), r.1)
      else None
  | _ => stepR st S o
  end.

Fixpoint runRD (st : CoreOps.state) (S : astate2) (ops : list CoreOps.op) : option (list CoreOps.result * CoreOps.state * astate2) :=
  match ops with
  | [] => Some ([], st, S)
  | o :: r =>
      match stepRD st S o with
      | Some (x, st1, S1) =>
          match runRD st1 S1 r with
          | Some (xs, st2, S2) => Some (x :: xs, st2, S2)
          | None => None
          end
      | None => None
      end
  end.

(** ACCEPTED (rules only, duplicate calls included) *)
Definition accepted_rulesD (ops : list CoreOps.op) : bool :=
  match runRD CoreOps.empty_state S0 ops with Some _ => true | None => false end.
