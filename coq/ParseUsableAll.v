(** ParseUsableAll.v — property C01, the "usable result" clause: the three models joined.

      parser (ParseDefs / ParseSpec, value-level tree)
        --[ParseUsable.text_l_shape]-->      the tree has the parser's SHAPE
        --[ParseUsable.shape_prints]-->      the printer (PrintDefs) renders it, both formats
        --[shape_plain, ParseUsableHeap]-->  its heap image ([mat]) is a well-formed root of the
                                             tree API's heap (Forest.WF), owns [blocks t] blocks,
                                             and cJSON_Delete of it restores the ledger.

    Also the non-vacuity example: one text with nested containers, strings with escapes, an
    integer, a fraction, an exponent and all three literals — parsed, rendered in both formats,
    materialised from the empty heap and deleted, everything computed by [vm_compute] with the
    reference libc. *)
From CJ Require Import Base Dbl Tree LibcNum LibcPrint ParseDefs ParseSpec Grammar ParseRefine ParseSafe
  PrintDefs PrintStrict PrintStrictRef RoundTripNum RoundTripRefValid ParseUsable ParseUsableOracle.
From CJ Require Import Heap Forest CoreDefs SortDefs ParseUsableHeap ParseUsableWalk.
From CJ.gen Require Import Constants.
From stdpp Require Import gmap.
Local Open Scope Z_scope.

(** a tree of the parser's shape carries no reference / constant-key flag *)
Lemma shape_plain B D : forall t keyed d, shape B D keyed d t -> plain t = true.
Proof.
  induction t as [ty vs vi vd key ch IH] using node_ind'. intros keyed d H.
  assert (Hch : forall k d', Forall (shape B D k d') ch -> forallb plain ch = true).
  { intros k d' HF. apply forallb_forall. intros c Hc. rewrite List.Forall_forall in IH, HF. by apply (IH c Hc k d'), HF. }
  inversion H as [k d0 key0 Hk|k d0 key0 Hk|k d0 key0 Hk|k d0 key0 x Hk Hx|k d0 key0 s Hk Hs
                  |k d0 key0 ch0 Hk HF|k d0 key0 ch0 Hk HF]; subst; try reflexivity.
  - rewrite plain_unfold, (Hch _ _ HF). reflexivity.
  - rewrite plain_unfold, (Hch _ _ HF). reflexivity.
Qed.

(** ... and its strings and keys are C strings *)
Lemma zero_free_nz s : zero_free s -> nz s = true.
Proof.
  intros H. unfold zero_free in H. unfold nz. apply forallb_forall. intros c Hc. rewrite List.Forall_forall in H.
  destruct (Z.eqb_spec c 0) as [->|Hne]; [|done]. by destruct (H 0 Hc).
Qed.
Lemma key_ok_nz B k key : key_ok B k key -> nz_opt key = true.
Proof. destruct key as [s|]; [|done]. intros [_ [Hz _]]. by apply zero_free_nz. Qed.

Lemma shape_cstrings B D : forall t keyed d, shape B D keyed d t -> cstrings t = true.
Proof.
  induction t as [ty vs vi vd key ch IH] using node_ind'. intros keyed d H.
  assert (Hch : forall k d', Forall (shape B D k d') ch -> forallb cstrings ch = true).
  { intros k d' HF. apply forallb_forall. intros c Hc. rewrite List.Forall_forall in IH, HF. by apply (IH c Hc k d'), HF. }
  rewrite cstrings_unfold.
  inversion H as [k d0 key0 Hk|k d0 key0 Hk|k d0 key0 Hk|k d0 key0 x Hk Hx|k d0 key0 s Hk Hs
                  |k d0 key0 ch0 Hk HF|k d0 key0 ch0 Hk HF]; subst; rewrite (key_ok_nz _ _ _ Hk); try reflexivity.
  - cbn [nz_opt forallb]. destruct Hs as [Hz _]. by rewrite (zero_free_nz _ Hz).
  - by rewrite (Hch _ _ HF).
  - by rewrite (Hch _ _ HF).
Qed.

(** walking: the independent traversal [SortDefs.read_node] of the image of [t], built in any
    well-formed heap, returns without error, leaves the heap as it is, and reads back [t] *)
Definition walkable (t : node) : Prop :=
  forall h F, WF h F ->
    exists h', mat t h = Ret (Some (h_next h), h') /\
      forall fuel, (node_size t <= fuel)%nat -> read_node fuel (Some (h_next h)) h' = Ret (t, h').

Theorem parsed_tree_walks strtod l rnt t rest : text_l strtod l rnt = Some (t, rest) -> walkable t.
Proof.
  intros H h F W.
  assert (Hs : shape (fun _ => True) (fun _ => True) false nesting_limit t).
  { apply (text_l_shape strtod (fun _ => True) (fun _ => True) (fun _ _ => I) (fun _ _ _ _ => I) l rnt t rest); [|exact H].
    apply List.Forall_forall. intros; exact I. }
  apply (mat_read_back t h F); [by eapply shape_plain|by eapply shape_cstrings|done].
Qed.

(** PART 3.  Every tree of an accepted text — hence every tree the entry points return — seen as a
    heap structure, is a well-formed root that the tree API can walk and delete. *)
Theorem parsed_tree_walks_and_deletes strtod l rnt t rest :
  text_l strtod l rnt = Some (t, rest) -> heap_usable t.
Proof.
  intros H. apply plain_heap_usable.
  apply (shape_plain (fun _ => True) (fun _ => True) t false nesting_limit).
  apply (text_l_shape strtod (fun _ => True) (fun _ => True) (fun _ _ => I) (fun _ _ _ _ => I) l rnt t rest); [|exact H].
  apply List.Forall_forall. intros; exact I.
Qed.

(** … and the number of blocks the image owns is the parser's own ledger [pr_live] *)
Theorem parsed_result_walks_and_deletes strtod content len rnt r t :
  strtod_ok strtod -> (len <= length content)%nat ->
  cJSON_ParseWithLengthOpts strtod never_fails content len rnt = Ok r -> pr_tree r = Some t ->
  heap_usable t /\ walkable t /\ pr_live r = blocks t.
Proof.
  intros Hok Hlen Hr Ht.
  assert (Htxt : exists rest, text_l strtod (firstn len content) rnt = Some (t, rest)).
  { destruct (parse_refines_spec strtod content len rnt Hok Hlen) as (r0 & Hr0 & Hspec).
    rewrite Hr in Hr0. injection Hr0 as <-.
    destruct (text_l strtod (firstn len content) rnt) as [[t0 rest]|] eqn:E.
    + destruct Hspec as [Ht0 _]. rewrite Ht in Ht0. injection Ht0 as <-. by exists rest.
    + rewrite Ht in Hspec. discriminate. }
  destruct Htxt as [rest E]. split; [|split].
  - eapply parsed_tree_walks_and_deletes. exact E.
  - eapply parsed_tree_walks. exact E.
  - destruct (parse_length_safe strtod never_fails content len rnt Hok Hlen) as (r0 & Hr0 & _ & Hl).
    rewrite Hr in Hr0. injection Hr0 as <-. by apply Hl.
Qed.

(** * every allocation schedule, every entry point *)

(** heap side, length-based entry point, ANY schedule: a returned tree is usable and the ledger
    of the call is its block count *)
Theorem parsed_any_oracle_walks_and_deletes strtod oracle content len rnt r t :
  strtod_ok strtod -> (len <= length content)%nat ->
  cJSON_ParseWithLengthOpts strtod oracle content len rnt = Ok r -> pr_tree r = Some t ->
  heap_usable t /\ walkable t /\ pr_live r = blocks t.
Proof.
  intros Hok Hlen Hr Ht.
  exact (parsed_result_walks_and_deletes strtod content len rnt r t Hok Hlen
           (parse_tree_any_oracle strtod oracle content len rnt r t Hr Ht) Ht).
Qed.

(** shape, ANY schedule *)
Theorem parsed_tree_shape_any_oracle strtod (B : Z -> Prop) (D : dbl -> Prop) :
  (forall c, is_byte c = true -> B c) -> (forall s d k, strtod s = Some (d, k) -> D d) ->
  strtod_ok strtod ->
  forall oracle content len rnt r t, (len <= length content)%nat -> List.Forall B (firstn len content) ->
    cJSON_ParseWithLengthOpts strtod oracle content len rnt = Ok r -> pr_tree r = Some t ->
    shape B D false nesting_limit t.
Proof.
  intros HB HD Hok oracle content len rnt r t Hlen HF Hr Ht.
  exact (parsed_tree_shape strtod B D HB HD Hok content len rnt r t Hlen HF
           (parse_tree_any_oracle strtod oracle content len rnt r t Hr Ht) Ht).
Qed.

(** prints, ANY schedule of the parse (and, inside [prints_ok], any schedule of the print) *)
Theorem parsed_any_oracle_prints strtod fmt_d fmt_g15 fmt_g17 sscanf_lg :
  LibcStrictSpec fmt_d fmt_g15 fmt_g17 -> strtod_ok strtod -> strtod_valid strtod ->
  forall oracle content len rnt r t,
    (len <= length content)%nat -> List.Forall Bbyte (firstn len content) ->
    cJSON_ParseWithLengthOpts strtod oracle content len rnt = Ok r -> pr_tree r = Some t ->
    prints_ok fmt_d fmt_g15 fmt_g17 sscanf_lg t.
Proof.
  intros L Hok Hvalid oracle content len rnt r t Hlen HB Hr Ht.
  exact (parsed_result_prints strtod fmt_d fmt_g15 fmt_g17 sscanf_lg L Hok Hvalid content len rnt r t Hlen HB
           (parse_tree_any_oracle strtod oracle content len rnt r t Hr Ht) Ht).
Qed.

Corollary parsed_any_oracle_deletes strtod oracle content len rnt r t :
  strtod_ok strtod -> (len <= length content)%nat ->
  cJSON_ParseWithLengthOpts strtod oracle content len rnt = Ok r -> pr_tree r = Some t ->
  heap_usable t /\ pr_live r = blocks t.
Proof.
  intros Hok Hlen Hr Ht.
  destruct (parsed_any_oracle_walks_and_deletes strtod oracle content len rnt r t Hok Hlen Hr Ht) as (HU & _ & HL).
  by split.
Qed.
Corollary parsed_any_oracle_walks strtod oracle content len rnt r t :
  strtod_ok strtod -> (len <= length content)%nat ->
  cJSON_ParseWithLengthOpts strtod oracle content len rnt = Ok r -> pr_tree r = Some t ->
  walkable t.
Proof.
  intros Hok Hlen Hr Ht.
  by destruct (parsed_any_oracle_walks_and_deletes strtod oracle content len rnt r t Hok Hlen Hr Ht) as (_ & HW & _).
Qed.
Corollary tree_means_all_granted strtod oracle content len rnt r t :
  cJSON_ParseWithLengthOpts strtod oracle content len rnt = Ok r -> pr_tree r = Some t ->
  (forall k, (k < pr_requests r)%nat -> oracle k = false) /\
  cJSON_ParseWithLengthOpts strtod never_fails content len rnt = Ok r.
Proof.
  intros E Ht. split; [exact (parse_tree_granted strtod oracle content len rnt r t E Ht)|
                       exact (parse_tree_any_oracle strtod oracle content len rnt r t E Ht)].
Qed.

Lemma Forall_firstn_list {A} (P : A -> Prop) n : forall l : list A, List.Forall P l -> List.Forall P (firstn n l).
Proof.
  induction n as [|n IH]; intros l H; [constructor|]. destruct l as [|x l]; [constructor|].
  inversion H; subst. cbn [firstn]. constructor; [assumption|]. by apply IH.
Qed.

Section AllEntries.
  Variable strtod : bytes -> option (dbl * nat).
  Variable fmt_d : Z -> bytes.
  Variable fmt_g15 fmt_g17 : dbl -> bytes.
  Variable sscanf_lg : bytes -> option dbl.
  Hypothesis L : LibcStrictSpec fmt_d fmt_g15 fmt_g17.
  Hypothesis Hok : strtod_ok strtod.
  Hypothesis Hvalid : strtod_valid strtod.

  (** shape + prints + walks/deletes in one statement *)
  Definition usable (t : node) : Prop :=
    shape Bbyte Dvalid false nesting_limit t /\ prints_ok fmt_d fmt_g15 fmt_g17 sscanf_lg t /\
    walkable t /\ heap_usable t.

  (** cJSON_ParseWithLengthOpts (and cJSON_ParseWithLength = the same with rnt = false) *)
  Theorem parse_length_result_usable oracle content len rnt r t :
    (len <= length content)%nat -> List.Forall Bbyte (firstn len content) ->
    cJSON_ParseWithLengthOpts strtod oracle content len rnt = Ok r -> pr_tree r = Some t ->
    usable t /\ pr_live r = blocks t.
  Proof.
    intros Hlen HB Hr Ht.
    pose proof (parse_tree_any_oracle strtod oracle content len rnt r t Hr Ht) as Hr0.
    destruct (parsed_result_walks_and_deletes strtod content len rnt r t Hok Hlen Hr0 Ht) as (HU & HW & HL).
    split; [|exact HL]. split; [|split; [|split; [exact HW|exact HU]]].
    - exact (parsed_tree_shape strtod Bbyte Dvalid (fun c Hc => Hc) Hvalid Hok content len rnt r t Hlen HB Hr0 Ht).
    - exact (parsed_result_prints strtod fmt_d fmt_g15 fmt_g17 sscanf_lg L Hok Hvalid content len rnt r t Hlen HB Hr0 Ht).
  Qed.

  (** cJSON_ParseWithOpts (and cJSON_Parse = the same with rnt = false) *)
  Theorem parse_string_result_usable oracle content rnt r t :
    List.Forall Bbyte content ->
    cJSON_ParseWithOpts strtod oracle content rnt = Ok r -> pr_tree r = Some t ->
    usable t /\ pr_live r = blocks t.
  Proof.
    intros HB Hr Ht. destruct (parse_with_opts_as_length strtod oracle content rnt r Hr) as (n & Hn & Hr').
    exact (parse_length_result_usable oracle content (n + 1) rnt r t Hn (Forall_firstn_list _ _ _ HB) Hr' Ht).
  Qed.

  Corollary parse_result_usable oracle content r t :
    List.Forall Bbyte content -> cJSON_Parse strtod oracle content = Ok r -> pr_tree r = Some t ->
    usable t /\ pr_live r = blocks t.
  Proof. apply parse_string_result_usable. Qed.

  Corollary parse_with_length_result_usable oracle content len r t :
    (len <= length content)%nat -> List.Forall Bbyte (firstn len content) ->
    cJSON_ParseWithLength strtod oracle content len = Ok r -> pr_tree r = Some t ->
    usable t /\ pr_live r = blocks t.
  Proof. apply parse_length_result_usable. Qed.
End AllEntries.

(** the reference strtod satisfies the validity clause (RoundTripRefValid.v; Flocq) *)
Lemma strtod_ref_valid : strtod_valid strtod_ref.
Proof. intros s d k H. exact (ref_valid s d k H). Qed.

(** * non-vacuity *)

(*  {"a":[1,2.5,"x\né",{"k":null,"e":[]}],"b":true, "c":-3e2}  *)
Definition ex_text : bytes :=
  [123; 34; 97; 34; 58; 91; 49; 44; 50; 46; 53; 44; 34; 120; 92; 110; 92; 117; 48; 48; 101; 57; 34; 44; 123; 34;
   107; 34; 58; 110; 117; 108; 108; 44; 34; 101; 34; 58; 91; 93; 125; 93; 44; 34; 98; 34; 58; 116; 114; 117; 101;
   44; 32; 34; 99; 34; 58; 45; 51; 101; 50; 125].

Definition ex_tree : node :=
  Node 64 None 0 dzero None
    [Node 32 None 0 dzero (Some [97])
       [Node 8 None 1 (S754_finite false 4503599627370496 (-52)) None [];
        Node 8 None 2 (S754_finite false 5629499534213120 (-51)) None [];
        Node 16 (Some [120; 10; 195; 169]) 0 dzero None [];
        Node 64 None 0 dzero None
          [Node 4 None 0 dzero (Some [107]) [];
           Node 32 None 0 dzero (Some [101]) []]];
     Node 2 None 1 dzero (Some [98]) [];
     Node 8 None (-300) (S754_finite true 5277655813324800 (-44)) (Some [99]) []].

(*  {"a":[1,2.5,"x\nÃ©" as raw UTF-8,{"k":null,"e":[]}],"b":true,"c":-300}  *)
Definition ex_unformatted : bytes :=
  [123; 34; 97; 34; 58; 91; 49; 44; 50; 46; 53; 44; 34; 120; 92; 110; 195; 169; 34; 44; 123; 34; 107; 34; 58; 110;
   117; 108; 108; 44; 34; 101; 34; 58; 91; 93; 125; 93; 44; 34; 98; 34; 58; 116; 114; 117; 101; 44; 34; 99; 34; 58;
   45; 51; 48; 48; 125].

Definition ex_run : option (ptr * list positive * positive * list positive * list positive * list positive) :=
  match mat ex_tree empty_heap with
  | Ret (p, h') =>
      match cJSON_Delete p h' with
      | Ret (_, h'') => Some (p, elements (lib_live h'), h_next h', elements (lib_live h''),
                              elements (dom (h_lnk h'')), elements (dom (h_str h'')))
      | Err _ => None
      end
  | Err _ => None
  end.

Example usable_example :
  Forall Bbyte ex_text /\
  text_l strtod_ref ex_text false = Some (ex_tree, []) /\
  (exists r, cJSON_ParseWithLengthOpts strtod_ref never_fails ex_text (length ex_text) false = Ok r /\
             pr_tree r = Some ex_tree /\ pr_live r = 16) /\
  blocks ex_tree = 16 /\
  render fmt_d sg_fmt_g15 sg_fmt_g17 sscanf_lg false 0 ex_tree = Some ex_unformatted /\
  (exists txt, render fmt_d sg_fmt_g15 sg_fmt_g17 sscanf_lg true 0 ex_tree = Some txt /\ length txt = 83%nat) /\
  (* materialised from the empty heap: root 1, 16 live library blocks 1..16; after cJSON_Delete: nothing *)
  (exists live, ex_run = Some (Some 1%positive, live, 17%positive, [], [], []) /\ length live = 16%nat) /\
  (* the walk of the image reads back the tree *)
  (exists h', mat ex_tree empty_heap = Ret (Some 1%positive, h') /\
              exists h'', read_node 20 (Some 1%positive) h' = Ret (ex_tree, h'')).
Proof.
  split; [|split; [|split; [|split; [|split; [|split; [|split]]]]]].
  - apply List.Forall_forall. intros c Hc. apply (proj1 (forallb_forall _ _) (eq_refl : forallb is_byte ex_text = true) c Hc).
  - vm_compute. reflexivity.
  - eexists. split; [vm_compute; reflexivity|]. split; reflexivity.
  - reflexivity.
  - vm_compute. reflexivity.
  - eexists. split; [vm_compute; reflexivity|]. reflexivity.
  - eexists. split; [vm_compute; reflexivity|]. reflexivity.
  - destruct (mat_read_back ex_tree empty_heap [] eq_refl eq_refl) as (h' & Hm & Hr).
    { constructor; cbn; try done; try apply NoDup_nil_2; intros b Hb; by apply elem_of_nil in Hb. }
    exists h'. split; [exact Hm|]. exists h'. apply Hr. vm_compute. lia.
Qed.

(** the general theorems apply to it: all hypotheses hold for the reference libc *)
Example usable_example_general :
  shape Bbyte Dvalid false nesting_limit ex_tree /\
  prints_ok fmt_d sg_fmt_g15 sg_fmt_g17 sscanf_lg ex_tree /\
  heap_usable ex_tree /\ walkable ex_tree.
Proof.
  destruct usable_example as (HB & Htxt & _).
  split; [|split; [|split]].
  - exact (text_l_shape strtod_ref Bbyte Dvalid (fun c Hc => Hc) strtod_ref_valid ex_text false ex_tree [] HB Htxt).
  - exact (parsed_tree_prints strtod_ref fmt_d sg_fmt_g15 sg_fmt_g17 sscanf_lg strict_spec_satisfiable strtod_ref_valid
             ex_text false ex_tree [] HB Htxt).
  - exact (parsed_tree_walks_and_deletes strtod_ref ex_text false ex_tree [] Htxt).
  - exact (parsed_tree_walks strtod_ref ex_text false ex_tree [] Htxt).
Qed.

(** evidence on the example only (computed, not a theorem about all trees): our [mat], which
    appends the children with the library's add_item_to_array, and [SortDefs.materialize], which
    links them inline the way parse_array / parse_object do (next/prev as it goes, head.prev = last
    at the end), leave IDENTICAL heaps — links, data, strings, ownership, liveness, allocator
    counters and event trace *)
Definition heap_obs (h : heap) :=
  (map_to_list (h_lnk h), map_to_list (h_dat h), map_to_list (h_str h), map_to_list (h_own h),
   elements (h_live h), h_next h, h_req h, h_trace h).
Example mat_agrees_with_inline_linking_on_example :
  match mat ex_tree empty_heap, materialize ex_tree empty_heap with
  | Ret (p1, h1), Ret (p2, h2) => p1 = p2 /\ heap_obs h1 = heap_obs h2
  | _, _ => False
  end.
Proof. vm_compute. split; reflexivity. Qed.
