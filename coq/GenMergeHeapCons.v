(** GenMergeHeapCons.v — for EVERY allocation-failure schedule: whenever the heap-level [compare_json] /
    [generate_merge_patch] (and the heap-level [sort_object] of C19 they call) RETURN from a sane heap, the heap
    is sane again, identities were only handed out upwards, ownership tags are unchanged and every block the
    library only borrows is live with bit-identical contents ([CoreLedgerGen.Cons], the generic half of C07). *)
From CJ Require Import Base Dbl Heap Forest CoreDefs CoreRefineBase CoreLedgerGen CoreLedgerDup.
From CJ Require Import MergeHeapDefs MergeHeapProofs GenMergeHeapDefs GenMergeHeapCompare GenMergeHeapProofs.
From CJ Require SortDefs.
From CJ.gen Require Import Constants.
From stdpp Require Import gmap.
Local Open Scope Z_scope.

(** * the heap-level sort *)
Lemma Cons_compare_strings a b cs : Cons (SortDefs.compare_strings a b cs).
Proof. unfold SortDefs.compare_strings. cons. Qed.
Global Hint Resolve Cons_compare_strings : cons.

Lemma Cons_scan_sorted fuel : forall c cs, Cons (SortDefs.scan_sorted fuel c cs).
Proof. induction fuel as [|f IH]; intros c cs; cbn [SortDefs.scan_sorted]; [cons|]. cons; try apply IH. Qed.
Lemma Cons_find_middle fuel : forall s c, Cons (SortDefs.find_middle fuel s c).
Proof. induction fuel as [|f IH]; intros s c; cbn [SortDefs.find_middle]; [cons|]. cons; try apply IH. Qed.
Lemma Cons_split_before s : Cons (SortDefs.split_before s).
Proof. unfold SortDefs.split_before. cons. Qed.
Lemma Cons_sort_merge_loop fuel : forall a b r t cs, Cons (SortDefs.merge_loop fuel a b r t cs).
Proof. induction fuel as [|f IH]; intros a b r t cs; cbn [SortDefs.merge_loop]; [cons|]. cons; try apply IH. Qed.
Lemma Cons_append_rest rest r t (k : M ptr) : Cons k -> Cons (SortDefs.append_rest rest r t k).
Proof. intros Hk. unfold SortDefs.append_rest. cons; exact Hk. Qed.
Lemma Cons_merge_finish a b r t : Cons (SortDefs.merge_finish a b r t).
Proof. unfold SortDefs.merge_finish. apply Cons_append_rest, Cons_append_rest. cons. Qed.
Lemma Cons_sort_list fuel : forall l cs, Cons (SortDefs.sort_list fuel l cs).
Proof.
  induction fuel as [|f IH]; intros l cs; cbn [SortDefs.sort_list]; [cons|].
  cons; try apply IH; try apply Cons_scan_sorted; try apply Cons_find_middle; try apply Cons_split_before;
    try apply Cons_sort_merge_loop; try apply Cons_merge_finish.
Qed.
Lemma Cons_find_last fuel : forall l, Cons (SortDefs.find_last fuel l).
Proof. induction fuel as [|f IH]; intros l; cbn [SortDefs.find_last]; [cons|]. cons; try apply IH. Qed.
Lemma Cons_sort_object fuel o cs : Cons (SortDefs.sort_object fuel o cs).
Proof. unfold SortDefs.sort_object. cons; try apply Cons_sort_list; try apply Cons_find_last. Qed.

(** * compare_json *)
Lemma Cons_c_strcmp a b : Cons (c_strcmp a b).
Proof. unfold c_strcmp. cons. Qed.

Lemma Cons_cmp_loop pre rec :
  (forall a b k, Cons k -> Cons (pre a b k)) -> (forall a b, Cons (rec a b)) -> forall n a b, Cons (cmp_loop pre rec n a b).
Proof.
  intros Hpre Hrec. induction n as [|n IH]; intros a b; cbn [cmp_loop]; [cons|].
  destruct (is_null a || is_null b); [cons|]. apply Hpre. cons; try apply Hrec; try apply IH.
Qed.
Lemma Cons_pre_arr a b (k : M bool) : Cons k -> Cons (pre_arr a b k).
Proof. done. Qed.
Lemma Cons_pre_obj flag a b (k : M bool) : Cons k -> Cons (pre_obj flag a b k).
Proof. intros Hk. unfold pre_obj. cons; exact Hk. Qed.

Theorem Cons_compare_json_fuel df : forall lf a b flag, Cons (compare_json_fuel df lf a b flag).
Proof.
  induction df as [|df IH]; intros lf a b flag; [cbn [compare_json_fuel]; cons|].
  rewrite compare_json_fuel_S. repeat (first [cons_step | progress (cbv zeta)]); try apply Cons_c_strcmp; try apply Cons_sort_object.
  - apply Cons_cmp_loop; [apply Cons_pre_arr|intros; apply IH].
  - apply Cons_cmp_loop; [apply Cons_pre_obj|intros; apply IH].
Qed.
Theorem Cons_compare_json a b flag : Cons (compare_json a b flag).
Proof. unfold compare_json. cons. apply Cons_compare_json_fuel. Qed.

(** * generate_merge_patch *)
Section GenCons.
  Variable oracle : nat -> bool.

  Lemma Cons_CreateNull : Cons (cJSON_CreateNull oracle).
  Proof. unfold cJSON_CreateNull. apply Cons_create_with_type. Qed.
  Lemma Cons_CreateObject : Cons (cJSON_CreateObject oracle).
  Proof. unfold cJSON_CreateObject. apply Cons_create_with_type. Qed.
  Lemma Cons_AddItemToObject o k i : Cons (cJSON_AddItemToObject oracle o k i).
  Proof. unfold cJSON_AddItemToObject. apply Cons_add_item_to_object. Qed.

  Lemma Cons_gen_loop rec lfuel patch flag :
    (forall a b, Cons (rec a b)) -> forall n a b, Cons (gen_loop oracle rec lfuel patch flag n a b).
  Proof.
    intros Hrec. induction n as [|n IH]; intros a b; cbn [gen_loop]; [cons|].
    cons; try apply IH; try apply Hrec; try apply Cons_c_strcmp; try apply Cons_CreateNull; try apply Cons_AddItemToObject;
      try apply Cons_cJSON_Duplicate; try apply Cons_compare_json_fuel.
  Qed.

  Theorem Cons_generate_merge_patch_fuel df : forall lf from to flag, Cons (generate_merge_patch_fuel oracle df lf from to flag).
  Proof.
    induction df as [|df IH]; intros lf from to flag; [cbn [generate_merge_patch_fuel]; cons|].
    rewrite generate_merge_patch_fuel_S.
    cons; try apply Cons_CreateNull; try apply Cons_CreateObject; try apply Cons_cJSON_IsObject; try apply Cons_cJSON_Duplicate;
      try apply Cons_sort_object; try apply Cons_cJSON_Delete.
    apply Cons_gen_loop. intros x y. apply IH.
  Qed.
  Theorem Cons_generate_merge_patch from to flag : Cons (generate_merge_patch oracle from to flag).
  Proof. unfold generate_merge_patch. cons. apply Cons_generate_merge_patch_fuel. Qed.
End GenCons.
