#!/bin/sh
# build.sh [area]  — builds ocaml/driver_<area> from coq/model_<area>.ml(i) + driver.ml + h_<area>.ml + main.ml
set -e
area=${1:-base}
cd "$(dirname "$0")"
b=_build_$area
rm -rf $b; mkdir -p $b
c=${COQ_DIR:-../coq}
cp $c/model_$area.ml $b/model.ml; cp $c/model_$area.mli $b/model.mli
cp driver.ml main.ml $b/; cp h_$area.ml $b/handlers.ml
cd $b
ocamlfind ocamlopt -O3 -w -a model.mli model.ml driver.ml handlers.ml main.ml -o ../driver_$area.tmp 2>/dev/null || \
ocamlfind ocamlopt -w -a model.mli model.ml driver.ml handlers.ml main.ml -o ../driver_$area.tmp
mv ../driver_$area.tmp ../driver_$area
