(** TierBridgeDefs.v — definitions for the Tier-A / Tier-B bridge (TierBridgeLemmas.v).  No proofs.

    1. The value-level primitives AS THE TIER-B MODELS USE THEM.  MergeDefs.v names them
       ([mp_DetachItemFromObject], [mp_DeleteItemFromObject], [mp_AddItemToObject], [mp_dup_rec],
       [mp_sort_members]); PatchDefs.v writes most of them inline in [detach_path] and [finish_add] (marked
       there by comments with the name of the C function).  The [v_*] functions below are those inline
       expressions, verbatim; TierBridgeLemmas.v proves ([detach_path_uses], [finish_add_uses]) that the two
       functions of PatchDefs.v ARE these expressions.
    2. The position of the member a by-key lookup finds ([key_pos]): the common refinement of
       [CoreSpec.find_key_cs/_ci] (which return the identity of the member) and
       [CompareDefs.get_object_item_cs/_ci] (which return index and value).
    3. The forest-level stable member sort [sort_children] ([SortDefs.isort] by [SortDefs.key_le] on the
       key strings), i.e. [SortDefs.sort_spec] on trees instead of (identity, key) pairs.
    4. A concrete forest for the non-vacuity theorems. *)
From CJ Require Import Base Dbl Heap Forest CoreSpec CoreRefineDupValue.
From CJ Require Tree CompareDefs PointerDefs PatchDefs MergeDefs SortDefs.
From CJ.gen Require Import Constants.
From stdpp Require Import gmap.
Local Open Scope Z_scope.

(** * 1. value-level primitives as used by PatchDefs.v *)

(** Utils' own [detach_item_from_array(array, which)] (NOT cJSON_DetachItemFromArray): item and array afterwards *)
Definition v_detach_from_array (par : Tree.node) (idx : Z) : option (Tree.node * Tree.node) :=
  match PointerDefs.nth_z (Tree.n_children par) idx with
  | None => None
  | Some it => Some (it, PatchDefs.set_children par (PatchDefs.remove_nth (Z.to_nat idx) (Tree.n_children par)))
  end.
(** cJSON_DetachItemFromObject[CaseSensitive](object, name) *)
Definition v_detach_from_object (par : Tree.node) (name : bytes) (cs : bool) : option (Tree.node * Tree.node) :=
  match CompareDefs.get_object_item par (Some name) cs with
  | None => None
  | Some (j, it) => Some (it, PatchDefs.set_children par (PatchDefs.remove_nth j (Tree.n_children par)))
  end.
(** cJSON_DeleteItemFromObject[CaseSensitive](object, name): the member list afterwards *)
Definition v_delete_members (par : Tree.node) (name : bytes) (cs : bool) : list Tree.node :=
  match CompareDefs.get_object_item par (Some name) cs with
  | Some (j, _) => PatchDefs.remove_nth j (Tree.n_children par)
  | None => Tree.n_children par
  end.
Definition v_delete_from_object (par : Tree.node) (name : bytes) (cs : bool) : Tree.node :=
  PatchDefs.set_children par (v_delete_members par name cs).
(** cJSON_AddItemToObject(object, name, item) *)
Definition v_add_to_object (par : Tree.node) (name : bytes) (item : Tree.node) : Tree.node :=
  PatchDefs.set_children par (Tree.n_children par ++ [PatchDefs.keyed item name]).
(** cJSON_AddItemToArray(array, item) *)
Definition v_add_to_array (par item : Tree.node) : Tree.node :=
  PatchDefs.set_children par (Tree.n_children par ++ [item]).
(** Utils' own [insert_item_in_array(array, which, newitem)] (NOT cJSON_InsertItemInArray): it REFUSES an
    index past the end ([None], status 10 of apply_patch) *)
Definition v_insert_in_array (par : Tree.node) (idx : Z) (item : Tree.node) : option Tree.node :=
  if idx >? Z.of_nat (length (Tree.n_children par)) then None
  else Some (PatchDefs.set_children par (PatchDefs.insert_nth (Z.to_nat idx) item (Tree.n_children par))).
(** what cJSON_InsertItemInArray does on the member list: APPENDS when the index is past the end *)
Definition v_core_insert_in_array (par : Tree.node) (idx : Z) (item : Tree.node) : Tree.node :=
  PatchDefs.set_children par
    (if idx <? Z.of_nat (length (Tree.n_children par))
     then PatchDefs.insert_nth (Z.to_nat idx) item (Tree.n_children par)
     else Tree.n_children par ++ [item]).
(** cJSON_ReplaceItemInObject[CaseSensitive](object, name, replacement) on the member list (no Tier-B
    model calls it; stated for completeness of the C06 alphabet) *)
Definition v_replace_in_object (par : Tree.node) (name : bytes) (item : Tree.node) (cs : bool) : option Tree.node :=
  match CompareDefs.get_object_item par (Some name) cs with
  | None => None
  | Some (j, _) => Some (PatchDefs.set_children par (PatchDefs.replace_nth j (PatchDefs.keyed item name) (Tree.n_children par)))
  end.
(** cJSON_GetArraySize *)
Definition v_array_size (par : Tree.node) : Z := Z.of_nat (length (Tree.n_children par)).

(** * 2. position found by a by-key lookup *)
Definition key_match (flag : bool) (name k : bytes) : bool :=
  if flag then bool_decide (name = k) else bool_decide (tolower <$> name = tolower <$> k).
Fixpoint key_pos (St : gmap positive bytes) (flag : bool) (name : bytes) (cs : list tree) : option nat :=
  match cs with
  | [] => None
  | c :: r =>
      match key_string St c with
      | None => if flag then None else S <$> key_pos St flag name r   (* cs: stops; ci: skips *)
      | Some k => if key_match flag name k then Some O else S <$> key_pos St flag name r
      end
  end.

(** the member found: position and subtree *)
Definition found_member (St : gmap positive bytes) (flag : bool) (name : bytes) (cs : list tree) : option (nat * tree) :=
  key_pos St flag name cs ≫= fun k => (fun c => (k, c)) <$> cs !! k.

(** * 3. keys and the member sort on trees *)
Definition fkey (St : gmap positive bytes) (c : tree) : bytes := default [] (key_string St c).
Definition has_key (St : gmap positive bytes) (c : tree) : Prop := is_Some (key_string St c).
Definition tle (St : gmap positive bytes) (flag : bool) (a b : tree) : bool := SortDefs.key_le flag (fkey St a) (fkey St b).
Definition sort_children (St : gmap positive bytes) (flag : bool) (cs : list tree) : list tree :=
  SortDefs.isort (tle St flag) cs.
(** the (identity, key) pairs [SortDefs.sort_spec] works on *)
Definition member_pairs (St : gmap positive bytes) (cs : list tree) : list (positive * bytes) :=
  map (fun c => (tid c, fkey St c)) cs.

(** the string blocks a tree refers to (for the frame lemma of [reify] under allocation of a new block) *)
Fixpoint str_blocks (t : tree) : list positive :=
  match t with
  | T _ d cs => opt_list (rd_vstr d) ++ opt_list (rd_key d) ++ (cs ≫= str_blocks)
  end.

(** * 4. example: the forest
        root 1 = object {"a":1, "A":2, "b":[10,20]}   (members 2, 3, 4; array elements 5, 6)
        root 7 = a detached number 3 (the item to add / insert / use as replacement)
    key blocks 101 "a", 102 "A", 103 "b"; caller's name blocks 110 "a", 111 "A", 112 "zz";
    block 120 = the owned fresh copy of the name "A" that add/replace give to the item *)
Definition ex_num (i : positive) (v : Z) (key : ptr) : tree :=
  T i (mkRD c_cJSON_Number None v (dbl_of_int v) key None) [].
Definition ex_arr : tree := T 4 (mkRD c_cJSON_Array None 0 dzero (Some 103%positive) None) [ex_num 5 10 None; ex_num 6 20 None].
Definition ex_members : list tree := [ex_num 2 1 (Some 101%positive); ex_num 3 2 (Some 102%positive); ex_arr].
Definition ex_objd : rdata := mkRD c_cJSON_Object None 0 dzero None None.
Definition ex_obj : tree := T 1 ex_objd ex_members.
Definition ex_item : tree := ex_num 7 3 None.
Definition ex_F : forest := [ex_obj; ex_item].
Definition ex_St : gmap positive bytes :=
  list_to_map [(101%positive, [97; 0]); (102%positive, [65; 0]); (103%positive, [98; 0]); (110%positive, [97; 0]);
               (111%positive, [65; 0]); (112%positive, [122; 122; 0]); (120%positive, [65; 0])].
