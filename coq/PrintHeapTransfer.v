(** PrintHeapTransfer.v — TRANSFER: the main theorems of C09, C05 and C04, which are proved about PrintDefs'
    printer on a VALUE, restated for the heap-level entry points of PrintHeapDefs.v on a POINTER.

    [heap_value h p n]: the heap [h] reads as the value [n] from the node [p], within the fuel the public
    entry points take from the heap: there is a tree [u] with [src_t h lf k u] ([CoreRefineDupTree]: the
    fields, child pointers, next links and valuestrings of the heap are those of [u]), nothing cut off
    ([complete u]), readable member names, [tid u = p], [reify (h_str h) u = n], [k < h_next h],
    [lf <= h_next h].  Two ways to get it:
    * [heap_value_plain]: [WF h F], [find_tree p F = Some t], no borrowed child pointer in [t], the strings
      of [t] readable: [heap_value h p (reify (h_str h) t)];
    * [heap_value_forest]: [WF h F], reference targets inside [F], strings of [F] readable, the unrolling of
      [t] to [k < h_next h] levels complete: [heap_value h p (reify (h_str h) (unroll F k t))].

    Under [heap_value h p n] each public heap-level function EQUALS the lifted PrintDefs function on [n] with
    [have_realloc := hr_of h] ([heap_Print] … [heap_Preallocated]); the theorems follow by rewriting, each
    one also saying that the heap is returned unchanged.  [cJSON_Print_fmt_h fmt] is cJSON_Print_h for
    [fmt = true] and cJSON_PrintUnformatted_h for [fmt = false]. *)
From CJ Require Import Base Dbl Tree LibcNum LibcPrint Grammar ParseDefs ParseSpec ParseComplete ParseListStrtod
  PrintDefs PrintLemmas PrintProofs PrintStrict PrintStrictWs PrintStrictVariants RoundTripNum RoundTripInt RoundTrip RoundTripPrint.
From CJ Require Import Heap Forest ForestLemmas CoreDefs CoreRefineDupTree CoreRefineDupLoop CoreRefineDupValue
  CoreRefineDupForest CoreRefineDupUnroll PrintHeapDefs PrintHeapRefine PrintHeapForest.
From CJ.gen Require Import Constants.
From stdpp Require Import gmap.
From Coq Require Import Lia.
Local Open Scope Z_scope.

Definition heap_value (h : heap) (p : positive) (n : node) : Prop :=
  exists (lf k : nat) (u : tree),
    src_t h lf k u /\ complete u /\ keys_readable h u /\ tid u = p /\ reify (h_str h) u = n /\
    (k < Pos.to_nat (h_next h))%nat /\ (lf <= Pos.to_nat (h_next h))%nat.

Lemma heap_value_plain h F p t :
  WF h F -> find_tree p F = Some t -> no_borrowed t -> tree_readable h t -> heap_value h p (reify (h_str h) t).
Proof.
  intros W Hp NB TR. destruct (plain_src h F W p t Hp NB TR (height t) ltac:(lia)) as (Hs & Hc & Hk & Hid).
  exists (Pos.to_nat (h_next h)), (height t), t. split_and!; try done.
  apply find_tree_Some in Hp as [Hn _]. by apply (height_lt_fuel h F).
Qed.

Lemma heap_value_forest h F p t k :
  WF h F -> refs_in F -> forest_readable h F -> find_tree p F = Some t -> complete (unroll F k t) ->
  (k < Pos.to_nat (h_next h))%nat -> heap_value h p (reify (h_str h) (unroll F k t)).
Proof.
  intros W RI FR Hp Hc Hk. destruct (forest_src h F W RI FR p t k Hp) as (Hs & Hkeys & Hid).
  exists (Pos.to_nat (h_next h)), k, (unroll F k t). by split_and!.
Qed.

Lemma lift_inv {A} (r : res A) h a h' : lift r h = Ret (a, h') -> r = Ok a /\ h' = h.
Proof. unfold lift. destruct r; intros H; [by injection H as -> ->|done|done]. Qed.
Lemma lift_Ok {A} (r : res A) h a : r = Ok a -> lift r h = Ret (a, h).
Proof. by intros ->. Qed.

Section Transfer.
  Variable fmt_d : Z -> bytes.
  Variable fmt_g15 : dbl -> bytes.
  Variable fmt_g17 : dbl -> bytes.
  Variable sscanf_lg : bytes -> option dbl.

  Notation render := (PrintDefs.render fmt_d fmt_g15 fmt_g17 sscanf_lg).
  Notation print := (PrintDefs.print fmt_d fmt_g15 fmt_g17 sscanf_lg).
  Notation cJSON_PrintBuffered := (PrintDefs.cJSON_PrintBuffered fmt_d fmt_g15 fmt_g17 sscanf_lg).
  Notation cJSON_PrintPreallocated := (PrintDefs.cJSON_PrintPreallocated fmt_d fmt_g15 fmt_g17 sscanf_lg).
  Notation cJSON_Print_h := (PrintHeapDefs.cJSON_Print_h fmt_d fmt_g15 fmt_g17 sscanf_lg).
  Notation cJSON_PrintUnformatted_h := (PrintHeapDefs.cJSON_PrintUnformatted_h fmt_d fmt_g15 fmt_g17 sscanf_lg).
  Notation cJSON_PrintBuffered_h := (PrintHeapDefs.cJSON_PrintBuffered_h fmt_d fmt_g15 fmt_g17 sscanf_lg).
  Notation cJSON_PrintPreallocated_h := (PrintHeapDefs.cJSON_PrintPreallocated_h fmt_d fmt_g15 fmt_g17 sscanf_lg).

  (** cJSON_Print ([fmt = true]) / cJSON_PrintUnformatted ([fmt = false]) *)
  Definition cJSON_Print_fmt_h (oracle : nat -> bool) (junk : nat -> Z) (fmt : bool) (item : ptr) : M print_result :=
    if fmt then cJSON_Print_h oracle junk item else cJSON_PrintUnformatted_h oracle junk item.

  (** ** the four equalities *)
  Section Equal.
    Variable oracle : nat -> bool.
    Variable junk : nat -> Z.
    Variables (h : heap) (p : positive) (n : node).
    Hypothesis HV : heap_value h p n.

    Lemma heap_pv : forall pb,
      PrintHeapDefs.print_value_h fmt_d fmt_g15 fmt_g17 sscanf_lg oracle junk (Pos.to_nat (h_next h)) (Pos.to_nat (h_next h))
        (Some p) pb h
      = lift (PrintDefs.print_value fmt_d fmt_g15 fmt_g17 sscanf_lg oracle junk n pb) h.
    Proof.
      destruct HV as (lf & k & u & Hs & Hc & Hk & <- & <- & Hkf & Hlf). intros pb.
      exact (print_value_h_src fmt_d fmt_g15 fmt_g17 sscanf_lg oracle junk h lf k u Hs Hc Hk _ _ Hkf Hlf pb).
    Qed.

    Theorem heap_Print_fmt fmt :
      cJSON_Print_fmt_h oracle junk fmt (Some p) h = lift (print oracle junk n fmt (hr_of h)) h.
    Proof.
      unfold cJSON_Print_fmt_h, PrintHeapDefs.cJSON_Print_h, PrintHeapDefs.cJSON_PrintUnformatted_h.
      destruct fmt; change (bindM heap_fuel ?f h) with (f (Pos.to_nat (h_next h)) h); cbv beta;
        apply print_h_of_value, heap_pv.
    Qed.
    Theorem heap_Print : cJSON_Print_h oracle junk (Some p) h = lift (print oracle junk n true (hr_of h)) h.
    Proof. exact (heap_Print_fmt true). Qed.
    Theorem heap_PrintUnformatted : cJSON_PrintUnformatted_h oracle junk (Some p) h = lift (print oracle junk n false (hr_of h)) h.
    Proof. exact (heap_Print_fmt false). Qed.
    Theorem heap_Buffered prebuffer fmt :
      cJSON_PrintBuffered_h oracle junk (Some p) prebuffer fmt h
      = lift (cJSON_PrintBuffered oracle junk n prebuffer fmt (hr_of h)) h.
    Proof.
      unfold PrintHeapDefs.cJSON_PrintBuffered_h. change (bindM heap_fuel ?f h) with (f (Pos.to_nat (h_next h)) h). cbv beta.
      apply buffered_of_value, heap_pv.
    Qed.
    Theorem heap_Preallocated buffer length format :
      cJSON_PrintPreallocated_h oracle junk (Some p) buffer length format h
      = lift (cJSON_PrintPreallocated oracle junk n buffer length format (hr_of h)) h.
    Proof.
      unfold PrintHeapDefs.cJSON_PrintPreallocated_h. change (bindM heap_fuel ?f h) with (f (Pos.to_nat (h_next h)) h). cbv beta.
      apply prealloc_of_value, heap_pv.
    Qed.
  End Equal.

  (** ** C09: printing into a caller buffer *)
  Section C09.
    Hypothesis libc : LibcPrintSpec fmt_d fmt_g15 fmt_g17.
    Variable oracle : nat -> bool.
    Variable junk : nat -> Z.
    Variables (h : heap) (p : positive) (n : node).
    Hypothesis HV : heap_value h p n.
    Hypothesis Hf : fields_ok n = true.

    (* no write outside the caller's buffer (no [Err OutOfBounds]), no memory error on the tree, no fuel
       shortage: the call returns, and returns the heap it was given *)
    Theorem C09_no_overflow_heap_proof (buf : bytes) (fmt : bool) :
      exists r, cJSON_PrintPreallocated_h oracle junk (Some p) (Some buf) (zlen buf) fmt h = Ret (r, h).
    Proof.
      destruct (C09_no_overflow_proof fmt_d fmt_g15 fmt_g17 sscanf_lg libc oracle junk n buf fmt (hr_of h) Hf) as [r E].
      exists r. rewrite (heap_Preallocated oracle junk h p n HV). by apply lift_Ok.
    Qed.

    Theorem C09_caller_block_heap_proof (buf : bytes) (fmt : bool) r h' :
      cJSON_PrintPreallocated_h oracle junk (Some p) (Some buf) (zlen buf) fmt h = Ret (r, h') ->
      h' = h /\ par_live r = 0 /\ par_requests r = 0%nat /\ exists b', par_buffer r = Some b' /\ zlen b' = zlen buf.
    Proof.
      rewrite (heap_Preallocated oracle junk h p n HV). intros E. apply lift_inv in E as [E ->]. split; [done|].
      exact (C09_caller_block_proof fmt_d fmt_g15 fmt_g17 sscanf_lg libc oracle junk n buf fmt (hr_of h) r Hf E).
    Qed.

    Theorem C09_content_heap_proof (buf : bytes) (fmt : bool) r h' :
      cJSON_PrintPreallocated_h oracle junk (Some p) (Some buf) (zlen buf) fmt h = Ret (r, h') ->
      par_flag r = true ->
      exists txt rest, render fmt 0 n = Some txt /\ par_buffer r = Some (txt ++ 0 :: rest) /\
                       zlen (txt ++ 0 :: rest) = zlen buf.
    Proof.
      rewrite (heap_Preallocated oracle junk h p n HV). intros E. apply lift_inv in E as [E ->].
      exact (C09_content_proof fmt_d fmt_g15 fmt_g17 sscanf_lg libc oracle junk n buf fmt (hr_of h) r Hf E).
    Qed.

    Theorem C09_threshold_heap_proof (buf : bytes) (fmt : bool) r h' :
      zlen buf <= c_INT_MAX ->
      cJSON_PrintPreallocated_h oracle junk (Some p) (Some buf) (zlen buf) fmt h = Ret (r, h') ->
      (par_flag r = true <-> exists txt, render fmt 0 n = Some txt /\ zlen txt + 2 <= zlen buf).
    Proof.
      intros Hm. rewrite (heap_Preallocated oracle junk h p n HV). intros E. apply lift_inv in E as [E ->].
      exact (C09_threshold_proof fmt_d fmt_g15 fmt_g17 sscanf_lg libc oracle junk n buf fmt (hr_of h) r Hf Hm E).
    Qed.

    (* the allocating entry points: they return, the heap unchanged; a returned block is the rendered
       text (with its terminator; cJSON_PrintBuffered: followed by the rest of its buffer) *)
    Theorem C09_print_refines_render_heap_proof (fmt : bool) :
      exists r, cJSON_Print_fmt_h oracle junk fmt (Some p) h = Ret (r, h) /\
        (forall block, prr_block r = Some block -> exists txt, render fmt 0 n = Some txt /\ block = txt ++ [0]) /\
        ((forall i, oracle i = false) -> forall txt, render fmt 0 n = Some txt -> zlen txt + 2 <= c_INT_MAX ->
           prr_block r = Some (txt ++ [0])).
    Proof.
      destruct (print_spec fmt_d fmt_g15 fmt_g17 sscanf_lg libc oracle junk n fmt (hr_of h) Hf) as (r & E & H1 & H2).
      exists r. split; [|by split]. rewrite (heap_Print_fmt oracle junk h p n HV). by apply lift_Ok.
    Qed.

    Theorem C09_buffered_refines_render_heap_proof (prebuffer : Z) (fmt : bool) :
      0 <= prebuffer ->
      exists r, cJSON_PrintBuffered_h oracle junk (Some p) prebuffer fmt h = Ret (r, h) /\
        (forall block, prr_block r = Some block -> exists txt rest, render fmt 0 n = Some txt /\ block = txt ++ 0 :: rest) /\
        ((forall i, oracle i = false) -> forall txt, render fmt 0 n = Some txt -> zlen txt + 2 <= c_INT_MAX ->
           exists rest, prr_block r = Some (txt ++ 0 :: rest)).
    Proof.
      intros Hpre.
      destruct (print_buffered_spec fmt_d fmt_g15 fmt_g17 sscanf_lg libc oracle junk n prebuffer fmt (hr_of h) Hf Hpre)
        as (r & E & H1 & H2).
      exists r. split; [|by split]. rewrite (heap_Buffered oracle junk h p n HV). by apply lift_Ok.
    Qed.
  End C09.

  (** ** C05: strict RFC 8259 text, the variants agree *)
  Section C05.
    Hypothesis L : LibcStrictSpec fmt_d fmt_g15 fmt_g17.
    Variables (h : heap) (p : positive) (n : node).
    Hypothesis HV : heap_value h p n.
    Hypothesis Hp : printable n = true.
    Hypothesis Hf : fields_ok n = true.

    (* what the heap-level cJSON_Print / cJSON_PrintUnformatted return — under EVERY allocation schedule — is
       nothing but one RFC 8259 JSON text denoting the value of the tree, and it is returned when no
       allocation fails *)
    Theorem C05_strict_heap_proof (fmt : bool) :
      (cdepth n <= nesting_limit)%nat ->
      exists txt, render fmt 0 n = Some txt /\ RFC_text txt (val_of fmt_d fmt_g15 fmt_g17 sscanf_lg n) /\
        forall oracle junk, exists r,
          cJSON_Print_fmt_h oracle junk fmt (Some p) h = Ret (r, h) /\
          (forall block, prr_block r = Some block -> block = txt ++ [0]) /\
          ((forall i, oracle i = false) -> zlen txt + 2 <= c_INT_MAX -> prr_block r = Some (txt ++ [0])).
    Proof.
      intros Hd. destruct (render_rfc_text fmt_d fmt_g15 fmt_g17 sscanf_lg L n fmt Hp Hd) as (txt & Hr & Hrfc).
      exists txt. split; [done|]. split; [done|]. intros oracle junk.
      pose proof (strict_spec_print_spec _ _ _ L) as LP.
      destruct (C09_print_refines_render_heap_proof LP oracle junk h p n HV Hf fmt) as (r & E & H1 & H2).
      exists r. split; [done|]. split.
      - intros block Hb. destruct (H1 block Hb) as (txt' & Hr' & ->). rewrite Hr in Hr'. by injection Hr' as <-.
      - intros Hno Hsz. by apply H2.
    Qed.

    (* all heap-level variants return a block that starts with one and the same zero-free text and its terminator *)
    Theorem C05_variants_heap_proof oracle junk (fmt : bool) :
      (forall i, oracle i = false) ->
      exists txt,
        render fmt 0 n = Some txt /\ nz txt /\
        (zlen txt + 2 <= c_INT_MAX ->
           (exists r, cJSON_Print_fmt_h oracle junk fmt (Some p) h = Ret (r, h) /\ prr_block r = Some (txt ++ [0])) /\
           (forall prebuffer, 0 <= prebuffer ->
              exists r rest, cJSON_PrintBuffered_h oracle junk (Some p) prebuffer fmt h = Ret (r, h) /\
                             prr_block r = Some (txt ++ 0 :: rest))) /\
        (forall buf, zlen txt + 2 <= zlen buf -> zlen buf <= c_INT_MAX ->
           exists r rest, cJSON_PrintPreallocated_h oracle junk (Some p) (Some buf) (zlen buf) fmt h = Ret (r, h) /\
                          par_flag r = true /\ par_buffer r = Some (txt ++ 0 :: rest)).
    Proof.
      intros Hno.
      destruct (variants_agree fmt_d fmt_g15 fmt_g17 sscanf_lg L oracle junk n fmt Hp Hf Hno) as (txt & Hr & Hnz & H1 & H2).
      exists txt. split; [done|]. split; [done|]. split.
      - intros Hsz. destruct (H1 Hsz) as [Ha Hb]. split.
        + destruct (Ha (hr_of h)) as (r & E & B). exists r. split; [|done].
          rewrite (heap_Print_fmt oracle junk h p n HV). by apply lift_Ok.
        + intros pre Hpre. destruct (Hb (hr_of h) pre Hpre) as (r & rest & E & B). exists r, rest. split; [|done].
          rewrite (heap_Buffered oracle junk h p n HV). by apply lift_Ok.
      - intros buf Hfit Hmax. destruct (H2 (hr_of h) buf Hfit Hmax) as (r & rest & E & Fl & B).
        exists r, rest. split; [|done]. rewrite (heap_Preallocated oracle junk h p n HV). by apply lift_Ok.
    Qed.
  End C05.

  (** ** C04: print on the heap, then parse *)
  Section C04.
    Variable strtod : bytes -> option (dbl * nat).
    Hypothesis Hsok : strtod_ok strtod.
    Hypothesis Hrfc : strtod_rfc strtod.
    Hypothesis L : LibcStrictSpec fmt_d fmt_g15 fmt_g17.
    Hypothesis R : LibcRoundTripSpec strtod fmt_d fmt_g15 fmt_g17 sscanf_lg.
    Variables (h : heap) (p : positive) (n : node).
    Hypothesis HV : heap_value h p n.

    (* the block the heap-level cJSON_Print / cJSON_PrintUnformatted returns is accepted by cJSON_Parse, and the
       tree that comes back has the shape of the printed one ([reparsed n]); printing THAT value again gives the
       same bytes (PrintHeapParse.v puts it back on a heap) *)
    Theorem C04_print_parse_heap_proof (fmt : bool) :
      printable n = true -> rt_ok n = true -> (cdepth n <= nesting_limit)%nat -> fields_ok n = true ->
      (forall txt, render fmt 0 n = Some txt -> zlen txt + 2 <= c_INT_MAX) ->
      exists txt, render fmt 0 n = Some txt /\
      forall junk, exists r pr,
        cJSON_Print_fmt_h no_failure junk fmt (Some p) h = Ret (r, h) /\ prr_block r = Some (txt ++ [0]) /\
        cJSON_Parse strtod never_fails (txt ++ [0]) = Ok pr /\
        pr_tree pr = Some (reparsed strtod fmt_d fmt_g15 fmt_g17 sscanf_lg n) /\
        same_shape n (reparsed strtod fmt_d fmt_g15 fmt_g17 sscanf_lg n) /\
        forall hr2 junk2, exists r2,
          print no_failure junk2 (reparsed strtod fmt_d fmt_g15 fmt_g17 sscanf_lg n) fmt hr2 = Ok r2 /\
          prr_block r2 = Some (txt ++ [0]).
    Proof.
      intros Hp Ho Hd Hf Hsz.
      destruct (print_parse_print strtod fmt_d fmt_g15 fmt_g17 sscanf_lg Hsok Hrfc L R n fmt Hp Ho Hd Hf Hsz) as (txt & Hr & H).
      exists txt. split; [done|]. intros junk. destruct (H (hr_of h) junk) as (r & pr & E & B & Ep & Tp & Sh & Again).
      exists r, pr. split; [|done]. rewrite (heap_Print_fmt no_failure junk h p n HV). by apply lift_Ok.
    Qed.
  End C04.
End Transfer.
