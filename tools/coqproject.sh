#!/bin/sh
# regenerates coq/_CoqProject (every .v file of coq/ and coq/gen/) and coq/Makefile when the file set changed
cd "${1:-$(dirname "$0")/../coq}"
{ echo "-Q . CJ"; ls gen/*.v *.v | LC_ALL=C sort; } > _CoqProject.new
if ! cmp -s _CoqProject.new _CoqProject || [ ! -f Makefile ]; then mv _CoqProject.new _CoqProject; coq_makefile -f _CoqProject -o Makefile >/dev/null; else rm -f _CoqProject.new; fi
