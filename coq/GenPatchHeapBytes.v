(** GenPatchHeapBytes.v — stage 1 of "JSON Patch generation at heap level": the byte loops of GenPatchHeapDefs.v.

    [pointer_encoded_length_refines]   for a readable string argument the loop returns, without touching the heap,
                                       [PointerDefs.pointer_encoded_length] of the C string;
    [encode_string_as_pointer_refines] writing into a live library block [B] at offset [off], from a readable source
                                       outside [B]: when [off + |encoding| + 1 <= |block|] the run returns and the
                                       block holds the bytes before [off], the value-level encoding, the terminator,
                                       and the old bytes behind it — nothing else in the heap changes;
    [encode_string_as_pointer_overflow] one byte less and the run is [OutOfBounds]: the bound is exact;
    [st_bytes_run] / the three [sprintf] forms: the libc store;
    [print_lu_length]                  "%lu" of a [size_t] has at most 20 digits (the "+ 20" of create_patches). *)
From CJ Require Import Base Dbl Heap Forest CoreDefs CoreRefineBase CoreRefineAddObject CoreLedgerGen.
From CJ Require Import MergeHeapDefs PatchHeapDefs PatchHeapPointer GenPatchHeapDefs.
From CJ Require Tree PointerDefs PatchDefs SortSpec.
From CJ.gen Require Import Constants.
From stdpp Require Import gmap.
From Coq Require Import Lia.
Local Open Scope Z_scope.

(** the heap with the contents of block [B] replaced *)
Definition wrB (h : heap) (B : positive) (buf : bytes) : heap := set_str h (<[B := buf]> (h_str h)).

Lemma wrB_wrB h B b1 b2 : wrB (wrB h B b1) B b2 = wrB h B b2.
Proof. unfold wrB, set_str. cbn. f_equal. apply insert_insert. Qed.
Lemma wrB_str h B buf : h_str (wrB h B buf) = <[B := buf]> (h_str h).
Proof. reflexivity. Qed.
Lemma wrB_id h B (buf : bytes) : h_str h !! B = Some buf -> wrB h B buf = h.
Proof. intros H. unfold wrB, set_str. destruct h. cbn in *. f_equal. by apply insert_id. Qed.

(** * pointer_encoded_length *)
Lemma pel_loop_sim h : forall fuel c nm acc, CsReads h c nm -> (length nm < fuel)%nat ->
  pel_loop fuel c acc h = Ret ((acc + PointerDefs.pointer_encoded_length nm)%nat, h).
Proof.
  induction fuel as [|fuel IH]; intros c nm acc Hc Hf; [lia|]. cbn [pel_loop].
  stp (run_ld_byte0 h c nm Hc). destruct nm as [|x r]; cbn [hd].
  - cbn. unfold ret. do 2 f_equal. unfold PointerDefs.pointer_encoded_length. cbn. lia.
  - pose proof (CsReads_zfree _ _ _ Hc) as Hz. apply Forall_inv in Hz.
    destruct (Z.eqb_spec x 0) as [|_]; [done|]. cbn [negb].
    stp (run_ld_byte0 h c _ Hc). cbn [hd].
    pose proof (CsReads_tail _ _ _ _ Hc) as Hc1. cbn [length] in Hf.
    unfold PointerDefs.pointer_encoded_length. cbn [PointerDefs.encode_string_as_pointer].
    destruct (Z.eqb_spec x 126) as [->|Hne].
    + rewrite bindM_ret. rewrite (IH _ r _ Hc1) by lia. cbn. unfold PointerDefs.pointer_encoded_length. do 2 f_equal. lia.
    + stp (run_ld_byte0 h c _ Hc). cbn [hd]. rewrite bindM_ret.
      destruct (Z.eqb_spec x 47) as [->|Hne2].
      * rewrite (IH _ r _ Hc1) by lia. cbn. unfold PointerDefs.pointer_encoded_length. do 2 f_equal. lia.
      * rewrite (IH _ r _ Hc1) by lia. cbn. unfold PointerDefs.pointer_encoded_length. do 2 f_equal. lia.
Qed.

Theorem pointer_encoded_length_refines h c nm : CsReads h c nm ->
  pointer_encoded_length c h = Ret (PointerDefs.pointer_encoded_length nm, h).
Proof.
  intros Hc. destruct (run_cs_fuel h c nm Hc) as (n & Hn & Hlt). unfold pointer_encoded_length.
  stp Hn. by rewrite (pel_loop_sim h n c nm 0%nat Hc Hlt).
Qed.

Lemma run_c_strlen h c nm : CsReads h c nm -> c_strlen c h = Ret (length nm, h).
Proof. intros Hc. unfold c_strlen. by stp (run_ld_cs h c nm Hc). Qed.

(** * stores into the block [B] *)
Section Block.
  Context (h : heap) (B : positive) (buf0 : bytes).
  Hypothesis HBl : B ∈ h_live h.
  Hypothesis HBo : h_own h !! B = Some Lib.

  Lemma wrB_live buf : B ∈ h_live (wrB h B buf).
  Proof. exact HBl. Qed.

  Lemma st_byte_run (buf : bytes) (off i : nat) v :
    length buf = length buf0 -> (off + i < length buf)%nat ->
    st_byte (CAt B off) i v (wrB h B buf) = Ret (tt, wrB h B (upd buf (off + i) v)).
  Proof.
    intros Hlen Hi. unfold st_byte.
    stp (run_ld_str (wrB h B buf) B buf HBl ltac:(by rewrite wrB_str, lookup_insert)).
    destruct (Nat.ltb_spec (off + i) (length buf)) as [_|]; [|lia].
    rewrite (run_st_str (wrB h B buf) B buf (upd buf (off + i) v)); [do 2 f_equal; exact (wrB_wrB h B buf _)|exact HBl|by rewrite wrB_str, lookup_insert|exact HBo|].
    unfold upd. rewrite app_length. cbn [length]. rewrite firstn_length, skipn_length. lia.
  Qed.

  Lemma st_byte_oob (buf : bytes) (off i : nat) v :
    (length buf <= off + i)%nat -> st_byte (CAt B off) i v (wrB h B buf) = Err OutOfBounds.
  Proof.
    intros Hi. unfold st_byte.
    stp (run_ld_str (wrB h B buf) B buf HBl ltac:(by rewrite wrB_str, lookup_insert)).
    destruct (Nat.ltb_spec (off + i) (length buf)) as [|_]; [lia|done].
  Qed.

  Lemma st_bytes_run (buf : bytes) (off i : nat) (v : bytes) :
    length buf = length buf0 -> (off + i + length v <= length buf)%nat ->
    st_bytes (CAt B off) i v (wrB h B buf) = Ret (tt, wrB h B (take (off + i) buf ++ v ++ drop (off + i + length v) buf)).
  Proof.
    intros Hlen Hi. unfold st_bytes.
    stp (run_ld_str (wrB h B buf) B buf HBl ltac:(by rewrite wrB_str, lookup_insert)).
    destruct (Nat.leb_spec (off + i + length v) (length buf)) as [_|]; [|lia].
    rewrite (run_st_str (wrB h B buf) B buf); [do 2 f_equal; exact (wrB_wrB h B buf _)|exact HBl|by rewrite wrB_str, lookup_insert|exact HBo|].
    rewrite !app_length, take_length, drop_length. lia.
  Qed.

  Lemma st_bytes_oob (buf : bytes) (off i : nat) (v : bytes) :
    (length buf < off + i + length v)%nat -> st_bytes (CAt B off) i v (wrB h B buf) = Err OutOfBounds.
  Proof.
    intros Hi. unfold st_bytes.
    stp (run_ld_str (wrB h B buf) B buf HBl ltac:(by rewrite wrB_str, lookup_insert)).
    destruct (Nat.leb_spec (off + i + length v) (length buf)) as [|_]; [lia|done].
  Qed.

  (** a string argument outside [B] reads the same whatever [B] holds *)
  Lemma CsReads_wrB c nm buf : CsReads h c nm -> (forall off, c <> CAt B off) -> CsReads (wrB h B buf) c nm.
  Proof.
    destruct c as [|b off|l]; cbn [CsReads]; [done| |done].
    intros (Hl & s & Hs & Hz & E) Hne. split; [done|]. exists s. split; [|done].
    rewrite wrB_str, lookup_insert_ne; [done|]. intros <-. by apply (Hne off).
  Qed.

  (** * encode_string_as_pointer: [d] bytes of the block are final, [nm] is what is left of the source *)
  Lemma upd_at_end (pre : bytes) (v x : Z) (rest : bytes) : upd (pre ++ x :: rest) (length pre) v = pre ++ v :: rest.
  Proof.
    unfold upd. rewrite take_app.
    replace (S (length pre)) with (length pre + 1)%nat by lia. rewrite (drop_add_app pre (x :: rest) (length pre) 1 eq_refl). done.
  Qed.

  Lemma esp_loop_sim : forall fuel src nm (pre rest : bytes),
    CsReads h src nm -> (forall off, src <> CAt B off) -> (length nm < fuel)%nat ->
    length (pre ++ rest) = length buf0 ->
    (length (PointerDefs.encode_string_as_pointer nm) < length rest)%nat ->
    esp_loop fuel (CAt B (length pre)) src (wrB h B (pre ++ rest)) =
    Ret (tt, wrB h B (pre ++ PointerDefs.encode_string_as_pointer nm ++ 0 ::
                       drop (S (length (PointerDefs.encode_string_as_pointer nm))) rest)).
  Proof.
    induction fuel as [|fuel IH]; intros src nm pre rest Hc Hne Hf Hlen Hfit; [lia|]. cbn [esp_loop].
    pose proof (CsReads_wrB src nm (pre ++ rest) Hc Hne) as Hc'.
    stp (run_ld_byte0 _ src nm Hc'). destruct nm as [|x r]; cbn [hd].
    - cbn [Z.eqb negb PointerDefs.encode_string_as_pointer app length] in *.
      destruct rest as [|y rest']; [cbn in Hfit; lia|].
      rewrite (st_byte_run (pre ++ y :: rest') (length pre) 0 0 Hlen) by (rewrite app_length; cbn; lia).
      rewrite Nat.add_0_r, upd_at_end. done.
    - pose proof (CsReads_zfree _ _ _ Hc) as Hz. apply Forall_inv in Hz.
      destruct (Z.eqb_spec x 0) as [|_]; [done|]. cbn [negb].
      stp (run_ld_byte0 _ src _ Hc'). cbn [hd].
      pose proof (CsReads_tail _ _ _ _ Hc) as Hc1. cbn [length] in Hf.
      assert (Hne1 : forall off, cs_plus src 1 <> CAt B off).
      { intros off. destruct src as [|b o|l]; cbn [cs_plus]; try done. intros [= -> _]. by apply (Hne o). }
      cbn [PointerDefs.encode_string_as_pointer] in Hfit |- *.
      (* two bytes written: the escape sequences *)
      assert (Htwo : forall e2 : Z,
                (length (126%Z :: e2 :: PointerDefs.encode_string_as_pointer r) < length rest)%nat ->
                (st_byte (CAt B (length pre)) 0 126 ;;; st_byte (CAt B (length pre)) 1 e2 ;;; ret (cs_plus (CAt B (length pre)) 1)) (wrB h B (pre ++ rest)) =
                Ret (CAt B (length (pre ++ [126])), wrB h B ((pre ++ [126]) ++ e2 :: drop 2 rest)) /\
                length ((pre ++ [126; e2]) ++ drop 2 rest) = length buf0 /\
                (length (PointerDefs.encode_string_as_pointer r) < length (drop 2 rest))%nat).
      { intros e2 Hfit2. destruct rest as [|y1 [|y2 rest']]; [cbn in Hfit2; lia|cbn in Hfit2; lia|].
          rewrite (bindM_Ret _ _ _ _ _ (st_byte_run (pre ++ y1 :: y2 :: rest') (length pre) 0 126 Hlen ltac:(rewrite app_length; cbn; lia))).
        rewrite Nat.add_0_r, upd_at_end.
        assert (Hlen2 : length (pre ++ 126 :: y2 :: rest') = length buf0) by (rewrite <- Hlen, !app_length; done).
        rewrite (bindM_Ret _ _ _ _ _ (st_byte_run (pre ++ 126 :: y2 :: rest') (length pre) 1 e2 Hlen2 ltac:(rewrite app_length; cbn; lia))).
        replace (pre ++ 126 :: y2 :: rest') with ((pre ++ [126]) ++ y2 :: rest') by (by rewrite <- app_assoc).
        replace (length pre + 1)%nat with (length (pre ++ [126])) by (rewrite app_length; cbn; lia).
        rewrite upd_at_end. cbn [drop]. split; [|split].
        - unfold ret. cbn [cs_plus]. do 3 f_equal. rewrite app_length. cbn. lia.
        - rewrite <- Hlen, !app_length. cbn. rewrite ?drop_0. lia.
        - cbn in Hfit2 |- *. rewrite ?drop_0. lia. }
      destruct (Z.eqb_spec x 47) as [->|Hne47].
      + destruct (Htwo 49 Hfit) as (Hrun & Hlen' & Hfit'). cbv iota. rewrite (bindM_Ret _ _ _ _ _ Hrun). cbn [cs_plus].
        replace (length (pre ++ [126%Z]) + 1)%nat with (length (pre ++ [126; 49])) by (rewrite !app_length; cbn; lia).
        replace ((pre ++ [126]) ++ 49 :: drop 2 rest) with ((pre ++ [126; 49]) ++ drop 2 rest) by (by rewrite <- !app_assoc).
        rewrite (IH _ r _ _ Hc1 Hne1 ltac:(lia) Hlen' Hfit'). do 3 f_equal. rewrite <- !app_assoc. cbn [app]. do 4 f_equal.
        rewrite drop_drop. f_equal.
      + stp (run_ld_byte0 _ src _ Hc'). cbn [hd].
        destruct (Z.eqb_spec x 126) as [->|Hne126].
        * destruct (Htwo 48 Hfit) as (Hrun & Hlen' & Hfit'). cbv iota. rewrite (bindM_Ret _ _ _ _ _ Hrun). cbn [cs_plus].
          replace (length (pre ++ [126%Z]) + 1)%nat with (length (pre ++ [126; 48])) by (rewrite !app_length; cbn; lia).
          replace ((pre ++ [126]) ++ 48 :: drop 2 rest) with ((pre ++ [126; 48]) ++ drop 2 rest) by (by rewrite <- !app_assoc).
          rewrite (IH _ r _ _ Hc1 Hne1 ltac:(lia) Hlen' Hfit'). do 3 f_equal. rewrite <- !app_assoc. cbn [app]. do 4 f_equal.
          rewrite drop_drop. f_equal.
        * stp (run_ld_byte0 _ src _ Hc'). cbn [hd].
          destruct rest as [|y1 rest']; [cbn in Hfit; lia|].
              stp (st_byte_run (pre ++ y1 :: rest') (length pre) 0 x Hlen ltac:(rewrite app_length; cbn; lia)).
          rewrite Nat.add_0_r, upd_at_end. rewrite bindM_ret. cbn [cs_plus].
          replace (length pre + 1)%nat with (length (pre ++ [x])) by (rewrite app_length; cbn; lia).
          replace (pre ++ x :: rest') with ((pre ++ [x]) ++ rest') by (by rewrite <- app_assoc).
          rewrite (IH _ r _ _ Hc1 Hne1 ltac:(lia)).
          -- do 3 f_equal. rewrite <- !app_assoc. done.
          -- rewrite <- Hlen, !app_length. cbn. lia.
          -- cbn in Hfit. lia.
  Qed.

  (** one byte too few: the terminator (or an earlier byte) falls outside the block *)
  Lemma esp_loop_overflow : forall fuel src nm (pre rest : bytes),
    CsReads h src nm -> (forall off, src <> CAt B off) -> (length nm < fuel)%nat ->
    length (pre ++ rest) = length buf0 ->
    (length rest <= length (PointerDefs.encode_string_as_pointer nm))%nat ->
    exists e, esp_loop fuel (CAt B (length pre)) src (wrB h B (pre ++ rest)) = Err e /\ e = OutOfBounds.
  Proof.
    induction fuel as [|fuel IH]; intros src nm pre rest Hc Hne Hf Hlen Hfit; [lia|]. cbn [esp_loop].
    pose proof (CsReads_wrB src nm (pre ++ rest) Hc Hne) as Hc'.
    stp (run_ld_byte0 _ src nm Hc'). destruct nm as [|x r]; cbn [hd].
    - cbn [Z.eqb negb PointerDefs.encode_string_as_pointer length] in *.
      destruct rest as [|? ?]; [|cbn in Hfit; lia]. exists OutOfBounds. split; [|done].
      apply st_byte_oob. rewrite app_length. cbn. lia.
    - pose proof (CsReads_zfree _ _ _ Hc) as Hz. apply Forall_inv in Hz.
      destruct (Z.eqb_spec x 0) as [|_]; [done|]. cbn [negb].
      stp (run_ld_byte0 _ src _ Hc'). cbn [hd].
      pose proof (CsReads_tail _ _ _ _ Hc) as Hc1. cbn [length] in Hf.
      assert (Hne1 : forall off, cs_plus src 1 <> CAt B off).
      { intros off. destruct src as [|b o|l]; cbn [cs_plus]; try done. intros [= -> _]. by apply (Hne o). }
      cbn [PointerDefs.encode_string_as_pointer] in Hfit.
      assert (Htwo : forall e2 : Z,
                (length rest <= length (126%Z :: e2 :: PointerDefs.encode_string_as_pointer r))%nat ->
                exists e, (d' <~ (st_byte (CAt B (length pre)) 0 126 ;;; st_byte (CAt B (length pre)) 1 e2 ;;; ret (cs_plus (CAt B (length pre)) 1)) ;;
                           esp_loop fuel (cs_plus d' 1) (cs_plus src 1)) (wrB h B (pre ++ rest)) = Err e /\ e = OutOfBounds).
      { intros e2 Hfit2. destruct rest as [|y1 rest1].
        { exists OutOfBounds. split; [|done]. rewrite !bindM_assoc. unfold bindM at 1.
           rewrite st_byte_oob; [done|rewrite app_length; cbn; lia]. }
        rewrite !bindM_assoc. 
        rewrite (bindM_Ret _ _ _ _ _ (st_byte_run (pre ++ y1 :: rest1) (length pre) 0 126 Hlen ltac:(rewrite app_length; cbn; lia))).
        rewrite Nat.add_0_r, upd_at_end.
        assert (Hlen2 : length (pre ++ 126 :: rest1) = length buf0) by (rewrite <- Hlen, !app_length; done).
        destruct rest1 as [|y2 rest'].
        { exists OutOfBounds. split; [|done]. rewrite !bindM_assoc. unfold bindM at 1.
          rewrite st_byte_oob; [done|rewrite app_length; cbn; lia]. }
        rewrite !bindM_assoc.
        rewrite (bindM_Ret _ _ _ _ _ (st_byte_run (pre ++ 126 :: y2 :: rest') (length pre) 1 e2 Hlen2 ltac:(rewrite app_length; cbn; lia))).
        replace (pre ++ 126 :: y2 :: rest') with ((pre ++ [126]) ++ y2 :: rest') by (by rewrite <- app_assoc).
        replace (length pre + 1)%nat with (length (pre ++ [126])) by (rewrite app_length; cbn; lia).
        rewrite upd_at_end. rewrite bindM_ret. cbn [cs_plus].
        replace (length pre + 1 + 1)%nat with (length (pre ++ [126; e2])) by (rewrite !app_length; cbn; lia).
        replace ((pre ++ [126]) ++ e2 :: rest') with ((pre ++ [126; e2]) ++ rest') by (by rewrite <- !app_assoc).
        apply (IH _ r _ _ Hc1 Hne1 ltac:(lia)).
        - rewrite <- Hlen, !app_length. cbn. lia.
        - cbn in Hfit2. lia. }
      destruct (Z.eqb_spec x 47) as [->|Hne47]; [exact (Htwo 49 Hfit)|].
      rewrite !bindM_assoc. stp (run_ld_byte0 _ src _ Hc'). cbn [hd].
      destruct (Z.eqb_spec x 126) as [->|Hne126]; [exact (Htwo 48 Hfit)|].
      rewrite !bindM_assoc. stp (run_ld_byte0 _ src _ Hc'). cbn [hd].
      destruct rest as [|y1 rest'].
      { exists OutOfBounds. split; [|done]. rewrite !bindM_assoc. unfold bindM at 1.
         rewrite st_byte_oob; [done|rewrite app_length; cbn; lia]. }
      rewrite !bindM_assoc. 
      stp (st_byte_run (pre ++ y1 :: rest') (length pre) 0 x Hlen ltac:(rewrite app_length; cbn; lia)).
      rewrite Nat.add_0_r, upd_at_end. rewrite bindM_ret. cbn [cs_plus].
      replace (length pre + 1)%nat with (length (pre ++ [x])) by (rewrite app_length; cbn; lia).
      replace (pre ++ x :: rest') with ((pre ++ [x]) ++ rest') by (by rewrite <- app_assoc).
      apply (IH _ r _ _ Hc1 Hne1 ltac:(lia)).
      + rewrite <- Hlen, !app_length. cbn. lia.
      + cbn in Hfit. lia.
  Qed.
End Block.

(** STAGE 1.  [encode_string_as_pointer(B + off, source)]: [B] a live library block holding [buf], the source a
    readable string outside [B], [off + |encoding| + 1 <= |buf|] *)
Theorem encode_string_as_pointer_refines h B (buf : bytes) (off : nat) src nm :
  B ∈ h_live h -> h_own h !! B = Some Lib -> h_str h !! B = Some buf ->
  CsReads h src nm -> (forall o, src <> CAt B o) ->
  let enc := PointerDefs.encode_string_as_pointer nm in
  (off + length enc + 1 <= length buf)%nat ->
  encode_string_as_pointer (CAt B off) src h =
  Ret (tt, wrB h B (take off buf ++ enc ++ 0 :: drop (off + length enc + 1) buf)).
Proof.
  intros Hl Ho Hs Hc Hne enc Hfit. destruct (run_cs_fuel h src nm Hc) as (n & Hn & Hlt).
  unfold encode_string_as_pointer. stp Hn.
  rewrite <- (wrB_id h B buf Hs) at 1. rewrite <- (take_drop off buf) at 1.
  assert (Eoff : off = length (take off buf)) by (rewrite take_length; lia).
  rewrite Eoff at 1.
  rewrite (esp_loop_sim h B buf Hl Ho n src nm (take off buf) (drop off buf) Hc Hne Hlt).
  - subst enc. rewrite drop_drop. replace (off + length (PointerDefs.encode_string_as_pointer nm) + 1)%nat with (off + S (length (PointerDefs.encode_string_as_pointer nm)))%nat by lia. reflexivity.
  - by rewrite take_drop.
  - subst enc. rewrite drop_length. lia.
Qed.

Theorem encode_string_as_pointer_overflow h B (buf : bytes) (off : nat) src nm :
  B ∈ h_live h -> h_own h !! B = Some Lib -> h_str h !! B = Some buf ->
  CsReads h src nm -> (forall o, src <> CAt B o) -> (off <= length buf)%nat ->
  (length buf < off + length (PointerDefs.encode_string_as_pointer nm) + 1)%nat ->
  encode_string_as_pointer (CAt B off) src h = Err OutOfBounds.
Proof.
  intros Hl Ho Hs Hc Hne Hoff Hfit. destruct (run_cs_fuel h src nm Hc) as (n & Hn & Hlt).
  unfold encode_string_as_pointer. stp Hn.
  rewrite <- (wrB_id h B buf Hs) at 1. rewrite <- (take_drop off buf) at 1.
  assert (Eoff : off = length (take off buf)) by (rewrite take_length; lia).
  rewrite Eoff at 1.
  destruct (esp_loop_overflow h B buf Hl Ho n src nm (take off buf) (drop off buf) Hc Hne Hlt) as (e & He & ->); [| |exact He].
  - by rewrite take_drop.
  - rewrite drop_length. lia.
Qed.

(** * sprintf *)
Lemma app_cons_assoc {A} (a : list A) (x : A) (b : list A) : a ++ x :: b = (a ++ [x]) ++ b.
Proof. by rewrite <- app_assoc. Qed.

Lemma run_sprintf_s_slash h B (buf : bytes) path pnm :
  B ∈ h_live h -> h_own h !! B = Some Lib -> h_str h !! B = Some buf ->
  CsReads h path pnm -> (length pnm + 2 <= length buf)%nat ->
  sprintf_s_slash (CAt B 0) path h = Ret (tt, wrB h B (pnm ++ [47; 0] ++ drop (length pnm + 2) buf)).
Proof.
  intros Hl Ho Hs Hc Hfit. unfold sprintf_s_slash. stp (run_ld_cs h path pnm Hc).
  rewrite <- (wrB_id h B buf Hs) at 1.
  rewrite (st_bytes_run h B buf Hl Ho buf 0 0 (pnm ++ [47; 0]) eq_refl).
  2:{ rewrite app_length. cbn [length]. lia. }
  cbn [Nat.add take app]. rewrite app_length. cbn [length]. by rewrite <- app_assoc.
Qed.

Lemma run_sprintf_s_slash_lu h B (buf : bytes) path pnm index :
  B ∈ h_live h -> h_own h !! B = Some Lib -> h_str h !! B = Some buf ->
  CsReads h path pnm -> (length pnm + 1 + length (PointerDefs.print_lu index) + 1 <= length buf)%nat ->
  sprintf_s_slash_lu (CAt B 0) path index h =
  Ret (tt, wrB h B ((pnm ++ [47] ++ PointerDefs.print_lu index) ++ 0 :: drop (length pnm + 1 + length (PointerDefs.print_lu index) + 1) buf)).
Proof.
  intros Hl Ho Hs Hc Hfit. unfold sprintf_s_slash_lu. stp (run_ld_cs h path pnm Hc).
  rewrite <- (wrB_id h B buf Hs) at 1.
  assert (E : pnm ++ [47] ++ PointerDefs.print_lu index ++ [0] = (pnm ++ [47] ++ PointerDefs.print_lu index) ++ [0])
    by (by rewrite <- !app_assoc).
  rewrite E.
  assert (El : length ((pnm ++ [47] ++ PointerDefs.print_lu index) ++ [0]) = (length pnm + 1 + length (PointerDefs.print_lu index) + 1)%nat).
  { rewrite !app_length. cbn [length]. lia. }
  rewrite (st_bytes_run h B buf Hl Ho buf 0 0 _ eq_refl) by (rewrite El; lia).
  rewrite El. cbn [Nat.add take app]. by rewrite <- app_assoc.
Qed.

Lemma run_sprintf_lu h B (buf : bytes) index :
  B ∈ h_live h -> h_own h !! B = Some Lib -> h_str h !! B = Some buf ->
  (length (PointerDefs.print_lu index) + 1 <= length buf)%nat ->
  sprintf_lu (CAt B 0) index h =
  Ret (tt, wrB h B (PointerDefs.print_lu index ++ 0 :: drop (length (PointerDefs.print_lu index) + 1) buf)).
Proof.
  intros Hl Ho Hs Hfit. unfold sprintf_lu.
  rewrite <- (wrB_id h B buf Hs) at 1.
  assert (El : length (PointerDefs.print_lu index ++ [0]) = (length (PointerDefs.print_lu index) + 1)%nat).
  { rewrite app_length. cbn [length]. lia. }
  rewrite (st_bytes_run h B buf Hl Ho buf 0 0 _ eq_refl) by (rewrite El; lia).
  rewrite El. cbn [Nat.add take app]. by rewrite <- app_assoc.
Qed.

(** * "%lu" of a size_t: at most 20 digits, none of them a terminator or a '/' *)
Lemma dec_digits_length : forall fuel n acc, 0 <= n < 10 ^ Z.of_nat (S fuel) ->
  (length (PointerDefs.dec_digits (S fuel) n acc) <= S fuel + length acc)%nat.
Proof.
  induction fuel as [|fuel IH]; intros n acc Hn.
  - cbn [PointerDefs.dec_digits]. change (10 ^ Z.of_nat 1) with 10 in Hn. destruct (Z.ltb_spec n 10) as [Hlt|Hge]; [cbn; lia|lia].
  - cbn [PointerDefs.dec_digits]. destruct (Z.ltb_spec n 10) as [Hlt|Hge]; [cbn [length]; lia|].
    assert (Hdiv : 0 <= n / 10 < 10 ^ Z.of_nat (S fuel)).
    { rewrite (Nat2Z.inj_succ (S fuel)), Z.pow_succ_r in Hn by lia. split; [apply Z.div_pos; lia|]. apply Z.div_lt_upper_bound; lia. }
    pose proof (IH (n / 10) ((48 + n mod 10) :: acc) Hdiv) as H. cbn [length PointerDefs.dec_digits] in H |- *. lia.
Qed.
Lemma dec_digits_mono : forall fuel n acc, 0 <= n < 10 ^ Z.of_nat (S fuel) -> forall fuel', (S fuel <= fuel')%nat ->
  PointerDefs.dec_digits fuel' n acc = PointerDefs.dec_digits (S fuel) n acc.
Proof.
  induction fuel as [|fuel IH]; intros n acc Hn fuel' Hf.
  - destruct fuel' as [|fuel']; [lia|]. cbn [PointerDefs.dec_digits]. change (10 ^ Z.of_nat 1) with 10 in Hn.
    destruct (Z.ltb_spec n 10) as [Hlt|Hge]; [done|lia].
  - destruct fuel' as [|fuel']; [lia|]. cbn [PointerDefs.dec_digits]. destruct (Z.ltb_spec n 10) as [Hlt|Hge]; [done|].
    apply (IH (n / 10)); [|lia].
    rewrite (Nat2Z.inj_succ (S fuel)), Z.pow_succ_r in Hn by lia. split; [apply Z.div_pos; lia|]. apply Z.div_lt_upper_bound; lia.
Qed.

Lemma print_lu_length n : 0 <= n <= PointerDefs.SIZE_MAX -> (length (PointerDefs.print_lu n) <= 20)%nat.
Proof.
  intros Hn. unfold PointerDefs.print_lu.
  assert (Hb : 0 <= n < 10 ^ Z.of_nat 20).
  { unfold PointerDefs.SIZE_MAX in Hn. change (8 * c_SIZEOF_SIZE_T) with 64 in Hn.
    change (10 ^ Z.of_nat 20) with 100000000000000000000. change (2 ^ 64 - 1) with 18446744073709551615 in Hn. lia. }
  rewrite (dec_digits_mono 19 n [] Hb 25) by lia.
  pose proof (dec_digits_length 19 n [] Hb) as H. cbn [length] in H. lia.
Qed.

Lemma dec_digits_digit : forall fuel n acc, 0 <= n -> Forall (fun c => 48 <= c <= 57) acc ->
  n < 10 ^ Z.of_nat fuel -> Forall (fun c => 48 <= c <= 57) (PointerDefs.dec_digits fuel n acc).
Proof.
  induction fuel as [|fuel IH]; intros n acc Hn Hacc Hlt; [done|].
  cbn [PointerDefs.dec_digits]. destruct (Z.ltb_spec n 10) as [Hl|Hge].
  - constructor; [lia|done].
  - apply IH.
    + apply Z.div_pos; lia.
    + constructor; [|done]. pose proof (Z.mod_pos_bound n 10 ltac:(lia)). lia.
    + rewrite Nat2Z.inj_succ, Z.pow_succ_r in Hlt by lia. apply Z.div_lt_upper_bound; lia.
Qed.
Lemma print_lu_digits n : 0 <= n <= PointerDefs.SIZE_MAX -> Forall (fun c => 48 <= c <= 57) (PointerDefs.print_lu n).
Proof.
  intros Hn. unfold PointerDefs.print_lu. apply dec_digits_digit; [lia|constructor|].
  unfold PointerDefs.SIZE_MAX in Hn. change (8 * c_SIZEOF_SIZE_T) with 64 in Hn.
  change (2 ^ 64 - 1) with 18446744073709551615 in Hn. change (10 ^ Z.of_nat 25) with 10000000000000000000000000. lia.
Qed.
Lemma print_lu_zfree n : 0 <= n <= PointerDefs.SIZE_MAX -> SortSpec.zfree (PointerDefs.print_lu n).
Proof.
  intros Hn. pose proof (print_lu_digits n Hn) as H. unfold SortSpec.zfree.
  eapply Forall_impl; [exact H|]. cbn. intros c Hc. lia.
Qed.
