(** TierBridgeE2E2.v — the two END-TO-END compositions that TierBridgeEndToEnd.v / TierBridgeEndToEndStr.v
    left as separate halves: cJSON_ReplaceItemInObject[CaseSensitive] and cJSON_Duplicate(item, 1).

    "heap-level code on [WF h F]  |->  value-level primitive on the reified container", in ONE statement with
    no [spec_*] in it.

    (A) [e2e_replace_in_object]: [CoreDefs.replace_item_in_object] (both case modes) under the hypotheses of
        [CoreRefineReplaceKey.replace_item_in_object_sim] plus NO ALIASING (the strings of the nodes that
        remain are neither the identity about to be handed out, nor the replacement's old owned key, nor
        blocks released with the replaced member) computes [v_replace_in_object] on the reified object.
        [replace_hypotheses_of_owned]: the no-aliasing hypotheses hold for trees that own all their strings.
    (B) [e2e_duplicate]: [cJSON_Duplicate oracle (Some p) true] under the hypotheses of
        [C11_copy_subtree] plus "every CONSTANT key block of the source lies below the allocator pointer"
        returns NULL (heap encodes the same forest, strings untouched, some request refused) or a new root
        whose reification is what BOTH value-level duplicates compute; [e2e_duplicate_no_failure].
    (C) non-vacuity on [ex_heap] / [ex_F] of TierBridge.v. *)
From CJ Require Import Base Dbl Heap Forest ForestLemmas CoreSpec CoreDefs CoreRefineBase CoreRefine CoreRefineMore
  CoreRefineDelete CoreRefineReplace CoreRefineObject CoreRefineByKey CoreRefineFrame CoreRefineHistory
  CoreRefineAddObject CoreRefineReplaceKey CoreRefineDupBase CoreRefineDupTree CoreRefineDupNode CoreRefineDupValue.
From CJ Require Import TierBridgeDefs TierBridgeSort TierBridgeForest TierBridgeLemmas TierBridgeEndToEndStr TierBridge.
From CJ Require Tree CompareDefs PointerDefs PatchDefs MergeDefs CoreRefineDupLoop CoreRefineDupForest CoreRefineDup.
From CJ.gen Require Import Constants.
From stdpp Require Import gmap.
From Coq Require Import Lia.
Local Open Scope Z_scope.

(** * 0. auxiliary facts *)

(** a container outside the detached root [r] is not [r] *)
Lemma container_ne_root (F : forest) (r p : positive) (tr : tree) (dp : rdata) (csp : list tree) :
  NoDup (ids F) -> find_root r F = Some tr -> find_tree p (remove_root r F) = Some (T p dp csp) -> p <> r.
Proof.
  intros ND Hr Hp ->.
  destruct (focus_root_container _ _ _ _ _ _ ND Hr Hp) as (FL0 & Htr & _ & _ & E1 & _).
  rewrite ids_flat, E1 in ND. destruct tr as [i d cs]. cbn in Htr. subst i. rewrite flat_t_unfold in ND.
  rewrite fmap_cons in ND. apply NoDup_cons in ND as [ND _]. apply ND.
  rewrite !fmap_app, fmap_cons. apply elem_of_app. right. apply elem_of_app. left. by left.
Qed.

(** the blocks [cJSON_Delete] releases for a tree are the blocks the tree owns *)
Lemma free_order_root_owned (ty : tree) (b : positive) : b ∈ free_order [ty] <-> b ∈ owned [ty].
Proof. by rewrite free_order_datas, <- owned_datas. Qed.

Lemma owned_singleton (t : tree) : owned [t] = owned_fl (flat_t t).
Proof. unfold owned. by rewrite flat_singleton. Qed.

(** the string blocks of a list with one element replaced *)
Lemma str_blocks_insert (k : nat) (x : tree) (l : list tree) (b : positive) :
  b ∈ (<[k := x]> l) ≫= str_blocks -> b ∈ str_blocks x \/ b ∈ (delete k l) ≫= str_blocks.
Proof.
  revert k. induction l as [|a l IH]; intros k Hb; [by right|]. destruct k as [|k]; cbn in Hb |- *.
  - apply elem_of_app in Hb as [Hb|Hb]; [by left|by right].
  - apply elem_of_app in Hb as [Hb|Hb]; [right; apply elem_of_app; by left|].
    destruct (IH k Hb) as [H|H]; [by left|]. right. apply elem_of_app. by right.
Qed.

(** every string block a tree refers to is the valuestring or the key of one of its nodes *)
Lemma str_blocks_flat (t : tree) (b : positive) :
  b ∈ str_blocks t -> exists e : fnode, e ∈ flat_t t /\ (rd_vstr (fn_data e) = Some b \/ rd_key (fn_data e) = Some b).
Proof.
  induction t as [i d cs IH] using tree_ind'. cbn [str_blocks]. intros Hb. rewrite flat_t_unfold.
  apply elem_of_app in Hb as [Hb|Hb]; [|apply elem_of_app in Hb as [Hb|Hb]].
  - exists (i, d, tid <$> cs). split; [by left|]. left. cbn. destruct (rd_vstr d) as [v|]; cbn in Hb; [|by apply elem_of_nil in Hb].
    apply elem_of_list_singleton in Hb. by subst.
  - exists (i, d, tid <$> cs). split; [by left|]. right. cbn. destruct (rd_key d) as [v|]; cbn in Hb; [|by apply elem_of_nil in Hb].
    apply elem_of_list_singleton in Hb. by subst.
  - apply elem_of_list_bind in Hb as (c & Hbc & Hc). rewrite Forall_forall in IH.
    destruct (IH c Hc Hbc) as (e & He & Hor). exists e. split; [|done]. right.
    unfold flat, nodes. apply elem_of_list_fmap in He as (m & -> & Hm). apply elem_of_list_fmap. exists m. split; [done|].
    apply elem_of_list_bind. by exists c.
Qed.

(** * A. cJSON_ReplaceItemInObject[CaseSensitive] *)
Section ReplaceInObject.
  Context (oracle : nat -> bool) (h : heap) (F : forest) (p r sb : positive) (d dp : rdata)
          (cs csp : list tree) (s : bytes).
  Hypothesis W : WF h F.
  Hypothesis KR : KeysReadable h F.
  (** constant keys are not library blocks of the forest; key blocks were handed out by the allocator model
      (both are parts of [CoreRefineHistoryObj.Abs2]) *)
  Hypothesis Hconst : forall (e : fnode) (b : positive),
    e ∈ flat F -> rd_key (fn_data e) = Some b -> is_const (fn_data e) = true -> b ∉ owned F.
  Hypothesis Hbelow : forall (e : fnode) (b : positive),
    e ∈ flat F -> rd_key (fn_data e) = Some b -> (b < h_next h)%positive.
  Hypothesis Hr : find_root r F = Some (T r d cs).
  Hypothesis Hp : find_tree p (remove_root r F) = Some (T p dp csp).
  Hypothesis Href : is_ref dp = false.
  Hypothesis Hrd : Readable h sb.
  Hypothesis Hs : h_str h !! sb = Some s.
  Hypothesis Ho : oracle (h_req h) = false.
  Notation St := (h_str h).
  (** no aliasing, 1: no node of the object, and no node of the replacement other than through its own key
      field, refers to the identity about to be allocated or to the replacement's old owned key *)
  Hypothesis Hfr : forall b : positive,
    b ∈ str_blocks (T p dp csp) ++ opt_list (rd_vstr d) ++ (cs ≫= str_blocks) -> b <> h_next h /\ b ∉ old_key d.

  Theorem e2e_replace_in_object (flag : bool) :
    (** no aliasing, 2: what remains — the object without the member the lookup finds, the replacement's
        valuestring and children — refers to no block released with that member *)
    (forall (j : nat) (v : Tree.node) (ty : tree),
       CompareDefs.get_object_item (reify St (T p dp csp)) (Some (cstr s)) flag = Some (j, v) -> csp !! j = Some ty ->
       forall b : positive,
         b ∈ str_blocks (T p dp (delete j csp)) ++ opt_list (rd_vstr d) ++ (cs ≫= str_blocks) -> b ∉ owned [ty]) ->
    exists (b : bool) (h' : heap) (F' : forest),
      replace_item_in_object oracle (Some p) (Some sb) (Some r) flag h = Ret (b, h') /\ WF h' F' /\
      match v_replace_in_object (reify St (T p dp csp)) (cstr s) (reify St (T r d cs)) flag with
      | Some obj' => b = true /\ reify (h_str h') <$> find_tree p F' = Some obj'
      | None => b = false /\ reify (h_str h') <$> find_tree p F' = Some (reify St (T p dp csp))
      end.
  Proof.
    intros Hfr2.
    pose proof (wf_nodup _ _ W) as ND.
    pose proof (container_ne_root F r p _ dp csp ND Hr Hp) as Hne.
    destruct (rk_state h F p r sb d dp cs csp s W KR Hconst Hbelow Hr Hp Href Hrd Hs)
      as (W2 & KR2 & [Hnl (sk & Hsk & Hzk)] & Hnks & Hr1 & Hrr & Hp1).
    set (nk := h_next h) in *. set (d' := rd_owned_key d nk) in *. set (F1 := set_data r d' F) in *.
    set (ha := alloc_str h (cstr s ++ [0])) in *.
    set (h2 := set_dat (free_all (old_key d) ha) (<[r := mk_dat d' (tid <$> cs)]> (h_dat (free_all (old_key d) ha)))) in *.
    pose proof (find_tree_remove_root _ _ _ _ _ ND Hr Hp) as HpF.
    (* the string heap after the re-keying agrees with the old one on everything the inputs refer to *)
    assert (Hsame : forall b : positive, b <> nk -> b ∉ old_key d -> h_str h2 !! b = St !! b).
    { intros b H1 H2. unfold h2. cbn [h_str set_dat upd_maps]. rewrite free_all_str_lookup by done.
      unfold ha. cbn. by rewrite lookup_insert_ne. }
    assert (Eobj : reify (h_str h2) (T p dp csp) = reify St (T p dp csp)).
    { apply reify_frame. intros b Hb. destruct (Hfr b) as [H1 H2]; [|by apply Hsame]. apply elem_of_app. by left. }
    assert (Ekey : forall k : bytes, PatchDefs.keyed (reify (h_str h2) (T r d cs)) k = PatchDefs.keyed (reify St (T r d cs)) k).
    { intros k. apply keyed_frame. intros b Hb. destruct (Hfr b) as [H1 H2]; [|by apply Hsame]. apply elem_of_app. by right. }
    (* run the code up to the call of cJSON_ReplaceItemViaPointer *)
    assert (Hrun : replace_item_in_object oracle (Some p) (Some sb) (Some r) flag h =
                   cJSON_ReplaceItemViaPointer (Some p) (spec_get_key (h_str h2) F1 (Some p) (Some nk) flag) (Some r) h2).
    { destruct (set_data_root F r d cs d' ND Hr) as (Hin & _ & _).
      pose proof (WF_alloc_str h F (cstr s ++ [0]) W) as Wa. fold ha in Wa.
      unfold replace_item_in_object. cbn [is_null orb].
      rewrite (bindM_Ret _ _ _ _ _ (cJSON_strdup_ok oracle h sb s Hrd Hs Ho)). cbn [is_null]. fold ha nk.
      rewrite (rekey_run2 _ ha F r d (tid <$> cs) (Some nk) Wa (elem_of_flat _ _ Hin)).
      change (set_dat (free_all (old_key d) ha) _) with h2.
      by rewrite (bindM_Ret _ _ _ _ _ (get_object_item_sim h2 F1 p dp csp nk sk W2 KR2 Hp1 Hnl Hsk Hzk flag Href)). }
    rewrite Hrun. clear Hrun.
    (* the lookup by the copy, at both levels *)
    destruct (bridge_get_key (h_str h2) F1 p dp csp Hp1 nk (cstr s ++ [0]) flag Hnks) as [G1 G2].
    rewrite cstr_cstr_app in G1, G2. rewrite Eobj in G1. rewrite G2.
    unfold v_replace_in_object. rewrite G1.
    destruct (found_member (h_str h2) flag (cstr s) csp) as [[k ty]|] eqn:Ef; cbn [fmap option_fmap option_map fst snd].
    - pose proof (found_member_lookup _ _ _ _ _ _ Ef) as Hk.
      assert (Hp1' : find_tree p (remove_root r F1) = Some (T p dp csp)) by (by rewrite Hrr).
      destruct (cJSON_ReplaceItemViaPointer_sim h2 F1 p (tid ty) r (T r d' cs) ty dp csp k W2 Hr1 Hp1' Hk eq_refl)
        as (_ & S2 & S3 & _).
      rewrite Hrr in S2, S3.
      do 3 eexists. split; [exact S2|]. split; [exact S3|]. split; [done|].
      rewrite (find_tree_set_children p dp csp _ (remove_root r F) Hp). cbn [fmap option_fmap option_map]. f_equal.
      (* the released blocks *)
      assert (Hty : forall b : positive, b ∈ owned [ty] -> b ∈ owned F).
      { intros b Hb. rewrite owned_singleton in Hb. apply (owned_of_node F ty); [|done].
        pose proof (find_tree_child F p dp csp ty ND HpF (elem_of_list_lookup_2 _ _ _ Hk)) as Hc.
        by apply find_tree_Some in Hc as [Hc _]. }
      assert (Hnkty : nk ∉ owned [ty]).
      { intros Hin. exact (Pos.lt_irrefl _ (wf_fresh _ _ W _ (Hty _ Hin))). }
      assert (Hrel : forall b : positive, b ∈ str_blocks (T p dp (<[k := T r d' cs]> csp)) -> b ∉ owned [ty]).
      { intros b Hb. cbn [str_blocks] in Hb. rewrite app_assoc in Hb. apply elem_of_app in Hb as [Hb|Hb].
        - apply (Hfr2 k _ ty G1 Hk). apply elem_of_app. left. cbn [str_blocks]. rewrite app_assoc. apply elem_of_app. by left.
        - apply str_blocks_insert in Hb as [Hb|Hb].
          + cbn [str_blocks] in Hb. apply elem_of_app in Hb as [Hb|Hb]; [|apply elem_of_app in Hb as [Hb|Hb]].
            * apply (Hfr2 k _ ty G1 Hk). apply elem_of_app. right. apply elem_of_app. by left.
            * cbn in Hb. apply elem_of_list_singleton in Hb. by subst b.
            * apply (Hfr2 k _ ty G1 Hk). apply elem_of_app. right. apply elem_of_app. by right.
          + apply (Hfr2 k _ ty G1 Hk). apply elem_of_app. left. cbn [str_blocks]. rewrite app_assoc. apply elem_of_app. by right. }
      transitivity (reify (h_str h2) (T p dp (<[k := T r d' cs]> csp))).
      + apply reify_frame. intros b Hb. cbn [h_str upd_maps]. rewrite free_all_str_lookup; [done|].
        rewrite free_order_root_owned. by apply Hrel.
      + rewrite <- Eobj. rewrite reify_children. cbn [tchildren]. rewrite replace_nth_insert.
        rewrite <- (reify_set_children (h_str h2) p dp csp). f_equal. rewrite map_list_insert. f_equal.
        rewrite <- Ekey. rewrite <- (cstr_cstr_app s []).
        exact (proj1 (reify_owned_key (h_str h2) r d cs nk (cstr s ++ [0]) Hnks)).
    - destruct (cJSON_ReplaceItemViaPointer_refused h2 F1 p dp csp None (Some r) W2 Hp1 Href
                  (or_intror (or_introl eq_refl))) as [_ S2].
      exists false, h2, F1. split; [exact S2|]. split; [exact W2|]. split; [done|].
      rewrite Hp1. cbn [fmap option_fmap option_map]. by rewrite Eobj.
  Qed.
End ReplaceInObject.

(** the named entry points are the two case modes *)
Lemma cJSON_ReplaceItemInObject_is (oracle : nat -> bool) (object string newitem : ptr) :
  cJSON_ReplaceItemInObject oracle object string newitem = replace_item_in_object oracle object string newitem false /\
  cJSON_ReplaceItemInObjectCaseSensitive oracle object string newitem = replace_item_in_object oracle object string newitem true.
Proof. split; reflexivity. Qed.

(** * the two no-aliasing hypotheses of the replace theorem hold for trees that own their strings: every
      referenced block is then owned by exactly one node, hence below [h_next], different from the
      replacement's old key, and not among the blocks of any OTHER member *)
Lemma owns_strings_sub (i i' : positive) (dd : rdata) (l l' : list tree) :
  l' ⊆ l -> owns_strings (T i dd l) -> owns_strings (T i' dd l').
Proof.
  unfold owns_strings. rewrite !flat_t_unfold. intros Hsub Ho. apply Forall_cons in Ho as [H1 H2].
  apply Forall_cons. split; [exact H1|]. rewrite Forall_forall in *. intros n Hn. apply H2.
  unfold flat, nodes in *. apply elem_of_list_fmap in Hn as (m & -> & Hm). apply elem_of_list_fmap. exists m. split; [done|].
  apply elem_of_list_bind in Hm as (c & Hmc & Hc). apply elem_of_list_bind. exists c. split; [done|by apply Hsub].
Qed.

Theorem replace_hypotheses_of_owned (h : heap) (F : forest) (p r : positive) (d dp : rdata) (cs csp : list tree) :
  WF h F -> find_root r F = Some (T r d cs) -> find_tree p (remove_root r F) = Some (T p dp csp) ->
  owns_strings (T p dp csp) -> is_ref d = false -> Forall owns_strings cs ->
  (forall b : positive, b ∈ str_blocks (T p dp csp) ++ opt_list (rd_vstr d) ++ (cs ≫= str_blocks) ->
                        b <> h_next h /\ b ∉ old_key d) /\
  (forall (j : nat) (ty : tree), csp !! j = Some ty ->
     forall b : positive, b ∈ str_blocks (T p dp (delete j csp)) ++ opt_list (rd_vstr d) ++ (cs ≫= str_blocks) ->
                          b ∉ owned [ty]).
Proof.
  intros W Hr Hp Hop Hrx Hoc. split; [by eapply add_hypothesis_of_owned|].
  intros j ty Hj b Hb Hin. rewrite owned_singleton in Hin.
  pose proof (wf_nodup _ _ W) as ND. pose proof (wf_owned_nodup _ _ W) as NDo.
  destruct (focus_root_container _ _ _ _ _ _ ND Hr Hp) as (FL0 & _ & _ & _ & E1 & _).
  set (Y := (p, dp, tid <$> csp) :: flat (delete j csp) ++ flat_t (T r d cs) ++ FL0).
  assert (Ec : flat csp ≡ₚ flat_t ty ++ flat (delete j csp)).
  { rewrite <- flat_cons. apply flat_proper. by apply delete_Permutation. }
  assert (E : flat F ≡ₚ flat_t ty ++ Y).
  { rewrite E1, Ec. unfold Y. rewrite <- app_assoc. apply Permutation_middle. }
  unfold owned in NDo. rewrite E, owned_fl_app in NDo. apply NoDup_app in NDo as (_ & Hdis & _).
  apply (Hdis b Hin). unfold Y. rewrite owned_fl_cons, !owned_fl_app, flat_t_unfold, owned_fl_cons.
  apply elem_of_app in Hb as [Hb|Hb]; [|apply elem_of_app in Hb as [Hb|Hb]].
  - assert (Hod : owns_strings (T p dp (delete j csp))).
    { apply (owns_strings_sub p p dp csp); [|done]. intros x Hx. rewrite (delete_Permutation csp j ty Hj). by right. }
    pose proof (str_blocks_owned _ Hod b Hb) as Hbo. rewrite flat_t_unfold, owned_fl_cons in Hbo.
    apply elem_of_app in Hbo as [Hbo|Hbo]; [apply elem_of_app; by left|].
    apply elem_of_app. right. apply elem_of_app. by left.
  - apply elem_of_app. right. apply elem_of_app. right. apply elem_of_app. left. apply elem_of_app. left.
    right. unfold owned_strs. cbn [fn_data fst snd]. rewrite Hrx. apply elem_of_app. by left.
  - apply elem_of_app. right. apply elem_of_app. right. apply elem_of_app. left. apply elem_of_app. right.
    apply elem_of_list_bind in Hb as (c & Hbc & Hc). rewrite Forall_forall in Hoc.
    pose proof (str_blocks_owned c (Hoc c Hc) b Hbc) as Hbo. apply elem_of_owned_fl in Hbo as (e & He & Hbe).
    apply elem_of_owned_fl. exists e. split; [|done].
    unfold flat, nodes. apply elem_of_list_fmap in He as (m & -> & Hm). apply elem_of_list_fmap. exists m. split; [done|].
    apply elem_of_list_bind. by exists c.
Qed.

(** so: for trees that own their strings the replace theorem needs no aliasing hypothesis *)
Corollary e2e_replace_in_object_owned (oracle : nat -> bool) (h : heap) (F : forest) (p r sb : positive) (d dp : rdata)
    (cs csp : list tree) (s : bytes) (flag : bool) :
  WF h F -> KeysReadable h F ->
  (forall (e : fnode) (b : positive), e ∈ flat F -> rd_key (fn_data e) = Some b -> is_const (fn_data e) = true -> b ∉ owned F) ->
  (forall (e : fnode) (b : positive), e ∈ flat F -> rd_key (fn_data e) = Some b -> (b < h_next h)%positive) ->
  find_root r F = Some (T r d cs) -> find_tree p (remove_root r F) = Some (T p dp csp) -> is_ref dp = false ->
  Readable h sb -> h_str h !! sb = Some s -> oracle (h_req h) = false ->
  owns_strings (T p dp csp) -> is_ref d = false -> Forall owns_strings cs ->
  exists (b : bool) (h' : heap) (F' : forest),
    replace_item_in_object oracle (Some p) (Some sb) (Some r) flag h = Ret (b, h') /\ WF h' F' /\
    match v_replace_in_object (reify (h_str h) (T p dp csp)) (cstr s) (reify (h_str h) (T r d cs)) flag with
    | Some obj' => b = true /\ reify (h_str h') <$> find_tree p F' = Some obj'
    | None => b = false /\ reify (h_str h') <$> find_tree p F' = Some (reify (h_str h) (T p dp csp))
    end.
Proof.
  intros W KR Hconst Hbelow Hr Hp Href Hrd Hs Ho Hop Hrx Hoc.
  destruct (replace_hypotheses_of_owned h F p r d dp cs csp W Hr Hp Hop Hrx Hoc) as [H1 H2].
  apply (e2e_replace_in_object oracle h F p r sb d dp cs csp s W KR Hconst Hbelow Hr Hp Href Hrd Hs Ho H1 flag).
  intros j v ty _ Hj. by apply H2.
Qed.

(** * B. cJSON_Duplicate(item, 1) *)
Lemma flat_str_blocks (t : tree) (e : fnode) (b : positive) :
  e ∈ flat_t t -> rd_vstr (fn_data e) = Some b \/ rd_key (fn_data e) = Some b -> b ∈ str_blocks t.
Proof.
  induction t as [i d cs IH] using tree_ind'. rewrite flat_t_unfold. intros He Hor. cbn [str_blocks].
  apply elem_of_cons in He as [->|He].
  - cbn [fn_data fst snd] in Hor. destruct Hor as [Hv|Hk].
    + apply elem_of_app. left. rewrite Hv. cbn. by left.
    + apply elem_of_app. right. apply elem_of_app. left. rewrite Hk. cbn. by left.
  - apply CoreRefineDupLoop.elem_of_flat_list in He as (c & Hc & He). rewrite Forall_forall in IH.
    apply elem_of_app. right. apply elem_of_app. right. apply elem_of_list_bind. exists c. split; [|done]. by apply IH.
Qed.

Section Duplicate.
  Context (oracle : nat -> bool) (h : heap) (F : forest) (p : positive) (t : tree).
  Hypothesis W : WF h F.
  Hypothesis C : Closed h.
  Hypothesis Hp : find_tree p F = Some t.
  Hypothesis Hs : CoreRefineDupForest.strs_readable h t.
  Hypothesis Hb : CoreRefineDupForest.no_borrowed t.
  Hypothesis Hh : (CoreRefineDupForest.height t <= Z.to_nat c_CJSON_CIRCULAR_LIMIT)%nat.
  (** a CONSTANT key is shared with the copy and is not covered by [strs_readable]: its block must exist
      below the allocator pointer, or the allocator could hand its identity out to the copy *)
  Hypothesis Hck : forall (i : positive) (d : rdata) (ks : list positive) (b : positive),
    (i, d, ks) ∈ flat_t t -> rd_key d = Some b -> is_const d = true -> (b < h_next h)%positive.

  (** then every string block the source refers to lies below the allocator pointer *)
  Lemma source_blocks_below (b : positive) : b ∈ str_blocks t -> (b < h_next h)%positive.
  Proof.
    intros Hin. destruct (str_blocks_flat t b Hin) as ([[i d] ks] & He & Hor). cbn [fn_data fst snd] in Hor.
    destruct (Hs i d ks He) as [Hv Hk].
    assert (Hrd : readable h b -> (b < h_next h)%positive).
    { intros (s & [Hl _] & _). by apply Closed_live. }
    destruct Hor as [Hor|Hor]; [by apply Hrd, Hv|].
    destruct (is_const d) eqn:Hc; [by eapply Hck|by apply Hrd, Hk].
  Qed.

  Theorem e2e_duplicate :
    exists (r : ptr) (h' : heap),
      cJSON_Duplicate oracle (Some p) true h = Ret (r, h') /\
      ((r = None /\ WF h' F /\ h_str h' = h_str h /\ ofail oracle h h') \/
       (exists tc : tree,
          r = Some (tid tc) /\ WF h' (F ++ [tc]) /\ find_root (tid tc) (F ++ [tc]) = Some tc /\
          PatchDefs.cJSON_Duplicate (reify (h_str h) t) = Some (reify (h_str h') tc) /\
          MergeDefs.mp_Duplicate (Some (reify (h_str h) t)) = Some (reify (h_str h') tc) /\
          reify (h_str h') t = reify (h_str h) t /\
          oclean oracle h h')).
  Proof.
    destruct (CoreRefineDupForest.dup_copy oracle h F p t W C Hp Hs Hb Hh) as (r & h' & Hrun & [H|H]).
    - exists r, h'. split; [exact Hrun|]. left.
      destruct H as (H1 & H2 & _ & _ & _ & H6 & _ & _ & _ & _ & H11). by split_and!.
    - exists r, h'. split; [exact Hrun|]. right.
      destruct H as (tc & H1 & W' & _ & Hcp & Fr & _ & _ & Hnew & Hcl). exists tc.
      assert (Esrc : reify (h_str h') t = reify (h_str h) t).
      { apply reify_frame. intros b Hin. apply (xt_str _ _ _ _ Fr). intros Hsid.
        assert (Hown : b ∈ owned [tc]).
        { rewrite owned_singleton, owned_fl_split. apply elem_of_app. by right. }
        destruct (Hnew b Hown) as [Hge _]. pose proof (source_blocks_below b Hin). lia. }
      assert (Hroot : find_root (tid tc) (F ++ [tc]) = Some tc).
      { assert (Hnot : tid tc ∉ roots F).
        { intros Hin. pose proof (wf_nodup _ _ W') as ND. rewrite ids_app in ND.
          apply NoDup_app in ND as (_ & Hdis & _). apply (Hdis (tid tc)); [by apply roots_subseteq_ids|].
          apply roots_subseteq_ids. cbn. by left. }
        rewrite find_root_app_r by done. unfold find_root. cbn. by rewrite bool_decide_eq_true_2. }
      destruct (bridge_duplicate h' t tc Hcp) as (_ & _ & H3). destruct (H3 Hh) as [D1 D2]. rewrite Esrc in D1, D2.
      by split_and!.
  Qed.
End Duplicate.

(** the same with the hypothesis on ALL string blocks of the source (implied by, e.g., "every string block
    the source refers to is live") *)
Corollary e2e_duplicate_blocks (oracle : nat -> bool) (h : heap) (F : forest) (p : positive) (t : tree) :
  WF h F -> Closed h -> find_tree p F = Some t ->
  CoreRefineDupForest.strs_readable h t -> CoreRefineDupForest.no_borrowed t ->
  (CoreRefineDupForest.height t <= Z.to_nat c_CJSON_CIRCULAR_LIMIT)%nat ->
  (forall b : positive, b ∈ str_blocks t -> (b < h_next h)%positive) ->
  exists (r : ptr) (h' : heap),
    cJSON_Duplicate oracle (Some p) true h = Ret (r, h') /\
    ((r = None /\ WF h' F /\ h_str h' = h_str h /\ ofail oracle h h') \/
     (exists tc : tree,
        r = Some (tid tc) /\ WF h' (F ++ [tc]) /\ find_root (tid tc) (F ++ [tc]) = Some tc /\
        PatchDefs.cJSON_Duplicate (reify (h_str h) t) = Some (reify (h_str h') tc) /\
        MergeDefs.mp_Duplicate (Some (reify (h_str h) t)) = Some (reify (h_str h') tc) /\
        reify (h_str h') t = reify (h_str h) t /\
        oclean oracle h h')).
Proof.
  intros W C Hp Hs Hb Hh Hbl. apply (e2e_duplicate oracle h F p t W C Hp Hs Hb Hh).
  intros i d ks b He Hk _. apply Hbl. apply (flat_str_blocks t (i, d, ks) b He). by right.
Qed.

(** without refused requests the copy is made *)
Theorem e2e_duplicate_no_failure (h : heap) (F : forest) (p : positive) (t : tree) :
  WF h F -> Closed h -> find_tree p F = Some t ->
  CoreRefineDupForest.strs_readable h t -> CoreRefineDupForest.no_borrowed t ->
  (CoreRefineDupForest.height t <= Z.to_nat c_CJSON_CIRCULAR_LIMIT)%nat ->
  (forall (i : positive) (d : rdata) (ks : list positive) (b : positive),
     (i, d, ks) ∈ flat_t t -> rd_key d = Some b -> is_const d = true -> (b < h_next h)%positive) ->
  exists (tc : tree) (h' : heap),
    cJSON_Duplicate (fun _ => false) (Some p) true h = Ret (Some (tid tc), h') /\
    WF h' (F ++ [tc]) /\ find_root (tid tc) (F ++ [tc]) = Some tc /\
    PatchDefs.cJSON_Duplicate (reify (h_str h) t) = Some (reify (h_str h') tc) /\
    MergeDefs.mp_Duplicate (Some (reify (h_str h) t)) = Some (reify (h_str h') tc) /\
    reify (h_str h') t = reify (h_str h) t.
Proof.
  intros W C Hp Hs Hb Hh Hck.
  destruct (e2e_duplicate (fun _ => false) h F p t W C Hp Hs Hb Hh Hck) as (r & h' & Hrun & [H|H]).
  - destruct H as (_ & _ & _ & (j & _ & Hj)). discriminate Hj.
  - destruct H as (tc & -> & H2 & H3 & H4 & H5 & H6 & _). exists tc, h'. by split_and!.
Qed.

(** * C. non-vacuity: the heap [ex_heap] of TierBridge.v, which encodes [ex_F]
        root 1 = {"a":1, "A":2, "b":[10,20]}  (members 2 3 4, key blocks 101 102 103),  root 7 = detached number 3,
        caller's name blocks 110 "a", 111 "A", 112 "zz";  allocator pointer 1000 *)
Local Instance e2_ptr_eq_dec : EqDecision ptr.
Proof. unfold ptr. apply _. Defined.
Local Instance e2_spec_float_eq_dec : EqDecision SpecFloat.spec_float.
Proof. solve_decision. Defined.
Local Instance e2_ndata_eq_dec : EqDecision ndata.
Proof. solve_decision. Defined.
Local Instance e2_rdata_eq_dec : EqDecision rdata.
Proof. solve_decision. Defined.
Ltac e2_dec := apply (bool_decide_unpack _); vm_compute; exact I.

Lemma closed_check (g : heap) :
  set_Forall (fun k : positive => (k < h_next g)%positive) (h_live g ∪ dom (h_lnk g) ∪ dom (h_dat g) ∪ dom (h_str g)) ->
  Closed g.
Proof.
  intros H k Hk.
  assert (Hn : k ∉ h_live g ∪ dom (h_lnk g) ∪ dom (h_dat g) ∪ dom (h_str g)).
  { intros Hin. specialize (H k Hin). cbn in H. lia. }
  rewrite !not_elem_of_union in Hn. destruct Hn as [[[H1 H2] H3] H4].
  split_and!; [done|by apply not_elem_of_dom..].
Qed.

Lemma ex_heap_Closed : Closed ex_heap.
Proof. apply closed_check. e2_dec. Qed.

Lemma ex_no_const : Forall (fun e : fnode => is_const (fn_data e) = false /\ is_ref (fn_data e) = false /\ rd_ref (fn_data e) = None) (flat ex_F).
Proof. e2_dec. Qed.

(** ** the hypotheses of [e2e_replace_in_object] on [ex_heap]: object 1, replacement 7, name block [sb] *)
Lemma ex_replace_hypotheses :
  WF ex_heap ex_F /\ KeysReadable ex_heap ex_F /\
  (forall (e : fnode) (b : positive),
     e ∈ flat ex_F -> rd_key (fn_data e) = Some b -> is_const (fn_data e) = true -> b ∉ owned ex_F) /\
  (forall (e : fnode) (b : positive), e ∈ flat ex_F -> rd_key (fn_data e) = Some b -> (b < h_next ex_heap)%positive) /\
  find_root 7%positive ex_F = Some (T 7 (tdata ex_item) []) /\
  find_tree 1%positive (remove_root 7%positive ex_F) = Some (T 1 ex_objd ex_members) /\
  is_ref ex_objd = false /\
  Readable ex_heap 111 /\ h_str ex_heap !! 111%positive = Some [65; 0] /\
  Readable ex_heap 112 /\ h_str ex_heap !! 112%positive = Some [122; 122; 0] /\
  owns_strings (T 1 ex_objd ex_members) /\ is_ref (tdata ex_item) = false /\ Forall owns_strings ([] : list tree).
Proof.
  pose proof ex_no_const as NC. rewrite Forall_forall in NC.
  split_and!; try (vm_compute; reflexivity).
  - exact ex_heap_WF.
  - exact ex_heap_KeysReadable.
  - intros e b He _ Hc. destruct (NC e He) as [Hc' _]. congruence.
  - intros e b He. revert b. revert e He.
    apply (proj1 (Forall_forall (fun e : fnode => forall b : positive, rd_key (fn_data e) = Some b -> (b < h_next ex_heap)%positive) (flat ex_F))).
    let l := eval vm_compute in (flat ex_F) in change (flat ex_F) with l.
    repeat apply List.Forall_cons; try apply List.Forall_nil;
      intros b Hb; vm_compute in Hb; try discriminate; injection Hb as <-; vm_compute; reflexivity.
  - split; [e2_dec|]. eexists. split; [vm_compute; reflexivity|reflexivity].
  - split; [e2_dec|]. eexists. split; [vm_compute; reflexivity|reflexivity].
  - unfold owns_strings. e2_dec.
  - constructor.
Qed.

(** replace "A" case-insensitively: the lookup by the copy finds member 2 ("a", the FIRST folded match); the
    replacement takes its place and carries the key "A" *)
Theorem ex_e2e_replace_ci :
  exists (h' : heap) (F' : forest),
    replace_item_in_object (fun _ => false) (Some 1%positive) (Some 111%positive) (Some 7%positive) false ex_heap = Ret (true, h') /\
    WF h' F' /\
    reify (h_str h') <$> find_tree 1%positive F' = Some (reify ex_St (T 1 ex_objd [ex_item_keyed; m3; ex_arr])).
Proof.
  destruct ex_replace_hypotheses as (W & KR & Hc & Hb & Hr & Hp & Href & Hrd & Hs & _ & _ & Hop & Hrx & Hoc).
  destruct (replace_hypotheses_of_owned ex_heap ex_F 1 7 (tdata ex_item) ex_objd [] ex_members W Hr Hp Hop Hrx Hoc) as [H1 H2].
  destruct (e2e_replace_in_object (fun _ => false) ex_heap ex_F 1 7 111 (tdata ex_item) ex_objd [] ex_members [65; 0]
              W KR Hc Hb Hr Hp Href Hrd Hs eq_refl H1 false (fun j v ty _ Hj => H2 j ty Hj)) as (b & h' & F' & Hrun & W' & Hm).
  match type of Hm with match ?v with _ => _ end =>
    assert (E : v = Some (reify ex_St (T 1 ex_objd [ex_item_keyed; m3; ex_arr]))) by (vm_compute; reflexivity);
    rewrite E in Hm end.
  destruct Hm as [-> Hm]. exists h', F'. split; [exact Hrun|]. split; [exact W'|exact Hm].
Qed.

(** … case-sensitively: member 3 ("A") *)
Theorem ex_e2e_replace_cs :
  exists (h' : heap) (F' : forest),
    replace_item_in_object (fun _ => false) (Some 1%positive) (Some 111%positive) (Some 7%positive) true ex_heap = Ret (true, h') /\
    WF h' F' /\
    reify (h_str h') <$> find_tree 1%positive F' = Some (reify ex_St (T 1 ex_objd [m2; ex_item_keyed; ex_arr])).
Proof.
  destruct ex_replace_hypotheses as (W & KR & Hc & Hb & Hr & Hp & Href & Hrd & Hs & _ & _ & Hop & Hrx & Hoc).
  destruct (replace_hypotheses_of_owned ex_heap ex_F 1 7 (tdata ex_item) ex_objd [] ex_members W Hr Hp Hop Hrx Hoc) as [H1 H2].
  destruct (e2e_replace_in_object (fun _ => false) ex_heap ex_F 1 7 111 (tdata ex_item) ex_objd [] ex_members [65; 0]
              W KR Hc Hb Hr Hp Href Hrd Hs eq_refl H1 true (fun j v ty _ Hj => H2 j ty Hj)) as (b & h' & F' & Hrun & W' & Hm).
  match type of Hm with match ?v with _ => _ end =>
    assert (E : v = Some (reify ex_St (T 1 ex_objd [m2; ex_item_keyed; ex_arr]))) by (vm_compute; reflexivity);
    rewrite E in Hm end.
  destruct Hm as [-> Hm]. exists h', F'. split; [exact Hrun|]. split; [exact W'|exact Hm].
Qed.

(** … and the name "zz" is refused: [false], the object reifies as before (the replacement keeps its new key) *)
Theorem ex_e2e_replace_refused :
  exists (h' : heap) (F' : forest),
    replace_item_in_object (fun _ => false) (Some 1%positive) (Some 112%positive) (Some 7%positive) false ex_heap = Ret (false, h') /\
    WF h' F' /\
    reify (h_str h') <$> find_tree 1%positive F' = Some (reify ex_St ex_obj).
Proof.
  destruct ex_replace_hypotheses as (W & KR & Hc & Hb & Hr & Hp & Href & _ & _ & Hrd & Hs & Hop & Hrx & Hoc).
  destruct (replace_hypotheses_of_owned ex_heap ex_F 1 7 (tdata ex_item) ex_objd [] ex_members W Hr Hp Hop Hrx Hoc) as [H1 H2].
  destruct (e2e_replace_in_object (fun _ => false) ex_heap ex_F 1 7 112 (tdata ex_item) ex_objd [] ex_members [122; 122; 0]
              W KR Hc Hb Hr Hp Href Hrd Hs eq_refl H1 false (fun j v ty _ Hj => H2 j ty Hj)) as (b & h' & F' & Hrun & W' & Hm).
  match type of Hm with match ?v with _ => _ end =>
    assert (E : v = None) by (vm_compute; reflexivity); rewrite E in Hm end.
  destruct Hm as [-> Hm]. exists h', F'. split; [exact Hrun|]. split; [exact W'|exact Hm].
Qed.

(** ** the hypotheses of [e2e_duplicate] on [ex_heap]: the object 1 *)
Lemma ex_duplicate_hypotheses :
  WF ex_heap ex_F /\ Closed ex_heap /\ find_tree 1%positive ex_F = Some ex_obj /\
  CoreRefineDupForest.strs_readable ex_heap ex_obj /\ CoreRefineDupForest.no_borrowed ex_obj /\
  (CoreRefineDupForest.height ex_obj <= Z.to_nat c_CJSON_CIRCULAR_LIMIT)%nat /\
  (forall (i : positive) (d : rdata) (ks : list positive) (b : positive),
     (i, d, ks) ∈ flat_t ex_obj -> rd_key d = Some b -> is_const d = true -> (b < h_next ex_heap)%positive) /\
  (forall b : positive, b ∈ str_blocks ex_obj -> (b < h_next ex_heap)%positive).
Proof.
  assert (NC : Forall (fun e : fnode => is_const (fn_data e) = false /\ is_ref (fn_data e) = false /\ rd_ref (fn_data e) = None) (flat_t ex_obj)) by e2_dec.
  rewrite Forall_forall in NC.
  split_and!.
  - exact ex_heap_WF.
  - exact ex_heap_Closed.
  - vm_compute; reflexivity.
  - intros i d ks He. revert i d ks He.
    assert (H : Forall (fun e : fnode =>
                  (forall b : positive, rd_vstr (fn_data e) = Some b -> readable ex_heap b) /\
                  (forall b : positive, rd_key (fn_data e) = Some b -> is_const (fn_data e) = false -> readable ex_heap b)) (flat_t ex_obj)).
    { let l := eval vm_compute in (flat_t ex_obj) in change (flat_t ex_obj) with l.
      repeat apply List.Forall_cons; try apply List.Forall_nil;
        (split; [intros b Hb|intros b Hb _]); vm_compute in Hb; try discriminate; injection Hb as <-;
        (eexists; split; [split; [e2_dec|vm_compute; reflexivity]|reflexivity]). }
    rewrite Forall_forall in H. intros i d ks He. exact (H (i, d, ks) He).
  - intros i d ks He. exact (proj2 (proj2 (NC (i, d, ks) He))).
  - apply Nat.leb_le. vm_compute. reflexivity.
  - intros i d ks b He _ Hc. destruct (NC (i, d, ks) He) as [Hc' _]. cbn in Hc'. congruence.
  - apply (proj1 (Forall_forall (fun b : positive => (b < h_next ex_heap)%positive) (str_blocks ex_obj))). e2_dec.
Qed.

(** no refused request: the copy is made, and reified it IS the object (no reference bits to clear) — what both
    value-level duplicates return *)
Theorem ex_e2e_duplicate :
  exists (tc : tree) (h' : heap),
    cJSON_Duplicate (fun _ => false) (Some 1%positive) true ex_heap = Ret (Some (tid tc), h') /\
    WF h' (ex_F ++ [tc]) /\ find_root (tid tc) (ex_F ++ [tc]) = Some tc /\
    PatchDefs.cJSON_Duplicate ex_o = Some (reify (h_str h') tc) /\
    MergeDefs.mp_Duplicate (Some ex_o) = Some (reify (h_str h') tc) /\
    reify (h_str h') tc = ex_o /\ reify (h_str h') ex_obj = ex_o.
Proof.
  destruct ex_duplicate_hypotheses as (W & C & Hp & Hs & Hb & Hh & Hck & _).
  destruct (e2e_duplicate_no_failure ex_heap ex_F 1 ex_obj W C Hp Hs Hb Hh Hck) as (tc & h' & Hrun & W' & Hroot & D1 & D2 & Esrc).
  exists tc, h'. change (reify (h_str ex_heap) ex_obj) with ex_o in D1, D2, Esrc.
  split; [exact Hrun|]. split; [exact W'|]. split; [exact Hroot|]. split; [exact D1|]. split; [exact D2|]. split; [|exact Esrc].
  assert (E : PatchDefs.cJSON_Duplicate ex_o = Some ex_o) by (vm_compute; reflexivity).
  rewrite E in D1. by injection D1.
Qed.

(** the first request refused: NULL, the heap still encodes [ex_F], the strings are untouched *)
Theorem ex_e2e_duplicate_failure :
  exists h' : heap,
    cJSON_Duplicate (fun k => Nat.eqb k 0) (Some 1%positive) true ex_heap = Ret (None, h') /\
    WF h' ex_F /\ h_str h' = h_str ex_heap.
Proof.
  destruct ex_duplicate_hypotheses as (W & C & Hp & Hs & Hb & Hh & Hck & _).
  destruct (e2e_duplicate (fun k => Nat.eqb k 0) ex_heap ex_F 1 ex_obj W C Hp Hs Hb Hh Hck) as (r & h' & Hrun & H).
  assert (Hnone : exists h2 : heap, cJSON_Duplicate (fun k => Nat.eqb k 0) (Some 1%positive) true ex_heap = Ret (None, h2)).
  { vm_compute. eexists. reflexivity. }
  destruct Hnone as [h2 E]. rewrite E in Hrun. injection Hrun as <- <-.
  destruct H as [H|(tc & Htc & _)]; [|discriminate Htc].
  destruct H as (_ & W' & Es & _). exists h2. split; [exact E|]. split; [exact W'|exact Es].
Qed.
