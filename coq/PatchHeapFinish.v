(** PatchHeapFinish.v — the part of the heap-level [apply_patch] after "Now, just add value to path"
    ([apply_patch_finish], PatchHeapApplyDefs.v) refines [PatchDefs.finish_add].

    Forest [(G ++ [doc]) ++ [v]]: the document, and the value to insert (a duplicate, or the moved item) as
    the last root.  On EVERY exit the copy of the path is released; on the failing exits (status 9, 10, 11) the
    value is deleted by the [cleanup:] block; on success it hangs in the document. *)
From CJ Require Import Base Dbl Heap Forest ForestLemmas CoreSpec CoreDefs CoreRefineBase CoreRefine CoreRefineMore
  CoreRefineDelete CoreRefineReplace CoreRefineObject CoreRefineByKey CoreRefineFrame CoreRefineHistory CoreRefineAddObject
  CoreRefineHistoryObj CoreRefineCreate CoreRefineDupValue CoreLedgerGen.
From CJ Require Import TierBridgeDefs TierBridgeForest TierBridgeLemmas TierBridgeUtilsDefs TierBridgeUtils TierBridgeE2E2
  TierBridgeEndToEndStr TierBridgeOverwriteDefs TierBridgeOverwrite
  MergeHeapDefs MergeHeapInv MergeHeapProofs PatchHeapDefs PatchHeapPath PatchHeapPointer PatchHeapStr PatchHeapSteps
  PatchHeapDetach PatchHeapApplyDefs PatchHeapOps.
From CJ Require Tree PointerDefs PatchDefs CompareDefs SortSpec PatchProofs.
From CJ.gen Require Import Constants.
From stdpp Require Import gmap.
From Coq Require Import Lia.
Local Open Scope Z_scope.

Ltac nrm := repeat (progress (rewrite ?bindM_assoc, ?bindM_ret)).

(** * paths, once more *)
Lemma put_t_id t pp n : subtree_t t pp = Some n -> put_t t pp n = t.
Proof.
  revert t. induction pp as [|i pp IH]; intros t; cbn [subtree_t put_t]; [by intros [= ->]|].
  destruct t as [i0 d0 cs0]. cbn [tchildren tid tdata]. destruct (cs0 !! i) as [c|] eqn:E; [|done].
  intros Hs. rewrite (IH _ Hs). by rewrite list_insert_id.
Qed.

Lemma put_subtree_put n pp a b : is_Some (Tree.subtree n pp) ->
  PatchDefs.put_subtree (PatchDefs.put_subtree n pp a) pp b = PatchDefs.put_subtree n pp b.
Proof.
  revert n. induction pp as [|i pp IH]; intros n; [done|]. cbn [Tree.subtree PatchDefs.put_subtree].
  destruct (nth_error (Tree.n_children n) i) as [c|] eqn:E; [|by intros [? ?]]. intros Hs.
  destruct n as [ty vs vi vd k cs]. cbn [Tree.n_children PatchDefs.set_children] in *.
  rewrite !replace_nth_insert. rewrite nth_error_lookup' in E. rewrite nth_error_lookup'.
  rewrite list_lookup_insert by (by eapply lookup_lt_Some). rewrite !replace_nth_insert, list_insert_insert.
  by rewrite IH.
Qed.

Lemma tid_put_t_sub t pp p d cs cs' : subtree_t t pp = Some (T p d cs) -> tid (put_t t pp (T p d cs')) = tid t.
Proof. destruct pp as [|i pp]; [cbn; by intros [= ->]|intros _; by apply tid_put_t]. Qed.

Lemma set_children_snoc_other G doc v pp p d cs cs' :
  NoDup (ids ((G ++ [doc]) ++ [v])) -> subtree_t doc pp = Some (T p d cs) ->
  set_children p cs' ((G ++ [doc]) ++ [v]) = (G ++ [put_t doc pp (T p d cs')]) ++ [v].
Proof.
  intros ND Hs. pose proof ND as ND0. rewrite ids_app in ND0. apply NoDup_app in ND0 as (ND1 & Hdis & _).
  unfold set_children. rewrite fmap_app. fold (set_children p cs' (G ++ [doc])).
  rewrite (set_children_doc G doc pp p d cs cs' ND1 Hs). f_equal. cbn. f_equal.
  apply set_children_t_notin. intros Hin. apply (Hdis p).
  - apply elem_of_list_fmap. exists (T p d cs). split; [done|]. rewrite nodes_app. apply elem_of_app. right.
    unfold nodes. cbn. rewrite app_nil_r. by eapply subtree_t_nodes.
  - unfold ids, nodes. cbn. by rewrite app_nil_r.
Qed.

(** * the [cleanup:] block *)
Lemma cleanup_none st h : cleanup None None st h = Ret (st, h).
Proof. reflexivity. Qed.

(** entered with a value and the copy of the path *)
Lemma cleanup_value NL0 B hm G' v st :
  Mid NL0 B hm (G' ++ [v]) ->
  exists h', cleanup (Some (tid v)) (Some B) st hm = Ret (st, h') /\ MInv h' G' /\ (NL0 -> NoLeak h' G') /\
    (forall b, b ∈ owned G' -> h_str h' !! b = h_str hm !! b) /\ h_next h' = h_next hm.
Proof.
  intros M. destruct (Mid_delete_last NL0 B hm G' v M) as (h1 & Hdel & M1 & K & HB & En).
  destruct (Mid_free NL0 B h1 G' st M1) as (Hfree & I' & NL' & Es & En').
  exists (free1 B h1). split; [|split; [done|split; [done|split]]].
  - unfold cleanup. cbn [is_null negb when]. stp Hdel. exact Hfree.
  - intros b Hb. rewrite Es. rewrite lookup_delete_ne; [by apply K|]. intros <-. by apply (md_fresh _ _ _ _ M1).
  - by rewrite En', En.
Qed.

(** entered with the copy of the path only *)
Lemma cleanup_temp NL0 B hm F' st :
  Mid NL0 B hm F' ->
  exists h', cleanup None (Some B) st hm = Ret (st, h') /\ MInv h' F' /\ (NL0 -> NoLeak h' F') /\
    (forall b, b <> B -> h_str h' !! b = h_str hm !! b) /\ h_next h' = h_next hm.
Proof.
  intros M. destruct (Mid_free NL0 B hm F' st M) as (Hfree & I' & NL' & Es & En').
  exists (free1 B hm). split; [|split; [done|split; [done|split; [|done]]]].
  - unfold cleanup. cbn [is_null negb when]. rewrite bindM_ret. exact Hfree.
  - intros b Hb. rewrite Es. by rewrite lookup_delete_ne.
Qed.

(** * the tail of [apply_patch_finish] once the parent has been found *)
Definition finish_tail (parent value parent_pointer : ptr) (child_pointer : cstring) (case_sensitive : bool) : M Z :=
  isarr <~ cJSON_IsArray parent ;;
  if isarr then
    cp <~ ld_cs child_pointer ;;
    if strcmp cp PatchDefs.s_dash =? 0 then
      cJSON_AddItemToArray parent value ;;;
      cleanup None parent_pointer 0
    else
      oi <~ decode_array_index_from_pointer child_pointer ;;
      match oi with
      | None => cleanup value parent_pointer 11
      | Some index =>
          ok <~ insert_item_in_array parent index value ;;
          if negb ok then cleanup value parent_pointer 10
          else cleanup None parent_pointer 0
      end
  else
  isobj <~ cJSON_IsObject parent ;;
  if isobj then
    decode_pointer_inplace child_pointer ;;;
    (if case_sensitive then cJSON_DeleteItemFromObjectCaseSensitive_s parent child_pointer
     else cJSON_DeleteItemFromObject_s parent child_pointer) ;;;
    cJSON_AddItemToObject_s nofail parent child_pointer value ;;;
    cleanup None parent_pointer 0
  else cleanup value parent_pointer 9.

(** what the tail has to deliver *)
Definition finish_goal (h : heap) (G : forest) (doc v : tree) (NL0 : Prop) (o : out (Z * heap)) (hm : heap)
    (vres : Base.res (Z * Tree.node)%type) : Prop :=
  match vres with
  | Ok (st, doc') =>
      exists h' docT,
        o = Ret (st, h') /\ MInv h' (G ++ [docT]) /\ tid docT = tid doc /\
        reify (h_str h') docT = doc' /\ KeepO h h' G /\ (NL0 -> NoLeak h' (G ++ [docT])) /\
        (h_next hm <= h_next h')%positive
  | _ => False
  end.

Lemma finish_goal_mono h G doc v NL0 o hm hm' vres :
  (h_next hm' <= h_next hm)%positive -> finish_goal h G doc v NL0 o hm vres -> finish_goal h G doc v NL0 o hm' vres.
Proof.
  intros Hle. destruct vres as [[st doc']| |]; cbn; [|done|done].
  intros (h' & docT & H1 & H2 & H3 & H4 & H5 & H6 & H7). exists h', docT. split_and!; try done. lia.
Qed.

Section Tail.
  Context (h : heap) (G : forest) (doc : tree) (x : positive) (dx : rdata) (csx : list tree)
          (flag : bool) (NL0 : Prop) (B : positive) (hm : heap) (blk : bytes).
  Notation v := (T x dx csx).
  Notation F3 := ((G ++ [doc]) ++ [v]).
  Notation St := (h_str h).
  Hypothesis I : MInv h F3.
  Hypothesis M : Mid NL0 B hm F3.
  Hypothesis Es : h_str hm = <[B := blk]> St.
  Hypothesis HB : St !! B = None.
  Let Im : MInv hm F3 := md_inv _ _ _ _ M.
  Let Wm : WF hm F3 := mi_wf _ _ Im.
  Let ND3 : NoDup (ids F3) := wf_nodup _ _ Wm.

  Lemma tail_ND : NoDup (ids (G ++ [doc])).
  Proof. pose proof ND3 as H. rewrite ids_app in H. by apply NoDup_app in H as (? & _ & _). Qed.
  Lemma tail_xr : x ∉ roots (G ++ [doc]).
  Proof. exact (proj1 (last_root_fresh _ _ _ Wm)). Qed.
  Lemma tail_find_root : find_root x F3 = Some v.
  Proof. exact (find_root_last (G ++ [doc]) v tail_xr). Qed.
  Lemma tail_remove_root : remove_root x F3 = G ++ [doc].
  Proof. exact (CoreRefineReplace.remove_root_snoc (G ++ [doc]) v tail_xr). Qed.

  Lemma tail_reify t : t ∈ nodes F3 -> reify (h_str hm) t = reify St t.
  Proof. intros Ht. rewrite Es. apply (reify_temp St B blk F3 t (mi_own _ _ I) (md_fresh _ _ _ _ M) Ht). Qed.

  Lemma tail_keep b : b ∈ owned F3 -> h_str hm !! b = St !! b.
  Proof. intros Hb. rewrite Es, lookup_insert_ne; [done|]. intros <-. by apply (md_fresh _ _ _ _ M). Qed.

  Lemma owned_G_F3 b : b ∈ owned G -> b ∈ owned F3.
  Proof. intros Hb. rewrite !owned_app. apply elem_of_app. left. apply elem_of_app. by left. Qed.
  Lemma owned_doc_F3 b : b ∈ owned (G ++ [doc]) -> b ∈ owned F3.
  Proof. intros Hb. rewrite owned_app. apply elem_of_app. by left. Qed.

  (** the failing exits: the value is deleted, the document is unchanged *)
  Lemma tail_fail st : finish_goal h G doc v NL0 (cleanup (Some x) (Some B) st hm) hm (Ok (st, reify St doc)).
  Proof.
    destruct (cleanup_value NL0 B hm (G ++ [doc]) v st M) as (h' & Hrun & I' & NL' & K & En).
    exists h', doc. split; [exact Hrun|]. split; [done|]. split; [done|]. split; [|split; [|split; [done|lia]]].
    - apply reify_frame. intros b Hb. assert (Hbo : b ∈ owned (G ++ [doc])).
      { apply (str_blocks_in_owned (G ++ [doc]) doc b (mi_own _ _ I')); [|done]. apply roots_in_nodes. apply elem_of_app. right. by left. }
      rewrite (K b Hbo). apply tail_keep. by apply owned_doc_F3.
    - intros b Hb. assert (Hbo : b ∈ owned (G ++ [doc])) by (rewrite owned_app; apply elem_of_app; by left).
      rewrite (K b Hbo). apply tail_keep. by apply owned_doc_F3.
  Qed.

  (** a successful exit whose steps did not touch any string but the copy *)
  Lemma tail_ok_relinked hk docT doc' :
    Mid NL0 B hk (G ++ [docT]) -> h_str hk = h_str hm -> h_next hk = h_next hm -> tid docT = tid doc ->
    datas (G ++ [docT]) ≡ₚ datas F3 -> reify St docT = doc' ->
    finish_goal h G doc v NL0 (cleanup None (Some B) 0 hk) hm (Ok (0, doc')).
  Proof.
    intros Mk Ek Enk Ht HD Hre.
    destruct (cleanup_temp NL0 B hk (G ++ [docT]) 0 Mk) as (h' & Hrun & I' & NL' & K & En).
    pose proof (owned_of_datas_perm _ _ HD) as HO.
    exists h', docT. split; [exact Hrun|]. split; [done|]. split; [done|]. split; [|split; [|split; [done|lia]]].
    - rewrite <- Hre. apply reify_frame. intros b Hb. assert (Hbo : b ∈ owned (G ++ [docT])).
      { apply (str_blocks_in_owned (G ++ [docT]) docT b (mi_own _ _ I')); [|done]. apply roots_in_nodes. apply elem_of_app. right. by left. }
      assert (HbB : b <> B) by (intros ->; by apply (md_fresh _ _ _ _ Mk)).
      rewrite (K b HbB), Ek. apply tail_keep. by rewrite <- HO.
    - intros b Hb. assert (Hbo : b ∈ owned (G ++ [docT])) by (rewrite owned_app; apply elem_of_app; by left).
      assert (HbB : b <> B) by (intros ->; by apply (md_fresh _ _ _ _ Mk)).
      rewrite (K b HbB), Ek. apply tail_keep. by apply owned_G_F3.
  Qed.

  Context (pp : Tree.path) (p : positive) (d : rdata) (cs : list tree) (c : cstring) (child_raw : bytes).
  Hypothesis Hsub : subtree_t doc pp = Some (T p d cs).
  Hypothesis Hc : CsReads hm c child_raw.
  Hypothesis HcB : exists off, c = CAt B off.

  Lemma tail_pn : T p d cs ∈ nodes F3.
  Proof.
    rewrite nodes_app. apply elem_of_app. left. rewrite nodes_app. apply elem_of_app. right.
    unfold nodes. cbn. rewrite app_nil_r. by eapply subtree_t_nodes.
  Qed.
  Lemma tail_find_p : find_tree p (G ++ [doc]) = Some (T p d cs).
  Proof. exact (find_tree_doc G doc pp _ tail_ND Hsub). Qed.
  Lemma tail_find_p3 : find_tree p F3 = Some (T p d cs).
  Proof. apply find_tree_app_l. exact tail_find_p. Qed.
  Lemma tail_v_node : v ∈ nodes F3.
  Proof. apply roots_in_nodes. apply elem_of_app. right. by left. Qed.

  (** ** the parent is an array *)
  Lemma tail_array :
    Z.land (rd_type d) 255 = c_cJSON_Array ->
    finish_goal h G doc v NL0 (finish_tail (Some p) (Some x) (Some B) c flag hm) hm
      (if strcmp child_raw PatchDefs.s_dash =? 0 then
         Ok (0, PatchDefs.put_subtree (reify St doc) pp (v_add_to_array (reify St (T p d cs)) (reify St v)))
       else
         match PointerDefs.decode_array_index_from_pointer child_raw with
         | None => Ok (11, reify St doc)
         | Some idx =>
             match v_insert_in_array (reify St (T p d cs)) idx (reify St v) with
             | None => Ok (10, reify St doc)
             | Some par' => Ok (0, PatchDefs.put_subtree (reify St doc) pp par')
             end
         end).
  Proof.
    intros Harr. unfold finish_tail, cJSON_IsArray. cbn [is_null].
    assert (Hty : type_is (Some p) c_cJSON_Array hm = Ret (true, hm)).
    { rewrite (run_is_type hm F3 Im p d cs c_cJSON_Array tail_pn). by rewrite Harr, Z.eqb_refl. }
    cbv beta. rewrite (bindM_Ret _ _ _ _ _ Hty). cbv iota. rewrite (bindM_Ret _ _ _ _ _ (run_ld_cs _ _ _ Hc)).
    destruct (strcmp child_raw PatchDefs.s_dash =? 0).
    - (* "-": append *)
      destruct (Mid_add_to_array NL0 B hm F3 M p x v d cs tail_find_root ltac:(rewrite tail_remove_root; exact tail_find_p))
        as (hk & Hrun & Mk & Ek & Enk).
      rewrite tail_remove_root, (set_children_doc G doc pp p d cs _ tail_ND Hsub) in Mk.
      unfold cJSON_AddItemToArray. rewrite (bindM_Ret _ _ _ _ _ Hrun).
      apply (tail_ok_relinked hk (put_t doc pp (T p d (cs ++ [v])))); [done|done|done| | |].
      + by eapply tid_put_t_sub.
      + assert (HD : datas (set_children p (cs ++ [v]) (remove_root x F3)) ≡ₚ datas F3).
        { apply (datas_move_root F3 x v p d cs); [exact ND3|exact tail_find_root|rewrite tail_remove_root; exact tail_find_p|].
          symmetry. apply Permutation_cons_append. }
        rewrite tail_remove_root, (set_children_doc G doc pp p d cs _ tail_ND Hsub) in HD. exact HD.
      + rewrite <- reify_put. f_equal. unfold v_add_to_array. rewrite reify_children. cbn [tchildren].
        rewrite <- (reify_set_children St p d cs (cs ++ [v])). f_equal. by rewrite map_app.
    - unfold decode_array_index_from_pointer. rewrite !bindM_assoc. rewrite (bindM_Ret _ _ _ _ _ (run_ld_cs _ _ _ Hc)). rewrite bindM_ret.
      destruct (PointerDefs.decode_array_index_from_pointer child_raw) as [idx|] eqn:Eidx; [|apply tail_fail].
      pose proof (decode_index_nonneg _ _ Eidx) as Hidx.
      pose proof (Mid_insert NL0 B hm F3 M p x v d cs idx tail_find_root ltac:(rewrite tail_remove_root; exact tail_find_p) Hidx) as Hins.
      unfold v_insert_in_array. rewrite reify_children. cbn [tchildren]. rewrite map_length.
      destruct (idx >? Z.of_nat (length cs)) eqn:Egt.
      + rewrite (bindM_Ret _ _ _ _ _ Hins). cbn [negb]. apply tail_fail.
      + destruct Hins as (hk & Hrun & Mk & Ek & Enk).
        rewrite tail_remove_root, (set_children_doc G doc pp p d cs _ tail_ND Hsub) in Mk.
        rewrite (bindM_Ret _ _ _ _ _ Hrun). cbn [negb].
        apply (tail_ok_relinked hk (put_t doc pp (T p d (insert_at (Z.to_nat idx) v cs)))); [done|done|done| | |].
        * by eapply tid_put_t_sub.
        * assert (HD : datas (set_children p (insert_at (Z.to_nat idx) v cs) (remove_root x F3)) ≡ₚ datas F3).
          { apply (datas_move_root F3 x v p d cs); [exact ND3|exact tail_find_root|rewrite tail_remove_root; exact tail_find_p|].
            unfold insert_at. rewrite <- (take_drop (Z.to_nat idx) cs) at 3. by rewrite Permutation_middle. }
          rewrite tail_remove_root, (set_children_doc G doc pp p d cs _ tail_ND Hsub) in HD. exact HD.
        * rewrite <- reify_put. f_equal. rewrite Z.gtb_ltb in Egt. apply Z.ltb_ge in Egt.
          rewrite insert_nth_insert_at by (rewrite map_length; lia).
          rewrite <- (reify_set_children St p d cs (insert_at (Z.to_nat idx) v cs)). f_equal.
          unfold insert_at. by rewrite map_app, map_cons, !map_fmap, fmap_take, fmap_drop.
  Qed.

  (** ** the parent is an object *)
  Lemma owned_app3 b : b ∈ owned F3 <-> (b ∈ owned G \/ b ∈ owned [doc]) \/ b ∈ owned [v].
  Proof. by rewrite !owned_app, !elem_of_app. Qed.

  Lemma tail_object (off : nat) :
    c = CAt B off -> (off <= length blk)%nat -> drop off blk = child_raw ++ [0] ->
    (Z.land (rd_type d) 255 =? c_cJSON_Array) = false -> (Z.land (rd_type d) 255 =? c_cJSON_Object) = true ->
    finish_goal h G doc v NL0 (finish_tail (Some p) (Some x) (Some B) c flag hm) hm
      (buf <- PatchDefs.decode_pointer_inplace (child_raw ++ [0]) ;;
       Ok (0, PatchDefs.put_subtree (reify St doc) pp
                (v_add_to_object (v_delete_from_object (reify St (T p d cs)) (cstr buf) flag) (cstr buf) (reify St v)))).
  Proof.
    intros Ec Hoff Hdrop Harr Hobj. unfold finish_tail, cJSON_IsArray, cJSON_IsObject. cbn [is_null].
    rewrite (bindM_Ret _ _ _ _ _ (run_is_type hm F3 Im p d cs c_cJSON_Array tail_pn)). rewrite Harr.
    rewrite (bindM_Ret _ _ _ _ _ (run_is_type hm F3 Im p d cs c_cJSON_Object tail_pn)). rewrite Hobj.
    destruct (decode_pointer_inplace_terminated child_raw) as (buf & Hdpi & Hlen & Hbz). rewrite Hdpi. cbn [bind].
    assert (HsB : h_str hm !! B = Some blk) by (rewrite Es; apply lookup_insert).
    (* decode in place *)
    set (blk3 := take off blk ++ buf).
    assert (Hdec : decode_pointer_inplace c hm = Ret (tt, set_str hm (<[B := blk3]> (h_str hm)))).
    { rewrite Ec. unfold decode_pointer_inplace. stp (run_ld_str hm B blk (md_live _ _ _ _ M) HsB). rewrite Hdrop, Hdpi. fold blk3.
      apply (run_st_str hm B blk); [exact (md_live _ _ _ _ M)|exact HsB|exact (md_own _ _ _ _ M)|].
      unfold blk3. rewrite app_length, Hlen, <- Hdrop, <- app_length. by rewrite take_drop. }
    set (h3 := set_str hm (<[B := blk3]> (h_str hm))) in *.
    pose proof (Mid_write NL0 B hm F3 blk3 M) as M3. fold h3 in M3.
    assert (E3 : h_str h3 = <[B := blk3]> St) by (unfold h3; cbn [h_str set_str]; by rewrite Es, insert_insert).
    set (nm := cstr buf).
    assert (R3 : CsReads h3 c nm).
    { rewrite Ec. unfold CsReads. split; [exact (md_live _ _ _ _ M3)|]. exists blk3. rewrite E3, lookup_insert. split; [done|].
      assert (Ed : drop off blk3 = buf).
      { unfold blk3. rewrite drop_app_ge by (rewrite take_length; lia). rewrite take_length.
        replace (off - off `min` length blk)%nat with 0%nat by lia. done. }
      by rewrite Ed. }
    pose proof (CsReads_zfree _ _ _ R3) as Hznm.
    rewrite (bindM_Ret _ _ _ _ _ Hdec).
    pose proof (md_inv _ _ _ _ M3) as I3.
    assert (Hre3 : forall t, t ∈ nodes F3 -> reify (h_str h3) t = reify St t).
    { intros t Ht. rewrite E3. apply (reify_temp St B blk3 F3 t (mi_own _ _ I) (md_fresh _ _ _ _ M3) Ht). }
    (* delete the member of that name *)
    assert (Hdel_is : (if flag then cJSON_DeleteItemFromObjectCaseSensitive_s (Some p) c else cJSON_DeleteItemFromObject_s (Some p) c) =
      (it <~ (to_detach <~ get_object_item_s (Some p) c flag ;; cJSON_DetachItemViaPointer (Some p) to_detach) ;; cJSON_Delete it))
      by (by destruct flag).
    rewrite Hdel_is.
    destruct (Mid_delete_key NL0 B h3 F3 M3 p d cs c nm flag tail_find_p3 R3) as (h4 & Hdel & M4 & K4 & HB4 & En4).
    set (cs1 := match found_member (h_str h3) flag nm cs with Some (j, _) => delete j cs | None => cs end).
    set (doc1 := put_t doc pp (T p d cs1)).
    assert (EF4 : match found_member (h_str h3) flag nm cs with Some (j, _) => set_children p (delete j cs) F3 | None => F3 end =
                  (G ++ [doc1]) ++ [v]).
    { unfold doc1, cs1. destruct (found_member (h_str h3) flag nm cs) as [[j m]|].
      - exact (set_children_snoc_other G doc v pp p d cs _ ND3 Hsub).
      - by rewrite (put_t_id doc pp _ Hsub). }
    rewrite EF4 in M4, K4. set (F4 := (G ++ [doc1]) ++ [v]) in *.
    rewrite (bindM_Ret _ _ _ _ _ Hdel).
    pose proof (md_inv _ _ _ _ M4) as I4. pose proof (mi_wf _ _ I4) as W4. pose proof (wf_nodup _ _ W4) as ND4.
    assert (R4 : CsReads h4 c nm).
    { apply (CsReads_transfer h3 h4 c nm R3). intros b off' Eb. rewrite Ec in Eb. injection Eb as <- _.
      split; [exact HB4|exact (md_live _ _ _ _ M4)]. }
    (* add the value under that name *)
    assert (ND41 : NoDup (ids (G ++ [doc1]))) by (unfold F4 in ND4; rewrite ids_app in ND4; by apply NoDup_app in ND4 as (? & _ & _)).
    assert (Hxr4 : x ∉ roots (G ++ [doc1])) by (exact (proj1 (last_root_fresh _ _ _ W4))).
    assert (Hfr4 : find_root x F4 = Some (T x dx csx)) by (exact (find_root_last (G ++ [doc1]) (T x dx csx) Hxr4)).
    assert (Hrr4 : remove_root x F4 = G ++ [doc1]) by (exact (CoreRefineReplace.remove_root_snoc (G ++ [doc1]) (T x dx csx) Hxr4)).
    assert (Hsub1 : subtree_t doc1 pp = Some (T p d cs1)) by (exact (subtree_t_put doc pp _ _ Hsub)).
    assert (Hp4 : find_tree p (remove_root x F4) = Some (T p d cs1)).
    { rewrite Hrr4. exact (find_tree_doc G doc1 pp _ ND41 Hsub1). }
    destruct (Mid_add_to_object NL0 B h4 F4 M4 p x d dx cs1 csx c nm Hfr4 Hp4 R4) as (h5 & Hadd & M5 & Hsame5 & Hnk5 & HB5 & En5).
    set (nk := h_next h4) in *. set (d' := rd_owned_key dx nk) in *.
    rewrite Hrr4, (set_children_doc G doc1 pp p d cs1 _ ND41 Hsub1) in M5.
    unfold doc1 in M5. rewrite (put_t_put doc pp _ _ _ Hsub) in M5. fold doc1 in M5.
    set (docT := put_t doc pp (T p d (cs1 ++ [T x d' csx]))) in *.
    rewrite (bindM_Ret _ _ _ _ _ Hadd).
    destruct (cleanup_temp NL0 B h5 (G ++ [docT]) 0 M5) as (h6 & Hcl & I6 & NL6 & K6 & En6).
    exists h6, docT. split; [exact Hcl|]. split; [exact I6|]. split; [by eapply tid_put_t_sub|].
    (* which blocks kept their contents *)
    assert (HB4o : B ∉ owned F4) by (exact (md_fresh _ _ _ _ M4)).
    assert (Hkeep : forall b, b ∈ owned F4 -> b ∉ old_key dx -> h_str h6 !! b = St !! b).
    { intros b Hb Hnk. assert (HbB : b <> B) by (intros ->; by apply HB4o).
      rewrite (K6 b HbB), (Hsame5 b Hb Hnk), (K4 b Hb), E3. by rewrite lookup_insert_ne. }
    assert (Hok_dx : old_key dx ⊆ owned [T x dx csx]).
    { intros b Hb. rewrite owned_singleton, flat_t_unfold, owned_fl_cons. apply elem_of_app. left. right.
      rewrite owned_strs_split. apply elem_of_app. by right. }
    assert (Hdisj : forall b, b ∈ owned (G ++ [doc1]) -> b ∈ owned F4 /\ b ∉ old_key dx).
    { intros b Hb. split; [unfold F4; rewrite owned_app; apply elem_of_app; by left|].
      intros Hin. apply (owned_disjoint_last h4 (G ++ [doc1]) (T x dx csx) b W4 Hb). by apply Hok_dx. }
    assert (Hown41 : forall e, e ∈ datas (G ++ [doc1]) -> node_owns e.2).
    { intros e He. apply (mi_own _ _ I4). unfold F4. apply datas_elem_app. by left. }
    assert (Hdoc1n : doc1 ∈ nodes (G ++ [doc1])) by (apply roots_in_nodes; apply elem_of_app; right; by left).
    assert (Hpn1 : T p d cs1 ∈ nodes (G ++ [doc1])).
    { rewrite nodes_app. apply elem_of_app. right. unfold nodes. cbn. rewrite app_nil_r. by eapply subtree_t_nodes. }
    assert (Hkeep1 : forall t, t ∈ nodes (G ++ [doc1]) -> reify (h_str h6) t = reify St t).
    { intros t Ht. apply reify_frame. intros b Hb.
      destruct (Hdisj b (str_blocks_in_owned (G ++ [doc1]) t b Hown41 Ht Hb)) as [H1 H2]. by apply Hkeep. }
    assert (Hnk6 : h_str h6 !! nk = Some (nm ++ [0])).
    { rewrite K6; [exact Hnk5|]. intros E. pose proof (hk_live _ (mi_ok _ _ I4) _ (md_live _ _ _ _ M4)) as Hlt. unfold nk in E. rewrite <- E in Hlt. lia. }
    split; [|split; [|split; [exact NL6|]]].
    - (* the document *)
      assert (EdT : docT = put_t doc1 pp (T p d (cs1 ++ [T x d' csx]))) by (unfold docT, doc1; by rewrite (put_t_put doc pp _ _ _ Hsub)).
      rewrite EdT, <- reify_put, (Hkeep1 doc1 Hdoc1n). unfold doc1 at 1. rewrite <- reify_put.
      rewrite put_subtree_put by (rewrite reify_subtree, Hsub; by eexists). f_equal.
      (* the object with the new member *)
      unfold v_add_to_object, v_delete_from_object, v_delete_members.
      rewrite <- (Hre3 _ tail_pn). rewrite (get_object_item_found (h_str h3) p d cs nm flag Hznm). rewrite (Hre3 _ tail_pn).
      assert (Emem : match (fun kc : nat * tree => (kc.1, reify (h_str h3) kc.2)) <$> found_member (h_str h3) flag nm cs with
                     | Some (j, _) => PatchDefs.remove_nth j (Tree.n_children (reify St (T p d cs)))
                     | None => Tree.n_children (reify St (T p d cs))
                     end = map (reify St) cs1).
      { unfold cs1. rewrite reify_children. cbn [tchildren]. destruct (found_member (h_str h3) flag nm cs) as [[j m]|]; cbn [fmap option_fmap option_map fst]; [|done].
        by rewrite remove_nth_delete, TierBridgeLemmas.map_delete. }
      rewrite Emem. rewrite (reify_set_children St p d cs cs1), reify_children. cbn [tchildren].
      rewrite (reify_unfold (h_str h6)), (reify_unfold St p d cs1). cbn [PatchDefs.set_children].
      pose proof (Hkeep1 _ Hpn1) as Ep. rewrite !reify_unfold in Ep. injection Ep as Ep1 Ep2 Ep3.
      rewrite Ep1, Ep2. f_equal. rewrite map_app. cbn [map]. rewrite Ep3. f_equal. f_equal.
      destruct (reify_owned_key (h_str h6) x dx csx nk (nm ++ [0]) Hnk6) as [K1 _]. fold d' in K1. rewrite K1.
      rewrite (cstr_app_zfree nm [] Hznm).
      apply keyed_frame. intros b Hb.
      assert (Hvn : T x dx csx ∈ nodes F4) by (apply roots_in_nodes; apply elem_of_app; right; by left).
      assert (Hdx4 : (x, dx) ∈ datas F4) by (exact (datas_of_node F4 _ Hvn)).
      destruct (mi_own _ _ I4 _ Hdx4) as [Hrefx _]. cbn [snd] in Hrefx.
      assert (Hocs : Forall owns_strings csx).
      { apply Forall_forall. intros ch Hch. apply (owns_strings_of_datas F4 ch (mi_own _ _ I4)).
        eapply TierBridgeForest.child_in_nodes; [exact Hvn|exact Hch]. }
      assert (Hpn4 : T p d cs1 ∈ nodes F4) by (unfold F4; rewrite nodes_app; apply elem_of_app; by left).
      destruct (add_hypothesis_of_owned h4 F4 p x d dx cs1 csx W4 Hfr4 Hp4 (owns_strings_of_datas F4 _ (mi_own _ _ I4) Hpn4) Hrefx Hocs b
                  ltac:(apply elem_of_app; by right)) as [_ Hnot].
      apply Hkeep; [|done]. apply (str_blocks_in_owned F4 (T x dx csx) b (mi_own _ _ I4) Hvn). cbn [str_blocks].
      apply elem_of_app in Hb as [Hb|Hb]; apply elem_of_app; [by left|right]. apply elem_of_app. by right.
    - (* the rest of the forest *)
      intros b Hb. assert (Hbo : b ∈ owned (G ++ [doc1])) by (rewrite owned_app; apply elem_of_app; by left).
      destruct (Hdisj b Hbo) as [H1 H2]. by apply Hkeep.
    - rewrite En6, En5, En4. cbn. lia.
  Qed.
End Tail.

(** * the whole of [apply_patch_finish] *)
Lemma finish_unfold_tail (parent value parent_pointer : ptr) (child_pointer : cstring) (flag : bool) :
  (isarr <~ cJSON_IsArray parent ;;
   if isarr then
     cp <~ ld_cs child_pointer ;;
     if strcmp cp PatchDefs.s_dash =? 0 then
       cJSON_AddItemToArray parent value ;;; cleanup None parent_pointer 0
     else
       oi <~ decode_array_index_from_pointer child_pointer ;;
       match oi with
       | None => cleanup value parent_pointer 11
       | Some index =>
           ok <~ insert_item_in_array parent index value ;;
           if negb ok then cleanup value parent_pointer 10 else cleanup None parent_pointer 0
       end
   else
   isobj <~ cJSON_IsObject parent ;;
   if isobj then
     decode_pointer_inplace child_pointer ;;;
     (if flag then cJSON_DeleteItemFromObjectCaseSensitive_s parent child_pointer
      else cJSON_DeleteItemFromObject_s parent child_pointer) ;;;
     cJSON_AddItemToObject_s nofail parent child_pointer value ;;;
     cleanup None parent_pointer 0
   else cleanup value parent_pointer 9) = finish_tail parent value parent_pointer child_pointer flag.
Proof. reflexivity. Qed.

Theorem finish_refines h G doc x dx csx pn dpn cpn pb (sp : bytes) flag :
  MInv h ((G ++ [doc]) ++ [T x dx csx]) ->
  T pn dpn cpn ∈ nodes G -> rd_vstr dpn = Some pb ->
  pb ∈ h_live h -> h_str h !! pb = Some sp -> existsb (Z.eqb 0) sp = true ->
  finish_goal h G doc (T x dx csx) (NoLeak h ((G ++ [doc]) ++ [T x dx csx]))
    (apply_patch_finish nofail (Some (tid doc)) (Some pn) (Some x) flag h) h
    (PatchDefs.finish_add (reify (h_str h) doc) (reify (h_str h) (T x dx csx)) (cstr sp) flag).
Proof.
  intros I Hpn Hvs Hpl Hps Hpz. set (F3 := (G ++ [doc]) ++ [T x dx csx]) in *. set (St := h_str h) in *.
  pose proof (SortSpec.cstr_zfree sp) as Hzp.
  assert (Hpn3 : T pn dpn cpn ∈ nodes F3).
  { unfold F3. rewrite !nodes_app. apply elem_of_app. left. apply elem_of_app. by left. }
  destruct (node_vstr h F3 I pn dpn cpn Hpn3) as (Hgv & _ & _). rewrite Hvs in Hgv.
  pose proof (CsReads_block h pb sp Hpl Hps Hpz) as Rp.
  unfold apply_patch_finish. stp Hgv. cbn [cs_of_ptr]. stp (run_ld_byte0 _ _ _ Rp).
  rewrite finish_add_uses.
  assert (Hdup : cJSONUtils_strdup nofail (Some pb) h = Ret (Some (h_next h), alloc_str h (cstr sp ++ [0]))).
  { change (cJSONUtils_strdup nofail (Some pb) h) with (cJSON_strdup nofail (Some pb) h).
    apply (CoreRefineAddObject.cJSON_strdup_ok nofail h pb sp); [split; [done|by exists sp]|done|done]. }
  destruct (cstr sp) as [|c0 rest] eqn:Epath; cbn [hd].
  { (* the root *)
    cbn [Z.eqb]. destruct doc as [r dr csr]. cbn [tid].
    destruct (root_overwrite_step h G r dr csr x dx csx I) as (h' & Hrun & I' & NL' & K & En & Hre).
    stp Hrun. rewrite cleanup_none. exists h', (T r (rd_unnamed dx) csx).
    split; [done|]. split; [done|]. split; [done|]. split; [done|]. split; [done|]. split; [done|lia]. }
  pose proof (Forall_inv Hzp) as Hc0. destruct (Z.eqb_spec c0 0) as [|_]; [done|].
  cbv iota. set (path := c0 :: rest) in *. clear Epath. clearbody path.
  (* the copy of the path *)
  stp Hgv.
  set (B := h_next h) in *. set (h1 := alloc_str h (path ++ [0])) in *.
  pose proof (Mid_alloc h F3 (path ++ [0]) I) as M1. fold B h1 in M1. set (NL0 := NoLeak h F3) in *.
  assert (HBf : St !! B = None) by (exact (proj1 (proj2 (MInv_fresh_block _ _ I)))).
  assert (E1 : h_str h1 = <[B := path ++ [0]]> St) by done.
  assert (HB1 : h_str h1 !! B = Some (path ++ [0])) by (rewrite E1; apply lookup_insert).
  assert (R1 : CsReads h1 (CAt B 0) path).
  { unfold CsReads. split; [exact (md_live _ _ _ _ M1)|]. exists (path ++ [0]). rewrite E1, lookup_insert, drop_0. split; [done|].
    split; [apply existsb_zero_app_zero|]. symmetry. by apply cstr_app_zfree. }
  stp Hdup. cbn [is_null negb cs_of_ptr]. unfold strrchr_slash. stp (run_ld_cs _ _ _ R1). rewrite bindM_ret.
  assert (Hdoc3 : doc ∈ nodes F3).
  { apply roots_in_nodes. unfold F3. apply elem_of_app. left. apply elem_of_app. right. by left. }
  destruct (PatchDefs.last_slash path 0 None) as [i|] eqn:Els.
  2:{ (* no '/': child_pointer is NULL *)
    rewrite bindM_ret.
    stp (get_item_from_pointer_refines h1 F3 (md_inv _ _ _ _ M1) doc (CAt B 0) path flag Hdoc3 R1).
    cbn [cs_is_null]. rewrite orb_true_r.
    apply (finish_goal_mono _ _ _ _ _ _ h1); [unfold h1; cbn; lia|]. eapply tail_fail; [exact M1|exact E1]. }
  pose proof (last_slash_bound _ _ Els) as Hi.
  set (blk2 := take i path ++ 0 :: drop (S i) path ++ [0]).
  assert (Hst : st_byte (CAt B 0) i 0 h1 = Ret (tt, set_str h1 (<[B := blk2]> (h_str h1)))).
  { unfold st_byte. stp (run_ld_str h1 B (path ++ [0]) (md_live _ _ _ _ M1) HB1).
    cbn [Nat.add]. rewrite app_length. cbn [length]. destruct (Nat.ltb_spec i (length path + 1)) as [_|]; [|lia].
    rewrite (upd_split path i Hi). fold blk2.
    apply (run_st_str h1 B (path ++ [0])); [exact (md_live _ _ _ _ M1)|exact HB1|exact (md_own _ _ _ _ M1)|].
    unfold blk2. rewrite !app_length. cbn [length]. rewrite app_length, take_length, drop_length. cbn. lia. }
  set (h2 := set_str h1 (<[B := blk2]> (h_str h1))) in *.
  pose proof (Mid_write NL0 B h1 F3 blk2 M1) as M2. fold h2 in M2.
  assert (E2 : h_str h2 = <[B := blk2]> St) by (unfold h2; cbn [h_str set_str]; by rewrite E1, insert_insert).
  assert (R2 : CsReads h2 (CAt B 0) (take i path)).
  { unfold CsReads. split; [exact (md_live _ _ _ _ M2)|]. exists blk2. rewrite E2, lookup_insert, drop_0. split; [done|].
    split; [apply existsb_zero_app_zero|]. symmetry. apply cstr_app_zfree. by apply zfree_take. }
  assert (R2c : CsReads h2 (CAt B (S i)) (drop (S i) path)).
  { unfold CsReads. split; [exact (md_live _ _ _ _ M2)|]. exists blk2. rewrite E2, lookup_insert. split; [done|]. unfold blk2. rewrite (drop_split_tail path i Hi).
    split; [apply existsb_zero_app_zero|]. symmetry. apply (cstr_app_zfree _ []). by apply zfree_drop. }
  rewrite !bindM_assoc. stp Hst. rewrite bindM_ret. cbn [cs_plus Nat.add].
  pose proof (md_inv _ _ _ _ M2) as I2.
  assert (Hre2 : forall t, t ∈ nodes F3 -> reify (h_str h2) t = reify St t).
  { intros t Ht. rewrite E2. apply (reify_temp St B blk2 F3 t (mi_own _ _ I) (md_fresh _ _ _ _ M2) Ht). }
  stp (get_item_from_pointer_refines h2 F3 I2 doc (CAt B 0) (take i path) flag Hdoc3 R2).
  rewrite (Hre2 doc Hdoc3). change (firstn i path) with (take i path). change (skipn (S i) path) with (drop (S i) path).
  destruct (PointerDefs.get_item_from_pointer (reify St doc) (take i path) flag) as [pp|] eqn:Egip; cbn [mbind option_bind].
  2:{ cbn [fmap option_fmap option_map is_null orb].
      apply (finish_goal_mono _ _ _ _ _ _ h2); [unfold h2, h1; cbn; lia|]. eapply tail_fail; [exact M2|exact E2]. }
  assert (Egip2 : PointerDefs.get_item_from_pointer (reify (h_str h2) doc) (take i path) flag = Some pp) by (by rewrite Hre2 by apply Hdoc3).
  destruct (get_item_loop_subtree h2 flag _ _ _ _ Egip2) as [[p d cs] Hsub]. rewrite Hsub. cbn [fmap option_fmap option_map tid is_null cs_is_null orb].
  rewrite reify_subtree, Hsub. cbn [fmap option_fmap option_map].
  rewrite finish_unfold_tail.
  unfold Tree.is_array, Tree.is_object, Tree.is_type, Tree.tymask. change (Tree.n_ty (reify St (T p d cs))) with (rd_type d).
  destruct (Z.land (rd_type d) 255 =? c_cJSON_Array) eqn:Earr.
  - apply Z.eqb_eq in Earr.
    apply (finish_goal_mono _ _ _ _ _ _ h2); [unfold h2, h1; cbn; lia|]. eapply tail_array; [exact M2|exact E2|exact Hsub|exact R2c|exact Earr].
  - destruct (Z.land (rd_type d) 255 =? c_cJSON_Object) eqn:Eobj.
    + apply (finish_goal_mono _ _ _ _ _ _ h2); [unfold h2, h1; cbn; lia|]. eapply (tail_object) with (off := S i) (blk := blk2); [exact I|exact M2|exact E2|exact Hsub|reflexivity| | |exact Earr|exact Eobj].
      * unfold blk2. rewrite app_length, take_length. cbn. lia.
      * unfold blk2. apply (drop_split_tail path i Hi).
    + (* neither *)
      assert (Hpn' : T p d cs ∈ nodes F3).
      { unfold F3. rewrite nodes_app. apply elem_of_app. left. rewrite nodes_app. apply elem_of_app. right.
        unfold nodes. cbn. rewrite app_nil_r. by eapply subtree_t_nodes. }
      unfold finish_tail, cJSON_IsArray, cJSON_IsObject. cbn [is_null].
      rewrite (bindM_Ret _ _ _ _ _ (run_is_type h2 F3 I2 p d cs c_cJSON_Array Hpn')). rewrite Earr.
      rewrite (bindM_Ret _ _ _ _ _ (run_is_type h2 F3 I2 p d cs c_cJSON_Object Hpn')). rewrite Eobj.
      apply (finish_goal_mono _ _ _ _ _ _ h2); [unfold h2, h1; cbn; lia|]. eapply tail_fail; [exact M2|exact E2].
Qed.
