(** ParseCompleteEntry.v — C02 at the four parse entry points of the buffer-level model
    (ParseDefs.v): composition of the list-level completeness theorems (ParseComplete.v) with
    the refinement theorem [parse_refines_spec] (ParseRefine.v: the transliterated parser
    computes exactly [text_l] on the declared bytes) and with [parse_string_safe]
    (ParseSafe.v: the string variants are the length variants at strlen + 1).
    [beyond] is whatever the memory contains after the declared bytes: it is never looked at. *)
From CJ Require Import Base Dbl Tree LibcNum ParseDefs ParseSpec Grammar ParseSafe ParseRefine ParseComplete.
Local Open Scope Z_scope.

(** * An RFC 8259 text contains no zero byte *)
Definition nzb (l : bytes) : Prop := Forall (fun c => c <> 0) l.

Lemma ws_nzb w : ws rfc_ws w -> nzb w.
Proof.
  induction w as [|c w IH]; intros H; [constructor|].
  apply ws_cons in H as [Hc Hw]. apply rfc_ws_cases in Hc. constructor; [lia|exact (IH Hw)].
Qed.

Lemma number_bytes_nzb t : forallb number_byte t = true -> nzb t.
Proof.
  induction t as [|c t IH]; intros H; [constructor|].
  cbn [forallb] in H. apply andb_true_iff in H as [Hc Ht]. apply number_byte_iff in Hc.
  constructor; [lia|exact (IH Ht)].
Qed.

Lemma hexv_nz c x : hexv c = Some x -> c <> 0.
Proof. intros H E. subst c. discriminate H. Qed.

Lemma hex4v_nz a b c d u : hex4v a b c d = Some u -> a <> 0 /\ b <> 0 /\ c <> 0 /\ d <> 0.
Proof.
  unfold hex4v.
  destruct (hexv a) eqn:Ea; [|discriminate].
  destruct (hexv b) eqn:Eb; [|discriminate].
  destruct (hexv c) eqn:Ec; [|discriminate].
  destruct (hexv d) eqn:Ed; [|discriminate].
  intros _. repeat split; eapply hexv_nz; eassumption.
Qed.

Lemma simple_escape_nz e v : simple_escape e = Some v -> e <> 0.
Proof. intros H E. subst e. discriminate H. Qed.

Lemma chars_nzb b s : chars rfc_raw b s -> nzb b.
Proof.
  induction 1 as [|c b s Hq Hb Hraw Hch IH|e v b s He Hch IH
                  |h1 h2 h3 h4 u b s Hh Hhi Hlo Hch IH
                  |h1 h2 h3 h4 l1 l2 l3 l4 hi lo b s Hh Hhi Hl Hlo Hch IH].
  - constructor.
  - unfold rfc_raw in Hraw. apply Z.leb_le in Hraw. constructor; [lia|exact IH].
  - apply simple_escape_nz in He. repeat (constructor; [lia|]). exact IH.
  - apply hex4v_nz in Hh as [A [B [C D]]]. repeat (constructor; [lia|]). exact IH.
  - apply hex4v_nz in Hh as [A [B [C D]]]. apply hex4v_nz in Hl as [A' [B' [C' D']]].
    repeat (constructor; [lia|]). exact IH.
Qed.

Ltac nzb_tac :=
  repeat first
    [ assumption
    | apply Forall_nil
    | apply Forall_app; split
    | apply Forall_cons; [lia|]
    | apply ws_nzb; assumption
    | eapply chars_nzb; eassumption ].

Lemma grammar_nzb :
  (forall d t v, RFC_value d t v -> nzb t) /\
  (forall d b l, elements rfc_ws rfc_raw rfc_num_tok d b l -> nzb b) /\
  (forall d b m, members rfc_ws rfc_raw rfc_num_tok d b m -> nzb b).
Proof.
  apply (grammar_mutind rfc_ws rfc_raw rfc_num_tok
           (fun d t v _ => nzb t) (fun d b l _ => nzb b) (fun d b m _ => nzb b));
    unfold nzb; intros; nzb_tac.
  apply number_bytes_nzb. apply rfc_number_nb. assumption.
Qed.

Lemma rfc_text_nzb txt v : RFC_text txt v -> nzb txt.
Proof.
  intros [bom [w1 [t [w2 [E [Hbom [Hw1 [Hw2 Hv]]]]]]]]. subst txt.
  pose proof (proj1 grammar_nzb _ t v Hv) as Ht.
  unfold nzb in *. destruct Hbom as [-> | ->]; nzb_tac.
Qed.

(** * The entry points *)
Lemma firstn_app_exact {A} (a b : list A) : firstn (length a) (a ++ b) = a.
Proof. induction a as [|x a IH]; [reflexivity|]. cbn [length app firstn]. rewrite IH. reflexivity. Qed.

Section Entry.
  Variable strtod : bytes -> option (dbl * nat).
  Hypothesis Hok : strtod_ok strtod.
  Hypothesis Hrfc : strtod_rfc strtod.
  Variables (txt : bytes) (v : jv).
  Hypothesis Htxt : RFC_text txt v.
  Hypothesis Hv : jv_ok v.

  (** cJSON_ParseWithLength / cJSON_ParseWithLengthOpts(rnt = 0) on exactly the text *)
  Theorem entry_length_exact beyond :
    exists r, cJSON_ParseWithLengthOpts strtod never_fails (txt ++ beyond) (length txt) false = Ok r /\
              pr_tree r = Some (tree_of strtod v) /\
              exists pre w2, txt = pre ++ w2 /\ ws rfc_ws w2 /\ pr_end r = Some (length pre).
  Proof.
    destruct (parse_refines_spec strtod (txt ++ beyond) (length txt) false Hok) as [r [E H]].
    { rewrite app_length. lia. }
    rewrite firstn_app_exact in H.
    destruct (complete_text_exact strtod txt v Hrfc Htxt Hv) as [pre [w2 [E2 [Hw2 H2]]]].
    rewrite H2 in H. destruct H as [Ht He].
    exists r. split; [exact E|]. split; [exact Ht|]. exists pre, w2. split; [exact E2|]. split; [exact Hw2|].
    rewrite He. f_equal. rewrite E2 at 1. rewrite app_length. lia.
  Qed.

  (** cJSON_ParseWithLengthOpts on the text and its terminating zero, termination required *)
  Theorem entry_length_zero_rnt beyond :
    exists r, cJSON_ParseWithLengthOpts strtod never_fails (txt ++ 0 :: beyond) (length txt + 1) true = Ok r /\
              pr_tree r = Some (tree_of strtod v) /\ pr_end r = Some (length txt).
  Proof.
    destruct (parse_refines_spec strtod (txt ++ 0 :: beyond) (length txt + 1) true Hok) as [r [E H]].
    { rewrite app_length. cbn [length]. lia. }
    change (txt ++ 0 :: beyond) with (txt ++ [0] ++ beyond) in H. rewrite app_assoc in H.
    replace (length txt + 1)%nat with (length (txt ++ [0])) in H by (rewrite app_length; reflexivity).
    rewrite firstn_app_exact in H.
    rewrite (complete_text_zero_rnt strtod txt v [] Hrfc Htxt Hv) in H. destruct H as [Ht He].
    exists r. split; [exact E|]. split; [exact Ht|].
    rewrite He. f_equal. rewrite app_length. cbn [length]. lia.
  Qed.

  (** ... termination not required *)
  Theorem entry_length_zero beyond :
    exists r, cJSON_ParseWithLengthOpts strtod never_fails (txt ++ 0 :: beyond) (length txt + 1) false = Ok r /\
              pr_tree r = Some (tree_of strtod v) /\
              exists pre w2, txt = pre ++ w2 /\ ws rfc_ws w2 /\ pr_end r = Some (length pre).
  Proof.
    destruct (parse_refines_spec strtod (txt ++ 0 :: beyond) (length txt + 1) false Hok) as [r [E H]].
    { rewrite app_length. cbn [length]. lia. }
    change (txt ++ 0 :: beyond) with (txt ++ [0] ++ beyond) in H. rewrite app_assoc in H.
    replace (length txt + 1)%nat with (length (txt ++ [0])) in H by (rewrite app_length; reflexivity).
    rewrite firstn_app_exact in H.
    destruct (complete_text_zero strtod txt v [] Hrfc Htxt Hv) as [pre [w2 [E2 [Hw2 H2]]]].
    rewrite H2 in H. destruct H as [Ht He].
    exists r. split; [exact E|]. split; [exact Ht|]. exists pre, w2. split; [exact E2|]. split; [exact Hw2|].
    rewrite He. f_equal. rewrite E2 at 1. rewrite !app_length. cbn [length]. lia.
  Qed.

  (** cJSON_ParseWithOpts and cJSON_Parse: strlen on the raw memory, then as above *)
  Theorem entry_string rnt beyond :
    exists r, cJSON_ParseWithOpts strtod never_fails (txt ++ 0 :: beyond) rnt = Ok r /\
              pr_tree r = Some (tree_of strtod v).
  Proof.
    destruct (parse_string_safe strtod never_fails txt beyond rnt Hok (rfc_text_nzb txt v Htxt))
      as [r0 [_ [E _]]].
    rewrite E. destruct rnt.
    - destruct (entry_length_zero_rnt beyond) as [r [Er [Ht _]]]. exists r. auto.
    - destruct (entry_length_zero beyond) as [r [Er [Ht _]]]. exists r. auto.
  Qed.

  Theorem entry_parse beyond :
    exists r, cJSON_Parse strtod never_fails (txt ++ 0 :: beyond) = Ok r /\
              pr_tree r = Some (tree_of strtod v).
  Proof. exact (entry_string false beyond). Qed.

  Theorem entry_parse_with_length beyond :
    exists r, cJSON_ParseWithLength strtod never_fails (txt ++ beyond) (length txt) = Ok r /\
              pr_tree r = Some (tree_of strtod v).
  Proof. destruct (entry_length_exact beyond) as [r [E [Ht _]]]. exists r. auto. Qed.
End Entry.


(** all four entry points, exact-length and zero-terminated buffers, both termination modes:
    accepted, and the same tree [tree_of strtod v] *)
Theorem entry_points_complete : forall strtod txt v,
  strtod_ok strtod -> strtod_rfc strtod -> RFC_text txt v -> jv_ok v ->
  forall beyond rnt, exists r1 r2 r3 r4 r5,
    cJSON_Parse strtod never_fails (txt ++ 0 :: beyond) = Ok r1 /\
    cJSON_ParseWithOpts strtod never_fails (txt ++ 0 :: beyond) rnt = Ok r2 /\
    cJSON_ParseWithLength strtod never_fails (txt ++ beyond) (length txt) = Ok r3 /\
    cJSON_ParseWithLength strtod never_fails (txt ++ 0 :: beyond) (length txt + 1) = Ok r4 /\
    cJSON_ParseWithLengthOpts strtod never_fails (txt ++ 0 :: beyond) (length txt + 1) rnt = Ok r5 /\
    pr_tree r1 = Some (tree_of strtod v) /\ pr_tree r2 = Some (tree_of strtod v) /\
    pr_tree r3 = Some (tree_of strtod v) /\ pr_tree r4 = Some (tree_of strtod v) /\
    pr_tree r5 = Some (tree_of strtod v).
Proof.
  intros strtod txt v Hok Hrfc Htxt Hv beyond rnt.
  destruct (entry_parse strtod Hok Hrfc txt v Htxt Hv beyond) as [r1 [E1 T1]].
  destruct (entry_string strtod Hok Hrfc txt v Htxt Hv rnt beyond) as [r2 [E2 T2]].
  destruct (entry_parse_with_length strtod Hok Hrfc txt v Htxt Hv beyond) as [r3 [E3 T3]].
  destruct (entry_length_zero strtod Hok Hrfc txt v Htxt Hv beyond) as [r4 [E4 [T4 _]]].
  assert (H5 : exists r5, cJSON_ParseWithLengthOpts strtod never_fails (txt ++ 0 :: beyond) (length txt + 1) rnt = Ok r5
                          /\ pr_tree r5 = Some (tree_of strtod v)).
  { destruct rnt.
    - destruct (entry_length_zero_rnt strtod Hok Hrfc txt v Htxt Hv beyond) as [r [E [T _]]]. exists r. auto.
    - exists r4. auto. }
  destruct H5 as [r5 [E5 T5]].
  exists r1, r2, r3, r4, r5. repeat split; assumption.
Qed.

(** the same for the executable reference strtod: no hypothesis about the C library left *)
Corollary entry_points_complete_ref : forall txt v, RFC_text txt v -> jv_ok v ->
  forall beyond rnt, exists r1 r2 r3 r4 r5,
    cJSON_Parse strtod_ref never_fails (txt ++ 0 :: beyond) = Ok r1 /\
    cJSON_ParseWithOpts strtod_ref never_fails (txt ++ 0 :: beyond) rnt = Ok r2 /\
    cJSON_ParseWithLength strtod_ref never_fails (txt ++ beyond) (length txt) = Ok r3 /\
    cJSON_ParseWithLength strtod_ref never_fails (txt ++ 0 :: beyond) (length txt + 1) = Ok r4 /\
    cJSON_ParseWithLengthOpts strtod_ref never_fails (txt ++ 0 :: beyond) (length txt + 1) rnt = Ok r5 /\
    pr_tree r1 = Some (tree_of strtod_ref v) /\ pr_tree r2 = Some (tree_of strtod_ref v) /\
    pr_tree r3 = Some (tree_of strtod_ref v) /\ pr_tree r4 = Some (tree_of strtod_ref v) /\
    pr_tree r5 = Some (tree_of strtod_ref v).
Proof. intros txt v. exact (entry_points_complete strtod_ref txt v strtod_ref_ok strtod_ref_rfc). Qed.

(** the hypotheses are satisfiable: the reference strtod and the example text of
    ParseCompleteExample.v *)
From CJ Require Import ParseCompleteExample.
Theorem entry_points_nonvacuous :
  strtod_ok strtod_ref /\ strtod_rfc strtod_ref /\ RFC_text ex_txt ex_v /\ jv_ok ex_v /\
  exists r, cJSON_Parse strtod_ref never_fails (ex_txt ++ [0]) = Ok r /\
            pr_tree r = Some (tree_of strtod_ref ex_v) /\ pr_end r = Some 102%nat.
Proof.
  split; [exact strtod_ref_ok|]. split; [exact strtod_ref_rfc|]. split; [exact ex_text|].
  split; [exact ex_ok|]. eexists. split; [vm_compute; reflexivity|]. split; vm_compute; reflexivity.
Qed.
