(** CoreTraceFns.v — [tr_ok] for every function of CoreDefs.v except [cJSON_InitHooks]
    (whose exact effect is [init_hooks_spec] in CoreTraceOps.v).  One opaque lemma per function;
    fuelled functions by induction on their fuel. *)
From stdpp Require Import gmap.
From Coq Require Import Floats.SpecFloat.
From CJ Require Import Base Dbl Heap CoreDefs CoreTrace.
From CJ.gen Require Import Constants.

Section Fns.
  Variable oracle : nat → bool.

  Lemma tr_ok_cJSON_malloc init : tr_ok (cJSON_malloc oracle init).
  Proof. unfold cJSON_malloc. tr_auto. Qed.
  Lemma tr_ok_cJSON_free p : tr_ok (cJSON_free p).
  Proof. unfold cJSON_free. tr_auto. Qed.
  Hint Resolve tr_ok_cJSON_malloc tr_ok_cJSON_free : tr.

  Lemma tr_ok_cJSON_strdup s : tr_ok (cJSON_strdup oracle s).
  Proof. unfold cJSON_strdup. tr_auto. Qed.
  Lemma tr_ok_cJSON_New_Item : tr_ok (cJSON_New_Item oracle).
  Proof. unfold cJSON_New_Item. tr_auto. Qed.
  Hint Resolve tr_ok_cJSON_strdup tr_ok_cJSON_New_Item : tr.

  Lemma tr_ok_cJSON_Delete_fuel fuel : ∀ item, tr_ok (cJSON_Delete_fuel fuel item).
  Proof.
    induction fuel as [|f IH]; intros item; cbn [cJSON_Delete_fuel]; tr_auto; apply IH.
  Qed.
  Hint Resolve tr_ok_cJSON_Delete_fuel : tr.
  Lemma tr_ok_cJSON_Delete item : tr_ok (cJSON_Delete item).
  Proof. unfold cJSON_Delete. tr_auto. Qed.
  Hint Resolve tr_ok_cJSON_Delete : tr.

  (** value accessors and setters *)
  Lemma tr_ok_cJSON_IsString item : tr_ok (cJSON_IsString item).
  Proof. unfold cJSON_IsString. tr_auto. Qed.
  Lemma tr_ok_cJSON_IsNumber item : tr_ok (cJSON_IsNumber item).
  Proof. unfold cJSON_IsNumber. tr_auto. Qed.
  Hint Resolve tr_ok_cJSON_IsString tr_ok_cJSON_IsNumber : tr.
  Lemma tr_ok_cJSON_GetStringValue item : tr_ok (cJSON_GetStringValue item).
  Proof. unfold cJSON_GetStringValue. tr_auto. Qed.
  Lemma tr_ok_cJSON_GetNumberValue item : tr_ok (cJSON_GetNumberValue item).
  Proof. unfold cJSON_GetNumberValue. tr_auto. Qed.
  Lemma tr_ok_cJSON_SetNumberHelper o n : tr_ok (cJSON_SetNumberHelper o n).
  Proof. unfold cJSON_SetNumberHelper. tr_auto. Qed.
  Hint Resolve tr_ok_cJSON_SetNumberHelper : tr.
  Lemma tr_ok_cJSON_SetNumberValue o n : tr_ok (cJSON_SetNumberValue o n).
  Proof. unfold cJSON_SetNumberValue. tr_auto. Qed.
  Lemma tr_ok_cJSON_SetIntValue o n : tr_ok (cJSON_SetIntValue o n).
  Proof. unfold cJSON_SetIntValue. tr_auto. Qed.
  Lemma tr_ok_cJSON_SetBoolValue o b : tr_ok (cJSON_SetBoolValue o b).
  Proof. unfold cJSON_SetBoolValue. tr_auto. Qed.
  Lemma tr_ok_cJSON_SetValuestring o v : tr_ok (cJSON_SetValuestring oracle o v).
  Proof. unfold cJSON_SetValuestring. tr_auto. Qed.

  (** queries *)
  Lemma tr_ok_cJSON_GetArraySize_loop fuel : ∀ c s, tr_ok (cJSON_GetArraySize_loop fuel c s).
  Proof. induction fuel as [|f IH]; intros c s; cbn [cJSON_GetArraySize_loop]; tr_auto; apply IH. Qed.
  Hint Resolve tr_ok_cJSON_GetArraySize_loop : tr.
  Lemma tr_ok_cJSON_GetArraySize a : tr_ok (cJSON_GetArraySize a).
  Proof. unfold cJSON_GetArraySize. tr_auto. Qed.
  Lemma tr_ok_get_array_item_loop fuel : ∀ c i, tr_ok (get_array_item_loop fuel c i).
  Proof. induction fuel as [|f IH]; intros c i; cbn [get_array_item_loop]; tr_auto; apply IH. Qed.
  Hint Resolve tr_ok_get_array_item_loop : tr.
  Lemma tr_ok_get_array_item a i : tr_ok (get_array_item a i).
  Proof. unfold get_array_item. tr_auto. Qed.
  Hint Resolve tr_ok_get_array_item : tr.
  Lemma tr_ok_cJSON_GetArrayItem a i : tr_ok (cJSON_GetArrayItem a i).
  Proof. unfold cJSON_GetArrayItem. tr_auto. Qed.
  Lemma tr_ok_case_insensitive_strcmp a b : tr_ok (case_insensitive_strcmp a b).
  Proof. unfold case_insensitive_strcmp. tr_auto. Qed.
  Hint Resolve tr_ok_case_insensitive_strcmp : tr.
  Lemma tr_ok_get_object_item_loop_cs fuel : ∀ c n, tr_ok (get_object_item_loop_cs fuel c n).
  Proof. induction fuel as [|f IH]; intros c n; cbn [get_object_item_loop_cs]; tr_auto; apply IH. Qed.
  Lemma tr_ok_get_object_item_loop_ci fuel : ∀ c n, tr_ok (get_object_item_loop_ci fuel c n).
  Proof. induction fuel as [|f IH]; intros c n; cbn [get_object_item_loop_ci]; tr_auto; apply IH. Qed.
  Hint Resolve tr_ok_get_object_item_loop_cs tr_ok_get_object_item_loop_ci : tr.
  Lemma tr_ok_get_object_item o n cs : tr_ok (get_object_item o n cs).
  Proof. unfold get_object_item. tr_auto. Qed.
  Hint Resolve tr_ok_get_object_item : tr.
  Lemma tr_ok_cJSON_GetObjectItem o s : tr_ok (cJSON_GetObjectItem o s).
  Proof. unfold cJSON_GetObjectItem. tr_auto. Qed.
  Lemma tr_ok_cJSON_GetObjectItemCaseSensitive o s : tr_ok (cJSON_GetObjectItemCaseSensitive o s).
  Proof. unfold cJSON_GetObjectItemCaseSensitive. tr_auto. Qed.
  Hint Resolve tr_ok_cJSON_GetObjectItem tr_ok_cJSON_GetObjectItemCaseSensitive : tr.
  Lemma tr_ok_cJSON_HasObjectItem o s : tr_ok (cJSON_HasObjectItem o s).
  Proof. unfold cJSON_HasObjectItem. tr_auto. Qed.

  (** list handling *)
  Lemma tr_ok_suffix_object p i : tr_ok (suffix_object p i).
  Proof. unfold suffix_object. tr_auto. Qed.
  Hint Resolve tr_ok_suffix_object : tr.
  Lemma tr_ok_create_reference i : tr_ok (create_reference oracle i).
  Proof. unfold create_reference. tr_auto. Qed.
  Hint Resolve tr_ok_create_reference : tr.
  Lemma tr_ok_add_item_to_array a i : tr_ok (add_item_to_array a i).
  Proof. unfold add_item_to_array. tr_auto. Qed.
  Hint Resolve tr_ok_add_item_to_array : tr.
  Lemma tr_ok_cJSON_AddItemToArray a i : tr_ok (cJSON_AddItemToArray a i).
  Proof. unfold cJSON_AddItemToArray. tr_auto. Qed.
  Hint Resolve tr_ok_cJSON_AddItemToArray : tr.
  Lemma tr_ok_add_item_to_object o s i ck : tr_ok (add_item_to_object oracle o s i ck).
  Proof. unfold add_item_to_object. tr_auto. Qed.
  Hint Resolve tr_ok_add_item_to_object : tr.
  Lemma tr_ok_cJSON_AddItemToObject o s i : tr_ok (cJSON_AddItemToObject oracle o s i).
  Proof. unfold cJSON_AddItemToObject. tr_auto. Qed.
  Lemma tr_ok_cJSON_AddItemToObjectCS o s i : tr_ok (cJSON_AddItemToObjectCS oracle o s i).
  Proof. unfold cJSON_AddItemToObjectCS. tr_auto. Qed.
  Lemma tr_ok_cJSON_AddItemReferenceToArray a i : tr_ok (cJSON_AddItemReferenceToArray oracle a i).
  Proof. unfold cJSON_AddItemReferenceToArray. tr_auto. Qed.
  Lemma tr_ok_cJSON_AddItemReferenceToObject o s i : tr_ok (cJSON_AddItemReferenceToObject oracle o s i).
  Proof. unfold cJSON_AddItemReferenceToObject. tr_auto. Qed.

  (** constructors *)
  Lemma tr_ok_create_with_type ty : tr_ok (create_with_type oracle ty).
  Proof. unfold create_with_type. tr_auto. Qed.
  Hint Resolve tr_ok_create_with_type : tr.
  Lemma tr_ok_cJSON_CreateNull : tr_ok (cJSON_CreateNull oracle).
  Proof. unfold cJSON_CreateNull. tr_auto. Qed.
  Lemma tr_ok_cJSON_CreateTrue : tr_ok (cJSON_CreateTrue oracle).
  Proof. unfold cJSON_CreateTrue. tr_auto. Qed.
  Lemma tr_ok_cJSON_CreateFalse : tr_ok (cJSON_CreateFalse oracle).
  Proof. unfold cJSON_CreateFalse. tr_auto. Qed.
  Lemma tr_ok_cJSON_CreateBool b : tr_ok (cJSON_CreateBool oracle b).
  Proof. unfold cJSON_CreateBool. tr_auto. Qed.
  Lemma tr_ok_cJSON_CreateArray : tr_ok (cJSON_CreateArray oracle).
  Proof. unfold cJSON_CreateArray. tr_auto. Qed.
  Lemma tr_ok_cJSON_CreateObject : tr_ok (cJSON_CreateObject oracle).
  Proof. unfold cJSON_CreateObject. tr_auto. Qed.
  Lemma tr_ok_cJSON_CreateNumber n : tr_ok (cJSON_CreateNumber oracle n).
  Proof. unfold cJSON_CreateNumber. tr_auto. Qed.
  Hint Resolve tr_ok_cJSON_CreateNull tr_ok_cJSON_CreateTrue tr_ok_cJSON_CreateFalse tr_ok_cJSON_CreateBool
    tr_ok_cJSON_CreateArray tr_ok_cJSON_CreateObject tr_ok_cJSON_CreateNumber : tr.
  Lemma tr_ok_create_string_like ty s : tr_ok (create_string_like oracle ty s).
  Proof. unfold create_string_like. tr_auto. Qed.
  Hint Resolve tr_ok_create_string_like : tr.
  Lemma tr_ok_cJSON_CreateString s : tr_ok (cJSON_CreateString oracle s).
  Proof. unfold cJSON_CreateString. tr_auto. Qed.
  Lemma tr_ok_cJSON_CreateRaw s : tr_ok (cJSON_CreateRaw oracle s).
  Proof. unfold cJSON_CreateRaw. tr_auto. Qed.
  Hint Resolve tr_ok_cJSON_CreateString tr_ok_cJSON_CreateRaw : tr.
  Lemma tr_ok_cJSON_CreateStringReference s : tr_ok (cJSON_CreateStringReference oracle s).
  Proof. unfold cJSON_CreateStringReference. tr_auto. Qed.
  Lemma tr_ok_cJSON_CreateObjectReference c : tr_ok (cJSON_CreateObjectReference oracle c).
  Proof. unfold cJSON_CreateObjectReference. tr_auto. Qed.
  Lemma tr_ok_cJSON_CreateArrayReference c : tr_ok (cJSON_CreateArrayReference oracle c).
  Proof. unfold cJSON_CreateArrayReference. tr_auto. Qed.

  Lemma tr_ok_create_array_loop mk : (∀ i, tr_ok (mk i)) →
    ∀ rem i a n p, tr_ok (create_array_loop mk rem i a n p).
  Proof.
    intros Hmk rem. induction rem as [|r IH]; intros i a n p; cbn [create_array_loop]; tr_auto;
      first [apply Hmk | apply IH].
  Qed.
  Lemma tr_ok_create_array_of mk nl count : (∀ i, tr_ok (mk i)) → tr_ok (create_array_of oracle mk nl count).
  Proof.
    intros Hmk. pose proof (tr_ok_create_array_loop mk Hmk) as Hloop.
    unfold create_array_of. tr_auto; apply Hloop.
  Qed.
  Lemma tr_ok_rd_arr {A} (l : list A) i : tr_ok (rd_arr l i).
  Proof. unfold rd_arr. tr_auto. Qed.
  Hint Resolve tr_ok_rd_arr : tr.
  Lemma tr_ok_cJSON_CreateIntArray ns c : tr_ok (cJSON_CreateIntArray oracle ns c).
  Proof. unfold cJSON_CreateIntArray. apply tr_ok_create_array_of. intros i. tr_auto. Qed.
  Lemma tr_ok_cJSON_CreateFloatArray ns c : tr_ok (cJSON_CreateFloatArray oracle ns c).
  Proof. unfold cJSON_CreateFloatArray. apply tr_ok_create_array_of. intros i. tr_auto. Qed.
  Lemma tr_ok_cJSON_CreateDoubleArray ns c : tr_ok (cJSON_CreateDoubleArray oracle ns c).
  Proof. unfold cJSON_CreateDoubleArray. apply tr_ok_create_array_of. intros i. tr_auto. Qed.
  Lemma tr_ok_cJSON_CreateStringArray ss c : tr_ok (cJSON_CreateStringArray oracle ss c).
  Proof. unfold cJSON_CreateStringArray. apply tr_ok_create_array_of. intros i. tr_auto. Qed.

  (** cJSON_Add...ToObject helpers *)
  Lemma tr_ok_add_created_to_object o n i : tr_ok (add_created_to_object oracle o n i).
  Proof. unfold add_created_to_object. tr_auto. Qed.
  Hint Resolve tr_ok_add_created_to_object : tr.
  Lemma tr_ok_cJSON_AddNullToObject o n : tr_ok (cJSON_AddNullToObject oracle o n).
  Proof. unfold cJSON_AddNullToObject. tr_auto. Qed.
  Lemma tr_ok_cJSON_AddTrueToObject o n : tr_ok (cJSON_AddTrueToObject oracle o n).
  Proof. unfold cJSON_AddTrueToObject. tr_auto. Qed.
  Lemma tr_ok_cJSON_AddFalseToObject o n : tr_ok (cJSON_AddFalseToObject oracle o n).
  Proof. unfold cJSON_AddFalseToObject. tr_auto. Qed.
  Lemma tr_ok_cJSON_AddBoolToObject o n b : tr_ok (cJSON_AddBoolToObject oracle o n b).
  Proof. unfold cJSON_AddBoolToObject. tr_auto. Qed.
  Lemma tr_ok_cJSON_AddNumberToObject o n d : tr_ok (cJSON_AddNumberToObject oracle o n d).
  Proof. unfold cJSON_AddNumberToObject. tr_auto. Qed.
  Lemma tr_ok_cJSON_AddStringToObject o n s : tr_ok (cJSON_AddStringToObject oracle o n s).
  Proof. unfold cJSON_AddStringToObject. tr_auto. Qed.
  Lemma tr_ok_cJSON_AddRawToObject o n s : tr_ok (cJSON_AddRawToObject oracle o n s).
  Proof. unfold cJSON_AddRawToObject. tr_auto. Qed.
  Lemma tr_ok_cJSON_AddObjectToObject o n : tr_ok (cJSON_AddObjectToObject oracle o n).
  Proof. unfold cJSON_AddObjectToObject. tr_auto. Qed.
  Lemma tr_ok_cJSON_AddArrayToObject o n : tr_ok (cJSON_AddArrayToObject oracle o n).
  Proof. unfold cJSON_AddArrayToObject. tr_auto. Qed.

  (** detach / delete *)
  Lemma tr_ok_cJSON_DetachItemViaPointer p i : tr_ok (cJSON_DetachItemViaPointer p i).
  Proof. unfold cJSON_DetachItemViaPointer. tr_auto. Qed.
  Hint Resolve tr_ok_cJSON_DetachItemViaPointer : tr.
  Lemma tr_ok_cJSON_DetachItemFromArray a w : tr_ok (cJSON_DetachItemFromArray a w).
  Proof. unfold cJSON_DetachItemFromArray. tr_auto. Qed.
  Hint Resolve tr_ok_cJSON_DetachItemFromArray : tr.
  Lemma tr_ok_cJSON_DeleteItemFromArray a w : tr_ok (cJSON_DeleteItemFromArray a w).
  Proof. unfold cJSON_DeleteItemFromArray. tr_auto. Qed.
  Lemma tr_ok_cJSON_DetachItemFromObject o s : tr_ok (cJSON_DetachItemFromObject o s).
  Proof. unfold cJSON_DetachItemFromObject. tr_auto. Qed.
  Lemma tr_ok_cJSON_DetachItemFromObjectCaseSensitive o s : tr_ok (cJSON_DetachItemFromObjectCaseSensitive o s).
  Proof. unfold cJSON_DetachItemFromObjectCaseSensitive. tr_auto. Qed.
  Hint Resolve tr_ok_cJSON_DetachItemFromObject tr_ok_cJSON_DetachItemFromObjectCaseSensitive : tr.
  Lemma tr_ok_cJSON_DeleteItemFromObject o s : tr_ok (cJSON_DeleteItemFromObject o s).
  Proof. unfold cJSON_DeleteItemFromObject. tr_auto. Qed.
  Lemma tr_ok_cJSON_DeleteItemFromObjectCaseSensitive o s : tr_ok (cJSON_DeleteItemFromObjectCaseSensitive o s).
  Proof. unfold cJSON_DeleteItemFromObjectCaseSensitive. tr_auto. Qed.

  (** insert / replace *)
  Lemma tr_ok_cJSON_InsertItemInArray a w n : tr_ok (cJSON_InsertItemInArray a w n).
  Proof. unfold cJSON_InsertItemInArray. tr_auto. Qed.
  Lemma tr_ok_cJSON_ReplaceItemViaPointer p i r : tr_ok (cJSON_ReplaceItemViaPointer p i r).
  Proof. unfold cJSON_ReplaceItemViaPointer. tr_auto. Qed.
  Hint Resolve tr_ok_cJSON_ReplaceItemViaPointer : tr.
  Lemma tr_ok_cJSON_ReplaceItemInArray a w n : tr_ok (cJSON_ReplaceItemInArray a w n).
  Proof. unfold cJSON_ReplaceItemInArray. tr_auto. Qed.
  Lemma tr_ok_replace_item_in_object o s r cs : tr_ok (replace_item_in_object oracle o s r cs).
  Proof. unfold replace_item_in_object. tr_auto. Qed.
  Hint Resolve tr_ok_replace_item_in_object : tr.
  Lemma tr_ok_cJSON_ReplaceItemInObject o s n : tr_ok (cJSON_ReplaceItemInObject oracle o s n).
  Proof. unfold cJSON_ReplaceItemInObject. tr_auto. Qed.
  Lemma tr_ok_cJSON_ReplaceItemInObjectCaseSensitive o s n : tr_ok (cJSON_ReplaceItemInObjectCaseSensitive oracle o s n).
  Proof. unfold cJSON_ReplaceItemInObjectCaseSensitive. tr_auto. Qed.

  (** duplication: induction on the depth fuel, inner induction on the sibling-loop fuel *)
  Lemma tr_ok_cJSON_Duplicate_rec dfuel : ∀ lfuel item depth recurse,
    tr_ok (cJSON_Duplicate_rec oracle dfuel lfuel item depth recurse).
  Proof.
    induction dfuel as [|df IH]; intros lfuel item depth recurse; cbn [cJSON_Duplicate_rec].
    - tr_auto.
    - tr_auto.
      (* the remaining goal is the sibling loop *)
      lazymatch goal with
      | |- tr_ok (?F lfuel ?c ?n ?nc) =>
          cut (∀ lf c' n' nc', tr_ok (F lf c' n' nc')); [intros Hloop; apply Hloop|];
          let lf := fresh "lf" in let IHlf := fresh "IHlf" in
          intros lf; induction lf as [|lf IHlf]; intros c' n' nc';
          cbv beta iota fix; tr_auto; first [apply IH | apply IHlf]
      end.
  Qed.
  Hint Resolve tr_ok_cJSON_Duplicate_rec : tr.
  Lemma tr_ok_cJSON_Duplicate item recurse : tr_ok (cJSON_Duplicate oracle item recurse).
  Proof. unfold cJSON_Duplicate. tr_auto. Qed.
End Fns.

Global Hint Resolve
  tr_ok_cJSON_malloc tr_ok_cJSON_free tr_ok_cJSON_strdup tr_ok_cJSON_New_Item tr_ok_cJSON_Delete_fuel
  tr_ok_cJSON_Delete tr_ok_cJSON_IsString tr_ok_cJSON_IsNumber tr_ok_cJSON_GetStringValue
  tr_ok_cJSON_GetNumberValue tr_ok_cJSON_SetNumberHelper tr_ok_cJSON_SetNumberValue tr_ok_cJSON_SetIntValue
  tr_ok_cJSON_SetBoolValue tr_ok_cJSON_SetValuestring tr_ok_cJSON_GetArraySize_loop tr_ok_cJSON_GetArraySize
  tr_ok_get_array_item_loop tr_ok_get_array_item tr_ok_cJSON_GetArrayItem tr_ok_case_insensitive_strcmp
  tr_ok_get_object_item_loop_cs tr_ok_get_object_item_loop_ci tr_ok_get_object_item
  tr_ok_cJSON_GetObjectItem tr_ok_cJSON_GetObjectItemCaseSensitive tr_ok_cJSON_HasObjectItem
  tr_ok_suffix_object tr_ok_create_reference tr_ok_add_item_to_array tr_ok_cJSON_AddItemToArray
  tr_ok_add_item_to_object tr_ok_cJSON_AddItemToObject tr_ok_cJSON_AddItemToObjectCS
  tr_ok_cJSON_AddItemReferenceToArray tr_ok_cJSON_AddItemReferenceToObject tr_ok_create_with_type
  tr_ok_cJSON_CreateNull tr_ok_cJSON_CreateTrue tr_ok_cJSON_CreateFalse tr_ok_cJSON_CreateBool
  tr_ok_cJSON_CreateArray tr_ok_cJSON_CreateObject tr_ok_cJSON_CreateNumber tr_ok_create_string_like
  tr_ok_cJSON_CreateString tr_ok_cJSON_CreateRaw tr_ok_cJSON_CreateStringReference
  tr_ok_cJSON_CreateObjectReference tr_ok_cJSON_CreateArrayReference
  tr_ok_cJSON_CreateIntArray tr_ok_cJSON_CreateFloatArray tr_ok_cJSON_CreateDoubleArray
  tr_ok_cJSON_CreateStringArray tr_ok_add_created_to_object tr_ok_cJSON_AddNullToObject
  tr_ok_cJSON_AddTrueToObject tr_ok_cJSON_AddFalseToObject tr_ok_cJSON_AddBoolToObject
  tr_ok_cJSON_AddNumberToObject tr_ok_cJSON_AddStringToObject tr_ok_cJSON_AddRawToObject
  tr_ok_cJSON_AddObjectToObject tr_ok_cJSON_AddArrayToObject tr_ok_cJSON_DetachItemViaPointer
  tr_ok_cJSON_DetachItemFromArray tr_ok_cJSON_DeleteItemFromArray tr_ok_cJSON_DetachItemFromObject
  tr_ok_cJSON_DetachItemFromObjectCaseSensitive tr_ok_cJSON_DeleteItemFromObject
  tr_ok_cJSON_DeleteItemFromObjectCaseSensitive tr_ok_cJSON_InsertItemInArray
  tr_ok_cJSON_ReplaceItemViaPointer tr_ok_cJSON_ReplaceItemInArray tr_ok_replace_item_in_object
  tr_ok_cJSON_ReplaceItemInObject tr_ok_cJSON_ReplaceItemInObjectCaseSensitive
  tr_ok_cJSON_Duplicate_rec tr_ok_cJSON_Duplicate tr_ok_rd_arr : tr.
(** every monadic function of CoreDefs.v except cJSON_InitHooks, in one statement *)
Lemma coredefs_tr_ok :
  (∀ (oracle : nat → bool) (init : bytes), tr_ok (cJSON_malloc oracle init)) ∧
  (∀ p : ptr, tr_ok (cJSON_free p)) ∧
  (∀ (oracle : nat → bool) (s : ptr), tr_ok (cJSON_strdup oracle s)) ∧
  (∀ oracle : nat → bool, tr_ok (cJSON_New_Item oracle)) ∧
  (∀ (fuel : nat) (item : ptr), tr_ok (cJSON_Delete_fuel fuel item)) ∧
  (∀ item : ptr, tr_ok (cJSON_Delete item)) ∧
  (∀ item : ptr, tr_ok (cJSON_IsString item)) ∧
  (∀ item : ptr, tr_ok (cJSON_IsNumber item)) ∧
  (∀ item : ptr, tr_ok (cJSON_GetStringValue item)) ∧
  (∀ item : ptr, tr_ok (cJSON_GetNumberValue item)) ∧
  (∀ (o : ptr) (n : dbl), tr_ok (cJSON_SetNumberHelper o n)) ∧
  (∀ (o : ptr) (n : dbl), tr_ok (cJSON_SetNumberValue o n)) ∧
  (∀ (o : ptr) (n : Z), tr_ok (cJSON_SetIntValue o n)) ∧
  (∀ (o : ptr) (b : bool), tr_ok (cJSON_SetBoolValue o b)) ∧
  (∀ (oracle : nat → bool) (o v : ptr), tr_ok (cJSON_SetValuestring oracle o v)) ∧
  (∀ (fuel : nat) (c : ptr) (s : Z), tr_ok (cJSON_GetArraySize_loop fuel c s)) ∧
  (∀ a : ptr, tr_ok (cJSON_GetArraySize a)) ∧
  (∀ (fuel : nat) (c : ptr) (i : Z), tr_ok (get_array_item_loop fuel c i)) ∧
  (∀ (a : ptr) (i : Z), tr_ok (get_array_item a i)) ∧
  (∀ (a : ptr) (i : Z), tr_ok (cJSON_GetArrayItem a i)) ∧
  (∀ a b : ptr, tr_ok (case_insensitive_strcmp a b)) ∧
  (∀ (fuel : nat) (c n : ptr), tr_ok (get_object_item_loop_cs fuel c n)) ∧
  (∀ (fuel : nat) (c n : ptr), tr_ok (get_object_item_loop_ci fuel c n)) ∧
  (∀ (o n : ptr) (cs : bool), tr_ok (get_object_item o n cs)) ∧
  (∀ o s : ptr, tr_ok (cJSON_GetObjectItem o s)) ∧
  (∀ o s : ptr, tr_ok (cJSON_GetObjectItemCaseSensitive o s)) ∧
  (∀ o s : ptr, tr_ok (cJSON_HasObjectItem o s)) ∧
  (∀ p i : ptr, tr_ok (suffix_object p i)) ∧
  (∀ (oracle : nat → bool) (i : ptr), tr_ok (create_reference oracle i)) ∧
  (∀ a i : ptr, tr_ok (add_item_to_array a i)) ∧
  (∀ a i : ptr, tr_ok (cJSON_AddItemToArray a i)) ∧
  (∀ (oracle : nat → bool) (o s i : ptr) (ck : bool), tr_ok (add_item_to_object oracle o s i ck)) ∧
  (∀ (oracle : nat → bool) (o s i : ptr), tr_ok (cJSON_AddItemToObject oracle o s i)) ∧
  (∀ (oracle : nat → bool) (o s i : ptr), tr_ok (cJSON_AddItemToObjectCS oracle o s i)) ∧
  (∀ (oracle : nat → bool) (a i : ptr), tr_ok (cJSON_AddItemReferenceToArray oracle a i)) ∧
  (∀ (oracle : nat → bool) (o s i : ptr), tr_ok (cJSON_AddItemReferenceToObject oracle o s i)) ∧
  (∀ (oracle : nat → bool) (ty : Z), tr_ok (create_with_type oracle ty)) ∧
  (∀ oracle : nat → bool, tr_ok (cJSON_CreateNull oracle)) ∧
  (∀ oracle : nat → bool, tr_ok (cJSON_CreateTrue oracle)) ∧
  (∀ oracle : nat → bool, tr_ok (cJSON_CreateFalse oracle)) ∧
  (∀ (oracle : nat → bool) (b : bool), tr_ok (cJSON_CreateBool oracle b)) ∧
  (∀ oracle : nat → bool, tr_ok (cJSON_CreateArray oracle)) ∧
  (∀ oracle : nat → bool, tr_ok (cJSON_CreateObject oracle)) ∧
  (∀ (oracle : nat → bool) (n : dbl), tr_ok (cJSON_CreateNumber oracle n)) ∧
  (∀ (oracle : nat → bool) (ty : Z) (s : ptr), tr_ok (create_string_like oracle ty s)) ∧
  (∀ (oracle : nat → bool) (s : ptr), tr_ok (cJSON_CreateString oracle s)) ∧
  (∀ (oracle : nat → bool) (s : ptr), tr_ok (cJSON_CreateRaw oracle s)) ∧
  (∀ (oracle : nat → bool) (s : ptr), tr_ok (cJSON_CreateStringReference oracle s)) ∧
  (∀ (oracle : nat → bool) (c : ptr), tr_ok (cJSON_CreateObjectReference oracle c)) ∧
  (∀ (oracle : nat → bool) (c : ptr), tr_ok (cJSON_CreateArrayReference oracle c)) ∧
  (∀ mk : Z → M ptr, (∀ i : Z, tr_ok (mk i)) → ∀ (rem : nat) (i : Z) (a n p : ptr), tr_ok (create_array_loop mk rem i a n p)) ∧
  (∀ (oracle : nat → bool) (mk : Z → M ptr) (nl : bool) (count : Z), (∀ i : Z, tr_ok (mk i)) → tr_ok (create_array_of oracle mk nl count)) ∧
  (∀ (A : Type) (l : list A) (i : Z), tr_ok (rd_arr l i)) ∧
  (∀ (oracle : nat → bool) (ns : option (list Z)) (c : Z), tr_ok (cJSON_CreateIntArray oracle ns c)) ∧
  (∀ (oracle : nat → bool) (ns : option (list dbl)) (c : Z), tr_ok (cJSON_CreateFloatArray oracle ns c)) ∧
  (∀ (oracle : nat → bool) (ns : option (list dbl)) (c : Z), tr_ok (cJSON_CreateDoubleArray oracle ns c)) ∧
  (∀ (oracle : nat → bool) (ss : option (list ptr)) (c : Z), tr_ok (cJSON_CreateStringArray oracle ss c)) ∧
  (∀ (oracle : nat → bool) (o n i : ptr), tr_ok (add_created_to_object oracle o n i)) ∧
  (∀ (oracle : nat → bool) (o n : ptr), tr_ok (cJSON_AddNullToObject oracle o n)) ∧
  (∀ (oracle : nat → bool) (o n : ptr), tr_ok (cJSON_AddTrueToObject oracle o n)) ∧
  (∀ (oracle : nat → bool) (o n : ptr), tr_ok (cJSON_AddFalseToObject oracle o n)) ∧
  (∀ (oracle : nat → bool) (o n : ptr) (b : bool), tr_ok (cJSON_AddBoolToObject oracle o n b)) ∧
  (∀ (oracle : nat → bool) (o n : ptr) (d : dbl), tr_ok (cJSON_AddNumberToObject oracle o n d)) ∧
  (∀ (oracle : nat → bool) (o n s : ptr), tr_ok (cJSON_AddStringToObject oracle o n s)) ∧
  (∀ (oracle : nat → bool) (o n s : ptr), tr_ok (cJSON_AddRawToObject oracle o n s)) ∧
  (∀ (oracle : nat → bool) (o n : ptr), tr_ok (cJSON_AddObjectToObject oracle o n)) ∧
  (∀ (oracle : nat → bool) (o n : ptr), tr_ok (cJSON_AddArrayToObject oracle o n)) ∧
  (∀ p i : ptr, tr_ok (cJSON_DetachItemViaPointer p i)) ∧
  (∀ (a : ptr) (w : Z), tr_ok (cJSON_DetachItemFromArray a w)) ∧
  (∀ (a : ptr) (w : Z), tr_ok (cJSON_DeleteItemFromArray a w)) ∧
  (∀ o s : ptr, tr_ok (cJSON_DetachItemFromObject o s)) ∧
  (∀ o s : ptr, tr_ok (cJSON_DetachItemFromObjectCaseSensitive o s)) ∧
  (∀ o s : ptr, tr_ok (cJSON_DeleteItemFromObject o s)) ∧
  (∀ o s : ptr, tr_ok (cJSON_DeleteItemFromObjectCaseSensitive o s)) ∧
  (∀ (a : ptr) (w : Z) (n : ptr), tr_ok (cJSON_InsertItemInArray a w n)) ∧
  (∀ p i r : ptr, tr_ok (cJSON_ReplaceItemViaPointer p i r)) ∧
  (∀ (a : ptr) (w : Z) (n : ptr), tr_ok (cJSON_ReplaceItemInArray a w n)) ∧
  (∀ (oracle : nat → bool) (o s r : ptr) (cs : bool), tr_ok (replace_item_in_object oracle o s r cs)) ∧
  (∀ (oracle : nat → bool) (o s n : ptr), tr_ok (cJSON_ReplaceItemInObject oracle o s n)) ∧
  (∀ (oracle : nat → bool) (o s n : ptr), tr_ok (cJSON_ReplaceItemInObjectCaseSensitive oracle o s n)) ∧
  (∀ (oracle : nat → bool) (dfuel lfuel : nat) (item : ptr) (depth : Z) (recurse : bool), tr_ok (cJSON_Duplicate_rec oracle dfuel lfuel item depth recurse)) ∧
  (∀ (oracle : nat → bool) (item : ptr) (recurse : bool), tr_ok (cJSON_Duplicate oracle item recurse)).
Proof.
  repeat lazymatch goal with |- _ ∧ _ => split end.
  - exact tr_ok_cJSON_malloc.
  - exact tr_ok_cJSON_free.
  - exact tr_ok_cJSON_strdup.
  - exact tr_ok_cJSON_New_Item.
  - exact tr_ok_cJSON_Delete_fuel.
  - exact tr_ok_cJSON_Delete.
  - exact tr_ok_cJSON_IsString.
  - exact tr_ok_cJSON_IsNumber.
  - exact tr_ok_cJSON_GetStringValue.
  - exact tr_ok_cJSON_GetNumberValue.
  - exact tr_ok_cJSON_SetNumberHelper.
  - exact tr_ok_cJSON_SetNumberValue.
  - exact tr_ok_cJSON_SetIntValue.
  - exact tr_ok_cJSON_SetBoolValue.
  - exact tr_ok_cJSON_SetValuestring.
  - exact tr_ok_cJSON_GetArraySize_loop.
  - exact tr_ok_cJSON_GetArraySize.
  - exact tr_ok_get_array_item_loop.
  - exact tr_ok_get_array_item.
  - exact tr_ok_cJSON_GetArrayItem.
  - exact tr_ok_case_insensitive_strcmp.
  - exact tr_ok_get_object_item_loop_cs.
  - exact tr_ok_get_object_item_loop_ci.
  - exact tr_ok_get_object_item.
  - exact tr_ok_cJSON_GetObjectItem.
  - exact tr_ok_cJSON_GetObjectItemCaseSensitive.
  - exact tr_ok_cJSON_HasObjectItem.
  - exact tr_ok_suffix_object.
  - exact tr_ok_create_reference.
  - exact tr_ok_add_item_to_array.
  - exact tr_ok_cJSON_AddItemToArray.
  - exact tr_ok_add_item_to_object.
  - exact tr_ok_cJSON_AddItemToObject.
  - exact tr_ok_cJSON_AddItemToObjectCS.
  - exact tr_ok_cJSON_AddItemReferenceToArray.
  - exact tr_ok_cJSON_AddItemReferenceToObject.
  - exact tr_ok_create_with_type.
  - exact tr_ok_cJSON_CreateNull.
  - exact tr_ok_cJSON_CreateTrue.
  - exact tr_ok_cJSON_CreateFalse.
  - exact tr_ok_cJSON_CreateBool.
  - exact tr_ok_cJSON_CreateArray.
  - exact tr_ok_cJSON_CreateObject.
  - exact tr_ok_cJSON_CreateNumber.
  - exact tr_ok_create_string_like.
  - exact tr_ok_cJSON_CreateString.
  - exact tr_ok_cJSON_CreateRaw.
  - exact tr_ok_cJSON_CreateStringReference.
  - exact tr_ok_cJSON_CreateObjectReference.
  - exact tr_ok_cJSON_CreateArrayReference.
  - exact tr_ok_create_array_loop.
  - exact tr_ok_create_array_of.
  - exact @tr_ok_rd_arr.
  - exact tr_ok_cJSON_CreateIntArray.
  - exact tr_ok_cJSON_CreateFloatArray.
  - exact tr_ok_cJSON_CreateDoubleArray.
  - exact tr_ok_cJSON_CreateStringArray.
  - exact tr_ok_add_created_to_object.
  - exact tr_ok_cJSON_AddNullToObject.
  - exact tr_ok_cJSON_AddTrueToObject.
  - exact tr_ok_cJSON_AddFalseToObject.
  - exact tr_ok_cJSON_AddBoolToObject.
  - exact tr_ok_cJSON_AddNumberToObject.
  - exact tr_ok_cJSON_AddStringToObject.
  - exact tr_ok_cJSON_AddRawToObject.
  - exact tr_ok_cJSON_AddObjectToObject.
  - exact tr_ok_cJSON_AddArrayToObject.
  - exact tr_ok_cJSON_DetachItemViaPointer.
  - exact tr_ok_cJSON_DetachItemFromArray.
  - exact tr_ok_cJSON_DeleteItemFromArray.
  - exact tr_ok_cJSON_DetachItemFromObject.
  - exact tr_ok_cJSON_DetachItemFromObjectCaseSensitive.
  - exact tr_ok_cJSON_DeleteItemFromObject.
  - exact tr_ok_cJSON_DeleteItemFromObjectCaseSensitive.
  - exact tr_ok_cJSON_InsertItemInArray.
  - exact tr_ok_cJSON_ReplaceItemViaPointer.
  - exact tr_ok_cJSON_ReplaceItemInArray.
  - exact tr_ok_replace_item_in_object.
  - exact tr_ok_cJSON_ReplaceItemInObject.
  - exact tr_ok_cJSON_ReplaceItemInObjectCaseSensitive.
  - exact tr_ok_cJSON_Duplicate_rec.
  - exact tr_ok_cJSON_Duplicate.
Qed.
