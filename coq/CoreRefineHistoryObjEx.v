(** CoreRefineHistoryObjEx.v — the rules of the object alphabet as a BOOLEAN ([pre_ok2b], sound
    for [pre_ok2]: usable by test generators through extraction) and non-vacuity of
    [CoreRefineHistoryObj.history_sim2]: a concrete history with owned and constant keys, both
    lookup variants, re-keying and deletion by key obeys the rules ([example_ops2_ok], by
    [vm_compute]) and has the results one expects ([example_results2]). *)
From CJ Require Import Base Dbl Heap Forest ForestLemmas CoreSpec CoreDefs CoreRefineBase CoreRefine
  CoreRefineHistory CoreRefineHistoryObj.
From stdpp Require Import gmap.
Local Open Scope Z_scope.

(** * the rules of the extended alphabet as a boolean; non-vacuity *)
Definition name_okb (S : astate2) (n : ptr) : bool :=
  match n with
  | Some nb => match a_str S !! nb with Some s => has0 s | None => false end
  | None => false
  end.
Definition keyed_containerb (S : astate2) (ob n : ptr) : bool :=
  match ob with
  | Some p => match find_tree p (a_forest S) with Some nd => negb (is_ref (tdata nd)) | None => false end
  | None => false
  end && name_okb S n.

Definition pre_ok2b (S : astate2) (o : op2) : bool :=
  match o with
  | OArr o => pre_okb (a_st S) o
  | OForeign _ => true
  | OAddObj ob n i ck =>
      match ob, n, i with
      | Some p, Some nb, Some x =>
          bool_decide (p = x) ||
          (movableb (a_forest S) p x && name_okb S n && (negb ck || bool_decide (nb ∈ a_foreign S)))
      | _, _, _ => true
      end
  | OGetKey ob n _ | ODetachKey ob n _ | ODeleteKey ob n _ => keyed_containerb S ob n
  end.

Lemma name_okb_sound S n : name_okb S n = true -> name_ok S n.
Proof.
  unfold name_okb, name_ok. destruct n as [nb|]; [|done]. destruct (a_str S !! nb) as [s|] eqn:E; [|done].
  intros H. by exists nb, s.
Qed.
Lemma keyed_containerb_sound S ob n :
  keyed_containerb S ob n = true ->
  exists p d cs', ob = Some p /\ find_tree p (a_forest S) = Some (T p d cs') /\ is_ref d = false /\ name_ok S n.
Proof.
  unfold keyed_containerb. intros H. apply andb_true_iff in H as [H1 H2]. destruct ob as [p|]; [|done].
  destruct (find_tree p (a_forest S)) as [nd|] eqn:Hp; [|done]. apply negb_true_iff in H1.
  exists p, (tdata nd), (tchildren nd). split_and!; [done| |done|by apply name_okb_sound].
  by rewrite <- (find_tree_shape _ _ _ Hp).
Qed.

Lemma pre_ok2b_sound S o : pre_ok2b S o = true -> pre_ok2 S o.
Proof.
  destruct o as [o|c|ob n i ck|ob n cs|ob n cs|ob n cs]; cbn [pre_ok2b pre_ok2]; intros H.
  - by apply pre_okb_sound.
  - done.
  - destruct ob as [p|], n as [nb|], i as [x|]; try (left; auto; fail).
    apply orb_true_iff in H as [H|H].
    + apply bool_decide_eq_true in H. subst. left. auto.
    + right. apply andb_true_iff in H as [H H3]. apply andb_true_iff in H as [H1 H2].
      exists p, x. split_and!; [done|done|by apply movableb_sound|by apply name_okb_sound|].
      intros ->. cbn in H3. apply bool_decide_eq_true in H3. eauto.
  - by apply keyed_containerb_sound.
  - by apply keyed_containerb_sound.
  - by apply keyed_containerb_sound.
Qed.

Section B2.
  Variable oracle : nat -> bool.
  Fixpoint pre_ok_all2b (S : astate2) (ops : list op2) : bool :=
    match ops with [] => true | o :: r => pre_ok2b S o && pre_ok_all2b (spec_step2 oracle S o).1 r end.
  Lemma pre_ok_all2b_sound ops : forall S, pre_ok_all2b S ops = true -> pre_ok_all2 oracle S ops.
  Proof.
    induction ops as [|o r IH]; intros S H; [done|]. cbn in H. apply andb_true_iff in H as [H1 H2].
    split; [by apply pre_ok2b_sound|by apply IH].
  Qed.
End B2.

(** "k1", "K1" as C strings *)
Definition str_k1 : bytes := [107; 49; 0].
Definition str_K1 : bytes := [75; 49; 0].

Definition example_ops2 : list op2 :=
  [OArr (OCreate 64); OArr (OCreate 2); OForeign str_k1; OForeign str_K1;
   OAddObj (Some 1) (Some 3) (Some 2) false;           (* {"k1": true}, key copied into block 5 *)
   OArr (OCreate 4);
   OAddObj (Some 1) (Some 4) (Some 6) true;            (* constant key "K1" = block 4 *)
   OGetKey (Some 1) (Some 3) true;                     (* exact "k1": item 2 *)
   OGetKey (Some 1) (Some 4) false;                    (* folded "K1": the FIRST match, item 2 *)
   OGetKey (Some 1) (Some 4) true;                     (* exact "K1": item 6 *)
   ODetachKey (Some 1) (Some 3) true;                  (* detach item 2 *)
   OAddObj (Some 1) (Some 4) (Some 2) false;           (* re-key item 2 as "K1" (copy 7), old key 5 released *)
   OArr (OSize (Some 1));
   ODeleteKey (Some 1) (Some 4) true;                  (* deletes the first exact "K1": item 6 *)
   OGetKey (Some 1) (Some 3) false;                    (* folded "k1": item 2 *)
   OArr (ODelete (Some 1))]%positive.

Lemma example_ops2_ok : pre_ok_all2 (fun _ => false) S0 example_ops2.
Proof. apply pre_ok_all2b_sound. vm_compute. reflexivity. Qed.

Lemma example_results2 :
  spec_results2 (fun _ => false) S0 example_ops2 =
  [RPtr (Some 1); RPtr (Some 2); RPtr (Some 3); RPtr (Some 4); RBool true; RPtr (Some 6); RBool true;
   RPtr (Some 2); RPtr (Some 2); RPtr (Some 6); RPtr (Some 2); RBool true; RInt 2; RUnit;
   RPtr (Some 2); RUnit]%positive.
Proof. vm_compute. reflexivity. Qed.

Corollary example_history2 :
  exists h', run_ops2 (fun _ => false) example_ops2 empty_heap =
               Ret (spec_results2 (fun _ => false) S0 example_ops2, h') /\
             Abs2 h' (spec_run2 (fun _ => false) S0 example_ops2).
Proof. apply history2_from_empty, example_ops2_ok. Qed.
