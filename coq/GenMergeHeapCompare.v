(** GenMergeHeapCompare.v — the heap-level [compare_json] of GenMergeHeapDefs.v REFINES the value-level
    [MergeDefs.mp_compare_json]: for two nodes with disjoint subtrees of a forest under [MInv], whose object
    members have names and whose string nodes have a valuestring ([gdoc]), the run returns a boolean without
    memory error; the heap it ends in encodes a forest [G'] that differs from [G] only inside the two subtrees
    ([Frame]), where the two operands are reorderings of themselves ([treord]: the in-place sorts of the object
    nodes the walk met), no string block is touched, nothing is allocated or released; and the boolean and the
    reified operands afterwards are what the value-level model computes on the reified operands. *)
From CJ Require Import Base Dbl Heap Forest ForestLemmas CoreSpec CoreDefs CoreRefineBase CoreRefine CoreRefineMore
  CoreRefineObject CoreRefineFrame CoreRefineHistory CoreRefineDupBase CoreRefineDupValue CoreRefineDupForest CoreLedgerGen.
From CJ Require Import TierBridgeDefs TierBridgeForest TierBridgeLemmas.
From CJ Require Import MergeHeapDefs MergeHeapInv MergeHeapProofs GenMergeHeapDefs GenMergeHeapForest.
From CJ Require Tree CompareDefs MergeDefs MergePerm SortDefs SortSpec.
From CJ.gen Require Import Constants.
From stdpp Require Import gmap.
From Coq Require Import Lia.
Local Open Scope Z_scope.

(** * the two sibling loops of compare_json as one function *)
Definition cmp_loop (pre : ptr -> ptr -> M bool -> M bool) (rec : ptr -> ptr -> M bool) : nat -> ptr -> ptr -> M bool :=
  fix loop (lf : nat) (a b : ptr) {struct lf} : M bool :=
    match lf with
    | O => fail NoFuel
    | S lf' =>
        if is_null a || is_null b then ret (is_null a && is_null b) else
        pre a b (identical <~ rec a b ;;
                 if negb identical then ret false else
                 a' <~ get_next a ;;
                 b' <~ get_next b ;;
                 loop lf' a' b')
    end.
Definition pre_arr : ptr -> ptr -> M bool -> M bool := fun _ _ k => k.
Definition pre_obj (flag : bool) : ptr -> ptr -> M bool -> M bool := fun a b k =>
  ka <~ get_key a ;;
  kb <~ get_key b ;;
  c <~ SortDefs.compare_strings ka kb flag ;;
  if negb (c =? 0) then ret false else k.

Lemma compare_json_fuel_S df lf a b flag :
  compare_json_fuel (S df) lf a b flag =
  (if is_null a || is_null b then ret false else
   ta <~ get_type a ;;
   tb <~ get_type b ;;
   if negb (Z.land ta 255 =? Z.land tb 255) then ret false else
   sw <~ get_type a ;;
   let k := Z.land sw 255 in
   if k =? c_cJSON_Number then
     ia <~ get_vint a ;; ib <~ get_vint b ;;
     if negb (ia =? ib) then ret false else
     da <~ get_vdbl a ;; db <~ get_vdbl b ;; ret (compare_double da db)
   else if k =? c_cJSON_String then
     sa <~ get_vstr a ;; sb <~ get_vstr b ;; c <~ c_strcmp sa sb ;; ret (c =? 0)
   else if k =? c_cJSON_Array then
     a1 <~ get_child a ;; b1 <~ get_child b ;;
     cmp_loop pre_arr (fun x y => compare_json_fuel df lf x y flag) lf a1 b1
   else if k =? c_cJSON_Object then
     SortDefs.sort_object lf a flag ;;; SortDefs.sort_object lf b flag ;;;
     a1 <~ get_child a ;; b1 <~ get_child b ;;
     cmp_loop (pre_obj flag) (fun x y => compare_json_fuel df lf x y flag) lf a1 b1
   else ret true).
Proof. reflexivity. Qed.

(** * the two value-level walks as one function *)
Section VWalk.
  Variable vpre : Tree.node -> Tree.node -> bool.
  Variable cmp : Tree.node -> Tree.node -> Base.res (bool * Tree.node * Tree.node)%type.
  Fixpoint mp_walk_gen (la lb : list Tree.node) : Base.res (bool * list Tree.node * list Tree.node)%type :=
    match la, lb with
    | x :: la', y :: lb' =>
        if negb (vpre x y) then Ok (false, la, lb)
        else
          '(r, x', y') <- cmp x y ;;
          if r then '(r2, la2, lb2) <- mp_walk_gen la' lb' ;; Ok (r2, x' :: la2, y' :: lb2)
          else Ok (false, x' :: la', y' :: lb')
    | [], [] => Ok (true, [], [])
    | _, _ => Ok (false, la, lb)
    end.
End VWalk.
Definition vpre_arr : Tree.node -> Tree.node -> bool := fun _ _ => true.
Definition vpre_obj (flag : bool) : Tree.node -> Tree.node -> bool :=
  fun x y => MergeDefs.mp_compare_strings (Tree.n_key x) (Tree.n_key y) flag =? 0.
Lemma arr_walk_gen cmp : forall la lb, MergeDefs.mp_arr_walk cmp la lb = mp_walk_gen vpre_arr cmp la lb.
Proof. induction la as [|x la IH]; intros [|y lb]; cbn [MergeDefs.mp_arr_walk mp_walk_gen vpre_arr negb]; try done; try (by rewrite IH). Qed.
Lemma obj_walk_gen cmp flag : forall la lb, MergeDefs.mp_obj_walk cmp flag la lb = mp_walk_gen (vpre_obj flag) cmp la lb.
Proof. induction la as [|x la IH]; intros [|y lb]; cbn [MergeDefs.mp_obj_walk mp_walk_gen]; try done. unfold vpre_obj at 1. try (by rewrite IH). Qed.

Lemma mp_compare_json_S f flag a b :
  MergeDefs.mp_compare_json (S f) flag a b =
  (let ta := Tree.tymask (Tree.n_ty a) in
   if negb (ta =? Tree.tymask (Tree.n_ty b)) then Ok (false, a, b)
   else if ta =? c_cJSON_Number then
     Ok ((Tree.n_vint a =? Tree.n_vint b) && compare_double (Tree.n_vdbl a) (Tree.n_vdbl b), a, b)
   else if ta =? c_cJSON_String then
     match Tree.n_vstr a, Tree.n_vstr b with
     | Some x, Some y => Ok (strcmp x y =? 0, a, b)
     | _, _ => OOB
     end
   else if ta =? c_cJSON_Array then
     '(r, la, lb) <- mp_walk_gen vpre_arr (MergeDefs.mp_compare_json f flag) (Tree.n_children a) (Tree.n_children b) ;;
     Ok (r, MergeDefs.mp_set_children a la, MergeDefs.mp_set_children b lb)
   else if ta =? c_cJSON_Object then
     sa <- MergeDefs.mp_sort_members flag (Tree.n_children a) ;;
     sb <- MergeDefs.mp_sort_members flag (Tree.n_children b) ;;
     '(r, la, lb) <- mp_walk_gen (vpre_obj flag) (MergeDefs.mp_compare_json f flag) sa sb ;;
     Ok (r, MergeDefs.mp_set_children a la, MergeDefs.mp_set_children b lb)
   else Ok (true, a, b)).
Proof. cbn [MergeDefs.mp_compare_json]. rewrite arr_walk_gen. cbv zeta.
  destruct (negb _); [done|]. destruct (_ =? c_cJSON_Number); [done|]. destruct (_ =? c_cJSON_String); [done|].
  destruct (_ =? c_cJSON_Array); [done|]. destruct (_ =? c_cJSON_Object); [|done].
  destruct (MergeDefs.mp_sort_members flag (Tree.n_children a)) as [sa| |]; cbn [bind]; try done.
  destruct (MergeDefs.mp_sort_members flag (Tree.n_children b)) as [sb| |]; cbn [bind]; try done.
  by rewrite obj_walk_gen.
Qed.

(** * what is proved about one call *)
Definition cmp_pre (h : heap) (G X : forest) (ta tb : tree) (lf : nat) : Prop :=
  MInv h (G ++ X) /\ find_tree (tid ta) G = Some ta /\ find_tree (tid tb) G = Some tb /\ tdisj ta tb /\
  (tsize ta + tsize tb < lf)%nat /\ gdoc ta /\ gdoc tb.

Definition cmp_post_out (flag : bool) (h : heap) (G X : forest) (ta tb : tree) (o : out (bool * heap)) : Prop :=
  exists h' G' (r : bool) ta' tb',
    o = Ret (r, h') /\ MInv h' (G' ++ X) /\ (NoLeak h (G ++ X) -> NoLeak h' (G' ++ X)) /\
    h_str h' = h_str h /\ h_next h' = h_next h /\
    Frame G G' (ids_t ta ++ ids_t tb) /\
    find_tree (tid ta) G' = Some ta' /\ find_tree (tid tb) G' = Some tb' /\ treord ta ta' /\ treord tb tb' /\
    forall fv, (height ta < fv)%nat ->
      MergeDefs.mp_compare_json fv flag (reify (h_str h) ta) (reify (h_str h) tb) =
      Ok (r, reify (h_str h) ta', reify (h_str h) tb').

Definition cmp_post (flag : bool) (h : heap) (G X : forest) (ta tb : tree) (run : M bool) : Prop :=
  cmp_post_out flag h G X ta tb (run h).

Definition cmp_spec (df lf : nat) (flag : bool) : Prop :=
  forall ta tb h G X, (tsize ta <= df)%nat -> cmp_pre h G X ta tb lf ->
    cmp_post flag h G X ta tb (compare_json_fuel df lf (Some (tid ta)) (Some (tid tb)) flag).

(** * small facts *)
Lemma lookup_mid_tid (l1 : list tree) x l2 : (tid <$> (l1 ++ x :: l2)) !! length l1 = Some (tid x).
Proof. rewrite fmap_app, fmap_cons. rewrite lookup_app_r by (by rewrite fmap_length). by rewrite fmap_length, Nat.sub_diag. Qed.
Lemma lookup_end_tid (l1 : list tree) : (tid <$> (l1 ++ [])) !! length l1 = None.
Proof. apply lookup_ge_None_2. rewrite fmap_length, app_nil_r. lia. Qed.
Lemma insert_mid {A} (l1 : list A) x y l2 : <[length l1 := y]> (l1 ++ x :: l2) = l1 ++ y :: l2.
Proof. rewrite insert_app_r_alt by lia. by rewrite Nat.sub_diag. Qed.
Lemma lookup_mid {A} (l1 : list A) x l2 : (l1 ++ x :: l2) !! length l1 = Some x.
Proof. rewrite lookup_app_r by lia. by rewrite Nat.sub_diag. Qed.
Lemma elem_mid {A} (l1 : list A) x l2 : x ∈ l1 ++ x :: l2.
Proof. apply elem_of_app. right. by left. Qed.

Lemma treord_replace_child i d l1 x x' l2 : treord x x' -> treord (T i d (l1 ++ x :: l2)) (T i d (l1 ++ x' :: l2)).
Proof.
  intros H. apply treord_intro with (mid := l1 ++ x' :: l2); [|done].
  apply Forall2_app; [apply Forall2_treord_refl|]. constructor; [done|apply Forall2_treord_refl].
Qed.

Lemma ids_subset_child (cs : list tree) c : c ∈ cs -> forall x, x ∈ ids_t c -> x ∈ ids cs.
Proof.
  intros Hc x Hx. apply elem_of_list_fmap in Hx as (n & -> & Hn). apply elem_of_list_fmap. exists n. split; [done|].
  apply elem_of_nodes. exists c. by split.
Qed.

Lemma tsize_child_lt i d cs c : c ∈ cs -> (tsize c < tsize (T i d cs))%nat.
Proof. intros Hc. rewrite tsize_unfold. pose proof (nodes_length_elem c cs Hc). lia. Qed.

Lemma height_child_lt i d cs c : c ∈ cs -> (height c < height (T i d cs))%nat.
Proof. intros Hc. rewrite height_unfold. pose proof (height_list_elem c cs Hc). lia. Qed.

Lemma node_in_app_l (G X : forest) n : n ∈ nodes G -> n ∈ nodes (G ++ X).
Proof. intros H. rewrite nodes_app. apply elem_of_app. by left. Qed.

(** the key comparison of the object loop *)
Lemma pre_obj_run (flag : bool) h F x y (k : M bool) :
  MInv h F -> x ∈ nodes F -> y ∈ nodes F -> rd_key (tdata x) <> None -> rd_key (tdata y) <> None ->
  pre_obj flag (Some (tid x)) (Some (tid y)) k h =
  if vpre_obj flag (reify (h_str h) x) (reify (h_str h) y) then k h else Ret (false, h).
Proof.
  intros I Hx Hy Kx Ky. pose proof (mi_wf _ _ I) as W. pose proof (wf_nodup _ _ W) as ND.
  destruct x as [xi dx xcs], y as [yi dy ycs]. cbn [tid tdata] in *.
  pose proof (find_tree_unique xi F _ ND Hx eq_refl) as Fx. pose proof (find_tree_unique yi F _ ND Hy eq_refl) as Fy.
  destruct (rd_key dx) as [kx|] eqn:Ex; [|done]. destruct (rd_key dy) as [ky|] eqn:Ey; [|done].
  destruct (proj2 (proj2 (MInv_node_data h F I _ Hx)) kx Ex) as (Hlx & sx & Hsx & Hzx).
  destruct (proj2 (proj2 (MInv_node_data h F I _ Hy)) ky Ey) as (Hly & sy & Hsy & Hzy).
  unfold pre_obj.
  rewrite (bindM_Ret _ _ _ _ _ (run_get_key_node h F xi dx xcs W Fx)), Ex.
  rewrite (bindM_Ret _ _ _ _ _ (run_get_key_node h F yi dy ycs W Fy)), Ey.
  unfold vpre_obj. rewrite !reify_unfold. cbn [Tree.n_key cstr_of]. unfold bytes in *. rewrite Ex, Ey. cbn [cstr_of].
  unfold bytes in *. rewrite Hsx, Hsy. cbn [fmap option_fmap option_map MergeDefs.mp_compare_strings].
  unfold SortDefs.compare_strings. destruct (Pos.eqb_spec kx ky) as [->|Hne].
  - rewrite bindM_ret. rewrite Hsx in Hsy. injection Hsy as <-.
    change (if flag then strcmp (cstr sx) (cstr sx) else strcasecmp_c (cstr sx) (cstr sx)) with (SortDefs.key_cmp flag (cstr sx) (cstr sx)).
    rewrite SortSpec.key_cmp_refl. done.
  - rewrite !bindM_assoc. rewrite (bindM_Ret _ _ _ _ _ (run_ld_cstr h kx sx Hlx Hsx Hzx)).
    rewrite !bindM_assoc. rewrite (bindM_Ret _ _ _ _ _ (run_ld_cstr h ky sy Hly Hsy Hzy)).
    rewrite bindM_ret.
    destruct ((if flag then strcmp (cstr sx) (cstr sy) else strcasecmp_c (cstr sx) (cstr sy)) =? 0); done.
Qed.

(** * the sibling loop *)
Section Loop.
  Context (flag : bool) (df lf : nat) (X : forest).
  Context (pre : ptr -> ptr -> M bool -> M bool) (vpre : Tree.node -> Tree.node -> bool) (okn : tree -> Prop).
  Hypothesis Hpre : forall h F x y (k : M bool), MInv h F -> x ∈ nodes F -> y ∈ nodes F -> okn x -> okn y ->
    pre (Some (tid x)) (Some (tid y)) k h =
    if vpre (reify (h_str h) x) (reify (h_str h) y) then k h else Ret (false, h).
  Hypothesis IH : cmp_spec df lf flag.
  Context (a b : positive) (da db : rdata).
  Notation rec := (fun x y => compare_json_fuel df lf x y flag).

  Lemma cmp_loop_sim : forall rest_a pre_a rest_b pre_b, length pre_a = length pre_b ->
    forall (n : nat) h G, (length rest_a < n)%nat -> MInv h (G ++ X) ->
    find_tree a G = Some (T a da (pre_a ++ rest_a)) -> find_tree b G = Some (T b db (pre_b ++ rest_b)) ->
    tdisj (T a da (pre_a ++ rest_a)) (T b db (pre_b ++ rest_b)) ->
    (tsize (T a da (pre_a ++ rest_a)) + tsize (T b db (pre_b ++ rest_b)) < lf)%nat ->
    (forall c, c ∈ rest_a -> (tsize c <= df)%nat /\ gdoc c /\ okn c) ->
    (forall c, c ∈ rest_b -> gdoc c /\ okn c) ->
    exists h' G' (r : bool) rest_a' rest_b',
      cmp_loop pre rec n ((tid <$> (pre_a ++ rest_a)) !! length pre_a) ((tid <$> (pre_b ++ rest_b)) !! length pre_b) h = Ret (r, h') /\
      MInv h' (G' ++ X) /\ (NoLeak h (G ++ X) -> NoLeak h' (G' ++ X)) /\
      h_str h' = h_str h /\ h_next h' = h_next h /\
      Frame G G' (ids rest_a ++ ids rest_b) /\
      find_tree a G' = Some (T a da (pre_a ++ rest_a')) /\ find_tree b G' = Some (T b db (pre_b ++ rest_b')) /\
      Forall2 treord rest_a rest_a' /\ Forall2 treord rest_b rest_b' /\
      forall fv, (forall c, c ∈ rest_a -> (height c < fv)%nat) ->
        mp_walk_gen vpre (MergeDefs.mp_compare_json fv flag) (map (reify (h_str h)) rest_a) (map (reify (h_str h)) rest_b) =
        Ok (r, map (reify (h_str h)) rest_a', map (reify (h_str h)) rest_b').
  Proof.
    induction rest_a as [|x ra IHr]; intros pre_a rest_b pre_b Elen n h G Hn I Ha Hb Hdis Hsz Hra Hrb.
    - (* a ran out *)
      destruct n as [|n']; [cbn in Hn; lia|]. rewrite lookup_end_tid. cbn [cmp_loop is_null orb andb].
      exists h, G, (match rest_b with [] => true | _ => false end), [], rest_b.
      split.
      { destruct rest_b as [|y rb]; [by rewrite lookup_end_tid|by rewrite lookup_mid_tid]. }
      split; [done|]. split; [done|]. split; [done|]. split; [done|]. split; [apply Frame_refl|].
      split; [done|]. split; [done|]. split; [constructor|]. split; [apply Forall2_treord_refl|].
      intros fv _. by destruct rest_b.
    - destruct n as [|n']; [cbn in Hn; lia|]. cbn [length] in Hn.
      rewrite lookup_mid_tid.
      destruct rest_b as [|y rb].
      { (* b ran out *)
        rewrite lookup_end_tid. cbn [cmp_loop is_null orb andb].
        exists h, G, false, (x :: ra), []. split; [done|]. split; [done|]. split; [done|]. split; [done|]. split; [done|].
        split; [apply Frame_refl|]. split; [done|]. split; [done|]. split; [apply Forall2_treord_refl|]. split; [constructor|].
        by intros fv _. }
      rewrite lookup_mid_tid. cbn [cmp_loop is_null orb].
      pose proof (mi_wf _ _ I) as W. pose proof (nodup_ids_l _ _ _ W) as NDG.
      pose proof (find_tree_child G a da _ x NDG Ha (elem_mid pre_a x ra)) as Hx.
      pose proof (find_tree_child G b db _ y NDG Hb (elem_mid pre_b y rb)) as Hy.
      assert (Hxn : x ∈ nodes (G ++ X)) by (apply node_in_app_l; by apply find_tree_Some in Hx as [? _]).
      assert (Hyn : y ∈ nodes (G ++ X)) by (apply node_in_app_l; by apply find_tree_Some in Hy as [? _]).
      destruct (Hra x ltac:(by left)) as (Hxsz & Hxg & Hxo). destruct (Hrb y ltac:(by left)) as (Hyg & Hyo).
      rewrite (Hpre h (G ++ X) x y _ I Hxn Hyn Hxo Hyo). cbn [map mp_walk_gen].
      destruct (vpre (reify (h_str h) x) (reify (h_str h) y)) eqn:Ev; cbn [negb].
      2:{ (* the precondition of the pair fails *)
        exists h, G, false, (x :: ra), (y :: rb). split; [done|]. split; [done|]. split; [done|]. split; [done|]. split; [done|].
        split; [apply Frame_refl|]. split; [done|]. split; [done|]. split; [apply Forall2_treord_refl|]. split; [apply Forall2_treord_refl|].
        by intros fv _. }
      (* the recursive call on the pair *)
      assert (Hdxy : tdisj x y) by (eapply tdisj_children; [exact Hdis|apply elem_mid|apply elem_mid]).
      pose proof (tsize_child_lt a da _ x (elem_mid pre_a x ra)) as Hx1.
      pose proof (tsize_child_lt b db _ y (elem_mid pre_b y rb)) as Hy1.
      destruct (IH x y h G X Hxsz) as (h1 & G1 & r & x' & y' & Hrun1 & I1 & NL1 & Es1 & En1 & Fr1 & Hx' & Hy' & Rx & Ry & V1).
      { split; [done|]. split; [done|]. split; [done|]. split; [done|]. split; [lia|]. by split. }
      rewrite (bindM_Ret _ _ _ _ _ Hrun1).
      pose proof (mi_wf _ _ I1) as W1. pose proof (nodup_ids_l _ _ _ W1) as NDG1.
      (* the two parents after the call *)
      assert (HaS : forall z, z ∈ ids_t (T a da (pre_a ++ x :: ra)) -> z ∉ ids_t y).
      { intros z Hz Hz'. apply (Hdis z Hz). eapply ids_t_child; [apply (elem_mid pre_b y rb)|done]. }
      assert (HbS : forall z, z ∈ ids_t (T b db (pre_b ++ y :: rb)) -> z ∉ ids_t x).
      { intros z Hz Hz'. apply (Hdis z); [|done]. eapply ids_t_child; [apply (elem_mid pre_a x ra)|done]. }
      assert (Ha1 : find_tree a G1 = Some (T a da (pre_a ++ x' :: ra))).
      { rewrite <- (insert_mid pre_a x x' ra).
        apply (frame_parent G G1 _ a da _ (length pre_a) x x' Fr1 NDG NDG1 Ha (lookup_mid _ _ _) Hx' (treord_tid _ _ Rx)).
        - intros Hin. apply elem_of_app in Hin as [Hin|Hin].
          + by apply (parent_not_in_child G a da _ x NDG Ha (elem_mid pre_a x ra)).
          + apply (HaS a); [|done]. rewrite ids_t_unfold. by left.
        - intros j cj Hj Hne z Hz Hin. apply elem_of_app in Hin as [Hin|Hin].
          + by apply (siblings_disjoint G a da _ j (length pre_a) cj x NDG Ha Hj (lookup_mid _ _ _) Hne z Hz).
          + apply (HaS z); [|done]. eapply ids_t_child; [by eapply elem_of_list_lookup_2|done]. }
      assert (Hb1 : find_tree b G1 = Some (T b db (pre_b ++ y' :: rb))).
      { rewrite <- (insert_mid pre_b y y' rb).
        apply (frame_parent G G1 _ b db _ (length pre_b) y y' Fr1 NDG NDG1 Hb (lookup_mid _ _ _) Hy' (treord_tid _ _ Ry)).
        - intros Hin. apply elem_of_app in Hin as [Hin|Hin].
          + apply (HbS b); [|done]. rewrite ids_t_unfold. by left.
          + by apply (parent_not_in_child G b db _ y NDG Hb (elem_mid pre_b y rb)).
        - intros j cj Hj Hne z Hz Hin. apply elem_of_app in Hin as [Hin|Hin].
          + apply (HbS z); [|done]. eapply ids_t_child; [by eapply elem_of_list_lookup_2|done].
          + by apply (siblings_disjoint G b db _ j (length pre_b) cj y NDG Hb Hj (lookup_mid _ _ _) Hne z Hz). }
      assert (Fr1' : Frame G G1 (ids (x :: ra) ++ ids (y :: rb))).
      { apply (Frame_mono _ _ _ _ Fr1). intros z Hz. rewrite !ids_cons. apply elem_of_app in Hz as [Hz|Hz]; apply elem_of_app; [left|right]; apply elem_of_app; by left. }
      destruct r; cbn [negb].
      2:{ (* not identical: return false *)
        exists h1, G1, false, (x' :: ra), (y' :: rb). split; [done|]. split; [done|]. split; [done|]. split; [done|]. split; [done|].
        split; [done|]. split; [done|]. split; [done|].
        split; [constructor; [done|apply Forall2_treord_refl]|]. split; [constructor; [done|apply Forall2_treord_refl]|].
        intros fv Hfv. rewrite (V1 fv (Hfv x ltac:(by left))). done. }
      (* identical: advance both pointers *)
      pose proof (find_tree_flat _ _ _ _ (find_tree_app_l a G1 X _ Ha1)) as Hfa.
      pose proof (find_tree_flat _ _ _ _ (find_tree_app_l b G1 X _ Hb1)) as Hfb.
      rewrite (bindM_Ret _ _ _ _ _ (chain_get_next h1 (G1 ++ X) a da _ (length pre_a) (tid x) W1 Hfa
                 ltac:(rewrite <- (treord_tid _ _ Rx); apply lookup_mid_tid))).
      rewrite (bindM_Ret _ _ _ _ _ (chain_get_next h1 (G1 ++ X) b db _ (length pre_b) (tid y) W1 Hfb
                 ltac:(rewrite <- (treord_tid _ _ Ry); apply lookup_mid_tid))).
      assert (Ea : pre_a ++ x' :: ra = (pre_a ++ [x']) ++ ra) by (by rewrite <- app_assoc).
      assert (Eb : pre_b ++ y' :: rb = (pre_b ++ [y']) ++ rb) by (by rewrite <- app_assoc).
      assert (Ela : S (length pre_a) = length (pre_a ++ [x'])) by (rewrite app_length; cbn; lia).
      assert (Elb : S (length pre_b) = length (pre_b ++ [y'])) by (rewrite app_length; cbn; lia).
      rewrite Ea, Eb, Ela, Elb. rewrite Ea in Ha1. rewrite Eb in Hb1.
      pose proof (treord_replace_child a da pre_a x x' ra Rx) as RA.
      pose proof (treord_replace_child b db pre_b y y' rb Ry) as RB.
      rewrite Ea in RA. rewrite Eb in RB.
      destruct (IHr (pre_a ++ [x']) rb (pre_b ++ [y']) ltac:(rewrite !app_length; cbn; lia) n' h1 G1 ltac:(lia) I1 Ha1 Hb1)
        as (h2 & G2 & r2 & ra' & rb' & Hrun2 & I2 & NL2 & Es2 & En2 & Fr2 & Ha2 & Hb2 & RA2 & RB2 & V2).
      { exact (tdisj_treord _ _ _ _ Hdis RA RB). }
      { rewrite (treord_tsize _ _ RA), (treord_tsize _ _ RB). exact Hsz. }
      { intros c Hc. apply Hra. by right. }
      { intros c Hc. apply Hrb. by right. }
      exists h2, G2, r2, (x' :: ra'), (y' :: rb'). split; [exact Hrun2|]. split; [done|].
      split; [intros NL; by apply NL2, NL1|]. split; [by rewrite Es2|]. split; [by rewrite En2|].
      split.
      { apply (Frame_trans G G1 G2); [done|]. apply (Frame_mono _ _ _ _ Fr2). intros z Hz. rewrite !ids_cons.
        apply elem_of_app in Hz as [Hz|Hz]; apply elem_of_app; [left|right]; apply elem_of_app; by right. }
      rewrite <- !app_assoc in Ha2, Hb2. cbn [app] in Ha2, Hb2.
      split; [done|]. split; [done|]. split; [by constructor|]. split; [by constructor|].
      intros fv Hfv. rewrite (V1 fv (Hfv x ltac:(by left))). cbn [bind].
      rewrite Es1 in V2. rewrite (V2 fv); [done|]. intros c Hc. apply Hfv. by right.
  Qed.
End Loop.

(** * the recursion *)
Lemma tymask_reify St i d cs : Tree.tymask (Tree.n_ty (reify St (T i d cs))) = Z.land (rd_type d) 255.
Proof. reflexivity. Qed.

Lemma MInv_node_facts h F i d cs :
  MInv h F -> find_tree i F = Some (T i d cs) ->
  nd_at h i (mk_dat d (tid <$> cs)) /\ is_ref d = false /\
  (forall b, rd_vstr d = Some b -> str_ok h b) /\ (forall b, rd_key d = Some b -> str_ok h b).
Proof.
  intros I Hf. pose proof (mi_wf _ _ I) as W. split; [exact (WF_live_dat _ _ _ _ _ W Hf)|].
  apply find_tree_Some in Hf as [Hn _]. destruct (MInv_node_data h F I _ Hn) as [[Hr _] [R1 R2]]. by split.
Qed.

Lemma run_child_node h F i d cs :
  MInv h F -> find_tree i F = Some (T i d cs) -> get_child (Some i) h = Ret ((tid <$> cs) !! 0%nat, h).
Proof.
  intros I Hf. destruct (MInv_node_facts h F i d cs I Hf) as ([Hl Hd] & Hr & _).
  rewrite (run_get_child_plain _ _ _ Hl Hd).
  change (nd_child (mk_dat d (tid <$> cs))) with (child_of d (tid <$> cs)).
  by rewrite (ref_ok_child_of _ _ _ _ (wf_ref _ _ (mi_wf _ _ I)) (find_tree_flat _ _ _ _ Hf) Hr).
Qed.

Theorem compare_rec : forall df lf flag, cmp_spec df lf flag.
Proof.
  induction df as [|df IHdf]; intros lf flag ta tb h G X Hdf (I & Hta & Htb & Hdis & Hlf & Ga & Gb).
  { pose proof (tsize_pos ta). lia. }
  destruct ta as [a da acs], tb as [b db bcs]. cbn [tid] in *.
  unfold cmp_post. rewrite compare_json_fuel_S. cbn [is_null orb].
  pose proof (mi_wf _ _ I) as W. pose proof (nodup_ids_l _ _ _ W) as NDG.
  pose proof (find_tree_app_l a G X _ Hta) as HaF. pose proof (find_tree_app_l b G X _ Htb) as HbF.
  destruct (MInv_node_facts h _ a da acs I HaF) as (Hnda & Hrefa & Rva & _).
  destruct (MInv_node_facts h _ b db bcs I HbF) as (Hndb & Hrefb & Rvb & _).
  (* the result when nothing is touched *)
  assert (Hstay : forall (r : bool),
            (forall fv, (height (T a da acs) < fv)%nat ->
               MergeDefs.mp_compare_json fv flag (reify (h_str h) (T a da acs)) (reify (h_str h) (T b db bcs)) =
               Ok (r, reify (h_str h) (T a da acs), reify (h_str h) (T b db bcs))) ->
            cmp_post_out flag h G X (T a da acs) (T b db bcs) (Ret (r, h))).
  { intros r Hv. exists h, G, r, (T a da acs), (T b db bcs). split; [done|]. split; [done|]. split; [done|].
    split; [done|]. split; [done|]. split; [apply Frame_refl|]. split; [done|]. split; [done|].
    split; [apply treord_refl|]. split; [apply treord_refl|]. exact Hv. }
  destruct Hnda as [Hla Hda]. destruct Hndb as [Hlb Hdb].
  pose proof (run_get_type_plain _ _ _ Hla Hda) as Rta. pose proof (run_get_type_plain _ _ _ Hlb Hdb) as Rtb.
  cbn [nd_type mk_dat] in Rta, Rtb.
  rewrite (bindM_Ret _ _ _ _ _ Rta), (bindM_Ret _ _ _ _ _ Rtb).
  destruct (negb (Z.land (rd_type da) 255 =? Z.land (rd_type db) 255)) eqn:Emis.
  { (* mismatched type *)
    apply (Hstay false).
    intros [|f] Hf; [lia|]. rewrite mp_compare_json_S. cbv zeta. rewrite !tymask_reify. by rewrite Emis. }
  rewrite (bindM_Ret _ _ _ _ _ Rta). cbv zeta.
  destruct (Z.land (rd_type da) 255 =? c_cJSON_Number) eqn:Enum.
  { (* numbers *)
    rewrite (bindM_Ret _ _ _ _ _ (run_get_vint_plain h a _ (conj Hla Hda))).
    rewrite (bindM_Ret _ _ _ _ _ (run_get_vint_plain h b _ (conj Hlb Hdb))). cbn [nd_vint mk_dat].
    assert (Hv : forall fv, (height (T a da acs) < fv)%nat ->
               MergeDefs.mp_compare_json fv flag (reify (h_str h) (T a da acs)) (reify (h_str h) (T b db bcs)) =
               Ok ((rd_vint da =? rd_vint db) && compare_double (rd_vdbl da) (rd_vdbl db), reify (h_str h) (T a da acs), reify (h_str h) (T b db bcs))).
    { intros [|f] Hf; [lia|]. rewrite mp_compare_json_S. cbv zeta. rewrite !tymask_reify. by rewrite Emis, Enum. }
    destruct (rd_vint da =? rd_vint db); cbn [negb andb] in *; [|by apply (Hstay false)].
    rewrite (bindM_Ret _ _ _ _ _ (run_get_vdbl_plain h a _ (conj Hla Hda))).
    rewrite (bindM_Ret _ _ _ _ _ (run_get_vdbl_plain h b _ (conj Hlb Hdb))). cbn [nd_vdbl mk_dat].
    by apply Hstay. }
  destruct (Z.land (rd_type da) 255 =? c_cJSON_String) eqn:Estr.
  { (* strings *)
    assert (Etb : Z.land (rd_type db) 255 = c_cJSON_String).
    { apply negb_false_iff in Emis. apply Z.eqb_eq in Emis, Estr. congruence. }
    destruct (rd_vstr da) as [va|] eqn:Eva; [|exfalso; apply Z.eqb_eq in Estr; by apply (proj2 (gdoc_self _ Ga) Estr)].
    destruct (rd_vstr db) as [vb|] eqn:Evb; [|exfalso; by apply (proj2 (gdoc_self _ Gb) Etb)].
    destruct (Rva va eq_refl) as (Hlva & sa & Hsa & Hza). destruct (Rvb vb eq_refl) as (Hlvb & sb & Hsb & Hzb).
    rewrite (bindM_Ret _ _ _ _ _ (run_get_vstr_plain _ _ _ Hla Hda)).
    rewrite (bindM_Ret _ _ _ _ _ (run_get_vstr_plain _ _ _ Hlb Hdb)). cbn [nd_vstr mk_dat]. rewrite Eva, Evb.
    unfold c_strcmp. rewrite !bindM_assoc. rewrite (bindM_Ret _ _ _ _ _ (run_ld_cstr h va sa Hlva Hsa Hza)).
    rewrite !bindM_assoc. rewrite (bindM_Ret _ _ _ _ _ (run_ld_cstr h vb sb Hlvb Hsb Hzb)). rewrite !bindM_ret.
    apply (Hstay (strcmp (cstr sa) (cstr sb) =? 0)).
    intros [|f] Hf; [lia|]. rewrite mp_compare_json_S. cbv zeta. rewrite !tymask_reify. rewrite Emis, Enum, Estr.
    rewrite !reify_unfold. cbn [Tree.n_vstr]. rewrite Eva, Evb. cbn [cstr_of]. unfold bytes in *. by rewrite Hsa, Hsb. }
  destruct (Z.land (rd_type da) 255 =? c_cJSON_Array) eqn:Earr.
  { (* arrays *)
    rewrite (bindM_Ret _ _ _ _ _ (run_child_node h _ a da acs I HaF)).
    rewrite (bindM_Ret _ _ _ _ _ (run_child_node h _ b db bcs I HbF)).
    destruct (cmp_loop_sim flag df lf X pre_arr vpre_arr (fun _ => True) ltac:(done) (IHdf lf flag) a b da db
                acs [] bcs [] eq_refl lf h G) as (h' & G' & r & acs' & bcs' & Hrun & I' & NL' & Es & En & Fr & Ha' & Hb' & RA & RB & V).
    { pose proof (nodes_length_ge acs). rewrite tsize_unfold in Hlf. lia. }
    { exact I. } { exact Hta. } { exact Htb. } { exact Hdis. } { exact Hlf. }
    { intros c Hc. split; [|split; [exact (gdoc_child _ _ _ _ Ga Hc)|done]]. pose proof (tsize_child_lt a da acs c Hc). lia. }
    { intros c Hc. split; [exact (gdoc_child _ _ _ _ Gb Hc)|done]. }
    cbn [app length] in Hrun, Ha', Hb'.
    exists h', G', r, (T a da acs'), (T b db bcs'). split; [exact Hrun|]. split; [done|]. split; [done|]. split; [done|]. split; [done|].
    split.
    { apply (Frame_mono _ _ _ _ Fr). intros z Hz. rewrite !ids_t_unfold.
      apply elem_of_app in Hz as [Hz|Hz]; apply elem_of_app; [left|right]; by right. }
    split; [done|]. split; [done|].
    split; [by apply (treord_intro a da acs acs' acs')|]. split; [by apply (treord_intro b db bcs bcs' bcs')|].
    intros [|f] Hf; [lia|]. rewrite mp_compare_json_S. cbv zeta. rewrite !tymask_reify. rewrite Emis, Enum, Estr, Earr.
    rewrite !reify_children. cbn [tchildren]. rewrite (V f).
    - cbn [bind]. by rewrite !reify_mp_set_children.
    - intros c Hc. pose proof (height_child_lt a da acs c Hc). lia. }
  destruct (Z.land (rd_type da) 255 =? c_cJSON_Object) eqn:Eobj.
  2:{ (* null, true, false (raw, invalid) *)
    apply (Hstay true).
    intros [|f] Hf; [lia|]. rewrite mp_compare_json_S. cbv zeta. rewrite !tymask_reify. by rewrite Emis, Enum, Estr, Earr, Eobj. }
  (* objects: sort both, then walk *)
  assert (Eoa : Tree.tymask (rd_type da) = c_cJSON_Object) by (by apply Z.eqb_eq in Eobj).
  assert (Eob : Tree.tymask (rd_type db) = c_cJSON_Object).
  { apply negb_false_iff in Emis. apply Z.eqb_eq in Emis. unfold Tree.tymask in *. congruence. }
  rewrite tsize_unfold in Hlf. rewrite (tsize_unfold b db bcs) in Hlf.
  pose proof (nodes_length_ge acs) as Hla'. pose proof (nodes_length_ge bcs) as Hlb'.
  destruct (step_sort h G X a da acs flag lf I Hta (proj1 (gdoc_self _ Ga) Eoa) ltac:(unfold SortDefs.sort_fuel; lia))
    as (h1 & Hrun1 & I1 & NL1 & Es1 & En1 & Ha1 & Fr1 & Pa & Va).
  set (acs1 := sort_children (h_str h) flag acs) in *. set (G1 := set_children a acs1 G) in *.
  rewrite (bindM_Ret _ _ _ _ _ Hrun1).
  pose proof (mi_wf _ _ I1) as W1. pose proof (nodup_ids_l _ _ _ W1) as NDG1.
  assert (Hb1 : find_tree b G1 = Some (T b db bcs)).
  { apply (frame_find G G1 [a] (T b db bcs) Fr1 NDG1 Htb). intros z Hz Hin. apply elem_of_list_singleton in Hin as ->.
    apply (Hdis a); [|done]. rewrite ids_t_unfold. by left. }
  destruct (step_sort h1 G1 X b db bcs flag lf I1 Hb1 (proj1 (gdoc_self _ Gb) Eob) ltac:(unfold SortDefs.sort_fuel; lia))
    as (h2 & Hrun2 & I2 & NL2 & Es2 & En2 & Hb2 & Fr2 & Pb & Vb).
  rewrite Es1 in Vb, Hb2, Fr2, Pb, I2, NL2. set (bcs1 := sort_children (h_str h) flag bcs) in *. set (G2 := set_children b bcs1 G1) in *.
  rewrite (bindM_Ret _ _ _ _ _ Hrun2).
  pose proof (mi_wf _ _ I2) as W2. pose proof (nodup_ids_l _ _ _ W2) as NDG2.
  assert (RA1 : treord (T a da acs) (T a da acs1)) by (apply treord_children with (sorted := acs1); [by symmetry|apply Forall2_treord_refl]).
  assert (RB1 : treord (T b db bcs) (T b db bcs1)) by (apply treord_children with (sorted := bcs1); [by symmetry|apply Forall2_treord_refl]).
  pose proof (tdisj_treord _ _ _ _ Hdis RA1 RB1) as Hdis1.
  assert (Ha2 : find_tree a G2 = Some (T a da acs1)).
  { apply (frame_find G1 G2 [b] (T a da acs1) Fr2 NDG2 Ha1). intros z Hz Hin. apply elem_of_list_singleton in Hin as ->.
    apply (Hdis1 b Hz). rewrite ids_t_unfold. by left. }
  rewrite (bindM_Ret _ _ _ _ _ (run_child_node h2 _ a da acs1 I2 (find_tree_app_l a G2 X _ Ha2))).
  rewrite (bindM_Ret _ _ _ _ _ (run_child_node h2 _ b db bcs1 I2 (find_tree_app_l b G2 X _ Hb2))).
  pose proof (treord_gdoc _ _ RA1 Ga) as Ga1. pose proof (treord_gdoc _ _ RB1 Gb) as Gb1.
  destruct (cmp_loop_sim flag df lf X (pre_obj flag) (vpre_obj flag) (fun c => rd_key (tdata c) <> None)
              ltac:(intros h0 F0 x0 y0 k0 I0 Hx0 Hy0 Kx Ky; exact (pre_obj_run flag h0 F0 x0 y0 k0 I0 Hx0 Hy0 Kx Ky)) (IHdf lf flag) a b da db
              acs1 [] bcs1 [] eq_refl lf h2 G2) as (h' & G' & r & acs' & bcs' & Hrun & I' & NL' & Es & En & Fr & Ha' & Hb' & RA & RB & V).
  { rewrite (Permutation_length Pa). lia. }
  { exact I2. } { exact Ha2. } { exact Hb2. } { exact Hdis1. }
  { cbn [app]. rewrite (treord_tsize _ _ RA1), (treord_tsize _ _ RB1), !tsize_unfold. lia. }
  { intros c Hc. split; [|split; [exact (gdoc_child _ _ _ _ Ga1 Hc)|]].
    - pose proof (tsize_child_lt a da acs1 c Hc) as Hlt. rewrite (treord_tsize _ _ RA1) in Hlt. lia.
    - exact (proj1 (gdoc_self _ Ga1) Eoa c Hc). }
  { intros c Hc. split; [exact (gdoc_child _ _ _ _ Gb1 Hc)|]. exact (proj1 (gdoc_self _ Gb1) Eob c Hc). }
  cbn [app length] in Hrun, Ha', Hb'.
  exists h', G', r, (T a da acs'), (T b db bcs'). split; [exact Hrun|]. split; [done|].
  split; [intros NL; by apply NL', NL2, NL1|]. split; [by rewrite Es, Es2|]. split; [by rewrite En, En2|].
  split.
  { apply (Frame_trans G G1 G'); [|apply (Frame_trans G1 G2 G')].
    - apply (Frame_mono _ _ _ _ Fr1). intros z Hz. apply elem_of_list_singleton in Hz as ->. apply elem_of_app. left. rewrite ids_t_unfold. by left.
    - apply (Frame_mono _ _ _ _ Fr2). intros z Hz. apply elem_of_list_singleton in Hz as ->. apply elem_of_app. right. rewrite ids_t_unfold. by left.
    - apply (Frame_mono _ _ _ _ Fr). intros z Hz.
      pose proof (treord_ids _ _ RA1) as PA. pose proof (treord_ids _ _ RB1) as PB. rewrite !ids_t_unfold in PA, PB.
      apply elem_of_app in Hz as [Hz|Hz]; apply elem_of_app; [left|right]; rewrite ids_t_unfold.
      + rewrite <- PA. by right.
      + rewrite <- PB. by right. }
  split; [done|]. split; [done|].
  split; [apply treord_children with (sorted := acs1); [by symmetry|done]|].
  split; [apply treord_children with (sorted := bcs1); [by symmetry|done]|].
  intros [|f] Hf; [lia|]. rewrite mp_compare_json_S. cbv zeta. rewrite !tymask_reify. rewrite Emis, Enum, Estr, Earr, Eobj.
  rewrite !reify_children. cbn [tchildren]. rewrite Va. cbn [bind]. rewrite Vb. cbn [bind].
  rewrite Es2, Es1 in V. rewrite (V f).
  - cbn [bind]. by rewrite !reify_mp_set_children.
  - intros c Hc. pose proof (height_child_lt a da acs1 c Hc) as Hlt. rewrite (treord_height _ _ RA1) in Hlt. lia.
Qed.
