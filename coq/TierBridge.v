(** TierBridge.v — the Tier-A / Tier-B agreement (DESIGN 5.6) as theorems, for the primitives.

    Tier B (PatchDefs.v, MergeDefs.v: JSON Patch / Merge Patch over [Tree.node] with ordered member lists)
    PRESUPPOSES that the primitives it calls behave like list functions on the member list.  Tier A proves
    (C06: Properties_C06.v, C19: Properties_C19.v) that the C primitives, run on the pointer-linked heap,
    refine the forest-level list model of CoreSpec.v ([spec_*]) resp. [SortDefs.sort_spec].  This file
    closes the triangle: with [reify St] (CoreRefineDupValue.v: forest tree + string heap ↦ [Tree.node]) as
    the abstraction,

        reify (object in the forest after spec_f F args) = value_f (reify (object before)) args'

    for every primitive the Tier-B models call.  Hypotheses are those of the C06 simulation lemmas
    ([NoDup (ids F)] is [wf_nodup] of [WF h F]; "the container is the node [p] with children [cs]"; "the
    item is the detached root [tx]"), so each lemma composes with the corresponding C06 theorem.

    Reading guide: [F] forest, [St] the string heap ([h_str h]), [p] the container with data [d] and
    children [cs], [obj := reify St (T p d cs)].  Result pointers of the forest level are compared with
    value-level results through the dereference [find_tree x F'] / [find_root x F'].

    DEVIATIONS between the value-level models and the core primitives (all deliberate, all documented at
    the lemma):
    (D1) array detach / insert in JSON Patch are Utils' OWN [detach_item_from_array] /
         [insert_item_in_array] (pointer surgery in cJSON_Utils.c), not cJSON_DetachItemFromArray /
         cJSON_InsertItemInArray.  On the member list they are [remove_nth] and [insert_nth]; the first
         agrees with [spec_detach_index] ([bridge_detach_index]); the second agrees with [spec_insert] for
         indices 0..length and REFUSES past the end where the core function appends
         ([bridge_insert_in_range], [insert_past_end_differs]).  Their heap-level refinement is NOT a
         consequence of C06 (see [tier_b_presupposition], remark).
    (D2) [overwrite_item] (replace the root in place) has no core counterpart; not bridged.
    (D3) Allocation failure is not modelled at Tier B: the lemmas for add/replace are stated for a
         successful copy of the key ([copy = Some nk]).
    (D4) The key comparison of [generate_merge_patch]'s walk is a plain strcmp in both variants; that is
         control flow of the utility, not a primitive. *)
From CJ Require Import Base Dbl Heap Forest ForestLemmas CoreSpec CoreRefine CoreRefineMore CoreRefineReplace
  CoreRefineAddObject CoreRefineObject CoreRefineDupBase CoreRefineDupTree CoreRefineDupValue.
From CJ Require Import TierBridgeDefs TierBridgeSort TierBridgeForest.
From CJ Require Tree CompareDefs PointerDefs PatchDefs MergeDefs SortDefs SortSpec.
From CJ.gen Require Import Constants.
From stdpp Require Import gmap.
From Coq Require Import Lia.
Local Open Scope Z_scope.

(** * 0. [reify]: fields *)
Lemma reify_unfold St i d cs :
  reify St (T i d cs) =
  Tree.Node (rd_type d) (cstr_of St (rd_vstr d)) (rd_vint d) (rd_vdbl d) (cstr_of St (rd_key d)) (map (reify St) cs).
Proof. reflexivity. Qed.
Lemma reify_key St c : Tree.n_key (reify St c) = key_string St c.
Proof.
  destruct c as [i d cs]. cbn. unfold key_string, cstr_of. cbn. destruct (rd_key d) as [b|]; cbn; [|done].
  by destruct (St !! b).
Qed.
Lemma reify_children St c : Tree.n_children (reify St c) = map (reify St) (tchildren c).
Proof. by destruct c. Qed.
Lemma reify_set_children St i d cs cs' :
  PatchDefs.set_children (reify St (T i d cs)) (map (reify St) cs') = reify St (T i d cs').
Proof. reflexivity. Qed.
Lemma reify_mp_set_children St i d cs cs' :
  MergeDefs.mp_set_children (reify St (T i d cs)) (map (reify St) cs') = reify St (T i d cs').
Proof. reflexivity. Qed.
Lemma mp_set_children_eq n l : MergeDefs.mp_set_children n l = PatchDefs.set_children n l.
Proof. by destruct n. Qed.

Lemma key_string_zfree St c k : key_string St c = Some k -> SortSpec.zfree k.
Proof.
  unfold key_string. destruct (rd_key (tdata c)) as [b|]; cbn; [|done]. destruct (St !! b) as [s|]; cbn; [|done].
  intros [= <-]. apply SortSpec.cstr_zfree.
Qed.
Lemma reify_keyed St c : has_key St c -> keyed (reify St c).
Proof. intros [k Hk]. exists k. rewrite reify_key. split; [done|by eapply key_string_zfree]. Qed.
Lemma vkey_reify St c : vkey (reify St c) = fkey St c.
Proof.
  unfold vkey, fkey. rewrite reify_key. destruct (key_string St c) as [k|] eqn:E; cbn; [|done].
  apply cstr_zfree_id. by eapply key_string_zfree.
Qed.
Lemma Forall_reify_keyed St cs : Forall (has_key St) cs -> Forall keyed (map (reify St) cs).
Proof. intros H. apply Forall_fmap. eapply Forall_impl; [exact H|]. intros c. apply reify_keyed. Qed.

(** the string heap may grow by blocks the tree does not refer to *)
Lemma reify_insert_fresh St nk v t : nk ∉ str_blocks t -> reify (<[nk := v]> St) t = reify St t.
Proof.
  induction t as [i d cs IH] using tree_ind'. cbn [str_blocks]. intros Hn.
  rewrite !not_elem_of_app in Hn. destruct Hn as (H1 & H2 & H3).
  rewrite !reify_unfold. f_equal.
  - destruct (rd_vstr d) as [b|]; [|done]. cbn. rewrite lookup_insert_ne; [done|]. intros ->. apply H1. cbn. by left.
  - destruct (rd_key d) as [b|]; [|done]. cbn. rewrite lookup_insert_ne; [done|]. intros ->. apply H2. cbn. by left.
  - apply map_ext_in. intros c Hc. apply elem_of_list_In in Hc. rewrite Forall_forall in IH. apply IH; [done|].
    intros Hin. apply H3. apply elem_of_list_bind. by exists c.
Qed.

(** * 1. by-key lookup: one position, two readings *)
Lemma key_pos_lookup St flag name cs k : key_pos St flag name cs = Some k -> is_Some (cs !! k).
Proof.
  revert k. induction cs as [|c r IH]; intros k; [done|]. cbn [key_pos].
  assert (Hrec : S <$> key_pos St flag name r = Some k -> is_Some ((c :: r) !! k)).
  { destruct (key_pos St flag name r) as [j|]; [|done]. intros [= <-]. by apply IH. }
  destruct (key_string St c) as [kk|].
  - destruct (key_match flag name kk); [|done]. intros [= <-]. by eexists.
  - destruct flag; [done|done].
Qed.

Lemma key_pos_find St (flag : bool) (name : bytes) cs :
  (if flag then find_key_cs St name cs else find_key_ci St name cs) =
  (key_pos St flag name cs ≫= fun k => tid <$> cs !! k).
Proof.
  induction cs as [|c r IH]; [by destruct flag|].
  assert (Hs : forall o : option nat, ((S <$> o) ≫= fun k => tid <$> (c :: r) !! k) = (o ≫= fun k => tid <$> r !! k)).
  { by intros [j|]. }
  destruct flag; cbn [find_key_cs find_key_ci key_pos key_match] in *.
  - destruct (key_string St c) as [kk|]; [|done]. destruct (bool_decide (name = kk)); [done|]. by rewrite Hs.
  - destruct (key_string St c) as [kk|]; [|by rewrite Hs].
    destruct (bool_decide (tolower <$> name = tolower <$> kk)); [done|]. by rewrite Hs.
Qed.

Lemma key_pos_goi St (flag : bool) (name : bytes) cs : SortSpec.zfree name -> forall i : nat,
  (if flag then CompareDefs.get_object_item_cs (map (reify St) cs) name i
   else CompareDefs.get_object_item_ci (map (reify St) cs) name i) =
  (key_pos St flag name cs ≫= fun k => cs !! k ≫= fun c => Some ((i + k)%nat, reify St c)).
Proof.
  intros Hz. induction cs as [|c r IH]; intros i; [by destruct flag|].
  assert (Hs : forall o : option nat,
    ((S <$> o) ≫= fun k => (c :: r) !! k ≫= fun c0 => Some ((i + k)%nat, reify St c0)) =
    (o ≫= fun k => r !! k ≫= fun c0 => Some ((S i + k)%nat, reify St c0))).
  { intros [j|]; [|done]. cbn. destruct (r !! j); [|done]. cbn. do 2 f_equal. lia. }
  destruct flag; cbn [map CompareDefs.get_object_item_cs CompareDefs.get_object_item_ci key_pos key_match];
    rewrite reify_key; destruct (key_string St c) as [kk|] eqn:Ek.
  - pose proof (key_string_zfree _ _ _ Ek) as Hzk.
    destruct (Z.eqb_spec (strcmp name kk) 0) as [He|Hne].
    + apply strcmp_zero_iff in He; [|done..]. rewrite bool_decide_eq_true_2 by done. cbn. do 2 f_equal. lia.
    + rewrite bool_decide_eq_false_2 by (intros He; apply Hne; by apply strcmp_zero_iff).
      rewrite Hs. apply (IH (S i)).
  - done.
  - pose proof (key_string_zfree _ _ _ Ek) as Hzk. unfold CompareDefs.case_insensitive_strcmp.
    destruct (Z.eqb_spec (strcasecmp_c name kk) 0) as [He|Hne].
    + apply strcasecmp_zero_iff in He; [|done..]. rewrite bool_decide_eq_true_2 by done. cbn. do 2 f_equal. lia.
    + rewrite bool_decide_eq_false_2 by (intros He; apply Hne; by apply strcasecmp_zero_iff).
      rewrite Hs. apply (IH (S i)).
  - rewrite Hs. apply (IH (S i)).
Qed.

Lemma get_object_item_reify St i d cs name flag : SortSpec.zfree name ->
  CompareDefs.get_object_item (reify St (T i d cs)) (Some name) flag =
  (key_pos St flag name cs ≫= fun k => cs !! k ≫= fun c => Some (k, reify St c)).
Proof.
  intros Hz. unfold CompareDefs.get_object_item. rewrite reify_children. cbn [tchildren].
  pose proof (key_pos_goi St flag name cs Hz O) as H. destruct flag; exact H.
Qed.
