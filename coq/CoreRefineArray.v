(** CoreRefineArray.v — simulation lemmas (C06/C07/C08) for the BULK CONSTRUCTORS of CoreDefs.v:
    [cJSON_CreateIntArray], [cJSON_CreateFloatArray], [cJSON_CreateDoubleArray],
    [cJSON_CreateStringArray] ([create_array_of] / [create_array_loop]), for an arbitrary oracle.

    The loop builds the chain WITHOUT the head's back link ([head.prev] is set after the loop), so
    the intermediate heaps are not canonical.  The proof keeps, next to the actual heap, the
    CANONICAL heap [Hc] of the partial array ([WF Hc (F ++ [T a arr leaves])]); the actual heap
    is [act Hc leaves]: [Hc] with the head's [prev] reset to NULL.  One iteration = one leaf
    allocated ([grows_leaf], WF-free contracts of cJSON_CreateNumber / cJSON_CreateString) and
    linked; its canonical counterpart is [add_item_to_array] (CoreRefine.v), whose result maps
    are read off by running it on the canonical heap.  When a request is refused the partial
    array is deleted with [cJSON_Delete_fuel_sim] on the local encoding [Enc] (which ignores
    [prev]), and the result is a [clean_failure] w.r.t. the heap at the call.

    PART 1  algebra of field updates; heap extension [Ext]; [grows_leaf]; WF-free run lemmas
    PART 2  the loop
    PART 3  [create_array_of] and the four public constructors. *)
From CJ Require Import Base Dbl Heap Forest ForestLemmas CoreSpec CoreDefs CoreRefineBase CoreRefine
  CoreRefineDelete CoreRefineReplace CoreRefineMore CoreRefineCreate.
From CJ.gen Require Import Constants.
From stdpp Require Import gmap.
Implicit Types (h : heap) (F : forest) (p x y r i b : positive) (d : rdata).

(** * PART 1 *)

(** ** field updates commute *)
Section Alter.
  Implicit Types (m : gmap positive (ptr * ptr)).
  Lemma upd_prev_upd_prev i a c m : upd_prev i a (upd_prev i c m) = upd_prev i a m.
  Proof. unfold upd_prev. rewrite <- alter_compose. apply alter_ext. by intros []. Qed.
  Lemma upd_prev_commute i j a c m : i <> j -> upd_prev i a (upd_prev j c m) = upd_prev j c (upd_prev i a m).
  Proof. intros H. unfold upd_prev. by apply alter_commute. Qed.
  Lemma upd_prev_upd_next i j a c m : upd_prev i a (upd_next j c m) = upd_next j c (upd_prev i a m).
  Proof.
    unfold upd_prev, upd_next. destruct (decide (i = j)) as [->|Hne]; [|by apply alter_commute].
    rewrite <- !alter_compose. apply alter_ext. by intros [].
  Qed.
  Lemma upd_prev_insert_ne i x a v m : i <> x -> upd_prev i a (<[x := v]> m) = <[x := v]> (upd_prev i a m).
  Proof.
    intros H. apply map_eq. intros j. unfold upd_prev. destruct (decide (j = x)) as [->|Hjx].
    - rewrite lookup_alter_ne by done. by rewrite !lookup_insert.
    - rewrite lookup_insert_ne by done. destruct (decide (i = j)) as [->|Hij].
      + by rewrite !lookup_alter, lookup_insert_ne.
      + by rewrite !lookup_alter_ne, ?lookup_insert_ne.
  Qed.
  Lemma upd_prev_id i a m e : m !! i = Some e -> e.2 = a -> upd_prev i a m = m.
  Proof.
    intros H1 H2. rewrite (upd_prev_insert _ _ _ _ H1). rewrite <- H2. destruct e. cbn. by apply insert_id.
  Qed.
  Lemma lookup_upd_prev_Some i a m b e : m !! b = Some e -> exists pv, upd_prev i a m !! b = Some (e.1, pv).
  Proof.
    intros H. destruct (decide (i = b)) as [->|Hne].
    - rewrite lookup_upd_prev, H. cbn. eauto.
    - rewrite lookup_upd_prev_ne by done. rewrite H. destruct e. eauto.
  Qed.
  (** the loop's stores vs. the canonical ones, up to the head's back link *)
  Lemma tweak_step c0 x tl m : c0 <> x ->
    upd_prev c0 None (upd_prev c0 (Some x) (upd_prev x (Some tl) (upd_next tl (Some x) (<[x := (None, None)]> m)))) =
    upd_prev x (Some tl) (upd_next tl (Some x) (<[x := (None, None)]> (upd_prev c0 None m))).
  Proof.
    intros H. rewrite upd_prev_upd_prev. rewrite (upd_prev_commute c0 x) by done. rewrite upd_prev_upd_next.
    by rewrite upd_prev_insert_ne by done.
  Qed.
End Alter.
Lemma h_lnk_upd_maps h L D : h_lnk (upd_maps h L D) = L.
Proof. reflexivity. Qed.
Lemma h_dat_upd_maps h L D : h_dat (upd_maps h L D) = D.
Proof. reflexivity. Qed.

(** ** heap extension: [h'] is [h] plus the fresh blocks [N] (link and data maps not constrained) *)
Record Ext h h' (N : list positive) : Prop := mkExt {
  ext_below : forall b, (b < h_next h)%positive -> h_str h' !! b = h_str h !! b /\ h_own h' !! b = h_own h !! b;
  ext_live : forall b, b ∈ h_live h' <-> b ∈ h_live h \/ b ∈ N;
  ext_new : forall b, b ∈ N -> (h_next h <= b < h_next h')%positive /\ h_own h' !! b = Some Lib;
  ext_next : (h_next h <= h_next h')%positive;
  ext_req : h_req h <= h_req h';
  ext_hooks : h_hooks h' = h_hooks h;
  ext_trace : exists evs, h_trace h' = evs ++ h_trace h
}.

Lemma Ext_refl h : Ext h h [].
Proof. constructor; try done; try lia; [set_solver|intros b Hb; by apply elem_of_nil in Hb|by exists []]. Qed.
Lemma Ext_trans h1 h2 h3 N1 N2 : Ext h1 h2 N1 -> Ext h2 h3 N2 -> Ext h1 h3 (N1 ++ N2).
Proof.
  intros [A1 A2 A3 A4 A5 A6 [e1 A7]] [B1 B2 B3 B4 B5 B6 [e2 B7]]. constructor.
  - intros b Hb. destruct (B1 b ltac:(lia)) as [-> ->]. by apply A1.
  - intros b. rewrite B2, A2, elem_of_app. tauto.
  - intros b Hb. apply elem_of_app in Hb as [Hb|Hb].
    + destruct (A3 b Hb) as [Hr Ho]. split; [lia|]. destruct (B1 b ltac:(lia)) as [_ ->]. done.
    + destruct (B3 b Hb) as [Hr Ho]. split; [lia|done].
  - lia.
  - lia.
  - congruence.
  - exists (e2 ++ e1). rewrite B7, A7. by rewrite app_assoc.
Qed.
Lemma Ext_mem h h' N N' : (forall b, b ∈ N <-> b ∈ N') -> Ext h h' N -> Ext h h' N'.
Proof.
  intros HN [A1 A2 A3 A4 A5 A6 A7]. constructor; try done.
  - intros b. rewrite A2, HN. done.
  - intros b Hb. apply A3. by apply HN.
Qed.
Lemma Ext_upd_maps_r h h' N L D : Ext h h' N -> Ext h (upd_maps h' L D) N.
Proof. intros [A1 A2 A3 A4 A5 A6 A7]. by constructor. Qed.
Lemma Ext_upd_maps_l h h' N L D : Ext h h' N -> Ext (upd_maps h L D) h' N.
Proof. intros [A1 A2 A3 A4 A5 A6 A7]. by constructor. Qed.
Lemma Ext_of_upd_maps_l h h' N L D : Ext (upd_maps h L D) h' N -> Ext h h' N.
Proof. intros [A1 A2 A3 A4 A5 A6 A7]. by constructor. Qed.
Lemma Ext_live_below h h' N : live_below h -> Ext h h' N -> live_below h'.
Proof.
  intros LB E b Hb. apply (ext_live _ _ _ E) in Hb as [Hb|Hb].
  - pose proof (LB b Hb). pose proof (ext_next _ _ _ E). lia.
  - destruct (ext_new _ _ _ E b Hb). lia.
Qed.
Lemma clean_failure_Ext h h' : clean_failure h h' -> Ext h h' [].
Proof.
  intros [A1 A2 A3 A4 A5 A6 A7 A8 A9]. constructor; try done.
  - intros b Hb. split; [by apply A3|by apply A4].
  - intros b. rewrite A5. set_solver.
  - intros b Hb. by apply elem_of_nil in Hb.
Qed.
Lemma Ext_new_node h d : Ext h (new_node h d) [h_next h].
Proof.
  constructor; cbn; try done; try lia.
  - intros b Hb. split; [done|]. rewrite lookup_insert_ne by lia. done.
  - intros b. set_solver.
  - intros b Hb. apply elem_of_list_singleton in Hb as ->. split; [lia|by rewrite lookup_insert].
  - by eexists [_].
Qed.
Lemma Ext_new_string h ty s : Ext h (new_string h ty s) [h_next h; Pos.succ (h_next h)].
Proof.
  constructor; cbn; try done; try lia.
  - intros b Hb. rewrite !lookup_insert_ne by lia. done.
  - intros b. set_solver.
  - intros b Hb. apply elem_of_cons in Hb as [->|Hb]; [|apply elem_of_list_singleton in Hb as ->].
    + split; [lia|]. rewrite lookup_insert_ne by lia. by rewrite lookup_insert.
    + split; [lia|by rewrite lookup_insert].
  - by eexists [_; _].
Qed.

Lemma refused_mono oracle h0 h1 h2 : h_req h0 <= h_req h1 -> refused oracle h1 h2 -> refused oracle h0 h2.
Proof. intros H (k & Hk & Ho). exists k. split; [lia|done]. Qed.

(** ** all node entries are below [h_next] (implied by [WF], kept by the lnk tweak) *)
Definition maps_below h : Prop :=
  forall b, (h_next h <= b)%positive -> h_lnk h !! b = None /\ h_dat h !! b = None.
Lemma WF_maps_below h F : WF h F -> maps_below h.
Proof. intros W b Hb. split; [by eapply WF_above_lnk|by eapply WF_above_dat]. Qed.

(** ** one leaf appears *)
Record grows_leaf (H H' : heap) (x : positive) d : Prop := mkGL {
  gl_x : x = h_next H;
  gl_lnk : h_lnk H' = <[x := (None, None)]> (h_lnk H);
  gl_dat : h_dat H' = <[x := mk_dat d []]> (h_dat H);
  gl_ext : Ext H H' (x :: owned_strs d);
  gl_nodup : NoDup (x :: owned_strs d);
  gl_ref : ref_ok (x, d, [])
}.

(** what a leaf constructor [m] does in ANY heap (no well-formedness needed): a new leaf whose
    data satisfies [Q] in the result heap, or a clean failure *)
Definition leaf_contract (oracle : nat -> bool) (m : M ptr) (Q : heap -> rdata -> Prop) (H : heap) : Prop :=
  (exists d H', m H = Ret (Some (h_next H), H') /\ grows_leaf H H' (h_next H) d /\ Q H' d)
  \/ (exists H', m H = Ret (None, H') /\ clean_failure H H' /\ refused oracle H H').

(** ** cJSON_Delete of a leaf that owns nothing, without [WF] *)
Lemma cJSON_Delete_leaf hx id d (pv : ptr) :
  id ∈ h_live hx -> h_own hx !! id = Some Lib -> (id < h_next hx)%positive ->
  h_dat hx !! id = Some (mk_dat d []) -> h_lnk hx !! id = Some (None, pv) ->
  owned_strs d = [] -> ref_ok (id, d, []) ->
  cJSON_Delete (Some id) hx = Ret (tt, free1 id hx).
Proof.
  intros Hl Ho Hlt Hd Hk Hs Hr.
  assert (E : Enc hx [T id d []]).
  { constructor.
    - intros i d' ks Hin. rewrite flat_singleton, flat_t_unfold in Hin. cbn in Hin.
      apply elem_of_list_singleton in Hin. by injection Hin as -> -> ->.
    - intros j c Hj. destruct j; [|done]. injection Hj as <-. exists pv. exact Hk.
    - intros i d' ks j c Hin Hj. rewrite flat_singleton, flat_t_unfold in Hin. cbn in Hin.
      apply elem_of_list_singleton in Hin. injection Hin as -> -> ->. done.
    - rewrite flat_singleton, flat_t_unfold. cbn. rewrite Hs. cbn. apply NoDup_singleton.
    - intros b Hb. rewrite flat_singleton, flat_t_unfold in Hb. cbn in Hb. rewrite Hs in Hb. cbn in Hb.
      apply elem_of_list_singleton in Hb as ->. done.
    - rewrite flat_singleton, flat_t_unfold. cbn. by apply Forall_singleton. }
  unfold cJSON_Delete, heap_fuel. unfold bindM at 1.
  change (Some id) with (head (tid <$> [T id d []])).
  assert (Hf : length (nodes [T id d []]) < Pos.to_nat (h_next hx)).
  { change (length (nodes [T id d []])) with 1. lia. }
  rewrite (cJSON_Delete_fuel_sim _ _ _ Hf E).
  by rewrite (free_order_leaf _ _ Hs).
Qed.

(** the node just allocated is released again: clean w.r.t. the heap before the allocation *)
Lemma clean_failure_intro' h h' :
  maps_below h -> live_below h ->
  (forall b, (b < h_next h)%positive ->
     h_lnk h' !! b = h_lnk h !! b /\ h_dat h' !! b = h_dat h !! b /\ h_str h' !! b = h_str h !! b /\
     h_own h' !! b = h_own h !! b /\ (b ∈ h_live h' <-> b ∈ h_live h)) ->
  (forall b, (h_next h <= b)%positive -> h_lnk h' !! b = None /\ h_dat h' !! b = None /\ b ∉ h_live h') ->
  (h_next h <= h_next h')%positive -> h_req h <= h_req h' -> h_hooks h' = h_hooks h ->
  (exists evs, h_trace h' = evs ++ h_trace h) ->
  clean_failure h h'.
Proof.
  intros MB LB Hlo Hhi Hn Hr Hh Ht. constructor; try done.
  - apply map_eq. intros b. destruct (Pos.ltb_spec b (h_next h)) as [Hb|Hb].
    + by apply Hlo.
    + destruct (MB b Hb) as [-> _]. by apply Hhi.
  - apply map_eq. intros b. destruct (Pos.ltb_spec b (h_next h)) as [Hb|Hb].
    + by apply Hlo.
    + destruct (MB b Hb) as [_ ->]. by apply Hhi.
  - intros b Hb. by apply Hlo.
  - intros b Hb. by apply Hlo.
  - apply set_eq. intros b. destruct (Pos.ltb_spec b (h_next h)) as [Hb|Hb].
    + by apply Hlo.
    + split; intros Hin; [by apply Hhi in Hin|]. pose proof (LB b Hin). lia.
Qed.

Lemma cJSON_Delete_new_node' h d hx :
  maps_below h -> live_below h -> owned_strs d = [] -> (rd_ref d <> None -> is_ref d = true) ->
  hx = new_node h d \/ hx = bump (new_node h d) ->
  cJSON_Delete (Some (h_next h)) hx = Ret (tt, free1 (h_next h) hx) /\ clean_failure h (free1 (h_next h) hx).
Proof.
  intros MB LB Hs Hr Hx. split.
  - apply (cJSON_Delete_leaf hx (h_next h) d None); try done.
    + destruct Hx as [->| ->]; cbn; set_solver.
    + destruct Hx as [->| ->]; cbn; by rewrite lookup_insert.
    + destruct Hx as [->| ->]; cbn; lia.
    + destruct Hx as [->| ->]; cbn; by rewrite lookup_insert.
    + destruct Hx as [->| ->]; cbn; by rewrite lookup_insert.
  - apply (clean_failure_intro' _ _ MB LB).
    + intros b Hb. assert (b <> h_next h) by lia.
      destruct Hx as [->| ->]; cbn; rewrite !lookup_delete_ne, ?lookup_insert_ne by done; (split_and!; try done; set_solver).
    + intros b Hb. destruct (decide (b = h_next h)) as [->|Hne].
      * destruct Hx as [->| ->]; cbn; rewrite !lookup_delete; (split_and!; try done; set_solver).
      * destruct (MB b Hb) as [H1 H2].
        assert (b ∉ h_live h) by (intros Hin; pose proof (LB b Hin); lia).
        destruct Hx as [->| ->]; cbn; rewrite !lookup_delete_ne, !lookup_insert_ne by done; (split_and!; try done; set_solver).
    + destruct Hx as [->| ->]; cbn; lia.
    + destruct Hx as [->| ->]; cbn; lia.
    + by destruct Hx as [->| ->].
    + destruct Hx as [->| ->]; cbn; by eexists [_; _].
Qed.

Section LeafMakers.
  Variable oracle : nat -> bool.

  (** ** cJSON_CreateNumber in any heap *)
  Lemma cJSON_CreateNumber_contract num H :
    leaf_contract oracle (cJSON_CreateNumber oracle num) (fun _ d => d = rd_number num) H.
  Proof.
    unfold leaf_contract, cJSON_CreateNumber, cJSON_New_Item. destruct (oracle (h_req H)) eqn:Ho.
    - right. exists (bump H). rewrite (bindM_Ret _ _ _ _ _ (run_alloc_node_fail _ _ Ho)).
      split; [done|]. split; [apply clean_failure_bump|]. exists (h_req H). cbn. split; [lia|done].
    - left. exists (rd_number num), (new_node H (rd_number num)). split; [|split; [|done]].
      + rewrite (bindM_Ret _ _ _ _ _ (run_alloc_node_ok _ _ Ho)).
        cbn [is_null negb when]. rewrite !bindM_assoc.
        rewrite (bindM_Ret _ _ _ _ _ (run_set_type_plain _ _ _ c_cJSON_Number (new_node_live _ _) (new_node_dat _ _))).
        rewrite (new_node_set H _ _ (rd_of_type c_cJSON_Number)) by reflexivity. rewrite !bindM_assoc.
        rewrite (bindM_Ret _ _ _ _ _ (run_set_vdbl_plain _ _ _ num (new_node_live _ _) (new_node_dat _ _))).
        rewrite (new_node_set H _ _ (mkRD c_cJSON_Number None 0 num None None)) by reflexivity.
        rewrite (bindM_Ret _ _ _ _ _ (run_set_vint_plain _ _ _ (sat_int num) (new_node_live _ _) (new_node_dat _ _))).
        rewrite (new_node_set H _ _ (rd_number num)) by reflexivity. reflexivity.
      + constructor; try done.
        * apply Ext_new_node.
        * apply NoDup_singleton.
  Qed.

  (** ** cJSON_CreateString in any heap with entries below [h_next] *)
  Definition string_leaf (s : bytes) (H : heap) (d : rdata) : Prop :=
    exists sb, d = rd_string c_cJSON_String sb /\ (sb < h_next H)%positive /\ h_str H !! sb = Some (s ++ [0%Z]).

  Lemma cJSON_CreateString_contract H sb :
    live_below H -> maps_below H -> Readable H sb ->
    leaf_contract oracle (cJSON_CreateString oracle (Some sb)) (string_leaf (str_at H sb)) H.
  Proof.
    intros LB MB HR. unfold leaf_contract, cJSON_CreateString, create_string_like, cJSON_New_Item.
    set (ty := c_cJSON_String).
    destruct (oracle (h_req H)) eqn:Ho.
    { right. exists (bump H). rewrite (bindM_Ret _ _ _ _ _ (run_alloc_node_fail _ _ Ho)). cbn [is_null].
      split; [done|]. split; [apply clean_failure_bump|]. exists (h_req H). cbn. split; [lia|done]. }
    rewrite (bindM_Ret _ _ _ _ _ (run_alloc_node_ok _ _ Ho)). cbn [is_null].
    rewrite (bindM_Ret _ _ _ _ _ (run_set_type_plain _ _ _ ty (new_node_live _ _) (new_node_dat _ _))).
    rewrite (new_node_set H _ _ (rd_of_type ty)) by reflexivity.
    set (h1 := new_node H (rd_of_type ty)).
    assert (HR1 : Readable h1 sb) by (by apply Readable_new_node).
    destruct (oracle (S (h_req H))) eqn:Ho2.
    - right. assert (Ho2' : oracle (h_req h1) = true) by done.
      rewrite (bindM_Ret _ _ _ _ _ (cJSON_strdup_fail _ _ _ HR1 Ho2')).
      assert (Hl : h_next H ∈ h_live (bump h1)) by (cbn; set_solver).
      assert (Hd : h_dat (bump h1) !! h_next H = Some (mk_dat (rd_of_type ty) [])) by (cbn; by rewrite lookup_insert).
      rewrite (bindM_Ret _ _ _ _ _ (run_set_vstr_plain _ _ _ None Hl Hd)).
      assert (Heq : set_dat (bump h1) (<[h_next H := nd_set_vstr (mk_dat (rd_of_type ty) []) None]> (h_dat (bump h1))) = bump h1).
      { unfold set_dat, upd_maps, bump, h1, new_node. cbn. f_equal. by rewrite insert_insert. }
      rewrite Heq. rewrite (bindM_Ret _ _ _ _ _ (run_get_vstr_plain _ _ _ Hl Hd)). cbn [nd_vstr mk_dat rd_vstr rd_of_type is_null].
      destruct (cJSON_Delete_new_node' H (rd_of_type ty) (bump h1) MB LB (owned_strs_of_type ty) ltac:(done) (or_intror eq_refl)) as [Hdel Hcf].
      rewrite (bindM_Ret _ _ _ _ _ Hdel). eexists. split; [reflexivity|]. split; [exact Hcf|].
      exists (S (h_req H)). cbn. split; [lia|done].
    - left. assert (Ho2' : oracle (h_req h1) = false) by done.
      rewrite (bindM_Ret _ _ _ _ _ (cJSON_strdup_ok _ _ _ HR1 Ho2')).
      set (s := str_at h1 sb ++ [0%Z]). set (sid := h_next h1).
      assert (Hl : h_next H ∈ h_live (new_str h1 s)) by (cbn; set_solver).
      assert (Hd : h_dat (new_str h1 s) !! h_next H = Some (mk_dat (rd_of_type ty) [])) by (cbn; by rewrite lookup_insert).
      rewrite (bindM_Ret _ _ _ _ _ (run_set_vstr_plain _ _ _ (Some sid) Hl Hd)).
      assert (Heq : set_dat (new_str h1 s) (<[h_next H := nd_set_vstr (mk_dat (rd_of_type ty) []) (Some sid)]> (h_dat (new_str h1 s)))
                    = new_string H ty (str_at H sb ++ [0%Z])).
      { unfold set_dat, upd_maps, new_string, new_str, h1, new_node. cbn. f_equal. by rewrite insert_insert. }
      rewrite Heq.
      assert (Hl' : h_next H ∈ h_live (new_string H ty (str_at H sb ++ [0%Z]))) by (cbn; set_solver).
      assert (Hd' : h_dat (new_string H ty (str_at H sb ++ [0%Z])) !! h_next H = Some (mk_dat (rd_string ty (Pos.succ (h_next H))) []))
        by (cbn; by rewrite lookup_insert).
      rewrite (bindM_Ret _ _ _ _ _ (run_get_vstr_plain _ _ _ Hl' Hd')). cbn [nd_vstr mk_dat rd_vstr rd_string is_null].
      exists (rd_string ty (Pos.succ (h_next H))), (new_string H ty (str_at H sb ++ [0%Z])).
      assert (Hs : owned_strs (rd_string ty (Pos.succ (h_next H))) = [Pos.succ (h_next H)]) by reflexivity.
      split; [reflexivity|]. split.
      + constructor; try done.
        * rewrite Hs. apply Ext_new_string.
        * rewrite Hs. apply NoDup_cons. split; [|apply NoDup_singleton]. intros Hin%elem_of_list_singleton. lia.
      + exists (Pos.succ (h_next H)). split; [done|]. split; [cbn; lia|]. cbn. by rewrite lookup_insert.
  Qed.
End LeafMakers.

(** * PART 2: the loop *)

(** ** more about [free_all] *)
Lemma free_all_str_lookup bs h i : i ∉ bs -> h_str (free_all bs h) !! i = h_str h !! i.
Proof.
  revert h. induction bs as [|b bs IH]; intros h Hi; [done|]. apply not_elem_of_cons in Hi as [H1 H2].
  rewrite free_all_cons, IH by done. cbn. by rewrite lookup_delete_ne.
Qed.
Lemma free_all_req bs h : h_req (free_all bs h) = h_req h.
Proof. revert h. induction bs as [|c bs IH]; intros h; [done|]. by rewrite free_all_cons, IH. Qed.
Lemma free_all_hooks bs h : h_hooks (free_all bs h) = h_hooks h.
Proof. revert h. induction bs as [|c bs IH]; intros h; [done|]. by rewrite free_all_cons, IH. Qed.
Lemma free_all_trace bs h : exists evs, h_trace (free_all bs h) = evs ++ h_trace h.
Proof.
  revert h. induction bs as [|c bs IH]; intros h; [by exists []|]. rewrite free_all_cons.
  destruct (IH (free1 c h)) as [evs ->]. cbn. exists (evs ++ [EvFree c (via_free h)]). by rewrite <- app_assoc.
Qed.

(** the local encoding only depends on data, forward links, liveness and ownership tags *)
Lemma Enc_transfer h h' ts :
  Enc h ts -> h_dat h' = h_dat h ->
  (forall b e, h_lnk h !! b = Some e -> exists pv, h_lnk h' !! b = Some (e.1, pv)) ->
  (forall b, b ∈ owned_fl (flat ts) -> b ∈ h_live h -> b ∈ h_live h') ->
  (forall b, b ∈ owned_fl (flat ts) -> h_own h !! b = Some Lib -> h_own h' !! b = Some Lib) ->
  Enc h' ts.
Proof.
  intros [E1 E2 E3 E4 E5 E6] Hd Hl Hlive Hown. constructor; try done.
  - intros i d ks Hin. rewrite Hd. by apply E1.
  - intros j c Hj. destruct (E2 j c Hj) as [pv Hpv]. destruct (Hl _ _ Hpv) as [pv' Hpv']. by exists pv'.
  - intros i d ks j c Hin Hj. destruct (E3 i d ks j c Hin Hj) as [pv Hpv]. destruct (Hl _ _ Hpv) as [pv' Hpv']. by exists pv'.
  - intros b Hb. destruct (E5 b Hb) as [H1 H2]. split; [by apply Hlive|by apply Hown].
Qed.

Lemma upd_maps_inj h L D L' D' : upd_maps h L D = upd_maps h L' D' -> L = L' /\ D = D'.
Proof. unfold upd_maps. intros H. by injection H. Qed.

Lemma set_children_snoc_root F x d cs cs' : x ∉ ids F -> set_children x cs' (F ++ [T x d cs]) = F ++ [T x d cs'].
Proof.
  intros Hx. unfold set_children. rewrite fmap_app. fold (set_children x cs' F). rewrite set_children_notin by done.
  cbn. by rewrite decide_True.
Qed.
Lemma find_tree_snoc_root F t : NoDup (ids (F ++ [t])) -> find_tree (tid t) (F ++ [t]) = Some t.
Proof.
  intros ND. apply find_tree_unique; [done| |done]. rewrite nodes_app. apply elem_of_app. right.
  apply roots_in_nodes. by left.
Qed.
Lemma find_root_snoc F t : tid t ∉ roots F -> find_root (tid t) (F ++ [t]) = Some t.
Proof. intros H. rewrite find_root_app_r by done. unfold find_root. cbn. by rewrite bool_decide_eq_true_2. Qed.

Lemma owned_fl_root_snoc x d (ls : list tree) y dy :
  forall b, b ∈ owned_fl (flat [T x d (ls ++ [T y dy []])]) <-> b ∈ owned_fl (flat [T x d ls]) ++ y :: owned_strs dy.
Proof.
  intros b. rewrite !flat_singleton, !flat_t_unfold, !owned_fl_cons, flat_app, owned_fl_app, flat_singleton, flat_t_unfold.
  cbn [flat fmap list_fmap nodes mbind list_bind]. rewrite owned_fl_cons. unfold owned_fn. cbn [fn_id fn_data fst snd].
  change (owned_fl []) with (@nil positive). rewrite app_nil_r. by rewrite (app_assoc (x :: owned_strs d)).
Qed.

Lemma head_app_Some {A} (l l' : list A) (z : A) : head l = Some z -> head (l ++ l') = Some z.
Proof. by destruct l. Qed.

Section Loop.
  Context (oracle : nat -> bool) (h : heap) (F : forest).
  Hypothesis W : WF h F.
  Hypothesis LB : live_below h.
  Local Notation a := (h_next h).
  Definition arr : rdata := rd_of_type c_cJSON_Array.

  (** the data specification of the leaves: [Q k H d] = "[d] is what element [k] must be", read in heap [H];
      stable under heap growth *)
  Variable Q : nat -> heap -> rdata -> Prop.
  Hypothesis Q_upd : forall k H d L D, Q k H d -> Q k (upd_maps H L D) d.
  Hypothesis Q_ext : forall k H H' N d, Q k H d -> Ext H H' N -> Q k H' d.

  (** the actual heap during the loop: the canonical one with the head's [prev] still NULL *)
  Definition act (Hc : heap) (leaves : list tree) : heap :=
    upd_maps Hc (match head (tid <$> leaves) with
                 | Some c0 => upd_prev c0 None (h_lnk Hc)
                 | None => h_lnk Hc
                 end) (h_dat Hc).

  Record Inv (Hc : heap) (leaves : list tree) : Prop := mkInv {
    inv_wf : WF Hc (F ++ [T a arr leaves]);
    inv_ext : Ext h Hc (owned_fl (flat [T a arr leaves]));
    inv_q : forall j t, leaves !! j = Some t -> exists x d, t = T x d [] /\ Q j Hc d
  }.

  Lemma a_notin : a ∉ ids F.
  Proof. intros Hin. pose proof (WF_ids_fresh _ _ _ W Hin). lia. Qed.

  Lemma Inv_facts Hc leaves :
    Inv Hc leaves ->
    let ks := tid <$> leaves in
    (a, arr, ks) ∈ flat (F ++ [T a arr leaves]) /\
    a ∈ h_live Hc /\ h_dat Hc !! a = Some (mk_dat arr ks) /\
    NoDup ks /\ (forall c, c ∈ ks -> c ∈ h_live Hc /\ c <> a /\ (c < h_next Hc)%positive /\ (a < c)%positive) /\
    (forall k c, ks !! k = Some c -> h_lnk Hc !! c = Some (link_at ks k)) /\
    (a < h_next Hc)%positive /\ live_below Hc /\ h_lnk Hc !! a = Some (None, None).
  Proof.
    intros [Wk Ek _] ks. pose proof (wf_nodup _ _ Wk) as ND.
    assert (Hin : (a, arr, ks) ∈ flat (F ++ [T a arr leaves])).
    { rewrite flat_app, flat_singleton, flat_t_unfold. apply elem_of_app. right. by left. }
    assert (Hai : a ∈ ids (F ++ [T a arr leaves])) by (rewrite ids_flat; apply elem_of_list_fmap; by exists (a, arr, ks)).
    assert (NDk : NoDup ks).
    { apply elem_of_Permutation in Hin as [FL HFL].
      destruct (heap_lnk_of_focus _ _ _ _ _ _ ND (reflexivity _) HFL) as [_ HN]. by apply NoDup_app in HN as [? _]. }
    split; [done|]. split; [by apply (WF_ids_live _ _ _ Wk)|]. split; [by apply (WF_lookup_dat _ _ _ _ _ Wk)|].
    split; [done|]. split; [|split; [|split; [by apply (WF_ids_fresh _ _ _ Wk)|split]]].
    - intros c Hcin. pose proof (cids_in_ids _ _ _ _ _ Hin Hcin) as Hci.
      split; [by apply (WF_ids_live _ _ _ Wk)|]. split; [|split; [by apply (WF_ids_fresh _ _ _ Wk)|]].
      + intros ->. apply elem_of_Permutation in Hin as [FL HFL].
        destruct (heap_lnk_of_focus _ _ _ _ _ _ ND (reflexivity _) HFL) as [_ HN]. apply NoDup_app in HN as (_ & HN & _).
        apply (HN _ Hcin). unfold lnk_keys. apply elem_of_app. left. rewrite roots_app. apply elem_of_app. right. by left.
      + assert (Hco : c ∈ owned_fl (flat [T a arr leaves])).
        { apply (ids_subseteq_owned [T a arr leaves]). eapply (cids_in_ids [T a arr leaves] a arr ks); [|done].
          rewrite flat_singleton, flat_t_unfold. by left. }
        destruct (ext_new _ _ _ Ek c Hco) as [Hr _].
        assert (c <> a); [|lia]. intros ->.
        apply elem_of_Permutation in Hin as [FL HFL].
        destruct (heap_lnk_of_focus _ _ _ _ _ _ ND (reflexivity _) HFL) as [_ HN]. apply NoDup_app in HN as (_ & HN & _).
        apply (HN _ Hcin). unfold lnk_keys. apply elem_of_app. left. rewrite roots_app. apply elem_of_app. right. by left.
    - intros k c Hk. by apply (WF_lookup_lnk_child _ _ _ _ _ _ _ Wk Hin Hk).
    - by apply (Ext_live_below _ _ _ LB Ek).
    - apply (WF_lookup_lnk_root _ _ _ Wk). rewrite roots_app. apply elem_of_app. right. by left.
  Qed.

  Lemma act_nil Hc : act Hc [] = Hc.
  Proof. unfold act. cbn. apply upd_maps_id. Qed.

  Lemma Ext_act Hc leaves H' N : Ext (act Hc leaves) H' N -> Ext Hc H' N.
  Proof. apply Ext_of_upd_maps_l. Qed.

  Lemma maps_below_act Hc leaves : Inv Hc leaves -> maps_below (act Hc leaves).
  Proof.
    intros I b Hb. destruct (WF_maps_below _ _ (inv_wf _ _ I) b Hb) as [H1 H2]. cbn. split; [|done].
    destruct (head (tid <$> leaves)) as [c0|]; [|done].
    destruct (decide (c0 = b)) as [->|Hne]; [by rewrite lookup_upd_prev, H1|by rewrite lookup_upd_prev_ne].
  Qed.
  Lemma live_below_act Hc leaves : Inv Hc leaves -> live_below (act Hc leaves).
  Proof. intros I. apply live_below_upd_maps. apply (Ext_live_below _ _ _ LB (inv_ext _ _ I)). Qed.
  Lemma Readable_act Hc leaves sb : Inv Hc leaves -> Readable h sb -> Readable (act Hc leaves) sb.
  Proof.
    intros I (H1 & s & H2 & H3). pose proof (LB _ H1) as Hlt. split.
    - cbn. apply (ext_live _ _ _ (inv_ext _ _ I)). by left.
    - exists s. cbn. destruct (ext_below _ _ _ (inv_ext _ _ I) sb Hlt) as [-> _]. done.
  Qed.
  Lemma str_at_act Hc leaves sb : Inv Hc leaves -> sb ∈ h_live h -> str_at (act Hc leaves) sb = str_at h sb.
  Proof.
    intros I H1. pose proof (LB _ H1) as Hlt. unfold str_at. cbn.
    destruct (ext_below _ _ _ (inv_ext _ _ I) sb Hlt) as [-> _]. done.
  Qed.

  (** ** one successful iteration *)
  Lemma step_ok Hc leaves H' x d :
    Inv Hc leaves -> grows_leaf (act Hc leaves) H' x d -> Q (length leaves) H' d ->
    exists Hc', Inv Hc' (leaves ++ [T x d []]) /\
      (if (Z.of_nat (length leaves) =? 0)%Z then set_child (Some a) (Some x)
       else suffix_object (last (tid <$> leaves)) (Some x)) H' = Ret (tt, act Hc' (leaves ++ [T x d []])).
  Proof.
    intros I G HQ. pose proof I as [Wk Ek Qk]. destruct (Inv_facts _ _ I) as (Hin & Hla & Hda & NDk & Hks & Hlk & Hanext & LBc & Hlnka).
    destruct G as [Gx Gl Gd Ge Gn Gr]. cbn [act upd_maps h_lnk h_dat h_next] in Gx, Gl, Gd.
    set (ks := tid <$> leaves) in *. set (Fk := F ++ [T a arr leaves]) in *. set (leaf := T x d []).
    apply Ext_act in Ge.
    assert (Hxa : a <> x) by (subst x; lia).
    assert (Hxks : x ∉ ks) by (intros Hcin; destruct (Hks _ Hcin) as (_ & _ & Hlt & _); subst x; lia).
    (* the leaf as a detached root of the canonical heap *)
    set (L1 := <[x := (None, None)]> (h_lnk Hc)). set (D1 := h_dat H').
    set (Hc1 := upd_maps H' L1 D1).
    assert (W1 : WF Hc1 (Fk ++ [leaf])).
    { apply (WF_new_root Hc Hc1 Fk x d Wk); try done.
      - subst x. apply (WF_next_notin _ _ Wk).
      - intros b Hb Hbo. destruct (ext_new _ _ _ Ge b ltac:(by right)) as [Hr _]. pose proof (wf_fresh _ _ Wk _ Hbo). lia.
      - intros b Hb. cbn. apply elem_of_app in Hb as [Hb|Hb].
        + destruct (ext_new _ _ _ Ge b Hb) as [Hr Ho]. split; [apply (ext_live _ _ _ Ge); by right|]. split; [done|lia].
        + pose proof (wf_fresh _ _ Wk _ Hbo) as Hlt || pose proof (wf_fresh _ _ Wk _ Hb) as Hlt.
          split; [apply (ext_live _ _ _ Ge); left; by apply (wf_owned_live _ _ Wk)|].
          destruct (ext_below _ _ _ Ge b Hlt) as [_ ->]. split; [by apply (wf_owned_lib _ _ Wk)|].
          pose proof (ext_next _ _ _ Ge). lia. }
    (* its canonical insertion: add_item_to_array *)
    assert (Hxroots : x ∉ roots Fk).
    { intros Hcin. apply roots_subseteq_ids in Hcin. pose proof (WF_ids_fresh _ _ _ Wk Hcin). subst x. lia. }
    assert (Hroot : find_root x (Fk ++ [leaf]) = Some leaf) by (apply (find_root_snoc Fk leaf); done).
    assert (Hrem : remove_root x (Fk ++ [leaf]) = Fk) by (apply (remove_root_snoc Fk leaf); done).
    assert (Hfa : find_tree a (remove_root x (Fk ++ [leaf])) = Some (T a arr leaves)).
    { rewrite Hrem. apply (find_tree_snoc_root F (T a arr leaves)). apply Wk. }
    destruct (add_item_to_array_sim Hc1 (Fk ++ [leaf]) a x leaf arr leaves W1 Hxa Hroot Hfa eq_refl) as (_ & S2 & S3).
    rewrite Hrem in S2, S3. unfold Fk in S2, S3. rewrite (set_children_snoc_root F a arr leaves _ a_notin) in S2, S3.
    set (F2 := F ++ [T a arr (leaves ++ [leaf])]) in *.
    set (Hc2 := upd_maps Hc1 (heap_lnk_of F2) (heap_dat_of F2)) in *.
    exists Hc2.
    assert (I2 : Inv Hc2 (leaves ++ [leaf])).
    { constructor; [exact S3| |].
      - apply (Ext_mem _ _ (owned_fl (flat [T a arr leaves]) ++ x :: owned_strs d)).
        + intros b. symmetry. apply owned_fl_root_snoc.
        + unfold Hc2, Hc1. do 2 apply Ext_upd_maps_r. by apply (Ext_trans _ _ _ _ _ Ek).
      - intros j t Hj. destruct (decide (j < length leaves)) as [Hlt|Hge].
        + rewrite lookup_app_l in Hj by done. destruct (Qk j t Hj) as (x' & d' & -> & Hq). exists x', d'. split; [done|].
          unfold Hc2, Hc1. do 2 apply Q_upd. by apply (Q_ext _ _ _ _ _ Hq Ge).
        + rewrite lookup_app_r in Hj by lia. destruct (j - length leaves) as [|j'] eqn:Ej; [|done].
          injection Hj as <-. exists x, d. split; [done|]. assert (j = length leaves) as -> by lia.
          unfold Hc2, Hc1. by do 2 apply Q_upd. }
    split; [exact I2|].
    (* the facts needed to run the code *)
    assert (Hlive1 : forall c, c = a \/ c = x \/ c ∈ ks -> c ∈ h_live Hc1).
    { intros c Hc'. cbn. apply (ext_live _ _ _ Ge). destruct Hc' as [->|[->|Hc']]; [by left|right; by left|left; by apply Hks]. }
    assert (HD1a : D1 !! a = Some (mk_dat arr ks)) by (unfold D1; rewrite Gd, lookup_insert_ne by done; exact Hda).
    assert (HH' : H' = upd_maps Hc1 (h_lnk H') D1) by (unfold Hc1, D1; rewrite upd_maps_upd_maps; by rewrite upd_maps_id).
    assert (HHc1 : Hc1 = upd_maps Hc1 L1 D1) by reflexivity.
    destruct (decide (leaves = [])) as [->|Hne].
    - (* first element: a->child = n *)
      change ks with (@nil positive) in *. cbn [head] in Gl. fold L1 in Gl.
      change (Z.of_nat (length (@nil tree)) =? 0)%Z with true. cbv iota.
      rewrite HH', Gl.
      rewrite (run_set_child Hc1 L1 D1 a _ (Some x) (Hlive1 a ltac:(auto)) HD1a).
      (* the canonical maps, read off add_item_to_array *)
      rewrite HHc1 in S2. unfold add_item_to_array in S2. cbn [is_null orb] in S2. rewrite (ptr_eqb_Some_ne _ _ Hxa) in S2.
      rewrite (run_get_child_bind _ Hc1 L1 D1 a _ (Hlive1 a ltac:(auto)) HD1a) in S2.
      cbn [nd_child mk_dat child_of rd_ref arr rd_of_type is_null] in S2. rewrite !bindM_assoc in S2.
      rewrite (run_set_child_bind _ Hc1 L1 D1 a _ (Some x) (Hlive1 a ltac:(auto)) HD1a) in S2. rewrite !bindM_assoc in S2.
      rewrite run_set_prev_bind in S2 by (auto || (unfold L1; rewrite lookup_insert; eauto)).
      rewrite run_set_next_bind in S2 by (auto || (rewrite is_Some_upd_prev; unfold L1; rewrite lookup_insert; eauto)).
      unfold ret in S2. injection S2 as SL SD.
      unfold act. cbn [app fmap list_fmap head tid leaf]. unfold Hc2. cbn [h_lnk h_dat upd_maps].
      rewrite <- SL, <- SD. do 2 f_equal.
      unfold L1. rewrite upd_next_prev_insert. rewrite (upd_prev_insert _ _ _ (None, Some x)) by (by rewrite lookup_insert).
      cbn. by rewrite insert_insert.
    - (* later elements: suffix_object(p, n) *)
      assert (Hlen : length leaves <> 0) by (destruct leaves; [done|cbn; lia]).
      destruct (Z.eqb_spec (Z.of_nat (length leaves)) 0) as [E0|_]; [lia|].
      destruct (head ks) as [c0|] eqn:Hh; [|apply head_None, fmap_nil_inv in Hh; done].
      destruct (last ks) as [tl|] eqn:Hlast; [|apply last_None, fmap_nil_inv in Hlast; done].
      assert (Hh2 : head (tid <$> (leaves ++ [leaf])) = Some c0) by (rewrite fmap_app; by apply head_app_Some).
      assert (Hc0 : c0 ∈ ks) by (by apply head_Some_elem_of).
      assert (Htl : tl ∈ ks) by (by apply last_Some_elem_of).
      assert (c0 <> x) by (intros ->; done). assert (tl <> x) by (intros ->; done).
      rewrite head_lookup in Hh.
      set (A1 := <[x := (None, None)]> (upd_prev c0 None (h_lnk Hc))) in *.
      assert (HA1 : forall c, c = x \/ c ∈ ks -> is_Some (A1 !! c)).
      { intros c [->|Hc']; [unfold A1; rewrite lookup_insert; eauto|].
        unfold A1. rewrite lookup_insert_ne by (intros ->; done). rewrite is_Some_upd_prev.
        apply elem_of_list_lookup in Hc' as [k Hk]. rewrite (Hlk _ _ Hk). eauto. }
      assert (HL1 : forall c, c = x \/ c ∈ ks -> is_Some (L1 !! c)).
      { intros c [->|Hc']; [unfold L1; rewrite lookup_insert; eauto|].
        unfold L1. rewrite lookup_insert_ne by (intros ->; done).
        apply elem_of_list_lookup in Hc' as [k Hk]. rewrite (Hlk _ _ Hk). eauto. }
      rewrite HH', Gl. unfold suffix_object.
      rewrite run_set_next_bind by auto.
      rewrite run_set_prev by (auto || (rewrite is_Some_upd_next; auto)).
      (* the canonical maps *)
      rewrite HHc1 in S2. unfold add_item_to_array in S2. cbn [is_null orb] in S2. rewrite (ptr_eqb_Some_ne _ _ Hxa) in S2.
      rewrite (run_get_child_bind _ Hc1 L1 D1 a _ (Hlive1 a ltac:(auto)) HD1a) in S2.
      change (nd_child (mk_dat arr ks)) with (child_of arr ks) in S2.
      rewrite <- head_lookup in Hh. rewrite (child_of_head _ _ _ Hh) in S2. rewrite head_lookup in Hh. cbn [is_null] in S2.
      assert (HL1c0 : L1 !! c0 = Some (link_at ks 0)) by (unfold L1; rewrite lookup_insert_ne by done; by apply Hlk).
      rewrite bindM_assoc in S2.
      rewrite (run_get_prev_bind _ Hc1 L1 D1 c0 _ (Hlive1 c0 ltac:(auto)) HL1c0) in S2.
      rewrite link_at_0 in S2. cbn [snd] in S2. rewrite Hlast in S2. cbn [is_null negb when] in S2. rewrite !bindM_assoc in S2.
      rewrite (run_get_prev_bind _ Hc1 L1 D1 c0 _ (Hlive1 c0 ltac:(auto)) HL1c0) in S2.
      rewrite link_at_0 in S2. cbn [snd] in S2. rewrite Hlast in S2.
      unfold suffix_object in S2. rewrite !bindM_assoc in S2.
      rewrite run_set_next_bind in S2 by auto.
      rewrite run_set_prev_bind in S2 by (auto || (rewrite is_Some_upd_next; auto)).
      rewrite ?bindM_assoc in S2.
      rewrite (run_get_child_bind _ Hc1 _ D1 a _ (Hlive1 a ltac:(auto)) HD1a) in S2.
      change (nd_child (mk_dat arr ks)) with (child_of arr ks) in S2.
      rewrite <- head_lookup in Hh. rewrite (child_of_head _ _ _ Hh) in S2.
      rewrite run_set_prev_bind in S2 by (auto || (rewrite is_Some_upd_prev, is_Some_upd_next; auto)).
      unfold ret in S2. injection S2 as SL SD.
      unfold act. rewrite Hh2. unfold Hc2. rewrite upd_maps_upd_maps, h_lnk_upd_maps, h_dat_upd_maps.
      rewrite <- SL, <- SD. do 2 f_equal. unfold L1, A1. symmetry. f_equal. by apply tweak_step.
  Qed.

  (** ** a refused request inside the loop: the partial array is deleted, nothing is left *)
  Lemma step_fail Hc leaves H' :
    Inv Hc leaves -> clean_failure (act Hc leaves) H' ->
    exists h', cJSON_Delete (Some a) H' = Ret (tt, h') /\ clean_failure h h' /\ h_req h' = h_req H'.
  Proof.
    intros I C. pose proof I as [Wk Ek _]. destruct (Inv_facts _ _ I) as (Hin & Hla & Hda & NDk & Hks & Hlk & Hanext & LBc & Hlnka).
    destruct C as [C1 C2 C3 C4 C5 C6 C7 C8 C9]. cbn [act upd_maps h_lnk h_dat h_str h_own h_live h_next h_req h_hooks h_trace] in *.
    set (ks := tid <$> leaves) in *. set (tk := T a arr leaves). set (Fk := F ++ [tk]) in *.
    set (bs := free_order [tk]).
    assert (Hbs : bs ≡ₚ owned_fl (flat [tk])) by apply free_order_owned.
    assert (Htk : tk ∈ Fk) by (apply elem_of_app; right; by left).
    pose proof (wf_nodup _ _ Wk) as ND.
    assert (Hown_sub : forall b, b ∈ owned_fl (flat [tk]) -> b ∈ owned Fk).
    { intros b Hb. unfold owned, Fk. rewrite flat_app, owned_fl_app. apply elem_of_app. by right. }
    (* the local encoding survives the tweak and the failed call *)
    assert (E : Enc H' [tk]).
    { apply (Enc_transfer Hc H' [tk] (WF_Enc_root _ _ _ Wk Htk)).
      - exact C2.
      - intros b e Hb. rewrite C1. destruct (head ks) as [c0|]; [by apply lookup_upd_prev_Some|]. rewrite Hb. destruct e; eauto.
      - intros b Hb Hl. by rewrite C5.
      - intros b Hb Ho. rewrite C4; [done|]. apply (wf_fresh _ _ Wk). by apply Hown_sub. }
    assert (Hfuel : length (nodes [tk]) < Pos.to_nat (h_next H')).
    { assert (length (nodes [tk]) = length (ids [tk])) as -> by (unfold ids; by rewrite fmap_length).
      apply NoDup_length_lt_pos.
      - unfold Fk in ND. rewrite ids_app in ND. by apply NoDup_app in ND as (_ & _ & ?).
      - intros k Hk. assert (Hk' : k ∈ ids Fk) by (unfold Fk; rewrite ids_app; apply elem_of_app; by right).
        pose proof (WF_ids_fresh _ _ _ Wk Hk'). lia. }
    exists (free_all bs H'). split.
    { unfold cJSON_Delete, heap_fuel. unfold bindM at 1. change (Some a) with (head (tid <$> [tk])).
      by apply cJSON_Delete_fuel_sim. }
    (* the canonical deletion *)
    assert (Hroot : find_root a Fk = Some tk) by (apply (find_root_snoc F tk); intros Hi; by apply a_notin, roots_subseteq_ids).
    assert (Hrem : remove_root a Fk = F) by (apply (remove_root_snoc F tk); intros Hi; by apply a_notin, roots_subseteq_ids).
    destruct (cJSON_Delete_sim Hc Fk a tk Wk Hroot) as (_ & _ & Wd & _). rewrite Hrem in Wd. fold bs in Wd.
    assert (Hnew : forall b, b ∈ bs -> (a <= b)%positive).
    { intros b Hb. rewrite Hbs in Hb. destruct (ext_new _ _ _ Ek b Hb). lia. }
    split; [|apply free_all_req].
    assert (Hc0 : forall c0, head ks = Some c0 -> c0 ∈ bs).
    { intros c0 Hh. rewrite Hbs. apply (ids_subseteq_owned [tk]).
      eapply (cids_in_ids [tk] a arr ks); [unfold tk; rewrite flat_singleton, flat_t_unfold; by left|]. by apply head_Some_elem_of. }
    constructor.
    - rewrite (wf_lnk _ _ W), <- (wf_lnk _ _ Wd). apply map_eq. intros b.
      destruct (decide (b ∈ bs)) as [Hb|Hb]; [by rewrite !free_all_lnk_lookup_in|].
      rewrite !free_all_lnk_lookup by done. rewrite C1.
      destruct (head ks) as [c0|] eqn:Hh; [|done]. rewrite lookup_upd_prev_ne; [done|]. intros ->. by apply Hb, Hc0.
    - rewrite (wf_dat _ _ W), <- (wf_dat _ _ Wd). apply map_eq. intros b.
      destruct (decide (b ∈ bs)) as [Hb|Hb]; [by rewrite !free_all_dat_lookup_in|].
      rewrite !free_all_dat_lookup by done. by rewrite C2.
    - intros b Hb. assert (b ∉ bs) by (intros Hi; pose proof (Hnew _ Hi); lia).
      rewrite free_all_str_lookup by done. pose proof (ext_next _ _ _ Ek).
      rewrite C3 by lia. by apply (ext_below _ _ _ Ek).
    - intros b Hb. rewrite free_all_own. pose proof (ext_next _ _ _ Ek).
      rewrite C4 by lia. by apply (ext_below _ _ _ Ek).
    - apply set_eq. intros b. rewrite free_all_live, C5, (ext_live _ _ _ Ek), Hbs. split.
      + intros [[Hb|Hb] Hn]; done.
      + intros Hb. split; [by left|]. intros Hi. destruct (ext_new _ _ _ Ek b Hi). pose proof (LB b Hb). lia.
    - rewrite free_all_next. pose proof (ext_next _ _ _ Ek). lia.
    - rewrite free_all_req. pose proof (ext_req _ _ _ Ek). lia.
    - rewrite free_all_hooks, C8. apply (ext_hooks _ _ _ Ek).
    - destruct (free_all_trace bs H') as [e1 ->]. destruct C9 as [e2 ->]. destruct (ext_trace _ _ _ Ek) as [e3 ->].
      exists (e1 ++ e2 ++ e3). by rewrite <- !app_assoc.
  Qed.

  (** ** the loop *)
  Variable mk : Z -> M ptr.
  Variable n : nat.
  (** element [k] is made by a leaf constructor, in every heap the loop can be in *)
  Hypothesis Hmk : forall k Hc leaves, k < n -> length leaves = k -> Inv Hc leaves ->
    leaf_contract oracle (mk (Z.of_nat k)) (Q k) (act Hc leaves).

  Lemma create_array_loop_sim rem : forall k leaves Hc,
    Inv Hc leaves -> length leaves = k -> k + rem = n ->
    (exists leaves' Hc',
        create_array_loop mk rem (Z.of_nat k) (Some a) (last (tid <$> leaves)) (last (tid <$> leaves)) (act Hc leaves)
          = Ret (Some (last (tid <$> (leaves ++ leaves'))), act Hc' (leaves ++ leaves')) /\
        Inv Hc' (leaves ++ leaves') /\ length leaves' = rem)
    \/ (exists h', create_array_loop mk rem (Z.of_nat k) (Some a) (last (tid <$> leaves)) (last (tid <$> leaves)) (act Hc leaves)
          = Ret (None, h') /\ clean_failure h h' /\ refused oracle h h').
  Proof.
    induction rem as [|rem IH]; intros k leaves Hc I Hlen Hn.
    { left. exists [], Hc. rewrite app_nil_r. split; [reflexivity|]. split; [done|reflexivity]. }
    cbn [create_array_loop].
    destruct (Hmk k Hc leaves ltac:(lia) Hlen I) as [(d & H' & Hrun & G & HQ)|(H' & Hrun & C & R)].
    - (* the element was made *)
      rewrite (bindM_Ret _ _ _ _ _ Hrun). cbn [is_null].
      assert (Hx : h_next (act Hc leaves) = h_next Hc) by reflexivity.
      rewrite <- Hlen in HQ. destruct (step_ok Hc leaves H' _ d I G HQ) as (Hc' & I' & Hlink).
      rewrite Hlen in Hlink. rewrite (bindM_Ret _ _ _ _ _ Hlink).
      set (leaf := T (h_next (act Hc leaves)) d []) in *.
      assert (Hlast : Some (h_next (act Hc leaves)) = last (tid <$> (leaves ++ [leaf]))).
      { rewrite fmap_app. cbn. by rewrite last_snoc. }
      rewrite Hlast. replace (Z.of_nat k + 1)%Z with (Z.of_nat (S k)) by lia.
      destruct (IH (S k) (leaves ++ [leaf]) Hc' I') as [(leaves' & Hc'' & Hr & I'' & Hl')|(h' & Hr & Hcf & Hrf)].
      + rewrite app_length. cbn. lia.
      + lia.
      + left. exists (leaf :: leaves'), Hc''. rewrite <- app_assoc in Hr, I''. cbn [app] in Hr, I''.
        split; [exact Hr|]. split; [exact I''|]. cbn. by rewrite Hl'.
      + right. exists h'. done.
    - (* the request was refused: delete the partial array *)
      right. rewrite (bindM_Ret _ _ _ _ _ Hrun). cbn [is_null].
      destruct (step_fail Hc leaves H' I C) as (h' & Hdel & Hcf & Hreq).
      rewrite (bindM_Ret _ _ _ _ _ Hdel). exists h'. split; [reflexivity|]. split; [exact Hcf|].
      destruct R as (j & Hj & Ho). exists j. split; [|done].
      pose proof (ext_req _ _ _ (inv_ext _ _ I)). cbn in Hj. lia.
  Qed.
End Loop.

(** * PART 3: create_array_of and the public bulk constructors *)

Lemma create_array_of_refused oracle mk arg_is_null count h :
  (count < 0)%Z \/ arg_is_null = true -> create_array_of oracle mk arg_is_null count h = Ret (None, h).
Proof.
  intros H. unfold create_array_of. destruct (Z.ltb_spec count 0) as [Hlt|Hge]; [done|].
  destruct H as [H| ->]; [lia|done].
Qed.

Section ArrayOf.
  Context (oracle : nat -> bool) (h : heap) (F : forest).
  Hypothesis W : WF h F.
  Hypothesis LB : live_below h.
  Local Notation a := (h_next h).
  Variable Q : nat -> heap -> rdata -> Prop.
  Hypothesis Q_upd : forall k H d L D, Q k H d -> Q k (upd_maps H L D) d.
  Hypothesis Q_ext : forall k H H' N d, Q k H d -> Ext H H' N -> Q k H' d.
  Variable mk : Z -> M ptr.
  Variable count : Z.
  Hypothesis Hcount : (0 <= count)%Z.
  Hypothesis Hmk : forall k Hc leaves, k < Z.to_nat count -> length leaves = k -> Inv h F Q Hc leaves ->
    leaf_contract oracle (mk (Z.of_nat k)) (Q k) (act Hc leaves).

  Lemma NoLeak_Ext' Hc t :
    NoLeak h F -> Ext h Hc (owned_fl (flat [t])) -> NoLeak Hc (F ++ [t]).
  Proof.
    intros NL E b Hb. unfold owned. rewrite flat_app, owned_fl_app. apply elem_of_app.
    unfold lib_live in Hb. apply elem_of_filter in Hb as [Hb1 Hb2].
    apply (ext_live _ _ _ E) in Hb2 as [Hb2|Hb2]; [left|by right].
    apply NL. apply elem_of_filter. split; [|done].
    by destruct (ext_below _ _ _ E b (LB b Hb2)) as [_ <-].
  Qed.

  Lemma create_array_of_sim :
    (exists leaves Hc,
        create_array_of oracle mk false count h = Ret (Some a, Hc) /\
        WF Hc (F ++ [T a arr leaves]) /\ length leaves = Z.to_nat count /\
        (forall j t, leaves !! j = Some t -> exists x d, t = T x d [] /\ Q j Hc d) /\
        Ext h Hc (owned_fl (flat [T a arr leaves])) /\ live_below Hc /\
        (NoLeak h F -> NoLeak Hc (F ++ [T a arr leaves])))
    \/ (exists h', create_array_of oracle mk false count h = Ret (None, h') /\ clean_failure h h' /\ refused oracle h h').
  Proof.
    unfold create_array_of. destruct (Z.ltb_spec count 0) as [Hlt|_]; [lia|]. cbn [orb]. unfold cJSON_CreateArray.
    destruct (create_with_type_sim oracle c_cJSON_Array h F W LB) as [(Ho & Hrun & W0 & LB0 & _)|(Ho & Hrun & Hcf & Hrf)].
    2:{ right. exists (bump h). rewrite (bindM_Ret _ _ _ _ _ Hrun). cbn [is_null]. rewrite bindM_ret. cbn [is_null]. done. }
    rewrite (bindM_Ret _ _ _ _ _ Hrun). cbn [is_null]. fold arr in Hrun, W0, LB0. set (Hc0 := new_node h arr) in *.
    assert (I0 : Inv h F Q Hc0 []).
    { constructor; [exact W0| |intros j t Hj; done].
      apply (Ext_mem _ _ [a]); [|apply Ext_new_node].
      intros b. rewrite flat_singleton, flat_t_unfold. unfold arr. cbn. rewrite owned_strs_of_type. cbn. done. }
    change (new_node h (rd_of_type c_cJSON_Array)) with (act Hc0 []).
    destruct (create_array_loop_sim oracle h F W LB Q Q_upd Q_ext mk (Z.to_nat count) Hmk (Z.to_nat count) 0 [] Hc0 I0 eq_refl eq_refl)
      as [(leaves & Hc & Hr & I & Hl)|(h' & Hr & Hcf & Hrf)].
    2:{ right. exists h'. cbn in Hr. rewrite (bindM_Ret _ _ _ _ _ Hr). done. }
    left. cbn [app fmap list_fmap last Z.of_nat] in Hr. rewrite (bindM_Ret _ _ _ _ _ Hr).
    cbn [app] in I. exists leaves, Hc.
    pose proof I as [Wn En Qn]. destruct (Inv_facts h F LB Q _ _ I) as (Hin & Hla & Hda & NDk & Hks & Hlk & Hanext & LBc & Hlnka).
    set (ks := tid <$> leaves) in *.
    split; [|split; [exact Wn|split; [exact Hl|split; [exact Qn|split; [exact En|split; [exact LBc|]]]]]].
    2:{ intros NL. by apply NoLeak_Ext'. }
    (* the head's back link *)
    unfold act. fold ks.
    rewrite !bindM_assoc. rewrite (run_get_child_bind _ Hc _ _ a _ Hla Hda). change (nd_child (mk_dat arr ks)) with (child_of arr ks).
    destruct (head ks) as [c0|] eqn:Hh.
    - rewrite (child_of_head _ _ _ Hh). cbn [is_null negb when].
      rewrite !bindM_assoc. rewrite (run_get_child_bind _ Hc _ _ a _ Hla Hda). change (nd_child (mk_dat arr ks)) with (child_of arr ks).
      rewrite (child_of_head _ _ _ Hh).
      assert (Hc0in : c0 ∈ ks) by (by apply head_Some_elem_of).
      rewrite head_lookup in Hh. pose proof (Hlk _ _ Hh) as Hl0.
      rewrite run_set_prev_bind by (by apply Hks || (rewrite is_Some_upd_prev, Hl0; eauto)).
      rewrite upd_prev_upd_prev. rewrite (upd_prev_id _ _ _ _ Hl0) by (by rewrite link_at_0).
      by rewrite upd_maps_id.
    - apply head_None in Hh. rewrite Hh. cbn [child_of rd_ref arr rd_of_type is_null negb when].
      by rewrite upd_maps_id.
  Qed.
End ArrayOf.

(** ** the four public constructors *)
Lemma nth_error_lookup' {A} (l : list A) k : nth_error l k = l !! k.
Proof. revert k. induction l as [|x l IH]; intros [|k]; cbn; auto. Qed.

Lemma rd_arr_in_range {A B} (l : list A) k (v : A) (f : A -> M B) h :
  l !! k = Some v -> (w <~ rd_arr l (Z.of_nat k) ;; f w) h = f v h.
Proof. intros H. unfold rd_arr. rewrite Nat2Z.id, nth_error_lookup', H. reflexivity. Qed.

Lemma leaf_contract_ext oracle (m m' : M ptr) Q H : (m' H = m H) -> leaf_contract oracle m Q H -> leaf_contract oracle m' Q H.
Proof. intros E. unfold leaf_contract. by rewrite E. Qed.

(** the result statement shared by the four *)
Definition array_result (oracle : nat -> bool) (m : M ptr) h F (Q : nat -> heap -> rdata -> Prop) (count : Z) : Prop :=
  (exists leaves Hc,
      m h = Ret (Some (h_next h), Hc) /\
      WF Hc (F ++ [T (h_next h) arr leaves]) /\ length leaves = Z.to_nat count /\
      (forall j t, leaves !! j = Some t -> exists x d, t = T x d [] /\ Q j Hc d) /\
      Ext h Hc (owned_fl (flat [T (h_next h) arr leaves])) /\ live_below Hc /\
      (NoLeak h F -> NoLeak Hc (F ++ [T (h_next h) arr leaves])))
  \/ (exists h', m h = Ret (None, h') /\ clean_failure h h' /\ refused oracle h h').

Definition number_leaf (l : list dbl) (k : nat) (_ : heap) (d : rdata) : Prop :=
  exists v : dbl, l !! k = Some v /\ d = rd_number v.

Section Public.
  Context (oracle : nat -> bool) (h : heap) (F : forest).
  Hypothesis W : WF h F.
  Hypothesis LB : live_below h.

  (** NULL array or negative count: NULL, nothing happens *)
  Lemma cJSON_CreateIntArray_refused numbers count :
    numbers = None \/ (count < 0)%Z -> cJSON_CreateIntArray oracle numbers count h = Ret (None, h).
  Proof. intros [->|H]; apply create_array_of_refused; auto. Qed.
  Lemma cJSON_CreateFloatArray_refused numbers count :
    numbers = None \/ (count < 0)%Z -> cJSON_CreateFloatArray oracle numbers count h = Ret (None, h).
  Proof. intros [->|H]; apply create_array_of_refused; auto. Qed.
  Lemma cJSON_CreateDoubleArray_refused numbers count :
    numbers = None \/ (count < 0)%Z -> cJSON_CreateDoubleArray oracle numbers count h = Ret (None, h).
  Proof. intros [->|H]; apply create_array_of_refused; auto. Qed.
  Lemma cJSON_CreateStringArray_refused strings count :
    strings = None \/ (count < 0)%Z -> cJSON_CreateStringArray oracle strings count h = Ret (None, h).
  Proof. intros [->|H]; apply create_array_of_refused; auto. Qed.

  Lemma number_array_sim (conv : dbl -> dbl) (l : list dbl) count :
    (0 <= count)%Z -> Z.to_nat count <= length l ->
    array_result oracle
      (create_array_of oracle (fun j : Z => v <~ rd_arr l j ;; cJSON_CreateNumber oracle (conv v)) false count)
      h F (number_leaf (conv <$> l)) count.
  Proof.
    intros Hc Hlen. apply (create_array_of_sim oracle h F W LB (number_leaf (conv <$> l))); try done.
    intros k Hc' leaves Hk _ _.
    destruct (lookup_lt_is_Some_2 l k ltac:(lia)) as [x Hx].
    eapply leaf_contract_ext; [apply (rd_arr_in_range l k x _ _ Hx)|].
    destruct (cJSON_CreateNumber_contract oracle (conv x) (act Hc' leaves)) as [(d & H' & H1 & H2 & ->)|Hf]; [left|by right].
    exists (rd_number (conv x)), H'. split; [done|]. split; [done|]. exists (conv x). split; [|done].
    by rewrite list_lookup_fmap, Hx.
  Qed.

  Lemma cJSON_CreateIntArray_sim (l : list Z) count :
    (0 <= count)%Z -> Z.to_nat count <= length l ->
    array_result oracle (cJSON_CreateIntArray oracle (Some l) count) h F (number_leaf (dbl_of_int <$> l)) count.
  Proof.
    intros Hc Hlen. unfold cJSON_CreateIntArray. cbn [arr_of opt_is_none].
    apply (create_array_of_sim oracle h F W LB (number_leaf (dbl_of_int <$> l))); try done.
    intros k Hc' leaves Hk _ _.
    destruct (lookup_lt_is_Some_2 l k ltac:(lia)) as [x Hx].
    eapply leaf_contract_ext; [apply (rd_arr_in_range l k x _ _ Hx)|].
    destruct (cJSON_CreateNumber_contract oracle (dbl_of_int x) (act Hc' leaves)) as [(d & H' & H1 & H2 & ->)|Hf]; [left|by right].
    exists (rd_number (dbl_of_int x)), H'. split; [done|]. split; [done|]. exists (dbl_of_int x). split; [|done].
    by rewrite list_lookup_fmap, Hx.
  Qed.
  Lemma cJSON_CreateFloatArray_sim (l : list dbl) count :
    (0 <= count)%Z -> Z.to_nat count <= length l ->
    array_result oracle (cJSON_CreateFloatArray oracle (Some l) count) h F (number_leaf l) count.
  Proof.
    intros Hc Hlen. pose proof (number_array_sim (fun v : dbl => v) l count Hc Hlen) as H. by rewrite list_fmap_id in H.
  Qed.
  Lemma cJSON_CreateDoubleArray_sim (l : list dbl) count :
    (0 <= count)%Z -> Z.to_nat count <= length l ->
    array_result oracle (cJSON_CreateDoubleArray oracle (Some l) count) h F (number_leaf l) count.
  Proof.
    intros Hc Hlen. pose proof (number_array_sim (fun v : dbl => v) l count Hc Hlen) as H. by rewrite list_fmap_id in H.
  Qed.

  (** strings: every element a readable C string *)
  Definition strings_leaf (l : list ptr) (k : nat) (H : heap) (d : rdata) : Prop :=
    exists sb, l !! k = Some (Some sb) /\ string_leaf (str_at h sb) H d.

  Lemma cJSON_CreateStringArray_sim (l : list ptr) count :
    (0 <= count)%Z -> Z.to_nat count <= length l ->
    (forall k (q : ptr), k < Z.to_nat count -> l !! k = Some q -> exists sb, q = Some sb /\ Readable h sb) ->
    array_result oracle (cJSON_CreateStringArray oracle (Some l) count) h F (strings_leaf l) count.
  Proof.
    intros Hc Hlen Hrd. unfold cJSON_CreateStringArray. cbn [arr_of opt_is_none].
    apply (create_array_of_sim oracle h F W LB (strings_leaf l)); try done.
    - intros k H H' N d (sb & H1 & sb' & H2 & H3 & H4) E. exists sb. split; [done|]. exists sb'. split; [done|].
      pose proof (ext_next _ _ _ E). split; [lia|]. destruct (ext_below _ _ _ E sb' H3) as [Hs _]. etransitivity; [exact Hs|exact H4].
    - intros k Hc' leaves Hk _ I.
      destruct (lookup_lt_is_Some_2 l k ltac:(lia)) as [p Hp]. destruct (Hrd k p Hk Hp) as (sb & -> & HR).
      eapply leaf_contract_ext; [apply (rd_arr_in_range l k (Some sb) _ _ Hp)|].
      destruct (cJSON_CreateString_contract oracle (act Hc' leaves) sb
                  (live_below_act h F LB _ _ _ I) (maps_below_act h F _ _ _ I) (Readable_act h F LB _ _ _ sb I HR))
        as [(d & H' & H1 & H2 & H3)|Hf]; [left|by right].
      exists d, H'. split; [done|]. split; [done|]. exists sb. split; [done|].
      rewrite (str_at_act h F LB _ _ _ sb I) in H3; [done|]. by destruct HR.
  Qed.
End Public.

(** * with an allocator that never refuses, the bulk constructors succeed *)
Lemma array_result_total m h F Q count :
  array_result never m h F Q count ->
  exists leaves Hc,
    m h = Ret (Some (h_next h), Hc) /\ WF Hc (F ++ [T (h_next h) arr leaves]) /\ length leaves = Z.to_nat count /\
    (forall j t, leaves !! j = Some t -> exists x d, t = T x d [] /\ Q j Hc d).
Proof.
  intros [(leaves & Hc & H1 & H2 & H3 & H4 & _)|(h' & _ & _ & H)]; [by exists leaves, Hc|].
  by apply refused_false in H.
Qed.
Lemma cJSON_CreateIntArray_total h F (l : list Z) count :
  WF h F -> live_below h -> (0 <= count)%Z -> Z.to_nat count <= length l ->
  exists leaves Hc,
    cJSON_CreateIntArray never (Some l) count h = Ret (Some (h_next h), Hc) /\
    WF Hc (F ++ [T (h_next h) arr leaves]) /\ length leaves = Z.to_nat count /\
    (forall j t, leaves !! j = Some t -> exists x d, t = T x d [] /\ number_leaf (dbl_of_int <$> l) j Hc d).
Proof. intros W LB Hc Hl. by apply array_result_total, cJSON_CreateIntArray_sim. Qed.
Lemma cJSON_CreateDoubleArray_total h F (l : list dbl) count :
  WF h F -> live_below h -> (0 <= count)%Z -> Z.to_nat count <= length l ->
  exists leaves Hc,
    cJSON_CreateDoubleArray never (Some l) count h = Ret (Some (h_next h), Hc) /\
    WF Hc (F ++ [T (h_next h) arr leaves]) /\ length leaves = Z.to_nat count /\
    (forall j t, leaves !! j = Some t -> exists x d, t = T x d [] /\ number_leaf l j Hc d).
Proof. intros W LB Hc Hl. by apply array_result_total, cJSON_CreateDoubleArray_sim. Qed.
Lemma cJSON_CreateFloatArray_total h F (l : list dbl) count :
  WF h F -> live_below h -> (0 <= count)%Z -> Z.to_nat count <= length l ->
  exists leaves Hc,
    cJSON_CreateFloatArray never (Some l) count h = Ret (Some (h_next h), Hc) /\
    WF Hc (F ++ [T (h_next h) arr leaves]) /\ length leaves = Z.to_nat count /\
    (forall j t, leaves !! j = Some t -> exists x d, t = T x d [] /\ number_leaf l j Hc d).
Proof. intros W LB Hc Hl. by apply array_result_total, cJSON_CreateFloatArray_sim. Qed.
Lemma cJSON_CreateStringArray_total h F (l : list ptr) count :
  WF h F -> live_below h -> (0 <= count)%Z -> Z.to_nat count <= length l ->
  (forall k (q : ptr), k < Z.to_nat count -> l !! k = Some q -> exists sb, q = Some sb /\ Readable h sb) ->
  exists leaves Hc,
    cJSON_CreateStringArray never (Some l) count h = Ret (Some (h_next h), Hc) /\
    WF Hc (F ++ [T (h_next h) arr leaves]) /\ length leaves = Z.to_nat count /\
    (forall j t, leaves !! j = Some t -> exists x d, t = T x d [] /\ strings_leaf h l j Hc d).
Proof. intros W LB Hc Hl Hrd. by apply array_result_total, cJSON_CreateStringArray_sim. Qed.

(** * what the success branch says about the heap: the chain under the array node *)
Lemma array_encoding Hc F x (leaves : list tree) :
  WF Hc (F ++ [T x arr leaves]) ->
  let ks := tid <$> leaves in
  h_lnk Hc !! x = Some (None, None) /\ h_dat Hc !! x = Some (mk_dat arr ks) /\
  (forall k c, ks !! k = Some c -> h_lnk Hc !! c = Some (link_at ks k)) /\
  (forall k c d, leaves !! k = Some (T c d []) -> h_dat Hc !! c = Some (mk_dat d [])).
Proof.
  intros Wk ks.
  assert (Hin : (x, arr, ks) ∈ flat (F ++ [T x arr leaves])).
  { rewrite flat_app, flat_singleton, flat_t_unfold. apply elem_of_app. right. by left. }
  split_and!.
  - apply (WF_lookup_lnk_root _ _ _ Wk). rewrite roots_app. apply elem_of_app. right. by left.
  - by apply (WF_lookup_dat _ _ _ _ _ Wk).
  - intros k c Hk. by apply (WF_lookup_lnk_child _ _ _ _ _ _ _ Wk Hin Hk).
  - intros k c d Hk. apply (WF_lookup_dat _ _ _ _ _ Wk).
    rewrite flat_app, flat_singleton, flat_t_unfold. apply elem_of_app. right. right.
    apply elem_of_list_lookup_2 in Hk. change (c, d, []) with (flat_of (T c d [])).
    apply elem_of_flat. by apply roots_in_nodes.
Qed.
