(** PatchTest.v — compare_json (with its in-place sorting) decides the document equality of
    Rfc6902.v and leaves a document equal to the one it was given; the [test] operation. *)
From Coq Require Import Lia ZArith List Bool Permutation Sorted.
From CJ Require Import Base Dbl Tree PointerDefs PointerProofs CompareDefs PatchDefs PatchProofs PatchRobust Rfc6902
  PatchConform PatchOps PatchApply PatchSort.
Import ListNotations.
Local Open Scope Z_scope.

(** ---------- doc_eqb with its loops named ---------- *)
Fixpoint arr_eqb (la lb : list node) : bool :=
  match la, lb with
  | [], [] => true
  | x :: la', y :: lb' => doc_eqb x y && arr_eqb la' lb'
  | _, _ => false
  end.
Fixpoint obj_eqb (cb : list node) (la : list node) : bool :=
  match la with
  | [] => true
  | x :: la' =>
      match n_key x with
      | Some k => match find_key cb k 0%nat with
                  | Some (_, y) => doc_eqb x y && obj_eqb cb la'
                  | None => false
                  end
      | None => false
      end
  end.

Lemma doc_eqb_unfold ty vs vi vd k ca b :
  doc_eqb (Node ty vs vi vd k ca) b =
  json_type (tymask ty) && (tymask ty =? tymask (n_ty b)) &&
  (if tymask ty =? c_cJSON_Number then (vi =? n_vint b) && compare_double vd (n_vdbl b)
   else if tymask ty =? c_cJSON_String then match vs, n_vstr b with Some x, Some y => bytes_eqb x y | _, _ => false end
   else if tymask ty =? c_cJSON_Array then arr_eqb ca (n_children b)
   else if tymask ty =? c_cJSON_Object then (length ca =? length (n_children b))%nat && obj_eqb (n_children b) ca
   else true).
Proof.
  cbn [doc_eqb].
  assert (G1 : forall la lb, (fix arr (la lb : list node) : bool :=
            match la, lb with
            | [], [] => true
            | x :: la', y :: lb' => doc_eqb x y && arr la' lb'
            | _, _ => false
            end) la lb = arr_eqb la lb).
  { induction la as [|x la IH]; intros [|y lb]; reflexivity. }
  assert (G2 : forall la, (fix obj (la : list node) : bool :=
            match la with
            | [] => true
            | x :: la' =>
                match n_key x with
                | Some k0 => match find_key (n_children b) k0 0%nat with
                             | Some (_, y) => doc_eqb x y && obj la'
                             | None => false
                             end
                | None => false
                end
            end) la = obj_eqb (n_children b) la).
  { induction la as [|x la IH]; [reflexivity|]. cbn [obj_eqb]. rewrite <- IH. reflexivity. }
  rewrite G1, G2. reflexivity.
Qed.

(** ---------- what a recursive call of compare_json delivers ---------- *)
Definition same (x' x : node) : Prop := doc_eq x' x /\ n_key x' = n_key x.
Definition cj_spec (a b : node) (r : res (bool * node * node)) : Prop :=
  exists a' b', r = Ok (doc_eqb a b, a', b') /\ same a' a.

Lemma same_refl_list l : Forall dwf l -> Forall2 same l l.
Proof. intro H. apply Forall2_refl_in. rewrite Forall_forall in H. intros x Hx. split; [apply doc_eq_refl; apply H; exact Hx | reflexivity]. Qed.

Lemma cmp_arr_spec rec : forall la lb, Forall dwf la -> Forall dwf lb ->
  (forall x y, In x la -> dwf x -> dwf y -> cj_spec x y (rec x y)) ->
  exists la' lb', cmp_arr rec la lb = Ok (arr_eqb la lb, la', lb') /\ Forall2 same la' la.
Proof.
  induction la as [|x la IH]; intros lb Ha Hb H; destruct lb as [|y lb]; cbn [cmp_arr arr_eqb].
  - do 2 eexists. split; [reflexivity | constructor].
  - do 2 eexists. split; [reflexivity | constructor].
  - do 2 eexists. split; [reflexivity | apply same_refl_list; exact Ha].
  - inversion Ha as [|? ? Hx Ha']; subst. inversion Hb as [|? ? Hy Hb']; subst.
    destruct (H x y (or_introl eq_refl) Hx Hy) as (x' & y' & E & Sx). rewrite E. cbn [bind].
    destruct (doc_eqb x y); cbn [andb].
    + destruct (IH lb Ha' Hb') as (la2 & lb2 & E2 & F2). { intros; apply H; try assumption; right; assumption. }
      rewrite E2. cbn [bind]. do 2 eexists. split; [reflexivity | constructor; assumption].
    + do 2 eexists. split; [reflexivity|]. constructor; [exact Sx | apply same_refl_list; exact Ha'].
Qed.

Fixpoint walkb (ra rb : list node) : bool :=
  match ra, rb with
  | [], [] => true
  | x :: ra', y :: rb' => (compare_strings (n_key x) (n_key y) true =? 0) && doc_eqb x y && walkb ra' rb'
  | _, _ => false
  end.

Lemma cmp_obj_spec rec : forall ra rb, Forall dwf ra -> Forall dwf rb ->
  (forall x y, In x ra -> dwf x -> dwf y -> cj_spec x y (rec x y)) ->
  exists ra' rb', cmp_obj rec true ra rb = Ok (walkb ra rb, ra', rb') /\ Forall2 same ra' ra.
Proof.
  induction ra as [|x ra IH]; intros rb Ha Hb H; destruct rb as [|y rb]; cbn [cmp_obj walkb].
  - do 2 eexists. split; [reflexivity | constructor].
  - do 2 eexists. split; [reflexivity | constructor].
  - do 2 eexists. split; [reflexivity | apply same_refl_list; exact Ha].
  - destruct (compare_strings (n_key x) (n_key y) true =? 0); cbn [negb andb].
    2:{ do 2 eexists. split; [reflexivity | apply same_refl_list; exact Ha]. }
    inversion Ha as [|? ? Hx Ha']; subst. inversion Hb as [|? ? Hy Hb']; subst.
    destruct (H x y (or_introl eq_refl) Hx Hy) as (x' & y' & E & Sx). rewrite E. cbn [bind].
    destruct (doc_eqb x y); cbn [andb].
    + destruct (IH rb Ha' Hb') as (la2 & lb2 & E2 & F2). { intros; apply H; try assumption; right; assumption. }
      rewrite E2. cbn [bind]. do 2 eexists. split; [reflexivity | constructor; assumption].
    + do 2 eexists. split; [reflexivity|]. constructor; [exact Sx | apply same_refl_list; exact Ha'].
Qed.

(** ---------- the sorted pairwise walk decides equality of member sets ---------- *)
Lemma nodup_key_inj l x y : NoDup (map n_key l) -> In x l -> In y l -> n_key x = n_key y -> x = y.
Proof.
  induction l as [|c l IH]; intros N Hx Hy E; [contradiction|].
  cbn [map] in N. inversion N as [|? ? Nin N']; subst.
  destruct Hx as [Hx|Hx]; destruct Hy as [Hy|Hy].
  - congruence.
  - subst c. exfalso. apply Nin. rewrite E. apply in_map. exact Hy.
  - subst c. exfalso. apply Nin. rewrite <- E. apply in_map. exact Hx.
  - apply IH; assumption.
Qed.

Lemma find_key_of_in k : forall l s y, In y l -> n_key y = Some k -> exists j y', find_key l k s = Some (j, y').
Proof.
  induction l as [|c l IH]; intros s y Hy E; [contradiction|]. cbn [find_key].
  destruct (match n_key c with Some k' => bytes_eqb k' k | None => false end) eqn:M; [do 2 eexists; reflexivity|].
  destruct Hy as [Hy|Hy].
  - subst c. rewrite E, bytes_eqb_refl in M. discriminate.
  - eapply IH; eassumption.
Qed.

Lemma find_key_in k l j y : find_key l k 0%nat = Some (j, y) -> In y l /\ n_key y = Some k.
Proof. intro F. split; [eapply nth_error_In; eapply find_key_nth; exact F | eapply find_key_key; exact F]. Qed.

(* the partner of a member of [ca] in [cb] *)
Definition partner (cb : list node) (x : node) : Prop :=
  exists k j y, n_key x = Some k /\ find_key cb k 0%nat = Some (j, y) /\ doc_eqb x y = true.

Lemma obj_eqb_iff cb : forall ca, obj_eqb cb ca = true <-> Forall (partner cb) ca.
Proof.
  induction ca as [|x ca IH]; cbn [obj_eqb]; [split; [constructor | reflexivity]|].
  split.
  - intro H. destruct (n_key x) as [k|] eqn:Ek; [|discriminate].
    destruct (find_key cb k 0%nat) as [[j y]|] eqn:F; [|discriminate].
    apply andb_true_iff in H. destruct H as [H1 H2]. constructor; [|apply IH; exact H2].
    exists k, j, y. repeat split; assumption.
  - intro H. inversion H as [|? ? (k & j & y & Ek & F & D) H']; subst. rewrite Ek, F, D. cbn [andb]. apply IH. exact H'.
Qed.

Definition pairok (x y : node) : Prop := compare_strings (n_key x) (n_key y) true = 0 /\ doc_eqb x y = true.
Lemma walkb_iff : forall ra rb, walkb ra rb = true <-> Forall2 pairok ra rb.
Proof.
  induction ra as [|x ra IH]; intros [|y rb]; cbn [walkb]; split; intro H; try discriminate; try (inversion H; fail); try constructor.
  - apply andb_true_iff in H. destruct H as [H1 H3]. apply andb_true_iff in H1. destruct H1 as [H1 H2].
    apply Z.eqb_eq in H1. split; assumption.
  - apply andb_true_iff in H. destruct H as [_ H3]. apply IH. exact H3.
  - inversion H as [|? ? ? ? [H1 H2] H3]; subst. rewrite H1, H2. cbn [Z.eqb andb]. apply IH. exact H3.
Qed.

Lemma keyed_cmp0 x y : keyed1 x -> keyed1 y -> (compare_strings (n_key x) (n_key y) true = 0 <-> n_key x = n_key y).
Proof.
  intros (kx & Ex & Hx) (ky & Ey & Hy). rewrite Ex, Ey. cbn [compare_strings]. split.
  - intro H. f_equal. apply strcmp_zero_eq; assumption.
  - intro H. inversion H; subst. apply strcmp_refl.
Qed.

Lemma Forall2_in_l {A B} (R : A -> B -> Prop) l1 l2 x : Forall2 R l1 l2 -> In x l1 -> exists y, In y l2 /\ R x y.
Proof.
  induction 1 as [|a b l1 l2 Hab F IH]; intro Hx; [contradiction|].
  destruct Hx as [Hx|Hx]; [subst; exists b; split; [left; reflexivity | exact Hab]|].
  destruct (IH Hx) as (y & Hy & Hr). exists y. split; [right; exact Hy | exact Hr].
Qed.
Lemma Forall2_strengthen {A B} (R R' : A -> B -> Prop) l1 l2 :
  Forall2 R l1 l2 -> (forall x y, In x l1 -> In y l2 -> R x y -> R' x y) -> Forall2 R' l1 l2.
Proof.
  induction 1 as [|a b l1 l2 Hab F IH]; intro H; constructor.
  - apply H; [left; reflexivity | left; reflexivity | exact Hab].
  - apply IH. intros x y Hx Hy. apply H; right; assumption.
Qed.
Lemma map_eq_Forall2 {A B} (f : A -> B) : forall l1 l2, map f l1 = map f l2 -> Forall2 (fun x y => f x = f y) l1 l2.
Proof.
  induction l1 as [|a l1 IH]; intros [|b l2] H; try discriminate; constructor.
  - cbn in H. inversion H. reflexivity.
  - apply IH. cbn in H. inversion H. reflexivity.
Qed.

Lemma Forall2_len {A B} (R : A -> B -> Prop) l1 l2 : Forall2 R l1 l2 -> length l1 = length l2.
Proof. induction 1; cbn; congruence. Qed.

Lemma walk_decides ca cb ra rb :
  keyed_children ca -> keyed_children cb -> NoDup (map n_key ca) -> NoDup (map n_key cb) ->
  Permutation ca ra -> Permutation cb rb -> StronglySorted kle ra -> StronglySorted kle rb ->
  walkb ra rb = ((length ca =? length cb)%nat && obj_eqb cb ca).
Proof.
  intros Ka Kb Na Nb Pa Pb Sa Sb.
  assert (Kra : keyed_children ra) by (eapply keyed_perm; eassumption).
  assert (Krb : keyed_children rb) by (eapply keyed_perm; eassumption).
  assert (Nra : NoDup (map n_key ra)) by (eapply Permutation_NoDup; [apply Permutation_map; exact Pa | exact Na]).
  assert (Nrb : NoDup (map n_key rb)) by (eapply Permutation_NoDup; [apply Permutation_map; exact Pb | exact Nb]).
  apply eq_true_iff_eq. rewrite walkb_iff, andb_true_iff, Nat.eqb_eq, obj_eqb_iff. split.
  - intro F. split.
    + rewrite (Permutation_length Pa), (Permutation_length Pb). eapply Forall2_len; exact F.
    + rewrite Forall_forall. intros x Hx.
      assert (Hxr : In x ra) by (eapply Permutation_in; eassumption).
      destruct (Forall2_in_l _ _ _ _ F Hxr) as (y & Hy & [C D]).
      assert (Hyc : In y cb) by (eapply Permutation_in; [apply Permutation_sym; exact Pb | exact Hy]).
      destruct (keyed_in _ _ Ka Hx) as (k & Ek & Hk).
      apply keyed_cmp0 in C; [|exact (keyed_in _ _ Ka Hx) | exact (keyed_in _ _ Kb Hyc)].
      destruct (find_key_of_in k cb 0%nat y Hyc ltac:(congruence)) as (j & y' & Fk).
      destruct (find_key_in _ _ _ _ Fk) as [Hy' Ey'].
      assert (y' = y) by (apply (nodup_key_inj cb); try assumption; congruence). subst y'.
      exists k, j, y. repeat split; assumption.
  - intros [L Hp]. rewrite Forall_forall in Hp.
    (* the key sets agree *)
    assert (I1 : incl (map n_key ca) (map n_key cb)).
    { intros k Hk. apply in_map_iff in Hk. destruct Hk as (x & Ex & Hx).
      destruct (Hp x Hx) as (k' & j & y & Ek & Fk & _). destruct (find_key_in _ _ _ _ Fk) as [Hy Ey].
      rewrite <- Ex, Ek, <- Ey. apply in_map. exact Hy. }
    assert (I2 : incl (map n_key cb) (map n_key ca)).
    { apply NoDup_length_incl; [exact Na | rewrite !map_length; lia | exact I1]. }
    assert (Hset : forall k, In k (map n_key ra) <-> In k (map n_key rb)).
    { intro k. split; intro Hk.
      - eapply Permutation_in; [apply Permutation_map; exact Pb|]. apply I1.
        eapply Permutation_in; [apply Permutation_map; apply Permutation_sym; exact Pa | exact Hk].
      - eapply Permutation_in; [apply Permutation_map; exact Pa|]. apply I2.
        eapply Permutation_in; [apply Permutation_map; apply Permutation_sym; exact Pb | exact Hk]. }
    pose proof (sorted_same_keys ra rb Kra Krb (sorted_strict _ Kra Nra Sa) (sorted_strict _ Krb Nrb Sb) Hset) as Hk.
    apply map_eq_Forall2 in Hk.
    eapply Forall2_strengthen; [exact Hk|]. intros x y Hx Hy Exy. cbn beta in Exy.
    assert (Hxc : In x ca) by (eapply Permutation_in; [apply Permutation_sym; exact Pa | exact Hx]).
    assert (Hyc : In y cb) by (eapply Permutation_in; [apply Permutation_sym; exact Pb | exact Hy]).
    split; [apply keyed_cmp0; [exact (keyed_in _ _ Ka Hxc) | exact (keyed_in _ _ Kb Hyc) | exact Exy]|].
    destruct (Hp x Hxc) as (k & j & y' & Ek & Fk & D). destruct (find_key_in _ _ _ _ Fk) as [Hy' Ey'].
    assert (y' = y) by (apply (nodup_key_inj cb); try assumption; congruence). subst y'. exact D.
Qed.

(** ---------- compare_json decides doc_eqb; the first operand stays an equal document ---------- *)
Lemma dwf_obj_local a : dwf a -> tymask (n_ty a) = c_cJSON_Object -> NoDup (map n_key (n_children a)) /\ keyed_children (n_children a).
Proof. intros Hd Ht. destruct (dwf_local a Hd) as (_ & _ & _ & _ & O). apply O. exact Ht. Qed.

Lemma compare_json_spec : forall fuel a b, (node_depth a <= fuel)%nat -> dwf a -> dwf b -> cj_spec a b (compare_json fuel a b true).
Proof.
  induction fuel as [|f IH]; intros a b Hdep Ha Hb.
  - destruct a. rewrite node_depth_eq in Hdep. lia.
  - unfold cj_spec. cbn [compare_json].
    destruct a as [ty vs vi vd k ca]. rewrite doc_eqb_unfold. cbn [n_ty n_vint n_vdbl n_vstr n_children].
    pose proof (dwf_local _ Ha) as (L & J & Sv & Nv & Ov). cbn [n_ty n_vstr n_vdbl n_children] in *.
    pose proof (doc_eq_refl _ Ha) as Rf.
    rewrite J. cbn [andb].
    destruct (Z.eqb_spec (tymask ty) (tymask (n_ty b))) as [Et|Et]; cbn [negb andb].
    2:{ do 2 eexists. split; [reflexivity | split; [exact Rf | reflexivity]]. }
    destruct (Z.eqb_spec (tymask ty) c_cJSON_Number) as [En|En].
    { do 2 eexists. split; [|split; [exact Rf | reflexivity]]. f_equal. f_equal. f_equal.
      destruct (vi =? n_vint b), (compare_double vd (n_vdbl b)); reflexivity. }
    destruct (Z.eqb_spec (tymask ty) c_cJSON_String) as [Es|Es].
    { destruct (Sv Es) as (x & Ex & Nx). subst vs.
      destruct (dwf_local _ Hb) as (_ & _ & Sb & _). destruct (Sb ltac:(congruence)) as (y & Ey & Ny). rewrite Ey.
      rewrite strcmp_eqb by assumption. do 2 eexists. split; [reflexivity | split; [exact Rf | reflexivity]]. }
    destruct (Z.eqb_spec (tymask ty) c_cJSON_Array) as [Ea|Ea].
    { destruct (cmp_arr_spec (fun x y => compare_json f x y true) ca (n_children b)) as (la' & lb' & E & F2).
      - apply (dwf_children _ Ha).
      - apply (dwf_children _ Hb).
      - intros x y Hx Hdx Hdy. apply IH; try assumption. pose proof (depth_child (Node ty vs vi vd k ca) x Hx). lia.
      - rewrite E. cbn [bind]. do 2 eexists. split; [reflexivity|]. split; [|reflexivity].
        cbn [set_children]. apply doc_eq_head; try assumption.
        + intros _. eapply Forall2_impl'; [|exact F2]. intros ? ? [H _]. exact H.
        + intro Ho. rewrite Ea in Ho. discriminate Ho. }
    destruct (Z.eqb_spec (tymask ty) c_cJSON_Object) as [Eo|Eo].
    2:{ do 2 eexists. split; [reflexivity | split; [exact Rf | reflexivity]]. }
    destruct (Ov Eo) as [Na Ka].
    destruct (dwf_obj_local b Hb ltac:(congruence)) as [Nb Kb].
    destruct (sort_object_sorted (Node ty vs vi vd k ca) Ka) as (ra & Hra & Pa & Sa).
    destruct (sort_object_sorted b Kb) as (rb & Hrb & Pb & Sb).
    rewrite Hra. cbn [bind]. rewrite Hrb. cbn [bind]. rewrite !n_children_set. cbn [n_children] in Pa.
    assert (Dra : Forall dwf ra) by (eapply Forall_perm; [exact Pa | apply (dwf_children _ Ha)]).
    assert (Drb : Forall dwf rb) by (eapply Forall_perm; [exact Pb | apply (dwf_children _ Hb)]).
    destruct (cmp_obj_spec (fun x y => compare_json f x y true) ra rb Dra Drb) as (ra' & rb' & E & F2).
    { intros x y Hx Hdx Hdy. apply IH; try assumption.
      assert (In x ca) by (eapply Permutation_in; [apply Permutation_sym; exact Pa | exact Hx]).
      pose proof (depth_child (Node ty vs vi vd k ca) x H). lia. }
    rewrite E. cbn [bind]. rewrite (walk_decides ca (n_children b) ra rb Ka Kb Na Nb Pa Pb Sa Sb).
    do 2 eexists. split; [reflexivity|]. split; [|reflexivity].
    cbn [set_children]. apply doc_eq_head; try assumption; [intro Ha'; rewrite Eo in Ha'; discriminate Ha'|]. intros _.
    assert (F3 : Forall2 mrel ra' ra).
    { eapply Forall2_strengthen; [exact F2|]. intros x' x _ Hx [D Kk]. split; [|split; assumption].
      rewrite Kk. eapply keyed_key_some; [eapply keyed_perm; [exact Pa | exact Ka] | exact Hx]. }
    destruct (Forall2_both mrel _ _ F3) as [B1 B2]. split.
    + eapply Forall_impl; [|exact B1]. intros x' Hx'. eapply Exists_perm; [apply Permutation_sym; exact Pa | exact Hx'].
    + eapply Forall_perm; [apply Permutation_sym; exact Pa | exact B2].
Qed.

(** ---------- the test operation ---------- *)
Lemma replace_nth_same {A} : forall i (c : A) l, nth_error l i = Some c -> replace_nth i c l = l.
Proof.
  intros i c l; revert i; induction l as [|y l IH]; intros i N; [reflexivity|].
  destruct i as [|i]; cbn [nth_error] in N; cbn [replace_nth]; [inversion N; reflexivity | f_equal; apply IH; exact N].
Qed.
Lemma put_subtree_same : forall pp d a, subtree d pp = Some a -> put_subtree d pp a = d.
Proof.
  induction pp as [|i p IH]; intros d a S; cbn [subtree put_subtree] in *; [inversion S; reflexivity|].
  destruct (nth_error (n_children d) i) as [c|] eqn:N; [|reflexivity].
  rewrite (IH _ _ S). rewrite (replace_nth_same _ _ _ N). destruct d; reflexivity.
Qed.

Theorem apply_patch_test doc p toks v0 : dwf doc -> op_wf p -> op_of p = Some (Test toks v0) -> dwf v0 ->
  exists st doc' p', apply_patch doc p true = Ok (st, doc', p') /\
    match eval1 doc (Test toks v0) with
    | Some d' => st = 0 /\ doc_eq doc' d'
    | None => st <> 0 /\ doc_eq doc' doc
    end.
Proof.
  intros Hd Hw Ho Hv. destruct (op_of_inv _ _ Ho) as (opname & toks' & Eop & Ept & (Eo & Et & Ev)). subst toks'.
  destruct (path_lookup _ _ Hw Ept) as (j & pathn & pstr & Gp & Sp & Vp & Np & Pp).
  destruct (value_lookup _ _ Hw Ev) as (jv & Gv).
  unfold apply_patch. rewrite Gp, Sp. cbn [negb]. rewrite (decode_op _ _ Hw Eop), Eo. cbn [bind]. rewrite Vp, Gv.
  cbn [eval1]. rewrite get_resolve.
  change (get_item_from_pointer doc pstr true) with (cJSONUtils_GetPointerCaseSensitive doc pstr).
  rewrite get_pointer_rfc; [|apply dwf_small; exact Hd | exact Np]. unfold rfc6901. rewrite Pp.
  destruct (rfc_resolve doc toks) as [tp|] eqn:R.
  2:{ do 3 eexists. split; [reflexivity|]. split; [discriminate | apply doc_eq_refl; exact Hd]. }
  destruct (rfc_resolve_subtree _ _ _ R) as (a & Sa). rewrite Sa.
  assert (Ha : dwf a) by (eapply dwf_subtree; [exact Hd | exact Sa]).
  destruct (compare_json_spec (node_depth a) a v0 ltac:(lia) Ha Hv) as (a' & v' & E & [D K]).
  rewrite E. cbn [bind].
  assert (Dd : doc_eq (put_subtree doc tp a') doc).
  { rewrite <- (put_subtree_same tp doc a Sa) at 2.
    eapply doc_eq_put; [exact Hd | exact Sa | exact K | reflexivity | exact D]. }
  do 3 eexists. split; [reflexivity|]. destruct (doc_eqb a v0).
  - split; [reflexivity | exact Dd].
  - split; [discriminate | exact Dd].
Qed.
