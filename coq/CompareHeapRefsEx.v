(** CompareHeapRefsEx.v — non-vacuity of CompareHeapRefs.v on concrete heaps with reference nodes, by computation.

    [exr_heap] encodes the forest [exr_F]:
      root 1   {"k":[1,2]}                  nodes 1 (object), 2 (array, key block 101 "k"), 3, 4 (numbers)
      root 10  an array REFERENCE whose child pointer is node 3  (cJSON_CreateArrayReference(node 3))
      root 11  a second array reference to node 3
      root 12  an array reference to node 4 (it sees the chain [4] only)
    Compared: the two references with each other (they meet the same blocks: the pointer shortcut), a
    reference with the array it refers into, with the shorter chain, and with the object.

    [exn_heap]: the same with NaN in node 3: the shortcut makes the C function answer "equal" for two
    references to one chain although the value-level comparison of NaN with NaN is false — the hypothesis
    [okpair] of [compare_refines_refs] cannot be dropped ([nan_shortcut_differs]). *)
From CJ Require Import Base Dbl Heap Forest ForestLemmas CoreDefs CoreRefineDupBase CoreRefineDupTree CoreRefineDupValue
  CoreRefineDupForest CoreRefineDupUnroll.
From CJ Require Import TierBridgeDefs MergeHeapInv MergeHeapEx.
From CJ Require Import CompareHeapDefs CompareHeapRO CompareHeapViewDefs CompareHeapProofs CompareHeapForest CompareHeapEx CompareHeapRefs.
From CJ Require Tree CompareDefs CompareProofs.
From CJ.gen Require Import Constants.
From stdpp Require Import gmap.
From Coq Require Import Floats.SpecFloat.
Local Open Scope Z_scope.

Definition exr_num (i : positive) (v : dbl) : tree := T i (mkRD c_cJSON_Number None 0 v None None) [].
Definition exr_ref (i c : positive) : tree := T i (mkRD (Z.lor c_cJSON_Array c_cJSON_IsReference) None 0 dzero None (Some c)) [].
Definition exr_doc (x : dbl) : tree :=
  T 1 (mkRD c_cJSON_Object None 0 dzero None None)
    [T 2 (mkRD c_cJSON_Array None 0 dzero (Some 101%positive) None) [exr_num 3 x; exr_num 4 (dbl_of_int 2)]].
Definition exr_forest (x : dbl) : forest := [exr_doc x; exr_ref 10 3; exr_ref 11 3; exr_ref 12 4].
Definition exr_St : gmap positive bytes := list_to_map [(101%positive, [107; 0])].

Definition exr_F : forest := exr_forest (dbl_of_int 1).
Definition exr_heap : heap := heap_of_forest exr_F exr_St.
Definition exn_F : forest := exr_forest S754_nan.
Definition exn_heap : heap := heap_of_forest exn_F exr_St.

(** ** boolean checkers for the hypotheses *)
Lemma heap_of_forest_SR F St :
  forallb (fun n : fnode => str_okb F St (rd_vstr (fn_data n)) && str_okb F St (rd_key (fn_data n))) (flat F) = true ->
  strings_readable (heap_of_forest F St) F.
Proof.
  intros H. rewrite forallb_forall in H.
  assert (Hok : forall p b, str_okb F St p = true -> p = Some b -> readable (heap_of_forest F St) b).
  { intros p b Hp ->. cbn in Hp. apply andb_true_iff in Hp as [A B]. apply bool_decide_eq_true in A.
    destruct (St !! b) as [s|] eqn:E; [|done]. exists s. split; [|done]. split; [cbn; by apply elem_of_list_to_set|done]. }
  intros i d ks He. specialize (H (i, d, ks) ltac:(by apply elem_of_list_In)). cbn in H.
  apply andb_true_iff in H as [Hv Hk]. split; intros b Hb; [exact (Hok _ b Hv Hb)|exact (Hok _ b Hk Hb)].
Qed.

Lemma refs_in_check F :
  forallb (fun n : fnode => match rd_ref (fn_data n) with Some c => bool_decide (c ∈ ids F) | None => true end) (flat F) = true ->
  refs_in F.
Proof.
  intros H i d ks c He Hr. rewrite forallb_forall in H. specialize (H (i, d, ks) ltac:(by apply elem_of_list_In)).
  cbn in H. rewrite Hr in H. by apply bool_decide_eq_true in H.
Qed.

Lemma complete_check t :
  forallb (fun n : fnode => match fn_cids n, rd_ref (fn_data n) with [], Some _ => false | _, _ => true end) (flat_t t) = true ->
  complete t.
Proof.
  intros H i d He. rewrite forallb_forall in H. specialize (H (i, d, []) ltac:(by apply elem_of_list_In)). cbn in H.
  by destruct (rd_ref d).
Qed.

Lemma exr_WF : WF exr_heap exr_F.
Proof. apply heap_of_forest_WF; vm_compute; reflexivity. Qed.
Lemma exr_SR : strings_readable exr_heap exr_F.
Proof. apply heap_of_forest_SR. vm_compute. reflexivity. Qed.
Lemma exr_RI : refs_in exr_F.
Proof. apply refs_in_check. vm_compute. reflexivity. Qed.
Lemma exn_WF : WF exn_heap exn_F.
Proof. apply heap_of_forest_WF; vm_compute; reflexivity. Qed.
Lemma exn_SR : strings_readable exn_heap exn_F.
Proof. apply heap_of_forest_SR. vm_compute. reflexivity. Qed.
Lemma exn_RI : refs_in exn_F.
Proof. apply refs_in_check. vm_compute. reflexivity. Qed.

Definition exr_cmp (a b : ptr) (cs : bool) : option bool := out_val (cJSON_Compare a b cs exr_heap).
Definition exn_cmp (a b : ptr) (cs : bool) : option bool := out_val (cJSON_Compare a b cs exn_heap).

Lemma exr_runs :
  exr_cmp (Some 10%positive) (Some 11%positive) true = Some true /\    (* two references to one chain *)
  exr_cmp (Some 10%positive) (Some 2%positive) true = Some true /\     (* a reference and the array it points into *)
  exr_cmp (Some 2%positive) (Some 10%positive) true = Some true /\
  exr_cmp (Some 10%positive) (Some 12%positive) true = Some false /\   (* [1,2] against [2] *)
  exr_cmp (Some 10%positive) (Some 1%positive) true = Some false /\    (* array against object *)
  exn_cmp (Some 10%positive) (Some 11%positive) true = Some true.      (* NaN under a shared chain *)
Proof. vm_compute. repeat split. Qed.

(** the nodes and their unrollings *)
Definition exr_r1 : tree := exr_ref 10 3.
Definition exr_r2 : tree := exr_ref 11 3.
Definition exr_r3 : tree := exr_ref 12 4.
Definition exr_arr : tree := T 2 (mkRD c_cJSON_Array None 0 dzero (Some 101%positive) None) [exr_num 3 (dbl_of_int 1); exr_num 4 (dbl_of_int 2)].

Lemma exr_nodes : exr_r1 ∈ nodes exr_F /\ exr_r2 ∈ nodes exr_F /\ exr_r3 ∈ nodes exr_F /\ exr_arr ∈ nodes exr_F.
Proof.
  split_and!.
  - apply (elem_of_list_lookup_2 _ 4%nat). reflexivity.
  - apply (elem_of_list_lookup_2 _ 5%nat). reflexivity.
  - apply (elem_of_list_lookup_2 _ 6%nat). reflexivity.
  - apply (elem_of_list_lookup_2 _ 1%nat). reflexivity.
Qed.

(** a reference reads as an array holding the chain it points into *)
Lemma exr_unrolled :
  reify exr_St (unroll exr_F 1 exr_r1) =
    Tree.Node (Z.lor c_cJSON_Array c_cJSON_IsReference) None 0 dzero None
      [Tree.Node c_cJSON_Number None 0 (dbl_of_int 1) None []; Tree.Node c_cJSON_Number None 0 (dbl_of_int 2) None []] /\
  reify exr_St (unroll exr_F 1 exr_r3) =
    Tree.Node (Z.lor c_cJSON_Array c_cJSON_IsReference) None 0 dzero None [Tree.Node c_cJSON_Number None 0 (dbl_of_int 2) None []].
Proof. vm_compute. split; reflexivity. Qed.

Lemma exr_complete : complete (unroll exr_F 1 exr_r1) /\ complete (unroll exr_F 1 exr_r2) /\ complete (unroll exr_F 1 exr_r3) /\
                     complete (unroll exr_F 1 exr_arr).
Proof. split_and!; apply complete_check; vm_compute; reflexivity. Qed.

Ltac refl_example :=
  split_and!; vm_compute; repeat split; try (intros H; discriminate H); repeat constructor; try lia;
  try (eexists; split; [reflexivity|]; repeat constructor; lia); cbn; intuition discriminate.

Lemma exr_refl :
  refl_ok true (reify (h_str exr_heap) (unroll exr_F 1 exr_r1)) /\ refl_ok true (reify (h_str exr_heap) (unroll exr_F 1 exr_r2)) /\
  refl_ok true (reify (h_str exr_heap) (unroll exr_F 1 exr_r3)) /\ refl_ok true (reify (h_str exr_heap) (unroll exr_F 1 exr_arr)).
Proof. unfold refl_ok. refl_example. Qed.

Opaque exr_heap exn_heap.

(** the hypotheses of [compare_refines_refs_json] hold for the references, and the conclusions are what the run shows *)
Theorem compare_heap_refs_nonvacuous :
  WF exr_heap exr_F /\ refs_in exr_F /\ strings_readable exr_heap exr_F /\
  exr_r1 ∈ nodes exr_F /\ exr_r2 ∈ nodes exr_F /\ exr_r3 ∈ nodes exr_F /\ exr_arr ∈ nodes exr_F /\
  ~ no_borrowed exr_r1 /\
  complete (unroll exr_F 1 exr_r1) /\ complete (unroll exr_F 1 exr_r2) /\ complete (unroll exr_F 1 exr_r3) /\
  (1 < Pos.to_nat (h_next exr_heap))%nat /\
  refl_ok true (reify (h_str exr_heap) (unroll exr_F 1 exr_r1)) /\ refl_ok true (reify (h_str exr_heap) (unroll exr_F 1 exr_r2)) /\
  refl_ok true (reify (h_str exr_heap) (unroll exr_F 1 exr_r3)) /\
  cJSON_Compare (Some 10%positive) (Some 11%positive) true exr_heap = Ret (true, exr_heap) /\
  cJSON_Compare (Some 10%positive) (Some 2%positive) true exr_heap = Ret (true, exr_heap) /\
  cJSON_Compare (Some 10%positive) (Some 12%positive) true exr_heap = Ret (false, exr_heap) /\
  CompareDefs.sem_eq true (reify (h_str exr_heap) (unroll exr_F 1 exr_r1)) (reify (h_str exr_heap) (unroll exr_F 1 exr_r2)) /\
  ~ CompareDefs.sem_eq true (reify (h_str exr_heap) (unroll exr_F 1 exr_r1)) (reify (h_str exr_heap) (unroll exr_F 1 exr_r3)).
Proof.
  pose proof exr_WF as W. pose proof exr_RI as RI. pose proof exr_SR as SR.
  destruct exr_nodes as (N1 & N2 & N3 & N4). destruct exr_complete as (C1 & C2 & C3 & _).
  destruct exr_refl as (R1 & R2 & R3 & _). destruct exr_runs as (E1 & E2 & _ & E4 & _).
  pose proof (run_value (cJSON_Compare (Some 10%positive) (Some 11%positive) true) exr_heap true (compare_read_only _ _ _) E1) as X1.
  pose proof (run_value (cJSON_Compare (Some 10%positive) (Some 2%positive) true) exr_heap true (compare_read_only _ _ _) E2) as X2.
  pose proof (run_value (cJSON_Compare (Some 10%positive) (Some 12%positive) true) exr_heap false (compare_read_only _ _ _) E4) as X4.
  assert (Hk : (1 < Pos.to_nat (h_next exr_heap))%nat) by (vm_compute; lia).
  split; [exact W|]. split; [exact RI|]. split; [exact SR|]. split; [exact N1|]. split; [exact N2|]. split; [exact N3|]. split; [exact N4|].
  split.
  { intros Hb. specialize (Hb 10%positive (mkRD (Z.lor c_cJSON_Array c_cJSON_IsReference) None 0 dzero None (Some 3%positive)) []).
    cbn in Hb. discriminate Hb. by left. }
  split; [exact C1|]. split; [exact C2|]. split; [exact C3|]. split; [exact Hk|]. split; [exact R1|]. split; [exact R2|]. split; [exact R3|].
  split; [exact X1|]. split; [exact X2|]. split; [exact X4|].
  assert (H12 : tid exr_r1 <> tid exr_r2) by (intros H; discriminate H).
  assert (H13 : tid exr_r1 <> tid exr_r3) by (intros H; discriminate H).
  split.
  - destruct (compare_refines_refs_json exr_heap exr_F W RI SR true 1 exr_r1 exr_r2 N1 N2 C1 C2 Hk R1 R2) as (r & Hr & _ & Hiff).
    apply (proj1 (Hiff H12)). change (tid exr_r1) with 10%positive in Hr. change (tid exr_r2) with 11%positive in Hr.
    rewrite X1 in Hr. symmetry. exact (Ret_val_inj _ _ _ _ Hr).
  - destruct (compare_refines_refs_json exr_heap exr_F W RI SR true 1 exr_r1 exr_r3 N1 N3 C1 C3 Hk R1 R3) as (r & Hr & _ & Hiff).
    change (tid exr_r1) with 10%positive in Hr. change (tid exr_r3) with 12%positive in Hr.
    intros Hs. apply (proj2 (Hiff H13)) in Hs. rewrite X4 in Hr. rewrite Hs in Hr. apply Ret_val_inj in Hr. discriminate Hr.
Qed.

(** the hypothesis [okpair] of [compare_refines_refs] is needed: two references to a chain that holds NaN.
    Every other hypothesis holds; the C function answers true (the elements are the same blocks), the
    value-level comparison of the two (equal) values answers false (NaN differs from itself). *)
Definition exn_r1 : tree := exr_ref 10 3.
Definition exn_r2 : tree := exr_ref 11 3.
Theorem nan_shortcut_differs :
  WF exn_heap exn_F /\ refs_in exn_F /\ strings_readable exn_heap exn_F /\
  exn_r1 ∈ nodes exn_F /\ exn_r2 ∈ nodes exn_F /\
  complete (unroll exn_F 1 exn_r1) /\ complete (unroll exn_F 1 exn_r2) /\ (1 < Pos.to_nat (h_next exn_heap))%nat /\
  reify (h_str exn_heap) (unroll exn_F 1 exn_r1) = reify (h_str exn_heap) (unroll exn_F 1 exn_r2) /\
  cJSON_Compare (Some (tid exn_r1)) (Some (tid exn_r2)) true exn_heap = Ret (true, exn_heap) /\
  CompareDefs.cJSON_Compare (Some (reify (h_str exn_heap) (unroll exn_F 1 exn_r1)))
    (Some (reify (h_str exn_heap) (unroll exn_F 1 exn_r2))) false true = Some false.
Proof.
  destruct exr_runs as (_ & _ & _ & _ & _ & E6).
  pose proof (run_value (cJSON_Compare (Some 10%positive) (Some 11%positive) true) exn_heap true (compare_read_only _ _ _) E6) as X6.
  split; [exact exn_WF|]. split; [exact exn_RI|]. split; [exact exn_SR|].
  split; [apply (elem_of_list_lookup_2 _ 4%nat); reflexivity|]. split; [apply (elem_of_list_lookup_2 _ 5%nat); reflexivity|].
  split; [apply complete_check; vm_compute; reflexivity|]. split; [apply complete_check; vm_compute; reflexivity|].
  split; [vm_compute; lia|]. split; [vm_compute; reflexivity|]. split; [exact X6|]. vm_compute. reflexivity.
Qed.

(** the hypothesis [complete (unroll F k t)] (no cycle through a reference) is needed: cJSON_Compare has no
    recursion limit.  [exy_heap]: two arrays [1, <reference>] whose reference element points at the array's own
    first element (what cJSON_AddItemReferenceToArray(a, a) builds on a non-empty array): the chain below the
    reference is the array's chain again.  Every other hypothesis holds; no level of unrolling is complete; the
    model runs out of recursion fuel ([NoFuel]: the C function recurses until the stack is exhausted — confirmed
    on /repo with an ASan probe: stack-overflow in cJSON_Compare). *)
Definition exy_arr (i e r : positive) : tree :=
  T i (mkRD c_cJSON_Array None 0 dzero None None) [exr_num e (dbl_of_int 1); exr_ref r e].
Definition exy_F : forest := [exy_arr 1 2 3; exy_arr 10 11 12].
Definition exy_heap : heap := heap_of_forest exy_F exr_St.
Definition out_err {A} (o : out (A * heap)) : option err := match o with Err e => Some e | Ret _ => None end.

Lemma complete_check_conv t : complete t ->
  forallb (fun n : fnode => match fn_cids n, rd_ref (fn_data n) with [], Some _ => false | _, _ => true end) (flat_t t) = true.
Proof.
  intros Hc. apply forallb_forall. intros [[i d] ks] Hin. apply elem_of_list_In in Hin. cbn.
  destruct ks as [|k ks]; [|done]. by rewrite (Hc i d Hin).
Qed.

Theorem cycle_unbounded_recursion :
  WF exy_heap exy_F /\ refs_in exy_F /\ strings_readable exy_heap exy_F /\
  exy_arr 1 2 3 ∈ nodes exy_F /\ exy_arr 10 11 12 ∈ nodes exy_F /\
  ~ complete (unroll exy_F 5 (exy_arr 1 2 3)) /\
  out_err (cJSON_Compare (Some 1%positive) (Some 10%positive) true exy_heap) = Some NoFuel.
Proof.
  split; [apply heap_of_forest_WF; vm_compute; reflexivity|]. split; [apply refs_in_check; vm_compute; reflexivity|].
  split; [apply heap_of_forest_SR; vm_compute; reflexivity|].
  split; [apply (elem_of_list_lookup_2 _ 0%nat); reflexivity|]. split; [apply (elem_of_list_lookup_2 _ 3%nat); reflexivity|].
  split; [|vm_compute; reflexivity].
  intros Hc. apply complete_check_conv in Hc. vm_compute in Hc. discriminate Hc.
Qed.
