(** ForestLinks.v — first half of the lemma library under every simulation proof of the DOM API
    (second half: ForestLemmas.v, which re-exports this file): sibling-link maps of ONE chain.

    PART A  [links]: lookup lemmas ([links_lookup], [links_lookup_None], [links_lookup_inv],
            [dom_links]) and the extensionality principle [links_eq_intro].
    PART B  field updates [upd_next]/[upd_prev] on a link map (= what [Heap.set_next]/[set_prev]
            do to [h_lnk]) and the MAP EQUATIONS: how [links] changes under the list operations
            of the API, written as the stores the C code performs on the old map:
              [links_singleton]                      first child of an empty container
              [links_snoc]                           append (add_item_to_array)
              [links_delete_head/_mid/_last]         cJSON_DetachItemViaPointer
              [links_insert_head/_mid]               cJSON_InsertItemInArray
              [links_replace_single/_head/_mid/_last] cJSON_ReplaceItemViaPointer
    See FOREST_NOTES.md for how these are combined in a simulation proof. *)
From CJ Require Import Base Dbl Heap Forest.
From stdpp Require Import gmap.

Implicit Types (l : list positive) (p x y : positive) (k : nat).

(** * PART A: lookup in [links] *)

Lemma imap_fst_id {A B} (g : nat -> A -> B) (l : list A) : (imap (fun j a => (a, g j a)) l).*1 = l.
Proof.
  revert g; induction l as [|a l IH]; intros g; [done|].
  rewrite imap_cons. cbn. f_equal. apply (IH (fun j => g (S j))).
Qed.

Lemma chain_entries_fst l : (chain_entries l).*1 = l.
Proof. apply imap_fst_id. Qed.

Lemma links_lookup l p k : NoDup l -> l !! k = Some p -> links l !! p = Some (link_at l k).
Proof.
  intros ND Hk. unfold links. apply elem_of_list_to_map; [by rewrite chain_entries_fst|].
  unfold chain_entries. apply elem_of_lookup_imap. eauto.
Qed.

Lemma links_lookup_None l p : p ∉ l -> links l !! p = None.
Proof. intros H. apply not_elem_of_list_to_map_1. by rewrite chain_entries_fst. Qed.

Lemma links_lookup_inv l p v : links l !! p = Some v -> exists k, l !! k = Some p /\ v = link_at l k.
Proof.
  intros H. apply elem_of_list_to_map_2 in H. unfold chain_entries in H.
  apply elem_of_lookup_imap in H as (k & y & Heq & Hk). inversion Heq; subst. eauto.
Qed.

Lemma links_lookup_is_Some l p : is_Some (links l !! p) <-> p ∈ l.
Proof.
  split.
  - intros [v Hv]. apply links_lookup_inv in Hv as (k & Hk & _). by eapply elem_of_list_lookup_2.
  - intros Hp. destruct (links l !! p) eqn:E; [eauto|].
    apply not_elem_of_list_to_map_2 in E. rewrite chain_entries_fst in E. done.
Qed.

Lemma dom_links l : dom (links l) = list_to_set l.
Proof. unfold links. rewrite dom_list_to_map_L. by rewrite chain_entries_fst. Qed.

Lemma links_nil : links [] = ∅.
Proof. reflexivity. Qed.

(** a map is [links l] iff it has the right entry at every position and nothing else *)
Lemma links_eq_intro l (m : gmap positive (ptr * ptr)) :
  NoDup l ->
  (forall k p, l !! k = Some p -> m !! p = Some (link_at l k)) ->
  (forall p, p ∉ l -> m !! p = None) ->
  m = links l.
Proof.
  intros ND Hin Hout. apply map_eq. intros p.
  destruct (decide (p ∈ l)) as [Hp|Hp].
  - apply elem_of_list_lookup in Hp as [k Hk]. by rewrite (Hin _ _ Hk), (links_lookup _ _ _ ND Hk).
  - by rewrite (Hout _ Hp), (links_lookup_None _ _ Hp).
Qed.

(** the canonical entry, unfolded *)
Lemma link_at_0 l : link_at l 0 = (l !! 1, last l).
Proof. reflexivity. Qed.
Lemma link_at_S l k : link_at l (S k) = (l !! S (S k), l !! k).
Proof. reflexivity. Qed.

Lemma NoDup_lookup_ne l i j a b : NoDup l -> l !! i = Some a -> l !! j = Some b -> i <> j -> a <> b.
Proof. intros ND Hi Hj Hne ->. apply Hne. eapply NoDup_lookup; eauto. Qed.

(** * PART B: field updates and the map equations *)

Definition upd_next (i : positive) (v : ptr) (m : gmap positive (ptr * ptr)) : gmap positive (ptr * ptr) :=
  alter (fun e => (v, e.2)) i m.
Definition upd_prev (i : positive) (v : ptr) (m : gmap positive (ptr * ptr)) : gmap positive (ptr * ptr) :=
  alter (fun e => (e.1, v)) i m.

Lemma alter_eq_insert {A} (f : A -> A) (m : gmap positive A) i a :
  m !! i = Some a -> alter f i m = <[i := f a]> m.
Proof.
  intros H. apply map_eq. intros j. destruct (decide (i = j)) as [->|Hne].
  - by rewrite lookup_alter, lookup_insert, H.
  - by rewrite lookup_alter_ne, lookup_insert_ne.
Qed.

Lemma upd_next_insert i v m a : m !! i = Some a -> upd_next i v m = <[i := (v, a.2)]> m.
Proof. intros H. unfold upd_next. by rewrite (alter_eq_insert _ _ _ _ H). Qed.
Lemma upd_prev_insert i v m a : m !! i = Some a -> upd_prev i v m = <[i := (a.1, v)]> m.
Proof. intros H. unfold upd_prev. by rewrite (alter_eq_insert _ _ _ _ H). Qed.

Lemma lookup_upd_next i v m : upd_next i v m !! i = (fun e => (v, e.2)) <$> m !! i.
Proof. apply lookup_alter. Qed.
Lemma lookup_upd_next_ne i j v m : i <> j -> upd_next i v m !! j = m !! j.
Proof. apply lookup_alter_ne. Qed.
Lemma lookup_upd_prev i v m : upd_prev i v m !! i = (fun e => (e.1, v)) <$> m !! i.
Proof. apply lookup_alter. Qed.
Lemma lookup_upd_prev_ne i j v m : i <> j -> upd_prev i v m !! j = m !! j.
Proof. apply lookup_alter_ne. Qed.

(** the two field stores that initialise a fresh/detached entry *)
Lemma upd_prev_next_insert i a b c m :
  upd_prev i b (upd_next i a (<[i := c]> m)) = <[i := (a, b)]> m.
Proof.
  apply map_eq. intros j. unfold upd_prev, upd_next. destruct (decide (i = j)) as [->|Hne].
  - by rewrite !lookup_alter, !lookup_insert.
  - by rewrite !lookup_alter_ne, !lookup_insert_ne.
Qed.
Lemma upd_next_prev_insert i a b c m :
  upd_next i a (upd_prev i b (<[i := c]> m)) = <[i := (a, b)]> m.
Proof.
  apply map_eq. intros j. unfold upd_prev, upd_next. destruct (decide (i = j)) as [->|Hne].
  - by rewrite !lookup_alter, !lookup_insert.
  - by rewrite !lookup_alter_ne, !lookup_insert_ne.
Qed.

(** updates act on the left component of a union (the chain in focus) *)
Lemma alter_union_l {A} (f : A -> A) (m1 m2 : gmap positive A) i :
  is_Some (m1 !! i) -> alter f i (m1 ∪ m2) = alter f i m1 ∪ m2.
Proof.
  intros [a Ha]. apply map_eq. intros j. destruct (decide (i = j)) as [->|Hne].
  - rewrite lookup_alter. rewrite (lookup_union_Some_l _ _ _ _ Ha). cbn.
    symmetry. apply lookup_union_Some_l. by rewrite lookup_alter, Ha.
  - rewrite lookup_alter_ne by done. rewrite !lookup_union. by rewrite lookup_alter_ne.
Qed.
Lemma upd_next_union_l i v m1 m2 : is_Some (m1 !! i) -> upd_next i v (m1 ∪ m2) = upd_next i v m1 ∪ m2.
Proof. apply alter_union_l. Qed.
Lemma upd_prev_union_l i v m1 m2 : is_Some (m1 !! i) -> upd_prev i v (m1 ∪ m2) = upd_prev i v m1 ∪ m2.
Proof. apply alter_union_l. Qed.

(** simplify lookups through insert/alter/delete when the keys are syntactically equal or
    provably different by [congruence] *)
Ltac lk :=
  unfold upd_next, upd_prev;
  repeat first
    [ rewrite lookup_alter_ne by congruence
    | rewrite lookup_alter
    | rewrite lookup_insert_ne by congruence
    | rewrite lookup_insert
    | rewrite lookup_delete_ne by congruence
    | rewrite lookup_delete ].

Lemma links_singleton x : links [x] = {[ x := (None, Some x) ]}.
Proof. reflexivity. Qed.

(** first child of an empty container: [item->prev = item; item->next = NULL] *)
Lemma links_singleton_stores x c m :
  upd_next x None (upd_prev x (Some x) (<[x := c]> m)) = <[x := (None, Some x)]> m.
Proof. apply upd_next_prev_insert. Qed.

(** ** the map equations *)

Lemma lookup_snoc_eq {A} (l : list A) a i : i = length l -> (l ++ [a]) !! i = Some a.
Proof. intros ->. rewrite lookup_app_r by lia. by rewrite Nat.sub_diag. Qed.
Lemma lookup_snoc_gt {A} (l : list A) a i : i > length l -> (l ++ [a]) !! i = None.
Proof. intros H. apply lookup_ge_None. rewrite app_length. cbn. lia. Qed.
Lemma link_at_pos l k : k <> 0 -> link_at l k = (l !! S k, l !! pred k).
Proof. destruct k; [done|]. reflexivity. Qed.
Lemma link_at_alt l k : link_at l k = (l !! S k, if decide (k = 0) then last l else l !! pred k).
Proof. by destruct k. Qed.
Ltac la := repeat first [rewrite link_at_0 | rewrite link_at_pos by lia].
Ltac la' := rewrite !link_at_alt; cbn -[lookup last delete]; repeat case_decide; try (exfalso; lia).
Ltac snoc_fin :=
  la; cbn; do 2 f_equal;
  rewrite ?last_snoc;
  repeat first [ rewrite lookup_snoc_eq by lia | rewrite lookup_snoc_gt by lia | rewrite lookup_app_l by lia ];
  try done.

Lemma links_snoc l x c0 tl : NoDup (l ++ [x]) -> head l = Some c0 -> last l = Some tl ->
  links (l ++ [x]) = upd_prev c0 (Some x) (upd_prev x (Some tl) (upd_next tl (Some x) (<[x := (None,None)]> (links l)))).
Proof.
  intros ND Hh Hl. symmetry. apply links_eq_intro; [done| |].
  - intros j p Hj.
    apply NoDup_app in ND as (NDl & Hx & _).
    assert (Hxl : x ∉ l) by (intros Hin; apply (Hx _ Hin); set_solver).
    assert (Hlen: length l > 0) by (destruct l; simplify_eq/=; lia).
    rewrite last_lookup in Hl. rewrite head_lookup in Hh.
    destruct (decide (j < length l)) as [Hlt|Hge].
    + rewrite lookup_app_l in Hj by done.
      assert (p ≠ x) by (intros ->; apply Hxl; by eapply elem_of_list_lookup_2).
      pose proof (links_lookup _ _ _ NDl Hj) as Hlk.
      assert (Hj0 : p = c0 <-> j = 0).
      { split; [intros ->; eapply NoDup_lookup; eauto | intros ->; congruence]. }
      assert (Hjt : p = tl <-> j = pred (length l)).
      { split; [intros ->; eapply NoDup_lookup; eauto | intros ->; congruence]. }
      destruct (decide (p = c0)) as [Hc|Hc]; destruct (decide (p = tl)) as [Ht|Ht].
      * pose proof (proj1 Hj0 Hc). pose proof (proj1 Hjt Ht). subst. lk. rewrite Hlk.
        snoc_fin.
      * pose proof (proj1 Hj0 Hc). assert (j <> pred (length l)) by tauto. subst. lk. rewrite Hlk.
        snoc_fin.
      * pose proof (proj1 Hjt Ht). assert (j <> 0) by tauto. subst. lk. rewrite Hlk.
        snoc_fin.
      * assert (j <> pred (length l)) by tauto. assert (j <> 0) by tauto. lk. rewrite Hlk.
        snoc_fin.
    + assert (j = length l).
      { apply lookup_lt_Some in Hj. rewrite app_length in Hj. cbn in Hj. lia. }
      subst j. rewrite lookup_snoc_eq in Hj by done. injection Hj as <-.
      assert (x <> c0) by (intros ->; apply Hxl; by eapply elem_of_list_lookup_2).
      assert (x <> tl) by (intros ->; apply Hxl; by eapply elem_of_list_lookup_2).
      lk. snoc_fin.
  - intros p Hp. apply not_elem_of_app in Hp as [Hp1 Hp2]. apply not_elem_of_cons in Hp2 as [Hp2 _].
    assert (p <> c0) by (intros ->; apply Hp1; apply head_Some_elem_of; done).
    assert (p <> tl) by (intros ->; apply Hp1; apply last_Some_elem_of; done).
    lk. by apply links_lookup_None.
Qed.

(** ** removal *)
Lemma NoDup_delete_list {A} (l : list A) i : NoDup l -> NoDup (delete i l).
Proof.
  intros ND. destruct (l !! i) as [a|] eqn:E.
  - rewrite <- (take_drop_middle _ _ _ E) in ND. rewrite delete_take_drop.
    apply NoDup_app in ND as (N1 & N2 & N3). apply NoDup_cons in N3 as [_ N3].
    apply NoDup_app. split_and!; [done| |done]. intros b Hb Hb2. apply (N2 _ Hb). by right.
  - rewrite delete_take_drop. apply lookup_ge_None in E.
    rewrite drop_ge by lia. rewrite take_ge by lia. by rewrite app_nil_r.
Qed.

Lemma elem_of_delete_inv {A} (l : list A) i a b : l !! i = Some a -> b ∈ l -> b = a \/ b ∈ delete i l.
Proof.
  intros Hi Hb. apply elem_of_list_lookup in Hb as [j Hj].
  destruct (decide (j = i)) as [->|Hne]; [left; congruence|right].
  destruct (decide (j < i)).
  - apply elem_of_list_lookup. exists j. by rewrite lookup_delete_lt.
  - apply elem_of_list_lookup. exists (pred j). rewrite lookup_delete_ge by lia.
    replace (S (pred j)) with j by lia. done.
Qed.

Lemma elem_of_delete_sub {A} (l : list A) i b : b ∈ delete i l -> b ∈ l.
Proof.
  intros Hb. apply elem_of_list_lookup in Hb as [j Hj].
  destruct (decide (j < i)).
  - rewrite lookup_delete_lt in Hj by done. by eapply elem_of_list_lookup_2.
  - rewrite lookup_delete_ge in Hj by lia. by eapply elem_of_list_lookup_2.
Qed.

Lemma idx_iff l i j a b : NoDup l -> l !! i = Some a -> l !! j = Some b -> (a = b <-> i = j).
Proof. intros ND Hi Hj. split; [intros ->; eapply NoDup_lookup; eauto | intros ->; congruence]. Qed.

Ltac lfin :=
  try done;
  try (f_equal; lia);
  try match goal with
  | H : ?l !! _ = Some ?v |- ?l !! _ = Some ?v => rewrite <- H; f_equal; lia
  | H : ?l !! _ = Some ?v |- Some ?v = ?l !! _ => rewrite <- H; f_equal; lia
  | H : ?l !! _ = None |- ?l !! _ = None => rewrite <- H; f_equal; lia
  | H : ?l !! _ = None |- None = ?l !! _ => rewrite <- H; f_equal; lia
  end.
Ltac del_fin :=
  la'; do 2 f_equal;
  rewrite ?last_lookup; rewrite ?length_delete by eauto;
  repeat first [ rewrite lookup_delete_lt by lia | rewrite lookup_delete_ge by lia ];
  lfin.

Lemma links_delete_mid l k x pv n' :
  NoDup l -> l !! k = Some x -> k <> 0 -> l !! pred k = Some pv -> l !! S k = Some n' ->
  links (delete k l) = delete x (upd_prev n' (Some pv) (upd_next pv (Some n') (links l))).
Proof.
  intros ND Hk Hk0 Hpv Hn. symmetry. apply links_eq_intro; [by apply NoDup_delete_list| |].
  - intros j p Hj.
    assert (Hlen : S k < length l) by (by eapply lookup_lt_Some).
    assert (exists i, l !! i = Some p /\ i <> k /\ i = if decide (j < k) then j else S j) as (i & Hi & Hik & Hij).
    { destruct (decide (j < k)).
      - rewrite lookup_delete_lt in Hj by done. exists j. split_and!; [done|lia|done].
      - rewrite lookup_delete_ge in Hj by lia. exists (S j). split_and!; [done|lia|done]. }
    pose proof (links_lookup _ _ _ ND Hi) as Hlk.
    assert (p <> x) by (eapply NoDup_lookup_ne; eauto).
    pose proof (idx_iff _ _ _ _ _ ND Hi Hpv) as Ipv.
    pose proof (idx_iff _ _ _ _ _ ND Hi Hn) as In'.
    destruct (decide (p = pv)) as [E1|E1]; destruct (decide (p = n')) as [E2|E2].
    + exfalso. apply Ipv in E1. apply In' in E2. lia.
    + pose proof (proj1 Ipv E1). subst p. lk. rewrite Hlk. destruct (decide (j < k)); del_fin.
    + pose proof (proj1 In' E2). subst p. lk. rewrite Hlk. destruct (decide (j < k)); del_fin.
    + assert (i <> pred k) by tauto. assert (i <> S k) by tauto.
      lk. rewrite Hlk. destruct (decide (j < k)); del_fin.
  - intros p Hp. destruct (decide (p = x)) as [->|Hpx]; [by lk|].
    assert (p ∉ l) by (intros Hin; destruct (elem_of_delete_inv _ _ _ _ Hk Hin); done).
    assert (p <> pv) by (intros ->; by eapply H, elem_of_list_lookup_2).
    assert (p <> n') by (intros ->; by eapply H, elem_of_list_lookup_2).
    lk. by apply links_lookup_None.
Qed.

Lemma links_delete_last l k x pv c0 :
  NoDup l -> l !! k = Some x -> k <> 0 -> l !! pred k = Some pv -> l !! S k = None -> head l = Some c0 ->
  links (delete k l) = delete x (upd_prev c0 (Some pv) (upd_next pv None (links l))).
Proof.
  intros ND Hk Hk0 Hpv Hn Hh. rewrite head_lookup in Hh.
  symmetry. apply links_eq_intro; [by apply NoDup_delete_list| |].
  - intros j p Hj.
    assert (Hlen : length l = S k).
    { apply lookup_ge_None in Hn. apply lookup_lt_Some in Hk. lia. }
    assert (j < k).
    { apply lookup_lt_Some in Hj. rewrite length_delete in Hj by eauto. lia. }
    rewrite lookup_delete_lt in Hj by done.
    pose proof (links_lookup _ _ _ ND Hj) as Hlk.
    assert (p <> x) by (eapply NoDup_lookup_ne; eauto; lia).
    pose proof (idx_iff _ _ _ _ _ ND Hj Hpv) as Ipv.
    pose proof (idx_iff _ _ _ _ _ ND Hj Hh) as Ic.
    destruct (decide (p = pv)) as [E1|E1]; destruct (decide (p = c0)) as [E2|E2].
    + pose proof (proj1 Ipv E1). pose proof (proj1 Ic E2). subst. lk. rewrite Hlk. del_fin.
    + pose proof (proj1 Ipv E1). assert (j <> 0) by tauto. subst p. lk. rewrite Hlk. del_fin.
    + pose proof (proj1 Ic E2). assert (j <> pred k) by tauto. subst p. lk. rewrite Hlk. del_fin.
    + assert (j <> pred k) by tauto. assert (j <> 0) by tauto. lk. rewrite Hlk. del_fin.
  - intros p Hp. destruct (decide (p = x)) as [->|Hpx]; [by lk|].
    assert (p ∉ l) by (intros Hin; destruct (elem_of_delete_inv _ _ _ _ Hk Hin); done).
    assert (p <> pv) by (intros ->; by eapply H, elem_of_list_lookup_2).
    assert (p <> c0) by (intros ->; by eapply H, elem_of_list_lookup_2).
    lk. by apply links_lookup_None.
Qed.

Lemma links_delete_head x l' :
  NoDup (x :: l') ->
  links l' = delete x (match l' with
                       | n' :: _ => upd_prev n' (last (x :: l')) (links (x :: l'))
                       | [] => links (x :: l') end).
Proof.
  intros ND. destruct l' as [|n' l''].
  { rewrite links_singleton, delete_singleton. reflexivity. }
  set (l := x :: n' :: l'') in *. change (n' :: l'') with (delete 0 l).
  symmetry. apply links_eq_intro; [by apply NoDup_delete_list| |].
  - intros j p Hj. rewrite lookup_delete_ge in Hj by lia.
    pose proof (links_lookup _ _ _ ND Hj) as Hlk.
    assert (Hx : l !! 0 = Some x) by done. assert (Hn : l !! 1 = Some n') by done.
    assert (p <> x) by (eapply NoDup_lookup_ne; eauto).
    pose proof (idx_iff _ _ _ _ _ ND Hj Hn) as In'.
    destruct (decide (p = n')) as [E|E].
    + pose proof (proj1 In' E). subst p. lk. rewrite Hlk. del_fin.
    + assert (S j <> 1) by tauto. lk. rewrite Hlk. del_fin.
  - intros p Hp. destruct (decide (p = x)) as [->|Hpx]; [by lk|].
    assert (p ∉ l) by (intros Hin; destruct (elem_of_delete_inv l 0 x p eq_refl Hin); done).
    assert (p <> n') by (intros ->; apply H; subst l; set_solver).
    lk. by apply links_lookup_None.
Qed.

(** ** insertion before position k *)
(* [insert_at k a l := take k l ++ a :: drop k l] is defined in Forest.v *)

Lemma lookup_insert_at {A} (l : list A) k a j : k <= length l ->
  insert_at k a l !! j = if decide (j < k) then l !! j else if decide (j = k) then Some a else l !! pred j.
Proof.
  intros Hk. unfold insert_at. destruct (decide (j < k)).
  - rewrite lookup_app_l by (rewrite take_length; lia). by rewrite lookup_take.
  - rewrite lookup_app_r by (rewrite take_length; lia). rewrite take_length, Nat.min_l by lia.
    destruct (decide (j = k)) as [->|Hne]; [by rewrite Nat.sub_diag|].
    destruct (j - k) as [|d] eqn:E; [lia|]. rewrite lookup_cons_ne_0 by done. cbn. rewrite lookup_drop. f_equal. lia.
Qed.
Lemma insert_at_perm {A} (l : list A) k a : insert_at k a l ≡ₚ a :: l.
Proof. unfold insert_at. rewrite <- Permutation_middle. by rewrite take_drop. Qed.
Lemma insert_at_length {A} (l : list A) k a : length (insert_at k a l) = S (length l).
Proof. by rewrite insert_at_perm. Qed.
Lemma insert_at_0 {A} (l : list A) a : insert_at 0 a l = a :: l.
Proof. unfold insert_at. by rewrite take_0, drop_0. Qed.

Ltac ins_fin :=
  la'; do 2 f_equal;
  rewrite ?last_lookup; rewrite ?insert_at_length;
  rewrite ?lookup_insert_at by lia; repeat case_decide; try (exfalso; lia);
  lfin.

Lemma links_insert_mid l k x a pv :
  NoDup (x :: l) -> k <> 0 -> l !! k = Some a -> l !! pred k = Some pv ->
  links (insert_at k x l) = upd_next pv (Some x) (upd_prev a (Some x) (<[x := (Some a, Some pv)]> (links l))).
Proof.
  intros ND Hk0 Ha Hpv. apply NoDup_cons in ND as [Hxl ND].
  assert (Hlen : k < length l) by (by eapply lookup_lt_Some).
  symmetry. apply links_eq_intro.
  { rewrite insert_at_perm. by apply NoDup_cons. }
  - intros j p Hj.
    assert (x <> a) by (intros ->; by eapply Hxl, elem_of_list_lookup_2).
    assert (x <> pv) by (intros ->; by eapply Hxl, elem_of_list_lookup_2).
    destruct (decide (j = k)) as [->|Hjk].
    { rewrite lookup_insert_at in Hj by lia. rewrite decide_False in Hj by lia. rewrite decide_True in Hj by done. injection Hj as <-.
      lk. ins_fin. }
    rewrite lookup_insert_at in Hj by lia.
    assert (exists i, l !! i = Some p /\ i = if decide (j < k) then j else pred j) as (i & Hi & Hij).
    { destruct (decide (j < k)); [eauto|]. rewrite decide_False in Hj by done. eauto. }
    clear Hj.
    pose proof (links_lookup _ _ _ ND Hi) as Hlk.
    assert (p <> x) by (intros ->; by eapply Hxl, elem_of_list_lookup_2).
    pose proof (idx_iff _ _ _ _ _ ND Hi Hpv) as Ipv.
    pose proof (idx_iff _ _ _ _ _ ND Hi Ha) as Ia.
    destruct (decide (p = pv)) as [E1|E1]; destruct (decide (p = a)) as [E2|E2].
    + exfalso. apply Ipv in E1. apply Ia in E2. lia.
    + pose proof (proj1 Ipv E1). subst p. lk. rewrite Hlk. destruct (decide (j < k)); ins_fin.
    + pose proof (proj1 Ia E2). subst p. lk. rewrite Hlk. destruct (decide (j < k)); ins_fin.
    + assert (i <> pred k) by tauto. assert (i <> k) by tauto.
      lk. rewrite Hlk. destruct (decide (j < k)); ins_fin.
  - intros p Hp. rewrite insert_at_perm in Hp. apply not_elem_of_cons in Hp as [Hpx Hpl].
    assert (p <> pv) by (intros ->; by eapply Hpl, elem_of_list_lookup_2).
    assert (p <> a) by (intros ->; by eapply Hpl, elem_of_list_lookup_2).
    lk. by apply links_lookup_None.
Qed.

Lemma links_insert_head l x c0 :
  NoDup (x :: l) -> head l = Some c0 ->
  links (x :: l) = upd_prev c0 (Some x) (<[x := (Some c0, last l)]> (links l)).
Proof.
  intros ND Hh. rewrite head_lookup in Hh. pose proof ND as ND'. apply NoDup_cons in ND as [Hxl ND].
  assert (Hlen : 0 < length l) by (by eapply lookup_lt_Some).
  rewrite <- (insert_at_0 l x).
  symmetry. apply links_eq_intro.
  { by rewrite insert_at_0. }
  - intros j p Hj.
    assert (x <> c0) by (intros ->; by eapply Hxl, elem_of_list_lookup_2).
    destruct (decide (j = 0)) as [->|Hjk].
    { rewrite insert_at_0 in Hj. cbn in Hj. injection Hj as <-. lk. ins_fin. }
    rewrite lookup_insert_at in Hj by lia.
    rewrite decide_False in Hj by lia. rewrite decide_False in Hj by lia.
    pose proof (links_lookup _ _ _ ND Hj) as Hlk.
    assert (p <> x) by (intros ->; by eapply Hxl, elem_of_list_lookup_2).
    pose proof (idx_iff _ _ _ _ _ ND Hj Hh) as Ic.
    destruct (decide (p = c0)) as [E|E].
    + pose proof (proj1 Ic E). subst p. lk. rewrite Hlk. ins_fin.
    + assert (pred j <> 0) by tauto. lk. rewrite Hlk. ins_fin.
  - intros p Hp. rewrite insert_at_0 in Hp. apply not_elem_of_cons in Hp as [Hpx Hpl].
    assert (p <> c0) by (intros ->; by eapply Hpl, elem_of_list_lookup_2).
    lk. by apply links_lookup_None.
Qed.

(** ** replacement at position k *)
Lemma NoDup_list_insert {A} (l : list A) k (r : A) : NoDup (r :: l) -> NoDup (<[k:=r]> l).
Proof.
  intros ND. apply NoDup_cons in ND as [Hr ND].
  destruct (l !! k) as [y|] eqn:E.
  - rewrite insert_take_drop by (by eapply lookup_lt_Some).
    rewrite <- (take_drop_middle _ _ _ E) in ND, Hr.
    apply NoDup_app in ND as (N1 & N2 & N3). apply NoDup_cons in N3 as [N4 N3].
    apply NoDup_app. split_and!; [done| |].
    + intros b Hb Hb2. apply elem_of_cons in Hb2 as [->|Hb2].
      * apply Hr. apply elem_of_app. by left.
      * apply (N2 _ Hb). by right.
    + apply NoDup_cons. split; [|done]. intros Hin. apply Hr. apply elem_of_app. right. by right.
  - rewrite list_insert_ge; [done|]. by apply lookup_ge_None.
Qed.

Lemma not_elem_of_list_insert_inv {A} (l : list A) (i : nat) (u v w : A) :
  l !! i = Some v -> w ∉ <[i:=u]> l -> w <> v -> w <> u /\ w ∉ l.
Proof.
  intros Hk Hb Hby. split.
  - intros ->. apply Hb. apply list_elem_of_insert. by eapply lookup_lt_Some.
  - intros Hin. apply elem_of_list_lookup in Hin as [j Hj].
    destruct (decide (j = i)) as [->|Hne]; [congruence|].
    apply Hb. apply elem_of_list_lookup. exists j. by rewrite list_lookup_insert_ne.
Qed.

Lemma list_lookup_insert_eq {A} (l : list A) (i j : nat) (u : A) :
  i = j -> i < length l -> <[i:=u]> l !! j = Some u.
Proof. intros ->. apply list_lookup_insert. Qed.
Ltac rep_fin :=
  la'; do 2 f_equal;
  rewrite ?last_lookup; rewrite ?insert_length;
  repeat first [ rewrite list_lookup_insert_ne by lia | rewrite list_lookup_insert_eq by lia ];
  lfin.

Lemma links_replace_single y r : r <> y ->
  links [r] = delete y (<[r := (None, Some r)]> (links [y])).
Proof.
  intros Hne. rewrite !links_singleton. apply map_eq. intros p.
  destruct (decide (p = y)) as [->|Hy].
  - rewrite lookup_delete. by rewrite lookup_singleton_ne.
  - rewrite lookup_delete_ne by done. destruct (decide (p = r)) as [->|Hr].
    + by rewrite lookup_insert, lookup_singleton.
    + rewrite lookup_insert_ne by done. by rewrite !lookup_singleton_ne.
Qed.

(** head of a chain with at least two elements *)
Lemma links_replace_head l y n' r :
  NoDup (r :: l) -> l !! 0 = Some y -> l !! 1 = Some n' ->
  links (<[0:=r]> l) = delete y (upd_prev n' (Some r) (<[r := (Some n', last l)]> (links l))).
Proof.
  intros ND Hy Hn. pose proof (NoDup_list_insert l 0 r ND) as ND'.
  apply NoDup_cons in ND as [Hrl ND].
  assert (Hlen : 1 < length l) by (by eapply lookup_lt_Some).
  symmetry. apply links_eq_intro; [done| |].
  - intros j p Hj.
    assert (r <> y) by (intros ->; by eapply Hrl, elem_of_list_lookup_2).
    assert (r <> n') by (intros ->; by eapply Hrl, elem_of_list_lookup_2).
    destruct (decide (j = 0)) as [->|Hj0].
    { rewrite list_lookup_insert in Hj by lia. injection Hj as <-. lk. rep_fin. }
    rewrite list_lookup_insert_ne in Hj by lia.
    pose proof (links_lookup _ _ _ ND Hj) as Hlk.
    assert (p <> r) by (intros ->; by eapply Hrl, elem_of_list_lookup_2).
    assert (p <> y) by (eapply (NoDup_lookup_ne l j _ p y ND Hj Hy); lia).
    pose proof (idx_iff _ _ _ _ _ ND Hj Hn) as In'.
    destruct (decide (p = n')) as [E|E].
    + pose proof (proj1 In' E). subst p. lk. rewrite Hlk. rep_fin.
    + assert (j <> 1) by tauto. lk. rewrite Hlk. rep_fin.
  - intros p Hp. destruct (decide (p = y)) as [->|Hpy]; [by lk|].
    destruct (not_elem_of_list_insert_inv _ _ _ _ _ Hy Hp Hpy) as [Hpr Hpl].
    assert (p <> n') by (intros ->; by eapply Hpl, elem_of_list_lookup_2).
    lk. by apply links_lookup_None.
Qed.

Lemma links_replace_mid l k y r n' pv :
  NoDup (r :: l) -> k <> 0 -> l !! k = Some y -> l !! S k = Some n' -> l !! pred k = Some pv ->
  links (<[k:=r]> l) =
  delete y (upd_next pv (Some r) (upd_prev n' (Some r) (<[r := (Some n', Some pv)]> (links l)))).
Proof.
  intros ND Hk0 Hy Hn Hpv. pose proof (NoDup_list_insert l k r ND) as ND'.
  apply NoDup_cons in ND as [Hrl ND].
  assert (Hlen : S k < length l) by (by eapply lookup_lt_Some).
  symmetry. apply links_eq_intro; [done| |].
  - intros j p Hj.
    assert (r <> y) by (intros ->; by eapply Hrl, elem_of_list_lookup_2).
    assert (r <> n') by (intros ->; by eapply Hrl, elem_of_list_lookup_2).
    assert (r <> pv) by (intros ->; by eapply Hrl, elem_of_list_lookup_2).
    destruct (decide (j = k)) as [->|Hjk].
    { rewrite list_lookup_insert in Hj by lia. injection Hj as <-. lk. rep_fin. }
    rewrite list_lookup_insert_ne in Hj by lia.
    pose proof (links_lookup _ _ _ ND Hj) as Hlk.
    assert (p <> r) by (intros ->; by eapply Hrl, elem_of_list_lookup_2).
    assert (p <> y) by (eapply (NoDup_lookup_ne l j _ p y ND Hj Hy); lia).
    pose proof (idx_iff _ _ _ _ _ ND Hj Hn) as In'.
    pose proof (idx_iff _ _ _ _ _ ND Hj Hpv) as Ipv.
    destruct (decide (p = pv)) as [E1|E1]; destruct (decide (p = n')) as [E2|E2].
    + exfalso. apply Ipv in E1. apply In' in E2. lia.
    + pose proof (proj1 Ipv E1). subst p. lk. rewrite Hlk. rep_fin.
    + pose proof (proj1 In' E2). subst p. lk. rewrite Hlk. rep_fin.
    + assert (j <> pred k) by tauto. assert (j <> S k) by tauto. lk. rewrite Hlk. rep_fin.
  - intros p Hp. destruct (decide (p = y)) as [->|Hpy]; [by lk|].
    destruct (not_elem_of_list_insert_inv _ _ _ _ _ Hy Hp Hpy) as [Hpr Hpl].
    assert (p <> n') by (intros ->; by eapply Hpl, elem_of_list_lookup_2).
    assert (p <> pv) by (intros ->; by eapply Hpl, elem_of_list_lookup_2).
    lk. by apply links_lookup_None.
Qed.

Lemma links_replace_last l k y r pv c0 :
  NoDup (r :: l) -> k <> 0 -> l !! k = Some y -> l !! S k = None -> l !! pred k = Some pv ->
  head l = Some c0 ->
  links (<[k:=r]> l) =
  delete y (upd_prev c0 (Some r) (upd_next pv (Some r) (<[r := (None, Some pv)]> (links l)))).
Proof.
  intros ND Hk0 Hy Hn Hpv Hh. rewrite head_lookup in Hh.
  pose proof (NoDup_list_insert l k r ND) as ND'.
  apply NoDup_cons in ND as [Hrl ND].
  assert (Hlen : length l = S k).
  { apply lookup_ge_None in Hn. apply lookup_lt_Some in Hy. lia. }
  symmetry. apply links_eq_intro; [done| |].
  - intros j p Hj.
    assert (r <> y) by (intros ->; by eapply Hrl, elem_of_list_lookup_2).
    assert (r <> c0) by (intros ->; by eapply Hrl, elem_of_list_lookup_2).
    assert (r <> pv) by (intros ->; by eapply Hrl, elem_of_list_lookup_2).
    destruct (decide (j = k)) as [->|Hjk].
    { rewrite list_lookup_insert in Hj by lia. injection Hj as <-. lk. rep_fin. }
    rewrite list_lookup_insert_ne in Hj by lia.
    pose proof (links_lookup _ _ _ ND Hj) as Hlk.
    assert (p <> r) by (intros ->; by eapply Hrl, elem_of_list_lookup_2).
    assert (p <> y) by (eapply (NoDup_lookup_ne l j _ p y ND Hj Hy); lia).
    assert (j < k) by (apply lookup_lt_Some in Hj; lia).
    pose proof (idx_iff _ _ _ _ _ ND Hj Hh) as Ic.
    pose proof (idx_iff _ _ _ _ _ ND Hj Hpv) as Ipv.
    destruct (decide (p = pv)) as [E1|E1]; destruct (decide (p = c0)) as [E2|E2].
    + pose proof (proj1 Ipv E1). pose proof (proj1 Ic E2). subst. lk. rewrite Hlk. rep_fin.
    + pose proof (proj1 Ipv E1). assert (j <> 0) by tauto. subst p. lk. rewrite Hlk. rep_fin.
    + pose proof (proj1 Ic E2). assert (j <> pred k) by tauto. subst p. lk. rewrite Hlk. rep_fin.
    + assert (j <> pred k) by tauto. assert (j <> 0) by tauto. lk. rewrite Hlk. rep_fin.
  - intros p Hp. destruct (decide (p = y)) as [->|Hpy]; [by lk|].
    destruct (not_elem_of_list_insert_inv _ _ _ _ _ Hy Hp Hpy) as [Hpr Hpl].
    assert (p <> c0) by (intros ->; by eapply Hpl, elem_of_list_lookup_2).
    assert (p <> pv) by (intros ->; by eapply Hpl, elem_of_list_lookup_2).
    lk. by apply links_lookup_None.
Qed.
