(** PatchHeapFailFinish.v — the part of the heap-level [apply_patch] after "Now, just add value to path"
    ([apply_patch_finish], PatchHeapApplyDefs.v) under an ARBITRARY allocation-failure schedule refines
    [PatchHeapFailDefs.finish_add_f] for SOME choice of the two refusal flags it reads:

      [f_path]  the copy of the path is refused: status 9, the value has been deleted, the document is untouched;
      [f_key]   (parent is an object) the copy of the member name inside cJSON_AddItemToObject is refused: the old
                member of that name is gone, the status is 0, and the value is still the LAST ROOT of the forest —
                a detached tree that no pointer of the caller reaches: the invariant holds for
                [(G ++ [docT]) ++ [v]], and every live library block is owned by that forest (the exact ledger).

    Forest [(G ++ [doc]) ++ [v]] as in PatchHeapFinish.v. *)
From CJ Require Import Base Dbl Heap Forest ForestLemmas CoreSpec CoreDefs CoreRefineBase CoreRefine CoreRefineMore
  CoreRefineDelete CoreRefineReplace CoreRefineObject CoreRefineByKey CoreRefineFrame CoreRefineHistory CoreRefineAddObject
  CoreRefineHistoryObj CoreRefineCreate CoreRefineDupValue CoreLedgerGen.
From CJ Require Import TierBridgeDefs TierBridgeForest TierBridgeLemmas TierBridgeUtilsDefs TierBridgeUtils TierBridgeE2E2
  TierBridgeEndToEndStr TierBridgeOverwriteDefs TierBridgeOverwrite
  MergeHeapDefs MergeHeapInv MergeHeapProofs PatchHeapDefs PatchHeapPath PatchHeapPointer PatchHeapStr PatchHeapSteps
  PatchHeapDetach PatchHeapApplyDefs PatchHeapOps PatchHeapFinish PatchHeapApply PatchHeapFailDefs PatchHeapFail.
From CJ Require Tree PointerDefs PatchDefs CompareDefs SortSpec PatchProofs.
From CJ.gen Require Import Constants.
From stdpp Require Import gmap.
From Coq Require Import Lia.
Local Open Scope Z_scope.

(** what every exit has to deliver, with a possibly leaked value *)
Definition finish_goal_f (h : heap) (G : forest) (doc v : tree) (NL0 : Prop) (o : out (Z * heap)) (hm : heap)
    (vres : Base.res (Z * Tree.node * option Tree.node)%type) : Prop :=
  match vres with
  | Ok (st, doc', lk) =>
      exists h' docT,
        o = Ret (st, h') /\ tid docT = tid doc /\ reify (h_str h') docT = doc' /\ KeepO h h' G /\
        (h_next hm <= h_next h')%positive /\
        match lk with
        | None => MInv h' (G ++ [docT]) /\ (NL0 -> NoLeak h' (G ++ [docT]))
        | Some lv => MInv h' ((G ++ [docT]) ++ [v]) /\ (NL0 -> NoLeak h' ((G ++ [docT]) ++ [v])) /\ reify (h_str h') v = lv
        end
  | _ => False
  end.

Lemma finish_goal_f_of h G doc v NL0 o hm (vres : Base.res (Z * Tree.node)%type) :
  finish_goal h G doc v NL0 o hm vres -> finish_goal_f h G doc v NL0 o hm (' (st, d) <- vres ;; Ok (st, d, None)).
Proof.
  destruct vres as [[st d]| |]; cbn; [|done|done]. intros (h' & docT & H1 & H2 & H3 & H4 & H5 & H6 & H7).
  exists h', docT. split_and!; done.
Qed.

Lemma finish_goal_f_mono h G doc v NL0 o hm hm' vres :
  (h_next hm' <= h_next hm)%positive -> finish_goal_f h G doc v NL0 o hm vres -> finish_goal_f h G doc v NL0 o hm' vres.
Proof.
  intros Hle. destruct vres as [[[st doc'] lk]| |]; cbn; [|done|done].
  intros (h' & docT & H1 & H2 & H3 & H4 & H5 & H6). exists h', docT. split_and!; try done. lia.
Qed.

Lemma finish_add_f_unfold fs object value pstr cs :
  finish_add_f fs object value pstr cs =
  if PatchDefs.is_nil pstr then Ok (0, PatchDefs.unnamed value, None)
  else if f_path fs then Ok (9, object, None)
  else
    match PatchDefs.last_slash pstr 0 None with
    | None => Ok (9, object, None)
    | Some i =>
        match PointerDefs.get_item_from_pointer object (take i pstr) cs with
        | None => Ok (9, object, None)
        | Some pp =>
            match Tree.subtree object pp with
            | None => Ok (9, object, None)
            | Some par =>
                if Tree.is_array par then
                  if strcmp (drop (S i) pstr) PatchDefs.s_dash =? 0 then
                    Ok (0, PatchDefs.put_subtree object pp (v_add_to_array par value), None)
                  else
                    match PointerDefs.decode_array_index_from_pointer (drop (S i) pstr) with
                    | None => Ok (11, object, None)
                    | Some idx =>
                        match v_insert_in_array par idx value with
                        | None => Ok (10, object, None)
                        | Some par' => Ok (0, PatchDefs.put_subtree object pp par', None)
                        end
                    end
                else if Tree.is_object par then
                  buf <- PatchDefs.decode_pointer_inplace (drop (S i) pstr ++ [0]) ;;
                  let par1 := v_delete_from_object par (cstr buf) cs in
                  if f_key fs then Ok (0, PatchDefs.put_subtree object pp par1, Some value)
                  else Ok (0, PatchDefs.put_subtree object pp (v_add_to_object par1 (cstr buf) value), None)
                else Ok (9, object, None)
            end
        end
    end.
Proof. by destruct pstr. Qed.

Section FinishOracle.
  Variable oracle : nat -> bool.

  (** the tail of [apply_patch_finish oracle] once the parent has been found *)
  Definition finish_tail_o (parent value parent_pointer : ptr) (child_pointer : cstring) (case_sensitive : bool) : M Z :=
    isarr <~ cJSON_IsArray parent ;;
    if isarr then
      cp <~ ld_cs child_pointer ;;
      if strcmp cp PatchDefs.s_dash =? 0 then
        cJSON_AddItemToArray parent value ;;;
        cleanup None parent_pointer 0
      else
        oi <~ decode_array_index_from_pointer child_pointer ;;
        match oi with
        | None => cleanup value parent_pointer 11
        | Some index =>
            ok <~ insert_item_in_array parent index value ;;
            if negb ok then cleanup value parent_pointer 10
            else cleanup None parent_pointer 0
        end
    else
    isobj <~ cJSON_IsObject parent ;;
    if isobj then
      decode_pointer_inplace child_pointer ;;;
      (if case_sensitive then cJSON_DeleteItemFromObjectCaseSensitive_s parent child_pointer
       else cJSON_DeleteItemFromObject_s parent child_pointer) ;;;
      cJSON_AddItemToObject_s oracle parent child_pointer value ;;;
      cleanup None parent_pointer 0
    else cleanup value parent_pointer 9.

  Lemma cJSON_strdup_s_fail h c nm :
    CsReads h c nm -> oracle (h_req h) = true -> cJSON_strdup_s oracle c h = Ret (None, bump h).
  Proof.
    intros Hc Ho. unfold cJSON_strdup_s. rewrite (CsReads_not_null _ _ _ Hc).
    rewrite (bindM_Ret _ _ _ _ _ (run_ld_cs _ _ _ Hc)).
    unfold alloc_bytes. unfold bindM at 1. by rewrite Ho.
  Qed.

  (** when the parent is not an object the allocator is not consulted *)
  Lemma finish_tail_o_not_object parent value pp c flag hm :
    (cJSON_IsArray parent hm = Ret (true, hm)) \/
    (cJSON_IsArray parent hm = Ret (false, hm) /\ cJSON_IsObject parent hm = Ret (false, hm)) ->
    finish_tail_o parent value pp c flag hm = finish_tail parent value pp c flag hm.
  Proof.
    intros [Ha|[Ha Ho]]; unfold finish_tail_o, finish_tail.
    - by rewrite !(bindM_Ret _ _ _ _ _ Ha).
    - rewrite !(bindM_Ret _ _ _ _ _ Ha). cbv iota. by rewrite !(bindM_Ret _ _ _ _ _ Ho).
  Qed.

  Section TailO.
    Context (h : heap) (G : forest) (doc : tree) (x : positive) (dx : rdata) (csx : list tree)
            (flag : bool) (NL0 : Prop) (B : positive) (hm : heap) (blk : bytes).
    Notation v := (T x dx csx).
    Notation F3 := ((G ++ [doc]) ++ [v]).
    Notation St := (h_str h).
    Hypothesis I : MInv h F3.
    Hypothesis M : Mid NL0 B hm F3.
    Hypothesis Es : h_str hm = <[B := blk]> St.
    Hypothesis HB : St !! B = None.
    Context (pp : Tree.path) (p : positive) (d : rdata) (cs : list tree) (c : cstring) (child_raw : bytes).
    Hypothesis Hsub : subtree_t doc pp = Some (T p d cs).
    Hypothesis Hc : CsReads hm c child_raw.
    Let Im : MInv hm F3 := md_inv _ _ _ _ M.
    Let Wm : WF hm F3 := mi_wf _ _ Im.
    Let ND3 : NoDup (ids F3) := wf_nodup _ _ Wm.

    (** ** the parent is an object: the second request *)
    Lemma tail_object_o (off : nat) :
      c = CAt B off -> (off <= length blk)%nat -> drop off blk = child_raw ++ [0] ->
      (Z.land (rd_type d) 255 =? c_cJSON_Array) = false -> (Z.land (rd_type d) 255 =? c_cJSON_Object) = true ->
      exists fk : bool,
      finish_goal_f h G doc v NL0 (finish_tail_o (Some p) (Some x) (Some B) c flag hm) hm
        (buf <- PatchDefs.decode_pointer_inplace (child_raw ++ [0]) ;;
         let par1 := v_delete_from_object (reify St (T p d cs)) (cstr buf) flag in
         if fk then Ok (0, PatchDefs.put_subtree (reify St doc) pp par1, Some (reify St v))
         else Ok (0, PatchDefs.put_subtree (reify St doc) pp (v_add_to_object par1 (cstr buf) (reify St v)), None)).
    Proof.
      intros Ec Hoff Hdrop Harr Hobj.
      pose proof (tail_ND G doc x dx csx NL0 B hm M) as ND. pose proof (tail_pn G doc x dx csx pp p d cs Hsub) as Hpn.
      pose proof (tail_find_p3 G doc x dx csx NL0 B hm M pp p d cs Hsub) as Hfp3.
      unfold finish_tail_o, cJSON_IsArray, cJSON_IsObject. cbn [is_null].
      rewrite (bindM_Ret _ _ _ _ _ (run_is_type hm F3 Im p d cs c_cJSON_Array Hpn)). rewrite Harr.
      rewrite (bindM_Ret _ _ _ _ _ (run_is_type hm F3 Im p d cs c_cJSON_Object Hpn)). rewrite Hobj.
      destruct (decode_pointer_inplace_terminated child_raw) as (buf & Hdpi & Hlen & Hbz). rewrite Hdpi. cbn [bind]. cbv zeta.
      assert (HsB : h_str hm !! B = Some blk) by (rewrite Es; apply lookup_insert).
      (* decode in place *)
      set (blk3 := take off blk ++ buf).
      assert (Hdec : decode_pointer_inplace c hm = Ret (tt, set_str hm (<[B := blk3]> (h_str hm)))).
      { rewrite Ec. unfold decode_pointer_inplace. stp (run_ld_str hm B blk (md_live _ _ _ _ M) HsB). rewrite Hdrop, Hdpi. fold blk3.
        apply (run_st_str hm B blk); [exact (md_live _ _ _ _ M)|exact HsB|exact (md_own _ _ _ _ M)|].
        unfold blk3. rewrite app_length, Hlen, <- Hdrop, <- app_length. by rewrite take_drop. }
      set (h3 := set_str hm (<[B := blk3]> (h_str hm))) in *.
      pose proof (Mid_write NL0 B hm F3 blk3 M) as M3. fold h3 in M3.
      assert (E3 : h_str h3 = <[B := blk3]> St) by (unfold h3; cbn [h_str set_str]; by rewrite Es, insert_insert).
      set (nm := cstr buf).
      assert (R3 : CsReads h3 c nm).
      { rewrite Ec. unfold CsReads. split; [exact (md_live _ _ _ _ M3)|]. exists blk3. rewrite E3, lookup_insert. split; [done|].
        assert (Ed : drop off blk3 = buf).
        { unfold blk3. rewrite drop_app_ge by (rewrite take_length; lia). rewrite take_length.
          replace (off - off `min` length blk)%nat with 0%nat by lia. done. }
        by rewrite Ed. }
      pose proof (CsReads_zfree _ _ _ R3) as Hznm.
      rewrite (bindM_Ret _ _ _ _ _ Hdec).
      pose proof (md_inv _ _ _ _ M3) as I3.
      assert (Hre3 : forall t, t ∈ nodes F3 -> reify (h_str h3) t = reify St t).
      { intros t Ht. rewrite E3. apply (reify_temp St B blk3 F3 t (mi_own _ _ I) (md_fresh _ _ _ _ M3) Ht). }
      (* delete the member of that name *)
      assert (Hdel_is : (if flag then cJSON_DeleteItemFromObjectCaseSensitive_s (Some p) c else cJSON_DeleteItemFromObject_s (Some p) c) =
        (it <~ (to_detach <~ get_object_item_s (Some p) c flag ;; cJSON_DetachItemViaPointer (Some p) to_detach) ;; cJSON_Delete it))
        by (by destruct flag).
      rewrite Hdel_is.
      destruct (Mid_delete_key NL0 B h3 F3 M3 p d cs c nm flag Hfp3 R3) as (h4 & Hdel & M4 & K4 & HB4 & En4).
      set (cs1 := match found_member (h_str h3) flag nm cs with Some (j, _) => delete j cs | None => cs end).
      set (doc1 := put_t doc pp (T p d cs1)).
      assert (EF4 : match found_member (h_str h3) flag nm cs with Some (j, _) => set_children p (delete j cs) F3 | None => F3 end =
                    (G ++ [doc1]) ++ [v]).
      { unfold doc1, cs1. destruct (found_member (h_str h3) flag nm cs) as [[j m]|].
        - exact (set_children_snoc_other G doc v pp p d cs _ ND3 Hsub).
        - by rewrite (put_t_id doc pp _ Hsub). }
      rewrite EF4 in M4, K4. set (F4 := (G ++ [doc1]) ++ [v]) in *.
      rewrite (bindM_Ret _ _ _ _ _ Hdel).
      pose proof (md_inv _ _ _ _ M4) as I4. pose proof (mi_wf _ _ I4) as W4. pose proof (wf_nodup _ _ W4) as ND4.
      assert (R4 : CsReads h4 c nm).
      { apply (CsReads_transfer h3 h4 c nm R3). intros b off' Eb. rewrite Ec in Eb. injection Eb as <- _.
        split; [exact HB4|exact (md_live _ _ _ _ M4)]. }
      assert (ND41 : NoDup (ids (G ++ [doc1]))) by (unfold F4 in ND4; rewrite ids_app in ND4; by apply NoDup_app in ND4 as (? & _ & _)).
      assert (Hxr4 : x ∉ roots (G ++ [doc1])) by (exact (proj1 (last_root_fresh _ _ _ W4))).
      assert (Hfr4 : find_root x F4 = Some (T x dx csx)) by (exact (find_root_last (G ++ [doc1]) (T x dx csx) Hxr4)).
      assert (Hrr4 : remove_root x F4 = G ++ [doc1]) by (exact (CoreRefineReplace.remove_root_snoc (G ++ [doc1]) (T x dx csx) Hxr4)).
      assert (Hsub1 : subtree_t doc1 pp = Some (T p d cs1)) by (exact (subtree_t_put doc pp _ _ Hsub)).
      assert (Hp4 : find_tree p (remove_root x F4) = Some (T p d cs1)).
      { rewrite Hrr4. exact (find_tree_doc G doc1 pp _ ND41 Hsub1). }
      destruct (container_facts NL0 B h4 F4 M4 p x _ d cs1 Hfr4 Hp4) as (HpF4 & Href4 & Hpx4).
      assert (HB4o : B ∉ owned F4) by (exact (md_fresh _ _ _ _ M4)).
      assert (Hok_dx : old_key dx ⊆ owned [T x dx csx]).
      { intros b Hb. rewrite owned_singleton, flat_t_unfold, owned_fl_cons. apply elem_of_app. left. right.
        rewrite owned_strs_split. apply elem_of_app. by right. }
      assert (Hdisj : forall b, b ∈ owned (G ++ [doc1]) -> b ∈ owned F4 /\ b ∉ old_key dx).
      { intros b Hb. split; [unfold F4; rewrite owned_app; apply elem_of_app; by left|].
        intros Hin. apply (owned_disjoint_last h4 (G ++ [doc1]) (T x dx csx) b W4 Hb). by apply Hok_dx. }
      assert (Hown41 : forall e, e ∈ datas (G ++ [doc1]) -> node_owns e.2).
      { intros e He. apply (mi_own _ _ I4). unfold F4. apply datas_elem_app. by left. }
      assert (Hdoc1n : doc1 ∈ nodes (G ++ [doc1])) by (apply roots_in_nodes; apply elem_of_app; right; by left).
      assert (Hpn1 : T p d cs1 ∈ nodes (G ++ [doc1])).
      { rewrite nodes_app. apply elem_of_app. right. unfold nodes. cbn. rewrite app_nil_r. by eapply subtree_t_nodes. }
      (* the value-level object without the member *)
      assert (Epar1 : v_delete_from_object (reify St (T p d cs)) nm flag = reify St (T p d cs1)).
      { unfold v_delete_from_object, v_delete_members.
        rewrite <- (Hre3 _ Hpn). rewrite (get_object_item_found (h_str h3) p d cs nm flag Hznm). rewrite (Hre3 _ Hpn).
        assert (Emem : match (fun kc : nat * tree => (kc.1, reify (h_str h3) kc.2)) <$> found_member (h_str h3) flag nm cs with
                       | Some (j, _) => PatchDefs.remove_nth j (Tree.n_children (reify St (T p d cs)))
                       | None => Tree.n_children (reify St (T p d cs))
                       end = map (reify St) cs1).
        { unfold cs1. rewrite reify_children. cbn [tchildren]. destruct (found_member (h_str h3) flag nm cs) as [[j m]|]; cbn [fmap option_fmap option_map fst]; [|done].
          by rewrite remove_nth_delete, TierBridgeLemmas.map_delete. }
        rewrite Emem. by rewrite (reify_set_children St p d cs cs1). }
      destruct (oracle (h_req h4)) eqn:Ho.
      - (* the copy of the name is refused: cJSON_AddItemToObject returns false, which is ignored *)
        exists true.
        assert (Hadd : cJSON_AddItemToObject_s oracle (Some p) c (Some x) h4 = Ret (false, bump h4)).
        { unfold cJSON_AddItemToObject_s. rewrite (CsReads_not_null _ _ _ R4). cbn [is_null orb]. rewrite (ptr_eqb_Some_ne _ _ Hpx4).
          rewrite !bindM_assoc. rewrite (bindM_Ret _ _ _ _ _ (cJSON_strdup_s_fail h4 c nm R4 Ho)).
          cbn [is_null]. by rewrite !bindM_ret. }
        rewrite (bindM_Ret _ _ _ _ _ Hadd).
        destruct (cleanup_temp NL0 B (bump h4) F4 0 (Mid_bump NL0 B h4 F4 M4)) as (h6 & Hcl & I6 & NL6 & K6 & En6).
        assert (Hkeep : forall b, b ∈ owned F4 -> h_str h6 !! b = St !! b).
        { intros b Hb. assert (HbB : b <> B) by (intros ->; by apply HB4o).
          rewrite (K6 b HbB). change (h_str (bump h4)) with (h_str h4). rewrite (K4 b Hb), E3. by rewrite lookup_insert_ne. }
        assert (Hkeep_t : forall t, t ∈ nodes F4 -> reify (h_str h6) t = reify St t).
        { intros t Ht. apply reify_frame. intros b Hb. apply Hkeep. exact (str_blocks_in_owned F4 t b (mi_own _ _ I4) Ht Hb). }
        exists h6, doc1. split; [exact Hcl|]. split; [by eapply tid_put_t_sub|]. split; [|split; [|split]].
        + rewrite (Hkeep_t doc1) by (unfold F4; rewrite nodes_app; apply elem_of_app; by left).
          unfold doc1. rewrite <- reify_put. by rewrite Epar1.
        + intros b Hb. apply Hkeep. unfold F4. rewrite !owned_app. apply elem_of_app. left. apply elem_of_app. by left.
        + rewrite En6. change (h_next (bump h4)) with (h_next h4). rewrite En4. cbn. lia.
        + split; [exact I6|]. split; [exact NL6|].
          apply Hkeep_t. apply roots_in_nodes. unfold F4. apply elem_of_app. right. by left.
      - (* granted: as with the never-failing allocator *)
        exists false.
        destruct (Mid_add_to_object NL0 B h4 F4 M4 p x d dx cs1 csx c nm Hfr4 Hp4 R4) as (h5 & Hadd & M5 & Hsame5 & Hnk5 & HB5 & En5).
        assert (Hadd_o : cJSON_AddItemToObject_s oracle (Some p) c (Some x) h4 = Ret (true, h5)).
        { rewrite <- Hadd.
          rewrite (proj1 (cJSON_AddItemToObject_s_sim_owned oracle h4 F4 p x dx d csx cs1 c nm W4 Hpx4 Hfr4 Hp4 Href4 R4 Ho)).
          by rewrite (proj1 (cJSON_AddItemToObject_s_sim_owned nofail h4 F4 p x dx d csx cs1 c nm W4 Hpx4 Hfr4 Hp4 Href4 R4 eq_refl)). }
        set (nk := h_next h4) in *. set (d' := rd_owned_key dx nk) in *.
        rewrite Hrr4, (set_children_doc G doc1 pp p d cs1 _ ND41 Hsub1) in M5.
        unfold doc1 in M5. rewrite (put_t_put doc pp _ _ _ Hsub) in M5. fold doc1 in M5.
        set (docT := put_t doc pp (T p d (cs1 ++ [T x d' csx]))) in *.
        rewrite (bindM_Ret _ _ _ _ _ Hadd_o).
        destruct (cleanup_temp NL0 B h5 (G ++ [docT]) 0 M5) as (h6 & Hcl & I6 & NL6 & K6 & En6).
        exists h6, docT. split; [exact Hcl|]. split; [by eapply tid_put_t_sub|].
        assert (Hkeep : forall b, b ∈ owned F4 -> b ∉ old_key dx -> h_str h6 !! b = St !! b).
        { intros b Hb Hnk. assert (HbB : b <> B) by (intros ->; by apply HB4o).
          rewrite (K6 b HbB), (Hsame5 b Hb Hnk), (K4 b Hb), E3. by rewrite lookup_insert_ne. }
        assert (Hkeep1 : forall t, t ∈ nodes (G ++ [doc1]) -> reify (h_str h6) t = reify St t).
        { intros t Ht. apply reify_frame. intros b Hb.
          destruct (Hdisj b (str_blocks_in_owned (G ++ [doc1]) t b Hown41 Ht Hb)) as [H1 H2]. by apply Hkeep. }
        assert (Hnk6 : h_str h6 !! nk = Some (nm ++ [0])).
        { rewrite K6; [exact Hnk5|]. intros E. pose proof (hk_live _ (mi_ok _ _ I4) _ (md_live _ _ _ _ M4)) as Hlt. unfold nk in E. rewrite <- E in Hlt. lia. }
        split; [|split; [|split; [|split; [exact I6|exact NL6]]]].
        + (* the document *)
          assert (EdT : docT = put_t doc1 pp (T p d (cs1 ++ [T x d' csx]))) by (unfold docT, doc1; by rewrite (put_t_put doc pp _ _ _ Hsub)).
          rewrite EdT, <- reify_put, (Hkeep1 doc1 Hdoc1n). unfold doc1 at 1. rewrite <- reify_put.
          rewrite put_subtree_put by (rewrite reify_subtree, Hsub; by eexists). f_equal.
          rewrite Epar1. unfold v_add_to_object. rewrite reify_children. cbn [tchildren].
          rewrite (reify_unfold (h_str h6)), (reify_unfold St p d cs1). cbn [PatchDefs.set_children].
          pose proof (Hkeep1 _ Hpn1) as Ep. rewrite !reify_unfold in Ep. injection Ep as Ep1 Ep2 Ep3.
          rewrite Ep1, Ep2. f_equal. rewrite map_app. cbn [map]. rewrite Ep3. f_equal. f_equal.
          destruct (reify_owned_key (h_str h6) x dx csx nk (nm ++ [0]) Hnk6) as [K1 _]. fold d' in K1. rewrite K1.
          rewrite (cstr_app_zfree nm [] Hznm).
          apply keyed_frame. intros b Hb.
          assert (Hvn : T x dx csx ∈ nodes F4) by (apply roots_in_nodes; apply elem_of_app; right; by left).
          assert (Hdx4 : (x, dx) ∈ datas F4) by (exact (datas_of_node F4 _ Hvn)).
          destruct (mi_own _ _ I4 _ Hdx4) as [Hrefx _]. cbn [snd] in Hrefx.
          assert (Hocs : Forall owns_strings csx).
          { apply Forall_forall. intros ch Hch. apply (owns_strings_of_datas F4 ch (mi_own _ _ I4)).
            eapply TierBridgeForest.child_in_nodes; [exact Hvn|exact Hch]. }
          assert (Hpn4 : T p d cs1 ∈ nodes F4) by (unfold F4; rewrite nodes_app; apply elem_of_app; by left).
          destruct (add_hypothesis_of_owned h4 F4 p x d dx cs1 csx W4 Hfr4 Hp4 (owns_strings_of_datas F4 _ (mi_own _ _ I4) Hpn4) Hrefx Hocs b
                      ltac:(apply elem_of_app; by right)) as [_ Hnot].
          apply Hkeep; [|done]. apply (str_blocks_in_owned F4 (T x dx csx) b (mi_own _ _ I4) Hvn). cbn [str_blocks].
          apply elem_of_app in Hb as [Hb|Hb]; apply elem_of_app; [by left|right]. apply elem_of_app. by right.
        + intros b Hb. assert (Hbo : b ∈ owned (G ++ [doc1])) by (rewrite owned_app; apply elem_of_app; by left).
          destruct (Hdisj b Hbo) as [H1 H2]. by apply Hkeep.
        + rewrite En6, En5, En4. cbn. lia.
    Qed.
  End TailO.

  (** * the whole of [apply_patch_finish] under [oracle] *)
  Theorem finish_oracle h G doc x dx csx pn dpn cpn pb (sp : bytes) flag :
    MInv h ((G ++ [doc]) ++ [T x dx csx]) ->
    T pn dpn cpn ∈ nodes G -> rd_vstr dpn = Some pb ->
    pb ∈ h_live h -> h_str h !! pb = Some sp -> existsb (Z.eqb 0) sp = true ->
    exists fp fk : bool, forall fr ff fd,
    finish_goal_f h G doc (T x dx csx) (NoLeak h ((G ++ [doc]) ++ [T x dx csx]))
      (apply_patch_finish oracle (Some (tid doc)) (Some pn) (Some x) flag h) h
      (finish_add_f (mkFails fr ff fd fp fk) (reify (h_str h) doc) (reify (h_str h) (T x dx csx)) (cstr sp) flag).
  Proof.
    intros I Hpn Hvs Hpl Hps Hpz. set (F3 := (G ++ [doc]) ++ [T x dx csx]) in *. set (St := h_str h) in *.
    pose proof (SortSpec.cstr_zfree sp) as Hzp.
    assert (Hpn3 : T pn dpn cpn ∈ nodes F3).
    { unfold F3. rewrite !nodes_app. apply elem_of_app. left. apply elem_of_app. by left. }
    destruct (node_vstr h F3 I pn dpn cpn Hpn3) as (Hgv & _ & _). rewrite Hvs in Hgv.
    pose proof (CsReads_block h pb sp Hpl Hps Hpz) as Rp.
    destruct (cstr sp) as [|c0 rest] eqn:Epath.
    { (* the root: no request *)
      exists false, false. intros fr ff fd. unfold apply_patch_finish. stp Hgv. cbn [cs_of_ptr]. stp (run_ld_byte0 _ _ _ Rp).
      rewrite ?Epath. cbn [hd Z.eqb finish_add_f]. destruct doc as [r dr csr]. cbn [tid].
      destruct (root_overwrite_step h G r dr csr x dx csx I) as (h' & Hrun & I' & NL' & K & En & Hre).
      stp Hrun. rewrite cleanup_none. exists h', (T r (rd_unnamed dx) csx).
      split; [done|]. split; [done|]. split; [done|]. split; [done|]. split; [lia|]. split; done. }
    set (path := c0 :: rest) in *.
    assert (Hnil : PatchDefs.is_nil path = false) by done. clearbody path.
    destruct (oracle (h_req h)) eqn:Ho.
    { (* the copy of the path is refused *)
      exists true, false. intros fr ff fd. unfold apply_patch_finish. stp Hgv. cbn [cs_of_ptr]. stp (run_ld_byte0 _ _ _ Rp).
      rewrite ?Epath. rewrite (hd_is_nil _ Hzp), Hnil. cbv iota.
      stp Hgv. stp (strdup_refused oracle h pb sp Hpl Hps Hpz Ho). cbn [is_null negb cs_of_ptr]. rewrite !bindM_ret.
      unfold get_item_from_pointer at 1. cbn [cs_is_null]. rewrite bindM_ret. cbn [is_null orb].
      rewrite finish_add_f_unfold, Hnil. cbn [f_path].
      destruct (delete_last_NoLeak (bump h) (G ++ [doc]) (T x dx csx) (MInv_bump _ _ I)) as (h' & Hdel & I' & NL' & K' & En').
      unfold cleanup. cbn [is_null negb when tid] in *. stp Hdel. rewrite bindM_ret.
      exists h', doc. split; [done|]. split; [done|].
      assert (HK : forall b, b ∈ owned (G ++ [doc]) -> h_str h' !! b = St !! b) by (intros b Hb; exact (K' b Hb)).
      split; [|split; [|split; [|split; [exact I'|exact NL']]]].
      - apply reify_frame. intros b Hb. apply HK.
        apply (str_blocks_in_owned (G ++ [doc]) doc b (mi_own _ _ I')); [|done]. apply roots_in_nodes. apply elem_of_app. right. by left.
      - intros b Hb. apply HK. rewrite owned_app. apply elem_of_app. by left.
      - rewrite En'. cbn. lia. }
    (* the copy of the path is granted *)
    assert (Hdup : cJSONUtils_strdup oracle (Some pb) h = Ret (Some (h_next h), alloc_str h (path ++ [0]))).
    { rewrite <- Epath. exact (strdup_granted oracle h pb sp Hpl Hps Hpz Ho). }
    set (B := h_next h) in *. set (h1 := alloc_str h (path ++ [0])) in *.
    pose proof (Mid_alloc h F3 (path ++ [0]) I) as M1. fold B h1 in M1. set (NL0 := NoLeak h F3) in *.
    assert (HBf : St !! B = None) by (exact (proj1 (proj2 (MInv_fresh_block _ _ I)))).
    assert (E1 : h_str h1 = <[B := path ++ [0]]> St) by done.
    assert (HB1 : h_str h1 !! B = Some (path ++ [0])) by (rewrite E1; apply lookup_insert).
    assert (R1 : CsReads h1 (CAt B 0) path).
    { unfold CsReads. split; [exact (md_live _ _ _ _ M1)|]. exists (path ++ [0]). rewrite E1, lookup_insert, drop_0. split; [done|].
      split; [apply existsb_zero_app_zero|]. symmetry. by apply cstr_app_zfree. }
    assert (Hdoc3 : doc ∈ nodes F3).
    { apply roots_in_nodes. unfold F3. apply elem_of_app. left. apply elem_of_app. right. by left. }
    (* everything that does not reach an object parent is the never-failing run *)
    assert (Hfail : forall hk blkk st, Mid NL0 B hk F3 -> h_str hk = <[B := blkk]> St -> (h_next h <= h_next hk)%positive ->
      finish_goal_f h G doc (T x dx csx) NL0 (cleanup (Some x) (Some B) st hk) h (Ok (st, reify St doc, None))).
    { intros hk blkk st Mk Ek Hle.
      apply (finish_goal_f_mono _ _ _ _ _ _ hk); [done|].
      exact (finish_goal_f_of _ _ _ _ _ _ _ _ (tail_fail h G doc x dx csx NL0 B hk blkk Mk Ek st)). }
    destruct (PatchDefs.last_slash path 0 None) as [i|] eqn:Els.
    2:{ exists false, false. intros fr ff fd. unfold apply_patch_finish. stp Hgv. cbn [cs_of_ptr]. stp (run_ld_byte0 _ _ _ Rp).
        rewrite ?Epath. rewrite (hd_is_nil _ Hzp), Hnil. cbv iota.
        stp Hgv. stp Hdup. cbn [is_null negb cs_of_ptr]. unfold strrchr_slash. stp (run_ld_cs _ _ _ R1). rewrite bindM_ret.
        rewrite Els. rewrite bindM_ret.
        stp (get_item_from_pointer_refines h1 F3 (md_inv _ _ _ _ M1) doc (CAt B 0) path flag Hdoc3 R1).
        cbn [cs_is_null]. rewrite orb_true_r.
        rewrite finish_add_f_unfold, Hnil. cbn [f_path]. rewrite Els.
        apply (Hfail h1 (path ++ [0]) 9 M1 E1). unfold h1. cbn. lia. }
    pose proof (last_slash_bound _ _ Els) as Hi.
    set (blk2 := take i path ++ 0 :: drop (S i) path ++ [0]).
    assert (Hst : st_byte (CAt B 0) i 0 h1 = Ret (tt, set_str h1 (<[B := blk2]> (h_str h1)))).
    { unfold st_byte. stp (run_ld_str h1 B (path ++ [0]) (md_live _ _ _ _ M1) HB1).
      cbn [Nat.add]. rewrite app_length. cbn [length]. destruct (Nat.ltb_spec i (length path + 1)) as [_|]; [|lia].
      rewrite (upd_split path i Hi). fold blk2.
      apply (run_st_str h1 B (path ++ [0])); [exact (md_live _ _ _ _ M1)|exact HB1|exact (md_own _ _ _ _ M1)|].
      unfold blk2. rewrite !app_length. cbn [length]. rewrite app_length, take_length, drop_length. cbn. lia. }
    set (h2 := set_str h1 (<[B := blk2]> (h_str h1))) in *.
    pose proof (Mid_write NL0 B h1 F3 blk2 M1) as M2. fold h2 in M2.
    assert (E2 : h_str h2 = <[B := blk2]> St) by (unfold h2; cbn [h_str set_str]; by rewrite E1, insert_insert).
    assert (R2 : CsReads h2 (CAt B 0) (take i path)).
    { unfold CsReads. split; [exact (md_live _ _ _ _ M2)|]. exists blk2. rewrite E2, lookup_insert, drop_0. split; [done|].
      split; [apply existsb_zero_app_zero|]. symmetry. apply cstr_app_zfree. by apply zfree_take. }
    assert (R2c : CsReads h2 (CAt B (S i)) (drop (S i) path)).
    { unfold CsReads. split; [exact (md_live _ _ _ _ M2)|]. exists blk2. rewrite E2, lookup_insert. split; [done|]. unfold blk2. rewrite (drop_split_tail path i Hi).
      split; [apply existsb_zero_app_zero|]. symmetry. apply (cstr_app_zfree _ []). by apply zfree_drop. }
    pose proof (md_inv _ _ _ _ M2) as I2.
    assert (Hre2 : forall t, t ∈ nodes F3 -> reify (h_str h2) t = reify St t).
    { intros t Ht. rewrite E2. apply (reify_temp St B blk2 F3 t (mi_own _ _ I) (md_fresh _ _ _ _ M2) Ht). }
    assert (Hle2 : (h_next h <= h_next h2)%positive) by (unfold h2, h1; cbn; lia).
    (* the run up to the tail *)
    assert (Hprefix : apply_patch_finish oracle (Some (tid doc)) (Some pn) (Some x) flag h =
      (parent <~ get_item_from_pointer (Some (tid doc)) (CAt B 0) flag ;;
       if is_null parent || false then cleanup (Some x) (Some B) 9
       else finish_tail_o parent (Some x) (Some B) (CAt B (S i)) flag) h2).
    { unfold apply_patch_finish. stp Hgv. cbn [cs_of_ptr]. stp (run_ld_byte0 _ _ _ Rp).
      rewrite ?Epath. rewrite (hd_is_nil _ Hzp), Hnil. cbv iota.
      stp Hgv. stp Hdup. cbn [is_null negb cs_of_ptr]. unfold strrchr_slash. stp (run_ld_cs _ _ _ R1). rewrite bindM_ret.
      rewrite Els. rewrite !bindM_assoc. stp Hst. rewrite bindM_ret. cbn [cs_plus Nat.add cs_is_null]. reflexivity. }
    rewrite Hprefix. clear Hprefix.
    stp (get_item_from_pointer_refines h2 F3 I2 doc (CAt B 0) (take i path) flag Hdoc3 R2).
    rewrite (Hre2 doc Hdoc3).
    assert (Hshape : forall fp fk fr ff fd, fp = false ->
      finish_add_f (mkFails fr ff fd fp fk) (reify St doc) (reify St (T x dx csx)) path flag =
      match PointerDefs.get_item_from_pointer (reify St doc) (take i path) flag with
      | None => Ok (9, reify St doc, None)
      | Some pp =>
          match Tree.subtree (reify St doc) pp with
          | None => Ok (9, reify St doc, None)
          | Some par =>
              if Tree.is_array par then
                if strcmp (drop (S i) path) PatchDefs.s_dash =? 0 then
                  Ok (0, PatchDefs.put_subtree (reify St doc) pp (v_add_to_array par (reify St (T x dx csx))), None)
                else
                  match PointerDefs.decode_array_index_from_pointer (drop (S i) path) with
                  | None => Ok (11, reify St doc, None)
                  | Some idx =>
                      match v_insert_in_array par idx (reify St (T x dx csx)) with
                      | None => Ok (10, reify St doc, None)
                      | Some par' => Ok (0, PatchDefs.put_subtree (reify St doc) pp par', None)
                      end
                  end
              else if Tree.is_object par then
                buf <- PatchDefs.decode_pointer_inplace (drop (S i) path ++ [0]) ;;
                let par1 := v_delete_from_object par (cstr buf) flag in
                if fk then Ok (0, PatchDefs.put_subtree (reify St doc) pp par1, Some (reify St (T x dx csx)))
                else Ok (0, PatchDefs.put_subtree (reify St doc) pp (v_add_to_object par1 (cstr buf) (reify St (T x dx csx))), None)
              else Ok (9, reify St doc, None)
          end
      end).
    { intros fp fk fr ff fd ->. rewrite finish_add_f_unfold, Hnil. cbn [f_path f_key]. by rewrite Els. }
    destruct (PointerDefs.get_item_from_pointer (reify St doc) (take i path) flag) as [pp|] eqn:Egip; cbn [mbind option_bind].
    2:{ exists false, false. intros fr ff fd. rewrite (Hshape false false fr ff fd eq_refl).
        cbn [fmap option_fmap option_map is_null orb]. exact (Hfail h2 blk2 9 M2 E2 Hle2). }
    assert (Egip2 : PointerDefs.get_item_from_pointer (reify (h_str h2) doc) (take i path) flag = Some pp) by (by rewrite Hre2 by apply Hdoc3).
    destruct (get_item_loop_subtree h2 flag _ _ _ _ Egip2) as [[p d cs] Hsub]. rewrite Hsub. cbn [fmap option_fmap option_map tid is_null orb].
    assert (Hpn' : T p d cs ∈ nodes F3).
    { unfold F3. rewrite nodes_app. apply elem_of_app. left. rewrite nodes_app. apply elem_of_app. right.
      unfold nodes. cbn. rewrite app_nil_r. by eapply subtree_t_nodes. }
    assert (Hsubv : Tree.subtree (reify St doc) pp = Some (reify St (T p d cs))) by (by rewrite reify_subtree, Hsub).
    destruct (Z.land (rd_type d) 255 =? c_cJSON_Array) eqn:Earr.
    - (* array parent: no further request *)
      exists false, false. intros fr ff fd. rewrite (Hshape false false fr ff fd eq_refl), Hsubv.
      unfold Tree.is_array, Tree.is_type, Tree.tymask. change (Tree.n_ty (reify St (T p d cs))) with (rd_type d). rewrite Earr.
      rewrite finish_tail_o_not_object.
      2:{ left. unfold cJSON_IsArray. cbn [is_null]. rewrite (run_is_type h2 F3 I2 p d cs c_cJSON_Array Hpn'). by rewrite Earr. }
      apply Z.eqb_eq in Earr.
      apply (finish_goal_f_mono _ _ _ _ _ _ h2); [done|].
      pose proof (tail_array h G doc x dx csx flag NL0 B h2 blk2 M2 E2 pp p d cs (CAt B (S i)) (drop (S i) path) Hsub R2c Earr) as Ht.
      apply finish_goal_f_of in Ht. change (h_str h) with St in Ht.
      destruct (strcmp (drop (S i) path) PatchDefs.s_dash =? 0); [exact Ht|].
      destruct (PointerDefs.decode_array_index_from_pointer (drop (S i) path)) as [idx|]; [|exact Ht].
      destruct (v_insert_in_array (reify St (T p d cs)) idx (reify St (T x dx csx))); exact Ht.
    - destruct (Z.land (rd_type d) 255 =? c_cJSON_Object) eqn:Eobj.
      + (* object parent: the second request *)
        destruct (tail_object_o h G doc x dx csx flag NL0 B h2 blk2 I M2 E2 pp p d cs (CAt B (S i)) (drop (S i) path) Hsub (S i) eq_refl)
          as [fk Hfk]; [| |exact Earr|exact Eobj|].
        * unfold blk2. rewrite app_length, take_length. cbn. lia.
        * unfold blk2. apply (drop_split_tail path i Hi).
        * exists false, fk. intros fr ff fd. rewrite (Hshape false fk fr ff fd eq_refl), Hsubv.
          unfold Tree.is_array, Tree.is_object, Tree.is_type, Tree.tymask. change (Tree.n_ty (reify St (T p d cs))) with (rd_type d). rewrite Earr, Eobj.
          apply (finish_goal_f_mono _ _ _ _ _ _ h2); [done|]. exact Hfk.
      + (* neither *)
        exists false, false. intros fr ff fd. rewrite (Hshape false false fr ff fd eq_refl), Hsubv.
        unfold Tree.is_array, Tree.is_object, Tree.is_type, Tree.tymask. change (Tree.n_ty (reify St (T p d cs))) with (rd_type d). rewrite Earr, Eobj.
        rewrite finish_tail_o_not_object.
        2:{ right. unfold cJSON_IsArray, cJSON_IsObject. cbn [is_null].
            rewrite (run_is_type h2 F3 I2 p d cs c_cJSON_Array Hpn'), (run_is_type h2 F3 I2 p d cs c_cJSON_Object Hpn'). by rewrite Earr, Eobj. }
        unfold finish_tail, cJSON_IsArray, cJSON_IsObject. cbn [is_null].
        rewrite (bindM_Ret _ _ _ _ _ (run_is_type h2 F3 I2 p d cs c_cJSON_Array Hpn')). rewrite Earr.
        rewrite (bindM_Ret _ _ _ _ _ (run_is_type h2 F3 I2 p d cs c_cJSON_Object Hpn')). rewrite Eobj.
        exact (Hfail h2 blk2 9 M2 E2 Hle2).
  Qed.
End FinishOracle.
