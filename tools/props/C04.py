"""C04 — printing then parsing returns the same value, and printing is stable."""
import random
from .printgen import *

RULE = ('well-formed trees (null, booleans, finite numbers, strings with every escape class and bytes 0x01-0xff, arrays, objects with keys; flag bits set at random) '
        'built node by node, printed formatted and unformatted, re-parsed by the library, printed again; numbers from the %g style-switch boundaries '
        '(1e15, 1e16, 1e-5, 1e-4), 15/17-digit neighbours, DBL_MAX, 5e-324, -0.0, ints around +-2^31, valueint inconsistent with valuedouble, random bit patterns; '
        'cJSON_PrintBuffered with prebuffer in {0,1,len-1,len,len+1,255,256,257} under custom hooks (no realloc) and the default allocator (realloc, via --wrap), '
        'a single failing allocation request k; a dedicated number stream comparing the reference %d/%1.15g/%1.17g/sscanf with glibc; '
        'verdict (python): first text == independent python renderer; re-parsed tree has the same shape, member order, keys and string bytes, every number within '
        '2^-52 relative and exactly equal when integer-valued below 1e15; second-generation text byte-identical; buffered text independent of prebuffer/allocator; '
        'non-trivial = distinct well-formed tree with a number or an escape')
ASSUMPTIONS = ['C locale (decimal point)', 'hand-written transliteration validated by this differential run',
               'glibc printf/scanf/strtod agree with the reference conversions of LibcPrint.v / LibcNum.v (checked on every number in the run)',
               'python % formatting and float() are correctly rounded (used by the verdict)']

def corpus(ctx):
    cs = load_corpus(ctx['verif'], 'C04')
    for c in cs:
        a = c.line.split(' ')
        if a[0] == 'roundtrip':
            t = tree_of_line(c.line, 2); c.info.update({'tree': t, 'fmt': int(a[1]), 'wf': wf_c04(t)})
        elif a[0] == 'print':
            c.info.update({'tree': tree_of_line(c.line, 6), 'fmt': {'P': 1, 'U': 0}.get(a[1], int(a[2])), 'failk': int(a[5])})
    return cs

def wf_c04(t, depth=0):
    """the precondition of C04: printable, finite numbers, valueint = saturated (int)valuedouble (as the parser and the construction API set it)"""
    return printable(t) and finite_tree(t) and all((x.ty & 0xFF) != T_NUMBER or x.vi == sat_int(x.vd) for x in all_nodes(t))

def tree_depth(t): return 1 + max([tree_depth(c) for c in t.ch] or [0])

def generate(ctx):
    rng = random.Random(ctx['seed'] * 4409 + 4)
    quick = ctx['tier'] == 'quick'
    cases = []
    def rt(t, tag, fmts=(0, 1)):
        for fmt in fmts:
            cases.append(Case('roundtrip %d %s' % (fmt, pline(t)), {'tags': [tag, 'roundtrip', 'fmt' if fmt else 'unfmt'], 'tree': t, 'fmt': fmt, 'wf': wf_c04(t)}))
    def buffered(t, tag, pres=None, allocs=('hooks', 'realloc'), failk=0):
        line = pline(t)
        for fmt in (0, 1):
            txt = py_render(t, bool(fmt)); L = len(txt) if txt is not None else 10
            for pre in (pres if pres is not None else [rng.choice([0, 1, L - 1, L, L + 1, 255, 256, 257])]):
                for al in allocs:
                    cfmt = fmt if not fmt or rng.random() < 0.7 else rng.choice([4, 255, 256, -1, 2])    # cJSON_bool is an int: every non-zero value means 'formatted'
                    cases.append(Case('print B %d %d %s %d %s' % (cfmt, max(pre, 0), al, failk, line),
                                      {'tags': [tag, 'buffered', al, 'pre=%s' % ('len%+d' % (pre - L) if abs(pre - L) <= 1 else pre)] + (['failk'] if failk else []),
                                       'tree': t, 'fmt': fmt, 'failk': failk}))
    for i in range(400 if quick else 5000):
        t = rand_tree(rng, depth=rng.choice([1, 2, 3, 4]), wf=True)
        rt(t, 'random-tree', fmts=(0, 1) if i % 2 else (rng.choice([0, 1]),))
        if i % 3 == 0: buffered(t, 'random-tree', allocs=(rng.choice(['hooks', 'realloc']),))
    for i in range(30 if quick else 600):
        rt(rand_tree(rng, depth=rng.choice([1, 2, 3]), wf=False), 'outside-precondition', fmts=(rng.choice([0, 1]),))
    for d in number_stream(rng, 500 if quick else 4000):
        n = num_node(rng, d, consistent=(rng.random() < 0.8)); n.ty = T_NUMBER
        rt(PN(T_ARRAY, ch=[n]), 'number', fmts=(0,))
        cases.append(Case('fmtnum %s' % dtok(d), {'tags': ['libc-number']})) if d == d and abs(d) != float('inf') else None
    for s in STR_BYTES + [rand_bytes(rng, 16) for _ in range(80 if quick else 500)]:
        rt(PN(T_OBJECT, ch=[PN(T_STRING, vs=s, key=s[-5:])]), 'string', fmts=(rng.choice([0, 1]),))
    for t in last_token_trees()[:: (5 if quick else 1)]: rt(t, 'last-token', fmts=(rng.choice([0, 1]),))
    NL = nesting_limit(ctx['repo'])
    for depth, kind in ((10, 0), (30, T_ARRAY), (NL - 1, T_ARRAY), (NL, T_ARRAY)) + (() if quick else ((200, T_ARRAY), (60, T_OBJECT), (NL + 1, T_ARRAY))):
        rt(nested(depth, kind), 'nested', fmts=(0,) if depth > 100 else (0, 1))
    # shallow but WIDE trees: more empty / small containers than the parser's nesting limit (its depth counter must come back after each)
    if ctx.get('seed_index', 0) == 0:
        for unit in (lambda: PN(T_ARRAY), lambda: PN(T_OBJECT), lambda: PN(T_ARRAY, ch=[PN(T_NUMBER, vi=1, vd=1.0)])):
            rt(PN(T_ARRAY, ch=[unit() for _ in range(NL + 3)]), 'wide', fmts=(0,))
    # independence of prebuffer and allocator: every boundary on fixed trees
    fixed = [PN(T_ARRAY, ch=[PN(T_STRING, vs=b'a"\x01\n\xff'), PN(T_NUMBER, vi=1, vd=1.5), PN(T_OBJECT, ch=[PN(T_ARRAY, key=b'k'), PN(T_OBJECT, key=b'')])]),
             PN(T_OBJECT, ch=[PN(T_STRING, vs=b'x' * 250, key=b'long'), PN(T_NUMBER, vi=0, vd=1e-5, key=b'n')]),
             PN(T_STRING, vs=bytes(range(1, 0x100))), PN(T_ARRAY), PN(T_OBJECT), PN(T_NULL), nested(12, 0), PN(T_ARRAY, ch=[PN(T_STRING, vs=b'y' * 254)]),
             PN(T_ARRAY, ch=[PN(T_NUMBER, vi=-1234567, vd=-1234567.8901234567)] * 12 + [PN(T_NUMBER, vi=INT_MIN, vd=-1.7976931348623157e308)])]
    for t in fixed[:: (2 if quick else 1)]:
        L = len(py_render(t, True)); U = len(py_render(t, False))
        buffered(t, 'prebuffer-boundaries', pres=sorted({0, 1, L - 1, L, L + 1, U - 1, U, U + 1, 255, 256, 257}))
    # a single failing request (the refinement speaks about failure-free runs; these keep the growth / shrink error paths in correspondence)
    for t in fixed[:3]:
        for k in range(1, 6): buffered(t, 'alloc-failure', pres=[0, 3], failk=k)
        for k in range(1, 5):
            for al in ('hooks', 'realloc'):
                for e in 'PU':
                    cases.append(Case('print %s 0 0 %s %d %s' % (e, al, k, pline(t)), {'tags': ['alloc-failure', al, 'failk'], 'tree': t, 'fmt': 1 if e == 'P' else 0, 'failk': k}))
    return [c for c in cases if c is not None]

def project(c, out):
    a = c.line.split(' ', 6)
    # runs with a failing allocation request are C08's subject (which request exists depends on the growth policy of the print
    # buffer); here they are judged by the verdict only: NULL with a clean ledger, or the right text
    if a[0] == 'print' and len(a) > 5 and a[5] != '0': return ''
    # the number of allocation requests a print makes is an internal matter (buffer growth policy), not an observable of C04
    return ' '.join(t for t in out.split(' ') if t != 'SPECDIFF' and not t.startswith('reqs=') and not (t.startswith('live=') and c.line.startswith('roundtrip')))

def same_value(n, r, path='$'):
    """n: original node, r: re-parsed node; None or a reason"""
    t = n.ty & 0xFF
    if r.ty != t: return '%s: type %d re-parsed as %d' % (path, t, r.ty)
    if t == T_NUMBER:
        d, e = n.vd, r.vd
        if d == 0 or (d == int(d) and abs(d) < 1e15):
            if e != d: return '%s: number %r re-parsed as %r' % (path, d, e)
        elif not (abs(e - d) <= max(abs(d), abs(e)) * EPS): return '%s: number %r re-parsed as %r (more than one part in 2^52)' % (path, d, e)
    if t == T_STRING and (r.vs or b'') != (n.vs or b''): return '%s: string bytes differ' % path
    if t in (T_ARRAY, T_OBJECT):
        if len(n.ch) != len(r.ch): return '%s: %d children re-parsed as %d' % (path, len(n.ch), len(r.ch))
        for i, (a, b) in enumerate(zip(n.ch, r.ch)):
            if t == T_OBJECT and (b.key or b'') != (a.key or b''): return '%s: key %r re-parsed as %r' % (path, a.key, b.key)
            x = same_value(a, b, '%s[%d]' % (path, i))
            if x: return x
    return None

def verdict(c, out, ctx):
    if is_crash(out): return 'crash / memory error: ' + out
    for t in out.split(' '):
        if t.startswith('LEAK') or t.startswith('DOUBLEFREE') or t.startswith('FOREIGNFREE') or t == 'FOREIGNDAMAGED' or t in ('LINKS=BAD', 'ROOTLINKS'): return 'allocator / structure problem: ' + t
    tree = c.info.get('tree')
    if tree is None: return None
    kind = c.line.split(' ', 1)[0]
    fmt = bool(c.info.get('fmt'))
    exp = py_render(tree, fmt)
    if kind == 'print':
        o = out.split(' ')
        got = None if o[0] == 'NULL' else unhx(o[0])
        if c.info.get('failk'):
            if got is None: return None if 'live=0' in o else 'failed print left blocks allocated (%s)' % out[-30:]
            return None if got == exp and 'live=1' in o else 'print with a failing allocation returned wrong text or wrong ledger'
        if got != exp: return 'buffered print returned %r, expected %r (prebuffer / allocator dependence)' % (got and got[:60], exp and exp[:60])
        if (got is None and 'live=0' not in o) or (got is not None and 'live=1' not in o): return 'ledger after print: ' + out[-30:]
        return None
    if kind != 'roundtrip': return None
    if 'live=0' not in out.split(' '): return 'blocks still allocated after print / parse / print / delete'
    parts = out.split(' | ')
    first = None if parts[0].split(' ')[0] == 'NULL' else unhx(parts[0])
    if first != exp: return 'printed %r, expected %r' % (first and first[:60], exp and exp[:60])
    if not c.info.get('wf') or tree_depth(tree) > nesting_limit(ctx['repo']): return None
    if first is None: return 'printing a well-formed tree failed'
    if len(parts) != 3: return 'malformed output'
    if parts[1].startswith('NULL'): return 'printed text %r does not parse back' % first[:80]
    try: r, _ = parse_dump(parts[1].split(' '))
    except Exception as e: return 'unreadable re-parsed tree: %r' % (e,)
    x = same_value(tree, r)
    if x: return 're-parsed tree differs: ' + x
    second = parts[2].split(' ')[0]
    if second == 'NULL' or unhx(second) != first: return 'second-generation text differs from the first (not a fixed point)'
    return None

def nontrivial(c, out):
    t = c.info.get('tree')
    return t is not None and c.info.get('wf', True) and not is_crash(out) and any((x.ty & 0xFF) in (T_NUMBER, T_STRING) for x in all_nodes(t))
