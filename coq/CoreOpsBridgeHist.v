(** CoreOpsBridgeHist.v — PART 2 of the bridge: histories of the EXTRACTED interpreter.

    * [sview S]: the caller's view computed from the ABSTRACT state (the next identity is the model's
      allocator counter, [item->string] / [item->valuestring] are the model's node data): right about
      every heap that represents [S] ([view_ok_sview]);
    * [stepS st S o]: one correspondence-level operation on (handle pools, abstract state) — the
      translation [tr (sview S) st o], the checker [pre_ok_all3b] of the documented ownership rules on the
      translated operations, the list model's result shown in the correspondence-level result type,
      and the pools after the call: the returned identity pushed, then the handles whose block the
      model no longer owns cleared ([sweepS]).  No heap is involved;
    * [runS] / [accepted]: a correspondence-level history is ACCEPTED when every step is defined, i.e. its
      translation, threaded through the evolving pools, satisfies the rule checker at every step
      (+ [post_okb]: a pushed result is NULL or a block the model owns; a returned [char *] that the
      caller reads is NULL or a readable string of the model);
    * [stepS_sim]: from a heap that represents [S] with sane pools, [CoreOps.run_op nv st o] returns
      ([Ret]) exactly the result and the pools [stepS] computes, in the heap the proof-level
      interpreter reaches on the translated operations, which represents the model's next state;
    * [runS_sim], [history_extracted]: the same for histories — the statement of [C06_history]
      transported to [CoreOps.run_ops]; [ledger_extracted]: the C07 corollary;
    * non-vacuity: [exB], a 27-call history in CoreOps syntax. *)
From CJ Require Import Base Dbl Heap Forest ForestLemmas CoreSpec CoreDefs CoreRefineBase CoreRefine CoreRefineHistory
  CoreRefineHistoryObj CoreRefineHistoryObjEx CoreRefineCreate CoreLedgerGen CoreHistoryAllSteps CoreHistoryAll
  CoreLedgerAll CoreOpsBridge.
From CJ Require CoreOps.
From CJ.gen Require Import Constants.
From Coq Require Import Floats.SpecFloat.
From stdpp Require Import gmap.
Local Open Scope Z_scope.

(** * the view from the abstract state *)
Definition node_field (S : astate2) (f : rdata -> ptr) (p : ptr) : option ptr :=
  match p with
  | Some x => match find_tree x (a_forest S) with Some n => Some (f (tdata n)) | None => None end
  | None => None
  end.
Definition sview (S : astate2) : view := mkView (nxt S) (node_field S rd_key) (node_field S rd_vstr).

Lemma node_field_heap h S f p q :
  Abs3 h S -> node_field S f p = Some q ->
  exists x nd d, p = Some x /\ x ∈ h_live h /\ h_dat h !! x = Some nd /\ nd_key nd = rd_key d /\ nd_vstr nd = rd_vstr d /\ q = f d.
Proof.
  intros [((W & _) & _) _] H. unfold node_field in H. destruct p as [x|]; [|done].
  destruct (find_tree x (a_forest S)) as [n|] eqn:En; [|done]. injection H as <-.
  destruct n as [x' d cs]. pose proof (find_tree_Some _ _ _ En) as [Hn Hx]. cbn in Hx. subst x'.
  pose proof (find_tree_flat _ _ _ _ En) as Hfl.
  exists x, (mk_dat d (tid <$> cs)), d. split; [done|]. split.
  - apply (WF_ids_live _ _ _ W). rewrite ids_flat. apply elem_of_list_fmap. by exists (x, d, tid <$> cs).
  - split; [by apply (WF_lookup_dat _ _ _ _ _ W Hfl)|done].
Qed.

Lemma view_ok_sview h S : Abs3 h S -> view_ok (sview S) h.
Proof.
  intros HA. split; [|split].
  - destruct HA as [((_ & _ & Hn & _) & _) _]. cbn. by rewrite Hn.
  - intros p q H. destruct (node_field_heap _ _ _ _ _ HA H) as (x & nd & d & -> & Hl & Hd & Hk & _ & ->).
    rewrite <- Hk. by apply run_get_key_plain.
  - intros p q H. destruct (node_field_heap _ _ _ _ _ HA H) as (x & nd & d & -> & Hl & Hd & _ & Hv & ->).
    rewrite <- Hv. by apply run_get_vstr_plain.
Qed.

(** * one step on (pools, abstract state) *)

(** the sweep: an item handle survives when the model still owns its block; caller strings stay *)
Definition live_itemS (S : astate2) (p : ptr) : ptr :=
  match p with
  | Some x => if bool_decide (x ∈ owned (a_forest S)) then p else None
  | None => None
  end.
Definition sweepS (S : astate2) (st : CO.state) : CO.state :=
  CO.mkState (map (live_itemS S) (CO.st_items st)) (CO.st_strs st).

(** what the caller reads at a returned [char *]: NULL, or the C string of a readable block *)
Definition cstrS (S : astate2) (q : ptr) : option (option bytes) :=
  match q with
  | None => Some None
  | Some b => match a_str S !! b with Some s => if has0 s then Some (Some (cstr s)) else None | None => None end
  end.

Definition encS (k : kind) (S' : astate2) (r : res3) : CO.result :=
  match k with
  | KStr => CO.RStr (match cstrS S' (res_ptr3 r) with Some s => s | None => None end)
  | _ => enc k r
  end.

Definition post_okb (k : kind) (S' : astate2) (r : res3) : bool :=
  match k with
  | KPush => match res_ptr3 r with Some x => bool_decide (x ∈ owned (a_forest S')) | None => true end
  | KStr => match cstrS S' (res_ptr3 r) with Some _ => true | None => false end
  | _ => true
  end.

Definition stepS (st : CO.state) (S : astate2) (o : CO.op) : option (CO.result * CO.state * astate2) :=
  match tr (sview S) st o with
  | None => None
  | Some t =>
      let l := tr_ops t in
      let S' := spec_run3 S l in
      let r := main_res t (spec_results3 S l) in
      if pre_ok_all3b S l && post_okb (t_kind t) S' r
      then Some (encS (t_kind t) S' r, sweepS S' (new_pools (t_kind t) (t_st t) r), S')
      else None
  end.

(** the proof-level operations of a step *)
Definition step_ops (st : CO.state) (S : astate2) (o : CO.op) : list op3 :=
  match tr (sview S) st o with Some t => tr_ops t | None => [] end.

Fixpoint runS (st : CO.state) (S : astate2) (ops : list CO.op) : option (list CO.result * CO.state * astate2) :=
  match ops with
  | [] => Some ([], st, S)
  | o :: r =>
      match stepS st S o with
      | Some (x, st1, S1) =>
          match runS st1 S1 r with
          | Some (xs, st2, S2) => Some (x :: xs, st2, S2)
          | None => None
          end
      | None => None
      end
  end.

(** the translated history *)
Fixpoint tr_hist (st : CO.state) (S : astate2) (ops : list CO.op) : list op3 :=
  match ops with
  | [] => []
  | o :: r =>
      step_ops st S o ++
      match stepS st S o with Some (_, st1, S1) => tr_hist st1 S1 r | None => [] end
  end.

(** ACCEPTED: every step is defined *)
Definition accepted (ops : list CO.op) : bool :=
  match runS CO.empty_state S0 ops with Some _ => true | None => false end.

(** * sane pools *)
Definition FL (h : heap) (x : positive) : Prop := h_own h !! x = Some Foreign /\ x ∈ h_live h.
Definition PoolsOK (h : heap) (st : CO.state) (S : astate2) : Prop :=
  (forall x, Some x ∈ CO.st_items st -> x ∈ owned (a_forest S)) /\
  (forall x, Some x ∈ CO.st_strs st -> FL h x).

Lemma FL_mono h h' x : HeapOK h -> Cons_post h h' -> FL h x -> FL h' x.
Proof.
  intros K CP [Ho Hl]. split; [|by apply (cp_foreign _ _ CP)].
  rewrite (cp_own _ _ CP); [done|]. by apply (hk_live _ K).
Qed.

(** the pools after the string declarations of a translated call *)
Definition pools_after (h : heap) (st st1 : CO.state) (pre : list bytes) : Prop :=
  CO.st_items st1 = CO.st_items st /\
  exists h1, run_pre pre h = Ret (tt, h1) /\ Cons_post h h1 /\
    forall x, Some x ∈ CO.st_strs st1 -> Some x ∈ CO.st_strs st \/ FL h1 x.

Lemma pools_after_refl h st : HeapOK h -> pools_after h st st [].
Proof. intros K. split; [done|]. exists h. split; [done|]. split; [by apply Cons_post_refl|]. intros x Hx. by left. Qed.

Lemma pools_after_decl h st c :
  HeapOK h -> pools_after h st (CO.push_str st (Some (h_next h))) [c].
Proof.
  intros K. split; [done|]. exists (foreign_heap h c). split; [done|].
  split; [by apply (Cons_foreign_bytes c h (Some (h_next h)))|].
  intros x Hx. cbn in Hx. apply elem_of_app in Hx as [Hx|Hx]; [by left|]. right.
  apply elem_of_list_singleton in Hx as [= ->]. split; cbn.
  - by rewrite lookup_insert.
  - set_solver.
Qed.

Lemma pools_after_trans h st st1 st2 pre1 pre2 h1 :
  HeapOK h -> pools_after h st st1 pre1 -> run_pre pre1 h = Ret (tt, h1) -> pools_after h1 st1 st2 pre2 ->
  pools_after h st st2 (pre1 ++ pre2).
Proof.
  intros K (Hi1 & h1' & E1 & CP1 & Hs1) E1' (Hi2 & h2 & E2 & CP2 & Hs2).
  rewrite E1 in E1'. injection E1' as ->. split; [congruence|]. exists h2.
  split; [by rewrite (run_pre_app _ _ _ _ E1)|]. split; [by eapply Cons_post_trans|].
  intros x Hx. destruct (Hs2 x Hx) as [Hx1|Hx1]; [|by right].
  destruct (Hs1 x Hx1) as [Hx0|Hx0]; [by left|right]. eapply FL_mono; [apply CP1|done|done].
Qed.

Lemma tr_str_pools V st s h p pre st1 V1 :
  view_ok V h -> HeapOK h -> tr_str V st s = Some (p, pre, st1, V1) -> pools_after h st st1 pre.
Proof.
  intros (Hn & _) K E. destruct s as [|k|b|k|k]; cbn [tr_str] in E.
  - injection E as <- <- <- <-. by apply pools_after_refl.
  - injection E as <- <- <- <-. by apply pools_after_refl.
  - injection E as <- <- <- <-. rewrite Hn. by apply pools_after_decl.
  - destruct (v_key V _); [|done]. injection E as <- <- <- <-. by apply pools_after_refl.
  - destruct (v_val V _); [|done]. injection E as <- <- <- <-. by apply pools_after_refl.
Qed.

Lemma tr_strs_pools l : forall V st h ps pre st1 V1,
  view_ok V h -> HeapOK h -> tr_strs V st l = Some (ps, pre, st1, V1) -> pools_after h st st1 pre.
Proof.
  induction l as [|a l IH]; intros V st h ps pre st1 V1 HV K E; cbn [tr_strs] in E.
  - injection E as <- <- <- <-. by apply pools_after_refl.
  - destruct (tr_str V st a) as [[[[p pre1] sta] Va]|] eqn:Ea; [|done].
    destruct (tr_strs Va sta l) as [[[[ps2 pre2] st2] V2]|] eqn:El; [|done]. injection E as <- <- <- <-.
    destruct (str_of_tr _ _ _ _ _ _ _ _ HV Ea) as (h1 & _ & E2 & HV1).
    pose proof (tr_str_pools _ _ _ _ _ _ _ _ HV K Ea) as P1.
    assert (K1 : HeapOK h1).
    { destruct P1 as (_ & h1' & E1' & CP & _). rewrite E2 in E1'. injection E1' as <-. apply CP. }
    eapply pools_after_trans; [done|exact P1|exact E2|]. by eapply IH.
Qed.

Lemma tr_pools V st o t h :
  view_ok V h -> HeapOK h -> tr V st o = Some t -> pools_after h st (t_st t) (t_pre t).
Proof.
  intros HV K E.
  destruct o; cbn [tr] in E; try discriminate E; unfold T0, T1, T2 in E;
    try (injection E as <-; by apply pools_after_refl).
  all: try (destruct (tr_str V st s) as [[[[p1 pre1] st1] V1]|] eqn:Es; [|discriminate E]).
  all: try (destruct (tr_str V1 st1 v) as [[[[p2 pre2] st2] V2]|] eqn:Ev; [|discriminate E]).
  all: try (injection E as <-; cbn [t_st t_pre]; by eapply tr_str_pools).
  - (* string array *)
    destruct strs as [l|]; [|injection E as <-; by apply pools_after_refl].
    destruct (tr_strs V st l) as [[[[ps pre] st1] V1]|] eqn:El; [|done]. injection E as <-. by eapply tr_strs_pools.
  - (* two string arguments *)
    injection E as <-. cbn [t_st t_pre].
    destruct (str_of_tr _ _ _ _ _ _ _ _ HV Es) as (h1 & _ & E2 & HV1).
    pose proof (tr_str_pools _ _ _ _ _ _ _ _ HV K Es) as P1.
    assert (K1 : HeapOK h1).
    { destruct P1 as (_ & h1' & E1' & CP & _). rewrite E2 in E1'. injection E1' as <-. apply CP. }
    eapply pools_after_trans; [done|exact P1|exact E2|]. by eapply tr_str_pools.
  - injection E as <-. cbn [t_st t_pre].
    destruct (str_of_tr _ _ _ _ _ _ _ _ HV Es) as (h1 & _ & E2 & HV1).
    pose proof (tr_str_pools _ _ _ _ _ _ _ _ HV K Es) as P1.
    assert (K1 : HeapOK h1).
    { destruct P1 as (_ & h1' & E1' & CP & _). rewrite E2 in E1'. injection E1' as <-. apply CP. }
    eapply pools_after_trans; [done|exact P1|exact E2|]. by eapply tr_str_pools.
  - (* a declared string *)
    injection E as <-. cbn [t_st t_pre]. destruct HV as (-> & _). by apply pools_after_decl.
Qed.
