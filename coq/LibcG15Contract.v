(** LibcG15Contract.v — the contract [RoundTripNum.LibcRoundTripSpec] holds of the executable
    reference C library (strtod_ref, fmt_d, fmt_g15, fmt_g17, sscanf_lg), with NO clause left as a
    hypothesis: [LibcG17Contract.ref_contract_from_g15_clauses] (clauses S, V, N2, N3, N4z)
    applied to the three "%1.15g" clauses N4 ([LibcG15Stable.ref_g15_stable]), N5a
    ([LibcG15Int.ref_g15_int]) and N5b ([LibcG15Int.ref_g15_exact]). *)
From CJ Require Import Base Dbl LibcNum LibcPrint RoundTripNum LibcG17Contract LibcG15Int LibcG15Stable.

Theorem ref_roundtrip_spec : LibcRoundTripSpec strtod_ref fmt_d fmt_g15 fmt_g17 sscanf_lg.
Proof.
  apply ref_contract_from_g15_clauses.
  - exact ref_g15_stable.
  - exact ref_g15_int.
  - exact ref_g15_exact.
Qed.
