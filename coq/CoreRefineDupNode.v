(** CoreRefineDupNode.v — [cJSON_Duplicate_rec], one node: the structured reading of the body
    ([dup_rec_S], by [reflexivity]), the failure path, and the copy of the fields of one node
    (allocation, scalar fields, valuestring, key) for every allocation oracle. *)
From CJ Require Import Base Dbl Heap Forest ForestLemmas CoreSpec CoreDefs CoreRefineBase CoreRefine CoreRefineDelete
  CoreRefineDupBase CoreRefineDupTree.
From CJ.gen Require Import Constants.
From stdpp Require Import gmap.
From Coq Require Import Lia.

Implicit Types (g h : heap) (i n b : positive) (d : rdata) (ts cs : list tree).

(** the data of the copy of a node with data [d], given its two string pointers *)
Definition cp_data d (v k : ptr) : rdata :=
  mkRD (clear_flag (rd_type d) c_cJSON_IsReference) v (rd_vint d) (rd_vdbl d) k None.

Lemma cp_data_is_ref d v k : is_ref (cp_data d v k) = false.
Proof. unfold is_ref. cbn [cp_data rd_type]. apply clear_ref_is_ref. Qed.
Lemma cp_data_is_const d v k : is_const (cp_data d v k) = is_const d.
Proof. unfold is_const. cbn [cp_data rd_type]. apply clear_ref_is_const. Qed.
Lemma cp_data_owned d v k :
  owned_strs (cp_data d v k) = opt_list v ++ (if is_const d then [] else opt_list k).
Proof. unfold owned_strs. rewrite cp_data_is_ref, cp_data_is_const. reflexivity. Qed.

(** * the partial copy without children *)
Lemma Partial_leaf_intro g gc n d :
  Ext [n] (owned_strs d) g gc -> NoDup (n :: owned_strs d) ->
  nd_at gc n (mk_dat d []) -> lk_at gc n (None, None) -> is_ref d = false -> rd_ref d = None ->
  Partial g gc n d [].
Proof.
  intros Fr ND Hn Hl R1 R2. constructor; cbn; try done.
  - by rewrite app_nil_r.
  - by rewrite app_nil_r.
  - apply Chain_ok_nil.
Qed.
Lemma Partial_leaf_frame g gc n d : Partial g gc n d [] -> Ext [n] (owned_strs d) g gc.
Proof. intros P. pose proof (pa_frame _ _ _ _ _ P) as H. cbn in H. by rewrite app_nil_r in H. Qed.
Lemma Partial_leaf_nodup g gc n d : Partial g gc n d [] -> NoDup (n :: owned_strs d).
Proof. intros P. pose proof (pa_nodup _ _ _ _ _ P) as H. cbn in H. by rewrite app_nil_r in H. Qed.

Lemma Partial_alloc g : Closed g -> Partial g (alloc_node_h g) (h_next g) rd0 [].
Proof.
  intros C. apply Partial_leaf_intro.
  - apply (Ext_alloc_node g C).
  - apply NoDup_singleton.
  - split; cbn; [set_solver|by rewrite lookup_insert].
  - split; cbn; [set_solver|by rewrite lookup_insert].
  - reflexivity.
  - reflexivity.
Qed.

Lemma Partial_set_dat g gc n d d' :
  Partial g gc n d [] -> owned_strs d' = owned_strs d -> is_ref d' = false -> rd_ref d' = None ->
  Partial g (set_dat gc (<[n := mk_dat d' []]> (h_dat gc))) n d' [].
Proof.
  intros P Ho R1 R2. apply Partial_leaf_intro.
  - rewrite Ho. apply Ext_st_dat; [by apply Partial_leaf_frame|by left].
  - rewrite Ho. by eapply Partial_leaf_nodup.
  - apply nd_at_set_dat_eq; [apply (pa_node _ _ _ _ _ P)|by rewrite lookup_insert].
  - apply lk_at_set_dat, P.
  - done.
  - done.
Qed.

Lemma Ext_bump_r ns ss g gc : Ext ns ss g gc -> Ext ns ss g (bump gc).
Proof.
  intros Fr. pose proof (Ext_trans _ _ _ _ _ _ _ Fr (Ext_bump gc (xt_closed _ _ _ _ Fr))) as H.
  by rewrite !app_nil_r in H.
Qed.
Lemma Partial_bump g gc n d : Partial g gc n d [] -> Partial g (bump gc) n d [].
Proof.
  intros P. apply Partial_leaf_intro.
  - apply Ext_bump_r. by apply Partial_leaf_frame.
  - by eapply Partial_leaf_nodup.
  - apply (pa_node _ _ _ _ _ P).
  - apply (pa_root _ _ _ _ _ P).
  - apply (pa_refd _ _ _ _ _ P).
  - apply (pa_refd _ _ _ _ _ P).
Qed.

(** a new string block, stored into the node *)
Lemma Partial_add_str g gc n d d' s :
  Partial g gc n d [] -> owned_strs d' ≡ₚ h_next gc :: owned_strs d -> is_ref d' = false -> rd_ref d' = None ->
  Partial g (set_dat (alloc_str_h gc s) (<[n := mk_dat d' []]> (h_dat gc))) n d' [].
Proof.
  intros P Ho R1 R2. pose proof (Partial_leaf_frame _ _ _ _ P) as Fr.
  pose proof (Ext_trans _ _ _ _ _ _ _ Fr (Ext_alloc_str gc s (xt_closed _ _ _ _ Fr))) as Fr2.
  apply Partial_leaf_intro; [| | | |done|done].
  - apply (Ext_ext ([n] ++ []) (owned_strs d ++ [h_next gc])).
    + intros k. by rewrite app_nil_r.
    + intros k. rewrite Ho. rewrite elem_of_app, elem_of_cons. set_solver.
    + apply (Ext_st_dat _ _ _ (alloc_str_h gc s)); [done|]. by left.
  - rewrite Ho. pose proof (Partial_leaf_nodup _ _ _ _ P) as ND.
    apply NoDup_cons in ND as [ND1 ND2]. apply NoDup_cons. split; [|apply NoDup_cons; split; [|done]].
    + intros Hin. apply elem_of_cons in Hin as [->|Hin]; [|done].
      destruct (xt_new _ _ _ _ Fr (h_next gc)) as (_ & ? & _); [by left|lia].
    + intros Hin. destruct (xt_new _ _ _ _ Fr (h_next gc)) as (_ & ? & _); [by right|lia].
  - destruct (pa_node _ _ _ _ _ P) as [Hl _]. split; cbn; [set_solver|by rewrite lookup_insert].
  - destruct (pa_root _ _ _ _ _ P) as [Hl Hk]. split; cbn; [set_solver|done].
Qed.

Section Dup.
  Variable oracle : nat -> bool.

  (** the requests between two heaps *)
  Definition ofail g g' : Prop := exists j, h_req g <= j < h_req g' /\ oracle j = true.
  Definition oclean g g' : Prop := forall j, h_req g <= j < h_req g' -> oracle j = false.

  Lemma oclean_refl g : oclean g g.
  Proof. intros j Hj. lia. Qed.
  Lemma oclean_step g gc gc' :
    oclean g gc -> oracle (h_req gc) = false -> h_req gc' = S (h_req gc) -> oclean g gc'.
  Proof.
    intros Hc Ho Hr j Hj. destruct (decide (j = h_req gc)) as [->|Hne]; [done|]. apply Hc. lia.
  Qed.
  Lemma oclean_same g gc gc' : oclean g gc -> h_req gc' = h_req gc -> oclean g gc'.
  Proof. intros Hc Hr j Hj. apply Hc. lia. Qed.
  Lemma oclean_trans g g1 g2 : oclean g g1 -> oclean g1 g2 -> oclean g g2.
  Proof. intros H1 H2 j Hj. destruct (decide (j < h_req g1)); [apply H1|apply H2]; lia. Qed.

  (** * the structured body *)
  Definition dup_fail (newitem : ptr) : M ptr :=
    when (negb (is_null newitem)) (cJSON_Delete newitem) ;;; ret None.

  Section Loop.
    Variable rec : ptr -> M ptr.
    Variable newitem : ptr.
    Variable depth : Z.
    Fixpoint dup_loop (lf : nat) (child next newchild : ptr) {struct lf} : M (bool * ptr) :=
      match lf with
      | O => fail NoFuel
      | S lf' =>
          if is_null child then ret (true, newchild) else
          if (c_CJSON_CIRCULAR_LIMIT <=? depth)%Z then ret (false, newchild) else
          newchild' <~ rec child ;;
          if is_null newchild' then ret (false, newchild') else
          (if negb (is_null next) then
             set_next next newchild' ;;;
             set_prev newchild' next
           else
             set_child newitem newchild') ;;;
          child' <~ get_next child ;;
          dup_loop lf' child' newchild' newchild'
      end.
  End Loop.

  Definition dup_k3 (rec : ptr -> M ptr) (lfuel : nat) (item : ptr) (depth : Z) (recurse : bool) (newitem : ptr) : M ptr :=
    if negb recurse then ret newitem else
    child <~ get_child item ;;
    r <~ dup_loop rec newitem depth lfuel child None None ;;
    let '(ok3, newchild) := r in
    if negb ok3 then dup_fail newitem else
    nc <~ get_child newitem ;;
    when (negb (is_null nc)) (nc2 <~ get_child newitem ;; set_prev nc2 newchild) ;;;
    ret newitem.
  Definition dup_k2 (K : M ptr) (item newitem : ptr) : M ptr :=
    ik <~ get_key item ;;
    ok2 <~ (if is_null ik then ret true else
              t2 <~ get_type item ;;
              k <~ (if has_flag t2 c_cJSON_StringIsConst then get_key item
                    else ik2 <~ get_key item ;; cJSON_strdup oracle ik2) ;;
              set_key newitem k ;;;
              nk <~ get_key newitem ;;
              ret (negb (is_null nk))) ;;
    if negb ok2 then dup_fail newitem else K.
  Definition dup_k1 (K : M ptr) (item newitem : ptr) : M ptr :=
    ivs <~ get_vstr item ;;
    ok1 <~ (if is_null ivs then ret true else
              ivs2 <~ get_vstr item ;;
              c <~ cJSON_strdup oracle ivs2 ;;
              set_vstr newitem c ;;;
              nvs <~ get_vstr newitem ;;
              ret (negb (is_null nvs))) ;;
    if negb ok1 then dup_fail newitem else K.
  Definition dup_k0 (K : M ptr) (item newitem : ptr) : M ptr :=
    t <~ get_type item ;;
    set_type newitem (clear_flag t c_cJSON_IsReference) ;;;
    vi <~ get_vint item ;;
    set_vint newitem vi ;;;
    vd <~ get_vdbl item ;;
    set_vdbl newitem vd ;;;
    K.

  Lemma dup_rec_S df lfuel item depth recurse :
    cJSON_Duplicate_rec oracle (S df) lfuel item depth recurse =
    if is_null item then dup_fail None else
    newitem <~ cJSON_New_Item oracle ;;
    if is_null newitem then dup_fail newitem else
    dup_k0 (dup_k1 (dup_k2 (dup_k3 (fun c => cJSON_Duplicate_rec oracle df lfuel c (depth + 1) true)
                                   lfuel item depth recurse newitem)
                           item newitem) item newitem) item newitem.
  Proof. reflexivity. Qed.

  (** * the failure path: the partial copy is released, the heap is as before *)
  Lemma dup_fail_sim g gc n d tcs :
    Partial g gc n d tcs ->
    exists g', dup_fail (Some n) gc = Ret (None, g') /\ Ext [] [] g g' /\ h_req g' = h_req gc.
  Proof.
    intros P. destruct (Partial_delete _ _ _ _ _ P) as [Hrun Hfr].
    exists (free_all (free_order [T n d tcs]) gc). split; [|split; [done|apply fa_req]].
    unfold dup_fail. cbn [is_null negb when]. by rewrite (bindM_Ret _ _ _ _ _ Hrun).
  Qed.

  (** * the scalar fields *)
  Ltac mn := cbv beta; rewrite ?bindM_assoc.

  Lemma dup_k0_sim (K : M ptr) g gc item n d (ks : list positive) :
    Partial g gc n rd0 [] -> nd_at g item (mk_dat d ks) ->
    exists gc0, dup_k0 K (Some item) (Some n) gc = K gc0 /\
      Partial g gc0 n (cp_data d None None) [] /\ h_req gc0 = h_req gc.
  Proof.
    intros P Hsrc. pose proof (Partial_leaf_frame _ _ _ _ P) as Fr.
    assert (Hne : item <> n).
    { destruct Hsrc as [Hl _]. destruct (Ext_old _ _ _ _ _ Fr Hl) as [Hn _]. intros ->. apply Hn. by left. }
    pose proof (nd_at_frame _ _ _ _ _ _ Fr Hsrc) as Hi.
    pose proof (pa_node _ _ _ _ _ P) as Hn. change (mk_dat rd0 (tid <$> [])) with nd0 in Hn.
    unfold dup_k0.
    rewrite (bindM_Ret _ _ _ _ _ (run_get_type_plain _ _ _ (proj1 Hi) (proj2 Hi))).
    rewrite (bindM_Ret _ _ _ _ _ (run_set_type_plain _ _ _ _ (proj1 Hn) (proj2 Hn))).
    set (x1 := nd_set_type nd0 _). set (h1 := set_dat gc _).
    assert (Hi1 : nd_at h1 item (mk_dat d ks)) by (by apply nd_at_set_dat_ne).
    assert (Hn1 : nd_at h1 n x1) by (apply nd_at_set_dat_eq; [apply Hn|by rewrite lookup_insert]).
    rewrite (bindM_Ret _ _ _ _ _ (run_get_vint_plain _ _ _ Hi1)).
    rewrite (bindM_Ret _ _ _ _ _ (run_set_vint_plain _ _ _ _ Hn1)).
    set (x2 := nd_set_vint x1 _). set (h2 := set_dat h1 _).
    assert (Hi2 : nd_at h2 item (mk_dat d ks)) by (by apply nd_at_set_dat_ne).
    assert (Hn2 : nd_at h2 n x2) by (apply nd_at_set_dat_eq; [apply Hn|by rewrite lookup_insert]).
    rewrite (bindM_Ret _ _ _ _ _ (run_get_vdbl_plain _ _ _ Hi2)).
    rewrite (bindM_Ret _ _ _ _ _ (run_set_vdbl_plain _ _ _ _ Hn2)).
    exists (set_dat gc (<[n := mk_dat (cp_data d None None) []]> (h_dat gc))). split; [|split].
    - f_equal. unfold h2, h1. rewrite !set_dat_set_dat. cbn [h_dat set_dat upd_maps]. by rewrite !insert_insert.
    - apply (Partial_set_dat _ _ _ rd0); [done| |apply cp_data_is_ref|reflexivity].
      rewrite cp_data_owned. cbn. by destruct (is_const d).
    - reflexivity.
  Qed.

  Definition str_mono h h' : Prop := forall b s, str_is h b s -> str_is h' b s.

  (** * valuestring *)
  Lemma dup_k1_sim (K : M ptr) g gc lf item n d (ks : list positive) :
    Partial g gc n (cp_data d None None) [] -> src_node g lf item d ks -> oclean g gc ->
    (exists g', dup_k1 K (Some item) (Some n) gc = Ret (None, g') /\ Ext [] [] g g' /\ ofail g g') \/
    (exists v gc1, dup_k1 K (Some item) (Some n) gc = K gc1 /\
       Partial g gc1 n (cp_data d v None) [] /\ oclean g gc1 /\
       match rd_vstr d with
       | None => v = None
       | Some b => exists b', v = Some b' /\ str_copy gc1 b b'
       end).
  Proof.
    intros P Hsrc Hcl. pose proof (Partial_leaf_frame _ _ _ _ P) as Fr.
    pose proof (src_node_mono _ _ _ _ _ _ (pt_mono_frame _ _ _ _ Fr) Hsrc) as (Hi & _ & Hvs & _).
    pose proof (pa_node _ _ _ _ _ P) as Hn. change (tid <$> []) with (@nil positive) in Hn.
    set (d0 := cp_data d None None) in *.
    unfold dup_k1.
    rewrite (bindM_Ret _ _ _ _ _ (run_get_vstr_plain _ _ _ (proj1 Hi) (proj2 Hi))).
    change (nd_vstr (mk_dat d ks)) with (rd_vstr d).
    destruct (rd_vstr d) as [b|] eqn:Ev.
    2:{ right. exists None, gc. split; [reflexivity|]. done. }
    cbn [is_null]. mn.
    rewrite (bindM_Ret _ _ _ _ _ (run_get_vstr_plain _ _ _ (proj1 Hi) (proj2 Hi))).
    change (nd_vstr (mk_dat d ks)) with (rd_vstr d). rewrite Ev. mn.
    destruct (Hvs b eq_refl) as (s & Hs & Hz).
    destruct (oracle (h_req gc)) eqn:Ho.
    - left. rewrite (bindM_Ret _ _ _ _ _ (run_strdup_fail oracle _ _ _ Hs Hz Ho)). mn.
      assert (Hnb : nd_at (bump gc) n (mk_dat d0 [])) by exact Hn.
      rewrite (bindM_Ret _ _ _ _ _ (run_set_vstr_plain _ _ _ None (proj1 Hnb) (proj2 Hnb))). mn.
      change (nd_set_vstr (mk_dat d0 []) None) with (mk_dat d0 []).
      pose proof (Partial_set_dat _ _ _ _ d0 (Partial_bump _ _ _ _ P) eq_refl (cp_data_is_ref _ _ _) eq_refl) as P2.
      set (h2 := set_dat (bump gc) _) in *.
      pose proof (pa_node _ _ _ _ _ P2) as Hn2.
      rewrite (bindM_Ret _ _ _ _ _ (run_get_vstr_plain _ _ _ (proj1 Hn2) (proj2 Hn2))).
      unfold ret at 1. unfold bindM at 1. cbn [mk_dat nd_vstr d0 cp_data rd_vstr is_null negb].
      destruct (dup_fail_sim _ _ _ _ _ P2) as (g' & Hrun & Hfr & Hreq).
      exists g'. split; [exact Hrun|]. split; [done|].
      exists (h_req gc). split; [|done]. pose proof (xt_req _ _ _ _ Fr). rewrite Hreq. cbn. lia.
    - right. rewrite (bindM_Ret _ _ _ _ _ (run_strdup_ok oracle _ _ _ Hs Hz Ho)). mn.
      set (b' := h_next gc). set (ha := alloc_str_h gc _).
      assert (Hna : nd_at ha n (mk_dat d0 [])).
      { destruct Hn as [H1 H2]. split; [|exact H2]. cbn. set_solver. }
      rewrite (bindM_Ret _ _ _ _ _ (run_set_vstr_plain _ _ _ (Some b') (proj1 Hna) (proj2 Hna))). mn.
      change (nd_set_vstr (mk_dat d0 []) (Some b')) with (mk_dat (cp_data d (Some b') None) []).
      assert (P2 : Partial g (set_dat ha (<[n := mk_dat (cp_data d (Some b') None) []]> (h_dat gc))) n
                     (cp_data d (Some b') None) []).
      { apply (Partial_add_str _ _ _ d0); [done| |apply cp_data_is_ref|done].
        unfold d0. rewrite !cp_data_owned. cbn [opt_list]. by destruct (is_const d). }
      change (h_dat ha) with (h_dat gc). set (h2 := set_dat ha _) in *.
      pose proof (pa_node _ _ _ _ _ P2) as Hn2.
      rewrite (bindM_Ret _ _ _ _ _ (run_get_vstr_plain _ _ _ (proj1 Hn2) (proj2 Hn2))).
      exists (Some b'), h2. split; [reflexivity|]. split; [done|]. split.
      + eapply oclean_step; [exact Hcl|exact Ho|reflexivity].
      + exists b'. split; [done|]. exists s. split.
        * apply str_is_set_dat. eapply str_is_frame; [|exact Hs]. apply Ext_alloc_str. apply Fr.
        * split; cbn; [set_solver|by rewrite lookup_insert].
  Qed.

  (** * key *)
  Lemma dup_k2_sim (K : M ptr) g gc lf item n d (ks : list positive) v :
    Partial g gc n (cp_data d v None) [] -> src_node g lf item d ks -> oclean g gc ->
    (exists g', dup_k2 K (Some item) (Some n) gc = Ret (None, g') /\ Ext [] [] g g' /\ ofail g g') \/
    (exists k gc2, dup_k2 K (Some item) (Some n) gc = K gc2 /\
       Partial g gc2 n (cp_data d v k) [] /\ oclean g gc2 /\ str_mono gc gc2 /\
       match rd_key d with
       | None => k = None
       | Some b => if is_const d then k = Some b else exists b', k = Some b' /\ str_copy gc2 b b'
       end).
  Proof.
    intros P Hsrc Hcl. pose proof (Partial_leaf_frame _ _ _ _ P) as Fr.
    pose proof (src_node_mono _ _ _ _ _ _ (pt_mono_frame _ _ _ _ Fr) Hsrc) as (Hi & _ & _ & Hkr).
    pose proof (pa_node _ _ _ _ _ P) as Hn. change (tid <$> []) with (@nil positive) in Hn.
    set (d0 := cp_data d v None) in *.
    unfold dup_k2.
    rewrite (bindM_Ret _ _ _ _ _ (run_get_key_plain _ _ _ (proj1 Hi) (proj2 Hi))).
    change (nd_key (mk_dat d ks)) with (rd_key d).
    destruct (rd_key d) as [b|] eqn:Ek.
    2:{ right. exists None, gc. split; [reflexivity|]. split_and!; [done|done|by intros ? ? ?|done]. }
    cbn [is_null]. mn.
    rewrite (bindM_Ret _ _ _ _ _ (run_get_type_plain _ _ _ (proj1 Hi) (proj2 Hi))).
    change (nd_type (mk_dat d ks)) with (rd_type d). rewrite has_flag_is_const. mn.
    destruct (is_const d) eqn:Hc.
    { (* constant key: shared *)
      right. rewrite (bindM_Ret _ _ _ _ _ (run_get_key_plain _ _ _ (proj1 Hi) (proj2 Hi))).
      change (nd_key (mk_dat d ks)) with (rd_key d). rewrite Ek. mn.
      rewrite (bindM_Ret _ _ _ _ _ (run_set_key_plain _ _ _ (Some b) (proj1 Hn) (proj2 Hn))). mn.
      change (nd_set_key (mk_dat d0 []) (Some b)) with (mk_dat (cp_data d v (Some b)) []).
      assert (P2 : Partial g (set_dat gc (<[n := mk_dat (cp_data d v (Some b)) []]> (h_dat gc))) n
                     (cp_data d v (Some b)) []).
      { apply (Partial_set_dat _ _ _ d0); [done| |apply cp_data_is_ref|done].
        unfold d0. rewrite !cp_data_owned. by rewrite Hc. }
      set (h2 := set_dat gc _) in *.
      pose proof (pa_node _ _ _ _ _ P2) as Hn2.
      rewrite (bindM_Ret _ _ _ _ _ (run_get_key_plain _ _ _ (proj1 Hn2) (proj2 Hn2))).
      exists (Some b), h2. split; [reflexivity|]. split; [done|]. split; [|split; [|done]].
      - eapply oclean_same; [exact Hcl|reflexivity].
      - intros b0 s0 H0. by apply str_is_set_dat. }
    mn. rewrite (bindM_Ret _ _ _ _ _ (run_get_key_plain _ _ _ (proj1 Hi) (proj2 Hi))).
    change (nd_key (mk_dat d ks)) with (rd_key d). rewrite Ek. mn.
    destruct (Hkr b eq_refl eq_refl) as (s & Hs & Hz).
    destruct (oracle (h_req gc)) eqn:Ho.
    - left. rewrite (bindM_Ret _ _ _ _ _ (run_strdup_fail oracle _ _ _ Hs Hz Ho)). mn.
      assert (Hnb : nd_at (bump gc) n (mk_dat d0 [])) by exact Hn.
      rewrite (bindM_Ret _ _ _ _ _ (run_set_key_plain _ _ _ None (proj1 Hnb) (proj2 Hnb))). mn.
      change (nd_set_key (mk_dat d0 []) None) with (mk_dat d0 []).
      pose proof (Partial_set_dat _ _ _ _ d0 (Partial_bump _ _ _ _ P) eq_refl (cp_data_is_ref _ _ _) eq_refl) as P2.
      set (h2 := set_dat (bump gc) _) in *.
      pose proof (pa_node _ _ _ _ _ P2) as Hn2.
      rewrite (bindM_Ret _ _ _ _ _ (run_get_key_plain _ _ _ (proj1 Hn2) (proj2 Hn2))).
      unfold ret at 1. unfold bindM at 1. cbn [mk_dat nd_key d0 cp_data rd_key is_null negb].
      destruct (dup_fail_sim _ _ _ _ _ P2) as (g' & Hrun & Hfr & Hreq).
      exists g'. split; [exact Hrun|]. split; [done|].
      exists (h_req gc). split; [|done]. pose proof (xt_req _ _ _ _ Fr). rewrite Hreq. cbn. lia.
    - right. rewrite (bindM_Ret _ _ _ _ _ (run_strdup_ok oracle _ _ _ Hs Hz Ho)). mn.
      set (b' := h_next gc). set (ha := alloc_str_h gc _).
      assert (Hna : nd_at ha n (mk_dat d0 [])).
      { destruct Hn as [H1 H2]. split; [|exact H2]. cbn. set_solver. }
      rewrite (bindM_Ret _ _ _ _ _ (run_set_key_plain _ _ _ (Some b') (proj1 Hna) (proj2 Hna))). mn.
      change (nd_set_key (mk_dat d0 []) (Some b')) with (mk_dat (cp_data d v (Some b')) []).
      assert (P2 : Partial g (set_dat ha (<[n := mk_dat (cp_data d v (Some b')) []]> (h_dat gc))) n
                     (cp_data d v (Some b')) []).
      { apply (Partial_add_str _ _ _ d0); [done| |apply cp_data_is_ref|done].
        unfold d0. rewrite !cp_data_owned. rewrite Hc. cbn [opt_list]. rewrite app_nil_r.
        symmetry. apply Permutation_cons_append. }
      change (h_dat ha) with (h_dat gc). set (h2 := set_dat ha _) in *.
      pose proof (pa_node _ _ _ _ _ P2) as Hn2.
      rewrite (bindM_Ret _ _ _ _ _ (run_get_key_plain _ _ _ (proj1 Hn2) (proj2 Hn2))).
      assert (Hmono : str_mono gc h2).
      { intros b0 s0 H0. apply str_is_set_dat. eapply str_is_frame; [|exact H0]. apply Ext_alloc_str. apply Fr. }
      exists (Some b'), h2. split; [reflexivity|]. split; [done|]. split; [|split; [done|]].
      + eapply oclean_step; [exact Hcl|exact Ho|reflexivity].
      + exists b'. split; [done|]. exists s. split; [by apply Hmono|].
        split; cbn; [set_solver|by rewrite lookup_insert].
  Qed.
End Dup.
