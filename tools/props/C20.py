"""C20 — Independent trees can be used from different threads concurrently."""
import os, re, subprocess, time
from .common import *

MODEL_FILES = 'Threads.v (generic interleaving theorem), ThreadsInst.v (library calls as the Coq models define them), SourceChecks.v over gen/SourceFacts.v'
RULE = ('harness/threads_driver.c built with -fsanitize=thread from the current sources: 8 threads x seeded private call sequences (parse with and without '
        'return_parse_end on valid and malformed private texts, the four print variants, duplicate, compare, edits, minify, JSON patch and merge patch round '
        'trips, sort, pointers, setters, delete), custom thread-safe hooks installed before start and default allocator; each thread folds every result into '
        'a digest; the digests of the concurrent run are compared with those of the same sequences run alone; ThreadSanitizer reports on any location other '
        'than the documented global error position are violations; an evaluation = one (seed, hook configuration) pair, non-trivial = all threads completed all steps')
ASSUMPTIONS = ['the global error pointer is not consulted, hooks are installed before the threads start, the locale is not changed',
               'C11 data-race-freedom: call-granularity interleaving is adequate when no two threads touch a common location (not formalised)',
               'ThreadSanitizer observes the schedules that actually occur on this machine; it does not enumerate all interleavings']
TRUSTED_EXTRA = ['ThreadSanitizer runtime of gcc 12 (libtsan)', 'POSIX thread-safety of the listed libc functions (SourceChecks.thread_safe_libc)']

def corpus(ctx): return []
def generate(ctx): return []
def project(c, out): return out
def verdict(c, out, ctx): return None
def nontrivial(c, out): return False

def extra_checks(ctx):
    tmp, repo, verif = ctx['tmp'], ctx['repo'], ctx['verif']
    exe = os.path.join(tmp, 'threads_tsan')
    t0 = time.time()
    rc, out = ctx['sh']('gcc -O1 -g -fsanitize=thread -DENABLE_LOCALES -DCJSON_VERIF -I%s %s/harness/threads_driver.c %s/cJSON.c %s/cJSON_Utils.c -lm -lpthread -o %s'
                        % (repo, verif, repo, repo, exe), timeout=600)
    if rc != 0: raise RuntimeError('cannot build the thread driver: ' + out[-2000:])
    ctx['log'].append('tsan build: %.1fs' % (time.time() - t0))
    quick = ctx['tier'] == 'quick'
    rp = ctx.get('replay') or {}
    if rp.get('detail', {}).get('seed') is not None:
        runs = [(rp['detail']['seed'], rp['detail']['hooks'])]
    else:
        seeds = [ctx['seed'] * 1000 + k for k in range(3 if quick else 24)]
        runs = [(s, h) for s in seeds for h in ('custom', 'default')]
    nthreads, steps = 8, (20000 if quick else 60000)
    violations = []; samples = []; ok_runs = 0; races_seen = {}
    env = dict(os.environ); env['TSAN_OPTIONS'] = 'halt_on_error=0 report_bugs=1 exitcode=0 history_size=4'
    for seed, hooks in runs:
        def run(mode):
            p = subprocess.run([exe, str(seed), str(nthreads), str(steps), mode, hooks], stdout=subprocess.PIPE, stderr=subprocess.PIPE, env=env, timeout=1200)
            return p.returncode, p.stdout.decode(errors='replace'), p.stderr.decode(errors='replace')
        rc_c, out_c, err_c = run('concurrent'); rc_a, out_a, err_a = run('alone')
        dig_c = [l for l in out_c.splitlines() if l.startswith('T')]; dig_a = [l for l in out_a.splitlines() if l.startswith('T')]
        detail = {'seed': seed, 'hooks': hooks, 'threads': nthreads, 'steps': steps,
                  'cmd': 'threads_driver %d %d %d concurrent|alone %s' % (seed, nthreads, steps, hooks)}
        if rc_c != 0 or rc_a != 0 or len(dig_c) != nthreads or len(dig_a) != nthreads:
            violations.append({'kind': 'thread-run-crash', 'has_input': True, 'detail': dict(detail, rc=[rc_c, rc_a], stderr=(err_c + err_a)[-3000:]),
                               'why': 'the concurrent (or alone) run of the private call sequences crashed or did not complete'})
            continue
        if dig_c != dig_a:
            bad = [a.split()[0] for a, b in zip(dig_c, dig_a) if a != b]
            violations.append({'kind': 'result-differs-from-alone', 'has_input': True, 'detail': dict(detail, threads_differing=bad, concurrent=dig_c, alone=dig_a),
                               'why': 'threads %s obtained results that differ from running alone (private parse ends / texts / flags depend on another thread)' % ','.join(bad)})
        # ThreadSanitizer: every reported race must be on the documented global error position
        for rep in re.split(r'={18}\n', err_c):
            if 'WARNING: ThreadSanitizer' not in rep: continue
            m = re.search(r"Location is (.*)", rep)
            loc = m.group(1) if m else 'unknown location'
            if "global 'global_error'" in loc: races_seen['global_error (documented)'] = races_seen.get('global_error (documented)', 0) + 1; continue
            key = re.sub(r'0x[0-9a-f]+', '', loc)
            races_seen[key] = races_seen.get(key, 0) + 1
            violations.append({'kind': 'data-race', 'has_input': True, 'detail': dict(detail, report=rep[:3000]),
                               'why': 'ThreadSanitizer: conflicting unsynchronised accesses to ' + loc})
        hk = [l for l in out_a.splitlines() if l.startswith('HOOKS')]
        if hk:
            m = re.match(r'HOOKS allocs=(\d+) frees=(\d+)', hk[0])
            if m and m.group(1) != m.group(2):
                violations.append({'kind': 'leak', 'has_input': True, 'detail': dict(detail, hooks_line=hk[0]), 'why': 'blocks obtained through the hooks were not all released: ' + hk[0]})
        ok_runs += 1
        if len(samples) < 4: samples.append({'run': detail['cmd'], 'digests': dig_c[:3]})
    # keep one violation per kind/location
    seen = set(); uniq = []
    for v in violations:
        k = (v['kind'], v['why'][:120])
        if k not in seen: seen.add(k); uniq.append(v)
    return {'violations': uniq[:3],
            'coverage': {'evaluations': len(runs), 'distinct_nontrivial': ok_runs, 'traces_validated_against_impl': ok_runs - len([v for v in uniq if v['kind'] != 'leak']) if ok_runs else 0,
                         'samples': samples, 'thread_calls_executed': len(runs) * nthreads * steps * 2, 'tsan_locations': races_seen}}
