(** Properties_C18_Heap.v (companion of Properties_C18.v) — property C18 for the HEAP-LEVEL code: a whole
    utility, not a primitive.  Only statements closed by [exact].

    Properties_C18.v is about MergeDefs.v, the VALUE-level transliteration of [merge_patch] (DESIGN 5.6, Tier B),
    which presupposes that the cJSON.c primitives act on values like list functions; Properties_C16_TierBridge.v
    proves that presupposition primitive by primitive.  Here the control flow of the utility itself is no
    longer presupposed: MergeHeapDefs.v transliterates [merge_patch], [cJSONUtils_MergePatch] and
    [cJSONUtils_MergePatchCaseSensitive] of cJSON_Utils.c statement by statement on the memory model of Heap.v,
    calling the heap-level functions of CoreDefs.v (cJSON_IsObject, cJSON_Delete, cJSON_Duplicate(patch, 1),
    cJSON_CreateObject, cJSON_IsNull, cJSON_DeleteItemFromObject[CaseSensitive],
    cJSON_DetachItemFromObject[CaseSensitive], cJSON_AddItemToObject with its result ignored), and the theorems
    below say that this heap-level function REFINES the value-level model, hence (C18) RFC 7396.

    Reading guide.  [h] heap, [F] forest ([WF h F]: [h] encodes [F], the C06 invariant).
    [MInv h F] = [WF h F] + [HeapOK h] (structural sanity, C07) + every node of [F] OWNS its strings
    ([owns_strings]: no cJSON_IsReference, no cJSON_StringIsConst) + every string a node refers to is a live,
    NUL-terminated block ([str_ok]) — [C18_heap_invariant_intro] / [_elim].  These are the documents the
    value-level theorems speak about: what cJSON_Parse, cJSON_Duplicate of such a tree, and the utilities build.
    [tgt : option tree] the target: NULL, or a detached root of [F]; [rest_of F tgt] = the other roots; the patch
    is a node [pp] (subtree [tp]) of one of the other roots.  [reify St t] reads a forest tree as a [Tree.node]
    through the string heap [St].  [nofail] = the allocator that never fails.  [LIMIT] = CJSON_CIRCULAR_LIMIT.
    [members_keyed tp]: every member of an object node of the patch has a name.  [KeepO h h' G]: the string
    blocks owned by [G] have the same contents in [h'] as in [h]. *)
From CJ Require Import Base Dbl Heap Forest ForestLemmas CoreDefs CoreRefineDupBase CoreRefineDupValue CoreRefineDupForest
  CoreLedgerGen.
From CJ Require Import TierBridgeDefs TierBridgeEndToEndStr MergeHeapDefs MergeHeapInv MergeHeapProofs MergeHeapConform MergeHeapEx.
From CJ Require Tree CoreOps CompareDefs MergeDefs Rfc7396.
From CJ.gen Require Import Constants.
From stdpp Require Import gmap.
Local Open Scope Z_scope.

(** ------------------------------------------------------------------ 1. the invariant *)

Theorem C18_heap_invariant_intro : forall h F,
  WF h F -> HeapOK h -> Forall owns_strings F ->
  (forall t b, t ∈ F -> b ∈ str_blocks t -> str_ok h b) ->
  MInv h F.
Proof. exact MInv_intro. Qed.
Print Assumptions C18_heap_invariant_intro.

Theorem C18_heap_invariant_elim : forall h F,
  MInv h F ->
  WF h F /\ HeapOK h /\ Closed h /\ KeysReadable h F /\ Forall owns_strings F /\
  (forall t b, t ∈ F -> b ∈ str_blocks t -> str_ok h b).
Proof. exact MInv_elim. Qed.
Print Assumptions C18_heap_invariant_elim.

Theorem C18_heap_str_ok_is : forall h b,
  str_ok h b <-> b ∈ h_live h /\ exists s : bytes, h_str h !! b = Some s /\ existsb (Z.eqb 0) s = true.
Proof. exact (fun h b => conj (fun H => H) (fun H => H)). Qed.

(** ------------------------------------------------------------------ 2. the refinement theorem *)

(** MAIN THEOREM.  [merge_patch(target, patch, case_sensitive)] with the fuel the entry points take from the
    heap, run on a heap satisfying the invariant, for a target that is NULL or a detached root and a patch that
    is a node outside the target, nested at most LIMIT deep, whose object members all have names:
      - returns normally (no memory-error outcome) a NON-NULL pointer [tid ty];
      - the resulting heap satisfies the invariant (in particular [WF]) for the forest [rest ++ [ty]]: the
        other roots are LITERALLY the same trees, the result [ty] is a root;
      - the patch is the same tree and reifies as before;
      - [reify] of the result IS what the value-level model of C18 (MergeDefs.v) computes from the reified target
        and patch — so every theorem of Properties_C18.v about that model speaks about this run;
      - nothing is leaked ([NoLeak] is preserved), and the strings of the other roots are untouched. *)
Theorem C18_heap_refines : forall (flag : bool) h F (tgt : option tree) pp tp,
  MInv h F ->
  (forall tx, tgt = Some tx -> find_root (tid tx) F = Some tx) ->
  let G := rest_of F tgt in
  find_tree pp G = Some tp ->
  (height tp <= Z.to_nat c_CJSON_CIRCULAR_LIMIT)%nat -> members_keyed tp ->
  exists h' ty,
    merge_patch nofail (tid <$> tgt) (Some pp) flag h = Ret (Some (tid ty), h') /\
    MInv h' (G ++ [ty]) /\
    find_tree pp (G ++ [ty]) = Some tp /\ reify (h_str h') tp = reify (h_str h) tp /\
    find_root (tid ty) (G ++ [ty]) = Some ty /\
    MergeDefs.mp_MergePatch_gen flag (reify (h_str h) <$> tgt) (Some (reify (h_str h) tp)) = Some (reify (h_str h') ty) /\
    (NoLeak h F -> NoLeak h' (G ++ [ty])) /\ KeepO h h' G.
Proof. exact merge_patch_refines. Qed.
Print Assumptions C18_heap_refines.

(** the public functions are the two case modes of it; [MergeDefs.cJSONUtils_MergePatch[CaseSensitive]] are the
    two case modes of [mp_MergePatch_gen] *)
Theorem C18_heap_entry_points : forall oracle target patch,
  MergeHeapDefs.cJSONUtils_MergePatch oracle target patch = merge_patch oracle target patch false /\
  MergeHeapDefs.cJSONUtils_MergePatchCaseSensitive oracle target patch = merge_patch oracle target patch true.
Proof. exact merge_entry_points. Qed.
Theorem C18_value_entry_points :
  MergeDefs.cJSONUtils_MergePatch = MergeDefs.mp_MergePatch_gen false /\
  MergeDefs.cJSONUtils_MergePatchCaseSensitive = MergeDefs.mp_MergePatch_gen true.
Proof. exact (conj eq_refl eq_refl). Qed.
Theorem C18_rest_of_is : forall F tx, rest_of F (Some tx) = remove_root (tid tx) F /\ rest_of F None = F.
Proof. exact (fun F tx => conj eq_refl eq_refl). Qed.

(** the same at EVERY level of the recursion and for any sufficient fuel ([tsize] = number of nodes of the
    patch): the forest is [G ++ target], [G] contains the patch and is never touched *)
Theorem C18_heap_every_level : forall tp (df lf : nat) h G (tgt : option tree) (flag : bool),
  MInv h (G ++ opt_list tgt) -> find_tree (tid tp) G = Some tp ->
  (tsize tp <= df)%nat -> (tsize tp <= lf)%nat ->
  (height tp <= Z.to_nat c_CJSON_CIRCULAR_LIMIT)%nat -> members_keyed tp ->
  exists h' ty,
    merge_patch_fuel nofail df lf (tid <$> tgt) (Some (tid tp)) flag h = Ret (Some (tid ty), h') /\
    MInv h' (G ++ [ty]) /\ (NoLeak h (G ++ opt_list tgt) -> NoLeak h' (G ++ [ty])) /\ KeepO h h' G /\
    MergeDefs.mp_merge_patch flag (reify (h_str h) <$> tgt) (reify (h_str h) tp) = Some (reify (h_str h') ty).
Proof. exact merge_rec. Qed.
Print Assumptions C18_heap_every_level.

(** the fuel of the entry points suffices: a subtree of a well-formed forest has at most as many nodes as
    identities were handed out *)
Theorem C18_heap_fuel : forall h F t, WF h F -> t ∈ nodes F -> (tsize t <= Pos.to_nat (h_next h))%nat.
Proof. exact tsize_fuel. Qed.

(** THE LEDGER, exactly: before the call the live library blocks are those of the untouched roots and of the
    target, afterwards those of the untouched roots and of the result — the ledger changes by the blocks of the
    result minus the blocks of the old target *)
Theorem C18_heap_ledger : forall (flag : bool) h F (tgt : option tree) pp tp,
  MInv h F -> NoLeak h F ->
  (forall tx, tgt = Some tx -> find_root (tid tx) F = Some tx) ->
  let G := rest_of F tgt in
  find_tree pp G = Some tp ->
  (height tp <= Z.to_nat c_CJSON_CIRCULAR_LIMIT)%nat -> members_keyed tp ->
  exists h' ty,
    merge_patch nofail (tid <$> tgt) (Some pp) flag h = Ret (Some (tid ty), h') /\
    WF h' (G ++ [ty]) /\ NoLeak h' (G ++ [ty]) /\
    (forall b, b ∈ lib_live h <-> b ∈ owned G \/ b ∈ owned (opt_list tgt)) /\
    (forall b, b ∈ lib_live h' <-> b ∈ owned G \/ b ∈ owned [ty]) /\
    (forall b, b ∈ owned G -> h_str h' !! b = h_str h !! b).
Proof. exact merge_patch_ledger. Qed.
Print Assumptions C18_heap_ledger.

(** a NULL patch: the target is deleted, the result is NULL *)
Theorem C18_heap_null_patch : forall (flag : bool) h G tx,
  MInv h (G ++ [tx]) ->
  exists h', merge_patch nofail (Some (tid tx)) None flag h = Ret (None, h') /\ MInv h' G /\
             (NoLeak h (G ++ [tx]) -> NoLeak h' G) /\ KeepO h h' G.
Proof. exact merge_patch_null_patch. Qed.
Print Assumptions C18_heap_null_patch.

(** roots are unordered: the invariant does not depend on the order of the forest *)
Theorem C18_heap_roots_unordered : forall h F F', MInv h F -> F ≡ₚ F' -> MInv h F'.
Proof. exact MInv_perm. Qed.

(** ------------------------------------------------------------------ 3. transfer of C18: RFC 7396 *)

(** [C18_apply] / [C18_apply_null_target] for the heap-level code: when the reified target and patch are JSON
    documents in the sense of C18 and the patch nests below the duplication limit (these imply the height bound
    and [members_keyed]), the case-sensitive entry point run on the heap returns a root that reifies to the RFC
    7396 result — as a document ([doc_eq]) and member for member up to ownership flags *)
Theorem C18_heap_conform : forall h F (tgt : option tree) pp tp,
  MInv h F ->
  (forall tx, tgt = Some tx -> find_root (tid tx) F = Some tx) ->
  let G := rest_of F tgt in
  find_tree pp G = Some tp ->
  (forall tx, tgt = Some tx -> Rfc7396.m7396_doc (reify (h_str h) tx) = true) ->
  Rfc7396.m7396_doc (reify (h_str h) tp) = true ->
  Rfc7396.m7396_depth_ok (reify (h_str h) tp) = true ->
  exists h' ty,
    MergeHeapDefs.cJSONUtils_MergePatchCaseSensitive nofail (tid <$> tgt) (Some pp) h = Ret (Some (tid ty), h') /\
    MInv h' (G ++ [ty]) /\ find_root (tid ty) (G ++ [ty]) = Some ty /\
    find_tree pp (G ++ [ty]) = Some tp /\ reify (h_str h') tp = reify (h_str h) tp /\
    Rfc7396.doc_eq (reify (h_str h') ty) (Rfc7396.merge (reify (h_str h) <$> tgt) (reify (h_str h) tp)) = true /\
    CompareDefs.strip_flags (reify (h_str h') ty) =
      CompareDefs.strip_flags (Rfc7396.merge (reify (h_str h) <$> tgt) (reify (h_str h) tp)) /\
    (NoLeak h F -> NoLeak h' (G ++ [ty])).
Proof. exact c18_heap_conform. Qed.
Print Assumptions C18_heap_conform.

Theorem C18_heap_side_conditions_from_C18 : forall St tp,
  (Rfc7396.m7396_depth_ok (reify St tp) = true -> (height tp <= Z.to_nat c_CJSON_CIRCULAR_LIMIT)%nat) /\
  (Rfc7396.m7396_doc (reify St tp) = true -> members_keyed tp).
Proof. exact (fun St tp => conj (depth_ok_height St tp) (doc_members_keyed St tp)). Qed.

(** ------------------------------------------------------------------ 4. every allocation-failure schedule *)

(** for EVERY oracle (allocation requests may fail anywhere): whenever the heap-level function RETURNS from a
    sane heap, the heap is sane again, identities were only handed out upwards, ownership tags are unchanged and
    every block the library only borrows is live with bit-identical contents ([CoreLedgerGen.Cons], C07) *)
Theorem C18_heap_conservative : forall oracle target patch flag, Cons (merge_patch oracle target patch flag).
Proof. exact Cons_merge_patch. Qed.
Print Assumptions C18_heap_conservative.

(** ------------------------------------------------------------------ 5. non-vacuity *)

(** [exh_heap]: target (root 1) {"a":"b","c":{"d":1}}, patch (root 10) {"a":null,"c":{"d":null,"e":[1]},"f":"g"},
    forest [patch; target] (the target is NOT the last root: [C18_heap_refines] does not care).  Every hypothesis
    of [C18_heap_refines], [C18_heap_ledger] and [C18_heap_conform] holds. *)
Theorem C18_heap_nonvacuous_hypotheses :
  MInv exh_heap exh_F /\ NoLeak exh_heap exh_F /\
  find_root 1%positive exh_F = Some exh_target /\
  find_tree 10%positive (rest_of exh_F (Some exh_target)) = Some exh_patch /\
  find_root 10%positive exh_F = Some exh_patch /\
  (height exh_patch <= Z.to_nat c_CJSON_CIRCULAR_LIMIT)%nat /\ members_keyed exh_patch /\
  Forall owns_strings exh_F /\
  Rfc7396.m7396_doc (reify (h_str exh_heap) exh_target) = true /\
  Rfc7396.m7396_doc (reify (h_str exh_heap) exh_patch) = true /\
  Rfc7396.m7396_depth_ok (reify (h_str exh_heap) exh_patch) = true.
Proof. exact exh_hypotheses. Qed.
Print Assumptions C18_heap_nonvacuous_hypotheses.

(** The heap-level code RUN on it ([vm_compute]): returns the target's pointer; the result, read back from the
    result heap by the structural walk [CoreOps.dump_node] (fields of every node + the prev/next discipline of
    every chain: [true]), is {"c":{"e":[1]},"f":"g"} = what the value-level model computes = what the RFC 7396
    evaluator computes; the patch reads back unchanged; the ledger is the patch, the surviving nodes of the
    target and the new blocks; the old members and the superseded key copies are released. *)
Theorem C18_heap_nonvacuous_run :
  out_val exh_run = Some (Some 1%positive) /\
  out_val (CoreOps.dump_node 50 (Some 1%positive) exh_after) = Some (Some (exh_expected, true)) /\
  MergeDefs.cJSONUtils_MergePatchCaseSensitive (Some (reify exh_St exh_target)) (Some (reify exh_St exh_patch)) = Some exh_expected /\
  Rfc7396.merge (Some (reify exh_St exh_target)) (reify exh_St exh_patch) = exh_expected /\
  out_val (CoreOps.dump_node 50 (Some 10%positive) exh_after) = Some (Some (reify exh_St exh_patch, true)) /\
  bool_decide (lib_live exh_after =
               list_to_set (owned [exh_patch] ++ [1; 3; 1000; 1002; 1003; 1004; 1005; 1006; 1008]%positive)) = true /\
  forallb (fun b => bool_decide (b ∉ h_live exh_after)) [2; 101; 102; 4; 104; 103; 1001; 1007]%positive = true.
Proof. exact exh_result. Qed.
Print Assumptions C18_heap_nonvacuous_run.
Theorem C18_heap_nonvacuous_run_is :
  exh_run = MergeHeapDefs.cJSONUtils_MergePatchCaseSensitive nofail (Some 1%positive) (Some 10%positive) exh_heap /\
  exh_after = out_heap exh_run exh_heap.
Proof. exact exh_run_is. Qed.

(** … and [C18_heap_refines] instantiated on that very run: the heap the computation ends in satisfies the
    invariant for the forest [patch; ty] with [ty] a root under the returned identity 1, nothing leaked, and
    [ty] reifies to the expected document = the RFC 7396 result *)
Theorem C18_heap_nonvacuous_instance :
  exists ty,
    exh_run = Ret (Some (tid ty), exh_after) /\ tid ty = 1%positive /\
    MInv exh_after ([exh_patch] ++ [ty]) /\ NoLeak exh_after ([exh_patch] ++ [ty]) /\
    find_root 10%positive ([exh_patch] ++ [ty]) = Some exh_patch /\
    reify (h_str exh_after) ty = exh_expected /\
    reify (h_str exh_after) ty = Rfc7396.merge (Some (reify exh_St exh_target)) (reify exh_St exh_patch).
Proof. exact exh_instance. Qed.
Print Assumptions C18_heap_nonvacuous_instance.

(** The hypothesis [members_keyed] cannot be dropped from the ledger statement.  Target {} (root 1), patch = an
    object whose only member (the number 5) has NO name — what cJSON_AddItemToArray(object, item) builds; every
    other hypothesis holds.  The call returns the target, still {}, exactly as the value-level model says; but
    cJSON_AddItemToObject(target, NULL, replacement) refused, merge_patch ignores that result, and the duplicated
    replacement (block 1000) is a live library block without links that nothing reaches: [NoLeak] fails.
    (Confirmed on /repo: one allocation outstanding after deleting result and patch.) *)
Theorem C18_heap_keyless_member_leaks :
  MInv exk_heap exk_F /\ NoLeak exk_heap exk_F /\
  find_root 1%positive exk_F = Some exk_target /\
  find_tree 10%positive (rest_of exk_F (Some exk_target)) = Some exk_patch /\
  (height exk_patch <= Z.to_nat c_CJSON_CIRCULAR_LIMIT)%nat /\
  ~ members_keyed exk_patch /\
  out_val exk_run = Some (Some 1%positive) /\
  out_val (CoreOps.dump_node 50 (Some 1%positive) exk_after) = Some (Some (exk_empty_object, true)) /\
  MergeDefs.cJSONUtils_MergePatchCaseSensitive (Some (reify ∅ exk_target)) (Some (reify ∅ exk_patch)) = Some exk_empty_object /\
  bool_decide (lib_live exk_after = list_to_set [1; 10; 11; 1000]%positive) = true /\
  h_lnk exk_after !! 1000%positive = Some (None, None) /\
  out_val (CoreOps.dump_node 50 (Some 10%positive) exk_after) = Some (Some (reify ∅ exk_patch, true)) /\
  ~ NoLeak exk_after [exk_patch; exk_target].
Proof. exact keyless_member_leaks. Qed.
Print Assumptions C18_heap_keyless_member_leaks.
Theorem C18_heap_keyless_run_is :
  exk_run = MergeHeapDefs.cJSONUtils_MergePatchCaseSensitive nofail (Some 1%positive) (Some 10%positive) exk_heap /\
  exk_after = out_heap exk_run exk_heap.
Proof. exact exk_run_is. Qed.

(** OUTSIDE [nofail] (the observation of DESIGN 11.6, now reproduced by the heap-level model): the same heap with
    the fifth allocation request refused — the copy of the name "c" inside
    cJSON_AddItemToObject(target, "c", replacement).  merge_patch ignores the refusal: the call returns the target
    as a healthy tree {"f":"g"} that is NOT the RFC 7396 result (member "c" is gone), and the patched member — node 3
    with its old key and the new "e":[1] — stays allocated as a detached tree that nothing reaches. *)
Theorem C18_heap_alloc_failure_observed :
  out_val exf_run = Some (Some 1%positive) /\
  out_val (CoreOps.dump_node 50 (Some 1%positive) exf_after) = Some (Some (exf_result, true)) /\
  Rfc7396.doc_eq exf_result (Rfc7396.merge (Some (reify exh_St exh_target)) (reify exh_St exh_patch)) = false /\
  h_lnk exf_after !! 3%positive = Some (None, None) /\
  out_val (CoreOps.dump_node 50 (Some 3%positive) exf_after) =
    Some (Some (Tree.Node c_cJSON_Object None 0 dzero (Some [99])
                  [Tree.Node c_cJSON_Array None 0 dzero (Some [101]) [exh_num1]], true)) /\
  forallb (fun b => bool_decide (b ∈ lib_live exf_after)) [3; 103; 1000; 1002; 1003]%positive = true.
Proof. exact alloc_failure_observed. Qed.
Print Assumptions C18_heap_alloc_failure_observed.
Theorem C18_heap_alloc_failure_run_is :
  exf_run = MergeHeapDefs.cJSONUtils_MergePatchCaseSensitive exf_oracle (Some 1%positive) (Some 10%positive) exh_heap /\
  exf_after = out_heap exf_run exh_heap /\ exf_oracle = (fun k => Nat.eqb k 4).
Proof. exact exf_run_is. Qed.
