(** Grammar.v — the declarative side of C02 / C03 / C05: JSON values, the RFC 8259 grammar and
    the library's lenient dialect as ONE inductive family instantiated at different leaf
    predicates (whitespace bytes, raw string bytes, number tokens), written from the RFC and
    independently of the parser model: its own hex-digit table, its own UTF-8 encoder
    (arithmetic with / and mod, not the shifts and masks of the C code).  That the dialects
    differ only in the leaves is true by construction.  No proofs here. *)
From CJ Require Import Base Dbl Tree.
Local Open Scope Z_scope.

(** JSON values as the text denotes them.  A number is kept as its literal (its meaning as a
    double is given by [tree_of] through the C library's conversion); strings and keys are
    the decoded bytes (UTF-8). Member order and duplicate members are part of the value. *)
Inductive jv : Type :=
| JNull
| JBool (b : bool)
| JNum (tok : bytes)
| JStr (s : bytes)
| JArr (l : list jv)
| JObj (m : list (bytes * jv)).

(** hex digits, RFC 8259 section 7 *)
Definition hexv (c : Z) : option Z :=
  if (48 <=? c) && (c <=? 57) then Some (c - 48)
  else if (65 <=? c) && (c <=? 70) then Some (c - 55)
  else if (97 <=? c) && (c <=? 102) then Some (c - 87)
  else None.
Definition hex4v (a b c d : Z) : option Z :=
  match hexv a, hexv b, hexv c, hexv d with
  | Some x, Some y, Some z, Some w => Some (x * 4096 + y * 256 + z * 16 + w)
  | _, _, _, _ => None
  end.

(** UTF-8 (RFC 3629) of a Unicode scalar value *)
Definition utf8_of_codepoint (cp : Z) : bytes :=
  if cp <? 128 then [cp]
  else if cp <? 2048 then [192 + cp / 64; 128 + cp mod 64]
  else if cp <? 65536 then [224 + cp / 4096; 128 + (cp / 64) mod 64; 128 + cp mod 64]
  else [240 + cp / 262144; 128 + (cp / 4096) mod 64; 128 + (cp / 64) mod 64; 128 + cp mod 64].

Definition is_high_surrogate (u : Z) : bool := (55296 <=? u) && (u <=? 56319).   (* D800..DBFF *)
Definition is_low_surrogate (u : Z) : bool := (56320 <=? u) && (u <=? 57343).    (* DC00..DFFF *)
Definition pair_codepoint (hi lo : Z) : Z := 65536 + (hi - 55296) * 1024 + (lo - 56320).

(** two-character escapes: quote, backslash, slash, b, f, n, r, t *)
Definition simple_escape (e : Z) : option Z :=
  if e =? 34 then Some 34 else if e =? 92 then Some 92 else if e =? 47 then Some 47
  else if e =? 98 then Some 8 else if e =? 102 then Some 12 else if e =? 110 then Some 10
  else if e =? 114 then Some 13 else if e =? 116 then Some 9 else None.

(** RFC 8259 number: optional minus; 0 or a nonzero digit followed by digits; optional point + digits; optional e/E, sign, digits *)
Definition digit (c : Z) : bool := (48 <=? c) && (c <=? 57).
Fixpoint skip_digits (l : bytes) : bytes :=
  match l with c :: r => if digit c then skip_digits r else l | [] => [] end.
Definition rfc_exp (l : bytes) : bool :=      (* what may follow the fraction: nothing, or an exponent *)
  match l with
  | [] => true
  | c :: r =>
      if (c =? 101) || (c =? 69) then
        let r1 := match r with s :: r' => if (s =? 43) || (s =? 45) then r' else r | [] => r end in
        match r1 with d :: r2 => digit d && match skip_digits r2 with [] => true | _ => false end | [] => false end
      else false
  end.
Definition rfc_frac (l : bytes) : bool :=     (* what may follow the integer part *)
  match l with
  | 46 :: d :: r => digit d && rfc_exp (skip_digits r)
  | _ => rfc_exp l
  end.
Definition rfc_number (t : bytes) : bool :=
  let t1 := match t with 45 :: r => r | _ => t end in
  match t1 with
  | 48 :: r => rfc_frac r
  | d :: r => digit d && rfc_frac (skip_digits r)
  | [] => false
  end.

Definition rfc_ws (c : Z) : bool := (c =? 32) || (c =? 9) || (c =? 10) || (c =? 13).
Definition rfc_raw (c : Z) : bool := (32 <=? c).           (* unescaped: %x20-21 / %x23-5B / %x5D-10FFFF *)
Definition len_ws (c : Z) : bool := (c <=? 32).            (* the library: every byte <= 0x20 *)
Definition len_raw (c : Z) : bool := true.                 (* the library: raw control bytes allowed *)

Section G.
  Variable is_ws : Z -> bool.
  Variable raw_ok : Z -> bool.
  Variable num_tok : bytes -> Prop.

  Definition ws (w : bytes) : Prop := forallb is_ws w = true.

  (** [chars body s]: the literal body (between the quotes) denotes the byte string s *)
  Inductive chars : bytes -> bytes -> Prop :=
  | ch_nil : chars [] []
  | ch_raw c b s : c <> 34 -> c <> 92 -> raw_ok c = true -> chars b s -> chars (c :: b) (c :: s)
  | ch_esc e v b s : simple_escape e = Some v -> chars b s -> chars (92 :: e :: b) (v :: s)
  | ch_u h1 h2 h3 h4 u b s :
      hex4v h1 h2 h3 h4 = Some u -> is_high_surrogate u = false -> is_low_surrogate u = false ->
      chars b s -> chars (92 :: 117 :: h1 :: h2 :: h3 :: h4 :: b) (utf8_of_codepoint u ++ s)
  | ch_pair h1 h2 h3 h4 l1 l2 l3 l4 hi lo b s :
      hex4v h1 h2 h3 h4 = Some hi -> is_high_surrogate hi = true ->
      hex4v l1 l2 l3 l4 = Some lo -> is_low_surrogate lo = true ->
      chars b s ->
      chars (92 :: 117 :: h1 :: h2 :: h3 :: h4 :: 92 :: 117 :: l1 :: l2 :: l3 :: l4 :: b)
            (utf8_of_codepoint (pair_codepoint hi lo) ++ s).

  (** [value d txt v]: txt is a JSON value denoting v that nests containers at most d deep *)
  Inductive value : nat -> bytes -> jv -> Prop :=
  | v_null d : value d [110; 117; 108; 108] JNull
  | v_false d : value d [102; 97; 108; 115; 101] (JBool false)
  | v_true d : value d [116; 114; 117; 101] (JBool true)
  | v_num d t : num_tok t -> value d t (JNum t)
  | v_str d b s : chars b s -> value d (34 :: b ++ [34]) (JStr s)
  | v_arr0 d w : ws w -> value (S d) (91 :: w ++ [93]) (JArr [])
  | v_arr d b l : elements d b l -> value (S d) (91 :: b ++ [93]) (JArr l)
  | v_obj0 d w : ws w -> value (S d) (123 :: w ++ [125]) (JObj [])
  | v_obj d b m : members d b m -> value (S d) (123 :: b ++ [125]) (JObj m)
  with elements : nat -> bytes -> list jv -> Prop :=
  | e_one d w1 t v w2 : ws w1 -> value d t v -> ws w2 -> elements d (w1 ++ t ++ w2) [v]
  | e_cons d w1 t v w2 b l :
      ws w1 -> value d t v -> ws w2 -> elements d b l -> elements d (w1 ++ t ++ w2 ++ 44 :: b) (v :: l)
  with members : nat -> bytes -> list (bytes * jv) -> Prop :=
  | m_one d w1 kb k w2 w3 t v w4 :
      ws w1 -> chars kb k -> ws w2 -> ws w3 -> value d t v -> ws w4 ->
      members d (w1 ++ 34 :: kb ++ 34 :: w2 ++ 58 :: w3 ++ t ++ w4) [(k, v)]
  | m_cons d w1 kb k w2 w3 t v w4 b m :
      ws w1 -> chars kb k -> ws w2 -> ws w3 -> value d t v -> ws w4 -> members d b m ->
      members d (w1 ++ 34 :: kb ++ 34 :: w2 ++ 58 :: w3 ++ t ++ w4 ++ 44 :: b) ((k, v) :: m).

  (** a complete text: optional UTF-8 byte order mark, whitespace, one value, whitespace *)
  Definition text (limit : nat) (txt : bytes) (v : jv) : Prop :=
    exists bom w1 t w2, txt = bom ++ w1 ++ t ++ w2 /\ (bom = [] \/ bom = [239; 187; 191]) /\
                        ws w1 /\ ws w2 /\ value limit t v.
End G.

Scheme value_mind := Induction for value Sort Prop
  with elements_mind := Induction for elements Sort Prop
  with members_mind := Induction for members Sort Prop.
Combined Scheme grammar_mutind from value_mind, elements_mind, members_mind.

Definition nesting_limit : nat := Z.to_nat c_CJSON_NESTING_LIMIT.

(** RFC 8259 *)
Definition rfc_num_tok (t : bytes) : Prop := rfc_number t = true.
Definition RFC_value := value rfc_ws rfc_raw rfc_num_tok.
Definition RFC_text := text rfc_ws rfc_raw rfc_num_tok nesting_limit.

(** the library's dialect: number tokens are what the C library's strtod converts completely,
    starting with '-' or a digit and made of the bytes 0-9 + - e E . only *)
Definition number_byte_g (c : Z) : bool := digit c || (c =? 43) || (c =? 45) || (c =? 101) || (c =? 69) || (c =? 46).
Definition len_num_tok (strtod : bytes -> option (dbl * nat)) (t : bytes) : Prop :=
  (exists c r, t = c :: r /\ ((c =? 45) || digit c) = true) /\ forallb number_byte_g t = true /\
  (length t <= 63)%nat /\ exists d, strtod t = Some (d, length t).
Definition LEN_value strtod := value len_ws len_raw (len_num_tok strtod).
Definition LEN_text strtod := text len_ws len_raw (len_num_tok strtod) nesting_limit.

(** the cJSON tree a value is represented by: same shape, member order and duplicates; strings
    are C strings (cut at an embedded zero byte, which only the \u0000 escape or a raw zero in
    the lenient dialect can produce); numbers carry the C library's conversion of the literal
    and its saturating truncation to int; literals their own type (true also valueint 1) *)
Section TreeOf.
  Variable strtod : bytes -> option (dbl * nat).
  Definition set_key (k : bytes) (n : node) : node :=
    match n with Node t vs vi vd _ ch => Node t vs vi vd (Some k) ch end.
  Fixpoint tree_of (v : jv) : node :=
    match v with
    | JNull => Node c_cJSON_NULL None 0 dzero None []
    | JBool false => Node c_cJSON_False None 0 dzero None []
    | JBool true => Node c_cJSON_True None 1 dzero None []
    | JNum t => let d := match strtod t with Some (d, _) => d | None => dzero end in
                Node c_cJSON_Number None (sat_int d) d None []
    | JStr s => Node c_cJSON_String (Some (cstr s)) 0 dzero None []
    | JArr l => Node c_cJSON_Array None 0 dzero None
                  ((fix go (l : list jv) : list node := match l with [] => [] | x :: r => tree_of x :: go r end) l)
    | JObj m => Node c_cJSON_Object None 0 dzero None
                  ((fix go (m : list (bytes * jv)) : list node :=
                      match m with [] => [] | (k, x) :: r => set_key (cstr k) (tree_of x) :: go r end) m)
    end.
End TreeOf.

(** side conditions of C02: every number literal at most 63 bytes, no \u0000 (no decoded zero byte) *)
Fixpoint jv_ok (v : jv) : Prop :=
  match v with
  | JNull | JBool _ => True
  | JNum t => (length t <= 63)%nat
  | JStr s => Forall (fun c => c <> 0) s
  | JArr l => (fix go (l : list jv) : Prop := match l with [] => True | x :: r => jv_ok x /\ go r end) l
  | JObj m => (fix go (m : list (bytes * jv)) : Prop :=
                 match m with [] => True | (k, x) :: r => Forall (fun c => c <> 0) k /\ jv_ok x /\ go r end) m
  end.
