(** MinifyValue.v — what cJSON_Minify does to a JSON text: between tokens, whitespace and
    comments disappear; string literals (with any escapes) and all other token bytes are
    preserved byte for byte.  Stated on [minify_spec], which the buffer-level code is
    proved to compute (MinifyProofs.cJSON_Minify_correct). *)
From CJ Require Import Base MinifyDefs MinifyProofs.
Local Open Scope Z_scope.

Definition is_ws (c : Z) : bool := (c =? 32) || (c =? 9) || (c =? 13) || (c =? 10).

(** body of a block comment: no adjacent star-slash *)
Fixpoint no_close (l : bytes) : bool :=
  match l with
  | c :: ((d :: _) as r) => negb ((c =? 42) && (d =? 47)) && no_close r
  | _ => true
  end.

(** a gap between two tokens: whitespace, // comments ended by a newline, block comments *)
Inductive gap : bytes -> Prop :=
| gap_nil : gap []
| gap_ws c g : is_ws c = true -> gap g -> gap (c :: g)
| gap_line body g : ~ In 10 body -> gap g -> gap (47 :: 47 :: body ++ 10 :: g)
| gap_block body g : no_close body = true -> gap g -> gap (47 :: 42 :: body ++ 42 :: 47 :: g).

(** the rest of a string literal after its opening quote, up to and including the
    closing quote: ordinary bytes, or a backslash followed by any byte *)
Inductive strbody : bytes -> Prop :=
| sb_end : strbody [34]
| sb_esc d r : strbody r -> strbody (92 :: d :: r)
| sb_chr c r : c <> 34 -> c <> 92 -> strbody r -> strbody (c :: r).

(** tokens: a string literal, or a non-empty run of bytes that are neither whitespace,
    nor a quote, nor a slash (numbers, literals, punctuation) *)
Definition plain (c : Z) : bool := negb (is_ws c) && negb (c =? 34) && negb (c =? 47).
Inductive tok : bytes -> Prop :=
| tok_str lit : strbody lit -> tok (34 :: lit)
| tok_plain t : t <> [] -> forallb plain t = true -> tok t.

(** a text: gap, then tokens each followed by a gap *)
Inductive text : bytes -> list bytes -> Prop :=
| text_nil g : gap g -> text g []
| text_cons g t rest toks : gap g -> tok t -> text rest toks -> text (g ++ t ++ rest) (t :: toks).

(** unlimited-fuel view of minify_l *)
Definition mfy (s : bytes) : bytes := minify_l (length s + 1) s.

Lemma mfy_unfold f s : (length s < f)%nat -> minify_l f s = mfy s.
Proof. intro H. apply minify_l_fuel; [exact H|lia]. Qed.

Lemma mfy_nil : mfy [] = [].
Proof. reflexivity. Qed.

Lemma mfy_cons c R : mfy (c :: R) = minify_l (S (length R + 1)) (c :: R).
Proof. unfold mfy. simpl length. f_equal; lia. Qed.

Lemma mfy_ws c r : is_ws c = true -> mfy (c :: r) = mfy r.
Proof.
  intro H. rewrite mfy_cons.
  cbn [minify_l]. unfold is_ws in H. rewrite H. apply mfy_unfold. lia.
Qed.

Lemma skip1_l_line body r : ~ In 10 body -> skip1_l (body ++ 10 :: r) = r.
Proof.
  induction body as [|c body IH]; intro H; simpl.
  - reflexivity.
  - destruct (c =? 10) eqn:E; [apply Z.eqb_eq in E; subst; exfalso; apply H; left; reflexivity|].
    apply IH. intro Hin. apply H. right. exact Hin.
Qed.

Lemma skipm_l_block body r : no_close body = true -> skipm_l (body ++ 42 :: 47 :: r) = r.
Proof.
  induction body as [|c body IH]; intro H.
  - reflexivity.
  - destruct body as [|d body'].
    + simpl. destruct (c =? 42) eqn:E; simpl; reflexivity.
    + change ((c :: d :: body') ++ 42 :: 47 :: r) with (c :: (d :: body') ++ 42 :: 47 :: r).
      cbn [skipm_l]. cbn [no_close] in H. apply andb_true_iff in H as [H1 H2].
      change (hd 0 ((d :: body') ++ 42 :: 47 :: r)) with d.
      apply negb_true_iff in H1. rewrite H1. apply IH. exact H2.
Qed.

Lemma mfy_line body r : ~ In 10 body -> mfy (47 :: 47 :: body ++ 10 :: r) = mfy r.
Proof.
  intro H. rewrite mfy_cons.
  cbn [minify_l]. simpl hd. simpl tl. rewrite skip1_l_line by exact H.
  apply mfy_unfold. simpl. rewrite app_length. simpl. lia.
Qed.

Lemma mfy_block body r : no_close body = true -> mfy (47 :: 42 :: body ++ 42 :: 47 :: r) = mfy r.
Proof.
  intro H. rewrite mfy_cons.
  cbn [minify_l]. simpl hd. simpl tl. rewrite skipm_l_block by exact H.
  apply mfy_unfold. simpl. rewrite app_length. simpl. lia.
Qed.

Lemma mfy_gap g r : gap g -> mfy (g ++ r) = mfy r.
Proof.
  induction 1 as [|c g Hc Hg IH|body g Hb Hg IH|body g Hb Hg IH]; simpl.
  - reflexivity.
  - rewrite mfy_ws by exact Hc. exact IH.
  - rewrite <- app_assoc. simpl. rewrite mfy_line by exact Hb. exact IH.
  - rewrite <- app_assoc. simpl. rewrite mfy_block by exact Hb. exact IH.
Qed.

Lemma mstr_l_strbody lit r : strbody lit -> mstr_l (lit ++ r) = (lit, r).
Proof.
  induction 1 as [|d l Hl IH|c l H1 H2 Hl IH]; simpl.
  - reflexivity.
  - rewrite IH. reflexivity.
  - apply Z.eqb_neq in H1, H2. rewrite H1, H2. rewrite IH. reflexivity.
Qed.

Lemma mfy_str lit r : strbody lit -> mfy (34 :: lit ++ r) = 34 :: lit ++ mfy r.
Proof.
  intro H. rewrite mfy_cons.
  cbn [minify_l]. simpl. rewrite mstr_l_strbody by exact H.
  f_equal. f_equal. apply mfy_unfold. rewrite app_length. lia.
Qed.

Lemma mfy_plain1 c r : plain c = true -> mfy (c :: r) = c :: mfy r.
Proof.
  intro H. unfold plain, is_ws in H.
  apply andb_true_iff in H as [H H3]. apply andb_true_iff in H as [H1 H2].
  apply negb_true_iff in H1, H2, H3.
  rewrite mfy_cons.
  cbn [minify_l]. rewrite H1, H3, H2. reflexivity.
Qed.

Lemma mfy_plain t r : forallb plain t = true -> mfy (t ++ r) = t ++ mfy r.
Proof.
  induction t as [|c t IH]; intro H; simpl; [reflexivity|].
  simpl in H. apply andb_true_iff in H as [H1 H2].
  rewrite mfy_plain1 by exact H1. f_equal. apply IH. exact H2.
Qed.

Lemma mfy_tok t r : tok t -> mfy (t ++ r) = t ++ mfy r.
Proof.
  destruct 1 as [lit Hl|t Hne Hp].
  - simpl. apply mfy_str. exact Hl.
  - apply mfy_plain. exact Hp.
Qed.

(** Value preservation: gaps vanish, tokens stay byte for byte. *)
Theorem minify_text s toks : text s toks -> minify_spec s = concat toks.
Proof.
  intro H. change (minify_spec s) with (mfy s).
  induction H as [g Hg|g t rest toks Hg Ht Hrest IH].
  - rewrite <- (app_nil_r g). rewrite mfy_gap by exact Hg. reflexivity.
  - rewrite mfy_gap by exact Hg. rewrite mfy_tok by exact Ht. simpl. f_equal. exact IH.
Qed.

(** the minified text is itself a text with empty gaps, hence a fixed point *)
Lemma text_concat toks : Forall tok toks -> text (concat toks) toks.
Proof.
  induction 1 as [|t toks Ht Hts IH]; simpl.
  - constructor. constructor.
  - change (t ++ concat toks) with ([] ++ t ++ concat toks). constructor; [constructor|exact Ht|exact IH].
Qed.

Lemma text_toks s toks : text s toks -> Forall tok toks.
Proof. induction 1; constructor; assumption. Qed.

Theorem minify_idempotent s toks : text s toks -> minify_spec (minify_spec s) = minify_spec s.
Proof.
  intro H. rewrite (minify_text s toks H).
  apply minify_text. apply text_concat. eapply text_toks. exact H.
Qed.

(** no whitespace or comment start survives outside string literals: every byte of the
    result that is not inside a string token is a plain byte — read off [concat toks]. *)

(** non-vacuity: a concrete text with comments, escapes, an escaped backslash before the
    closing quote *)
Example text_example :
  text [123; 32; 34; 97; 92; 92; 34; 32; 58; 47; 42; 120; 42; 47; 34; 98; 32; 92; 34; 99; 34; 47; 47; 121; 10; 125]
       [[123]; [34; 97; 92; 92; 34]; [58]; [34; 98; 32; 92; 34; 99; 34]; [125]].
Proof.
  apply (text_cons [] [123]); [constructor| apply tok_plain; [discriminate|reflexivity] |].
  apply (text_cons [32] [34; 97; 92; 92; 34]);
    [apply gap_ws; [reflexivity|constructor]
    | apply tok_str; apply sb_chr; [discriminate|discriminate|]; apply sb_esc; apply sb_end |].
  apply (text_cons [32] [58]); [apply gap_ws; [reflexivity|constructor]| apply tok_plain; [discriminate|reflexivity] |].
  apply (text_cons [47; 42; 120; 42; 47] [34; 98; 32; 92; 34; 99; 34]).
  - apply (gap_block [120] []); [reflexivity|constructor].
  - apply tok_str. apply sb_chr; [discriminate|discriminate|].
    apply sb_chr; [discriminate|discriminate|]. apply sb_esc.
    apply sb_chr; [discriminate|discriminate|]. apply sb_end.
  - apply (text_cons [47; 47; 121; 10] [125]).
    + apply (gap_line [121] []); [simpl; intuition discriminate|constructor].
    + apply tok_plain; [discriminate|reflexivity].
    + constructor. constructor.
Qed.
