(** LibcG17Contract.v — where the contract [LibcRoundTripSpec] stands for the reference C library
    (strtod_ref, fmt_d, fmt_g15, fmt_g17, sscanf_lg) once clause N3 is proved (LibcG17.v):
    clauses S, V, N2, N3, N4z are theorems; the contract follows from the three "%1.15g" clauses
    N4, N5a, N5b alone (those remain validated by execution only). *)
From Coq Require Import ZArith List Bool Floats.SpecFloat.
From CJ Require Import Base Dbl Tree LibcNum LibcPrint PrintDefs RoundTripNum RoundTripRef
  RoundTripRefValid RoundTripZero RoundTripEvidence LibcG17.
Local Open Scope Z_scope.

Theorem ref_contract_from_g15_clauses :
  (forall d t k, is_finite d = true -> dbl_ok d ->
      strtod_ref (fmt_g15 d) = Some (t, k) -> is_finite t = true -> fmt_g15 t = fmt_g15 d) ->
  (forall z, int_range z = true -> fmt_g15 (dbl_of_int z) = fmt_d z) ->
  (forall z, Z.abs z < 10 ^ 15 -> exists k, strtod_ref (fmt_g15 (dbl_of_int z)) = Some (dbl_of_int z, k)) ->
  LibcRoundTripSpec strtod_ref fmt_d fmt_g15 fmt_g17 sscanf_lg.
Proof.
  intros N4 N5a N5b.
  apply roundtrip_spec_intro.
  - exact ref_scan.
  - exact ref_valid.
  - exact ref_lr_d.
  - exact g17_roundtrip_ref.
  - exact N4.
  - exact N5a.
  - exact N5b.
Qed.
