(** GenPatchHeapEx.v — non-vacuity of GenPatchHeap*.v on a concrete heap, by computation.

    [gx_heap] encodes the forest [gx_F] = [from; to; arr]:
      from (root 1)  {"b":1,"a":[1,2,3],"s":"x","k/~":{"z":1},"m":[]}                   nodes 1-10, string blocks 102-111
      to   (root 20) {"a":[1,5],"s":"y","k/~":{"z":2,"w":[true]},"n":null,"m":true}      nodes 20-30, string blocks 121-130
      arr  (root 50) []                                                          an empty patches array
    allocator pointer 1000. *)
From CJ Require Import Base Dbl Heap Forest ForestLemmas CoreDefs CoreRefineBase CoreRefineAddObject CoreRefineFrame
  CoreRefineDupValue CoreRefineDupForest CoreRefineCreate CoreLedgerGen.
From CJ Require Import TierBridgeDefs TierBridgeEndToEndStr MergeHeapDefs MergeHeapInv MergeHeapProofs MergeHeapEx.
From CJ Require Import GenMergeHeapDefs GenMergeHeapForest GenMergeHeapEx PatchHeapDefs PatchHeapPointer PatchHeapSteps.
From CJ Require Import PatchHeapApplyDefs PatchHeapTest GenPatchHeapDefs GenPatchHeapBytes GenPatchHeapSteps GenPatchHeapCompose GenPatchHeapProofs GenPatchHeapEntry.
From CJ Require Tree CoreOps CompareDefs PointerDefs PatchDefs SortSpec Rfc6902 PatchConform PatchApply PatchSeq GenPatchHeapRound.
From CJ.gen Require Import Constants.
From stdpp Require Import gmap.
From Coq Require Import Lia.
Local Open Scope Z_scope.

Definition gx_from : tree :=
  exh_mk 1 c_cJSON_Object None 0 None
   [exh_mk 2 c_cJSON_Number None 1 (Some 102%positive) [];
    exh_mk 3 c_cJSON_Array None 0 (Some 103%positive)
      [exh_mk 4 c_cJSON_Number None 1 None []; exh_mk 5 c_cJSON_Number None 2 None []; exh_mk 6 c_cJSON_Number None 3 None []];
    exh_mk 7 c_cJSON_String (Some 107%positive) 0 (Some 108%positive) [];
    exh_mk 8 c_cJSON_Object None 0 (Some 109%positive) [exh_mk 9 c_cJSON_Number None 1 (Some 110%positive) []];
    exh_mk 10 c_cJSON_Array None 0 (Some 111%positive) []].
Definition gx_to : tree :=
  exh_mk 20 c_cJSON_Object None 0 None
   [exh_mk 21 c_cJSON_Array None 0 (Some 121%positive)
      [exh_mk 22 c_cJSON_Number None 1 None []; exh_mk 23 c_cJSON_Number None 5 None []];
    exh_mk 24 c_cJSON_String (Some 124%positive) 0 (Some 125%positive) [];
    exh_mk 25 c_cJSON_Object None 0 (Some 126%positive)
      [exh_mk 26 c_cJSON_Number None 2 (Some 127%positive) [];
       exh_mk 27 c_cJSON_Array None 0 (Some 128%positive) [exh_mk 28 c_cJSON_True None 0 None []]];
    exh_mk 29 c_cJSON_NULL None 0 (Some 129%positive) [];
    exh_mk 30 c_cJSON_True None 0 (Some 130%positive) []].
Definition gx_arr : tree := exh_mk 50 c_cJSON_Array None 0 None [].
Definition gx_St : gmap positive bytes :=
  list_to_map [(102%positive, [98; 0]); (103%positive, [97; 0]); (107%positive, [120; 0]); (108%positive, [115; 0]);
               (109%positive, [107; 47; 126; 0]); (110%positive, [122; 0]); (111%positive, [109; 0]); (130%positive, [109; 0]);
               (121%positive, [97; 0]); (124%positive, [121; 0]); (125%positive, [115; 0]); (126%positive, [107; 47; 126; 0]);
               (127%positive, [122; 0]); (128%positive, [119; 0]); (129%positive, [110; 0])].
Definition gx_A : forest := [gx_from; gx_to].
Definition gx_F : forest := gx_A ++ [gx_arr].
Definition gx_heap : heap := heap_of_forest gx_F gx_St.

Lemma gx_MInv : MInv gx_heap gx_F.
Proof. apply heap_of_forest_MInv; vm_compute; reflexivity. Qed.
Lemma gx_NoLeak : NoLeak gx_heap gx_F.
Proof. apply heap_of_forest_NoLeak. Qed.

(** ** stage 1: the name "k/~" (block 109) encoded into a fresh block of exactly 6 bytes, at offset 0 *)
Definition gx_key : bytes := [107; 47; 126].
Definition gx_h1 : heap := alloc_str gx_heap (repeat junk 6).

Lemma gx_stage1_runs :
  out_val (pointer_encoded_length (CAt 109 0) gx_heap) = Some (PointerDefs.pointer_encoded_length gx_key) /\
  PointerDefs.pointer_encoded_length gx_key = 5%nat /\
  out_val ((encode_string_as_pointer (CAt 1000 0) (CAt 109 0) ;;; ld_str (Some 1000%positive)) gx_h1) =
    Some (PointerDefs.encode_string_as_pointer gx_key ++ [0]) /\
  PointerDefs.encode_string_as_pointer gx_key = [107; 126; 49; 126; 48] /\
  (* one byte less: the terminator does not fit *)
  out_err (encode_string_as_pointer (CAt 1000 0) (CAt 109 0) (alloc_str gx_heap (repeat junk 5))) = Some OutOfBounds /\
  (* at offset 1 of the 6-byte block: the same *)
  out_err (encode_string_as_pointer (CAt 1000 1) (CAt 109 0) gx_h1) = Some OutOfBounds.
Proof. split_and!; vm_compute; reflexivity. Qed.

Lemma gx_stage1_hypotheses :
  1000%positive ∈ h_live gx_h1 /\ h_own gx_h1 !! 1000%positive = Some Lib /\ h_str gx_h1 !! 1000%positive = Some (repeat junk 6) /\
  CsReads gx_h1 (CAt 109 0) gx_key /\ (forall o, CAt 109 0 <> CAt 1000 o) /\
  (0 + length (PointerDefs.encode_string_as_pointer gx_key) + 1 <= length (repeat junk 6))%nat.
Proof.
  split; [vm_compute; set_solver|]. split; [vm_compute; reflexivity|]. split; [vm_compute; reflexivity|].
  split.
  { split; [vm_compute; set_solver|]. exists [107; 47; 126; 0]. split; [vm_compute; reflexivity|]. split; vm_compute; reflexivity. }
  split; [done|]. vm_compute. lia.
Qed.

(** ** stage 2: compose_patch(arr, "add", "/a", "k/~", node 25) *)
Definition gx_compose_run : out (unit * heap) :=
  compose_patch nofail (Some 50%positive) (CLit PatchDefs.s_add) (CLit [47; 97]) (CAt 109 0) (Some 25%positive) gx_heap.
Definition gx_compose_after : heap := out_heap gx_compose_run gx_heap.
Definition gx_t25 : tree :=
  exh_mk 25 c_cJSON_Object None 0 (Some 126%positive)
    [exh_mk 26 c_cJSON_Number None 2 (Some 127%positive) [];
     exh_mk 27 c_cJSON_Array None 0 (Some 128%positive) [exh_mk 28 c_cJSON_True None 0 None []]].

Lemma gx_stage2_runs :
  out_val gx_compose_run = Some tt /\
  out_val (CoreOps.dump_node 50 (Some 50%positive) gx_compose_after) =
    Some (Some (PatchDefs.set_children PatchDefs.create_array
                  (PatchDefs.compose_patch [] PatchDefs.s_add [47; 97] (Some gx_key) (Some (reify gx_St gx_t25))), true)) /\
  (* the ledger: the forest and the 14 blocks of the new element (object; "op" and "path": node, text, name; "value": four nodes,
     two names, the new name); the full_path block 1004 and the name copy the duplicate brought along are gone *)
  length (elements (lib_live gx_compose_after ∖ lib_live gx_heap)) = 14%nat /\
  elements (lib_live gx_heap ∖ lib_live gx_compose_after) = [] /\
  forallb (fun b => bool_decide (b ∉ h_live gx_compose_after)) [1004]%positive = true.
Proof. split_and!; vm_compute; reflexivity. Qed.

(** ** stages 3-5: create_patches(arr, path, a, b, true) on pairs of nodes of [from] and [to] *)
Definition gx_cp (path : bytes) (a b : positive) : out (unit * heap) :=
  create_patches nofail (Some 50%positive) (CLit path) (Some a) (Some b) true gx_heap.
Definition gx_cp_dump (path : bytes) (a b : positive) : option (option (Tree.node * bool)) :=
  out_val (CoreOps.dump_node 50 (Some 50%positive) (out_heap (gx_cp path a b) gx_heap)).
Definition gx_node (F : forest) (i : positive) : Tree.node :=
  match find_tree i F with Some n => reify gx_St n | None => PatchDefs.invalid_node end.
Definition gx_cp_model (path : bytes) (a b : positive) : option (option (Tree.node * bool)) :=
  match PatchDefs.create_patches (Tree.node_depth (gx_node gx_F a)) [] path (gx_node gx_F a) (gx_node gx_F b) true with
  | Ok (ps, _, _) => Some (Some (PatchDefs.set_children PatchDefs.create_array ps, true))
  | _ => None
  end.
Definition gx_cp_count (path : bytes) (a b : positive) : option nat :=
  match gx_cp_model path a b with Some (Some (n, _)) => Some (length (Tree.n_children n)) | _ => None end.
Definition gx_p : bytes := [47; 120].     (* "/x" *)

Lemma gx_stage3_runs :
  (* numbers 1 / 2: one "replace"; numbers 1 / 1: nothing; string "x" / number 1, array [] / true: type mismatch, "replace";
     strings "x" / "y": "replace"; null / true-typed pairs of equal type: nothing *)
  gx_cp_dump gx_p 2 26 = gx_cp_model gx_p 2 26 /\ gx_cp_count gx_p 2 26 = Some 1%nat /\
  gx_cp_dump gx_p 2 22 = gx_cp_model gx_p 2 22 /\ gx_cp_count gx_p 2 22 = Some 0%nat /\
  gx_cp_dump gx_p 7 22 = gx_cp_model gx_p 7 22 /\ gx_cp_count gx_p 7 22 = Some 1%nat /\
  gx_cp_dump gx_p 10 30 = gx_cp_model gx_p 10 30 /\ gx_cp_count gx_p 10 30 = Some 1%nat /\
  gx_cp_dump gx_p 7 24 = gx_cp_model gx_p 7 24 /\ gx_cp_count gx_p 7 24 = Some 1%nat /\
  gx_cp_dump gx_p 28 30 = gx_cp_model gx_p 28 30 /\ gx_cp_count gx_p 28 30 = Some 0%nat.
Proof. split_and!; vm_compute; reflexivity. Qed.

Lemma gx_stage4_runs :
  (* arrays [1,2,3] / [1,5]: replace /x/1, remove /x/2; the other way round: replace /x/1, add /x/- ;
     [1,2,3] / [true]: replace /x/0, remove /x/1 TWICE (the index is not advanced) *)
  gx_cp_dump gx_p 3 21 = gx_cp_model gx_p 3 21 /\ gx_cp_count gx_p 3 21 = Some 2%nat /\
  gx_cp_dump gx_p 21 3 = gx_cp_model gx_p 21 3 /\ gx_cp_count gx_p 21 3 = Some 2%nat /\
  gx_cp_dump gx_p 3 27 = gx_cp_model gx_p 3 27 /\ gx_cp_count gx_p 3 27 = Some 3%nat /\
  (* the new_path block (1000, the first allocation) is gone, as are the three full_path blocks of the operations
     that have a suffix ... none here: "replace" has none; the two "remove" have: blocks 1014 and 1022 *)
  forallb (fun b => bool_decide (b ∉ h_live (out_heap (gx_cp gx_p 3 27) gx_heap))) [1000; 1014; 1022]%positive = true /\
  elements (lib_live gx_heap ∖ lib_live (out_heap (gx_cp gx_p 3 27) gx_heap)) = [].
Proof. split_and!; vm_compute; reflexivity. Qed.

Lemma gx_stage5_runs :
  (* objects {"z":1} / {"z":2,"w":[true]}: the members of 'to' are sorted to w, z: add /x/w, replace /x/z *)
  gx_cp_dump gx_p 8 25 = gx_cp_model gx_p 8 25 /\ gx_cp_count gx_p 8 25 = Some 2%nat /\
  (* the two documents, path "": 8 operations, nested paths "/a/1", "/k~1~0/w" built in new_path blocks *)
  gx_cp_dump [] 1 20 = gx_cp_model [] 1 20 /\ gx_cp_count [] 1 20 = Some 8%nat /\
  (* 'from' and 'to' are left sorted, exactly as the value-level model says *)
  (match PatchDefs.create_patches (Tree.node_depth (gx_node gx_F 1)) [] [] (gx_node gx_F 1) (gx_node gx_F 20) true with
   | Ok (_, f', t') =>
       out_val (CoreOps.dump_node 50 (Some 1%positive) (out_heap (gx_cp [] 1 20) gx_heap)) = Some (Some (f', true)) /\
       out_val (CoreOps.dump_node 50 (Some 20%positive) (out_heap (gx_cp [] 1 20) gx_heap)) = Some (Some (t', true)) /\
       f' <> gx_node gx_F 1
   | _ => False
   end) /\
  elements (lib_live gx_heap ∖ lib_live (out_heap (gx_cp [] 1 20) gx_heap)) = [].
Proof. split_and!; try (vm_compute; reflexivity). vm_compute. split; [reflexivity|]. split; [reflexivity|]. discriminate. Qed.

(** ** stage 6: the entry point, and the round trip *)
Definition gx_heap2 : heap := heap_of_forest gx_A gx_St.
Definition gx_vfrom : Tree.node := reify gx_St gx_from.
Definition gx_vto : Tree.node := reify gx_St gx_to.
Definition gx_gen_run : out (ptr * heap) :=
  GenPatchHeapDefs.cJSONUtils_GeneratePatchesCaseSensitive nofail (Some 1%positive) (Some 20%positive) gx_heap2.
Definition gx_gen_after : heap := out_heap gx_gen_run gx_heap2.
Definition gx_dup_run : out (ptr * heap) := cJSON_Duplicate nofail (Some 1%positive) true gx_gen_after.
Definition gx_dup_after : heap := out_heap gx_dup_run gx_gen_after.
Definition gx_dup_id : ptr := match out_val gx_dup_run with Some p => p | None => None end.
Definition gx_apply_run : out (Z * heap) :=
  PatchHeapApplyDefs.cJSONUtils_ApplyPatchesCaseSensitive nofail gx_dup_id (Some 1000%positive) gx_dup_after.
Definition gx_apply_after : heap := out_heap gx_apply_run gx_dup_after.

Lemma gx_MInv2 : MInv gx_heap2 gx_A.
Proof. apply heap_of_forest_MInv; vm_compute; reflexivity. Qed.

Lemma gx_stage6_runs :
  out_val gx_gen_run = Some (Some 1000%positive) /\
  (match PatchDefs.cJSONUtils_GeneratePatchesCaseSensitive gx_vfrom gx_vto with
   | Ok (patches, f', t') =>
       out_val (CoreOps.dump_node 50 (Some 1000%positive) gx_gen_after) = Some (Some (patches, true)) /\
       out_val (CoreOps.dump_node 50 (Some 1%positive) gx_gen_after) = Some (Some (f', true)) /\
       out_val (CoreOps.dump_node 50 (Some 20%positive) gx_gen_after) = Some (Some (t', true)) /\
       length (Tree.n_children patches) = 8%nat
   | _ => False
   end) /\
  (* NULL arguments: NULL, nothing touched *)
  GenPatchHeapDefs.cJSONUtils_GeneratePatchesCaseSensitive nofail None (Some 20%positive) gx_heap2 = Ret (None, gx_heap2) /\
  GenPatchHeapDefs.cJSONUtils_GeneratePatches nofail (Some 1%positive) None gx_heap2 = Ret (None, gx_heap2) /\
  (* nothing of the operands released; every temporary gone: the 62 ... new blocks are what the array owns *)
  elements (lib_live gx_heap2 ∖ lib_live gx_gen_after) = [] /\
  (* the round trip: duplicate 'from', apply the generated patch to the duplicate *)
  out_val gx_apply_run = Some 0 /\
  (match out_val (CoreOps.dump_node 50 gx_dup_id gx_apply_after) with
   | Some (Some (d, true)) => Rfc6902.doc_eqb d gx_vto = true /\ Rfc6902.doc_eqb gx_vto d = true
   | _ => False
   end) /\
  (* 'to' reads back unchanged *)
  out_val (CoreOps.dump_node 50 (Some 20%positive) gx_apply_after) = out_val (CoreOps.dump_node 50 (Some 20%positive) gx_gen_after).
Proof. split_and!; try (vm_compute; reflexivity). all: vm_compute; repeat split; reflexivity. Qed.

Lemma tdisj_dec' a b : forallb (fun x => bool_decide (x ∉ ids_t b)) (ids_t a) = true -> tdisj a b.
Proof.
  intros H x Hx. rewrite forallb_forall in H. specialize (H x ltac:(by apply elem_of_list_In)). by apply bool_decide_eq_true in H.
Qed.

Lemma gx_hypotheses :
  MInv gx_heap2 gx_A /\ NoLeak gx_heap2 gx_A /\
  find_tree 1%positive gx_A = Some gx_from /\ find_tree 20%positive gx_A = Some gx_to /\ tdisj gx_from gx_to /\
  gdoc gx_from /\ gdoc gx_to /\ (height gx_to <= LIMIT)%nat /\ Z.of_nat (tsize gx_from) <= PointerDefs.SIZE_MAX /\
  PatchConform.dwf (reify (h_str gx_heap2) gx_from) /\ PatchConform.dwf (reify (h_str gx_heap2) gx_to) /\
  PatchApply.shallow (reify (h_str gx_heap2) gx_from) /\ PatchApply.shallow (reify (h_str gx_heap2) gx_to) /\
  2 * Z.of_nat (Tree.node_size (reify (h_str gx_heap2) gx_from) + Tree.node_size (reify (h_str gx_heap2) gx_to)) <= PointerDefs.SIZE_MAX.
Proof.
  assert (Df : PatchConform.dwf (reify (h_str gx_heap2) gx_from)) by (apply PatchSeq.dwfb_sound; vm_compute; reflexivity).
  assert (Dt : PatchConform.dwf (reify (h_str gx_heap2) gx_to)) by (apply PatchSeq.dwfb_sound; vm_compute; reflexivity).
  split; [exact gx_MInv2|]. split; [apply heap_of_forest_NoLeak|]. split; [vm_compute; reflexivity|]. split; [vm_compute; reflexivity|].
  split; [apply tdisj_dec'; vm_compute; reflexivity|]. split; [exact (GenPatchHeapRound.dwf_gdoc _ _ Df)|].
  split; [exact (GenPatchHeapRound.dwf_gdoc _ _ Dt)|]. split; [vm_compute; lia|]. split; [vm_compute; discriminate|].
  split; [exact Df|]. split; [exact Dt|]. split; [apply PatchSeq.shallowb_sound; vm_compute; reflexivity|].
  split; [apply PatchSeq.shallowb_sound; vm_compute; reflexivity|]. vm_compute. discriminate.
Qed.

(** [generate_patches_refines] / [generate_patches_ledger] / [generate_then_apply] instantiated on [gx_heap2] *)
Lemma gx_refines_instance :
  exists h' F' res tf' tu',
    generate_patches nofail (Some 1%positive) (Some 20%positive) true gx_heap2 = Ret (Some (tid res), h') /\
    MInv h' (F' ++ [res]) /\ NoLeak h' (F' ++ [res]) /\
    find_tree 1%positive F' = Some tf' /\ find_tree 20%positive F' = Some tu' /\ treord gx_from tf' /\ treord gx_to tu' /\
    PatchDefs.generate_patches (reify (h_str gx_heap2) gx_from) (reify (h_str gx_heap2) gx_to) true =
      Ok (reify (h_str h') res, reify (h_str h') tf', reify (h_str h') tu').
Proof.
  destruct gx_hypotheses as (I & NL & Hf & Ht & Hdis & Gf & Gt & Hh & Hmax & _).
  destruct (generate_patches_refines true gx_heap2 gx_A 1%positive 20%positive gx_from gx_to I Hf Ht Hdis Gf Gt Hh Hmax)
    as (h' & F' & res & tf' & tu' & Hrun & I' & _ & _ & Hf' & Ht' & Rf & Rt & V & NL' & _).
  exists h', F', res, tf', tu'. exact (conj Hrun (conj I' (conj (NL' NL) (conj Hf' (conj Ht' (conj Rf (conj Rt V))))))).
Qed.

Lemma gx_roundtrip_instance :
  exists h1 F1 res h2 dup h3 docT arrT,
    GenPatchHeapDefs.cJSONUtils_GeneratePatchesCaseSensitive nofail (Some 1%positive) (Some 20%positive) gx_heap2 = Ret (Some (tid res), h1) /\
    MInv h1 (F1 ++ [res]) /\ NoLeak h1 (F1 ++ [res]) /\
    cJSON_Duplicate nofail (Some 1%positive) true h1 = Ret (Some (tid dup), h2) /\
    PatchHeapApplyDefs.cJSONUtils_ApplyPatchesCaseSensitive nofail (Some (tid dup)) (Some (tid res)) h2 = Ret (0, h3) /\
    MInv h3 (F2 F1 [] [] docT arrT) /\ NoLeak h3 (F2 F1 [] [] docT arrT) /\ tid docT = tid dup /\
    Rfc6902.doc_eq (reify (h_str h3) docT) (reify (h_str gx_heap2) gx_to).
Proof.
  destruct gx_hypotheses as (I & NL & Hf & Ht & Hdis & _ & _ & _ & _ & Df & Dt & Sf & St & Hsz).
  destruct (GenPatchHeapRound.generate_then_apply gx_heap2 gx_A 1%positive 20%positive gx_from gx_to I Hf Ht Hdis Df Dt Sf St Hsz)
    as (h1 & F1 & res & tf' & tu' & Hrun1 & I1 & NL1 & _ & _ & _ & _ & _ & h2 & dup & Hrun2 & _ & _ & _ & h3 & docT & arrT & Hrun3 & I3 & Etd & _ & NL3 & _ & Deq & _).
  exists h1, F1, res, h2, dup, h3, docT, arrT.
  exact (conj Hrun1 (conj I1 (conj (NL1 NL) (conj Hrun2 (conj Hrun3 (conj I3 (conj (NL3 NL) (conj Etd Deq)))))))).
Qed.

(** ** outside [gdoc] (trees that are not JSON values): what the hypothesis is needed for *)
(** two string nodes WITHOUT a valuestring under the same name: create_patches calls strcmp(from->valuestring,
    to->valuestring).  (On /repo: SEGV in strcmp called from create_patches, cJSON_Utils.c:1241.) *)
Definition gx_from3 : tree := exh_mk 1 c_cJSON_Object None 0 None [exh_mk 2 c_cJSON_String None 0 (Some 101%positive) []].
Definition gx_to3 : tree := exh_mk 10 c_cJSON_Object None 0 None [exh_mk 11 c_cJSON_String None 0 (Some 111%positive) []].
Definition gx_heap3 : heap :=
  heap_of_forest [gx_from3; gx_to3] (list_to_map [(101%positive, [107; 0]); (111%positive, [107; 0])]).
Lemma gx_string_without_value_null_deref :
  MInv gx_heap3 [gx_from3; gx_to3] /\
  out_err (GenPatchHeapDefs.cJSONUtils_GeneratePatchesCaseSensitive nofail (Some 1%positive) (Some 10%positive) gx_heap3) = Some NullDeref.
Proof. split; [apply heap_of_forest_MInv; vm_compute; reflexivity|vm_compute; reflexivity]. Qed.

(** a member of [to] WITHOUT a name (what cJSON_AddItemToArray(object, item) builds): compare_strings answers 1 for a NULL
    name, compose_patch is called with suffix NULL: no memory error, but the operation is {"op":"add","path":"","value":5} —
    it would replace the whole document.  Heap-level code, value-level model and /repo agree. *)
Definition gx_from4 : tree := exh_mk 1 c_cJSON_Object None 0 None [exh_mk 2 c_cJSON_Number None 1 (Some 101%positive) []].
Definition gx_to4 : tree :=
  exh_mk 10 c_cJSON_Object None 0 None [exh_mk 11 c_cJSON_Number None 1 (Some 111%positive) []; exh_mk 12 c_cJSON_Number None 5 None []].
Definition gx_St4 : gmap positive bytes := list_to_map [(101%positive, [97; 0]); (111%positive, [97; 0])].
Definition gx_heap4 : heap := heap_of_forest [gx_from4; gx_to4] gx_St4.
Definition gx_run4 : out (ptr * heap) :=
  GenPatchHeapDefs.cJSONUtils_GeneratePatchesCaseSensitive nofail (Some 1%positive) (Some 10%positive) gx_heap4.
Lemma gx_keyless_member_observed :
  MInv gx_heap4 [gx_from4; gx_to4] /\ ~ gdoc gx_to4 /\
  out_val gx_run4 = Some (Some 1000%positive) /\
  (match PatchDefs.cJSONUtils_GeneratePatchesCaseSensitive (reify gx_St4 gx_from4) (reify gx_St4 gx_to4) with
   | Ok (patches, _, _) =>
       out_val (CoreOps.dump_node 50 (Some 1000%positive) (out_heap gx_run4 gx_heap4)) = Some (Some (patches, true)) /\
       patches = PatchDefs.set_children PatchDefs.create_array
                   (PatchDefs.compose_patch [] PatchDefs.s_add [] None (Some (Tree.Node c_cJSON_Number None 5 (dbl_of_int 5) None [])))
   | _ => False
   end).
Proof.
  split; [apply heap_of_forest_MInv; vm_compute; reflexivity|]. split.
  - intros G. destruct (G gx_to4 ltac:(unfold gx_to4, exh_mk; rewrite nodes_t_unfold; by left)) as [Hk _].
    apply (Hk eq_refl (exh_mk 12 c_cJSON_Number None 5 None [])); [|reflexivity]. right. by left.
  - split; [vm_compute; reflexivity|]. vm_compute. split; reflexivity.
Qed.
