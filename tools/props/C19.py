"""C19 — sorting an object yields a sorted permutation of the same members and a healthy container."""
import random, json
from .common import *

AREA = 'sort'
MODEL_FILES = 'SortDefs.v (compare_strings, sort_list, sort_object, cJSONUtils_SortObject[CaseSensitive] on the Heap.v memory model)'
RULE = ('objects of 0-40 members (a stream up to 200) over key pools with duplicate keys, case variants (a/A/Ab/aB), the empty key, keys that '
        'are prefixes of one another, bytes >= 0x80, control bytes; shapes: random, already sorted, strictly sorted, reversed, all equal, two '
        'interleaved runs, sorted except one; members are numbers / strings / nested containers carrying a unique marker; both variants; a sample repeated while the allocator refuses every request during the sort (sorting needs no memory); '
        'every case sorts twice and then runs a follow-up edit history through the real API (append, insert, detach by index/key/last, '
        'replace by index/key, get, size, sort again, print) that is judged against a python list model; utilities that sort internally '
        '(GeneratePatches, GenerateMergePatch, patch "test") on document pairs followed by an append/detach probe on every container; '
        'verdict: python stable sorted() with the variant key function, same member nodes, subtrees untouched, idempotent, links healthy, '
        'ledger balanced; non-trivial = at least 2 members that are not already strictly sorted, or a follow-up history of >= 2 edits')
ASSUMPTIONS = ['C locale (tolower is ASCII-only)', 'hand-written transliteration validated by this differential run',
               'member keys are non-NULL C strings (NULL keys are run for memory safety and link health only)']

def keyfn(cs):
    if cs: return lambda b: bytes(b)
    return lambda b: bytes((c + 32) if 65 <= c <= 90 else c for c in b)

POOLS = [
    [b'a', b'b', b'c', b'd', b'e', b'f', b'g', b'h'],
    [b'a', b'A', b'b', b'B', b'Ab', b'aB', b'AB', b'ab', b'', b'a', b'Z', b'z', b'[', b'_', b'`', b'@'],
    [b'', b'a', b'ab', b'abc', b'abcd', b'b', b'ba', b'abd', b'ab\x01', b'ab~'],
    [b'\x80', b'\xff', b'\x7f', b'a\x80', b'a\xff', b'a', b'\xc3\xa9', b'\xc3\x89', b'z', b'\x01', b'\xe2\x82\xac', b'E', b'e'],
    [b'key', b'Key', b'KEY', b'kEy', b'key1', b'key10', b'key2', b'k', b'ke', b'keY'],
    [b'm'],
]

def member_tokens(rng, i, key, shape=None):
    """member number i: its value carries the marker i"""
    flags = F_CONST if (key is not None and rng.random() < 0.1) else 0
    k = rng.randrange(6) if shape is None else shape
    if k <= 2: return node_tokens(T_NUMBER | flags, vi=i, vd=float(i), key=key)
    if k == 3: return node_tokens(T_ARRAY | flags, key=key, children=[node_tokens(T_NUMBER, vi=i, vd=float(i)), node_tokens(T_STRING, vs=b'x'), node_tokens(T_TRUE)])
    if k == 4: return node_tokens(T_OBJECT | flags, key=key, children=[node_tokens(T_NUMBER, vi=i, vd=float(i), key=b'z'),
                                                                       node_tokens(T_NULL, key=b'a'), node_tokens(T_ARRAY, key=b'm', children=[node_tokens(T_FALSE)])])
    return node_tokens(T_ARRAY | flags, key=key, children=[node_tokens(T_NUMBER, vi=i, vd=float(i))])

def gen_keys(rng, n, pool, shape, cs):
    kf = keyfn(cs)
    if shape == 'equal': return [rng.choice(pool)] * n
    ks = [rng.choice(pool) for _ in range(n)]
    if shape == 'distinct':
        ks = list(dict.fromkeys(ks + pool))[:n]; rng.shuffle(ks)
        while len(ks) < n: ks.append(ks[-1] + b'x' if ks else b'x')
    if shape == 'sorted': ks.sort(key=kf)
    elif shape == 'strict':
        ks = sorted({kf(k): k for k in ks}.values(), key=kf)
        while len(ks) < n: ks.append(ks[-1] + b'!' if ks else b'!')
    elif shape == 'reversed': ks.sort(key=kf, reverse=True)
    elif shape == 'tworuns':
        h = (n + 1) // 2; ks = sorted(ks[:h], key=kf) + sorted(ks[h:], key=kf)
    elif shape == 'almost':
        ks.sort(key=kf)
        if n >= 2:
            i = rng.randrange(n); x = ks.pop(i); ks.insert(rng.randrange(n), x)
    return ks

def gen_ops(rng, n, keys, k):
    ops = []; pool = [b'a', b'A', b'm', b'zz', b'', b'\x80', b'0'] + keys[:6]
    size = n
    for _ in range(k):
        r = rng.random(); key = hx(rng.choice(pool))
        if r < 0.25: ops.append('app:' + key); size += 1
        elif r < 0.4: ops.append('ins:%d:%s' % (rng.choice([0, 0, 1, max(0, size - 1), size, size + 3, rng.randrange(size + 1)]), key)); size += 1
        elif r < 0.5: ops.append('det:%d' % rng.choice([0, 0, max(0, size - 1), rng.randrange(size + 1), size + 2])); size = max(0, size - 1)
        elif r < 0.58: ops.append('detl'); size = max(0, size - 1)
        elif r < 0.64: ops.append('detk:' + key)
        elif r < 0.74: ops.append('rep:%d:%s' % (rng.choice([0, max(0, size - 1), rng.randrange(size + 1)]), key))
        elif r < 0.8: ops.append('repk:' + key)
        elif r < 0.86: ops.append('get:' + key)
        elif r < 0.9: ops.append('size')
        elif r < 0.95: ops.append('sort')
        else: ops.append('print')
    return ops

def mk_case(rng, cs, keys, ops, tags, shapes=None):
    n = len(keys)
    members = [member_tokens(rng, i, keys[i], None if shapes is None else shapes[i]) for i in range(n)]
    line = 'sortobj %d %s' % (cs, ' '.join(node_tokens(T_OBJECT, children=members)))
    if ops: line += ' ' + ' '.join(ops)
    return Case(line, {'tags': tags + ['cs' if cs else 'ci', 'n=%s' % (n if n <= 4 else ('5-16' if n <= 16 else ('17-40' if n <= 40 else '>40')))],
                       'keys': [None if k is None else k.hex() for k in keys], 'cs': cs, 'ops': ops, 'members': [' '.join(m) for m in members]})

def corpus(ctx): return load_corpus(ctx['verif'], 'C19')

DOCS = None
def rand_doc(rng, depth, pool):
    r = rng.random()
    if depth <= 0 or r < 0.3: return rng.choice([None, True, 1, 2, 'x', 'y', 2.5])
    if r < 0.45: return [rand_doc(rng, depth - 1, pool) for _ in range(rng.choice([0, 1, 2, 3]))]
    n = rng.choice([0, 1, 2, 3, 4, 6, 9])
    return Obj([(rng.choice(pool), rand_doc(rng, depth - 1, pool)) for _ in range(n)])
def mutate_doc(rng, d, pool):
    if isinstance(d, Obj):
        items = [(k, mutate_doc(rng, v, pool) if rng.random() < 0.5 else v) for k, v in d if rng.random() > 0.15]
        if rng.random() < 0.5: items.append((rng.choice(pool), rand_doc(rng, 1, pool)))
        rng.shuffle(items)
        return Obj(items)
    if isinstance(d, list) and rng.random() < 0.5: return [mutate_doc(rng, v, pool) for v in d]
    return d if rng.random() < 0.6 else rand_doc(rng, 1, pool)

def generate(ctx):
    rng = random.Random(ctx['seed'] * 7919 + 19)
    quick = ctx['tier'] == 'quick'
    cases = []
    shapes = ['random', 'random', 'distinct', 'sorted', 'strict', 'reversed', 'equal', 'tworuns', 'almost']
    # every small size with every shape, both variants
    for n in list(range(0, 9)) + [15, 16, 17, 31, 32, 33, 40]:
        for shape in shapes[1:]:
            for cs in (0, 1):
                pool = rng.choice(POOLS[:5])
                ks = gen_keys(rng, n, pool, shape, cs)
                cases.append(mk_case(rng, cs, ks, gen_ops(rng, n, ks, rng.choice([0, 1, 2, 4, 8])), [shape]))
    for _ in range(250 if quick else 4000):
        n = rng.choice([0, 1, 2, 2, 3, 3, 4, 5, 6, 7, 8, 10, 12, 16, 20, 25, 33, 40]); cs = rng.randrange(2)
        pool = rng.choice(POOLS); shape = rng.choice(shapes)
        ks = gen_keys(rng, n, pool, shape, cs)
        cases.append(mk_case(rng, cs, ks, gen_ops(rng, n, ks, rng.choice([0, 1, 2, 3, 5, 8, 12])), [shape]))
    for _ in range(4 if quick else 40):   # larger
        n = rng.choice([64, 100, 127, 128, 129, 200]); cs = rng.randrange(2)
        ks = gen_keys(rng, n, rng.choice(POOLS[:5]), rng.choice(shapes), cs)
        cases.append(mk_case(rng, cs, ks, gen_ops(rng, n, ks, 4), ['large'], shapes=[0] * n))
    # fixed cases aimed at the case splits: F14 (sort then append), F17 (equal keys), case variants, unsigned bytes
    for cs in (0, 1):
        for ks, ops in [([b'b', b'a', b'c'], ['app:' + hx(b'd'), 'size', 'print']), ([b'a', b'a'], ['sort', 'sort']), ([b'a', b'A', b'a', b'A'], ['sort']),
                        ([b'B', b'a', b'C'], ['print']), ([b'\xff', b'a', b'\x80', b'\x7f'], ['app:' + hx(b'\x80')]), ([b'b', b'a'], ['app:' + hx(b'c'), 'detl', 'detl', 'detl', 'app:' + hx(b'x')]),
                        ([b'ab', b'a', b''], ['ins:0:' + hx(b'q'), 'ins:9:' + hx(b'r')]), ([b'x'], ['app:' + hx(b'a'), 'sort', 'det:0']), ([], ['app:' + hx(b'a'), 'sort']),
                        ([b'c', b'b', b'a'], ['det:0', 'det:0', 'det:0', 'size']), ([b'c', b'b', b'a'], ['rep:0:' + hx(b'z'), 'rep:2:' + hx(b'y'), 'repk:' + hx(b'b')]),
                        ([b'b', b'a', b'b', b'a', b'b'], ['detk:' + hx(b'b'), 'get:' + hx(b'b'), 'sort'])]:
            cases.append(mk_case(rng, cs, ks, ops, ['fixed'], shapes=[0] * len(ks)))
    # NULL keys: memory safety and link health only
    for _ in range(6 if quick else 60):
        n = rng.choice([2, 3, 5, 8]); cs = rng.randrange(2)
        ks = [rng.choice([None, b'a', b'b', b'A']) for _ in range(n)]
        if None not in ks: ks[rng.randrange(n)] = None
        cases.append(mk_case(rng, cs, ks, ['app:' + hx(b'q'), 'detl', 'size'], ['nullkey'], shapes=[0] * n))
    # sorting needs no memory: the same call while the allocator refuses every request must sort all the same
    for c in rng.sample([c for c in cases if c.line.startswith('sortobj')], 40 if quick else 400):
        t = c.line.split(' ', 2); info = dict(c.info); info['tags'] = list(info['tags']) + ['starved-allocator']
        cases.append(Case('sortobj %d %s' % (int(t[1]) + 2, t[2]), info))
    # utilities that sort internally
    upool = ['a', 'b', 'A', 'B', 'c', 'ab', '', 'k', 'K', 'z']
    for _ in range(90 if quick else 1500):
        a = Obj([(rng.choice(upool), rand_doc(rng, 2, upool)) for _ in range(rng.choice([0, 1, 2, 3, 4, 5, 8, 12]))])
        r = rng.random()
        if r < 0.3: b = mutate_doc(rng, a, upool)
        elif r < 0.5:
            items = list(a); rng.shuffle(items); b = Obj(items)      # same members in another order ("test" succeeds when keys are distinct)
        else: b = Obj([(rng.choice(upool), rand_doc(rng, 2, upool)) for _ in range(rng.choice([0, 1, 2, 3, 5, 9]))])
        which = rng.choice(['patches', 'mergepatch', 'test']); cs = rng.randrange(2)
        ta, tb = value_tokens(a), value_tokens(b)
        cases.append(Case('sortutil %s %d %s %s' % (which, cs, ' '.join(ta), ' '.join(tb)), {'tags': ['util:' + which, 'cs' if cs else 'ci'], 'A': ' '.join(ta), 'B': ' '.join(tb), 'which': which, 'cs': cs}))
    return cases

def project(c, out):
    if c.line.startswith('sortutil'): return ''
    return ' '.join(t for t in strip_suffix(out).split(' ') if not t.startswith('printed='))

# ---------------------------------------------------------------- token trees
def parse_tokens(toks, pos=0):
    """-> (node, newpos); node = (head tokens tuple, [children])"""
    if toks[pos] != 'N': raise ValueError('bad tree token %r at %d' % (toks[pos], pos))
    head = tuple(toks[pos + 1:pos + 6]); k = int(toks[pos + 6]); pos += 7; ch = []
    for _ in range(k):
        n, pos = parse_tokens(toks, pos); ch.append(n)
    return (head, ch), pos
def canon(node, top=True):
    """tree up to the order of object members (members sorted by their canonical form), root key ignored"""
    head, ch = node
    cc = [canon(c, False) for c in ch]
    if int(head[0]) & 0xFF == T_OBJECT: cc.sort()
    ty = int(head[0]) & ~F_CONST
    return (str(ty),) + tuple(head[1:4]) + (('*',) if top else (head[4],)) + (tuple(cc),)

def list_model(keys, order, ops, cs):
    """independent python model of the follow-up history; members = [idx, key]; returns list of (result, seq)"""
    cur = [[i, keys[i]] for i in order]; nid = len(keys); out = []; kf = keyfn(cs)
    for op in ops:
        p = op.split(':'); name = p[0]; res = '0'
        if name == 'app': cur.append([nid, unhx(p[1])]); nid += 1; res = '1'
        elif name == 'ins':
            w = int(p[1]); it = [nid, unhx(p[2])]; nid += 1
            if w < 0: res = '0'
            else: cur.insert(w, it) if w < len(cur) else cur.append(it); res = '1'
        elif name in ('det', 'detl'):
            w = len(cur) - 1 if name == 'detl' else int(p[1])
            if 0 <= w < len(cur): res = str(cur.pop(w)[0])
            else: res = '-'
        elif name == 'detk':
            k = unhx(p[1]); w = next((j for j, m in enumerate(cur) if m[1] == k), None)
            res = '-' if w is None else str(cur.pop(w)[0])
        elif name == 'rep':
            w = int(p[1]); it = [nid, unhx(p[2])]; nid += 1
            if 0 <= w < len(cur): cur[w] = it; res = '1'
            else: res = '0'
        elif name == 'repk':
            k = unhx(p[1]); it = [nid, k]; nid += 1
            w = next((j for j, m in enumerate(cur) if m[1] == k), None)
            if w is None: res = '0'
            else: cur[w] = it; res = '1'
        elif name == 'get':
            k = unhx(p[1]); w = next((j for j, m in enumerate(cur) if m[1] == k), None)
            res = '-' if w is None else str(cur[w][0])
        elif name == 'size': res = str(len(cur))
        elif name == 'sort': cur.sort(key=lambda m: kf(m[1])); res = '0'
        out.append((res, ','.join(str(m[0]) for m in cur), [list(m) for m in cur]))
    return out

def info_of(c):
    """the generator's info, reconstructed from the case line when missing (corpus / replay cases)"""
    if 'keys' in c.info or 'A' in c.info: return c.info
    t = c.line.split(' ')
    try:
        if t[0] == 'sortobj':
            root, pos = parse_tokens(t, 2)
            def flat(n): return ['N'] + list(n[0]) + [str(len(n[1]))] + [x for ch in n[1] for x in flat(ch)]
            return dict(c.info, cs=int(t[1]) & 1, keys=[None if ch[0][4] == '-' else ('' if ch[0][4] == '=' else ch[0][4]) for ch in root[1]],
                        members=[' '.join(flat(ch)) for ch in root[1]], ops=t[pos:])
        if t[0] == 'sortutil':
            a, pos = parse_tokens(t, 3)
            return dict(c.info, which=t[1], cs=int(t[2]), A=' '.join(t[3:pos]), B=' '.join(t[pos:]))
    except Exception: pass
    return c.info

def marker_of(v):
    if isinstance(v, (int, float)) and not isinstance(v, bool): return int(v)
    if isinstance(v, list) and v and isinstance(v[0], tuple): return marker_of(dict(v).get('z'))
    if isinstance(v, list) and v: return marker_of(v[0])
    return None

def verdict(c, out, ctx):
    c = Case(c.line, info_of(c))
    if is_crash(out): return 'crash / memory error: ' + out
    ap = alloc_problem(out)
    if ap: return ap
    toks = out.split(' ')
    if c.line.startswith('sortutil'):
        if 'A' not in c.info: return None
        try:
            ia = toks.index('A='); ib = toks.index('B='); ie = toks.index('END')
            A, _ = parse_tokens(toks[ia + 1:ib]); B, _ = parse_tokens(toks[ib + 1:ie])
        except Exception as e: return 'unreadable tree after the utility call: %r' % (e,)
        A0, _ = parse_tokens(c.info['A'].split(' ')); B0, _ = parse_tokens(c.info['B'].split(' '))
        if canon(A) != canon(A0): return 'first document is not a member-wise permutation of what it was before %s' % c.info['which']
        if canon(B) != canon(B0): return 'second document is not a member-wise permutation of what it was before %s' % c.info['which']
        if 'again=DIFF' in toks: return 'calling %s a second time changed the member order of a document (sorting is not idempotent)' % c.info['which']
        kv = dict(t.split('=', 1) for t in toks[ie + 1:] if '=' in t)
        if kv.get('failed') != '0': return 'after %s an append/size/detach probe failed on %s of %s containers' % (c.info['which'], kv.get('failed'), kv.get('probes'))
        # both roots are objects: the utility must have left them sorted
        kf = keyfn(c.info['cs'])
        for name, T in (('first', A), ('second', B)):
            ks = [kf(unhx(ch[0][4])) for ch in T[1]]
            if any(ks[i] > ks[i + 1] for i in range(len(ks) - 1)): return '%s document is not sorted after %s' % (name, c.info['which'])
        return None
    if 'keys' not in c.info: return None
    keys = [None if k is None else bytes.fromhex(k) for k in c.info['keys']]; cs = c.info['cs']; n = len(keys)
    kv = {}
    for t in toks:
        if '=' in t and not '>' in t: k, v = t.split('=', 1); kv.setdefault(k, v)
    def seq(s): return [int(x.split(':')[0]) if x.split(':')[0].lstrip('-').isdigit() else -1 for x in s.split(',')] if s else []
    if 'ord' not in kv or 'ord2' not in kv: return 'unreadable output'
    o1, o2 = seq(kv['ord']), seq(kv['ord2'])
    if sorted(o1) != list(range(n)): return 'after the sort the object does not consist of exactly its %d member nodes: %s' % (n, kv['ord'])
    if kv.get('H') != '1': return 'sibling links unhealthy after the sort (prev/next mirror, head.prev = tail, tail.next = NULL)'
    nullkey = any(k is None for k in keys)
    if not nullkey:
        exp = sorted(range(n), key=lambda i: keyfn(cs)(keys[i]))
        kf = keyfn(cs)
        if any(kf(keys[o1[i]]) > kf(keys[o1[i + 1]]) for i in range(n - 1)): return 'keys not non-decreasing after the sort: %s' % kv['ord']
        if o1 != exp: return 'sort is not stable: members with equal keys changed their relative order (%s, expected %s)' % (kv['ord'], exp)
        if o2 != o1: return 'sorting a sorted object changed the member order (%s then %s)' % (kv['ord'], kv['ord2'])
    if sorted(o2) != list(range(n)): return 'after the second sort members are missing or duplicated: %s' % kv['ord2']
    if kv.get('H2') != '1': return 'sibling links unhealthy after the second sort'
    # subtrees untouched: the tree is the input with its members permuted
    try:
        it = toks.index('T'); et = toks.index('ET')
        got = toks[it + 1:et]
    except ValueError: return 'unreadable output (tree)'
    members = [m.split(' ') for m in c.info['members']]
    exp_t = node_tokens(T_OBJECT, children=[members[i] for i in o1])
    if got != exp_t: return 'members or their subtrees changed during the sort'
    # follow-up history against the list model
    ops = c.info.get('ops', [])
    if ops and not nullkey or ops and all(not o.startswith(('sort', 'detk', 'repk', 'get')) for o in ops):
        model = list_model(keys, o2, ops, cs)
        res = [t for t in toks if '>' in t]
        if len(res) != len(ops): return 'follow-up edits: %d results for %d operations' % (len(res), len(ops))
        pi = 0; printed = [t for t in toks if t.startswith('printed=')]
        for op, t, (r, s, cur) in zip(ops, res, model):
            name, _, rest = t.partition('>')
            f = rest.split(';')
            if name != op or len(f) != 3: return 'unreadable follow-up result %r' % t
            if f[2] != '1': return 'after the sort, %s leaves unhealthy sibling links' % op
            if f[1] != s: return 'after the sort, %s behaves differently from the list model: members %s, expected %s' % (op, f[1], s)
            if f[0] != r: return 'after the sort, %s returns %s, the list model says %s' % (op, f[0], r)
            if op == 'print':
                if pi >= len(printed): return 'print produced no text'
                txt = printed[pi][len('printed='):]; pi += 1
                if txt == '-': return 'printing the sorted object failed'
                try:
                    pairs = json.loads(unhx(txt).decode('latin-1'), object_pairs_hook=lambda p: p)
                except Exception as e: return 'printed text of the sorted object is not JSON: %r' % (e,)
                if not (isinstance(pairs, list) and all(isinstance(x, tuple) for x in pairs)): return 'printed text is not an object'
                gotk = [k.encode('latin-1') for k, _ in pairs]; gotm = [marker_of(v) for _, v in pairs]
                if gotm != [m[0] for m in cur]: return 'printed member sequence %s differs from the list model %s' % (gotm, [m[0] for m in cur])
                if gotk != [m[1] if m[1] is not None else b'' for m in cur]: return 'printed keys differ from the list model'
    return None

def nontrivial(c, out):
    if is_crash(out): return False
    if c.line.startswith('sortutil'): return len(c.line) > 60
    ks = c.info.get('keys', [])
    if any(k is None for k in ks): return len(ks) >= 2
    kf = keyfn(c.info.get('cs', 1)); bs = [kf(bytes.fromhex(k)) for k in ks]
    return (len(ks) >= 2 and any(bs[i] >= bs[i + 1] for i in range(len(bs) - 1))) or len(c.info.get('ops', [])) >= 2


# ---------------------------------------------------------------------------------------------------------------------------------
# The HEAP-LEVEL transliterations the companion file Properties_C19_Heap.v is about are executed against the library too
# (area uheap, tools/props/uheap.py): same operand trees, results, operand trees afterwards and allocator ledger compared.
from . import uheap as _UH
AREAS = ['sort', 'uheap']
MODEL_FILES = MODEL_FILES + '; heap-level: ' + _UH.MODEL_FILES
RULE = RULE + ' || area uheap (heap-level transliterations, kinds %s): ' % '/'.join(_UH.KINDS_OF['C19']) + _UH.RULE
_generate0, _project0, _verdict0, _nontrivial0 = generate, project, verdict, nontrivial
def generate(ctx): return _generate0(ctx) + _UH.generate(ctx, kinds=_UH.KINDS_OF['C19'])
def project(c, out): return _UH.project(c, out) if c.info.get('area') == 'uheap' else _project0(c, out)
def verdict(c, out, ctx): return _UH.verdict(c, out, ctx) if c.info.get('area') == 'uheap' else _verdict0(c, out, ctx)
def nontrivial(c, out): return _UH.nontrivial(c, out) if c.info.get('area') == 'uheap' else _nontrivial0(c, out)
