(** LibcPrintRefText.v — the characters the reference "%1.<P>g" ([LibcPrint.fmt_g]) writes for a
    P-digit decimal significand D and a decimal exponent X' ([LibcG15Scale.g_text]):

      [g_text_ok]   1 <= P <= 17 -> 10^(P-1) <= D < 10^P -> -1000 < X' < 1000 ->
                    rfc_number (g_text P s D X') = true /\ zlen (g_text P s D X') <= 25

    for all three layouts (%f style with X' >= 0, %f style "0.000ddd" with -4 <= X' < 0, %e style
    with [exp_part]), trailing zeros of D stripped and the point dropped when nothing is left.
    The proof goes through one declarative shape, [rfc_shape]: sign, integer part ("0" or a
    non-zero digit and digits), an optional point with digits, an optional exponent e[+-]digits.
    Integer and list arithmetic only. *)
From Coq Require Import ZArith List Bool Lia.
From CJ Require Import Base Dbl Tree Grammar LibcNum LibcPrint PrintDefs PrintStrict PrintStrictWs
  PrintStrictRef LibcG15Scale.
Import ListNotations.
Local Open Scope Z_scope.

(** * lists of digits *)
Lemma strip0_digits l : forallb digit l = true -> forallb digit (strip0 l) = true.
Proof.
  induction l as [|c r IH]; intro H; [reflexivity|].
  cbn [forallb] in H. apply andb_true_iff in H as [Hc Hr]. specialize (IH Hr).
  cbn [strip0]. destruct (strip0 r) as [|a r'].
  - destruct (c =? 48); [reflexivity|]. cbn [forallb]. rewrite Hc. reflexivity.
  - cbn [forallb] in IH |- *. rewrite Hc. exact IH.
Qed.

Lemma strip0_length l : (length (strip0 l) <= length l)%nat.
Proof.
  induction l as [|c r IH]; [apply le_n|]. cbn [strip0]. destruct (strip0 r) as [|a r'].
  - destruct (c =? 48); cbn [length] in *; lia.
  - cbn [length] in *. lia.
Qed.

Lemma forallb_firstn {A} (f : A -> bool) : forall n l, forallb f l = true -> forallb f (firstn n l) = true.
Proof.
  induction n as [|n IH]; intros l H; [reflexivity|]. destruct l as [|a l]; [reflexivity|].
  cbn [forallb firstn] in *. apply andb_true_iff in H as [Ha Hl]. rewrite Ha. apply IH, Hl.
Qed.

Lemma forallb_skipn {A} (f : A -> bool) : forall n l, forallb f l = true -> forallb f (skipn n l) = true.
Proof.
  induction n as [|n IH]; intros l H; [exact H|]. destruct l as [|a l]; [reflexivity|].
  cbn [forallb skipn] in *. apply andb_true_iff in H as [_ Hl]. apply IH, Hl.
Qed.

Lemma zeros_digits n : forallb digit (repeat 48 n) = true.
Proof. induction n as [|n IH]; [reflexivity|]. cbn [repeat forallb]. rewrite IH. reflexivity. Qed.

Lemma skip_digits_app ds rest : forallb digit ds = true -> skip_digits (ds ++ rest) = skip_digits rest.
Proof.
  induction ds as [|c ds IH]; intro H; [reflexivity|].
  cbn [forallb] in H. apply andb_true_iff in H as [Hc Hds].
  cbn [app skip_digits]. rewrite Hc. apply IH, Hds.
Qed.

(** * the declarative shape of a number text *)

(** the text after the integer part: optional fraction, then the exponent part [E] *)
Definition mtail (fp E : bytes) : bytes := match fp with [] => E | _ => 46 :: fp ++ E end.

Lemma with_point_app ip fp E : with_point ip fp ++ E = ip ++ mtail fp E.
Proof. destruct fp as [|c fp]; cbn [with_point mtail]; [reflexivity|]. rewrite <- app_assoc. reflexivity. Qed.

(** integer part: a single 0, or a non-zero digit followed by digits *)
Definition ip_ok (ip : bytes) : Prop :=
  ip = [48] \/ exists d ds, ip = d :: ds /\ 49 <= d <= 57 /\ forallb digit ds = true.

(** exponent part: nothing, or e, a sign, at least one digit *)
Definition exp_ok (E : bytes) : Prop :=
  E = [] \/ exists s ds, E = 101 :: s :: ds /\ (s = 43 \/ s = 45) /\ ds <> [] /\ forallb digit ds = true.

Lemma skip_digits_exp E : exp_ok E -> skip_digits E = E.
Proof. intros [->|(s & ds & -> & _)]; reflexivity. Qed.

Lemma rfc_exp_ok E : exp_ok E -> rfc_exp E = true.
Proof.
  intros [->|(s & ds & -> & Hs & Hne & Hd)]; [reflexivity|].
  destruct ds as [|d ds]; [congruence|].
  cbn [forallb] in Hd. apply andb_true_iff in Hd as [Hd Hds].
  unfold rfc_exp. change ((101 =? 101) || (101 =? 69)) with true. cbv iota.
  destruct Hs as [-> | ->].
  - change ((43 =? 43) || (43 =? 45)) with true. cbv iota.
    rewrite Hd, (skip_digits_all _ Hds). reflexivity.
  - change ((45 =? 43) || (45 =? 45)) with true. cbv iota.
    rewrite Hd, (skip_digits_all _ Hds). reflexivity.
Qed.

Lemma rfc_frac_mtail fp E : forallb digit fp = true -> exp_ok E -> rfc_frac (mtail fp E) = true.
Proof.
  intros Hf HE. destruct fp as [|d r]; cbn [mtail].
  - pose proof (rfc_exp_ok E HE) as H.
    destruct HE as [->|(s & ds & -> & _)]; [reflexivity|].
    rewrite rfc_frac_ne by lia. exact H.
  - cbn [forallb] in Hf. apply andb_true_iff in Hf as [Hd Hr].
    change (rfc_frac (46 :: (d :: r) ++ E)) with (digit d && rfc_exp (skip_digits (r ++ E))).
    rewrite Hd, (skip_digits_app _ _ Hr), (skip_digits_exp _ HE). apply rfc_exp_ok, HE.
Qed.

Lemma skip_digits_mtail ds fp E : forallb digit ds = true -> exp_ok E ->
  skip_digits (ds ++ mtail fp E) = mtail fp E.
Proof.
  intros Hds HE. rewrite (skip_digits_app _ _ Hds).
  destruct fp as [|c fp]; cbn [mtail]; [apply skip_digits_exp, HE|reflexivity].
Qed.

(** every text of this shape is an RFC 8259 number *)
Lemma rfc_shape (s : bool) ip fp E : ip_ok ip -> forallb digit fp = true -> exp_ok E ->
  rfc_number ((if s then [45] else []) ++ with_point ip fp ++ E) = true.
Proof.
  intros Hip Hfp HE. rewrite with_point_app.
  pose proof (rfc_frac_mtail fp E Hfp HE) as HT.
  destruct Hip as [->|(d & ds & -> & Hd & Hds)].
  - destruct s; cbn [app].
    + rewrite rfc_number_minus. exact HT.
    + rewrite rfc_number_head_ne by lia. exact HT.
  - destruct s; cbn [app].
    + rewrite rfc_number_minus. destruct (Z.eqb_spec d 48); [lia|].
      rewrite (digit_of_range _ Hd), (skip_digits_mtail _ _ _ Hds HE). exact HT.
    + rewrite rfc_number_head_ne by lia. destruct (Z.eqb_spec d 48); [lia|].
      rewrite (digit_of_range _ Hd), (skip_digits_mtail _ _ _ Hds HE). exact HT.
Qed.

Lemma with_point_length ip fp : (length (with_point ip fp) <= length ip + 1 + length fp)%nat.
Proof.
  destruct fp as [|c fp]; cbn [with_point]; [lia|]. rewrite app_length. cbn [length]. lia.
Qed.

(** * the pieces [fmt_g] assembles *)

(** decimal digits of a number below 10^j: digits, between 1 and j of them *)
Lemma dec_nat_shape a j : 1 <= j <= 2000 -> 0 <= a < 10 ^ j ->
  forallb digit (dec_nat a) = true /\ (1 <= length (dec_nat a) <= Z.to_nat j)%nat.
Proof.
  intros Hj Ha. unfold dec_nat. split; [apply dec_fixed_digits|]. rewrite dec_fixed_length.
  destruct (Z.eq_dec a 0) as [->|Hnz].
  - change (Z.to_nat (ndigits 2000 0)) with 1%nat. lia.
  - assert (Hf : a < 10 ^ Z.of_nat 2000).
    { eapply Z.lt_le_trans; [apply Ha|]. apply Z.pow_le_mono_r; lia. }
    destruct (ndigits_spec 2000 a ltac:(lia) Hf) as [Hk [Hlo Hhi]].
    set (k := ndigits 2000 a) in *.
    assert (Hkj : k <= j).
    { destruct (Z.le_gt_cases k j) as [H|H]; [exact H|exfalso].
      assert (10 ^ j <= 10 ^ (k - 1)) by (apply Z.pow_le_mono_r; lia). lia. }
    lia.
Qed.

(** the exponent part of the e-style: well-formed and at most 5 bytes for a 3-digit exponent *)
Lemma exp_part_ok x : -1000 < x < 1000 -> exp_ok (exp_part x) /\ (length (exp_part x) <= 5)%nat.
Proof.
  intro Hx. unfold exp_part. cbv zeta.
  assert (Ha : 0 <= Z.abs x < 10 ^ 3) by (change (10 ^ 3) with 1000; lia).
  set (a := Z.abs x) in *.
  set (sg := if x <? 0 then 45 else 43).
  assert (Hsg : sg = 43 \/ sg = 45) by (unfold sg; destruct (x <? 0); [right|left]; reflexivity).
  destruct (Z.ltb_spec a 10) as [H10|H10].
  - destruct (dec_nat_shape a 1 ltac:(lia) ltac:(change (10 ^ 1) with 10; lia)) as [Hd Hl].
    split.
    + right. exists sg, (48 :: dec_nat a). split; [reflexivity|]. split; [exact Hsg|].
      split; [discriminate|]. cbn [forallb]. rewrite Hd. reflexivity.
    + cbn [length]. change (Z.to_nat 1) with 1%nat in Hl. lia.
  - destruct (dec_nat_shape a 3 ltac:(lia) Ha) as [Hd Hl].
    split.
    + right. exists sg, (dec_nat a). split; [reflexivity|]. split; [exact Hsg|].
      split; [|exact Hd]. intro E. rewrite E in Hl. cbn [length] in Hl. lia.
    + cbn [length]. change (Z.to_nat 3) with 3%nat in Hl. lia.
Qed.

(** the P digits of a P-digit number: a non-zero digit, then P - 1 digits *)
Lemma dec_fixed_shape P D : 1 <= P -> 10 ^ (P - 1) <= D < 10 ^ P ->
  exists d0 r, dec_fixed (Z.to_nat P) D = d0 :: r /\ 49 <= d0 <= 57 /\
               forallb digit r = true /\ length r = Z.to_nat (P - 1).
Proof.
  intros HP HD. destruct (Z.to_nat P) as [|k] eqn:Ek; [lia|].
  assert (Hk : Z.of_nat k = P - 1) by lia.
  assert (Pp : 0 < 10 ^ (P - 1)) by (apply Z.pow_pos_nonneg; lia).
  rewrite dec_fixed_head by lia. rewrite Hk.
  exists (48 + (D / 10 ^ (P - 1)) mod 10), (dec_fixed k D).
  split; [reflexivity|].
  assert (Hq : 1 <= D / 10 ^ (P - 1) < 10).
  { split.
    - apply Z.div_le_lower_bound; lia.
    - apply Z.div_lt_upper_bound; [lia|]. rewrite (pow10_succ P HP) in HD. lia. }
  rewrite Z.mod_small by lia.
  split; [lia|]. split; [apply dec_fixed_digits|]. rewrite dec_fixed_length. lia.
Qed.

(** * the theorem *)
Ltac sign_len s :=
  let l := fresh "lsg" in let H := fresh "Hsg" in
  set (l := length (if s then _ else _)) in *;
  assert (H : (l <= 1)%nat) by (unfold l; destruct s; cbn [length]; lia).

Theorem g_text_ok P s D X' : 1 <= P <= 17 -> 10 ^ (P - 1) <= D < 10 ^ P -> -1000 < X' < 1000 ->
  rfc_number (g_text P s D X') = true /\ zlen (g_text P s D X') <= 25.
Proof.
  intros HP HD HX. unfold g_text, g_body. cbv zeta.
  destruct (dec_fixed_shape P D ltac:(lia) HD) as (d0 & r & Eds & Hd0 & Hr & Hlen).
  rewrite Eds.
  assert (Hds : forallb digit (d0 :: r) = true).
  { cbn [forallb]. rewrite (digit_of_range _ Hd0), Hr. reflexivity. }
  assert (HlenP : (length r <= 16)%nat) by lia.
  unfold zlen.
  assert (He : rfc_number ((if s then [45] else []) ++
                           with_point (firstn 1 (d0 :: r)) (strip0 (skipn 1 (d0 :: r))) ++ exp_part X') = true /\
               Z.of_nat (length ((if s then [45] else []) ++
                           with_point (firstn 1 (d0 :: r)) (strip0 (skipn 1 (d0 :: r))) ++ exp_part X')) <= 25).
  { (* %e style *)
    destruct (exp_part_ok X' HX) as [HE HEl]. cbn [firstn skipn].
    split.
    - apply rfc_shape; [right; exists d0, []; auto|apply strip0_digits, Hr|exact HE].
    - rewrite !app_length. pose proof (with_point_length [d0] (strip0 r)) as W.
      cbn [length] in W. pose proof (strip0_length r) as S0. sign_len s.
      set (l2 := length (with_point [d0] (strip0 r))) in *.
      set (l3 := length (exp_part X')) in *. set (l4 := length (strip0 r)) in *. set (l5 := length r) in *.
      lia. }
  destruct (Z.leb_spec (-4) X') as [H4|H4]; cbn [andb]; [|exact He].
  destruct (Z.ltb_spec X' P) as [HltP|HgeP]; [|exact He].
  clear He.
  destruct (Z.leb_spec 0 X') as [H0|H0].
  - (* %f style, X' >= 0 *)
    destruct (Z.to_nat (X' + 1)) as [|n] eqn:En; [lia|].
    rewrite <- (app_nil_r (with_point _ _)).
    split.
    + apply rfc_shape; [|apply strip0_digits, forallb_skipn, Hds|left; reflexivity].
      right. exists d0, (firstn n r). cbn [firstn]. split; [reflexivity|]. split; [exact Hd0|].
      apply forallb_firstn, Hr.
    + rewrite app_nil_r, app_length.
      pose proof (with_point_length (firstn (S n) (d0 :: r)) (strip0 (skipn (S n) (d0 :: r)))) as W.
      pose proof (strip0_length (skipn (S n) (d0 :: r))) as S0.
      rewrite firstn_length in W. rewrite skipn_length in S0. cbn [length] in W, S0.
      sign_len s. lia.
  - (* %f style, -4 <= X' < 0 *)
    rewrite <- (app_nil_r (with_point _ _)).
    split.
    + apply rfc_shape; [left; reflexivity| |left; reflexivity].
      apply strip0_digits. rewrite forallb_app, zeros_digits, Hds. reflexivity.
    + rewrite app_nil_r, app_length.
      pose proof (with_point_length [48] (strip0 (repeat 48 (Z.to_nat (- X' - 1)) ++ d0 :: r))) as W.
      pose proof (strip0_length (repeat 48 (Z.to_nat (- X' - 1)) ++ d0 :: r)) as S0.
      rewrite app_length, repeat_length in S0. cbn [length] in W, S0.
      sign_len s. lia.
Qed.
