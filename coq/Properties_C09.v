(** Properties_C09.v — C09: printing into a caller buffer never writes outside it.

    Every theorem is about the buffer-level transliteration of cJSON_PrintPreallocated in
    PrintDefs.v, for ALL trees whose scalar fields are C values ([fields_ok]: valueint an int,
    valuedouble an IEEE binary64), ALL buffer lengths n = zlen buf >= 0, BOTH formats, ALL initial
    contents of the buffer, every allocation schedule, and EVERY C library whose "%d" / "%1.15g" /
    "%1.17g" outputs are C strings of at most 25 bytes ([LibcPrintSpec]) — a hypothesis, not an axiom. *)
From CJ Require Import Base Dbl Tree LibcNum LibcPrint PrintDefs PrintProofs.
Local Open Scope Z_scope.

(* every write lands in [0, n): the outcome is never OOB (nor OutOfFuel) *)
Theorem C09_no_overflow :
  forall fmt_d fmt_g15 fmt_g17 sscanf_lg, LibcPrintSpec fmt_d fmt_g15 fmt_g17 ->
  forall oracle junk (t : node) (buf : bytes) (fmt hr : bool),
    fields_ok t = true ->
    exists r, cJSON_PrintPreallocated fmt_d fmt_g15 fmt_g17 sscanf_lg oracle junk t (Some buf) (zlen buf) fmt hr = Ok r.
Proof. exact C09_no_overflow_proof. Qed.
Print Assumptions C09_no_overflow.

(* on every path, successful or not: the allocator is never called, and what comes back is still the caller's
   block of n bytes *)
Theorem C09_caller_block :
  forall fmt_d fmt_g15 fmt_g17 sscanf_lg, LibcPrintSpec fmt_d fmt_g15 fmt_g17 ->
  forall oracle junk (t : node) (buf : bytes) (fmt hr : bool) r,
    fields_ok t = true ->
    cJSON_PrintPreallocated fmt_d fmt_g15 fmt_g17 sscanf_lg oracle junk t (Some buf) (zlen buf) fmt hr = Ok r ->
    par_live r = 0 /\ par_requests r = 0%nat /\ exists b', par_buffer r = Some b' /\ zlen b' = zlen buf.
Proof. exact C09_caller_block_proof. Qed.
Print Assumptions C09_caller_block.

(* true => the buffer holds the text of the allocating print functions (render) and its terminator *)
Theorem C09_content :
  forall fmt_d fmt_g15 fmt_g17 sscanf_lg, LibcPrintSpec fmt_d fmt_g15 fmt_g17 ->
  forall oracle junk (t : node) (buf : bytes) (fmt hr : bool) r,
    fields_ok t = true ->
    cJSON_PrintPreallocated fmt_d fmt_g15 fmt_g17 sscanf_lg oracle junk t (Some buf) (zlen buf) fmt hr = Ok r ->
    par_flag r = true ->
    exists txt rest, render fmt_d fmt_g15 fmt_g17 sscanf_lg fmt 0 t = Some txt /\
                     par_buffer r = Some (txt ++ 0 :: rest) /\ zlen (txt ++ 0 :: rest) = zlen buf.
Proof. exact C09_content_proof. Qed.
Print Assumptions C09_content.

(* the exact characterisation of success (n is a C int) *)
Theorem C09_threshold :
  forall fmt_d fmt_g15 fmt_g17 sscanf_lg, LibcPrintSpec fmt_d fmt_g15 fmt_g17 ->
  forall oracle junk (t : node) (buf : bytes) (fmt hr : bool) r,
    fields_ok t = true -> zlen buf <= c_INT_MAX ->
    cJSON_PrintPreallocated fmt_d fmt_g15 fmt_g17 sscanf_lg oracle junk t (Some buf) (zlen buf) fmt hr = Ok r ->
    (par_flag r = true <->
     exists txt, render fmt_d fmt_g15 fmt_g17 sscanf_lg fmt 0 t = Some txt /\ zlen txt + 2 <= zlen buf).
Proof. exact C09_threshold_proof. Qed.
Print Assumptions C09_threshold.

(* it succeeds for every n at least five bytes larger than the text plus its terminator *)
Theorem C09_slack :
  forall fmt_d fmt_g15 fmt_g17 sscanf_lg, LibcPrintSpec fmt_d fmt_g15 fmt_g17 ->
  forall oracle junk (t : node) (buf : bytes) (fmt hr : bool) r txt,
    fields_ok t = true -> zlen buf <= c_INT_MAX ->
    cJSON_PrintPreallocated fmt_d fmt_g15 fmt_g17 sscanf_lg oracle junk t (Some buf) (zlen buf) fmt hr = Ok r ->
    render fmt_d fmt_g15 fmt_g17 sscanf_lg fmt 0 t = Some txt -> zlen txt + 1 + 5 <= zlen buf ->
    par_flag r = true.
Proof. exact C09_slack_proof. Qed.
Print Assumptions C09_slack.

(* success is monotone in n *)
Theorem C09_monotone :
  forall fmt_d fmt_g15 fmt_g17 sscanf_lg, LibcPrintSpec fmt_d fmt_g15 fmt_g17 ->
  forall oracle junk oracle' junk' (t : node) (buf buf' : bytes) (fmt hr hr' : bool) r r',
    fields_ok t = true -> zlen buf <= zlen buf' -> zlen buf' <= c_INT_MAX ->
    cJSON_PrintPreallocated fmt_d fmt_g15 fmt_g17 sscanf_lg oracle junk t (Some buf) (zlen buf) fmt hr = Ok r ->
    cJSON_PrintPreallocated fmt_d fmt_g15 fmt_g17 sscanf_lg oracle' junk' t (Some buf') (zlen buf') fmt hr' = Ok r' ->
    par_flag r = true -> par_flag r' = true.
Proof. exact C09_monotone_proof. Qed.
Print Assumptions C09_monotone.

(* the refinement reused by C04 / C05 / C08: what the allocating entry points return *)
Theorem C09_print_refines_render :
  forall fmt_d fmt_g15 fmt_g17 sscanf_lg, LibcPrintSpec fmt_d fmt_g15 fmt_g17 ->
  forall oracle junk (t : node) (fmt hr : bool),
    fields_ok t = true ->
    exists r, print fmt_d fmt_g15 fmt_g17 sscanf_lg oracle junk t fmt hr = Ok r /\
      (forall block, prr_block r = Some block ->
         exists txt, render fmt_d fmt_g15 fmt_g17 sscanf_lg fmt 0 t = Some txt /\ block = txt ++ [0]) /\
      ((forall i, oracle i = false) -> forall txt, render fmt_d fmt_g15 fmt_g17 sscanf_lg fmt 0 t = Some txt ->
         zlen txt + 2 <= c_INT_MAX -> prr_block r = Some (txt ++ [0])).
Proof. exact print_spec. Qed.
Print Assumptions C09_print_refines_render.

Theorem C09_buffered_refines_render :
  forall fmt_d fmt_g15 fmt_g17 sscanf_lg, LibcPrintSpec fmt_d fmt_g15 fmt_g17 ->
  forall oracle junk (t : node) (prebuffer : Z) (fmt hr : bool),
    fields_ok t = true -> 0 <= prebuffer ->
    exists r, cJSON_PrintBuffered fmt_d fmt_g15 fmt_g17 sscanf_lg oracle junk t prebuffer fmt hr = Ok r /\
      (forall block, prr_block r = Some block ->
         exists txt rest, render fmt_d fmt_g15 fmt_g17 sscanf_lg fmt 0 t = Some txt /\ block = txt ++ 0 :: rest) /\
      ((forall i, oracle i = false) -> forall txt, render fmt_d fmt_g15 fmt_g17 sscanf_lg fmt 0 t = Some txt ->
         zlen txt + 2 <= c_INT_MAX -> exists rest, prr_block r = Some (txt ++ 0 :: rest)).
Proof. exact print_buffered_spec. Qed.
Print Assumptions C09_buffered_refines_render.

(* non-vacuity: the libc contract has an inhabitant (the reference conversions behind a run-time
   guard), and on a concrete tree / 40-byte buffer the call returns true with the expected bytes *)
Theorem C09_libc_contract_inhabited : LibcPrintSpec guarded_fmt_d guarded_fmt_g15 guarded_fmt_g17.
Proof. exact guarded_libc_spec. Qed.
Print Assumptions C09_libc_contract_inhabited.

Theorem C09_nonvacuous :
  fields_ok nv_tree = true /\
  render guarded_fmt_d guarded_fmt_g15 guarded_fmt_g17 sscanf_lg true 0 nv_tree = Some nv_text /\
  exists r, cJSON_PrintPreallocated guarded_fmt_d guarded_fmt_g15 guarded_fmt_g17 sscanf_lg (fun _ => false) (fun _ => 165)
              nv_tree (Some nv_buffer) (zlen nv_buffer) true false = Ok r /\
            par_flag r = true /\ par_buffer r = Some (nv_text ++ 0 :: List.repeat 165 7).
Proof. exact C09_nonvacuous_proof. Qed.
Print Assumptions C09_nonvacuous.

(* the pinned tree's growth of an empty buffer without realloc read outside the block (F19, fixed in /repo) *)
Theorem C09_F19_refuted_pinned :
  ensure_grow_manual_pinned (fun _ => false) (fun _ => 165) (mkpb (Some nil) 0 0 0 false false false 1 1) nil 12 = OOB.
Proof. exact F19_empty_buffer_growth_refuted_pinned. Qed.
Print Assumptions C09_F19_refuted_pinned.
