#!/bin/sh
# try_dir.sh <dir with cJSON.c cJSON.h cJSON_Utils.c cJSON_Utils.h> <property-id>... — runs the FULL quick checks against that source directory,
# with scratch copies of the Coq development and drivers (nothing shared is touched)
src=$1; shift
s=$(mktemp -d /tmp/cjtrydir_XXXXXX)
cp -a /verif/coq $s/coq; cp -a /verif/ocaml $s/ocaml
for p in "$@"; do
  cd /verif && VERIF_REPO=$src VERIF_COQ_DIR=$s/coq VERIF_OCAML_DIR=$s/ocaml VERIF_EVIDENCE_DIR=$s/evidence VERIF_REPLAY_DIR=$s/replays python3 tools/check.py $p --tier quick 2>&1 | grep -v conda | tail -3; echo "$p exit=$?"
done
rm -rf $s
