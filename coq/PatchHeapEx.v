(** PatchHeapEx.v — non-vacuity of the PatchHeap* theorems on concrete heaps, by computation.

    [px_heap] encodes the forest [px_F] = [pointers; document]:
      document (root 1)  {"a":[10,{"b~":5}],"A":2,"c/d":3}     nodes 1-7, key blocks 101-105
      pointers (root 20) ["/a/1/b~0", "/c~1d", "/a/2", "a"]     string nodes 21-24, valuestring blocks 201-204
    allocator pointer 1000. *)
From CJ Require Import Base Dbl Heap Forest ForestLemmas CoreDefs CoreRefineFrame CoreRefineDupValue CoreLedgerGen.
From CJ Require Import TierBridgeDefs MergeHeapDefs MergeHeapInv MergeHeapEx PatchHeapDefs PatchHeapPath PatchHeapPointer PatchHeapStr PatchHeapSteps PatchHeapDetach.
From CJ Require Tree PointerDefs PatchDefs CoreOps.
From CJ.gen Require Import Constants.
From stdpp Require Import gmap.
Local Open Scope Z_scope.

Definition px_doc : tree :=
  exh_mk 1 c_cJSON_Object None 0 None
    [exh_mk 2 c_cJSON_Array None 0 (Some 101%positive)
       [exh_mk 3 c_cJSON_Number None 10 None [];
        exh_mk 4 c_cJSON_Object None 0 None [exh_mk 5 c_cJSON_Number None 5 (Some 102%positive) []]];
     exh_mk 6 c_cJSON_Number None 2 (Some 103%positive) [];
     exh_mk 7 c_cJSON_Number None 3 (Some 104%positive) []].
Definition px_ptrs : tree :=
  exh_mk 20 c_cJSON_Array None 0 None
    [exh_mk 21 c_cJSON_String (Some 201%positive) 0 None [];
     exh_mk 22 c_cJSON_String (Some 202%positive) 0 None [];
     exh_mk 23 c_cJSON_String (Some 203%positive) 0 None [];
     exh_mk 24 c_cJSON_String (Some 204%positive) 0 None []].
Definition px_F : forest := [px_ptrs; px_doc].
Definition px_St : gmap positive bytes :=
  list_to_map [(101%positive, [97; 0]); (102%positive, [98; 126; 0]); (103%positive, [65; 0]); (104%positive, [99; 47; 100; 0]);
               (201%positive, [47; 97; 47; 49; 47; 98; 126; 48; 0]);      (* /a/1/b~0 *)
               (202%positive, [47; 99; 126; 49; 100; 0]);                 (* /c~1d *)
               (203%positive, [47; 97; 47; 50; 0]);                       (* /a/2 *)
               (204%positive, [97; 0])].                                  (* a *)
Definition px_heap : heap := heap_of_forest px_F px_St.

Lemma px_MInv : MInv px_heap px_F.
Proof. apply heap_of_forest_MInv; vm_compute; reflexivity. Qed.
Lemma px_doc_node : px_doc ∈ nodes px_F.
Proof. apply roots_in_nodes. right. by left. Qed.
Lemma px_reads (b : positive) (s : bytes) :
  px_St !! b = Some s -> bool_decide (b ∈ owned px_F) = true -> existsb (Z.eqb 0) s = true -> CsReads px_heap (CAt b 0) (cstr s).
Proof.
  intros H1 H2 H3. apply CsReads_block; [|exact H1|exact H3]. unfold px_heap, heap_of_forest. cbn [h_live].
  apply elem_of_list_to_set. by apply bool_decide_eq_true in H2.
Qed.

(** the four pointers, resolved by the heap-level code (case-sensitive; the last line: case-insensitive "/a" finds
    member "a" first, and "/A" case-sensitively finds node 6) *)
Lemma px_runs :
  out_val (get_item_from_pointer (Some 1%positive) (CAt 201 0) true px_heap) = Some (Some 5%positive) /\
  out_val (get_item_from_pointer (Some 1%positive) (CAt 202 0) true px_heap) = Some (Some 7%positive) /\
  out_val (get_item_from_pointer (Some 1%positive) (CAt 203 0) true px_heap) = Some None /\
  out_val (get_item_from_pointer (Some 1%positive) (CAt 204 0) true px_heap) = Some None /\
  out_val (get_item_from_pointer (Some 1%positive) (CAt 201 2) true px_heap) = Some None /\
  out_val (get_item_from_pointer (Some 2%positive) (CAt 201 2) true px_heap) = Some (Some 5%positive).
Proof. vm_compute. done. Qed.

(** … and by the value-level model on the reified document *)
Lemma px_values :
  PointerDefs.get_item_from_pointer (reify px_St px_doc) [47; 97; 47; 49; 47; 98; 126; 48] true = Some [0; 1; 0]%nat /\
  PointerDefs.get_item_from_pointer (reify px_St px_doc) [47; 99; 126; 49; 100] true = Some [2]%nat /\
  PointerDefs.get_item_from_pointer (reify px_St px_doc) [47; 97; 47; 50] true = None /\
  PointerDefs.get_item_from_pointer (reify px_St px_doc) [97] true = None /\
  tid <$> subtree_t px_doc [0; 1; 0]%nat = Some 5%positive /\ tid <$> subtree_t px_doc [2]%nat = Some 7%positive.
Proof. vm_compute. done. Qed.

(** the hypotheses of [get_item_from_pointer_refines] hold for them, and the theorem's right-hand side is what was computed *)
Lemma px_stage1 :
  MInv px_heap px_F /\ px_doc ∈ nodes px_F /\
  CsReads px_heap (CAt 201 0) [47; 97; 47; 49; 47; 98; 126; 48] /\
  get_item_from_pointer (Some 1%positive) (CAt 201 0) true px_heap = Ret (Some 5%positive, px_heap).
Proof.
  split; [exact px_MInv|]. split; [exact px_doc_node|].
  assert (R : CsReads px_heap (CAt 201 0) [47; 97; 47; 49; 47; 98; 126; 48]).
  { exact (px_reads 201 [47; 97; 47; 49; 47; 98; 126; 48; 0] eq_refl eq_refl eq_refl). }
  split; [exact R|].
  change (Some 1%positive) with (Some (tid px_doc)).
  rewrite (get_item_from_pointer_refines px_heap px_F px_MInv px_doc _ _ true px_doc_node R).
  f_equal.
Qed.

(** * stage 2: detach_path *)
Definition px_heap_of {A} (o : out (A * heap)) : heap := out_heap o px_heap.
Definition px_det1 := detach_path nofail (Some 1%positive) (Some 201%positive) true px_heap.     (* /a/1/b~0 : member of an object *)
Definition px_det2 := detach_path nofail (Some 1%positive) (Some 203%positive) true px_heap.     (* /a/2 : no such element *)
Definition px_det3 := detach_path nofail (Some 1%positive) (Some 202%positive) true px_heap.     (* /c~1d *)
Definition px_num (v : Z) (k : option bytes) : Tree.node := Tree.Node c_cJSON_Number None v (dbl_of_int v) k [].
(** the document after /a/1/b~0 has been detached: {"a":[10,{}],"A":2,"c/d":3} *)
Definition px_doc1 : Tree.node :=
  Tree.Node c_cJSON_Object None 0 dzero None
    [Tree.Node c_cJSON_Array None 0 dzero (Some [97]) [px_num 10 None; Tree.Node c_cJSON_Object None 0 dzero None []];
     px_num 2 (Some [65]); px_num 3 (Some [99; 47; 100])].

(** the heap-level runs: result pointer, the document and the detached item read back from the result heap by
    the structural walk, and the ledger (nothing allocated stays live: the copy of the path, block 1000, is gone) *)
Lemma px_detach_runs :
  out_val px_det1 = Some (Some 5%positive) /\
  out_val (CoreOps.dump_node 50 (Some 1%positive) (px_heap_of px_det1)) = Some (Some (px_doc1, true)) /\
  out_val (CoreOps.dump_node 50 (Some 5%positive) (px_heap_of px_det1)) = Some (Some (px_num 5 (Some [98; 126]), true)) /\
  bool_decide (lib_live (px_heap_of px_det1) = lib_live px_heap) = true /\
  out_val px_det2 = Some None /\
  out_val (CoreOps.dump_node 50 (Some 1%positive) (px_heap_of px_det2)) = Some (Some (reify px_St px_doc, true)) /\
  bool_decide (lib_live (px_heap_of px_det2) = lib_live px_heap) = true /\
  out_val px_det3 = Some (Some 7%positive).
Proof. vm_compute. done. Qed.

(** the value-level model on the reified document *)
Lemma px_detach_values :
  PatchDefs.detach_path (reify px_St px_doc) [47; 97; 47; 49; 47; 98; 126; 48] true = Ok (Some (px_num 5 (Some [98; 126]), px_doc1)) /\
  PatchDefs.detach_path (reify px_St px_doc) [47; 97; 47; 50] true = Ok None.
Proof. vm_compute. done. Qed.

(** the hypotheses of [detach_path_refines] hold for this heap ([px_F] = [px_ptrs] ++ [px_doc]) *)
Lemma px_stage2 :
  MInv px_heap ([px_ptrs] ++ [px_doc]) /\ NoLeak px_heap ([px_ptrs] ++ [px_doc]) /\
  201%positive ∈ h_live px_heap /\ h_str px_heap !! 201%positive = Some [47; 97; 47; 49; 47; 98; 126; 48; 0] /\
  exists h' r F',
    detach_path nofail (Some (tid px_doc)) (Some 201%positive) true px_heap = Ret (r, h') /\
    MInv h' F' /\ h_str h' = h_str px_heap /\ NoLeak h' F' /\
    detach_post (h_str px_heap) [px_ptrs] px_doc r F' (Ok (Some (px_num 5 (Some [98; 126]), px_doc1))).
Proof.
  split; [exact px_MInv|]. split; [apply heap_of_forest_NoLeak|].
  assert (Hl : 201%positive ∈ h_live px_heap) by (apply (bool_decide_unpack _); vm_compute; exact I).
  split; [exact Hl|]. split; [reflexivity|].
  destruct (detach_path_refines px_heap [px_ptrs] px_doc 201 [47; 97; 47; 49; 47; 98; 126; 48; 0] true px_MInv Hl eq_refl eq_refl)
    as (h' & r & F' & Hrun & I' & Es & NL & _ & Hpost).
  exists h', r, F'. split; [exact Hrun|]. split; [exact I'|]. split; [exact Es|]. split; [apply NL, heap_of_forest_NoLeak|].
  replace (Ok (Some (px_num 5 (Some [98; 126]), px_doc1))) with
    (PatchDefs.detach_path (reify (h_str px_heap) px_doc) (cstr [47; 97; 47; 49; 47; 98; 126; 48; 0]) true); [exact Hpost|].
  vm_compute. reflexivity.
Qed.
