(** Properties_C13.v — property C13: Minify keeps the JSON value, shrinks in place and
    stays in its buffer.  Only statements closed by [exact]; proofs live elsewhere. *)
From CJ Require Import Base MinifyDefs MinifyProofs MinifyValue MinifyOld.
Local Open Scope Z_scope.

(** Safety, for every zero-terminated buffer: [Ok] = every read and write index lies in
    [0, |s|] (the bytes up to and including the original terminator) and the loops
    terminate; the buffer keeps its size; the resulting C string is [minify_spec s] and is
    not longer than the original. *)
Theorem C13_safe : forall s, nz s ->
  exists b', cJSON_Minify (s ++ [0]) = Ok b'
          /\ length b' = length (s ++ [0])
          /\ cstr b' = minify_spec s
          /\ (length (minify_spec s) <= length s)%nat.
Proof. exact cJSON_Minify_correct. Qed.
Print Assumptions C13_safe.

(** Value preservation, for every text = tokens separated by gaps of whitespace, // and
    block comments: the result is the concatenation of the tokens, byte for byte (string
    literals with any escapes included). *)
Theorem C13_value : forall s toks, text s toks -> minify_spec s = concat toks.
Proof. exact minify_text. Qed.
Print Assumptions C13_value.

Theorem C13_idempotent : forall s toks, text s toks -> minify_spec (minify_spec s) = minify_spec s.
Proof. exact minify_idempotent. Qed.
Print Assumptions C13_idempotent.

(** the hypotheses are satisfiable by a non-trivial text *)
Theorem C13_nonvacuous : exists s toks, text s toks /\ length toks = 5%nat /\ nz s.
Proof.
  eexists. eexists. split; [exact text_example|]. split; [reflexivity|].
  unfold nz. repeat constructor; lia.
Qed.
Print Assumptions C13_nonvacuous.

(** finding F7 re-derived: the statement is false of the pinned code's string loop *)
Theorem C13_value_refuted_pinned :
  exists s toks, text s toks /\ minify_old (length s + 1) s <> concat toks.
Proof. exact C13_value_refuted_for_pinned_code. Qed.
Print Assumptions C13_value_refuted_pinned.

(** ------------------------------------------------------------------------------------------
    The last clause of C13, for ALL texts of the language "JSON with comments"
    (MinifyGrammarDefs.v): the RFC 8259 grammar family of Grammar.v with gaps in place of
    whitespace runs.  [cvalue G] is that family over a gap predicate [G];
    [C13_comment_grammar_is_rfc_grammar] shows that it differs from Grammar.value in nothing
    else.  A gap ([MinifyValue.gap]) is any concatenation of space / tab / CR / LF, line
    comments  //…LF  (no LF inside) and block comments  /*…*/  ending at the first star-slash;
    the final gap ([gap_end]) may in addition end in one unterminated // or /* comment that
    runs to the end of the text.  [CJ_text txt v]: txt is such a text and denotes the value v;
    [CJ_erase txt min v]: a derivation of [CJ_text txt v] together with the text [min] of the
    same derivation with every gap erased (string literals: the same [chars] derivation, the
    same bytes).  [NOWS_text]: Grammar.text at the whitespace predicate [fun _ => false]. *)
From CJ Require Import Dbl Tree LibcNum ParseDefs ParseSpec Grammar ParseComplete
  MinifyGrammarDefs MinifyGrammar MinifyGrammarExample.

Theorem C13_comment_grammar_is_rfc_grammar : forall is_ws d t v,
  cvalue (ws is_ws) d t v <-> value is_ws rfc_raw rfc_num_tok d t v.
Proof. exact cvalue_ws_iff. Qed.
Print Assumptions C13_comment_grammar_is_rfc_grammar.

(** every RFC 8259 text is a text of the comment language; every text of the comment language
    has an erasure; an erasure is a derivation of the text it erases *)
Theorem C13_rfc_text_in_language : forall txt v, RFC_text txt v -> CJ_text txt v.
Proof. exact RFC_text_CJ. Qed.
Print Assumptions C13_rfc_text_in_language.

Theorem C13_erasure_exists : forall txt v, CJ_text txt v -> exists min, CJ_erase txt min v.
Proof. exact CJ_text_erase. Qed.
Print Assumptions C13_erasure_exists.

Theorem C13_erasure_sound : forall txt min v, CJ_erase txt min v -> CJ_text txt v.
Proof. exact CJ_erase_text. Qed.
Print Assumptions C13_erasure_sound.

(** Minify computes the erasure: the result is the same derivation with all gaps removed *)
Theorem C13_minify_erases_gaps : forall txt min v, CJ_erase txt min v -> minify_spec txt = min.
Proof. exact minify_CJ. Qed.
Print Assumptions C13_minify_erases_gaps.

(** "the result parses to a tree equal to that of the original": for every text the parser
    accepts under RFC 8259 (whitespace-only gaps), original and minified text parse to the
    tree of the denoted value, the minified one being consumed completely *)
Theorem C13_parses_equal : forall strtod txt v,
  strtod_rfc strtod -> RFC_text txt v -> jv_ok v ->
  option_map fst (text_l strtod txt false) = Some (tree_of strtod v) /\
  text_l strtod (minify_spec txt) false = Some (tree_of strtod v, []).
Proof. exact rfc_minify_parses_equal. Qed.
Print Assumptions C13_parses_equal.

(** with comments (which the parser itself does not accept): the minified text parses to the
    tree of the value the commented text denotes … *)
Theorem C13_parses_equal_comments : forall strtod txt v,
  strtod_rfc strtod -> CJ_text txt v -> jv_ok v ->
  text_l strtod (minify_spec txt) false = Some (tree_of strtod v, []).
Proof. exact CJ_text_minify_parse. Qed.
Print Assumptions C13_parses_equal_comments.

(** … which is the tree of every comment-free spelling [txt'] of the same derivation *)
Theorem C13_parses_equal_comment_free_spelling : forall strtod txt txt' min v,
  strtod_rfc strtod -> CJ_erase txt min v -> CJ_erase txt' min v -> RFC_text txt' v -> jv_ok v ->
  text_l strtod (minify_spec txt) false = Some (tree_of strtod v, []) /\
  option_map fst (text_l strtod txt' false) = Some (tree_of strtod v) /\
  minify_spec txt' = minify_spec txt.
Proof. exact CJ_minify_parses_equal. Qed.
Print Assumptions C13_parses_equal_comment_free_spelling.

(** "the result contains no whitespace or comments outside strings": it is derivable in the
    grammar with the EMPTY whitespace predicate, and denotes the same value *)
Theorem C13_result_has_no_gaps : forall txt v, CJ_text txt v -> NOWS_text (minify_spec txt) v.
Proof. exact CJ_text_minify_nows. Qed.
Print Assumptions C13_result_has_no_gaps.

Theorem C13_result_is_rfc_text : forall txt min v, CJ_erase txt min v -> RFC_text min v.
Proof. exact CJ_erase_rfc. Qed.
Print Assumptions C13_result_is_rfc_text.

(** "every string literal is preserved byte for byte": besides being the same [chars]
    derivation in [CJ_erase], every string literal (value or key, quotes included) is one token
    [tok_str] of a token list that, woven with gaps, is the text up to its final gap and,
    concatenated, is the result (the hypothesis and conclusion of C13_value) *)
Theorem C13_strings_preserved : forall txt v, CJ_text txt v ->
  exists pre w2 toks, txt = pre ++ w2 /\ gap_end w2 /\ MinifyValue.text pre toks /\
                      Forall tok toks /\ concat toks = minify_spec txt.
Proof. exact CJ_text_minify_tokens. Qed.
Print Assumptions C13_strings_preserved.

(** "minifying twice equals minifying once" *)
Theorem C13_idempotent_grammar : forall txt v, CJ_text txt v ->
  minify_spec (minify_spec txt) = minify_spec txt.
Proof. exact CJ_text_minify_idempotent. Qed.
Print Assumptions C13_idempotent_grammar.

(** everything at once *)
Theorem C13_comments_summary : forall strtod txt v,
  strtod_rfc strtod -> CJ_text txt v -> jv_ok v ->
  exists min, CJ_erase txt min v /\ minify_spec txt = min /\ NOWS_text min v /\ RFC_text min v /\
              text_l strtod min false = Some (tree_of strtod v, []) /\ minify_spec min = min.
Proof. exact CJ_text_summary. Qed.
Print Assumptions C13_comments_summary.

(** buffer level (composition with C13_safe): the transliterated cJSON_Minify, run on the
    zero-terminated text, stays in bounds and leaves the C string [min] *)
Theorem C13_buffer_value : forall txt v, CJ_text txt v -> nz txt ->
  exists b' min, cJSON_Minify (txt ++ [0]) = Ok b'
          /\ length b' = length (txt ++ [0])
          /\ cstr b' = min /\ CJ_erase txt min v /\ NOWS_text min v
          /\ (length min <= length txt)%nat.
Proof. exact cJSON_Minify_CJ_text. Qed.
Print Assumptions C13_buffer_value.

(** non-vacuity: a concrete text with both comment kinds, a comment glued to a number, a line
    comment ended by the end of the text, strings containing //, slash-star, an escaped quote
    and an escaped backslash before the closing quote (MinifyGrammarExample.v); the derivation
    is exhibited, Minify and both parses are evaluated with the reference strtod *)
Theorem C13_parses_equal_nonvacuous :
  strtod_rfc strtod_ref /\ CJ_erase cx_txt cx_min cx_v /\ CJ_erase cx_plain cx_min cx_v /\
  RFC_text cx_plain cx_v /\ jv_ok cx_v /\ nz cx_txt /\
  minify_spec cx_txt = cx_min /\
  text_l strtod_ref cx_min false = Some (tree_of strtod_ref cx_v, []) /\
  text_l strtod_ref cx_plain false = Some (tree_of strtod_ref cx_v, [13; 10; 32]).
Proof. exact minify_grammar_nonvacuous. Qed.
Print Assumptions C13_parses_equal_nonvacuous.

(** ------------------------------------------------------------------------------------------
    End to end at buffer level: the transliterated cJSON_Minify followed by the transliterated
    parser entry points on the buffer Minify leaves behind (its result, the terminator, the
    stale rest of the original).  [strtod_ok]/[strtod_rfc] are the contracts on the C library's
    strtod (ParseDefs.v / ParseComplete.v), proved for [strtod_ref]. *)
From CJ Require Import ParseSafe ParseCompleteEntry MinifyGrammarEntry.

(** the clause as stated: parsing the buffer before and after Minify gives equal trees *)
Theorem C13_parse_after_minify_equals_parse_before : forall strtod txt v,
  strtod_ok strtod -> strtod_rfc strtod -> RFC_text txt v -> jv_ok v ->
  forall rnt, exists b' r0 r1 r0' r1',
    cJSON_Minify (txt ++ [0]) = Ok b' /\
    cJSON_Parse strtod never_fails (txt ++ [0]) = Ok r0 /\
    cJSON_Parse strtod never_fails b' = Ok r1 /\
    cJSON_ParseWithOpts strtod never_fails (txt ++ [0]) rnt = Ok r0' /\
    cJSON_ParseWithOpts strtod never_fails b' rnt = Ok r1' /\
    pr_tree r1 = pr_tree r0 /\ pr_tree r1' = pr_tree r0' /\ pr_tree r0 = pr_tree r0' /\
    pr_tree r0 = Some (tree_of strtod v).
Proof. exact minify_preserves_parse. Qed.
Print Assumptions C13_parse_after_minify_equals_parse_before.

(** JSON with comments: Minify, then parse, yields the tree of the value the commented text
    denotes *)
Theorem C13_minify_then_parse : forall strtod txt v,
  strtod_ok strtod -> strtod_rfc strtod -> CJ_text txt v -> jv_ok v -> nz txt ->
  forall rnt, exists min beyond r1 r2,
    CJ_erase txt min v /\
    cJSON_Minify (txt ++ [0]) = Ok (min ++ 0 :: beyond) /\
    cJSON_Parse strtod never_fails (min ++ 0 :: beyond) = Ok r1 /\
    cJSON_ParseWithOpts strtod never_fails (min ++ 0 :: beyond) rnt = Ok r2 /\
    pr_tree r1 = Some (tree_of strtod v) /\ pr_tree r2 = Some (tree_of strtod v).
Proof. exact minify_then_parse. Qed.
Print Assumptions C13_minify_then_parse.

Theorem C13_minify_then_parse_nonvacuous :
  (exists b' r, cJSON_Minify (cx_txt ++ [0]) = Ok b' /\ cstr b' = cx_min /\
                cJSON_Parse strtod_ref never_fails b' = Ok r /\
                pr_tree r = Some (tree_of strtod_ref cx_v)) /\
  (exists b' r0 r1, cJSON_Minify (cx_plain ++ [0]) = Ok b' /\
                cJSON_Parse strtod_ref never_fails (cx_plain ++ [0]) = Ok r0 /\
                cJSON_Parse strtod_ref never_fails b' = Ok r1 /\
                pr_tree r0 = Some (tree_of strtod_ref cx_v) /\ pr_tree r1 = pr_tree r0).
Proof. exact minify_then_parse_example. Qed.
Print Assumptions C13_minify_then_parse_nonvacuous.
